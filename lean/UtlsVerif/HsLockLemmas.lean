import UtlsVerif.HsLock
/-!
# HsLockLemmas — the inductive invariant of the handshake lock protocol

`Inv p c` holds in every configuration reachable by a skeleton `p` with `Disc p`
(`inv_reach`).  Per thread it says that the thread's dynamic state (defer stack, owned mutexes,
interrupter, what it knows about the shared result) is the abstract state the discipline walk
computes in front of its current statement, resp. that the remaining defer stack can be unwound.
The C26 theorems in `Props/C26.lean` are read off this invariant.
-/
namespace HsLock

/-! ### small-step algebra -/

@[simp] theorem upd_th_same (c : Config) (t : Nat) (f : Thread → Thread) : (c.upd t f).th t = f (c.th t) := by
  simp [Config.upd]
theorem upd_th_other (c : Config) {t u : Nat} (f : Thread → Thread) (h : t ≠ u) : (c.upd u f).th t = c.th t := by
  simp [Config.upd, h]
@[simp] theorem upd_hsOwner (c : Config) (t : Nat) (f : Thread → Thread) : (c.upd t f).hsOwner = c.hsOwner := rfl
@[simp] theorem upd_inOwner (c : Config) (t : Nat) (f : Thread → Thread) : (c.upd t f).inOwner = c.inOwner := rfl
@[simp] theorem upd_owner (c : Config) (t : Nat) (f : Thread → Thread) (m : Mu) : (c.upd t f).owner m = c.owner m := by
  cases m <;> rfl
@[simp] theorem upd_hsErr (c : Config) (t : Nat) (f : Thread → Thread) : (c.upd t f).hsErr = c.hsErr := rfl
@[simp] theorem upd_complete (c : Config) (t : Nat) (f : Thread → Thread) : (c.upd t f).complete = c.complete := rfl
@[simp] theorem upd_closed (c : Config) (t : Nat) (f : Thread → Thread) : (c.upd t f).closed = c.closed := rfl
@[simp] theorem upd_closers (c : Config) (t : Nat) (f : Thread → Thread) : (c.upd t f).closers = c.closers := rfl

@[simp] theorem setOwner_th (c : Config) (m : Mu) (v : Option Nat) : (c.setOwner m v).th = c.th := by cases m <;> rfl
@[simp] theorem setOwner_hsErr (c : Config) (m : Mu) (v : Option Nat) : (c.setOwner m v).hsErr = c.hsErr := by cases m <;> rfl
@[simp] theorem setOwner_complete (c : Config) (m : Mu) (v : Option Nat) : (c.setOwner m v).complete = c.complete := by cases m <;> rfl
@[simp] theorem setOwner_closed (c : Config) (m : Mu) (v : Option Nat) : (c.setOwner m v).closed = c.closed := by cases m <;> rfl
@[simp] theorem setOwner_closers (c : Config) (m : Mu) (v : Option Nat) : (c.setOwner m v).closers = c.closers := by cases m <;> rfl
theorem setOwner_owner (c : Config) (m m' : Mu) (v : Option Nat) :
    (c.setOwner m v).owner m' = if m' = m then v else c.owner m' := by
  cases m <;> cases m' <;> simp [Config.setOwner, Config.owner]
@[simp] theorem owner_hs (c : Config) : c.owner .hs = c.hsOwner := rfl
@[simp] theorem owner_inn (c : Config) : c.owner .inn = c.inOwner := rfl

/-! ### the invariant -/

/-- shared result: a stored error is one of the body's errors and excludes completion -/
def GInv (c : Config) : Prop :=
  ∀ e, c.hsErr = some e → (e = .hsFail ∨ e = .interrupted) ∧ c.complete = false

/-- what a value about to be returned (or returned) by caller `t` means -/
def RetOk (c : Config) (t : Nat) : Option Err → Prop
  | none => c.complete = true
  | some .hsFail => c.hsErr = some .hsFail
  | some .interrupted => c.hsErr = some .interrupted
  | some .buildFail => True
  | some (.ctx u) => u = t ∧ (c.th t).ctxCancelled = true ∧ c.closed = true ∧ t ∈ c.closers
  | some .ownCancel => False

/-- dynamic state of a running thread vs. the abstract state of the walk -/
structure Match (c : Config) (t : Nat) (a : Abs) : Prop where
  defers : (c.th t).defers = a.defers
  held : ∀ m, c.owner m = some t ↔ a.held m = true
  live : (c.th t).intr ≠ .off ↔ a.live = true
  errC : a.errChecked = true → c.hsOwner = some t ∧ c.hsErr = none
  doneC : a.doneChecked = true → c.hsOwner = some t ∧ c.complete = false
  bodyD : a.bodyDone = true → c.complete = true ∨ c.hsErr ≠ none

/-- mode-independent facts about a thread's interrupter -/
structure TBase (c : Config) (t : Nat) : Prop where
  res : ∀ e, (c.th t).intr = .res (some e) →
    e = .ctx t ∧ (c.th t).ctxCancelled = true ∧ c.closed = true ∧ t ∈ c.closers
  own : (c.th t).intr ≠ .off → (c.th t).ownCancelled = false

def TMode (p : List Stmt) (c : Config) (t : Nat) : Prop :=
  match (c.th t).mode with
  | .run =>
    (c.th t).ownCancelled = false ∧ Defer.recv ∉ (c.th t).defers ∧
    ∃ a, checkFrom (c.th t).canc (p.drop (c.th t).pc) a = true ∧ Match c t a ∧
      ((c.th t).inBody = true → p[(c.th t).pc]? = some .body)
  | .unwind =>
    (c.th t).inBody = false ∧
    unwindOk (c.th t).defers (decide (c.hsOwner = some t)) (decide (c.inOwner = some t))
      (decide ((c.th t).intr ≠ .off)) = true ∧
    (Defer.recv ∈ (c.th t).defers → (c.th t).doneClosed = true) ∧ RetOk c t (c.th t).ret
  | .done =>
    (c.th t).inBody = false ∧ c.hsOwner ≠ some t ∧ c.inOwner ≠ some t ∧ (c.th t).intr = .off ∧
    RetOk c t (c.th t).ret

def Inv (p : List Stmt) (c : Config) : Prop := GInv c ∧ ∀ t, TBase c t ∧ TMode p c t

/-! ### frame: what a step of actor `u` may change for everybody else -/

structure Frame (c c' : Config) (u : Nat) : Prop where
  th_eq : ∀ t, t ≠ u → c'.th t = c.th t
  own : ∀ m t, t ≠ u → (c'.owner m = some t ↔ c.owner m = some t)
  err : c'.hsErr = c.hsErr ∨ (c.hsOwner = some u ∧ c.hsErr = none)
  compl : c'.complete = c.complete ∨ (c.hsOwner = some u ∧ c'.complete = true)
  closed_mono : c.closed = true → c'.closed = true
  closers_mono : ∀ x, x ∈ c.closers → x ∈ c'.closers

theorem Frame.compl_mono {c c' : Config} {u : Nat} (f : Frame c c' u) (h : c.complete = true) : c'.complete = true := by
  rcases f.compl with h' | ⟨_, h'⟩
  · rw [h']; exact h
  · exact h'

theorem retOk_frame {c c' : Config} {u t : Nat} (f : Frame c c' u) (ht : t ≠ u) (r : Option Err)
    (h : RetOk c t r) : RetOk c' t r := by
  have herr : ∀ e, c.hsErr = some e → c'.hsErr = some e := by
    intro e he
    rcases f.err with h' | ⟨_, h'⟩
    · rw [h']; exact he
    · rw [h'] at he; cases he
  match r, h with
  | none, h => exact f.compl_mono h
  | some .hsFail, h => exact herr _ h
  | some .interrupted, h => exact herr _ h
  | some .buildFail, _ => trivial
  | some (.ctx v), h =>
    obtain ⟨h1, h2, h3, h4⟩ := h
    refine ⟨h1, ?_, f.closed_mono h3, f.closers_mono _ h4⟩
    rw [f.th_eq t ht]; exact h2
  | some .ownCancel, h => exact h.elim

theorem tbase_frame {c c' : Config} {u t : Nat} (f : Frame c c' u) (ht : t ≠ u) (h : TBase c t) : TBase c' t := by
  constructor
  · intro e he
    rw [f.th_eq t ht] at he ⊢
    obtain ⟨h1, h2, h3, h4⟩ := h.res e he
    exact ⟨h1, h2, f.closed_mono h3, f.closers_mono _ h4⟩
  · intro hne
    rw [f.th_eq t ht] at hne ⊢
    exact h.own hne

theorem match_frame {c c' : Config} {u t : Nat} (f : Frame c c' u) (ht : t ≠ u) {a : Abs}
    (h : Match c t a) : Match c' t a := by
  have hown : ∀ m, c'.owner m = some t ↔ c.owner m = some t := fun m => f.own m t ht
  have hhs : c.hsOwner = some t → c'.hsOwner = some t := fun h' => (hown .hs).2 h'
  have nou : c.hsOwner = some t → c.hsOwner ≠ some u := by
    intro h1 h2; rw [h1] at h2; exact ht (Option.some.inj h2)
  constructor
  · rw [f.th_eq t ht]; exact h.defers
  · intro m; rw [hown m]; exact h.held m
  · rw [f.th_eq t ht]; exact h.live
  · intro ha
    obtain ⟨h1, h2⟩ := h.errC ha
    refine ⟨hhs h1, ?_⟩
    rcases f.err with h' | ⟨h', _⟩
    · rw [h']; exact h2
    · exact absurd h' (nou h1)
  · intro ha
    obtain ⟨h1, h2⟩ := h.doneC ha
    refine ⟨hhs h1, ?_⟩
    rcases f.compl with h' | ⟨h', _⟩
    · rw [h']; exact h2
    · exact absurd h' (nou h1)
  · intro ha
    rcases h.bodyD ha with h1 | h1
    · exact Or.inl (f.compl_mono h1)
    · rcases f.err with h' | ⟨_, h'⟩
      · right; rw [h']; exact h1
      · exact absurd h' h1

theorem tmode_frame {p : List Stmt} {c c' : Config} {u t : Nat} (f : Frame c c' u) (ht : t ≠ u)
    (h : TMode p c t) : TMode p c' t := by
  unfold TMode at h ⊢
  have hth := f.th_eq t ht
  have e1 : (c'.hsOwner = some t) = (c.hsOwner = some t) := propext (f.own .hs t ht)
  have e2 : (c'.inOwner = some t) = (c.inOwner = some t) := propext (f.own .inn t ht)
  rw [hth]
  cases hm : (c.th t).mode <;> rw [hm] at h <;> simp only at h ⊢
  · obtain ⟨h1, h2, a, h3, h4, h5⟩ := h
    exact ⟨h1, h2, a, h3, match_frame f ht h4, h5⟩
  · obtain ⟨h1, h2, h3, h4⟩ := h
    refine ⟨h1, ?_, h3, ?_⟩
    · simp only [e1, e2]; exact h2
    · have := retOk_frame f ht _ h4
      exact this
  · obtain ⟨h1, h2, h3, h4, h5⟩ := h
    refine ⟨h1, ?_, ?_, h4, retOk_frame f ht _ h5⟩
    · intro x; exact h2 ((f.own .hs t ht).1 x)
    · intro x; exact h3 ((f.own .inn t ht).1 x)

/-- frame of a step that only rewrites the actor's thread record -/
theorem frame_upd (c : Config) (u : Nat) (g : Thread → Thread) : Frame c (c.upd u g) u :=
  { th_eq := fun _ ht => upd_th_other c g ht
    own := fun m t _ => by simp
    err := Or.inl rfl
    compl := Or.inl rfl
    closed_mono := fun h => h
    closers_mono := fun _ h => h }

theorem frame_lock (c : Config) (u : Nat) (m : Mu) (g : Thread → Thread) (h : c.owner m = none) :
    Frame c ((c.setOwner m (some u)).upd u g) u :=
  { th_eq := fun t ht => by rw [upd_th_other _ g ht]; simp
    own := fun m' t ht => by
      simp only [upd_owner, setOwner_owner]
      by_cases hm : m' = m
      · subst hm
        simp only [if_true, h]
        constructor
        · intro x; exact absurd (Option.some.inj x).symm ht
        · intro x; cases x
      · simp [hm]
    err := Or.inl (by simp)
    compl := Or.inl (by simp)
    closed_mono := fun h => by simpa using h
    closers_mono := fun _ h => by simpa using h }

theorem frame_unlock (c : Config) (u : Nat) (m : Mu) (g : Thread → Thread) (h : c.owner m = some u) :
    Frame c ((c.setOwner m none).upd u g) u :=
  { th_eq := fun t ht => by rw [upd_th_other _ g ht]; simp
    own := fun m' t ht => by
      simp only [upd_owner, setOwner_owner]
      by_cases hm : m' = m
      · subst hm
        simp only [if_true, h]
        constructor
        · intro x; cases x
        · intro x; exact absurd (Option.some.inj x).symm ht
      · simp [hm]
    err := Or.inl (by simp)
    compl := Or.inl (by simp)
    closed_mono := fun h => by simpa using h
    closers_mono := fun _ h => by simpa using h }

/-! ### environment-style steps: thread `t`'s record changes only in its interrupter / context flag -/

structure Env (c c' : Config) (t : Nat) : Prop where
  mode : (c'.th t).mode = (c.th t).mode
  pc : (c'.th t).pc = (c.th t).pc
  defers : (c'.th t).defers = (c.th t).defers
  ret : (c'.th t).ret = (c.th t).ret
  inBody : (c'.th t).inBody = (c.th t).inBody
  canc : (c'.th t).canc = (c.th t).canc
  ownC : (c'.th t).ownCancelled = (c.th t).ownCancelled
  doneClosed : (c'.th t).doneClosed = (c.th t).doneClosed
  live : (c'.th t).intr ≠ .off ↔ (c.th t).intr ≠ .off
  ctx : (c.th t).ctxCancelled = true → (c'.th t).ctxCancelled = true
  hsOwner : c'.hsOwner = c.hsOwner
  inOwner : c'.inOwner = c.inOwner
  hsErr : c'.hsErr = c.hsErr
  complete : c'.complete = c.complete
  closed_mono : c.closed = true → c'.closed = true
  closers_mono : ∀ x, x ∈ c.closers → x ∈ c'.closers

theorem retOk_env {c c' : Config} {t : Nat} (e : Env c c' t) (r : Option Err) (h : RetOk c t r) : RetOk c' t r := by
  match r, h with
  | none, h => show c'.complete = true; rw [e.complete]; exact h
  | some .hsFail, h => show c'.hsErr = _; rw [e.hsErr]; exact h
  | some .interrupted, h => show c'.hsErr = _; rw [e.hsErr]; exact h
  | some .buildFail, _ => trivial
  | some (.ctx v), h =>
    obtain ⟨h1, h2, h3, h4⟩ := h
    exact ⟨h1, e.ctx h2, e.closed_mono h3, e.closers_mono _ h4⟩
  | some .ownCancel, h => exact h.elim

theorem Env.owner {c c' : Config} {t : Nat} (e : Env c c' t) (m : Mu) : c'.owner m = c.owner m := by
  cases m
  · exact e.hsOwner
  · exact e.inOwner

theorem tmode_env {p : List Stmt} {c c' : Config} {t : Nat} (e : Env c c' t) (h : TMode p c t) : TMode p c' t := by
  unfold TMode at h ⊢
  rw [e.mode]
  have elive : ((c'.th t).intr ≠ .off) = ((c.th t).intr ≠ .off) := propext e.live
  cases hm : (c.th t).mode <;> rw [hm] at h <;> simp only at h ⊢
  · obtain ⟨h1, h2, a, h3, h4, h5⟩ := h
    refine ⟨by rw [e.ownC]; exact h1, by rw [e.defers]; exact h2, a, by rw [e.canc, e.pc]; exact h3, ?_, by rw [e.inBody, e.pc]; exact h5⟩
    exact {
      defers := by rw [e.defers]; exact h4.defers
      held := fun m => by rw [e.owner m]; exact h4.held m
      live := by rw [elive]; exact h4.live
      errC := fun ha => by rw [e.hsOwner, e.hsErr]; exact h4.errC ha
      doneC := fun ha => by rw [e.hsOwner, e.complete]; exact h4.doneC ha
      bodyD := fun ha => by rw [e.hsErr, e.complete]; exact h4.bodyD ha }
  · obtain ⟨h1, h2, h3, h4⟩ := h
    refine ⟨by rw [e.inBody]; exact h1, ?_, by rw [e.defers, e.doneClosed]; exact h3, by rw [e.ret]; exact retOk_env e _ h4⟩
    rw [e.defers, e.hsOwner, e.inOwner]
    simp only [elive]
    exact h2
  · obtain ⟨h1, h2, h3, h4, h5⟩ := h
    refine ⟨by rw [e.inBody]; exact h1, by rw [e.hsOwner]; exact h2, by rw [e.inOwner]; exact h3, ?_, by rw [e.ret]; exact retOk_env e _ h5⟩
    have : ¬ ((c'.th t).intr ≠ .off) := by rw [elive]; simp [h4]
    simpa using this

/-! ### assembling `Inv` after a step of actor `u` -/

theorem inv_of_frame {p : List Stmt} {c c' : Config} {u : Nat} (hi : Inv p c) (f : Frame c c' u)
    (hg : GInv c') (hb : TBase c' u) (hm : TMode p c' u) : Inv p c' := by
  refine ⟨hg, fun t => ?_⟩
  by_cases ht : t = u
  · subst ht; exact ⟨hb, hm⟩
  · exact ⟨tbase_frame f ht (hi.2 t).1, tmode_frame f ht (hi.2 t).2⟩

theorem ginv_same {c c' : Config} (hg : GInv c) (h1 : c'.hsErr = c.hsErr) (h2 : c'.complete = c.complete) : GInv c' := by
  intro e he; rw [h1] at he; rw [h2]; exact hg e he

theorem tbase_of_eq {c c' : Config} {u : Nat} (h : TBase c u)
    (hi : (c'.th u).intr = (c.th u).intr) (ho : (c'.th u).ownCancelled = (c.th u).ownCancelled)
    (hc : (c'.th u).ctxCancelled = (c.th u).ctxCancelled)
    (hcl : c'.closed = c.closed) (hcs : c'.closers = c.closers) : TBase c' u := by
  constructor
  · intro e he; rw [hi] at he; rw [hc, hcl, hcs]; exact h.res e he
  · intro hne; rw [hi] at hne; rw [ho]; exact h.own hne

theorem drop_cons {α : Type} : ∀ (p : List α) (n : Nat) (s : α) (rest : List α),
    p.drop n = s :: rest → p[n]? = some s ∧ p.drop (n + 1) = rest
  | [], n, s, rest, h => by simp at h
  | x :: xs, 0, s, rest, h => by simp at h; simp [h]
  | x :: xs, n + 1, s, rest, h => by
    simp only [List.drop_succ_cons] at h
    simpa using drop_cons xs n s rest h

theorem Match.unwind {c : Config} {u : Nat} {a : Abs} (hM : Match c u a) (h : a.retOk = true) :
    unwindOk (c.th u).defers (decide (c.hsOwner = some u)) (decide (c.inOwner = some u))
      (decide ((c.th u).intr ≠ .off)) = true := by
  have e1 : decide (c.hsOwner = some u) = a.hs := by
    have := hM.held .hs
    simp only [owner_hs, Abs.held] at this
    cases hh : a.hs <;> simp [hh] at this ⊢ <;> exact this
  have e2 : decide (c.inOwner = some u) = a.inn := by
    have := hM.held .inn
    simp only [owner_inn, Abs.held] at this
    cases hh : a.inn <;> simp [hh] at this ⊢ <;> exact this
  have e3 : decide ((c.th u).intr ≠ .off) = a.live := by
    have := hM.live
    cases hh : a.live <;> simp [hh] at this ⊢ <;> exact this
  rw [hM.defers, e1, e2, e3]; exact h

theorem tmode_run {p : List Stmt} {c' : Config} {u : Nat} {rest : List Stmt} {a' : Abs} {pc : Nat}
    (hmode : (c'.th u).mode = .run) (hpc : (c'.th u).pc = pc) (hdrop : p.drop pc = rest)
    (hoc : (c'.th u).ownCancelled = false) (hrecv : Defer.recv ∉ (c'.th u).defers)
    (hck : checkFrom (c'.th u).canc rest a' = true) (hM : Match c' u a')
    (hB : (c'.th u).inBody = true → p[pc]? = some .body) : TMode p c' u := by
  unfold TMode; rw [hmode]; simp only
  exact ⟨hoc, hrecv, a', by rw [hpc, hdrop]; exact hck, hM, by rw [hpc]; exact hB⟩

theorem tmode_unwind {p : List Stmt} {c' : Config} {u : Nat}
    (hmode : (c'.th u).mode = .unwind) (hB : (c'.th u).inBody = false)
    (hu : unwindOk (c'.th u).defers (decide (c'.hsOwner = some u)) (decide (c'.inOwner = some u))
      (decide ((c'.th u).intr ≠ .off)) = true)
    (hr : Defer.recv ∈ (c'.th u).defers → (c'.th u).doneClosed = true)
    (hret : RetOk c' u (c'.th u).ret) : TMode p c' u := by
  unfold TMode; rw [hmode]; simp only
  exact ⟨hB, hu, hr, hret⟩

/-! ### a running thread takes a step -/


theorem retOk_upd {c : Config} {u : Nat} {g : Thread → Thread} (hctx : (g (c.th u)).ctxCancelled = (c.th u).ctxCancelled)
    (r : Option Err) (h : RetOk c u r) : RetOk (c.upd u g) u r := by
  match r, h with
  | none, h => exact h
  | some .hsFail, h => exact h
  | some .interrupted, h => exact h
  | some .buildFail, _ => trivial
  | some (.ctx v), h =>
    obtain ⟨h1, h2, h3, h4⟩ := h
    refine ⟨h1, ?_, h3, h4⟩
    rw [upd_th_same, hctx]; exact h2
  | some .ownCancel, h => exact h.elim

/-- a running thread starts to return `r` from an acceptable return site -/
theorem run_ret {p : List Stmt} {c : Config} {u : Nat} {a : Abs} {r : Option Err}
    (hi : Inv p c) (hM : Match c u a) (hrecv : Defer.recv ∉ (c.th u).defers)
    (hnb : (c.th u).inBody = false) (hok : a.retOk = true) (hr : RetOk c u r) :
    Inv p (c.upd u fun th => retWith th r) := by
  refine inv_of_frame hi (frame_upd c u _) (ginv_same hi.1 rfl rfl) ?_ ?_
  · exact tbase_of_eq (hi.2 u).1 (by simp [retWith]) (by simp [retWith]) (by simp [retWith]) rfl rfl
  · apply tmode_unwind
    · simp [retWith]
    · simpa [retWith] using hnb
    · have := hM.unwind hok
      rw [upd_th_same]; exact this
    · intro h; simp [retWith] at h; exact absurd h hrecv
    · have := retOk_upd (c := c) (u := u) (g := fun th => retWith th r) (by simp [retWith]) r hr
      simpa [retWith] using this

/-- fall-through of a statement that only rewrites the actor's thread record (defers / interrupter) -/
theorem run_fall {p : List Stmt} {c : Config} {u : Nat} {rest : List Stmt} {a' : Abs} {g : Thread → Thread}
    (hi : Inv p c) (hdrop : p.drop ((c.th u).pc + 1) = rest)
    (gmode : (g (c.th u)).mode = .run) (gpc : (g (c.th u)).pc = (c.th u).pc + 1)
    (gcanc : (g (c.th u)).canc = (c.th u).canc)
    (goc : (g (c.th u)).ownCancelled = false) (gctx : (g (c.th u)).ctxCancelled = (c.th u).ctxCancelled)
    (gbody : (g (c.th u)).inBody = false)
    (grecv : Defer.recv ∉ (g (c.th u)).defers)
    (gres : ∀ e, (g (c.th u)).intr = .res (some e) → (c.th u).intr = .res (some e))
    (hck : checkFrom (c.th u).canc rest a' = true)
    (hM : Match (c.upd u g) u a') : Inv p (c.upd u g) := by
  refine inv_of_frame hi (frame_upd c u _) (ginv_same hi.1 rfl rfl) ?_ ?_
  · constructor
    · intro e he
      rw [upd_th_same] at he ⊢
      have := (hi.2 u).1.res e (gres e he)
      rw [gctx]; exact this
    · intro _; rw [upd_th_same]; exact goc
  · refine tmode_run (pc := (c.th u).pc + 1) ?_ ?_ hdrop ?_ ?_ ?_ hM ?_
    · rw [upd_th_same]; exact gmode
    · rw [upd_th_same]; exact gpc
    · rw [upd_th_same]; exact goc
    · rw [upd_th_same]; exact grecv
    · rw [upd_th_same, gcanc]; exact hck
    · rw [upd_th_same, gbody]; intro h; cases h

theorem match_upd {c : Config} {u : Nat} {g : Thread → Thread} {a a' : Abs} (hM : Match c u a)
    (hdef : (g (c.th u)).defers = a'.defers) (hheld : ∀ m, a'.held m = a.held m)
    (hlive : (g (c.th u)).intr ≠ .off ↔ a'.live = true)
    (herr : a'.errChecked = true → c.hsOwner = some u ∧ c.hsErr = none)
    (hdone : a'.doneChecked = true → c.hsOwner = some u ∧ c.complete = false)
    (hbd : a'.bodyDone = true → c.complete = true ∨ c.hsErr ≠ none) : Match (c.upd u g) u a' :=
  { defers := by rw [upd_th_same]; exact hdef
    held := fun m => by rw [upd_owner, hheld m]; exact hM.held m
    live := by rw [upd_th_same]; exact hlive
    errC := herr
    doneC := hdone
    bodyD := hbd }

theorem held_hs {c : Config} {u : Nat} {a : Abs} (hM : Match c u a) (h : a.hs = true) : c.hsOwner = some u :=
  (hM.held .hs).2 h
theorem held_inn {c : Config} {u : Nat} {a : Abs} (hM : Match c u a) (h : a.inn = true) : c.inOwner = some u :=
  (hM.held .inn).2 h

theorem upd_congr {c : Config} {u : Nat} {g g' : Thread → Thread} (h : g (c.th u) = g' (c.th u)) :
    c.upd u g = c.upd u g' := by
  unfold Config.upd
  congr 1
  funext i
  by_cases hi : i = u
  · subst hi; simp [h]
  · simp [hi]

theorem lock_th (c : Config) (m : Mu) (v : Option Nat) (u : Nat) (g : Thread → Thread) :
    ((c.setOwner m v).upd u g).th u = g (c.th u) := by
  rw [upd_th_same, setOwner_th]

theorem frame_body (c : Config) (u : Nat) (g : Thread → Thread) (x : Option Err) (y : Bool)
    (hown : c.hsOwner = some u) (hnone : c.hsErr = none) (hy : y = c.complete ∨ y = true) :
    Frame c (({ c with hsErr := x, complete := y } : Config).upd u g) u :=
  { th_eq := fun t ht => by rw [upd_th_other _ g ht]
    own := fun m t _ => by cases m <;> simp [Config.owner]
    err := Or.inr ⟨hown, hnone⟩
    compl := by
      rcases hy with h | h
      · exact Or.inl h
      · exact Or.inr ⟨hown, h⟩
    closed_mono := fun h => h
    closers_mono := fun _ h => h }

theorem step_run {p : List Stmt} {c c' : Config} {u : Nat} {o : Outcome} (hi : Inv p c)
    (hmode : (c.th u).mode = .run) (hs : step p c (.step u o) = some c') : Inv p c' := by
  have hT := (hi.2 u).2
  unfold TMode at hT; rw [hmode] at hT; simp only at hT
  obtain ⟨hoc, hrecv, a, hck, hM, hB⟩ := hT
  cases hdrop : p.drop (c.th u).pc with
  | nil => rw [hdrop] at hck; simp [checkFrom] at hck
  | cons s rest =>
    rw [hdrop] at hck
    obtain ⟨hget, hdrop1⟩ := drop_cons _ _ _ _ hdrop
    simp only [checkFrom, Bool.and_eq_true, Bool.or_eq_true] at hck
    obtain ⟨hok, hrest⟩ := hck
    simp only [step, hmode, hget] at hs
    have hnb : s ≠ .body → (c.th u).inBody = false := by
      intro hne
      cases hb : (c.th u).inBody with
      | false => rfl
      | true => have := hB hb; rw [hget] at this; exact absurd (Option.some.inj this) hne
    cases s with
    | checkDone =>
      simp only [stepStmt, Option.some.injEq] at hs; subst hs
      have hnb' := hnb (by simp)
      simp only [stmtOk] at hok
      cases hc : c.complete with
      | true =>
        simp only [if_true]
        exact run_ret hi hM hrecv hnb' hok hc
      | false =>
        simp only [Bool.false_eq_true, if_false]
        simp only [isRet, Bool.false_eq_true, false_or] at hrest
        refine run_fall hi hdrop1 hmode rfl rfl hoc rfl hnb' hrecv (fun e h => h) hrest ?_
        refine match_upd hM hM.defers (fun m => by cases m <;> rfl) hM.live hM.errC ?_ hM.bodyD
        intro h
        simp only [eff] at h
        exact ⟨held_hs hM h, hc⟩
    | deferCancel =>
      simp only [stepStmt, Option.some.injEq] at hs; subst hs
      have hnb' := hnb (by simp)
      simp only [isRet, Bool.false_eq_true, false_or] at hrest
      refine run_fall hi hdrop1 hmode rfl rfl hoc rfl hnb' ?_ (fun e h => h) hrest ?_
      · show Defer.recv ∉ Defer.cancel :: (c.th u).defers
        simp [hrecv]
      · refine match_upd hM ?_ (fun m => by cases m <;> rfl) hM.live hM.errC hM.doneC hM.bodyD
        show Defer.cancel :: (c.th u).defers = Defer.cancel :: a.defers
        rw [hM.defers]
    | deferUnlock m =>
      simp only [stepStmt, Option.some.injEq] at hs; subst hs
      have hnb' := hnb (by simp)
      simp only [isRet, Bool.false_eq_true, false_or] at hrest
      refine run_fall hi hdrop1 hmode rfl rfl hoc rfl hnb' ?_ (fun e h => h) hrest ?_
      · show Defer.recv ∉ Defer.unlock m :: (c.th u).defers
        simp [hrecv]
      · refine match_upd hM ?_ (fun m => by cases m <;> rfl) hM.live hM.errC hM.doneC hM.bodyD
        show Defer.unlock m :: (c.th u).defers = Defer.unlock m :: a.defers
        rw [hM.defers]
    | deferJoin =>
      simp only [stepStmt, Option.some.injEq] at hs; subst hs
      have hnb' := hnb (by simp)
      simp only [isRet, Bool.false_eq_true, false_or] at hrest
      cases hcanc : (c.th u).canc with
      | true =>
        rw [upd_congr (g' := fun th => next { th with defers := .join :: th.defers }) (by simp [hcanc])]
        simp only [eff, hcanc, if_true] at hrest
        refine run_fall hi hdrop1 hmode rfl rfl hoc rfl hnb' ?_ (fun e h => h) (by rw [hcanc]; exact hrest) ?_
        · show Defer.recv ∉ Defer.join :: (c.th u).defers
          simp [hrecv]
        · refine match_upd hM ?_ (fun m => by cases m <;> rfl) hM.live hM.errC hM.doneC hM.bodyD
          show Defer.join :: (c.th u).defers = Defer.join :: a.defers
          rw [hM.defers]
      | false =>
        rw [upd_congr (g' := next) (by simp [hcanc])]
        simp only [eff, hcanc, Bool.false_eq_true, if_false] at hrest
        refine run_fall hi hdrop1 hmode rfl rfl hoc rfl hnb' hrecv (fun e h => h) (by rw [hcanc]; exact hrest) ?_
        exact match_upd hM hM.defers (fun m => rfl) hM.live hM.errC hM.doneC hM.bodyD
    | deferSignal =>
      simp only [stepStmt, Option.some.injEq] at hs; subst hs
      have hnb' := hnb (by simp)
      simp only [isRet, Bool.false_eq_true, false_or] at hrest
      cases hcanc : (c.th u).canc with
      | true =>
        rw [upd_congr (g' := fun th => next { th with defers := .signal :: th.defers }) (by simp [hcanc])]
        simp only [eff, hcanc, if_true] at hrest
        refine run_fall hi hdrop1 hmode rfl rfl hoc rfl hnb' ?_ (fun e h => h) (by rw [hcanc]; exact hrest) ?_
        · show Defer.recv ∉ Defer.signal :: (c.th u).defers
          simp [hrecv]
        · refine match_upd hM ?_ (fun m => by cases m <;> rfl) hM.live hM.errC hM.doneC hM.bodyD
          show Defer.signal :: (c.th u).defers = Defer.signal :: a.defers
          rw [hM.defers]
      | false =>
        rw [upd_congr (g' := next) (by simp [hcanc])]
        simp only [eff, hcanc, Bool.false_eq_true, if_false] at hrest
        refine run_fall hi hdrop1 hmode rfl rfl hoc rfl hnb' hrecv (fun e h => h) (by rw [hcanc]; exact hrest) ?_
        exact match_upd hM hM.defers (fun m => rfl) hM.live hM.errC hM.doneC hM.bodyD
    | spawnIntr =>
      simp only [stepStmt, Option.some.injEq] at hs; subst hs
      have hnb' := hnb (by simp)
      simp only [isRet, Bool.false_eq_true, false_or] at hrest
      cases hcanc : (c.th u).canc with
      | true =>
        rw [upd_congr (g' := fun th => next { th with intr := .armed }) (by simp [hcanc])]
        simp only [eff, hcanc, if_true] at hrest
        refine run_fall hi hdrop1 hmode rfl rfl hoc rfl hnb' hrecv (fun e h => by cases h) (by rw [hcanc]; exact hrest) ?_
        refine match_upd hM hM.defers (fun m => by cases m <;> rfl) ?_ hM.errC hM.doneC hM.bodyD
        show Intr.armed ≠ Intr.off ↔ true = true
        simp
      | false =>
        rw [upd_congr (g' := next) (by simp [hcanc])]
        simp only [eff, hcanc, Bool.false_eq_true, if_false] at hrest
        refine run_fall hi hdrop1 hmode rfl rfl hoc rfl hnb' hrecv (fun e h => h) (by rw [hcanc]; exact hrest) ?_
        exact match_upd hM hM.defers (fun m => rfl) hM.live hM.errC hM.doneC hM.bodyD
    | touchErr =>
      simp only [stepStmt, Option.some.injEq] at hs; subst hs
      have hnb' := hnb (by simp)
      simp only [isRet, Bool.false_eq_true, false_or] at hrest
      refine run_fall hi hdrop1 hmode rfl rfl hoc rfl hnb' hrecv (fun e h => h) hrest ?_
      exact match_upd hM hM.defers (fun m => rfl) hM.live hM.errC hM.doneC hM.bodyD
    | setDone => simp [stmtOk] at hok
    | retUnk => simp [stmtOk] at hok
    | retErr =>
      simp only [stepStmt, Option.some.injEq] at hs; subst hs
      have hnb' := hnb (by simp)
      simp only [stmtOk, Bool.and_eq_true] at hok
      obtain ⟨⟨_, hbd⟩, hret⟩ := hok
      refine run_ret hi hM hrecv hnb' hret ?_
      cases herr : c.hsErr with
      | none =>
        rcases hM.bodyD hbd with h | h
        · exact h
        · exact absurd herr h
      | some e =>
        rcases (hi.1 e herr).1 with h | h <;> subst h <;> exact herr
    | build =>
      have hnb' := hnb (by simp)
      simp only [stmtOk, Bool.and_eq_true] at hok
      obtain ⟨_, hret⟩ := hok
      simp only [isRet, Bool.false_eq_true, false_or] at hrest
      cases o with
      | ok =>
        simp only [stepStmt, Option.some.injEq] at hs; subst hs
        refine run_fall hi hdrop1 hmode rfl rfl hoc rfl hnb' hrecv (fun e h => h) hrest ?_
        exact match_upd hM hM.defers (fun m => rfl) hM.live hM.errC hM.doneC hM.bodyD
      | err =>
        simp only [stepStmt, Option.some.injEq] at hs; subst hs
        exact run_ret hi hM hrecv hnb' hret trivial
      | interrupted =>
        simp only [stepStmt, Option.some.injEq] at hs; subst hs
        exact run_ret hi hM hrecv hnb' hret trivial
    | checkErr =>
      have hnb' := hnb (by simp)
      simp only [stmtOk, Bool.and_eq_true] at hok
      obtain ⟨hhs, hret⟩ := hok
      simp only [isRet, Bool.false_eq_true, false_or] at hrest
      cases herr : c.hsErr with
      | some e =>
        simp only [stepStmt, herr, Option.some.injEq] at hs; subst hs
        refine run_ret hi hM hrecv hnb' hret ?_
        rcases (hi.1 e herr).1 with h | h <;> subst h <;> exact herr
      | none =>
        simp only [stepStmt, herr, Option.some.injEq] at hs; subst hs
        refine run_fall hi hdrop1 hmode rfl rfl hoc rfl hnb' hrecv (fun e h => h) hrest ?_
        refine match_upd hM hM.defers (fun m => by cases m <;> rfl) hM.live ?_ hM.doneC hM.bodyD
        intro h
        simp only [eff] at h
        exact ⟨held_hs hM h, herr⟩
    | lock m =>
      have hnb' := hnb (by simp)
      simp only [isRet, Bool.false_eq_true, false_or] at hrest
      by_cases hfree : c.owner m = none
      · simp only [stepStmt, hfree, if_true, Option.some.injEq] at hs; subst hs
        refine inv_of_frame hi (frame_lock c u m _ hfree) (ginv_same hi.1 (by simp) (by simp)) ?_ ?_
        · exact tbase_of_eq (hi.2 u).1 (by rw [lock_th]; rfl) (by rw [lock_th]; rfl) (by rw [lock_th]; rfl) (by simp) (by simp)
        · refine tmode_run (pc := (c.th u).pc + 1) (a' := eff (c.th u).canc (.lock m) a) ?_ ?_ hdrop1 ?_ ?_ ?_ ?_ ?_
          · rw [lock_th]; exact hmode
          · rw [lock_th]; rfl
          · rw [lock_th]; exact hoc
          · rw [lock_th]; exact hrecv
          · rw [lock_th]; exact hrest
          · cases m with
            | hs =>
              exact {
                defers := by rw [lock_th]; exact hM.defers
                held := fun m' => by
                  cases m' with
                  | hs => simp [Config.setOwner, Config.owner, eff, Abs.setHeld, Abs.held]
                  | inn =>
                    have := hM.held .inn
                    simpa [Config.setOwner, Config.owner, eff, Abs.setHeld, Abs.held] using this
                live := by rw [lock_th]; exact hM.live
                errC := fun h => by
                  simp only [eff, Abs.setHeld, Bool.and_true] at h
                  exact ⟨by simp [Config.setOwner], by simpa using (hM.errC h).2⟩
                doneC := fun h => by
                  simp only [eff, Abs.setHeld, Bool.and_true] at h
                  exact ⟨by simp [Config.setOwner], by simpa using (hM.doneC h).2⟩
                bodyD := fun h => by simpa using hM.bodyD h }
            | inn =>
              exact {
                defers := by rw [lock_th]; exact hM.defers
                held := fun m' => by
                  cases m' with
                  | inn => simp [Config.setOwner, Config.owner, eff, Abs.setHeld, Abs.held]
                  | hs =>
                    have := hM.held .hs
                    simpa [Config.setOwner, Config.owner, eff, Abs.setHeld, Abs.held] using this
                live := by rw [lock_th]; exact hM.live
                errC := fun h => by simpa [Config.setOwner] using hM.errC h
                doneC := fun h => by simpa [Config.setOwner] using hM.doneC h
                bodyD := fun h => by simpa using hM.bodyD h }
          · rw [lock_th]; intro h; rw [show (next (c.th u)).inBody = (c.th u).inBody from rfl, hnb'] at h; cases h
      · simp [stepStmt, hfree] at hs
    | unlock m =>
      have hnb' := hnb (by simp)
      simp only [isRet, Bool.false_eq_true, false_or] at hrest
      simp only [stmtOk] at hok
      have hmine : c.owner m = some u := (hM.held m).2 hok
      simp only [stepStmt, hmine, if_true, Option.some.injEq] at hs; subst hs
      refine inv_of_frame hi (frame_unlock c u m _ hmine) (ginv_same hi.1 (by simp) (by simp)) ?_ ?_
      · exact tbase_of_eq (hi.2 u).1 (by rw [lock_th]; rfl) (by rw [lock_th]; rfl) (by rw [lock_th]; rfl) (by simp) (by simp)
      · refine tmode_run (pc := (c.th u).pc + 1) (a' := eff (c.th u).canc (.unlock m) a) ?_ ?_ hdrop1 ?_ ?_ ?_ ?_ ?_
        · rw [lock_th]; exact hmode
        · rw [lock_th]; rfl
        · rw [lock_th]; exact hoc
        · rw [lock_th]; exact hrecv
        · rw [lock_th]; exact hrest
        · cases m with
          | hs =>
            exact {
              defers := by rw [lock_th]; exact hM.defers
              held := fun m' => by
                cases m' with
                | hs => simp [Config.setOwner, Config.owner, eff, Abs.setHeld, Abs.held]
                | inn =>
                  have := hM.held .inn
                  simpa [Config.setOwner, Config.owner, eff, Abs.setHeld, Abs.held] using this
              live := by rw [lock_th]; exact hM.live
              errC := fun h => by simp [eff, Abs.setHeld] at h
              doneC := fun h => by simp [eff, Abs.setHeld] at h
              bodyD := fun h => by simpa using hM.bodyD h }
          | inn =>
            exact {
              defers := by rw [lock_th]; exact hM.defers
              held := fun m' => by
                cases m' with
                | inn => simp [Config.setOwner, Config.owner, eff, Abs.setHeld, Abs.held]
                | hs =>
                  have := hM.held .hs
                  simpa [Config.setOwner, Config.owner, eff, Abs.setHeld, Abs.held] using this
              live := by rw [lock_th]; exact hM.live
              errC := fun h => by simpa [Config.setOwner] using hM.errC h
              doneC := fun h => by simpa [Config.setOwner] using hM.doneC h
              bodyD := fun h => by simpa using hM.bodyD h }
        · rw [lock_th]; intro h; rw [show (next (c.th u)).inBody = (c.th u).inBody from rfl, hnb'] at h; cases h
    | body =>
      simp only [stmtOk, Bool.and_eq_true] at hok
      obtain ⟨⟨⟨hhs, hin⟩, hec⟩, hdc⟩ := hok
      obtain ⟨hown, hnone⟩ := hM.errC hec
      obtain ⟨_, hncomp⟩ := hM.doneC hdc
      simp only [isRet, Bool.false_eq_true, false_or] at hrest
      cases hb : (c.th u).inBody with
      | false =>
        simp only [stepStmt, hb, Bool.false_eq_true, if_false, Option.some.injEq] at hs; subst hs
        refine inv_of_frame hi (frame_upd c u _) (ginv_same hi.1 rfl rfl) ?_ ?_
        · exact tbase_of_eq (hi.2 u).1 (by rw [upd_th_same]) (by rw [upd_th_same]) (by rw [upd_th_same]) rfl rfl
        · refine tmode_run (pc := (c.th u).pc) (a' := a) ?_ ?_ hdrop ?_ ?_ ?_ ?_ ?_
          · rw [upd_th_same]; exact hmode
          · rw [upd_th_same]
          · rw [upd_th_same]; exact hoc
          · rw [upd_th_same]; exact hrecv
          · rw [upd_th_same]
            show checkFrom (c.th u).canc (Stmt.body :: rest) a = true
            simp [checkFrom, stmtOk, hhs, hin, hec, hdc, isRet, hrest]
          · exact match_upd hM hM.defers (fun m => rfl) hM.live hM.errC hM.doneC hM.bodyD
          · intro _; exact hget
      | true =>
        have hfin : ∀ (x : Option Err) (y : Bool), (y = c.complete ∨ y = true) →
            (∀ e, x = some e → (e = .hsFail ∨ e = .interrupted) ∧ y = false) →
            (y = true ∨ x ≠ none) →
            Inv p (({ c with hsErr := x, complete := y } : Config).upd u fun th => next { th with inBody := false }) := by
          intro x y hy hg hset
          refine inv_of_frame hi (frame_body c u _ x y hown hnone hy) hg ?_ ?_
          · exact tbase_of_eq (hi.2 u).1 (by rw [upd_th_same]; rfl) (by rw [upd_th_same]; rfl) (by rw [upd_th_same]; rfl) rfl rfl
          · refine tmode_run (pc := (c.th u).pc + 1) (a' := eff (c.th u).canc .body a) ?_ ?_ hdrop1 ?_ ?_ ?_ ?_ ?_
            · rw [upd_th_same]; exact hmode
            · rw [upd_th_same]; rfl
            · rw [upd_th_same]; exact hoc
            · rw [upd_th_same]; exact hrecv
            · rw [upd_th_same]; exact hrest
            · exact {
                defers := by rw [upd_th_same]; exact hM.defers
                held := fun m => by
                  have := hM.held m
                  cases m <;> simpa [Config.owner, eff, Abs.held] using this
                live := by rw [upd_th_same]; exact hM.live
                errC := fun h => by simp [eff] at h
                doneC := fun h => by simp [eff] at h
                bodyD := fun _ => hset }
            · rw [upd_th_same]; intro h; cases h
        cases o with
        | ok =>
          simp only [stepStmt, hb, if_true, Option.some.injEq] at hs; subst hs
          exact hfin none true (Or.inr rfl) (fun e h => by cases h) (Or.inl rfl)
        | err =>
          simp only [stepStmt, hb, if_true, Option.some.injEq] at hs; subst hs
          refine hfin (some .hsFail) c.complete (Or.inl rfl) (fun e h => ?_) (Or.inr (by simp))
          cases h; exact ⟨Or.inl rfl, hncomp⟩
        | interrupted =>
          simp only [stepStmt, hb, if_true] at hs
          by_cases hcl : c.closed = true
          · rw [if_pos hcl] at hs
            simp only [Option.some.injEq] at hs; subst hs
            refine hfin (some .interrupted) c.complete (Or.inl rfl) (fun e h => ?_) (Or.inr (by simp))
            cases h; exact ⟨Or.inr rfl, hncomp⟩
          · simp [hcl] at hs


/-! ### an unwinding thread runs a deferred call -/


theorem retOk_congr {c c' : Config} {u : Nat} (h1 : c'.complete = c.complete) (h2 : c'.hsErr = c.hsErr)
    (h3 : c'.closed = c.closed) (h4 : c'.closers = c.closers)
    (h5 : (c'.th u).ctxCancelled = (c.th u).ctxCancelled) (r : Option Err) (h : RetOk c u r) : RetOk c' u r := by
  match r, h with
  | none, h => show c'.complete = true; rw [h1]; exact h
  | some .hsFail, h => show c'.hsErr = _; rw [h2]; exact h
  | some .interrupted, h => show c'.hsErr = _; rw [h2]; exact h
  | some .buildFail, _ => trivial
  | some (.ctx v), h =>
    obtain ⟨a1, a2, a3, a4⟩ := h
    exact ⟨a1, by rw [h5]; exact a2, by rw [h3]; exact a3, by rw [h4]; exact a4⟩
  | some .ownCancel, h => exact h.elim

theorem step_unwind {p : List Stmt} {c c' : Config} {u : Nat} {o : Outcome} (hi : Inv p c)
    (hmode : (c.th u).mode = .unwind) (hs : step p c (.step u o) = some c') : Inv p c' := by
  have hT := (hi.2 u).2
  have hb := (hi.2 u).1
  unfold TMode at hT; rw [hmode] at hT; simp only at hT
  obtain ⟨hnb, hu, hrc, hret⟩ := hT
  simp only [step, hmode, stepUnwind] at hs
  cases hd : (c.th u).defers with
  | nil =>
    rw [hd] at hs hu
    simp only [Option.some.injEq] at hs; subst hs
    simp only [unwindOk, Bool.and_eq_true, Bool.not_eq_true', decide_eq_false_iff_not, Decidable.not_not] at hu
    obtain ⟨⟨h1, h2⟩, h3⟩ := hu
    refine inv_of_frame hi (frame_upd c u _) (ginv_same hi.1 rfl rfl) ?_ ?_
    · exact tbase_of_eq hb (by rw [upd_th_same]) (by rw [upd_th_same]) (by rw [upd_th_same]) rfl rfl
    · unfold TMode
      rw [upd_th_same]
      simp only
      refine ⟨hnb, h1, h2, h3, ?_⟩
      exact retOk_upd (c := c) (u := u) (g := fun th => { th with mode := .done }) rfl _ hret
  | cons d ds =>
    rw [hd] at hs hu hrc
    cases d with
    | signal => simp [unwindOk] at hu
    | unlock m =>
      simp only at hs
      have hmine : c.owner m = some u := by
        cases m <;> simp only [unwindOk, Bool.and_eq_true, decide_eq_true_eq] at hu <;> exact hu.1
      rw [if_pos hmine] at hs
      simp only [Option.some.injEq] at hs; subst hs
      refine inv_of_frame hi (frame_unlock c u m _ hmine) (ginv_same hi.1 (by simp) (by simp)) ?_ ?_
      · exact tbase_of_eq hb (by rw [lock_th]) (by rw [lock_th]) (by rw [lock_th]) (by simp) (by simp)
      · apply tmode_unwind
        · rw [lock_th]; exact hmode
        · rw [lock_th]; exact hnb
        · rw [lock_th]
          show unwindOk ds _ _ (decide ((c.th u).intr ≠ .off)) = true
          cases m with
          | hs =>
            simp only [unwindOk, Bool.and_eq_true] at hu
            have e1 : decide (((c.setOwner .hs none).upd u fun th => { th with defers := ds }).hsOwner = some u) = false :=
              decide_eq_false (by simp [Config.setOwner])
            rw [e1]; exact hu.2
          | inn =>
            simp only [unwindOk, Bool.and_eq_true] at hu
            have e1 : decide (((c.setOwner .inn none).upd u fun th => { th with defers := ds }).inOwner = some u) = false :=
              decide_eq_false (by simp [Config.setOwner])
            rw [e1]; exact hu.2
        · rw [lock_th]; intro h; exact hrc (List.mem_cons_of_mem _ h)
        · rw [lock_th]
          exact retOk_congr (by simp) (by simp) (by simp) (by simp) (by rw [lock_th]) _ hret
    | join =>
      simp only [Option.some.injEq] at hs; subst hs
      refine inv_of_frame hi (frame_upd c u _) (ginv_same hi.1 rfl rfl) ?_ ?_
      · exact tbase_of_eq hb (by rw [upd_th_same]) (by rw [upd_th_same]) (by rw [upd_th_same]) rfl rfl
      · apply tmode_unwind
        · rw [upd_th_same]; exact hmode
        · rw [upd_th_same]; exact hnb
        · rw [upd_th_same]; exact hu
        · rw [upd_th_same]; intro _; rfl
        · rw [upd_th_same]
          show RetOk _ u (c.th u).ret
          refine retOk_congr (c := c) ?_ ?_ ?_ ?_ ?_ _ hret <;> first | rfl | rw [upd_th_same]
    | cancel =>
      simp only [Option.some.injEq] at hs; subst hs
      simp only [unwindOk, Bool.and_eq_true, Bool.not_eq_true', decide_eq_false_iff_not, Decidable.not_not] at hu
      obtain ⟨hoff, hu'⟩ := hu
      refine inv_of_frame hi (frame_upd c u _) (ginv_same hi.1 rfl rfl) ?_ ?_
      · constructor
        · intro e he; rw [upd_th_same] at he; rw [show ({ (c.th u) with ownCancelled := true, defers := ds } : Thread).intr = (c.th u).intr from rfl, hoff] at he; cases he
        · intro hne; rw [upd_th_same] at hne; exact absurd hoff hne
      · apply tmode_unwind
        · rw [upd_th_same]; exact hmode
        · rw [upd_th_same]; exact hnb
        · rw [upd_th_same]
          show unwindOk ds _ _ (decide ((c.th u).intr ≠ .off)) = true
          rw [decide_eq_false (by simp [hoff] : ¬ (c.th u).intr ≠ .off)]
          exact hu'
        · rw [upd_th_same]; intro h; exact hrc (List.mem_cons_of_mem _ h)
        · rw [upd_th_same]
          show RetOk _ u (c.th u).ret
          refine retOk_congr (c := c) ?_ ?_ ?_ ?_ ?_ _ hret <;> first | rfl | rw [upd_th_same]
    | recv =>
      simp only at hs
      simp only [unwindOk, Bool.and_eq_true, Bool.not_eq_true', decide_eq_false_iff_not, decide_eq_true_eq] at hu
      obtain ⟨⟨⟨h1, h2⟩, h3⟩, hu'⟩ := hu
      cases hintr : (c.th u).intr with
      | off => rw [hintr] at hs; simp at hs
      | armed => rw [hintr] at hs; simp at hs
      | res e =>
        rw [hintr] at hs
        simp only [Option.some.injEq] at hs; subst hs
        refine inv_of_frame hi (frame_upd c u _) (ginv_same hi.1 rfl rfl) ?_ ?_
        · constructor
          · intro x hx; rw [upd_th_same] at hx; cases hx
          · intro hne; rw [upd_th_same] at hne; exact absurd rfl hne
        · apply tmode_unwind
          · rw [upd_th_same]; exact hmode
          · rw [upd_th_same]; exact hnb
          · rw [upd_th_same]
            show unwindOk ds (decide (c.hsOwner = some u)) (decide (c.inOwner = some u)) (decide (Intr.off ≠ Intr.off)) = true
            rw [decide_eq_false h1, decide_eq_false h2, decide_eq_false (by simp : ¬ Intr.off ≠ Intr.off)]
            exact hu'
          · rw [upd_th_same]; intro _; exact hrc (List.mem_cons_self ..)
          · rw [upd_th_same]
            cases e with
            | none =>
              show RetOk _ u (c.th u).ret
              refine retOk_congr (c := c) ?_ ?_ ?_ ?_ ?_ _ hret <;> first | rfl | rw [upd_th_same]
            | some x =>
              obtain ⟨a1, a2, a3, a4⟩ := hb.res x hintr
              subst a1
              exact ⟨rfl, by rw [upd_th_same]; exact a2, a3, a4⟩


/-! ### interrupter and environment steps; the invariant is inductive -/


/-- `Inv` after a step that is an `Env` change for its subject `t` and a `Frame` for everybody else -/
theorem inv_of_env {p : List Stmt} {c c' : Config} {t : Nat} (hi : Inv p c) (f : Frame c c' t) (e : Env c c' t)
    (hb : TBase c' t) : Inv p c' :=
  inv_of_frame hi f (ginv_same hi.1 e.hsErr e.complete) hb (tmode_env e (hi.2 t).2)

theorem step_cancel {p : List Stmt} {c : Config} {t : Nat} (hi : Inv p c) :
    Inv p (c.upd t fun th => { th with ctxCancelled := true }) := by
  refine inv_of_env hi (frame_upd c t _) ?_ ?_
  · exact {
      mode := by rw [upd_th_same], pc := by rw [upd_th_same], defers := by rw [upd_th_same]
      ret := by rw [upd_th_same], inBody := by rw [upd_th_same], canc := by rw [upd_th_same]
      ownC := by rw [upd_th_same], doneClosed := by rw [upd_th_same]
      live := by rw [upd_th_same]
      ctx := fun _ => by rw [upd_th_same]
      hsOwner := rfl, inOwner := rfl, hsErr := rfl, complete := rfl
      closed_mono := fun h => h, closers_mono := fun _ h => h }
  · constructor
    · intro e he; rw [upd_th_same] at he ⊢
      obtain ⟨h1, _, h3, h4⟩ := (hi.2 t).1.res e he
      exact ⟨h1, rfl, h3, h4⟩
    · intro hne; rw [upd_th_same] at hne ⊢; exact (hi.2 t).1.own hne

theorem step_close {p : List Stmt} {c : Config} (hi : Inv p c) : Inv p { c with closed := true } := by
  refine ⟨ginv_same hi.1 rfl rfl, fun t => ⟨?_, ?_⟩⟩
  · constructor
    · intro e he
      obtain ⟨h1, h2, _, h4⟩ := (hi.2 t).1.res e he
      exact ⟨h1, h2, rfl, h4⟩
    · exact (hi.2 t).1.own
  · refine tmode_env ?_ (hi.2 t).2
    exact {
      mode := rfl, pc := rfl, defers := rfl, ret := rfl, inBody := rfl, canc := rfl, ownC := rfl
      doneClosed := rfl, live := Iff.rfl, ctx := fun h => h
      hsOwner := rfl, inOwner := rfl, hsErr := rfl, complete := rfl
      closed_mono := fun _ => rfl, closers_mono := fun _ h => h }

theorem step_intrQuit {p : List Stmt} {c : Config} {t : Nat} (hi : Inv p c) (harm : (c.th t).intr = .armed) :
    Inv p (c.upd t fun th => { th with intr := .res none }) := by
  refine inv_of_env hi (frame_upd c t _) ?_ ?_
  · exact {
      mode := by rw [upd_th_same], pc := by rw [upd_th_same], defers := by rw [upd_th_same]
      ret := by rw [upd_th_same], inBody := by rw [upd_th_same], canc := by rw [upd_th_same]
      ownC := by rw [upd_th_same], doneClosed := by rw [upd_th_same]
      live := by rw [upd_th_same, harm]; simp
      ctx := fun h => by rw [upd_th_same]; exact h
      hsOwner := rfl, inOwner := rfl, hsErr := rfl, complete := rfl
      closed_mono := fun h => h, closers_mono := fun _ h => h }
  · constructor
    · intro e he; rw [upd_th_same] at he; cases he
    · intro _; rw [upd_th_same]
      exact (hi.2 t).1.own (by rw [harm]; simp)

theorem step_intrClose {p : List Stmt} {c : Config} {t : Nat} (hi : Inv p c) (harm : (c.th t).intr = .armed)
    (hc : (c.th t).ctxCancelled = true ∨ (c.th t).ownCancelled = true) :
    Inv p (({ c with closed := true, closers := t :: c.closers } : Config).upd t fun th =>
      { th with intr := .res (some (if th.ctxCancelled then .ctx t else .ownCancel)) }) := by
  have hown : (c.th t).ownCancelled = false := (hi.2 t).1.own (by rw [harm]; simp)
  have hctx : (c.th t).ctxCancelled = true := by
    rcases hc with h | h
    · exact h
    · rw [hown] at h; cases h
  have f : Frame c (({ c with closed := true, closers := t :: c.closers } : Config).upd t fun th =>
      { th with intr := .res (some (if th.ctxCancelled then .ctx t else .ownCancel)) }) t :=
    { th_eq := fun x hx => by rw [upd_th_other _ _ hx]
      own := fun m x _ => by cases m <;> simp [Config.owner]
      err := Or.inl rfl
      compl := Or.inl rfl
      closed_mono := fun _ => rfl
      closers_mono := fun x h => List.mem_cons_of_mem _ h }
  refine inv_of_env hi f ?_ ?_
  · exact {
      mode := by rw [upd_th_same], pc := by rw [upd_th_same], defers := by rw [upd_th_same]
      ret := by rw [upd_th_same], inBody := by rw [upd_th_same], canc := by rw [upd_th_same]
      ownC := by rw [upd_th_same], doneClosed := by rw [upd_th_same]
      live := by rw [upd_th_same, harm]; simp
      ctx := fun h => by rw [upd_th_same]; exact h
      hsOwner := rfl, inOwner := rfl, hsErr := rfl, complete := rfl
      closed_mono := fun _ => rfl, closers_mono := fun x h => List.mem_cons_of_mem _ h }
  · constructor
    · intro e he
      rw [upd_th_same] at he ⊢
      simp only [hctx, if_true, Intr.res.injEq, Option.some.injEq] at he
      exact ⟨he.symm, hctx, rfl, List.mem_cons_self ..⟩
    · intro _; rw [upd_th_same]; exact hown

theorem inv_step {p : List Stmt} {c c' : Config} {l : Label} (hi : Inv p c) (hs : step p c l = some c') : Inv p c' := by
  cases l with
  | step u o =>
    cases hm : (c.th u).mode with
    | run => exact step_run hi hm hs
    | unwind => exact step_unwind hi hm hs
    | done => simp [step, hm] at hs
  | intrClose t =>
    simp only [step] at hs
    split at hs
    · rename_i h
      simp only [Option.some.injEq] at hs; subst hs
      exact step_intrClose hi h.1 h.2
    · cases hs
  | intrQuit t =>
    simp only [step] at hs
    split at hs
    · rename_i h
      simp only [Option.some.injEq] at hs; subst hs
      exact step_intrQuit hi h.1
    · cases hs
  | cancel t =>
    simp only [step, Option.some.injEq] at hs; subst hs
    exact step_cancel hi
  | close =>
    simp only [step, Option.some.injEq] at hs; subst hs
    exact step_close hi

theorem inv_init {p : List Stmt} (hd : Disc p) (canc : Nat → Bool) : Inv p (init canc) := by
  have hd' : checkFrom true p {} = true ∧ checkFrom false p {} = true := by
    simpa [Disc, disc] using hd
  refine ⟨fun e he => (by cases he), fun t => ⟨⟨fun e he => (by cases he), fun h => absurd rfl h⟩, ?_⟩⟩
  unfold TMode
  show _ ∧ _ ∧ ∃ a, checkFrom (canc t) (p.drop 0) a = true ∧ _ ∧ _
  refine ⟨rfl, (by simp [init]), {}, ?_, ?_, fun h => (by cases h)⟩
  · rw [List.drop_zero]; cases canc t
    · exact hd'.2
    · exact hd'.1
  · exact {
      defers := rfl
      held := fun m => by cases m <;> simp [init, Config.owner, Abs.held]
      live := by simp [init]
      errC := fun h => by cases h
      doneC := fun h => by cases h
      bodyD := fun h => by cases h }

theorem inv_reach {p : List Stmt} {canc : Nat → Bool} {c : Config} (hd : Disc p) (hr : Reach p canc c) : Inv p c := by
  induction hr with
  | init => exact inv_init hd canc
  | step l _ hs ih => exact inv_step ih hs


/-! ### progress -/


theorem run_progress {p : List Stmt} {c : Config} {t : Nat} (hi : Inv p c) (hmode : (c.th t).mode = .run) :
    canStep p c t = true ∨ ∃ m o, waitsOn p c t m ∧ c.owner m = some o ∧ o ≠ t ∧
      (m = .hs → c.hsOwner ≠ some t ∧ c.inOwner ≠ some t) ∧ (m = .inn → c.inOwner ≠ some t) := by
  have hT := (hi.2 t).2
  unfold TMode at hT; rw [hmode] at hT; simp only at hT
  obtain ⟨_, _, a, hck, hM, _⟩ := hT
  cases hdrop : p.drop (c.th t).pc with
  | nil => rw [hdrop] at hck; simp [checkFrom] at hck
  | cons s rest =>
    rw [hdrop] at hck
    obtain ⟨hget, _⟩ := drop_cons _ _ _ _ hdrop
    simp only [checkFrom, Bool.and_eq_true, Bool.or_eq_true] at hck
    obtain ⟨hok, _⟩ := hck
    have nh : ∀ m, a.held m = false → c.owner m ≠ some t := by
      intro m hf hx; rw [(hM.held m).1 hx] at hf; cases hf
    cases s with
    | lock m =>
      by_cases hfree : c.owner m = none
      · left; simp [canStep, step, hmode, hget, stepStmt, hfree]
      · right
        obtain ⟨o, ho⟩ := Option.ne_none_iff_exists'.1 hfree
        refine ⟨m, o, ⟨hmode, hget⟩, ho, ?_, ?_, ?_⟩
        · intro h; subst h
          cases m <;> simp only [stmtOk, Bool.and_eq_true, Bool.not_eq_true'] at hok
          · exact nh .hs hok.1 ho
          · exact nh .inn hok ho
        · intro h; subst h
          simp only [stmtOk, Bool.and_eq_true, Bool.not_eq_true'] at hok
          exact ⟨nh .hs hok.1, nh .inn hok.2⟩
        · intro h; subst h
          simp only [stmtOk, Bool.not_eq_true'] at hok
          exact nh .inn hok
    | unlock m =>
      left
      have := (hM.held m).2 (by simpa [stmtOk] using hok)
      simp [canStep, step, hmode, hget, stepStmt, this]
    | checkErr => left; cases h : c.hsErr <;> simp [canStep, step, hmode, hget, stepStmt, h]
    | body => left; cases h : (c.th t).inBody <;> simp [canStep, step, hmode, hget, stepStmt, h]
    | checkDone => left; simp [canStep, step, hmode, hget, stepStmt]
    | deferCancel => left; simp [canStep, step, hmode, hget, stepStmt]
    | deferJoin => left; simp [canStep, step, hmode, hget, stepStmt]
    | deferSignal => left; simp [canStep, step, hmode, hget, stepStmt]
    | spawnIntr => left; simp [canStep, step, hmode, hget, stepStmt]
    | deferUnlock m => left; simp [canStep, step, hmode, hget, stepStmt]
    | build => left; simp [canStep, step, hmode, hget, stepStmt]
    | touchErr => left; simp [canStep, step, hmode, hget, stepStmt]
    | setDone => left; simp [canStep, step, hmode, hget, stepStmt]
    | retErr => left; simp [canStep, step, hmode, hget, stepStmt]
    | retUnk => left; simp [canStep, step, hmode, hget, stepStmt]

theorem unwind_progress {p : List Stmt} {c : Config} {t : Nat} (hi : Inv p c) (hmode : (c.th t).mode = .unwind) :
    canStep p c t = true ∨ (intrCanStep p c t = true ∧ c.hsOwner ≠ some t ∧ c.inOwner ≠ some t) := by
  have hT := (hi.2 t).2
  unfold TMode at hT; rw [hmode] at hT; simp only at hT
  obtain ⟨_, hu, hrc, _⟩ := hT
  cases hd : (c.th t).defers with
  | nil => left; simp [canStep, step, hmode, stepUnwind, hd]
  | cons d ds =>
    rw [hd] at hu hrc
    cases d with
    | signal => simp [unwindOk] at hu
    | join => left; simp [canStep, step, hmode, stepUnwind, hd]
    | cancel => left; simp [canStep, step, hmode, stepUnwind, hd]
    | unlock m =>
      left
      have hmine : c.owner m = some t := by
        cases m <;> simp only [unwindOk, Bool.and_eq_true, decide_eq_true_eq] at hu <;> exact hu.1
      simp [canStep, step, hmode, stepUnwind, hd, hmine]
    | recv =>
      simp only [unwindOk, Bool.and_eq_true, Bool.not_eq_true', decide_eq_false_iff_not, decide_eq_true_eq] at hu
      obtain ⟨⟨⟨h1, h2⟩, h3⟩, _⟩ := hu
      cases hintr : (c.th t).intr with
      | off => exact absurd hintr h3
      | res e => left; simp [canStep, step, hmode, stepUnwind, hd, hintr]
      | armed =>
        right
        refine ⟨?_, h1, h2⟩
        have := hrc (List.mem_cons_self ..)
        simp [intrCanStep, step, hintr, this]

/-- the holder of a mutex can step, unless it holds `handshakeMutex` and waits for `in` -/
theorem owner_progress {p : List Stmt} {c : Config} {m : Mu} {o : Nat} (hi : Inv p c) (ho : c.owner m = some o) :
    canStep p c o = true ∨ (m = .hs ∧ ∃ o', waitsOn p c o .inn ∧ c.inOwner = some o' ∧ o' ≠ o) := by
  cases hmode : (c.th o).mode with
  | run =>
    rcases run_progress hi hmode with h | ⟨m', o', hw, ho', hne, h1, h2⟩
    · exact Or.inl h
    · right
      cases m' with
      | hs =>
        obtain ⟨a1, a2⟩ := h1 rfl
        cases m
        · exact absurd ho a1
        · exact absurd ho a2
      | inn =>
        have a2 := h2 rfl
        cases m
        · exact ⟨rfl, o', hw, ho', hne⟩
        · exact absurd ho a2
  | unwind =>
    rcases unwind_progress hi hmode with h | ⟨_, a1, a2⟩
    · exact Or.inl h
    · cases m
      · exact absurd ho a1
      · exact absurd ho a2
  | done =>
    have hT := (hi.2 o).2
    unfold TMode at hT; rw [hmode] at hT; simp only at hT
    obtain ⟨_, a1, a2, _⟩ := hT
    cases m
    · exact absurd ho a1
    · exact absurd ho a2


/-! ### returned callers -/


/-- the thread a label acts on -/
def Label.actor : Label → Option Nat
  | .step t _ | .intrClose t | .intrQuit t | .cancel t => some t
  | .close => none

theorem step_th_other {p : List Stmt} {c c' : Config} {l : Label} {t : Nat}
    (hs : step p c l = some c') (ht : l.actor ≠ some t) : c'.th t = c.th t := by
  cases l with
  | close => simp only [step, Option.some.injEq] at hs; subst hs; rfl
  | cancel u =>
    have hu : t ≠ u := fun h => ht (by rw [h]; rfl)
    simp only [step, Option.some.injEq] at hs; subst hs; exact upd_th_other _ _ hu
  | intrQuit u =>
    have hu : t ≠ u := fun h => ht (by rw [h]; rfl)
    simp only [step] at hs
    split at hs
    · simp only [Option.some.injEq] at hs; subst hs; exact upd_th_other _ _ hu
    · cases hs
  | intrClose u =>
    have hu : t ≠ u := fun h => ht (by rw [h]; rfl)
    simp only [step] at hs
    split at hs
    · simp only [Option.some.injEq] at hs; subst hs; exact upd_th_other _ _ hu
    · cases hs
  | step u o =>
    have hu : t ≠ u := fun h => ht (by rw [h]; rfl)
    simp only [step, stepStmt, stepUnwind] at hs
    repeat' split at hs
    all_goals (cases hs <;> (rw [upd_th_other _ _ hu]; try simp))

/-- a returned caller's record is never touched again, except for its context flag -/
theorem done_stable {p : List Stmt} {c c' : Config} {l : Label} {t : Nat} (hi : Inv p c)
    (hs : step p c l = some c') (hdone : (c.th t).mode = .done) :
    (c'.th t).mode = .done ∧ (c'.th t).ret = (c.th t).ret ∧ (c'.th t).intr = .off ∧ c'.closers.count t = c.closers.count t := by
  have hT := (hi.2 t).2
  unfold TMode at hT; rw [hdone] at hT; simp only at hT
  obtain ⟨_, _, _, hoff, _⟩ := hT
  by_cases ha : l.actor = some t
  · cases l with
    | close => cases ha
    | step u o => cases ha; simp [step, hdone] at hs
    | intrClose u => cases ha; simp [step, hoff] at hs
    | intrQuit u => cases ha; simp [step, hoff] at hs
    | cancel u =>
      cases ha
      simp only [step, Option.some.injEq] at hs; subst hs
      rw [upd_th_same]; exact ⟨hdone, rfl, hoff, rfl⟩
  · rw [step_th_other hs ha]
    refine ⟨hdone, rfl, hoff, ?_⟩
    cases l with
    | close => simp only [step, Option.some.injEq] at hs; subst hs; rfl
    | cancel u => simp only [step, Option.some.injEq] at hs; subst hs; rfl
    | intrQuit u =>
      simp only [step] at hs
      split at hs
      · simp only [Option.some.injEq] at hs; subst hs; rfl
      · cases hs
    | intrClose u =>
      have hu : u ≠ t := fun h => ha (by rw [h]; rfl)
      simp only [step] at hs
      split at hs
      · simp only [Option.some.injEq] at hs; subst hs
        show (u :: c.closers).count t = _
        simp [hu]
      · cases hs
    | step u o =>
      simp only [step, stepStmt, stepUnwind] at hs
      repeat' split at hs
      all_goals (cases hs <;> simp)


end HsLock
