import UtlsVerif.Wire
import UtlsVerif.Ext
/-!
# Import — the spec importers of uTLS (/repo/u_common.go, u_fingerprinter.go)

* `fromRaw` = `(*ClientHelloSpec).FromRaw` incl. `ReadCipherSuites`, `ReadCompressionMethods`,
  `ReadTLSExtensions` (dispatch through `ExtensionFromID` to the per-extension `Write` = `Ext.write`);
  `rawClientHello` = `(*Fingerprinter).RawClientHello` (= `FingerprintClientHello`) incl. `AlwaysAddPadding`.
* `importTLS` = `(*ClientHelloSpec).ImportTLSClientHello` (the tlsfingerprint.io map importer).

Outcomes are `ok spec | err | panic | hang`. Every Go indexing / slicing expression of the transcribed
code is a `goIdx` / `goSlice` with Go's run-time check, i.e. an explicit `panic` outcome; the
`cryptobyte.String` readers the code uses are transcribed over these primitives (`cbRead` carries
cryptobyte's own length guard) and proved equal to the `Wire` readers. Loops carry fuel; running out
of fuel is the outcome `hang` (a loop that does not advance), never a silent error.
-/
namespace Import
open Wire Ext

/-- outcome of an importer (or of one step of it). -/
inductive Out (α : Type) where
  | ok (a : α)
  | err            -- the Go function returned a non-nil error
  | panic          -- a run-time panic (index / slice out of range, nil dereference)
  | hang           -- fuel exhausted: the transcribed loop would not terminate
  deriving DecidableEq, Repr

namespace Out
def bind {α β : Type} (x : Out α) (f : α → Out β) : Out β :=
  match x with
  | .ok a => f a
  | .err => .err
  | .panic => .panic
  | .hang => .hang

/-- `if !reader(...) { return error }`: a cryptobyte reader that reports failure is an error return. -/
def need {α β : Type} (x : Out (Option α)) (f : α → Out β) : Out β :=
  x.bind fun o => match o with
    | some a => f a
    | none => .err

/-- neither a panic nor a non-terminating loop. -/
def Safe {α : Type} (x : Out α) : Prop := x ≠ .panic ∧ x ≠ .hang

@[simp] theorem bind_ok {α β : Type} (a : α) (f : α → Out β) : (Out.ok a).bind f = f a := rfl
@[simp] theorem need_some {α β : Type} (a : α) (f : α → Out β) : need (.ok (some a)) f = f a := rfl
@[simp] theorem need_none {α β : Type} (f : α → Out β) : need (.ok none) f = .err := rfl
end Out

/-! ## Go slices -/

/-- `s[i]`: panics unless `i < len(s)`. -/
def goIdx (s : Bytes) (i : Nat) : Out UInt8 :=
  match s[i]? with
  | some x => .ok x
  | none => .panic

/-- `s[lo:hi]` for a slice whose capacity equals its length: panics unless `lo ≤ hi ≤ len(s)`. -/
def goSlice (s : Bytes) (lo hi : Nat) : Out Bytes :=
  if lo ≤ hi ∧ hi ≤ s.length then .ok ((s.take hi).drop lo) else .panic

/-! ## `cryptobyte.String` over Go slices (golang.org/x/crypto/cryptobyte/string.go) -/

/-- `read(n)`: `if len(*s) < n || n < 0 { return nil }; v := (*s)[:n]; *s = (*s)[n:]; return v`. -/
def cbRead (n : Nat) (s : Bytes) : Out (Option (Bytes × Bytes)) :=
  if s.length < n then .ok none else
  (goSlice s 0 n).bind fun v =>
  (goSlice s n s.length).bind fun r =>
  .ok (some (v, r))

/-- `Skip(n)`. -/
def cbSkip (n : Nat) (s : Bytes) : Out (Option Bytes) :=
  (cbRead n s).bind fun o => .ok (o.map (·.2))

/-- `ReadUint8`: `v := s.read(1); *out = v[0]`. -/
def cbU8 (s : Bytes) : Out (Option (Nat × Bytes)) :=
  (cbRead 1 s).bind fun o => match o with
    | none => .ok none
    | some (v, r) => (goIdx v 0).bind fun x => .ok (some (x.toNat, r))

/-- `ReadUint16`: `v := s.read(2); *out = uint16(v[0])<<8 | uint16(v[1])`. -/
def cbU16 (s : Bytes) : Out (Option (Nat × Bytes)) :=
  (cbRead 2 s).bind fun o => match o with
    | none => .ok none
    | some (v, r) =>
      (goIdx v 0).bind fun x => (goIdx v 1).bind fun y => .ok (some (x.toNat * 256 + y.toNat, r))

/-- `ReadUint8LengthPrefixed` (`readLengthPrefixed(1, …)`). -/
def cbVec8 (s : Bytes) : Out (Option (Bytes × Bytes)) :=
  (cbU8 s).bind fun o => match o with
    | none => .ok none
    | some (n, r) => cbRead n r

/-- `ReadUint16LengthPrefixed`. -/
def cbVec16 (s : Bytes) : Out (Option (Bytes × Bytes)) :=
  (cbU16 s).bind fun o => match o with
    | none => .ok none
    | some (n, r) => cbRead n r

/-- `cipherLen(aeadID, 0)` (u_ech.go / hpke): the AEAD tag length; **panics** ("hpke: invalid AEAD
identifier") on anything but AES-128-GCM, AES-256-GCM and ChaCha20-Poly1305. `GREASEEncryptedClientHelloExtension.Write`
calls it on the AEAD id it has just read from the wire. -/
def cipherLen (aead : Nat) : Out Nat :=
  if aead = 1 ∨ aead = 2 ∨ aead = 3 then .ok 16 else .panic

/-! ## The imported spec -/

/-- `UtlsPaddingExtension.GetPaddingLen`. -/
inductive PadPolicy where
  | unset                 -- nil function (zero-valued extension)
  | boring                -- `BoringPaddingStyle`
  | padTo (n : Nat)       -- `AlwaysPadToLen(n)`
  deriving DecidableEq, Repr

/-- one entry of `ClientHelloSpec.Extensions`: the extension's field values and, for the padding
extension, the padding policy function installed. -/
structure SExt where
  ext : Ext
  pol : PadPolicy := .unset
  deriving DecidableEq, Repr

structure Spec where
  suites : List Nat
  comp : Bytes
  vmin : Nat
  vmax : Nat
  exts : List SExt
  deriving DecidableEq, Repr

abbrev ImportRes := Out Spec

def isPadding : Ext → Bool
  | .padding _ _ => true
  | _ => false

def isPsk : Ext → Bool
  | .psk _ _ _ _ _ => true
  | _ => false

/-- what `ReadTLSExtensions` appends for a decoded extension (`UtlsPaddingExtension.Write` installs
`BoringPaddingStyle`). -/
def ofWrite (e : Ext) : SExt := { ext := e, pol := if isPadding e then .boring else .unset }

/-! ## `ReadTLSExtensions` -/

/-- the loop `for !extensions.Empty() { … }`. `sv`: a supported_versions extension was seen
(`TLSVersMin = TLSVersMax = 0`). Fuel: every iteration consumes at least four bytes. -/
def readExts (blunt realPSK : Bool) : Nat → Bytes → List SExt → Bool → Out (List SExt × Bool)
  | _, [], acc, sv => .ok (acc, sv)
  | 0, _ :: _, _, _ => .hang
  | fuel + 1, c :: cs, acc, sv =>
    Out.need (cbU16 (c :: cs)) fun (id, r) =>
    Out.need (cbVec16 r) fun (data, r') =>
      match Ext.write realPSK id data with
      | .ok e => readExts blunt realPSK fuel r' (acc ++ [ofWrite e]) (sv || id == 43)
      | .err => .err
      | .unknown =>
        if blunt then readExts blunt realPSK fuel r' (acc ++ [{ ext := .generic id data }]) sv
        else .err

/-- the final loop of `FromRaw`: the first padding extension gets `AlwaysPadToLen(len(raw) - 5)`. -/
def setPadTo (n : Nat) : List SExt → List SExt
  | [] => []
  | x :: xs => if isPadding x.ext then { x with pol := .padTo n } :: xs else x :: setPadTo n xs

/-! ## `FromRaw` -/

def fromRaw (raw : Bytes) (blunt realPSK : Bool) : ImportRes :=
  Out.need (cbU8 raw) fun (contentType, s) =>
  Out.need (cbU16 s) fun (recordVersion, s) =>
  Out.need (cbSkip 2 s) fun s =>
  if contentType ≠ 22 then .err else
  Out.need (cbU8 s) fun (handshakeType, s) =>
  Out.need (cbSkip 3 s) fun s =>
  Out.need (cbU16 s) fun (handshakeVersion, s) =>
  Out.need (cbSkip 32 s) fun s =>
  if handshakeType ≠ 1 then .err else
  Out.need (cbVec8 s) fun (_sessionId, s) =>
  Out.need (cbVec16 s) fun (suiteBytes, s) =>
  match decU16s suiteBytes with
  | none => .err                                   -- ReadCipherSuites: "unable to read ciphersuite"
  | some suites =>
    Out.need (cbVec8 s) fun (comp, s) =>
    let base : Spec := { suites := suites.map unGrease, comp := comp, vmin := recordVersion,
                         vmax := handshakeVersion, exts := [] }
    if s.isEmpty then .ok base else                -- extensions are optional
    Out.need (cbVec16 s) fun (extBytes, _) =>
    (readExts blunt realPSK extBytes.length extBytes [] false).bind fun (exts, sv) =>
    .ok { base with vmin := if sv then 0 else recordVersion, vmax := if sv then 0 else handshakeVersion,
                    exts := setPadTo (raw.length - 5) exts }

/-! ## `AlwaysAddPadding` -/

def boringPad : SExt := { ext := .padding 0 false, pol := .boring }

/-- the `for idx, ext := range chs.Extensions` scan: `none` = neither a padding nor a PSK extension
found; otherwise the list after the scan (unchanged when padding comes first, padding inserted before
the first PSK extension otherwise). -/
def addPadScan : List SExt → Option (List SExt)
  | [] => none
  | x :: xs =>
    if isPadding x.ext then some (x :: xs)
    else if isPsk x.ext then some (boringPad :: x :: xs)
    else (addPadScan xs).map (x :: ·)

def alwaysAddPadding (s : Spec) : Spec :=
  match addPadScan s.exts with
  | some xs => { s with exts := xs }
  | none => { s with exts := s.exts ++ [boringPad] }

/-- `(*Fingerprinter).RawClientHello` / `FingerprintClientHello`. -/
def rawClientHello (raw : Bytes) (blunt pad realPSK : Bool) : ImportRes :=
  (fromRaw raw blunt realPSK).bind fun s => .ok (if pad then alwaysAddPadding s else s)

/-! ## `ImportTLSClientHello` -/

/-- the `map[string][]byte` argument: `none` = key absent or nil value (`data[k] == nil`). -/
structure ImportMap where
  cipherSuites : Option Bytes := none
  compressionMethods : Option Bytes := none
  extensions : Option Bytes := none
  ptFmts : Option Bytes := none
  sigAlgs : Option Bytes := none
  supportedVersions : Option Bytes := none
  curves : Option Bytes := none
  alpn : Option Bytes := none
  keyShare : Option Bytes := none
  pskModes : Option Bytes := none
  certCompressionAlgs : Option Bytes := none
  recordSizeLimit : Option Bytes := none
  deriving DecidableEq, Repr

/-- `helper.Uint8to16`. -/
def uint8to16 (bs : Bytes) : Out (List Nat) :=
  match decU16s bs with
  | some xs => .ok xs
  | none => .err

/-- the key_share loop
`for i := 0; i < len(ks); i += 4 { fixed = append(fixed, ks[i:i+4]...); for j := 0; j < int(ks[i+3]); j++ { fixed = append(fixed, 0) } }`
— only the low byte of the recorded length is used. -/
def ksLoop (ks : Bytes) : Nat → Nat → Bytes → Out Bytes
  | 0, i, acc => if i < ks.length then .hang else .ok acc
  | fuel + 1, i, acc =>
    if i < ks.length then
      (goSlice ks i (i + 4)).bind fun chunk =>
      (goIdx ks (i + 3)).bind fun n =>
      ksLoop ks fuel (i + 4) (acc ++ chunk ++ List.replicate n.toNat 0)
    else .ok acc

/-- `ExtensionFromID(id)` is non-nil and implements `TLSExtensionWriter`
(`Ext.write` reports `unknown` for exactly the other ids, whatever the body). -/
def hasWriterId (id : Nat) : Bool :=
  match Ext.write false id [] with
  | .unknown => false
  | _ => true

/-- the zero-valued extension `ExtensionFromID(id)` returns (for ids that get no data). -/
def zeroExt (id : Nat) : SExt :=
  if id = 0 then { ext := .sni [] } else
  if id = 5 then { ext := .statusRequest } else
  if id = 17 then { ext := .statusRequestV2 } else
  if id = 18 then { ext := .sct } else
  if id = 21 then { ext := .padding 0 false, pol := .unset } else
  if id = 23 then { ext := .ems } else
  if id = 24 then { ext := .tokenBinding 0 0 [] } else
  if id = 34 then { ext := .delegatedCreds [] } else
  if id = 35 then { ext := .sessionTicket [] } else
  if id = 41 then { ext := .psk true false false [] [] } else
  if id = 50 then { ext := .sigAlgsCert [] } else
  if id = 13172 then { ext := .npn } else
  if id = 30031 then { ext := .channelId true } else
  if id = 30032 then { ext := .channelId false } else
  if id = 65037 then { ext := .greaseECH 0 0 0 (List.replicate 32 0) [] } else   -- unset key: `init()` draws 32 bytes
  if id = 65281 then { ext := .renegInfo [] } else
  -- data-carrying types never reach here; GREASE: `&UtlsGREASEExtension{}`
  { ext := .grease 0 [] }

/-- `extWriter.Write(data)` for the extension `ExtensionFromID(id)` returned. -/
def writeOf (id : Nat) (data : Bytes) : Out SExt :=
  match Ext.write false id data with
  | .ok e => .ok { ext := e, pol := .unset }
  | _ => .err

/-- the `extensionKeyShare` case: expand every 4-byte (group, length) entry by `length` zero bytes,
prefix the uint16 list length (truncating), decode with `KeyShareExtension.Write`. -/
def importKeyShare (ks : Bytes) : Out SExt :=
  if ks.length % 4 ≠ 0 then .err else                              -- the repair of D04
  (ksLoop ks ks.length 0 []).bind fun fixed => writeOf 51 (u16 fixed.length ++ fixed)

/-- `if data[key] == nil { return errors.New("… is required") }; … Write(f(data[key]))`. -/
def withKey (o : Option Bytes) (f : Bytes → Out SExt) : Out SExt :=
  match o with
  | none => .err
  | some d => f d

/-- one iteration of `for _, extType := range tlsExtensionTypes`: the extension appended. -/
def importExt (m : ImportMap) (id : Nat) : Out SExt :=
  if hasWriterId id = false then .err else     -- "unsupported extension" (the GenericExtension branch is dead code)
  if id = 11 then withKey m.ptFmts (writeOf id) else
  if id = 13 then withKey m.sigAlgs (writeOf id) else
  if id = 43 then withKey m.supportedVersions (fun d => writeOf id (b d.length :: d)) else   -- uint8 length prefix, truncating
  if id = 10 then withKey m.curves (writeOf id) else
  if id = 16 then withKey m.alpn (writeOf id) else
  if id = 51 then withKey m.keyShare importKeyShare else
  if id = 45 then withKey m.pskModes (fun d => writeOf id (b d.length :: d)) else
  if id = 27 then withKey m.certCompressionAlgs (fun d => writeOf id (b d.length :: d)) else
  if id = 28 then withKey m.recordSizeLimit (writeOf id) else
  if id = 17513 then .ok { ext := .alps false [[104, 50]] } else   -- "h2"
  if id = 17613 then .ok { ext := .alps true [[104, 50]] } else
  .ok (zeroExt id)

def importExts (m : ImportMap) : List Nat → List SExt → Out (List SExt)
  | [], acc => .ok acc
  | id :: ids, acc => (importExt m id).bind fun e => importExts m ids (acc ++ [e])

/-- `ImportTLSClientHello(data)` on a spec whose `TLSVersMin/Max` are `vmin0/vmax0` beforehand. -/
def importTLS (m : ImportMap) (vmin0 vmax0 : Nat) : ImportRes :=
  match m.cipherSuites with
  | none => .err
  | some cs =>
    (uint8to16 cs).bind fun suites =>
    match m.compressionMethods with
    | none => .err
    | some comp =>
      match m.extensions with
      | none => .err
      | some xs =>
        (uint8to16 xs).bind fun ids =>
        (importExts m ids []).bind fun exts =>
        let sv := ids.contains 43
        .ok { suites := suites, comp := comp, vmin := if sv then 0 else vmin0,
              vmax := if sv then 0 else vmax0, exts := exts }

/-- the key_share branch *without* the length check (the code before the repair of D04). -/
def importKeyShareUnchecked (ks : Bytes) : Out SExt :=
  (ksLoop ks ks.length 0 []).bind fun fixed => writeOf 51 (u16 fixed.length ++ fixed)

end Import
