import UtlsVerif.Import
/-!
# ImportJson — `ClientHelloSpec.UnmarshalJSON` / `Fingerprinter.UnmarshalJSONClientHello`
(/repo/u_clienthello_json.go, the per-extension `UnmarshalJSON` methods of u_tls_extensions.go,
u_pre_shared_key.go)

The JSON *text* is parsed by `encoding/json` (trusted). The model starts at the token level: a
`JVal` tree, and the decoding rules of `encoding/json` for the Go types the uTLS code decodes into
(`[]string`, `[]byte` incl. base64, unsigned integers with range checks, nested structs, `null` =
no-op). Name → code point resolution goes through the dictionaries `Dicts` (regenerated from
`dicttls` for the driver; the theorems hold for every dictionary).
-/
namespace Import
open Wire Ext

/-- a parsed JSON value. `frac` = a number literal that is not a plain integer (`1.5`, `1e3`). -/
inductive JVal where
  | null
  | bool (b : Bool)
  | num (n : Int)
  | frac
  | str (s : String)
  | arr (xs : List JVal)
  | obj (kvs : List (String × JVal))

abbrev Dict := List (String × Nat)

def Dict.find (t : Dict) (k : String) : Option Nat := (t.find? (·.1 == k)).map (·.2)

/-- the `dicttls.Dict…NameIndexed` maps the decoders consult. -/
structure Dicts where
  extNames : Dict
  suites : Dict
  compMethods : Dict
  groups : Dict
  sigSchemes : Dict
  pointFormats : Dict
  certCompAlgs : Dict
  pskModes : Dict

/-- struct field lookup by JSON key (documents with repeated or differently-cased keys are outside
the generated fragment). -/
def field (kvs : List (String × JVal)) (k : String) : JVal :=
  match kvs.find? (·.1 == k) with
  | some (_, v) => v
  | none => .null        -- an absent key leaves the Go field at its zero value, exactly like `null`

/-- decoding into a Go struct: the key/value list (`null` = no-op), `none` = type error. -/
def asStruct : JVal → Option (List (String × JVal))
  | .obj kvs => some kvs
  | .null => some []
  | _ => none

/-- unsigned integer of the given bit size (`null` leaves 0). -/
def asUint (bits : Nat) : JVal → Option Nat
  | .null => some 0
  | .num n => if 0 ≤ n ∧ n.toNat < 2 ^ bits then some n.toNat else none
  | _ => none

def asBool : JVal → Option Bool
  | .null => some false
  | .bool x => some x
  | _ => none

def asString : JVal → Option String
  | .null => some ""
  | .str s => some s
  | _ => none

def asList {α : Type} (f : JVal → Option α) : JVal → Option (List α)
  | .null => some []
  | .arr xs => xs.mapM f
  | _ => none

/-! base64 (`encoding/base64.StdEncoding`, strict, padded). -/

def b64Val (c : Char) : Option Nat :=
  if 'A' ≤ c ∧ c ≤ 'Z' then some (c.toNat - 65)
  else if 'a' ≤ c ∧ c ≤ 'z' then some (c.toNat - 97 + 26)
  else if '0' ≤ c ∧ c ≤ '9' then some (c.toNat - 48 + 52)
  else if c = '+' then some 62
  else if c = '/' then some 63
  else none

def b64Dec : List Char → Option Bytes
  | [] => some []
  | [c1, c2, '=', '='] => do
      let a ← b64Val c1; let c ← b64Val c2
      if c % 16 ≠ 0 then none else pure [b (a * 4 + c / 16)]
  | [c1, c2, c3, '='] => do
      let a ← b64Val c1; let c ← b64Val c2; let d ← b64Val c3
      if d % 4 ≠ 0 then none else pure [b (a * 4 + c / 16), b ((c % 16) * 16 + d / 4)]
  | c1 :: c2 :: c3 :: c4 :: rest => do
      let a ← b64Val c1; let c ← b64Val c2; let d ← b64Val c3; let e ← b64Val c4
      let r ← b64Dec rest
      pure (b (a * 4 + c / 16) :: b ((c % 16) * 16 + d / 4) :: b ((d % 4) * 64 + e) :: r)
  | _ => none

/-- `[]byte`: a base64 string, an array of small numbers, or `null`. -/
def asBytes : JVal → Option Bytes
  | .null => some []
  | .str s => b64Dec s.toList
  | .arr xs => (xs.mapM (asUint 8)).map (·.map b)
  | _ => none

def strBytes (s : String) : Bytes := s.toUTF8.toList

/-- names resolved through a dictionary; `"GREASE"` maps to the placeholder where the code allows it. -/
def resolve (t : Dict) (grease : Bool) : List String → Option (List Nat)
  | [] => some []
  | n :: ns =>
    (if grease ∧ n = "GREASE" then some greasePlaceholder else t.find n).bind fun v =>
    (resolve t grease ns).map (v :: ·)

/-- `[]string` under key `k`, resolved through `t`. -/
def nameList (kvs : List (String × JVal)) (k : String) (t : Dict) (grease : Bool) : Option (List Nat) :=
  (asList asString (field kvs k)).bind (resolve t grease)

def versionOf (s : String) : Option Nat :=
  if s = "GREASE" then some greasePlaceholder
  else if s = "TLS 1.3" then some 0x0304
  else if s = "TLS 1.2" then some 0x0303
  else if s = "TLS 1.1" then some 0x0302
  else if s = "TLS 1.0" then some 0x0301
  else none

def tbParamOf (s : String) : Option Nat :=
  if s = "rsa2048_pkcs1.5" then some 0
  else if s = "rsa2048_pss" then some 1
  else if s = "ecdsap256" then some 2
  else none

def shareOf (d : Dicts) (v : JVal) : Option (Nat × Bytes) := do
  let kvs ← asStruct v
  let g ← asString (field kvs "group")
  let ke ← asBytes (field kvs "key_exchange")
  let id ← if g = "GREASE" then some greasePlaceholder else d.groups.find g
  pure (id, ke)

def identityOf (v : JVal) : Option (Bytes × Nat) := do
  let kvs ← asStruct v
  let l ← asBytes (field kvs "identity")
  let a ← asUint 32 (field kvs "obfuscated_ticket_age")
  pure (l, a)

/-- the extension `TLSExtensionsJSONUnmarshaler` allocates for code point `id` and the result of
its `UnmarshalJSON` on the entry `v`. `none` = error (unknown to `ExtensionFromID`, not JSON
compatible, type error, unknown name). -/
def extOfJson (d : Dicts) (id : Nat) (v : JVal) : Option SExt :=
  (asStruct v).bind fun kvs =>
  let plain (e : Ext) : Option SExt := some { ext := e }
  if id = 0 then plain (.sni []) else
  if id = 5 then plain .statusRequest else
  if id = 10 then (nameList kvs "named_group_list" d.groups true).bind fun xs => plain (.supportedCurves xs) else
  if id = 11 then (nameList kvs "ec_point_format_list" d.pointFormats false).bind fun xs => plain (.supportedPoints xs) else
  if id = 13 then (nameList kvs "supported_signature_algorithms" d.sigSchemes true).bind fun xs => plain (.sigAlgs xs) else
  if id = 16 then (asList asString (field kvs "protocol_name_list")).bind fun xs => plain (.alpn (xs.map strBytes)) else
  if id = 17 then plain .statusRequestV2 else
  if id = 18 then plain .sct else
  if id = 21 then (asUint 64 (field kvs "len")).bind fun n =>
    if n > 65535 then none else       -- the repair: larger values used to wrap in `int(jsonObj.Length)`
    if n = 0 then some { ext := .padding 0 false, pol := .boring } else some { ext := .padding n true, pol := .unset } else
  if id = 23 then plain .ems else
  if id = 24 then
    (asStruct (field kvs "token_binding_version")).bind fun ver =>
    (asUint 8 (field ver "major")).bind fun ma =>
    (asUint 8 (field ver "minor")).bind fun mi =>
    (asList asString (field kvs "key_parameters_list")).bind fun ps =>
    (ps.mapM tbParamOf).bind fun xs => plain (.tokenBinding ma mi xs) else
  if id = 27 then (nameList kvs "algorithms" d.certCompAlgs false).bind fun xs => plain (.compressCert xs) else
  if id = 28 then (asUint 16 (field kvs "record_size_limit")).bind fun n => plain (.recordSizeLimit n) else
  if id = 34 then (nameList kvs "supported_signature_algorithms" d.sigSchemes true).bind fun xs => plain (.delegatedCreds xs) else
  if id = 35 then plain (.sessionTicket []) else
  if id = 41 then
    (asList identityOf (field kvs "identities")).bind fun ids =>
    (asList asBytes (field kvs "binders")).bind fun bs => plain (.psk true false false ids bs) else
  if id = 43 then (asList asString (field kvs "versions")).bind fun vs =>
    (vs.mapM versionOf).bind fun xs => plain (.supportedVersions xs) else
  if id = 45 then (nameList kvs "ke_modes" d.pskModes false).bind fun xs => plain (.pskModes xs) else
  if id = 50 then (nameList kvs "supported_signature_algorithms" d.sigSchemes true).bind fun xs => plain (.sigAlgsCert xs) else
  if id = 51 then (asList (shareOf d) (field kvs "client_shares")).bind fun ss => plain (.keyShare ss) else
  if id = 13172 then plain .npn else
  if id = 17513 then (asList asString (field kvs "supported_protocols")).bind fun xs => plain (.alps false (xs.map strBytes)) else
  if id = 17613 then (asList asString (field kvs "supported_protocols")).bind fun xs => plain (.alps true (xs.map strBytes)) else
  if id = 30031 then plain (.channelId true) else
  if id = 30032 then plain (.channelId false) else
  if id = 65281 then plain (.renegInfo []) else
  if isGreaseU16 id then plain (.grease 0 []) else
  none          -- nil from ExtensionFromID (AllowUnknownExt is never set on this path), or no UnmarshalJSON (QUIC TP, ECH)

/-- `UtlsGREASEExtension.UnmarshalJSON`. -/
def greaseOfJson (v : JVal) : Option SExt := do
  let kvs ← asStruct v
  let id ← asUint 16 (field kvs "id")
  let data ← asBytes (field kvs "data")
  let keepId ← asBool (field kvs "keep_id")
  let keepData ← asBool (field kvs "keep_data")
  if id = 0 then pure { ext := .grease 0 [] }
  else if isGreaseU16 id then pure { ext := .grease (if keepId then id else 0) (if keepData then data else []) }
  else none

/-- one entry of the `extensions` array: `tlsExtensionJSONAccepter` extracts `name`, the first loop
resolves it, the second loop runs the extension's own `UnmarshalJSON` on the same entry. -/
def entryOfJson (d : Dicts) (v : JVal) : Option SExt :=
  (asStruct v).bind fun kvs =>
  (asString (field kvs "name")).bind fun name =>
  if name = "GREASE" then greaseOfJson v
  else (d.extNames.find name).bind fun id => extOfJson d (id % 65536) v

/-- `*T` field holding a custom unmarshaler: absent / `null` leave the pointer nil (`none`);
otherwise the unmarshaler runs (`some (some _)` or an error `some none`). -/
def ptrField {α : Type} (kvs : List (String × JVal)) (k : String) (f : JVal → Option α) : Option (Option α) :=
  match kvs.find? (·.1 == k) with
  | none => some none
  | some (_, .null) => some none
  | some (_, v) => (f v).map some

/-- `ClientHelloSpecJSONUnmarshaler.ClientHelloSpec()`: the three getters dereference their
receiver (`c.cipherSuites` with `c == nil` is a nil-pointer panic). -/
def specOfUnmarshalers (cs : Option (List Nat)) (cm : Option (List Nat)) (ex : Option (List SExt))
    (vmin vmax : Nat) : ImportRes :=
  match cs, cm, ex with
  | some suites, some comp, some exts =>
    .ok { suites := suites, comp := comp.map b, vmin := vmin, vmax := vmax, exts := exts }
  | _, _, _ => .panic

/-- `json.Unmarshal(jsonB, &chsju)` for a parsed document: the decoded fields, or `none` = error. -/
def decodeTop (d : Dicts) (v : JVal) :
    Option (Option (List Nat) × Option (List Nat) × Option (List SExt) × Nat × Nat) :=
  (asStruct v).bind fun kvs =>
  (ptrField kvs "cipher_suites" fun x => (asList asString x).bind (resolve d.suites true)).bind fun cs =>
  (ptrField kvs "compression_methods" fun x => (asList asString x).bind (resolve d.compMethods false)).bind fun cm =>
  (ptrField kvs "extensions" fun x => match x with
      | .arr xs => xs.mapM (entryOfJson d)
      | _ => none).bind fun ex =>
  (asUint 16 (field kvs "min_vers")).bind fun vmin =>
  (asUint 16 (field kvs "max_vers")).bind fun vmax =>
  some (cs, cm, ex, vmin, vmax)

/-- `ClientHelloSpec.UnmarshalJSON` (after the repair: nil unmarshalers are an error). -/
def jsonSpec (d : Dicts) (v : JVal) : ImportRes :=
  match decodeTop d v with
  | none => .err
  | some (cs, cm, ex, vmin, vmax) =>
    if cs.isNone ∨ cm.isNone ∨ ex.isNone then .err           -- the repair
    else specOfUnmarshalers cs cm ex vmin vmax

/-- the same without the nil check (the code before the repair). -/
def jsonSpecUnchecked (d : Dicts) (v : JVal) : ImportRes :=
  match decodeTop d v with
  | none => .err
  | some (cs, cm, ex, vmin, vmax) => specOfUnmarshalers cs cm ex vmin vmax

/-- `Fingerprinter.UnmarshalJSONClientHello`. -/
def jsonClientHello (d : Dicts) (v : JVal) (pad : Bool) : ImportRes :=
  (jsonSpec d v).bind fun s => .ok (if pad then alwaysAddPadding s else s)

end Import
