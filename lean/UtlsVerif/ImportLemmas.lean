import UtlsVerif.Import
import UtlsVerif.ImportJson
/-! Helper lemmas for the C07 theorems: the cryptobyte transcription over Go slices never panics and
coincides with the `Wire` readers; composition rules for `Out.Safe`; reader length facts. -/
namespace Import
open Wire Ext

/-! ## Go slices / cryptobyte -/

theorem goSlice_prefix (s : Bytes) (n : Nat) (h : n ≤ s.length) : goSlice s 0 n = .ok (s.take n) := by
  simp [goSlice, h]

theorem goSlice_suffix (s : Bytes) (n : Nat) (h : n ≤ s.length) : goSlice s n s.length = .ok (s.drop n) := by
  simp [goSlice, h]

theorem goIdx_lt (s : Bytes) (i : Nat) (h : i < s.length) : goIdx s i = .ok s[i] := by
  simp [goIdx, h]

/-- cryptobyte's `read(n)` never slices out of range: its guard is exactly the slice precondition. -/
theorem cbRead_eq (n : Nat) (s : Bytes) : cbRead n s = .ok (take? n s) := by
  unfold cbRead take?
  by_cases h : s.length < n
  · have : ¬ n ≤ s.length := by omega
    simp [h, this]
  · have h' : n ≤ s.length := by omega
    simp [h, h', goSlice_prefix, goSlice_suffix]

theorem cbSkip_eq (n : Nat) (s : Bytes) : cbSkip n s = .ok ((take? n s).map (·.2)) := by
  simp [cbSkip, cbRead_eq]

theorem cbU8_eq (s : Bytes) : cbU8 s = .ok (readU8 s) := by
  unfold cbU8
  rw [cbRead_eq]
  cases s with
  | nil => simp [take?, readU8]
  | cons a r => simp [take?, readU8, goIdx]

theorem cbU16_eq (s : Bytes) : cbU16 s = .ok (readU16 s) := by
  unfold cbU16
  rw [cbRead_eq]
  match s with
  | [] => simp [take?, readU16]
  | [_] => simp [take?, readU16]
  | a :: c :: r => simp [take?, readU16, goIdx]

theorem cbVec8_eq (s : Bytes) : cbVec8 s = .ok (readVec8 s) := by
  unfold cbVec8 readVec8
  rw [cbU8_eq]
  cases readU8 s with
  | none => rfl
  | some p => simp [cbRead_eq]

theorem cbVec16_eq (s : Bytes) : cbVec16 s = .ok (readVec16 s) := by
  unfold cbVec16 readVec16
  rw [cbU16_eq]
  cases readU16 s with
  | none => rfl
  | some p => simp [cbRead_eq]

/-! ## `Safe` composition -/

theorem safe_ok {α : Type} (a : α) : (Out.ok a).Safe := by simp [Out.Safe]
theorem safe_err {α : Type} : (Out.err : Out α).Safe := by simp [Out.Safe]

theorem safe_bind {α β : Type} {x : Out α} {f : α → Out β} (hx : x.Safe) (hf : ∀ a, x = .ok a → (f a).Safe) :
    (x.bind f).Safe := by
  cases x with
  | ok a => exact hf a rfl
  | err => exact safe_err
  | panic => exact absurd rfl hx.1
  | hang => exact absurd rfl hx.2

theorem safe_need {α β : Type} {o : Option α} {f : α → Out β} (hf : ∀ a, o = some a → (f a).Safe) :
    (Out.need (.ok o) f).Safe := by
  cases o with
  | none => exact safe_err
  | some a => exact hf a rfl

theorem safe_ite {α : Type} {c : Prop} [Decidable c] {a b : Out α} (ha : a.Safe) (hb : b.Safe) :
    (if c then a else b).Safe := by
  split <;> assumption

theorem safe_withKey {o : Option Bytes} {f : Bytes → Out SExt} (hf : ∀ d, (f d).Safe) : (withKey o f).Safe := by
  cases o with
  | none => exact safe_err
  | some d => exact hf d

/-! ## reader length facts -/

theorem take?_len {n : Nat} {bs x r : Bytes} (h : take? n bs = some (x, r)) : r.length + n = bs.length ∧ x.length = n := by
  unfold take? at h
  split at h
  · cases h; simp; omega
  · cases h

theorem readU8_len {bs r : Bytes} {n : Nat} (h : readU8 bs = some (n, r)) : r.length + 1 = bs.length := by
  cases bs with
  | nil => cases h
  | cons a t => simp [readU8] at h; simp [h.2]

theorem readU16_len {bs r : Bytes} {n : Nat} (h : readU16 bs = some (n, r)) : r.length + 2 = bs.length := by
  match bs with
  | [] => cases h
  | [_] => cases h
  | a :: c :: t => simp [readU16] at h; simp [h.2]

theorem readVec16_len {bs x r : Bytes} (h : readVec16 bs = some (x, r)) : r.length + 2 + x.length = bs.length := by
  unfold readVec16 at h
  cases h1 : readU16 bs with
  | none => simp [h1] at h
  | some p =>
    obtain ⟨n, t⟩ := p
    simp only [h1] at h
    have := readU16_len h1
    have := take?_len h
    omega

/-! ## `ReadTLSExtensions` -/

theorem readExts_succ (blunt realPSK : Bool) (fuel : Nat) (bs : Bytes) (acc : List SExt) (sv : Bool) (h : bs ≠ []) :
    readExts blunt realPSK (fuel + 1) bs acc sv =
      Out.need (cbU16 bs) fun (id, r) =>
      Out.need (cbVec16 r) fun (data, r') =>
        match Ext.write realPSK id data with
        | .ok e => readExts blunt realPSK fuel r' (acc ++ [ofWrite e]) (sv || id == 43)
        | .err => .err
        | .unknown =>
          if blunt then readExts blunt realPSK fuel r' (acc ++ [{ ext := .generic id data }]) sv
          else .err := by
  cases bs with
  | nil => exact absurd rfl h
  | cons c cs => rfl

/-- the extension loop consumes at least four bytes per iteration: it terminates and never panics. -/
theorem readExts_safe (blunt realPSK : Bool) :
    ∀ (fuel : Nat) (bs : Bytes) (acc : List SExt) (sv : Bool), bs.length ≤ fuel →
      (readExts blunt realPSK fuel bs acc sv).Safe := by
  intro fuel
  induction fuel with
  | zero =>
    intro bs acc sv h
    have : bs = [] := List.length_eq_zero_iff.mp (by omega)
    subst this
    exact safe_ok _
  | succ fuel ih =>
    intro bs acc sv h
    by_cases hb : bs = []
    · subst hb; exact safe_ok _
    · rw [readExts_succ _ _ _ _ _ _ hb, cbU16_eq]
      apply safe_need
      intro ⟨id, r⟩ h1
      simp only
      rw [cbVec16_eq]
      apply safe_need
      intro ⟨data, r'⟩ h2
      simp only
      have l1 := readU16_len h1
      have l2 := readVec16_len h2
      have hr : r'.length ≤ fuel := by omega
      cases Ext.write realPSK id data with
      | ok e => exact ih _ _ _ hr
      | err => exact safe_err
      | unknown =>
        simp only
        split
        · exact ih _ _ _ hr
        · exact safe_err

/-! ## the key_share loop of `ImportTLSClientHello` -/

/-- with the repaired length check (`len % 4 = 0`) the loop neither slices nor indexes out of range. -/
theorem ksLoop_safe (ks : Bytes) (hlen : ks.length % 4 = 0) :
    ∀ (fuel i : Nat) (acc : Bytes), i % 4 = 0 → ks.length ≤ i + 4 * fuel → (ksLoop ks fuel i acc).Safe := by
  intro fuel
  induction fuel with
  | zero =>
    intro i acc _ h
    unfold ksLoop
    rw [if_neg (by omega)]
    exact safe_ok _
  | succ fuel ih =>
    intro i acc hi h
    unfold ksLoop
    split
    · rename_i hlt
      have h4 : i + 4 ≤ ks.length := by omega
      have hs : goSlice ks i (i + 4) = .ok ((ks.take (i + 4)).drop i) := by simp [goSlice, h4]
      rw [hs, Out.bind_ok, goIdx_lt ks (i + 3) (by omega), Out.bind_ok]
      exact ih _ _ (by omega) (by omega)
    · exact safe_ok _

end Import
