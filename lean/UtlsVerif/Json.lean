import UtlsVerif.Dict
/-!
# Json — model of the JSON ClientHello format decoding (`u_clienthello_json.go`, the `UnmarshalJSON`
methods of `u_tls_extensions.go`) at the level below JSON syntax (`encoding/json` is trusted):
a document is its name skeleton — cipher-suite names, compression-method names, and per extension the
extension name plus the one list of names the extension's `UnmarshalJSON` resolves through a dictionary.

`specOfJson` transcribes the decoding: `"GREASE"` → `GREASE_PLACEHOLDER` where the code accepts it,
otherwise `dicttls.Dict…NameIndexed[name]`, error on an unknown name; extension name →
`DictExtTypeNameIndexed` → `ExtensionFromID` (the regenerated `extKind` table says which list, if any,
the extension type decodes and whether it is JSON-capable at all).
`renderJson` is the inverse direction a producer of the format uses (code point → name through the
value-indexed tables).  `shape` of the raw import = the code points as `FromRaw` yields them.
Core Lean only.
-/
namespace Json
open Dict

/-- the dictionaries the JSON decoding uses (all regenerated from the working tree, `Gen.Dict`). -/
structure Tables where
  suitesV : Table
  suitesN : Table
  compV : Table
  compN : Table
  extV : Table
  extN : Table
  groupsV : Table
  groupsN : Table
  pointsV : Table
  pointsN : Table
  sigsV : Table
  sigsN : Table
  ccV : Table
  ccN : Table
  pmV : Table
  pmN : Table
  /-- extension id ↦ kind code of `ExtensionFromID(id)`:
  0 = nil or not `TLSExtensionJSON`, 1 = no name list, 2 = supported_groups, 3 = ec_point_formats,
  4 = signature schemes (13, 50, 34), 5 = compress_certificate, 6 = key_share, 7 = psk modes,
  8 = supported_versions, 9 = token_binding. -/
  extKind : Table

/-- `SupportedVersionsExtension.UnmarshalJSON`: the version names are a `switch` in the code. -/
def nmTLS13 : Nat := 0x01544c5320312e33  -- "TLS 1.3"
def nmTLS12 : Nat := 0x01544c5320312e32  -- "TLS 1.2"
def nmTLS11 : Nat := 0x01544c5320312e31  -- "TLS 1.1"
def nmTLS10 : Nat := 0x01544c5320312e30  -- "TLS 1.0"
def versionN : Table := [(nmTLS13, 0x0304), (nmTLS12, 0x0303), (nmTLS11, 0x0302), (nmTLS10, 0x0301)]
def versionV : Table := [(0x0304, nmTLS13), (0x0303, nmTLS12), (0x0302, nmTLS11), (0x0301, nmTLS10)]

/-- `FakeTokenBindingExtension.UnmarshalJSON`: key parameter names are a `switch` in the code. -/
def nmRsaPkcs : Nat := 0x01727361323034385f706b6373312e35  -- "rsa2048_pkcs1.5"
def nmRsaPss : Nat := 0x01727361323034385f707373            -- "rsa2048_pss"
def nmEcdsaP256 : Nat := 0x01656364736170323536              -- "ecdsap256"
def tokenBindingN : Table := [(nmRsaPkcs, 0), (nmRsaPss, 1), (nmEcdsaP256, 2)]
def tokenBindingV : Table := [(0, nmRsaPkcs), (1, nmRsaPss), (2, nmEcdsaP256)]

/-- one name of a name list: `"GREASE"` is accepted by the lists the code special-cases. -/
def decodeName (grease : Bool) (ntab : Table) (nm : Nat) : Option Nat :=
  if grease && nm == greaseName then some greasePlaceholder else lookup ntab nm

/-- a whole list; `none` = the `fmt.Errorf("unknown …")` outcome. -/
def decodeNames (grease : Bool) (ntab : Table) : List Nat → Option (List Nat)
  | [] => some []
  | nm :: t =>
    match decodeName grease ntab nm with
    | none => none
    | some v =>
      match decodeNames grease ntab t with
      | none => none
      | some vs => some (v :: vs)

/-- producer direction: a code point is spelled `"GREASE"` (where the format has it) or by its
value-indexed name; `none` = the hello is not representable in the format. -/
def renderName (grease : Bool) (vtab : Table) (v : Nat) : Option Nat :=
  if grease && isGrease v then some greaseName else lookup vtab v

def renderNames (grease : Bool) (vtab : Table) : List Nat → Option (List Nat)
  | [] => some []
  | v :: t =>
    match renderName grease vtab v with
    | none => none
    | some nm =>
      match renderNames grease vtab t with
      | none => none
      | some nms => some (nm :: nms)

/-- (accepts "GREASE", value-indexed table, name-indexed table) of the list an extension kind decodes. -/
def listSpec (T : Tables) : Nat → Option (Bool × Table × Table)
  | 2 => some (true, T.groupsV, T.groupsN)
  | 3 => some (false, T.pointsV, T.pointsN)
  | 4 => some (true, T.sigsV, T.sigsN)
  | 5 => some (false, T.ccV, T.ccN)
  | 6 => some (true, T.groupsV, T.groupsN)
  | 7 => some (false, T.pmV, T.pmN)
  | 8 => some (true, versionV, versionN)
  | 9 => some (false, tokenBindingV, tokenBindingN)
  | _ => none

/-- JSON side of one extension: its name and its name list (empty when it has none). -/
structure JExt where
  name : Nat
  names : List Nat
  deriving DecidableEq, Repr

/-- spec side of one extension: code point (GREASE: the placeholder) and the decoded list. -/
structure SExt where
  id : Nat
  vals : List Nat
  deriving DecidableEq, Repr

structure JDoc where
  suites : List Nat
  comps : List Nat
  exts : List JExt
  deriving DecidableEq, Repr

structure Shape where
  suites : List Nat
  comps : List Nat
  exts : List SExt
  deriving DecidableEq, Repr

/-- `TLSExtensionsJSONUnmarshaler.UnmarshalJSON` for one element (without `AllowUnknownExt`). -/
def decodeExt (T : Tables) (e : JExt) : Option SExt :=
  if e.name == greaseName then some ⟨greasePlaceholder, []⟩
  else
    match lookup T.extN e.name with
    | none => none                                   -- ErrUnknownExtension
    | some id =>
      match lookup T.extKind id with
      | none => none                                 -- ExtensionFromID = nil
      | some k =>
        if k == 0 then none                          -- "is not JSON compatible"
        else
          match listSpec T k with
          | none => some ⟨id, []⟩
          | some (g, _, nt) =>
            match decodeNames g nt e.names with
            | none => none
            | some vs => some ⟨id, vs⟩

def decodeExts (T : Tables) : List JExt → Option (List SExt)
  | [] => some []
  | e :: t =>
    match decodeExt T e with
    | none => none
    | some s =>
      match decodeExts T t with
      | none => none
      | some ss => some (s :: ss)

/-- `ClientHelloSpec.UnmarshalJSON`: cipher suites accept "GREASE", compression methods do not. -/
def specOfJson (T : Tables) (d : JDoc) : Option Shape :=
  match decodeNames true T.suitesN d.suites with
  | none => none
  | some su =>
    match decodeNames false T.compN d.comps with
    | none => none
    | some co =>
      match decodeExts T d.exts with
      | none => none
      | some ex => some ⟨su, co, ex⟩

/-! ### importer options

`TLSExtensionsJSONUnmarshaler.AllowUnknownExt` (JSON counterpart of the raw importer's blunt mimicry): a
name the dictionary knows but for which `ExtensionFromID` returns nil imports as a `GenericExtension` with
that code point instead of failing.  (`UseRealPSK` only selects the type of the pre_shared_key extension;
the code point and the name lists are the same, so it does not show at this level.) -/

def decodeExtOpt (T : Tables) (nilIds : List Nat) (allowUnknown : Bool) (e : JExt) : Option SExt :=
  match decodeExt T e with
  | some s => some s
  | none =>
    if allowUnknown && !(e.name == greaseName) then
      match lookup T.extN e.name with
      | some id => if nilIds.contains id then some ⟨id, []⟩ else none
      | none => none
    else none

def decodeExtsOpt (T : Tables) (nilIds : List Nat) (allowUnknown : Bool) : List JExt → Option (List SExt)
  | [] => some []
  | e :: t =>
    match decodeExtOpt T nilIds allowUnknown e with
    | none => none
    | some s =>
      match decodeExtsOpt T nilIds allowUnknown t with
      | none => none
      | some ss => some (s :: ss)

def specOfJsonOpt (T : Tables) (nilIds : List Nat) (allowUnknown : Bool) (d : JDoc) : Option Shape :=
  match decodeNames true T.suitesN d.suites with
  | none => none
  | some su =>
    match decodeNames false T.compN d.comps with
    | none => none
    | some co =>
      match decodeExtsOpt T nilIds allowUnknown d.exts with
      | none => none
      | some ex => some ⟨su, co, ex⟩

/-- producer direction for one extension of a hello. -/
def renderExt (T : Tables) (s : SExt) : Option JExt :=
  if isGrease s.id then some ⟨greaseName, []⟩
  else
    match lookup T.extV s.id with
    | none => none
    | some nm =>
      match lookup T.extKind s.id with
      | none => none
      | some k =>
        if k == 0 then none
        else
          match listSpec T k with
          | none => some ⟨nm, []⟩
          | some (g, vt, _) =>
            match renderNames g vt s.vals with
            | none => none
            | some nms => some ⟨nm, nms⟩

def renderExts (T : Tables) : List SExt → Option (List JExt)
  | [] => some []
  | e :: t =>
    match renderExt T e with
    | none => none
    | some j =>
      match renderExts T t with
      | none => none
      | some js => some (j :: js)

/-- `none` = the hello is not representable in the JSON format. -/
def renderJson (T : Tables) (s : Shape) : Option JDoc :=
  match renderNames true T.suitesV s.suites with
  | none => none
  | some su =>
    match renderNames false T.compV s.comps with
    | none => none
    | some co =>
      match renderExts T s.exts with
      | none => none
      | some ex => some ⟨su, co, ex⟩

/-- what the raw import makes of one extension "modulo GREASE": GREASE code points become the
placeholder (`unGREASEUint16`); an extension without a name list carries no list. -/
def normExt (T : Tables) (s : SExt) : SExt :=
  if isGrease s.id then ⟨greasePlaceholder, []⟩
  else
    match (lookup T.extKind s.id).bind (listSpec T) with
    | none => ⟨s.id, []⟩
    | some (g, _, _) => ⟨s.id, if g then s.vals.map unGrease else s.vals⟩

def normShape (T : Tables) (s : Shape) : Shape :=
  ⟨s.suites.map unGrease, s.comps, s.exts.map (normExt T)⟩

end Json
