import UtlsVerif.Json
import UtlsVerif.DictLemmas
/-!
# JsonLemmas — decoding the JSON rendering of a hello yields the raw import's code points.

General statements: they hold for **any** dictionaries whose value-indexed rows resolve back through
the name-indexed table (`dict_consistent`) and in which no code point is spelled `"GREASE"`.
Props/C32 instantiates them with the regenerated `Gen.Dict` tables.
-/
namespace Json
open Dict

/-- the two facts about a value-indexed/name-indexed pair the JSON round trip needs. -/
def RowsOK (v n : Table) : Prop :=
  (∀ r ∈ v, lookup n r.2 = some r.1) ∧ (∀ r ∈ v, r.2 ≠ greaseName)

/-- decidable form of the second fact (evaluated over the regenerated tables). -/
def noGreaseName (v : Table) : Bool := v.all (fun r => r.2 != greaseName)

theorem noGreaseName_rows (v : Table) (h : noGreaseName v = true) : ∀ r ∈ v, r.2 ≠ greaseName := by
  intro r hr
  have := (List.all_eq_true.mp h) r hr
  simpa using this

structure TablesOK (T : Tables) : Prop where
  suites : RowsOK T.suitesV T.suitesN
  comp : RowsOK T.compV T.compN
  ext : RowsOK T.extV T.extN
  groups : RowsOK T.groupsV T.groupsN
  points : RowsOK T.pointsV T.pointsN
  sigs : RowsOK T.sigsV T.sigsN
  cc : RowsOK T.ccV T.ccN
  pm : RowsOK T.pmV T.pmN

theorem versions_rowsOK : RowsOK versionV versionN := by
  constructor <;> decide

theorem tokenBinding_rowsOK : RowsOK tokenBindingV tokenBindingN := by
  constructor <;> decide

theorem isGrease_placeholder : isGrease greasePlaceholder = true := by decide

/-- one name: rendering then decoding gives the code point back, GREASE as the placeholder. -/
theorem name_roundtrip (g : Bool) (v n : Table) (h : RowsOK v n) (x nm : Nat)
    (hr : renderName g v x = some nm) :
    decodeName g n nm = some (if g then unGrease x else x) := by
  unfold renderName at hr
  by_cases hg : (g && isGrease x) = true
  · rw [if_pos hg] at hr
    have hnm : nm = greaseName := by injection hr with hr; exact hr.symm
    have hg' : g = true ∧ isGrease x = true := by simpa using hg
    subst hnm
    simp [decodeName, hg'.1, unGrease, hg'.2]
  · rw [if_neg hg] at hr
    have hmem : (x, nm) ∈ v := mem_of_lookup v x nm hr
    have hne : nm ≠ greaseName := h.2 (x, nm) hmem
    have hback : lookup n nm = some x := h.1 (x, nm) hmem
    have hbeq : (nm == greaseName) = false := by simpa using hne
    simp only [decodeName, hbeq, Bool.and_false, Bool.false_eq_true, if_false, hback]
    cases g with
    | false => simp
    | true =>
      have : isGrease x = false := by simpa using hg
      simp [unGrease, this]

/-- a whole name list. -/
theorem names_roundtrip (g : Bool) (v n : Table) (h : RowsOK v n) :
    ∀ (xs nms : List Nat), renderNames g v xs = some nms →
      decodeNames g n nms = some (if g then xs.map unGrease else xs) := by
  intro xs
  induction xs with
  | nil =>
    intro nms hr
    simp only [renderNames, Option.some.injEq] at hr
    subst hr
    cases g <;> simp [decodeNames]
  | cons x t ih =>
    intro nms hr
    simp only [renderNames] at hr
    cases h1 : renderName g v x with
    | none => rw [h1] at hr; cases hr
    | some nm =>
      rw [h1] at hr
      cases h2 : renderNames g v t with
      | none => rw [h2] at hr; cases hr
      | some nt =>
        rw [h2] at hr
        simp only [Option.some.injEq] at hr
        subst hr
        have e1 := name_roundtrip g v n h x nm h1
        have e2 := ih nt h2
        simp only [decodeNames, e1, e2]
        cases g <;> simp

/-- every list an extension kind decodes uses a consistent pair. -/
theorem listSpec_rowsOK (T : Tables) (ok : TablesOK T) (k : Nat) (g : Bool) (vt nt : Table)
    (h : listSpec T k = some (g, vt, nt)) : RowsOK vt nt := by
  unfold listSpec at h
  split at h <;> simp only [Option.some.injEq, Prod.mk.injEq, reduceCtorEq] at h
  · obtain ⟨_, rfl, rfl⟩ := h; exact ok.groups
  · obtain ⟨_, rfl, rfl⟩ := h; exact ok.points
  · obtain ⟨_, rfl, rfl⟩ := h; exact ok.sigs
  · obtain ⟨_, rfl, rfl⟩ := h; exact ok.cc
  · obtain ⟨_, rfl, rfl⟩ := h; exact ok.groups
  · obtain ⟨_, rfl, rfl⟩ := h; exact ok.pm
  · obtain ⟨_, rfl, rfl⟩ := h; exact versions_rowsOK
  · obtain ⟨_, rfl, rfl⟩ := h; exact tokenBinding_rowsOK

/-- one extension. -/
theorem ext_roundtrip (T : Tables) (ok : TablesOK T) (s : SExt) (j : JExt)
    (hr : renderExt T s = some j) : decodeExt T j = some (normExt T s) := by
  unfold renderExt at hr
  by_cases hg : isGrease s.id = true
  · rw [if_pos hg] at hr
    injection hr with hr
    subst hr
    simp [decodeExt, normExt, hg]
  · rw [if_neg hg] at hr
    cases h1 : lookup T.extV s.id with
    | none => rw [h1] at hr; cases hr
    | some nm =>
      simp only [h1] at hr
      have hmem : (s.id, nm) ∈ T.extV := mem_of_lookup _ _ _ h1
      have hne : nm ≠ greaseName := ok.ext.2 _ hmem
      have hback : lookup T.extN nm = some s.id := ok.ext.1 _ hmem
      have hbeq : (nm == greaseName) = false := by simpa using hne
      cases h2 : lookup T.extKind s.id with
      | none => rw [h2] at hr; cases hr
      | some k =>
        simp only [h2] at hr
        by_cases hk : (k == 0) = true
        · rw [if_pos hk] at hr; cases hr
        · rw [if_neg hk] at hr
          cases h3 : listSpec T k with
          | none =>
            simp only [h3] at hr
            injection hr with hr
            subst hr
            simp [decodeExt, hbeq, hback, h2, hk, h3, normExt, hg]
          | some spec =>
            obtain ⟨g, vt, nt⟩ := spec
            simp only [h3] at hr
            cases h4 : renderNames g vt s.vals with
            | none => rw [h4] at hr; cases hr
            | some nms =>
              simp only [h4] at hr
              injection hr with hr
              subst hr
              have hrows := listSpec_rowsOK T ok k g vt nt h3
              have e := names_roundtrip g vt nt hrows s.vals nms h4
              simp only [decodeExt, hbeq, Bool.false_eq_true, if_false, hback, h2, hk, h3, e, normExt, hg,
                Option.bind_some]

theorem exts_roundtrip (T : Tables) (ok : TablesOK T) :
    ∀ (ss : List SExt) (js : List JExt), renderExts T ss = some js →
      decodeExts T js = some (ss.map (normExt T)) := by
  intro ss
  induction ss with
  | nil =>
    intro js hr
    simp only [renderExts, Option.some.injEq] at hr
    subst hr
    rfl
  | cons s t ih =>
    intro js hr
    simp only [renderExts] at hr
    cases h1 : renderExt T s with
    | none => rw [h1] at hr; cases hr
    | some j =>
      rw [h1] at hr
      cases h2 : renderExts T t with
      | none => rw [h2] at hr; cases hr
      | some jt =>
        rw [h2] at hr
        simp only [Option.some.injEq] at hr
        subst hr
        simp only [decodeExts, ext_roundtrip T ok s j h1, ih jt h2, List.map_cons]

/-- the whole document: decoding the JSON rendering of a hello's shape gives the shape the raw import
yields, modulo GREASE. -/
theorem doc_roundtrip (T : Tables) (ok : TablesOK T) (s : Shape) (d : JDoc)
    (hr : renderJson T s = some d) : specOfJson T d = some (normShape T s) := by
  unfold renderJson at hr
  cases h1 : renderNames true T.suitesV s.suites with
  | none => rw [h1] at hr; cases hr
  | some su =>
    rw [h1] at hr
    cases h2 : renderNames false T.compV s.comps with
    | none => rw [h2] at hr; cases hr
    | some co =>
      rw [h2] at hr
      cases h3 : renderExts T s.exts with
      | none => rw [h3] at hr; cases hr
      | some ex =>
        rw [h3] at hr
        simp only [Option.some.injEq] at hr
        subst hr
        have e1 := names_roundtrip true _ _ ok.suites _ _ h1
        have e2 := names_roundtrip false _ _ ok.comp _ _ h2
        have e3 := exts_roundtrip T ok _ _ h3
        simp only [specOfJson, e1, e2, e3, normShape, if_true, Bool.false_eq_true, if_false]

end Json
