import UtlsVerif.Json
import UtlsVerif.Gen.Dict
/-! the dictionaries of the working tree (`Gen.Dict`, regenerated on every run) as `Json.Tables`. -/
namespace Json

def genTables : Tables where
  suitesV := Gen.Dict.CipherSuite_v
  suitesN := Gen.Dict.CipherSuite_n
  compV := Gen.Dict.CompMeth_v
  compN := Gen.Dict.CompMeth_n
  extV := Gen.Dict.ExtType_v
  extN := Gen.Dict.ExtType_n
  groupsV := Gen.Dict.SupportedGroups_v
  groupsN := Gen.Dict.SupportedGroups_n
  pointsV := Gen.Dict.ECPointFormat_v
  pointsN := Gen.Dict.ECPointFormat_n
  sigsV := Gen.Dict.SignatureScheme_v
  sigsN := Gen.Dict.SignatureScheme_n
  ccV := Gen.Dict.CertificateCompressionAlgorithm_v
  ccN := Gen.Dict.CertificateCompressionAlgorithm_n
  pmV := Gen.Dict.PSKKeyExchangeMode_v
  pmN := Gen.Dict.PSKKeyExchangeMode_n
  extKind := Gen.Dict.extKind

end Json
