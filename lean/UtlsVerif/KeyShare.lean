import UtlsVerif.Grease
import UtlsVerif.Negotiate
/-!
# KeyShare — key-share generation, retained private keys and the use of `Config.Rand` in `ApplyPreset`

Transcription of the parts of `(*UConn).ApplyPreset` (/repo/u_parrots.go) that decide what key
material a ClientHello carries and which private keys the connection keeps:

* the loop over the `KeyShareExtension` entries: a GREASE entry gets the connection's GREASE group and
  keeps its data; an entry whose `Data` is longer than one byte is left alone (the caller supplied the
  share — and the private key is the caller's business); every other entry gets a freshly generated
  public key of its group — `generateECDHEKey` for the classical curves, an X25519 key plus an ML-KEM-768
  decapsulation key for the two hybrid groups — or the whole call fails for a group the library cannot
  generate;
* the bookkeeping of private keys in `KeySharePrivateKeys`: `Ecdhe` = first classical key, `Mlkem` /
  `MlkemEcdhe` = last hybrid share, and (after the D06 repair) `EcdheKeys` / `MlkemKeys` = one entry per
  generated group, first share of a group wins;
* the reads of `Config.Rand`, in order: ClientHello random, a first session id (both in
  `makeClientHelloForApplyPreset`), the GREASE seed, the session id that goes on the wire — neither
  session id for QUIC — and the key seeds of every generated share;
* the second application of a preset to the same spec objects (`BuildHandshakeStateWithoutSession`
  followed by `BuildHandshakeState`): all shares are filled in by then, so none is regenerated, and the
  key set is either kept (`keepKeys`, the repair of D12) or reset to empty (the unrepaired code).

Key generation itself (curve arithmetic, ML-KEM) is not modelled: a key is "the bytes read for it".
Core Lean only.
-/
namespace KeyShare
open Negotiate

/-- length of the public key `ApplyPreset` generates for a group; `none` = it cannot generate one
(`generateECDHEKey` fails: "unsupported Curve in KeyShareExtension"). -/
def shareSize (g : Nat) : Option Nat :=
  if g == 29 then some 32
  else if g == 23 then some 65
  else if g == 24 then some 97
  else if g == 25 then some 133
  else if g == x25519MLKEM768 || g == x25519Kyber768Draft00 then some (1184 + 32)
  else none

/-- lengths of the reads of `Config.Rand` that generate the key(s) of a group (one-byte
`MaybeReadByte` probes not counted): the ECDH scalar, and for a hybrid group the X25519 scalar followed
by the 64-byte ML-KEM seed. -/
def keyReads (g : Nat) : List Nat :=
  if g == 29 then [32] else if g == 23 then [32] else if g == 24 then [48] else if g == 25 then [66]
  else if isHybrid g then [32, 64] else []

/-- a `KeyShare` of the spec: its group and the length of the `Data` the spec came with. -/
structure SpecShare where
  group : Nat
  dataLen : Nat
  deriving DecidableEq, Repr

/-- `KeySharePrivateKeys`: curve of `Ecdhe` (0 = nil), `Mlkem` / `MlkemEcdhe` held, groups with an entry
in `EcdheKeys` / `MlkemKeys`. -/
structure Keys where
  ecdhe : Nat := 0
  mlkem : Bool := false
  mlkemEcdhe : Bool := false
  ecdheKeys : List Nat := []
  mlkemKeys : List Nat := []
  deriving DecidableEq, Repr

/-- `KeySharePrivateKeys.retain`: the first share of a group wins. -/
def Keys.retain (k : Keys) (g : Nat) (hybrid : Bool) : Keys :=
  if k.ecdheKeys.contains g then k
  else { k with ecdheKeys := k.ecdheKeys ++ [g], mlkemKeys := if hybrid then k.mlkemKeys ++ [g] else k.mlkemKeys }

/-- does the loop generate a key for this entry? -/
def generated (s : SpecShare) : Bool := !Grease.isGrease s.group && decide (s.dataLen ≤ 1)

/-- what `Config.Rand` is read for. -/
inductive Material where
  | random | sessionId0 | grease | sessionId
  | ecdhe (idx : Nat)      -- ECDH scalar of the share at this index
  | mlkem (idx : Nat)      -- ML-KEM seed of the share at this index
  deriving DecidableEq, Repr

/-- state of the key-share loop. -/
structure Loop where
  keys : Keys
  preferredSet : Bool := false
  wire : List (Nat × Nat) := []          -- (group, data length) as marshalled
  reads : List (Material × Nat) := []    -- reads of Config.Rand, in order
  deriving DecidableEq, Repr

/-- one iteration of the loop over `ext.KeyShares`; `none` = ApplyPreset returns an error. -/
def step (greaseGroup : Nat) (st : Loop) (idx : Nat) (s : SpecShare) : Option Loop :=
  if Grease.isGrease s.group then
    some { st with wire := st.wire ++ [(greaseGroup, s.dataLen)] }
  else if s.dataLen > 1 then
    some { st with wire := st.wire ++ [(s.group, s.dataLen)] }
  else if isHybrid s.group then
    some { st with
      keys := ({ st.keys with mlkem := true, mlkemEcdhe := true }).retain s.group true
      wire := st.wire ++ [(s.group, 1184 + 32)]
      reads := st.reads ++ [(.ecdhe idx, 32), (.mlkem idx, 64)] }
  else
    match shareSize s.group with
    | none => none
    | some n =>
      some { st with
        keys := ({ st.keys with ecdhe := if st.preferredSet then st.keys.ecdhe else s.group }).retain s.group false
        preferredSet := true
        wire := st.wire ++ [(s.group, n)]
        reads := st.reads ++ [(.ecdhe idx, (keyReads s.group).headD 0)] }

def loop (greaseGroup : Nat) : Loop → Nat → List SpecShare → Option Loop
  | st, _, [] => some st
  | st, i, s :: rest => (step greaseGroup st i s).bind (loop greaseGroup · (i + 1) rest)

/-- result of `ApplyPreset` as far as key material goes. -/
structure Out where
  keys : Keys
  wire : List (Nat × Nat)
  sessionIdLen : Nat
  reads : List (Material × Nat)
  deriving DecidableEq, Repr

/-- the reads of `Config.Rand` before the key-share loop: ClientHello random and a first session id
(`makeClientHelloForApplyPreset`), the GREASE seed, the session id that goes on the wire; no session id is
read for a QUIC connection. -/
def preReads (quic : Bool) : List (Material × Nat) :=
  [(.random, 32)] ++ (if quic then [] else [(.sessionId0, 32)]) ++ [(.grease, 10)] ++
  (if quic then [] else [(.sessionId, 32)])

/-- `ApplyPreset` on a spec with these key shares. `prev` = the key set the connection holds before
(`none` on the first application); `keepKeys` = the D12 repair (an existing key set is kept). -/
def applyPreset (quic : Bool) (greaseGroup : Nat) (keepKeys : Bool) (prev : Option Keys)
    (spec : List SpecShare) : Option Out :=
  let start : Keys := match prev, keepKeys with
    | some k, true => k
    | _, _ => {}
  (loop greaseGroup { keys := start, reads := preReads quic } 0 spec).map fun st =>
    { keys := st.keys, wire := st.wire, sessionIdLen := if quic then 0 else 32, reads := st.reads }

/-- the spec objects after an application: every share now carries the data that was marshalled. -/
def specAfter (out : Out) : List SpecShare := out.wire.map fun (g, n) => { group := g, dataLen := n }

/-- the private key(s) behind a share of group `g` are held by the key set. -/
def Keys.retains (k : Keys) (g : Nat) : Bool :=
  k.ecdheKeys.contains g && (!isHybrid g || k.mlkemKeys.contains g)

/-- the key set as the negotiation model sees it. -/
def Keys.toCtx (k : Keys) (base : ClientCtx) : ClientCtx :=
  { base with ecdheGroup := k.ecdhe, hybridKeys := k.mlkem && k.mlkemEcdhe, mlkem := k.mlkem,
              mlkemEcdhe := k.mlkemEcdhe, keyGroups := k.ecdheKeys, mlkemGroups := k.mlkemKeys }

/-- offsets of the reads in the stream served by `Config.Rand`: `(material, offset, length)`. -/
def ranges : Nat → List (Material × Nat) → List (Material × Nat × Nat)
  | _, [] => []
  | off, (m, n) :: rest => (m, off, n) :: ranges (off + n) rest

/-- the bytes of one read: a slice of the stream. -/
def slice (stream : Wire.Bytes) (off len : Nat) : Wire.Bytes := (stream.drop off).take len

/-- the key shares of the spec `Fingerprinter` / `ClientHelloSpec.FromRaw` makes of a captured hello
(`KeyShareExtension.Write`): a GREASE entry becomes the GREASE placeholder and keeps its data, every
other entry keeps its group and **drops the captured key** — it is generated anew per connection. -/
def fingerprintShares (wire : List (Nat × Nat)) : List SpecShare :=
  wire.map fun (g, n) => if Grease.isGrease g then { group := 0x0a0a, dataLen := n } else { group := g, dataLen := 0 }

/-! ## `io.ReadFull` over a reader that serves the stream in arbitrary chunks -/

/-- `io.ReadFull(reader, buf[:n])` where the reader hands out the chunks `cs` one per `Read` (a chunk may
be empty — `(0, nil)` — or shorter than what was asked for; a chunk longer than the request is split, the
rest stays for the next `Read`): the bytes obtained and the chunks left. `none` = the reader ran dry. -/
def readFull : List Wire.Bytes → Nat → Option (Wire.Bytes × List Wire.Bytes)
  | cs, 0 => some ([], cs)
  | [], _ + 1 => none
  | c :: cs, n + 1 =>
    if c.length ≤ n + 1 then (readFull cs (n + 1 - c.length)).map fun (b, r) => (c ++ b, r)
    else some (c.take (n + 1), c.drop (n + 1) :: cs)

/-- a single `Read` into a zeroed buffer of `n` bytes (what `reader.Read(buf)` without `io.ReadFull`
leaves in `buf`): the first chunk, cut or zero-padded to `n`. -/
def readOnce : List Wire.Bytes → Nat → Wire.Bytes
  | [], n => List.replicate n 0
  | c :: _, n => c.take n ++ List.replicate (n - c.length) 0

/-- the logical reads of one `ApplyPreset` (`io.ReadFull` for each length, in order) over a chunked reader. -/
def readAll : List Wire.Bytes → List Nat → Option (List Wire.Bytes)
  | _, [] => some []
  | cs, n :: ns =>
    match readFull cs n with
    | none => none
    | some (b, r) => (readAll r ns).map (b :: ·)

/-- consecutive slices of a stream with the given lengths. -/
def slices : Wire.Bytes → List Nat → List Wire.Bytes
  | _, [] => []
  | s, n :: ns => s.take n :: slices (s.drop n) ns

end KeyShare
