import UtlsVerif.KeyShare
import UtlsVerif.NegotiateComplete
import UtlsVerif.NegotiateLemmas
/-!
# KeyShareLemmas — invariants of the key-share loop of `ApplyPreset`

Helper lemmas for `Props/C18.lean` and `Props/C10.lean`: the loop keeps a well-formed key set that
retains every share it generated, marshals one entry per spec entry, and reads `Config.Rand` once per
key.
-/
namespace KeyShare
open Negotiate

/-- a well-formed key set: a hybrid group with an ECDH entry also has its ML-KEM entry. -/
def Keys.WF (k : Keys) : Prop := ∀ g ∈ k.ecdheKeys, isHybrid g = true → g ∈ k.mlkemKeys

theorem wf_empty : ({} : Keys).WF := by intro g hg; cases hg

theorem retain_lists_flags (k : Keys) (e : Nat) (m me : Bool) :
    ({ k with ecdhe := e, mlkem := m, mlkemEcdhe := me } : Keys).ecdheKeys = k.ecdheKeys ∧
    ({ k with ecdhe := e, mlkem := m, mlkemEcdhe := me } : Keys).mlkemKeys = k.mlkemKeys := ⟨rfl, rfl⟩

theorem retain_ecdhe (k : Keys) (g : Nat) (hy : Bool) : (k.retain g hy).ecdhe = k.ecdhe := by
  unfold Keys.retain; split <;> rfl

theorem retain_mlkemEcdhe (k : Keys) (g : Nat) (hy : Bool) : (k.retain g hy).mlkemEcdhe = k.mlkemEcdhe := by
  unfold Keys.retain; split <;> rfl

theorem retain_mem_self (k : Keys) (g : Nat) (hy : Bool) : g ∈ (k.retain g hy).ecdheKeys := by
  unfold Keys.retain
  by_cases h : k.ecdheKeys.contains g = true
  · rw [if_pos h]; exact contains_nat.mp h
  · rw [if_neg h]; simp

theorem retain_mono (k : Keys) (g g' : Nat) (hy : Bool) (h : g ∈ k.ecdheKeys) : g ∈ (k.retain g' hy).ecdheKeys := by
  unfold Keys.retain
  by_cases hc : k.ecdheKeys.contains g' = true
  · rw [if_pos hc]; exact h
  · rw [if_neg hc]; simp [h]

theorem retain_wf (k : Keys) (g : Nat) (hwf : k.WF) : (k.retain g (isHybrid g)).WF := by
  unfold Keys.retain
  by_cases hc : k.ecdheKeys.contains g = true
  · rw [if_pos hc]; exact hwf
  · rw [if_neg hc]
    intro x hx hyb
    simp only [List.mem_append, List.mem_singleton] at hx
    rcases hx with hx | hx
    · have := hwf x hx hyb
      by_cases hg : isHybrid g = true
      · simp [hg, this]
      · simp [hg, this]
    · subst hx
      simp [hyb]

/-- one loop iteration: the key set stays well-formed, earlier entries stay, a generated share is retained,
and the key set is usable (`Ecdhe` or `MlkemEcdhe` held) once anything was generated. -/
theorem step_keys {gg : Nat} {st st' : Loop} {i : Nat} {s : SpecShare} (h : step gg st i s = some st')
    (hwf : st.keys.WF) (hpre : st.preferredSet = true → st.keys.ecdhe ≠ 0) :
    st'.keys.WF ∧ (∀ g ∈ st.keys.ecdheKeys, g ∈ st'.keys.ecdheKeys) ∧
    (generated s = true → s.group ∈ st'.keys.ecdheKeys ∧ (st'.keys.ecdhe ≠ 0 ∨ st'.keys.mlkemEcdhe = true)) ∧
    (st'.preferredSet = true → st'.keys.ecdhe ≠ 0) ∧
    (st.keys.ecdhe ≠ 0 ∨ st.keys.mlkemEcdhe = true → st'.keys.ecdhe ≠ 0 ∨ st'.keys.mlkemEcdhe = true) := by
  unfold step at h
  by_cases hgr : Grease.isGrease s.group = true
  · rw [if_pos hgr] at h
    injection h with h; subst h
    refine ⟨hwf, fun g hg => hg, ?_, hpre, fun h => h⟩
    intro hgen; simp [generated, hgr] at hgen
  · rw [if_neg hgr] at h
    by_cases hd : s.dataLen > 1
    · rw [if_pos hd] at h
      injection h with h; subst h
      refine ⟨hwf, fun g hg => hg, ?_, hpre, fun h => h⟩
      intro hgen
      simp only [generated, Bool.and_eq_true, decide_eq_true_eq] at hgen
      omega
    · rw [if_neg hd] at h
      by_cases hy : isHybrid s.group = true
      · rw [if_pos hy] at h
        injection h with h; subst h
        have hwf' : ({ st.keys with mlkem := true, mlkemEcdhe := true } : Keys).WF := hwf
        refine ⟨?_, ?_, ?_, ?_, ?_⟩
        · have := retain_wf _ s.group hwf'
          rw [hy] at this; exact this
        · intro g hg; exact retain_mono _ g s.group true hg
        · intro _
          refine ⟨retain_mem_self _ _ _, Or.inr ?_⟩
          show (Keys.retain _ s.group true).mlkemEcdhe = true
          rw [retain_mlkemEcdhe]
        · intro hp
          show (Keys.retain _ s.group true).ecdhe ≠ 0
          rw [retain_ecdhe]; exact hpre hp
        · intro _
          right
          show (Keys.retain _ s.group true).mlkemEcdhe = true
          rw [retain_mlkemEcdhe]
      · rw [if_neg hy] at h
        cases hsz : shareSize s.group with
        | none => rw [hsz] at h; cases h
        | some n =>
          rw [hsz] at h
          injection h with h; subst h
          have hy' : isHybrid s.group = false := by simpa using hy
          have hg0 : s.group ≠ 0 := by
            intro h0
            have h00 : shareSize 0 = none := by decide
            rw [h0, h00] at hsz; cases hsz
          have hwf' : ({ st.keys with ecdhe := if st.preferredSet then st.keys.ecdhe else s.group } : Keys).WF := hwf
          have hec : (Keys.retain { st.keys with ecdhe := if st.preferredSet then st.keys.ecdhe else s.group } s.group false).ecdhe
              = (if st.preferredSet then st.keys.ecdhe else s.group) := by
            rw [retain_ecdhe]
          have hne : (if st.preferredSet then st.keys.ecdhe else s.group) ≠ 0 := by
            by_cases hp : st.preferredSet = true
            · rw [if_pos hp]; exact hpre hp
            · rw [if_neg hp]; exact hg0
          refine ⟨?_, ?_, ?_, ?_, ?_⟩
          · have := retain_wf _ s.group hwf'
            rw [hy'] at this; exact this
          · intro g hg; exact retain_mono _ g s.group false hg
          · intro _
            refine ⟨retain_mem_self _ _ _, Or.inl ?_⟩
            show (Keys.retain _ s.group false).ecdhe ≠ 0
            rw [hec]; exact hne
          · intro _
            show (Keys.retain _ s.group false).ecdhe ≠ 0
            rw [hec]; exact hne
          · intro _
            left
            show (Keys.retain _ s.group false).ecdhe ≠ 0
            rw [hec]; exact hne

/-- the loop: every generated entry is retained by a well-formed, usable key set; earlier keys stay. -/
theorem loop_keys {gg : Nat} : ∀ (spec : List SpecShare) (st st' : Loop) (i : Nat),
    loop gg st i spec = some st' → st.keys.WF → (st.preferredSet = true → st.keys.ecdhe ≠ 0) →
    st'.keys.WF ∧ (∀ g ∈ st.keys.ecdheKeys, g ∈ st'.keys.ecdheKeys) ∧
    (∀ s ∈ spec, generated s = true → s.group ∈ st'.keys.ecdheKeys ∧ (st'.keys.ecdhe ≠ 0 ∨ st'.keys.mlkemEcdhe = true)) ∧
    (st.keys.ecdhe ≠ 0 ∨ st.keys.mlkemEcdhe = true → st'.keys.ecdhe ≠ 0 ∨ st'.keys.mlkemEcdhe = true)
  | [], st, st', _, h, hwf, _ => by
    simp only [loop] at h
    injection h with h; subst h
    exact ⟨hwf, fun g hg => hg, fun s hs _ => (nomatch hs), fun h => h⟩
  | s :: rest, st, st', i, h, hwf, hpre => by
    simp only [loop] at h
    cases hs : step gg st i s with
    | none => rw [hs] at h; cases h
    | some st1 =>
      rw [hs] at h
      simp only [Option.bind_some] at h
      obtain ⟨w1, m1, g1, p1, u1⟩ := step_keys hs hwf hpre
      obtain ⟨w2, m2, g2, u2⟩ := loop_keys rest st1 st' (i + 1) h w1 p1
      refine ⟨w2, fun g hg => m2 g (m1 g hg), ?_, fun h => u2 (u1 h)⟩
      intro x hx hgen
      simp only [List.mem_cons] at hx
      rcases hx with rfl | hx
      · obtain ⟨a, b⟩ := g1 hgen
        exact ⟨m2 _ a, u2 b⟩
      · exact g2 x hx hgen

/-- what one spec entry looks like on the wire. -/
def shareWire (gg : Nat) (s : SpecShare) : Option (Nat × Nat) :=
  if Grease.isGrease s.group then some (gg, s.dataLen)
  else if s.dataLen > 1 then some (s.group, s.dataLen)
  else (shareSize s.group).map fun n => (s.group, n)

theorem step_wire {gg : Nat} {st st' : Loop} {i : Nat} {s : SpecShare} (h : step gg st i s = some st') :
    ∃ w, shareWire gg s = some w ∧ st'.wire = st.wire ++ [w] := by
  unfold step at h
  unfold shareWire
  by_cases hgr : Grease.isGrease s.group = true
  · rw [if_pos hgr] at h ⊢
    injection h with h; subst h; exact ⟨_, rfl, rfl⟩
  · rw [if_neg hgr] at h ⊢
    by_cases hd : s.dataLen > 1
    · rw [if_pos hd] at h ⊢
      injection h with h; subst h; exact ⟨_, rfl, rfl⟩
    · rw [if_neg hd] at h ⊢
      by_cases hy : isHybrid s.group = true
      · rw [if_pos hy] at h
        injection h with h; subst h
        have : shareSize s.group = some (1184 + 32) := by
          unfold isHybrid at hy
          unfold shareSize
          simp only [Bool.or_eq_true, beq_iff_eq] at hy
          rcases hy with hy | hy <;> rw [hy] <;> decide
        rw [this]; exact ⟨_, rfl, rfl⟩
      · rw [if_neg hy] at h
        cases hsz : shareSize s.group with
        | none => rw [hsz] at h; cases h
        | some n =>
          rw [hsz] at h
          injection h with h; subst h; exact ⟨_, rfl, rfl⟩

theorem loop_wire {gg : Nat} : ∀ (spec : List SpecShare) (st st' : Loop) (i : Nat),
    loop gg st i spec = some st' → ∃ ws, spec.mapM (shareWire gg) = some ws ∧ st'.wire = st.wire ++ ws
  | [], st, st', _, h => by
    simp only [loop] at h
    injection h with h; subst h
    exact ⟨[], rfl, by simp⟩
  | s :: rest, st, st', i, h => by
    simp only [loop] at h
    cases hs : step gg st i s with
    | none => rw [hs] at h; cases h
    | some st1 =>
      rw [hs] at h
      simp only [Option.bind_some] at h
      obtain ⟨w, hw, e1⟩ := step_wire hs
      obtain ⟨ws, hws, e2⟩ := loop_wire rest st1 st' (i + 1) h
      refine ⟨w :: ws, ?_, ?_⟩
      · simp [List.mapM_cons, hw, hws]
      · rw [e2, e1]; simp

/-- a loop over entries none of which is generated leaves the key set alone. -/
theorem loop_no_gen {gg : Nat} : ∀ (spec : List SpecShare) (st st' : Loop) (i : Nat),
    loop gg st i spec = some st' → (∀ s ∈ spec, generated s = false) → st'.keys = st.keys ∧ st'.reads = st.reads
  | [], st, st', _, h, _ => by
    simp only [loop] at h
    injection h with h; subst h; exact ⟨rfl, rfl⟩
  | s :: rest, st, st', i, h, hng => by
    simp only [loop] at h
    cases hs : step gg st i s with
    | none => rw [hs] at h; cases h
    | some st1 =>
      rw [hs] at h
      simp only [Option.bind_some] at h
      have hs0 := hng s (List.mem_cons_self)
      have h1 : st1.keys = st.keys ∧ st1.reads = st.reads := by
        unfold step at hs
        by_cases hgr : Grease.isGrease s.group = true
        · rw [if_pos hgr] at hs; injection hs with hs; subst hs; exact ⟨rfl, rfl⟩
        · rw [if_neg hgr] at hs
          have hd : s.dataLen > 1 := by
            simp only [generated, Bool.and_eq_false_iff, Bool.not_eq_false', decide_eq_false_iff_not] at hs0
            rcases hs0 with h | h
            · exact absurd h hgr
            · omega
          rw [if_pos hd] at hs; injection hs with hs; subst hs; exact ⟨rfl, rfl⟩
      obtain ⟨k2, r2⟩ := loop_no_gen rest st1 st' (i + 1) h (fun x hx => hng x (List.mem_cons_of_mem _ hx))
      exact ⟨k2.trans h1.1, r2.trans h1.2⟩

/-- the bridge to the negotiation model: a retained group passes `keysRetained`. -/
theorem retains_ready {k : Keys} {g : Nat} (base : ClientCtx) (hwf : k.WF) (hg : g ∈ k.ecdheKeys) :
    keysRetained (k.toCtx base) g = true := by
  have hc : k.ecdheKeys.contains g = true := contains_nat.mpr hg
  unfold keysRetained ecdheKeyCurve mlkemKeyHeld keyCurve Keys.toCtx
  simp only [hc, if_true, Bool.and_eq_true, beq_self_eq_true, true_and]
  by_cases hy : isHybrid g = true
  · have := contains_nat.mpr (hwf g hg hy)
    simp only [hy, this, Bool.true_or, Bool.not_true, Bool.false_or]
  · have : isHybrid g = false := by simpa using hy
    simp only [this, Bool.not_false, Bool.true_or]

/-- ranges produced by `ranges` start at or after the given offset. -/
theorem ranges_ge : ∀ (rs : List (Material × Nat)) (off : Nat), ∀ x ∈ ranges off rs, off ≤ x.2.1
  | [], _, x, hx => by cases hx
  | (m, n) :: rest, off, x, hx => by
    simp only [ranges, List.mem_cons] at hx
    rcases hx with rfl | hx
    · exact Nat.le_refl _
    · exact Nat.le_trans (Nat.le_add_right off n) (ranges_ge rest (off + n) x hx)

/-- consecutive reads occupy pairwise disjoint, ordered ranges of the stream. -/
theorem ranges_disjoint : ∀ (rs : List (Material × Nat)) (off : Nat),
    (ranges off rs).Pairwise (fun a b => a.2.1 + a.2.2 ≤ b.2.1)
  | [], _ => List.Pairwise.nil
  | (m, n) :: rest, off => by
    simp only [ranges]
    exact List.Pairwise.cons (fun x hx => ranges_ge rest (off + n) x hx) (ranges_disjoint rest (off + n))

/-- `mapM` into `Option` relates the lists element by element. -/
theorem mapM_index {α β : Type} (f : α → Option β) : ∀ (xs : List α) (ys : List β),
    xs.mapM f = some ys → ys.length = xs.length ∧ ∀ k (h1 : k < xs.length) (h2 : k < ys.length), f xs[k] = some ys[k]
  | [], ys, h => by
    simp only [List.mapM_nil] at h
    cases h
    exact ⟨rfl, fun k h1 => absurd h1 (Nat.not_lt_zero k)⟩
  | x :: xs, ys, h => by
    rw [List.mapM_cons] at h
    cases hx : f x with
    | none => rw [hx] at h; cases h
    | some y =>
      rw [hx] at h
      cases hxs : xs.mapM f with
      | none => rw [hxs] at h; cases h
      | some ys' =>
        rw [hxs] at h
        cases h
        obtain ⟨hl, hk⟩ := mapM_index f xs ys' hxs
        refine ⟨by simp [hl], ?_⟩
        intro k h1 h2
        cases k with
        | zero => simpa using hx
        | succ k => simpa using hk k (by simpa using h1) (by simpa using h2)

/-- every generated share is longer than one byte. -/
theorem shareSize_gt_one {g n : Nat} (h : shareSize g = some n) : 1 < n := by
  unfold shareSize at h
  split at h
  · cases h; decide
  · split at h
    · cases h; decide
    · split at h
      · cases h; decide
      · split at h
        · cases h; decide
        · split at h
          · cases h; decide
          · cases h

/-- a marshalled entry is never one the loop would generate again (given the GREASE group is GREASE). -/
theorem shareWire_not_generated {gg : Nat} (hgg : Grease.isGrease gg = true) {s : SpecShare} {w : Nat × Nat}
    (h : shareWire gg s = some w) : generated { group := w.1, dataLen := w.2 } = false := by
  unfold shareWire at h
  unfold generated
  by_cases hgr : Grease.isGrease s.group = true
  · rw [if_pos hgr] at h; cases h; simp [hgg]
  · rw [if_neg hgr] at h
    by_cases hd : s.dataLen > 1
    · rw [if_pos hd] at h; cases h
      have : ¬ s.dataLen ≤ 1 := by omega
      simp [this]
    · rw [if_neg hd] at h
      cases hsz : shareSize s.group with
      | none => rw [hsz] at h; cases h
      | some n =>
        rw [hsz] at h; cases h
        have := shareSize_gt_one hsz
        have : ¬ n ≤ 1 := by omega
        simp [this]

/-- reads of the loop: what it appends are key reads of the shares at indices ≥ `i`, no material twice. -/
def keyMaterialFrom (i : Nat) (m : Material) : Prop := ∃ j, i ≤ j ∧ (m = .ecdhe j ∨ m = .mlkem j)

theorem step_reads {gg : Nat} {st st' : Loop} {i : Nat} {s : SpecShare} (h : step gg st i s = some st') :
    ∃ extra, st'.reads = st.reads ++ extra ∧ (extra.map (·.1)).Nodup ∧
      (∀ m ∈ extra, m.1 = .ecdhe i ∨ m.1 = .mlkem i) ∧
      (generated s = true → (.ecdhe i) ∈ extra.map (·.1) ∧ (isHybrid s.group = true → (.mlkem i) ∈ extra.map (·.1))) := by
  unfold step at h
  by_cases hgr : Grease.isGrease s.group = true
  · rw [if_pos hgr] at h; injection h with h; subst h
    exact ⟨[], (by simp), (by simp), (by intro m hm; cases hm), (by intro hg; simp [generated, hgr] at hg)⟩
  · rw [if_neg hgr] at h
    by_cases hd : s.dataLen > 1
    · rw [if_pos hd] at h; injection h with h; subst h
      refine ⟨[], (by simp), (by simp), (by intro m hm; cases hm), ?_⟩
      intro hg
      simp only [generated, Bool.and_eq_true, decide_eq_true_eq] at hg
      omega
    · rw [if_neg hd] at h
      by_cases hy : isHybrid s.group = true
      · rw [if_pos hy] at h; injection h with h; subst h
        refine ⟨[(.ecdhe i, 32), (.mlkem i, 64)], rfl, by simp, ?_, ?_⟩
        · intro m hm
          simp only [List.mem_cons, List.not_mem_nil, or_false] at hm
          rcases hm with rfl | rfl
          · exact Or.inl rfl
          · exact Or.inr rfl
        · intro _; simp
      · rw [if_neg hy] at h
        cases hsz : shareSize s.group with
        | none => rw [hsz] at h; cases h
        | some n =>
          rw [hsz] at h; injection h with h; subst h
          refine ⟨[(.ecdhe i, (keyReads s.group).headD 0)], rfl, by simp, ?_, ?_⟩
          · intro m hm
            simp only [List.mem_cons, List.not_mem_nil, or_false] at hm
            subst hm; exact Or.inl rfl
          · intro _
            refine ⟨by simp, ?_⟩
            intro hh; exact absurd hh hy

theorem loop_reads {gg : Nat} : ∀ (spec : List SpecShare) (st st' : Loop) (i : Nat),
    loop gg st i spec = some st' →
    ∃ extra, st'.reads = st.reads ++ extra ∧ (extra.map (·.1)).Nodup ∧ (∀ m ∈ extra, keyMaterialFrom i m.1) ∧
      (∀ k (hk : k < spec.length), generated spec[k] = true →
        (.ecdhe (i + k)) ∈ extra.map (·.1) ∧ (isHybrid spec[k].group = true → (.mlkem (i + k)) ∈ extra.map (·.1)))
  | [], st, st', _, h => by
    simp only [loop] at h
    injection h with h; subst h
    exact ⟨[], (by simp), (by simp), (by intro m hm; cases hm), (by intro k hk; cases hk)⟩
  | s :: rest, st, st', i, h => by
    simp only [loop] at h
    cases hs : step gg st i s with
    | none => rw [hs] at h; cases h
    | some st1 =>
      rw [hs] at h
      simp only [Option.bind_some] at h
      obtain ⟨e1, r1, n1, k1, g1⟩ := step_reads hs
      obtain ⟨e2, r2, n2, k2, g2⟩ := loop_reads rest st1 st' (i + 1) h
      refine ⟨e1 ++ e2, by rw [r2, r1, List.append_assoc], ?_, ?_, ?_⟩
      · rw [List.map_append, List.nodup_append]
        refine ⟨n1, n2, ?_⟩
        intro a ha b hb hab
        subst hab
        obtain ⟨m1, hm1, e⟩ := List.mem_map.mp ha
        obtain ⟨m2, hm2, e'⟩ := List.mem_map.mp hb
        obtain ⟨j, hj, hjm⟩ := k2 m2 hm2
        rw [e'] at hjm
        rw [← e] at hjm
        rcases k1 m1 hm1 with h1 | h1 <;> rcases hjm with h2 | h2 <;> rw [h1] at h2 <;> cases h2 <;> omega
      · intro m hm
        rw [List.mem_append] at hm
        rcases hm with hm | hm
        · rcases k1 m hm with h1 | h1
          · exact ⟨i, Nat.le_refl _, Or.inl h1⟩
          · exact ⟨i, Nat.le_refl _, Or.inr h1⟩
        · obtain ⟨j, hj, hjm⟩ := k2 m hm
          exact ⟨j, by omega, hjm⟩
      · intro k hk hgen
        cases k with
        | zero =>
          obtain ⟨a, b⟩ := g1 (by simpa using hgen)
          refine ⟨?_, ?_⟩
          · rw [List.map_append, List.mem_append]; exact Or.inl (by simpa using a)
          · intro hy
            rw [List.map_append, List.mem_append]; exact Or.inl (by simpa using b (by simpa using hy))
        | succ k =>
          have hk' : k < rest.length := by simpa using hk
          obtain ⟨a, b⟩ := g2 k hk' (by simpa using hgen)
          have e : i + (k + 1) = i + 1 + k := by omega
          refine ⟨?_, ?_⟩
          · rw [List.map_append, List.mem_append, e]; exact Or.inr a
          · intro hy
            rw [List.map_append, List.mem_append, e]; exact Or.inr (b (by simpa using hy))

/-- the reads before the loop: distinct pieces of material, none of them key material; session ids exactly
when the connection is not QUIC. -/
theorem preReads_facts (quic : Bool) :
    ((preReads quic).map (·.1)).Nodup ∧
    (∀ m ∈ preReads quic, ∀ i, m.1 ≠ .ecdhe i ∧ m.1 ≠ .mlkem i) ∧
    (Material.random, 32) ∈ preReads quic ∧ (Material.grease, 10) ∈ preReads quic ∧
    (quic = true → ∀ m ∈ preReads quic, m.1 ≠ .sessionId ∧ m.1 ≠ .sessionId0) ∧
    (quic = false → (Material.sessionId, 32) ∈ preReads quic) := by
  cases quic
  · refine ⟨(by decide), ?_, (by decide), (by decide), (by intro h; cases h), (by intro _; decide)⟩
    intro m hm i
    simp only [preReads, Bool.false_eq_true, if_false, List.cons_append, List.nil_append, List.mem_cons,
      List.not_mem_nil, or_false] at hm
    rcases hm with rfl | rfl | rfl | rfl <;> exact ⟨(by intro h; cases h), (by intro h; cases h)⟩
  · refine ⟨(by decide), ?_, (by decide), (by decide), ?_, (by intro h; cases h)⟩
    · intro m hm i
      simp only [preReads, if_true, List.cons_append, List.nil_append, List.append_nil, List.mem_cons,
        List.not_mem_nil, or_false] at hm
      rcases hm with rfl | rfl <;> exact ⟨(by intro h; cases h), (by intro h; cases h)⟩
    · intro _ m hm
      simp only [preReads, if_true, List.cons_append, List.nil_append, List.append_nil, List.mem_cons,
        List.not_mem_nil, or_false] at hm
      rcases hm with rfl | rfl <;> exact ⟨(by intro h; cases h), (by intro h; cases h)⟩

/-- `io.ReadFull` over a chunked reader returns the first `n` bytes of the concatenated stream and leaves the
rest of it, however the reader cut the stream into chunks. -/
theorem readFull_flatten : ∀ (cs : List Wire.Bytes) (n : Nat) (b : Wire.Bytes) (r : List Wire.Bytes),
    readFull cs n = some (b, r) → b = cs.flatten.take n ∧ r.flatten = cs.flatten.drop n
  | cs, 0, b, r, h => by
    have : readFull cs 0 = some ([], cs) := by cases cs <;> rfl
    rw [this] at h
    cases h
    simp
  | [], n + 1, b, r, h => by simp [readFull] at h
  | c :: cs, n + 1, b, r, h => by
    simp only [readFull] at h
    by_cases hc : c.length ≤ n + 1
    · rw [if_pos hc] at h
      cases hr : readFull cs (n + 1 - c.length) with
      | none => rw [hr] at h; cases h
      | some p =>
        obtain ⟨b', r'⟩ := p
        rw [hr] at h
        simp only [Option.map_some, Option.some.injEq, Prod.mk.injEq] at h
        obtain ⟨hb, hrr⟩ := h
        obtain ⟨ih1, ih2⟩ := readFull_flatten cs (n + 1 - c.length) b' r' hr
        subst hb hrr
        constructor
        · rw [List.flatten_cons, List.take_append, List.take_of_length_le hc, ih1]
        · rw [List.flatten_cons, List.drop_append, List.drop_of_length_le hc, ih2]; simp
    · rw [if_neg hc] at h
      simp only [Option.some.injEq, Prod.mk.injEq] at h
      obtain ⟨hb, hrr⟩ := h
      subst hb hrr
      have hlt : n + 1 ≤ c.length := by omega
      constructor
      · rw [List.flatten_cons, List.take_append_of_le_length hlt]
      · rw [List.flatten_cons, List.flatten_cons, List.drop_append_of_le_length hlt]

/-- all logical reads of an application are the consecutive slices of the concatenated stream. -/
theorem readAll_slices : ∀ (ns : List Nat) (cs : List Wire.Bytes) (bs : List Wire.Bytes),
    readAll cs ns = some bs → bs = slices cs.flatten ns
  | [], cs, bs, h => by
    simp only [readAll, Option.some.injEq] at h
    subst h; rfl
  | n :: ns, cs, bs, h => by
    simp only [readAll] at h
    cases hr : readFull cs n with
    | none => rw [hr] at h; cases h
    | some p =>
      obtain ⟨b, r⟩ := p
      rw [hr] at h
      simp only at h
      cases hrest : readAll r ns with
      | none => rw [hrest] at h; cases h
      | some bs' =>
        rw [hrest] at h
        simp only [Option.map_some, Option.some.injEq] at h
        subst h
        obtain ⟨h1, h2⟩ := readFull_flatten cs n b r hr
        have ih := readAll_slices ns r bs' hrest
        rw [h2] at ih
        simp only [slices]
        rw [h1, ih]

/-- slices of two streams agree when the streams agree on the slice's range. -/
theorem slice_congr (s1 s2 : Wire.Bytes) (off len : Nat)
    (h : ∀ i, off ≤ i → i < off + len → s1[i]? = s2[i]?) : slice s1 off len = slice s2 off len := by
  unfold slice
  apply List.ext_getElem?
  intro k
  simp only [List.getElem?_take, List.getElem?_drop]
  by_cases hk : k < len
  · simp only [hk, if_true]
    exact h (off + k) (by omega) (by omega)
  · simp [hk]

end KeyShare
