import UtlsVerif.Wire
/-!
# Keystream — the two AEAD nonce wrappers of cipher_suites.go and `UConn.GetOutKeystream`

* `prefixNonceAEAD` (TLS 1.2 AES-GCM): a 12-byte array `nonce`; bytes 0..3 are the fixed prefix,
  `Seal/Open(nonce8)` do `copy(f.nonce[4:], nonce8)` (the last 8 bytes are *scratch state* that every
  call overwrites) and use the whole array.
* `xorNonceAEAD` (TLS 1.3, and ChaCha20-Poly1305 in TLS 1.2): a 12-byte `nonceMask`; `Seal/Open`
  XOR the 8-byte argument into bytes 4..11, call the inner AEAD, and XOR it out again.

The inner AEAD is symbolic: a counter-mode keystream `ks key nonce len` and a tag function
(`Prim`); AES-GCM and ChaCha20-Poly1305 both have the form `aseal n ad p = (p ⊕ ks n) ++ tag`.
Their laws are explicit hypotheses (`Prim.Laws`).

`getOutKeystream` transcribes u_conn.go: `outCipher.Seal(nil, uconn.out.seq[:], zeros, nil)` when
`out.cipher` is a `cipher.AEAD`, otherwise an error. It does not call `incSeq`.
Core Lean only.
-/
namespace Keystream
open Wire

/-- `hc.seq[:]`: the 64-bit sequence number, big-endian (the counter is a `[8]byte`). -/
def seq8 (n : Nat) : Bytes :=
  [b (n / 72057594037927936), b (n / 281474976710656), b (n / 1099511627776), b (n / 4294967296),
   b (n / 16777216), b (n / 65536), b (n / 256), b n]

@[simp] theorem seq8_length (n : Nat) : (seq8 n).length = 8 := rfl

/-- bytewise XOR, truncated to the shorter argument (`XORKeyStream`, `subtle.XORBytes`). -/
def xorBytes : Bytes → Bytes → Bytes
  | a :: as, c :: cs => (a ^^^ c) :: xorBytes as cs
  | _, _ => []

/-- `for i, b := range n { mask[i] ^= b }` on a mask at least as long as `n`; a longer `n` would
index out of range in Go — the model stops at the end of the mask (all call sites pass 8 bytes
against the 8-byte tail of a 12-byte array). -/
def xorInto : Bytes → Bytes → Bytes
  | m :: ms, x :: xs => (m ^^^ x) :: xorInto ms xs
  | ms, [] => ms
  | [], _ :: _ => []

/-- `copy(dst, src)`: overwrite the first `min` bytes of `dst`. -/
def copyInto : Bytes → Bytes → Bytes
  | _ :: ds, x :: xs => x :: copyInto ds xs
  | ds, [] => ds
  | [], _ :: _ => []

inductive Wrapper where
  | pfx   -- prefixNonceAEAD
  | xor   -- xorNonceAEAD
  deriving DecidableEq, Repr

/-- the 12-byte nonce handed to the inner AEAD for wrapper state `fixed` and argument `n8`. -/
def nonceFor (w : Wrapper) (fixed n8 : Bytes) : Bytes :=
  match w with
  | .pfx => fixed.take 4 ++ copyInto (fixed.drop 4) n8
  | .xor => fixed.take 4 ++ xorInto (fixed.drop 4) n8

/-- the wrapper's array after one `Seal`/`Open`: the prefix wrapper keeps the copied bytes as
scratch, the XOR wrapper XORs the argument in and out again. -/
def stateAfter (w : Wrapper) (fixed n8 : Bytes) : Bytes :=
  match w with
  | .pfx => nonceFor .pfx fixed n8
  | .xor => fixed.take 4 ++ xorInto (xorInto (fixed.drop 4) n8) n8

/-- the symbolic inner AEAD. -/
structure Prim where
  /-- first `len` bytes of the keystream that encrypts the plaintext under (key, nonce) -/
  ks : Bytes → Bytes → Nat → Bytes
  /-- the 16-byte authenticator over (nonce, additional data, ciphertext) -/
  tag : Bytes → Bytes → Bytes → Bytes → Bytes

structure Prim.Laws (P : Prim) : Prop where
  ks_len : ∀ k n m, (P.ks k n m).length = m
  /-- the keystream is a stream: a shorter request is a prefix of a longer one -/
  ks_prefix : ∀ k n j m, j ≤ m → (P.ks k n m).take j = P.ks k n j
  tag_len : ∀ k n ad c, (P.tag k n ad c).length = 16

/-- inner `aead.Seal(nil, nonce, plaintext, ad)`. -/
def aseal (P : Prim) (k n ad p : Bytes) : Bytes :=
  let c := xorBytes p (P.ks k n p.length)
  c ++ P.tag k n ad c

/-- inner `aead.Open`. -/
def aopen (P : Prim) (k n ad c : Bytes) : Option Bytes :=
  if c.length < 16 then none
  else
    let body := c.take (c.length - 16)
    if P.tag k n ad body = c.drop (c.length - 16) then some (xorBytes body (P.ks k n body.length))
    else none

/-- what `GetOutKeystream` can see of `uconn.out`. -/
inductive OutCipher where
  | aead (w : Wrapper) (key fixed : Bytes)
  | other      -- nil, CBC or RC4: not a `cipher.AEAD`
  deriving DecidableEq, Repr

structure Out where
  cipher : OutCipher
  seq : Nat
  deriving DecidableEq, Repr

/-- `GetOutKeystream(length)`: result (or the error) and the state afterwards. -/
def getOutKeystream (P : Prim) (o : Out) (length : Nat) : Option Bytes × Out :=
  match o.cipher with
  | .aead w key fixed =>
    (some (aseal P key (nonceFor w fixed (seq8 o.seq)) [] (List.replicate length 0)),
     { o with cipher := .aead w key (stateAfter w fixed (seq8 o.seq)) })
  | .other => (none, o)

end Keystream
