import UtlsVerif.Wire
/-!
# Line — parsing helpers for the line protocol of the correspondence driver.
One case per line: `family k=v k=v ... => k=v ...`. Byte strings hex, lists comma-separated.
-/
namespace Line
open Wire

def hexVal (c : Char) : Option Nat :=
  if '0' ≤ c ∧ c ≤ '9' then some (c.toNat - '0'.toNat)
  else if 'a' ≤ c ∧ c ≤ 'f' then some (c.toNat - 'a'.toNat + 10)
  else if 'A' ≤ c ∧ c ≤ 'F' then some (c.toNat - 'A'.toNat + 10)
  else none

def unhexChars : List Char → Option Bytes
  | [] => some []
  | [_] => none
  | h :: l :: r => do
      let a ← hexVal h
      let c ← hexVal l
      let rest ← unhexChars r
      pure (UInt8.ofNat (a * 16 + c) :: rest)

/-- `-` denotes the empty byte string. -/
def unhex (s : String) : Option Bytes :=
  if s = "-" then some [] else unhexChars s.toList

def hexDigit (n : Nat) : Char :=
  if n < 10 then Char.ofNat ('0'.toNat + n) else Char.ofNat ('a'.toNat + n - 10)

def hex (bs : Bytes) : String :=
  if bs.isEmpty then "-" else
  String.ofList (bs.flatMap fun x => [hexDigit (x.toNat / 16), hexDigit (x.toNat % 16)])

abbrev KV := List (String × String)

def parseKV (toks : List String) : KV :=
  toks.filterMap fun t =>
    match t.splitOn "=" with
    | [k] => some (k, "")
    | k :: rest => some (k, "=".intercalate rest)
    | [] => none

def KV.get (kv : KV) (k : String) : Option String := (kv.find? (·.1 == k)).map (·.2)
def KV.getD (kv : KV) (k : String) (d : String) : String := (kv.get k).getD d
def KV.nat (kv : KV) (k : String) : Option Nat := (kv.get k).bind String.toNat?
def KV.bytes (kv : KV) (k : String) : Option Bytes := (kv.get k).bind unhex

/-- comma-separated list; `-` or empty denotes the empty list. -/
def listOf (s : String) : List String :=
  if s = "-" ∨ s = "" then [] else s.splitOn ","

def KV.nats (kv : KV) (k : String) : Option (List Nat) :=
  (kv.get k).bind fun s => (listOf s).mapM String.toNat?

def natsStr (xs : List Nat) : String :=
  if xs.isEmpty then "-" else ",".intercalate (xs.map toString)

structure Case where
  family : String
  input : KV
  output : KV
  deriving Repr

def words (s : String) : List String := (s.splitOn " ").filter (· ≠ "")

def parseCase (line : String) : Option Case :=
  match line.splitOn " => " with
  | [l, r] =>
    match words l with
    | fam :: ins => some { family := fam, input := parseKV ins, output := parseKV (words r) }
    | [] => none
  | [l] =>
    match words l with
    | fam :: ins => some { family := fam, input := parseKV ins, output := [] }
    | [] => none
  | _ => none

/-- Result of checking one case: `tag` classifies the case for the distribution counters. -/
inductive Verdict where
  | ok (tag : String)
  | diff (tag : String) (model : String)
  | propFail (tag : String) (clause : String)
  | bad (msg : String)

def Verdict.render : Verdict → String
  | .ok t => s!"ok {t}"
  | .diff t m => s!"DIFF {t} model: {m}"
  | .propFail t c => s!"PROPFAIL {t} clause: {c}"
  | .bad m => s!"BAD {m}"

end Line
