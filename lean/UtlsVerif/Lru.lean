/-!
# Lru — transcription of `lruSessionCache` (/repo/common.go) and the abstract bounded LRU map.

Keys are `Nat` (session keys are opaque strings; the harness numbers them), values `Nat`
(identity of the `*ClientSessionState`; `none` = Go `nil`). The container/list + map pair is
represented by one list, most-recently-used first; `Put`'s four branches are transcribed one by one.
-/
namespace Lru

abbrev Entries := List (Nat × Nat)   -- MRU first

def keys (es : Entries) : List Nat := es.map (·.1)
def find? (es : Entries) (k : Nat) : Option Nat := (es.find? (·.1 == k)).map (·.2)
def remove (es : Entries) (k : Nat) : Entries := es.filter (·.1 != k)

/-- `NewLRUClientSessionCache`: capacity < 1 means the default 64. -/
def newCap (capacity : Int) : Nat := if capacity < 1 then 64 else capacity.toNat

/-- `(*lruSessionCache).Put` (after the repair of D19: Put(absent,nil) is a no-op). -/
def cput (cap : Nat) (es : Entries) (k : Nat) (v : Option Nat) : Entries :=
  match find? es k, v with
  | some _, none    => remove es k                         -- hit, cs == nil: Remove + delete
  | some _, some x  => (k, x) :: remove es k               -- hit: update state, MoveToFront
  | none,   none    => es                                  -- absent + nil: nothing to remove
  | none,   some x  =>
      if es.length < cap then (k, x) :: es                 -- PushFront
      else (k, x) :: es.dropLast                           -- recycle Back(), MoveToFront

/-- `(*lruSessionCache).Get`. -/
def cget (es : Entries) (k : Nat) : Entries × Option Nat :=
  match find? es k with
  | some x => ((k, x) :: remove es k, some x)
  | none   => (es, none)

/-- **Specification**: a bounded LRU map. `put k none` deletes; `put k (some x)` makes `k` the most
recent and keeps the `cap` most recent; `get` of a present key makes it the most recent. -/
def aput (cap : Nat) (es : Entries) (k : Nat) (v : Option Nat) : Entries :=
  match v with
  | none   => remove es k
  | some x => ((k, x) :: remove es k).take cap

def aget (es : Entries) (k : Nat) : Entries × Option Nat :=
  match find? es k with
  | some x => ((k, x) :: remove es k, some x)
  | none   => (es, none)

inductive Op where
  | put (k : Nat) (v : Option Nat)
  | get (k : Nat)
  deriving DecidableEq, Repr

/-- observable result of an operation: `Put` returns nothing, `Get` returns `(value, ok)`. -/
abbrev Out := Option (Option Nat)   -- none = Put; some r = Get result

def cstep (cap : Nat) (es : Entries) : Op → Entries × Out
  | .put k v => (cput cap es k v, none)
  | .get k => let (es', r) := cget es k; (es', some r)

def astep (cap : Nat) (es : Entries) : Op → Entries × Out
  | .put k v => (aput cap es k v, none)
  | .get k => let (es', r) := aget es k; (es', some r)

def run (step : Entries → Op → Entries × Out) : Entries → List Op → Entries × List Out
  | es, [] => (es, [])
  | es, op :: ops =>
    let (es', o) := step es op
    let (es'', os) := run step es' ops
    (es'', o :: os)

def Inv (cap : Nat) (es : Entries) : Prop := es.length ≤ cap ∧ (keys es).Nodup

end Lru
