import UtlsVerif.NegotiateWire
import UtlsVerif.NegotiateComplete
import UtlsVerif.Report
/-!
# Neg2Wire — evaluation of one handshake case line of the neg2 engine (families `c10_hs`, `c11_hs`,
`c18_hs`): the C12 material (recorded ClientHello, server messages as sent, Config range, key set,
sessions, alerts) plus both `ConnectionState`s, the exporter probes and the exporter-policy facts.
Everything is parsed from the bytes here, independently of the harness. Core Lean only.
-/
namespace Neg2Wire
open Wire Negotiate NegotiateWire Line Report

/-- the extension list of a ClientHello handshake message. -/
def chExts (msg : Bytes) : Option (List (Nat × Bytes)) := do
  let body ← hsBody 1 msg
  let (_, r) ← readU16 body
  let (_, r) ← take? 32 r
  let (_, r) ← readVec8 r
  let (_, r) ← readVec16 r
  let (_, r) ← readVec8 r
  if r.isEmpty then pure [] else do
    let (eb, r') ← readVec16 r
    guard r'.isEmpty
    parseExtList eb.length eb

/-- server_name list entries `(type, vec16 name)*`: the first host_name (type 0). -/
def firstHostName : Nat → Bytes → Option (Option Bytes)
  | 0, bs => if bs.isEmpty then some none else none
  | fuel + 1, bs =>
    if bs.isEmpty then some none else do
      let (t, r) ← readU8 bs
      let (name, r) ← readVec16 r
      if t == 0 then pure (some name) else firstHostName fuel r

/-- the host name in the hello's server_name extension: `none` = malformed, `some none` = no extension. -/
def parseSNI (exts : List (Nat × Bytes)) : Option (Option Bytes) :=
  match findExt exts 0 with
  | none => some none
  | some b => do
    let (l, r) ← readVec16 b
    guard r.isEmpty
    firstHostName l.length l

/-- a reported ConnectionState: `vers,suite,curve,alpn,resumed,hrr,ech,sni`. -/
def parseConn (s : String) : Option Conn :=
  match s.splitOn "," with
  | [v, su, c, a, res, h, e, n] => do
    let v ← hex16? v
    let su ← hex16? su
    let c ← c.toNat?
    let a ← unhex a
    let n ← unhex n
    pure { version := v, suite := su, curve := c, alpn := a, didResume := res == "1", didHRR := h == "1",
           echAccepted := e == "1", serverName := n }
  | _ => none

def renderConn (c : Conn) : String :=
  let b := fun (x : Bool) => if x then "1" else "0"
  s!"{c.version},{c.suite},{c.curve},{hex c.alpn},{b c.didResume},{b c.didHRR},{b c.echAccepted},{hex c.serverName}"

/-- one exporter probe: label, context (`none` = nil), length. -/
structure Probe where
  label : Bytes
  context : Option Bytes
  length : Nat
  deriving Repr

def parseProbe (s : String) : Option Probe :=
  match s.splitOn ":" with
  | [l, c, n] => do
    let l ← unhex l
    let n ← n.toNat?
    let c ← (if c == "nil" then some none
             else if c.startsWith "z" then ((c.drop 1).toString.toNat?).map (fun k => some (List.replicate k 0))
             else (unhex c).map some)
    pure { label := l, context := c, length := n }
  | _ => none

/-- one exporter answer: `B<hex>` bytes, or `E<class>`. -/
inductive Answer where
  | bytes (b : Bytes)
  | refused (cls : String)
  deriving DecidableEq, Repr

def parseAnswer (s : String) : Option Answer :=
  if s.startsWith "B" then (unhex (s.drop 1).toString).map .bytes
  else if s.startsWith "E" then some (.refused (s.drop 1).toString)
  else none

def refusalClass : Refusal → String
  | .renegotiation => "reneg" | .noEMS => "noems" | .reservedLabel => "reserved" | .contextTooLong => "ctxlong"

/-- client / server answer through `ExportKeyingMaterial`, then through the raw exporter closure. -/
structure ProbeResult where
  probe : Probe
  cpub : Answer
  spub : Answer
  craw : Answer
  sraw : Answer
  deriving Repr

structure Eval where
  mode : String
  src : String
  offer : Offer
  exts : List (Nat × Bytes)        -- the hello's extensions as sent
  sniWire : Option Bytes           -- host name in the hello on the wire
  ctx : ClientCtx
  resp : Response
  hellos : List ServerHello
  model : Outcome
  compliant : Bool
  ready : Bool
  completed : Bool
  cstate : Option Conn
  sstate : Option Conn
  app : Bool
  cerr : String
  calert : String
  serr : String
  creneg : Nat                     -- Config.Renegotiation of the client connection (0 = never)
  cems : Bool
  sems : Bool
  probes : List ProbeResult
  input : KV

inductive Parsed where
  | eval (e : Eval)
  | skipped (why : String)
  | prepareError (msg : String)
  | refused (mode : String) (cerr serr : String) (completed : Bool)   -- the server sent no ServerHello at all
  | bad (msg : String)

def plusNats (s : String) : Option (List Nat) :=
  if s == "-" || s == "" then some [] else (s.splitOn "+").mapM String.toNat?

def parseCase (impl : Impl) (c : Case) : Parsed :=
  let mode := c.input.getD "mode" "?"
  match c.output.get "out" with
  | some "skip" => .skipped (c.output.getD "reason" "?")
  | some "prepare-error" => .prepareError (c.output.getD "msg" "?")
  | some o => .bad s!"harness outcome {o} {c.output.getD "msg" ""}"
  | none =>
  let cerr := c.output.getD "cerr" "?"
  let completed := cerr == "ok"
  if c.output.getD "sh" "-" == "-" then .refused mode cerr (c.output.getD "salert" "?") completed else
  let r : Option Eval := do
    let ch ← c.output.bytes "ch"
    let offer ← parseOffer ch
    let exts ← chExts ch
    let sniWire ← parseSNI exts
    let hellos ← (listOf (c.output.getD "sh" "-")).mapM fun s => (unhex s).bind parseServerHello
    let h1 ← hellos.head?
    let h2 := hellos[1]?
    guard (hellos.length ≤ 2)
    let (cfgMin, cfgMax, ech) ← (match listOf (c.output.getD "cfg" "") with
      | [a, b, e] => do
        let a ← hex16? a
        let b ← hex16? b
        pure (a, b, e == "1")
      | _ => none)
    let (ecdhe, hybrid) ← (match listOf (c.output.getD "keys" "") with
      | [a, b] => do
        let a ← a.toNat?
        pure (a, b == "1")
      | _ => none)
    let (mlkem, mlkemEcdhe, keyGroups, mlkemGroups) ← (match listOf (c.output.getD "kx" "") with
      | [a, b, g1, g2] => do
        let g1 ← plusNats g1
        let g2 ← plusNats g2
        pure (a == "1", b == "1", g1, g2)
      | _ => none)
    let pskSuite := hex16? (c.output.getD "psks" "-")
    let sess12 ← (match listOf (c.output.getD "sess12" "-") with
      | [] => some none
      | [v, s, e] => do
        let v ← hex16? v
        let s ← hex16? s
        pure (some ({ version := v, suite := s, ems := e == "1" } : Session12))
      | _ => none)
    let recv ← hex16? (c.output.getD "recv" "")
    let eeAlpn ← (match c.output.getD "ee" "-" with
      | "-" => some []
      | s => (unhex s).bind parseEEAlpn)
    let cert ← parseCert (c.output.getD "cert" "-")
    let skx ← c.output.nat "skx"
    let cstate ← (match c.output.getD "cstate" "-" with
      | "-" => some none
      | s => (parseConn s).map some)
    let sstate ← (match c.output.getD "sstate" "-" with
      | "-" => some none
      | s => (parseConn s).map some)
    let (creneg, cems, sems) ← (match listOf (c.output.getD "facts" "") with
      | [a, b, d] => do
        let a ← a.toNat?
        pure (a, b == "1", d == "1")
      | _ => none)
    let probeSpecs ← (match c.input.getD "ekm" "-" with
      | "-" => some []
      | s => (s.splitOn ";").mapM parseProbe)
    let probes ← (match c.output.getD "ekmr" "-" with
      | "-" => some []
      | s => do
        let rs ← (s.splitOn ";").mapM fun t =>
          match t.splitOn "|" with
          | [a, b, x, y] => do
            let a ← parseAnswer a
            let b ← parseAnswer b
            let x ← parseAnswer x
            let y ← parseAnswer y
            pure (a, b, x, y)
          | _ => none
        guard (rs.length == probeSpecs.length)
        pure ((probeSpecs.zip rs).map fun (p, (a, b, x, y)) => { probe := p, cpub := a, spub := b, craw := x, sraw := y }))
    let ctx : ClientCtx :=
      { cfgMin := cfgMin, cfgMax := cfgMax, ech := ech, quic := false, ecdheGroup := ecdhe, hybridKeys := hybrid,
        pskSuite := pskSuite, session12 := sess12, mlkem := mlkem, mlkemEcdhe := mlkemEcdhe,
        keyGroups := keyGroups, mlkemGroups := mlkemGroups }
    let resp : Response := { hello1 := h1, hello2 := h2, recVersion := recv, eeAlpn := eeAlpn, cert := cert,
                             skxCurve := skx, restOk := true }
    pure { mode := mode, src := c.input.getD "src" "parrot", offer := offer, exts := exts, sniWire := sniWire,
           ctx := ctx, resp := resp, hellos := hellos,
           model := clientStep impl offer ctx resp,
           compliant := compliantB impl offer ctx resp, ready := clientReady impl offer ctx resp,
           completed := completed, cstate := cstate, sstate := sstate, app := c.output.getD "app" "0" == "1",
           cerr := cerr, calert := c.output.getD "calert" "-", serr := c.output.getD "salert" "-",
           creneg := creneg, cems := cems, sems := sems, probes := probes, input := c.input }
  match r with
  | some e => .eval e
  | none => .bad "unparsable handshake case"

/-- the state `clientStep` predicts, in the shape of the C12 report. -/
def modelReport (e : Eval) : Option Negotiate.Report :=
  match e.model with
  | .accept st => some (report st)
  | .abort _ => none

def connReport (c : Conn) : Negotiate.Report :=
  { version := c.version, suite := c.suite, curve := c.curve, alpn := c.alpn, didResume := c.didResume, didHRR := c.didHRR }

/-- model vs implementation on accept/abort, the alert and the negotiated parameters the client reports. -/
def diff (e : Eval) : Option String :=
  match e.model with
  | .accept st =>
    if e.completed && e.app && e.cstate.map connReport == some (report st) then none
    else some s!"accept state={renderReport (report st)}"
  | .abort a =>
    if !e.completed && e.cstate.isNone && !e.app && alertMatches a e.calert e.serr then none
    else some s!"abort alert={a.code}/{a.name}"

/-- the server refused the offer itself (its own local error, the client only saw its alert or the
closed connection), as opposed to the client failing on its own. -/
def serverRefused (cerr serr : String) : Bool :=
  (cerr.startsWith "ralert:" || cerr == "eof") && (serr.startsWith "err:" || serr.startsWith "alert:")

end Neg2Wire
