import UtlsVerif.Wire
import UtlsVerif.Grease
/-!
# Negotiate — the client's acceptance logic for what the server selects

Transcription (code order, with the alert each failing check sends) of

* `(*UConn).clientHandshake` (/repo/u_handshake_client.go): `pickTLSVersion`, the
  "version was advertised" check, the downgrade-canary check, dispatch on the version;
* TLS 1.3 (/repo/handshake_client_tls13.go): `handshake` (key-share consistency),
  `checkServerHelloOrHRR`, `processHelloRetryRequest` (up to and including the uTLS section's PSK
  refusal), `processServerHello`, the key selection of `establishHandshakeKeys`
  (`ecdheKeyFor` / `mlkemKeyFor`: the private key generated for the share the server selected),
  the ALPN check of `readServerParameters`, `utlsReadServerCertificate`/`decompressCert`'s
  algorithm checks;
* TLS 1.0–1.2 (/repo/handshake_client.go, key_agreement.go): `pickCipherSuite`,
  `processServerHello` (compression, renegotiation info, ALPN, resumption checks), the
  ServerKeyExchange curve checks of `ecdheKeyAgreement.processServerKeyExchange`;
* the record layer's version check on the records that follow the ServerHello (/repo/conn.go);
* `(*UConn).SetTLSVers` (/repo/u_conn.go) and `Config.supportedVersions` (/repo/common.go).

`Offer` is what the ClientHello said **on the wire** (computed from the recorded bytes by
`NegotiateWire.parseOffer`); `ClientCtx` is the client-side state the checks consult besides the
hello; `Response` is what the server sent. Every check is a `Guard` — a boolean that must hold and
the alert sent when it does not — and `clientStep` aborts with the alert of the first failing guard
in code order. Cryptography, certificate verification and decompression are one input bit
(`Response.restOk`, `CertMsg.compressed … valid`).

The implementation tables (`Impl`: which suites / curves the library knows, the downgrade
sentinels, the HelloRetryRequest random) are parameters: theorems hold for every table, the driver
and the table theorems instantiate them with the regenerated `Gen.NegImpl`.
Core Lean only.
-/
namespace Negotiate
open Wire

def tls10 : Nat := 0x0301
def tls11 : Nat := 0x0302
def tls12 : Nat := 0x0303
def tls13 : Nat := 0x0304

def x25519 : Nat := 29
def x25519MLKEM768 : Nat := 4588
def x25519Kyber768Draft00 : Nat := 0x6399

/-- alerts the modelled checks send. `none` = the handshake fails with an error but no alert is
sent by the failing check; `unmodelled` = a failure of something outside the model. -/
inductive Alert where
  | protocolVersion | illegalParameter | handshakeFailure | unexpectedMessage
  | unsupportedExtension | noApplicationProtocol | badCertificate | missingExtension
  | decodeError | internalError | none | unmodelled
  deriving DecidableEq, Repr

/-- TLS alert description number. -/
def Alert.code : Alert → Nat
  | .protocolVersion => 70 | .illegalParameter => 47 | .handshakeFailure => 40
  | .unexpectedMessage => 10 | .unsupportedExtension => 110 | .noApplicationProtocol => 120
  | .badCertificate => 42 | .missingExtension => 109 | .decodeError => 50 | .internalError => 80
  | .none => 0 | .unmodelled => 0

/-- Go's `alertText`, blanks replaced by `_` (as the harness prints a remote alert). -/
def Alert.name : Alert → String
  | .protocolVersion => "protocol_version_not_supported" | .illegalParameter => "illegal_parameter"
  | .handshakeFailure => "handshake_failure" | .unexpectedMessage => "unexpected_message"
  | .unsupportedExtension => "unsupported_extension" | .noApplicationProtocol => "no_application_protocol"
  | .badCertificate => "bad_certificate" | .missingExtension => "missing_extension"
  | .decodeError => "error_decoding_message" | .internalError => "internal_error"
  | .none => "-" | .unmodelled => "?"

/-- code points the implementation knows (regenerated: `Gen.NegImpl`). -/
structure Impl where
  suites12 : List Nat    -- `mutualCipherSuite` finds a suite
  ecdhe12 : List Nat     -- … whose key agreement is ECDHE
  suites13 : List Nat    -- `mutualCipherSuiteTLS13` finds a suite
  curves : List Nat      -- `curveForCurveID`
  canary12 : List Nat    -- downgradeCanaryTLS12, byte values
  canary11 : List Nat
  hrrRandom : List Nat   -- helloRetryRequestRandom
  deriving Repr

/-- what the ClientHello offered on the wire. -/
structure Offer where
  legacyVersion : Nat
  sessionId : Bytes
  suites : List Nat
  compressions : List Nat
  hasVersions : Bool            -- supported_versions extension present
  versions : List Nat
  hasGroups : Bool              -- supported_groups extension present
  groups : List Nat
  shareGroups : List Nat        -- key_share entries, in order
  alpn : List Bytes             -- ALPN protocol names ([] when the extension is absent)
  pskCount : Nat                -- pre_shared_key identities
  hasCertComp : Bool            -- compress_certificate extension present
  certCompAlgs : List Nat
  deriving DecidableEq, Repr

/-- a TLS 1.0–1.2 session the client holds (for the session-id resumption checks). -/
structure Session12 where
  version : Nat
  suite : Nat
  ems : Bool
  deriving DecidableEq, Repr

/-- client-side state consulted by the checks besides the hello. -/
structure ClientCtx where
  cfgMin : Nat                  -- Config.MinVersion after SetTLSVers (0 = unset)
  cfgMax : Nat                  -- Config.MaxVersion
  ech : Bool := false           -- Config.EncryptedClientHelloConfigList ≠ nil
  golang : Bool := false        -- ClientHelloID = HelloGolang (hello built by crypto/tls)
  quic : Bool := false
  ecdheGroup : Nat              -- curve of the retained classical key-share private key (0 = none)
  hybridKeys : Bool             -- ML-KEM decapsulation key + its X25519 companion retained
  pskSuite : Option Nat := none -- cipher suite of the session behind the PSK identity
  session12 : Option Session12 := none
  -- per-share private keys (`KeySharePrivateKeys` after the D06 repair): `Mlkem` / `MlkemEcdhe` held,
  -- groups with an entry in `EcdheKeys` / `MlkemKeys`. Defaults describe a key set without maps.
  mlkem : Bool := hybridKeys
  mlkemEcdhe : Bool := hybridKeys
  keyGroups : List Nat := []
  mlkemGroups : List Nat := []
  deriving DecidableEq, Repr

/-- fields of a ServerHello / HelloRetryRequest as `serverHelloMsg.unmarshal` produces them. -/
structure ServerHello where
  legacyVersion : Nat
  random : Bytes
  sessionId : Bytes
  suite : Nat
  compression : Nat
  supportedVersion : Nat := 0   -- 0 = extension absent
  shareGroup : Nat := 0         -- key_share in ServerHello form: group …
  shareLen : Nat := 0           -- … and length of the key-exchange data
  selectedGroup : Nat := 0      -- key_share in HelloRetryRequest form
  hasCookie : Bool := false
  pskPresent : Bool := false
  pskIdx : Nat := 0
  alpn : Bytes := []            -- ALPN protocol in the ServerHello (TLS ≤ 1.2)
  ocsp : Bool := false
  ticket : Bool := false
  ems : Bool := false
  renegSupported : Bool := false
  renegData : Bytes := []
  scts : Bool := false
  echExt : Bool := false
  deriving DecidableEq, Repr

instance : Inhabited ServerHello := ⟨{ legacyVersion := 0, random := [], sessionId := [], suite := 0, compression := 0 }⟩

/-- the server's certificate message. -/
inductive CertMsg where
  | plain
  /-- CompressedCertificate with this algorithm; `valid` = the payload decompresses to a
  certificate message of the declared length. -/
  | compressed (alg : Nat) (valid : Bool)
  deriving DecidableEq, Repr

/-- everything the server sent that the modelled checks look at. -/
structure Response where
  hello1 : ServerHello                    -- first ServerHello or HelloRetryRequest
  hello2 : Option ServerHello := none     -- ServerHello after a HelloRetryRequest
  recVersion : Nat                        -- record-layer version of the records after the ServerHello
  eeAlpn : Bytes := []                    -- ALPN protocol in EncryptedExtensions
  cert : CertMsg := .plain
  skxCurve : Nat := 0                     -- named curve of the ServerKeyExchange, 0 = none sent
  restOk : Bool := true                   -- everything not modelled verifies
  deriving Repr

/-- the connection state a completed handshake leaves behind. -/
structure State where
  version : Nat
  suite : Nat
  group : Nat                 -- c.curveID (0: RSA key exchange or resumption)
  alpn : Bytes                -- c.clientProtocol
  compression : Nat
  sessionId : Bytes           -- session id of the (final) ServerHello
  usedPsk : Bool
  pskIdx : Nat
  certAlg : Option Nat        -- algorithm of an accepted CompressedCertificate
  didHRR : Bool
  hrrGroup : Nat              -- group the HelloRetryRequest selected (0 = none)
  resumed : Bool
  deriving DecidableEq, Repr

inductive Outcome where
  | accept (st : State)
  | abort (a : Alert)
  deriving DecidableEq, Repr

/-! ## guards -/

/-- a check: the condition that must hold, and the alert sent when it does not. -/
abbrev Guard := Bool × Alert

/-- alert of the first failing guard. -/
def firstFail : List Guard → Option Alert
  | [] => none
  | (ok, a) :: rest => if ok then firstFail rest else some a

theorem firstFail_none {gs : List Guard} : firstFail gs = none ↔ ∀ g ∈ gs, g.1 = true := by
  induction gs with
  | nil => simp [firstFail]
  | cons g gs ih =>
    obtain ⟨ok, a⟩ := g
    cases ok <;> simp [firstFail, ih]

theorem firstFail_append_none {xs ys : List Guard} :
    firstFail (xs ++ ys) = none ↔ firstFail xs = none ∧ firstFail ys = none := by
  simp only [firstFail_none, List.mem_append]
  constructor
  · intro h; exact ⟨fun g hg => h g (Or.inl hg), fun g hg => h g (Or.inr hg)⟩
  · rintro ⟨h1, h2⟩ g (hg | hg)
    · exact h1 g hg
    · exact h2 g hg

/-! ## versions -/

/-- `Config.supportedVersions(roleClient)`. -/
def cfgVersions (ctx : ClientCtx) : List Nat :=
  [tls13, tls12, tls11, tls10].filter fun v =>
    !(ctx.cfgMin == 0 && decide (v < tls12)) && !(ctx.ech && decide (v < tls13)) &&
    !(ctx.cfgMin != 0 && decide (v < ctx.cfgMin)) && !(ctx.cfgMax != 0 && decide (v > ctx.cfgMax))

/-- `Config.maxSupportedVersion(roleClient)` (0 when nothing is supported). -/
def cfgMaxVersion (ctx : ClientCtx) : Nat := (cfgVersions ctx).headD 0

/-- version the ServerHello selects (`pickTLSVersion`). -/
def peerVersion (sh : ServerHello) : Nat :=
  if sh.supportedVersion != 0 then sh.supportedVersion else sh.legacyVersion

/-- `versionWasAdvertised`: listed in supported_versions when the hello carries that extension,
otherwise not above legacy_version. -/
def advertised (o : Offer) (v : Nat) : Bool :=
  if o.hasVersions then o.versions.contains v else decide (v ≤ o.legacyVersion)

def bytesNat (bs : Bytes) : List Nat := bs.map (·.toNat)

def hasCanary12 (impl : Impl) (sh : ServerHello) : Bool := bytesNat (sh.random.drop 24) == impl.canary12
def hasCanary11 (impl : Impl) (sh : ServerHello) : Bool := bytesNat (sh.random.drop 24) == impl.canary11

/-- the downgrade-canary condition of `clientHandshake` (true = downgrade detected). -/
def downgradeDetected (impl : Impl) (ctx : ClientCtx) (sh : ServerHello) (vers : Nat) : Bool :=
  (cfgMaxVersion ctx == tls13 && decide (vers ≤ tls12) && (hasCanary12 impl sh || hasCanary11 impl sh)) ||
  (cfgMaxVersion ctx == tls12 && decide (vers ≤ tls11) && hasCanary11 impl sh)

def versionGuards (impl : Impl) (o : Offer) (ctx : ClientCtx) (sh : ServerHello) : List Guard :=
  [ ((cfgVersions ctx).contains (peerVersion sh), .protocolVersion),   -- pickTLSVersion
    (advertised o (peerVersion sh), .protocolVersion),                 -- versionWasAdvertised
    (!downgradeDetected impl ctx sh (peerVersion sh), .illegalParameter) ]

/-! ## TLS 1.3 -/

def isHRR (impl : Impl) (sh : ServerHello) : Bool := bytesNat sh.random == impl.hrrRandom

/-- `checkALPN`: `true` = acceptable. -/
def checkALPN (offered : List Bytes) (sel : Bytes) (quic : Bool) : Bool :=
  if sel.isEmpty then !(quic && !offered.isEmpty) else offered.contains sel

/-- `checkServerHelloOrHRR`; `prev` = suite fixed by an earlier HelloRetryRequest. -/
def checkSHGuards (impl : Impl) (o : Offer) (sh : ServerHello) (prev : Option Nat) : List Guard :=
  [ (sh.supportedVersion != 0, .missingExtension),
    (sh.supportedVersion == tls13, .illegalParameter),
    (sh.legacyVersion == tls12, .illegalParameter),
    (!(sh.ocsp || sh.ticket || sh.ems || sh.renegSupported || !sh.renegData.isEmpty || !sh.alpn.isEmpty || sh.scts),
      .unsupportedExtension),
    (sh.sessionId == o.sessionId, .illegalParameter),
    (sh.compression == 0, .illegalParameter),
    (match prev with | some p => sh.suite == p | none => true, .illegalParameter),
    (o.suites.contains sh.suite && impl.suites13.contains sh.suite, .illegalParameter) ]

/-- group the HelloRetryRequest makes the client generate a new share for (0 = none). -/
def hrrGroup (impl : Impl) (r : Response) : Nat :=
  if isHRR impl r.hello1 then r.hello1.selectedGroup else 0

/-- the ServerHello that is finally processed. -/
def finalHello (impl : Impl) (r : Response) : ServerHello :=
  if isHRR impl r.hello1 then r.hello2.getD default else r.hello1

/-- `hs.hello.keyShares` groups when the final ServerHello is processed. -/
def sharesAfter (impl : Impl) (o : Offer) (r : Response) : List Nat :=
  if hrrGroup impl r != 0 then [hrrGroup impl r] else o.shareGroups

def isHybrid (g : Nat) : Bool := g == x25519MLKEM768 || g == x25519Kyber768Draft00

/-- `keySharePrivateKeys.ecdheKeyFor`: curve of the ECDH private key used for the share of group `g`
(0 = no key): the key recorded for `g` (X25519 for a hybrid group), else the hybrid share's own
X25519 key, else the single classical key. -/
def ecdheKeyCurve (ctx : ClientCtx) (g : Nat) : Nat :=
  if ctx.keyGroups.contains g then (if isHybrid g then x25519 else g)
  else if isHybrid g && ctx.mlkemEcdhe then x25519
  else ctx.ecdheGroup

/-- `keySharePrivateKeys.mlkemKeyFor`: an ML-KEM decapsulation key is held for the share of group `g`. -/
def mlkemKeyHeld (ctx : ClientCtx) (g : Nat) : Bool := ctx.mlkemGroups.contains g || ctx.mlkem

/-- curve of the key `establishHandshakeKeys` runs ECDH with for the final ServerHello's group: after a
HelloRetryRequest selecting a group the key set is the fresh `{curveID, ecdhe}` pair. -/
def ecdheAfter (impl : Impl) (ctx : ClientCtx) (r : Response) (g : Nat) : Nat :=
  if hrrGroup impl r != 0 then hrrGroup impl r else ecdheKeyCurve ctx g

def hybridAfter (impl : Impl) (ctx : ClientCtx) (r : Response) (g : Nat) : Bool :=
  if hrrGroup impl r != 0 then false else mlkemKeyHeld ctx g

/-- `processHelloRetryRequest` for `hs.serverHello = r.hello1`. -/
def hrrGuards (impl : Impl) (o : Offer) (ctx : ClientCtx) (r : Response) : List Guard :=
  let h := r.hello1
  let g := h.selectedGroup
  [ (ctx.ech || !h.echExt, .unsupportedExtension),
    (g != 0 || h.hasCookie, .illegalParameter),                  -- "unnecessary HelloRetryRequest"
    (h.shareGroup == 0, .decodeError),
    (g == 0 || o.groups.contains g, .illegalParameter),          -- group we advertised …
    (g == 0 || !o.shareGroups.contains g, .illegalParameter),    -- … but sent no share for
    (g == 0 || impl.curves.contains g, .internalError),
    (o.pskCount == 0 || ctx.golang, .none),                      -- uTLS section: PSK + HRR unsupported
    (r.recVersion == tls12, .protocolVersion),                   -- record carrying the next ServerHello
    (r.hello2.isSome, .none) ] ++
  checkSHGuards impl o (r.hello2.getD default) (some h.suite)

/-- hash of a TLS 1.3 suite: TLS_AES_256_GCM_SHA384 uses SHA-384, the others SHA-256. -/
def suiteHash13 (s : Nat) : Nat := if s == 0x1302 then 384 else 256

/-- public-key length of a classical group. -/
def shareSizeOk (curve len : Nat) : Bool :=
  (curve == 29 && len == 32) || (curve == 23 && len == 65) || (curve == 24 && len == 97) || (curve == 25 && len == 133)

/-- `processServerHello` + the key selection of `establishHandshakeKeys` for the final hello. -/
def sh13Guards (impl : Impl) (o : Offer) (ctx : ClientCtx) (r : Response) : List Guard :=
  let sh := finalHello impl r
  let psk := sh.pskPresent
  let ecdheLen := if isHybrid sh.shareGroup then 32 else sh.shareLen
  [ (!isHRR impl sh, .unexpectedMessage),
    (!sh.hasCookie, .unsupportedExtension),
    (sh.selectedGroup == 0, .decodeError),
    (sh.shareGroup != 0, .illegalParameter),
    ((sharesAfter impl o r).contains sh.shareGroup, .illegalParameter),   -- a group we sent a share for
    (!psk || decide (sh.pskIdx < o.pskCount), .illegalParameter),
    (!psk || (o.pskCount == 1 && ctx.pskSuite.isSome), .internalError),
    (!psk || (match ctx.pskSuite with | some s => impl.suites13.contains s | none => false), .internalError),
    (!psk || (match ctx.pskSuite with | some s => suiteHash13 s == suiteHash13 sh.suite | none => false), .illegalParameter),
    (!isHybrid sh.shareGroup || sh.shareLen == 1088 + 32, .illegalParameter),
    (ecdheAfter impl ctx r sh.shareGroup != 0, .internalError),           -- ecdheKeyFor: a key for the selected group
    (shareSizeOk (ecdheAfter impl ctx r sh.shareGroup) ecdheLen, .illegalParameter),    -- ECDH with that key
    (!isHybrid sh.shareGroup || hybridAfter impl ctx r sh.shareGroup, .internalError) ]

/-- `utlsReadServerCertificate` / `decompressCert`: algorithm checks. -/
def certGuards (o : Offer) (c : CertMsg) : List Guard :=
  match c with
  | .plain => []
  | .compressed alg valid =>
    [ (o.hasCertComp && !o.certCompAlgs.isEmpty, .unexpectedMessage),
      (o.certCompAlgs.contains alg, .badCertificate),                  -- "unadvertised algorithm"
      (alg == 1 || alg == 2 || alg == 3, .badCertificate),             -- "unsupported algorithm"
      (valid, .badCertificate) ]

def guards13 (impl : Impl) (o : Offer) (ctx : ClientCtx) (r : Response) : List Guard :=
  -- consistency check of `handshake`: applies to a plain ServerHello only (a hello without usable key
  -- share gets its key in `processHelloRetryRequest`)
  [ (isHRR impl r.hello1 || ((ctx.ecdheGroup != 0 || ctx.mlkemEcdhe) && !o.shareGroups.isEmpty), .internalError) ] ++
  checkSHGuards impl o r.hello1 none ++
  (if isHRR impl r.hello1 then hrrGuards impl o ctx r else []) ++
  sh13Guards impl o ctx r ++
  [ (r.recVersion == tls12, .protocolVersion),                          -- record carrying EncryptedExtensions
    (checkALPN o.alpn r.eeAlpn ctx.quic, .noApplicationProtocol) ] ++
  (if (finalHello impl r).pskPresent then [] else certGuards o r.cert) ++
  [ (r.restOk, .unmodelled) ]

def state13 (impl : Impl) (r : Response) : State :=
  let sh := finalHello impl r
  { version := tls13, suite := sh.suite, group := sh.shareGroup, alpn := r.eeAlpn,
    compression := sh.compression, sessionId := sh.sessionId,
    usedPsk := sh.pskPresent, pskIdx := sh.pskIdx,
    certAlg := if sh.pskPresent then none else (match r.cert with | .compressed a _ => some a | .plain => none),
    didHRR := isHRR impl r.hello1, hrrGroup := hrrGroup impl r, resumed := sh.pskPresent }

/-! ## TLS 1.0 – 1.2 -/

/-- `serverResumedSession`. -/
def resumed12 (o : Offer) (ctx : ClientCtx) (sh : ServerHello) : Bool :=
  ctx.session12.isSome && !o.sessionId.isEmpty && sh.sessionId == o.sessionId

def guards12 (impl : Impl) (o : Offer) (ctx : ClientCtx) (r : Response) (vers : Nat) : List Guard :=
  let sh := r.hello1
  [ (o.suites.contains sh.suite && impl.suites12.contains sh.suite, .handshakeFailure),   -- pickCipherSuite
    (sh.compression == 0, .unexpectedMessage),
    (!(sh.renegSupported && !sh.renegData.isEmpty), .handshakeFailure),
    (checkALPN o.alpn sh.alpn false, .unsupportedExtension) ] ++
  (if resumed12 o ctx sh then
    match ctx.session12 with
    | some s => [ (s.version == vers, .handshakeFailure), (s.suite == sh.suite, .handshakeFailure),
                  (s.ems == sh.ems, .handshakeFailure), (r.recVersion == vers, .protocolVersion) ]
    | none => []
   else
    [ (r.recVersion == vers, .protocolVersion),                       -- record carrying the Certificate
      -- processServerKeyExchange (ECDHE) / "unexpected ServerKeyExchange" (RSA)
      (r.skxCurve == 0 || impl.ecdhe12.contains sh.suite, .illegalParameter),
      (r.skxCurve == 0 || impl.curves.contains r.skxCurve, .illegalParameter),
      (r.skxCurve == 0 || o.groups.isEmpty || o.groups.contains r.skxCurve, .illegalParameter),
      -- generateClientKeyExchange: "missing ServerKeyExchange message"
      (r.skxCurve != 0 || !impl.ecdhe12.contains sh.suite, .internalError) ]) ++
  [ (r.restOk, .unmodelled) ]

def state12 (o : Offer) (ctx : ClientCtx) (r : Response) (vers : Nat) : State :=
  let sh := r.hello1
  { version := vers, suite := sh.suite, group := if resumed12 o ctx sh then 0 else r.skxCurve, alpn := sh.alpn,
    compression := sh.compression, sessionId := sh.sessionId, usedPsk := false, pskIdx := 0,
    certAlg := none, didHRR := false, hrrGroup := 0, resumed := resumed12 o ctx sh }

/-! ## the client step -/

def guards (impl : Impl) (o : Offer) (ctx : ClientCtx) (r : Response) : List Guard :=
  versionGuards impl o ctx r.hello1 ++
  (if peerVersion r.hello1 == tls13 then guards13 impl o ctx r
   else guards12 impl o ctx r (peerVersion r.hello1))

def finalState (impl : Impl) (o : Offer) (ctx : ClientCtx) (r : Response) : State :=
  if peerVersion r.hello1 == tls13 then state13 impl r else state12 o ctx r (peerVersion r.hello1)

/-- the client's verdict on a server response: accept with the resulting state, or abort with the
alert of the first failing check in code order. -/
def clientStep (impl : Impl) (o : Offer) (ctx : ClientCtx) (r : Response) : Outcome :=
  match firstFail (guards impl o ctx r) with
  | some a => .abort a
  | none => .accept (finalState impl o ctx r)

theorem clientStep_accept {impl : Impl} {o : Offer} {ctx : ClientCtx} {r : Response} {st : State}
    (h : clientStep impl o ctx r = .accept st) :
    firstFail (guards impl o ctx r) = none ∧ st = finalState impl o ctx r := by
  unfold clientStep at h
  split at h
  · cases h
  · rename_i hn; injection h with h; exact ⟨hn, h.symm⟩

/-- what the client reports in `ConnectionState` (+ the unexported curve / HRR fields). -/
structure Report where
  version : Nat
  suite : Nat
  curve : Nat
  alpn : Bytes
  didResume : Bool
  didHRR : Bool
  deriving DecidableEq, Repr

def report (st : State) : Report :=
  { version := st.version, suite := st.suite, curve := st.group, alpn := st.alpn,
    didResume := st.resumed, didHRR := st.didHRR }

/-! ## SetTLSVers -/

inductive SetVersErr where
  | invalidVersions | multipleExts | badMin | badMax
  deriving DecidableEq, Repr

/-- `findVersionsInSupportedVersionsExtensions`: (min, max) over the non-GREASE entries. -/
def findVersions (vs : List Nat) : Nat × Nat :=
  vs.foldl (fun (acc : Nat × Nat) v =>
    if Grease.isGrease v then acc else
      (if acc.1 > v || acc.1 == 0 then v else acc.1, if acc.2 < v || acc.2 == 0 then v else acc.2)) (0, 0)

/-- the loop over `specExtensions` when min = max = 0: every SupportedVersionsExtension overwrites
(min, max) and is counted; an extension without a usable version is an immediate error. -/
def scanExts : List (List Nat) → Nat × Nat → Nat → Except SetVersErr (Nat × Nat × Nat)
  | [], mm, n => .ok (mm.1, mm.2, n)
  | e :: rest, _, n =>
    let mm := findVersions e
    if mm.1 == 0 && mm.2 == 0 then .error .invalidVersions else scanExts rest mm (n + 1)

/-- first half of `SetTLSVers`: explicit values win; else the spec's SupportedVersionsExtension; else 1.0–1.2. -/
def chooseVers (mn mx : Nat) (exts : List (List Nat)) : Except SetVersErr (Nat × Nat) :=
  if mn == 0 && mx == 0 then
    match scanExts exts (mn, mx) 0 with
    | .error e => .error e
    | .ok (a, c, n) =>
      if n == 0 then .ok (tls10, tls12)
      else if n == 1 then .ok (a, c)
      else .error .multipleExts
  else .ok (mn, mx)

/-- second half: both bounds must be TLS 1.0 … 1.3. -/
def validateVers (mn mx : Nat) : Except SetVersErr (Nat × Nat) :=
  if mn < tls10 || mn > tls13 then .error .badMin
  else if mx < tls10 || mx > tls13 then .error .badMax
  else .ok (mn, mx)

theorem validateVers_ok {mn mx a b : Nat} (h : validateVers mn mx = .ok (a, b)) :
    a = mn ∧ b = mx ∧ tls10 ≤ a ∧ a ≤ tls13 ∧ tls10 ≤ b ∧ b ≤ tls13 := by
  unfold validateVers at h
  split at h
  · cases h
  · split at h
    · cases h
    · rename_i h1 h2
      injection h with h
      injection h with ha hb
      subst ha; subst hb
      simp only [Bool.or_eq_true, decide_eq_true_eq, not_or, Nat.not_lt] at h1 h2
      exact ⟨rfl, rfl, h1.1, h1.2, h2.1, h2.2⟩

/-- `SetTLSVers(min, max, specExtensions)`: the (min, max) it settles on. `exts` = the `Versions`
of the spec's SupportedVersionsExtensions, in order. -/
def setTLSVers (mn mx : Nat) (exts : List (List Nat)) : Except SetVersErr (Nat × Nat) :=
  match chooseVers mn mx exts with
  | .error e => .error e
  | .ok p => validateVers p.1 p.2

/-- `makeSupportedVersions(min, max)` in uint16 arithmetic: length and entries. -/
def makeSupportedVersionsLen (mn mx : Nat) : Nat := (mx + 65536 - mn + 1) % 65536
def makeSupportedVersionsAt (mx i : Nat) : Nat := (mx + 65536 - i % 65536) % 65536

/-- the client context SetTLSVers leaves (Config untouched when an ECH config list is set). -/
def ctxOfVers (mn mx : Nat) (ech : Bool) (base : ClientCtx) : ClientCtx :=
  if ech then { base with ech := true } else { base with cfgMin := mn, cfgMax := mx, ech := false }

end Negotiate
