import UtlsVerif.Negotiate
/-!
# NegotiateComplete — what a *compliant* server response is, and when the client is ready for it

Decidable predicates over the `Negotiate` model, used by the completeness theorems (`Props/C10.lean`)
as hypotheses and by the drivers (`Drv/C10.lean`, `Drv/C11.lean`, `Drv/C18.lean`) as the monitor's
precondition "the server's choice was offered, implemented and well-formed".

* `compliantB` speaks about the server only: every selected parameter (version, cipher suite, group,
  ALPN protocol, PSK, certificate compression) is one the ClientHello offered **on the wire** and that
  uTLS implements at the negotiated version, and the messages are well-formed (RFC 8446 / 5246 shape:
  echoed session id, null compression, no TLS ≤ 1.2 extensions in a 1.3 ServerHello, a server share of
  the size its group requires, ServerKeyExchange exactly for ECDHE suites, no downgrade sentinel …).
  It does not mention the client's internal state except the three things the *offer* consists of
  besides the hello bytes: whether ECH was offered, whether the connection is QUIC, and the session
  behind an offered PSK / ticket.
* `clientReady` is the client-side part: the Config accepts the version (SetTLSVers range), the
  private key of the selected share is held (`keysRetained`, discharged by `KeyShare.retained_all` for
  every generated share), and — the open finding D11 — no HelloRetryRequest while a PSK is offered.
Core Lean only.
-/
namespace Negotiate
open Wire

def realVersion (v : Nat) : Bool := v == tls10 || v == tls11 || v == tls12 || v == tls13

/-- curve of the ECDH key that answers a share of group `g` (the X25519 part for a hybrid group). -/
def keyCurve (g : Nat) : Nat := if isHybrid g then x25519 else g

/-- the private key(s) behind the key share of group `g` are held: the ECDH key `ecdheKeyFor g`
returns is on the right curve and, for a hybrid group, an ML-KEM key is held. -/
def keysRetained (ctx : ClientCtx) (g : Nat) : Bool :=
  ecdheKeyCurve ctx g == keyCurve g && (!isHybrid g || mlkemKeyHeld ctx g)

/-- a well-formed TLS 1.3 ServerHello / HelloRetryRequest selecting offered, implemented values. -/
def shOk13 (impl : Impl) (o : Offer) (sh : ServerHello) : Bool :=
  sh.supportedVersion == tls13 && sh.legacyVersion == tls12 &&
  !(sh.ocsp || sh.ticket || sh.ems || sh.renegSupported || !sh.renegData.isEmpty || !sh.alpn.isEmpty || sh.scts) &&
  sh.sessionId == o.sessionId && sh.compression == 0 &&
  o.suites.contains sh.suite && impl.suites13.contains sh.suite

/-- a compliant HelloRetryRequest: it changes something, carries no server share, and selects a group the
hello listed without sending a share for it and whose key share uTLS can generate in a retry (the
classical curves: a hybrid group selected by HelloRetryRequest is the open finding `hrr-hybrid`). -/
def hrrOk (impl : Impl) (o : Offer) (ech : Bool) (h : ServerHello) : Bool :=
  (ech || !h.echExt) && (h.selectedGroup != 0 || h.hasCookie) && h.shareGroup == 0 &&
  (h.selectedGroup == 0 ||
    (o.groups.contains h.selectedGroup && !o.shareGroups.contains h.selectedGroup &&
     impl.curves.contains h.selectedGroup && !isHybrid h.selectedGroup))

/-- the server share has the size its group requires (classical: the public key; hybrid: ML-KEM
ciphertext + X25519 public key). -/
def serverShareOk (g len : Nat) : Bool :=
  if isHybrid g then len == 1088 + 32 else shareSizeOk g len

/-- a compliant PSK selection: the only identity offered, backed by a session whose suite uTLS knows and
whose hash is the negotiated suite's. -/
def pskOk (impl : Impl) (o : Offer) (pskSuite : Option Nat) (sh : ServerHello) : Bool :=
  !sh.pskPresent ||
  (decide (sh.pskIdx < o.pskCount) && o.pskCount == 1 &&
   (match pskSuite with
    | some s => impl.suites13.contains s && suiteHash13 s == suiteHash13 sh.suite
    | none => false))

/-- the final ServerHello: not a second retry, a share for a group the (possibly retried) hello sent one for. -/
def finalOk13 (impl : Impl) (o : Offer) (pskSuite : Option Nat) (shares : List Nat) (sh : ServerHello) : Bool :=
  !isHRR impl sh && !sh.hasCookie && sh.selectedGroup == 0 && sh.shareGroup != 0 &&
  shares.contains sh.shareGroup && serverShareOk sh.shareGroup sh.shareLen && pskOk impl o pskSuite sh

/-- a plain certificate, or one compressed with an advertised algorithm uTLS implements, decompressing
to the declared length. -/
def certOk (o : Offer) (c : CertMsg) : Bool :=
  match c with
  | .plain => true
  | .compressed alg valid =>
    o.hasCertComp && o.certCompAlgs.contains alg && (alg == 1 || alg == 2 || alg == 3) && valid

def compliant13 (impl : Impl) (o : Offer) (ech quic : Bool) (pskSuite : Option Nat) (r : Response) : Bool :=
  shOk13 impl o r.hello1 &&
  (!isHRR impl r.hello1 ||
    (hrrOk impl o ech r.hello1 && r.hello2.isSome && shOk13 impl o (r.hello2.getD default) &&
     (r.hello2.getD default).suite == r.hello1.suite)) &&
  finalOk13 impl o pskSuite (sharesAfter impl o r) (finalHello impl r) &&
  r.recVersion == tls12 && checkALPN o.alpn r.eeAlpn quic &&
  ((finalHello impl r).pskPresent || certOk o r.cert)

/-- the key-exchange part of a TLS 1.0–1.2 full handshake: a ServerKeyExchange exactly for ECDHE suites,
on an implemented curve the hello listed (any implemented curve when it sent no supported_groups). -/
def kex12Ok (impl : Impl) (o : Offer) (r : Response) : Bool :=
  if impl.ecdhe12.contains r.hello1.suite then
    r.skxCurve != 0 && impl.curves.contains r.skxCurve && (o.groups.isEmpty || o.groups.contains r.skxCurve)
  else r.skxCurve == 0

def compliant12 (impl : Impl) (o : Offer) (ctx : ClientCtx) (r : Response) (vers : Nat) : Bool :=
  let sh := r.hello1
  o.suites.contains sh.suite && impl.suites12.contains sh.suite && sh.compression == 0 &&
  !(sh.renegSupported && !sh.renegData.isEmpty) && checkALPN o.alpn sh.alpn false &&
  r.recVersion == vers &&
  (if resumed12 o ctx sh then
    (match ctx.session12 with
     | some s => s.version == vers && s.suite == sh.suite && s.ems == sh.ems
     | none => false)
   else kex12Ok impl o r)

/-- the hello advertised a real version above `v`. -/
def higherAdvertised (o : Offer) (v : Nat) : Bool :=
  [tls13, tls12, tls11].any fun w => decide (v < w) && advertised o w

/-- the ServerHello random ends in a downgrade sentinel (meaningful below TLS 1.3 only). -/
def sentinel (impl : Impl) (sh : ServerHello) : Bool :=
  decide (peerVersion sh ≤ tls12) && (hasCanary12 impl sh || hasCanary11 impl sh)

/-- **compliant response**: version offered and real; no downgrade — a server that signals (sentinel) that
it supports more than it negotiated has not passed over a higher version the hello advertised; everything
not modelled (signatures, certificate chain, Finished, record protection) verifies, and the
version-specific part. `ctx` is consulted only for what the client *offered* besides the hello bytes
(`ech`, `quic`, `pskSuite`, `session12`). -/
def compliantB (impl : Impl) (o : Offer) (ctx : ClientCtx) (r : Response) : Bool :=
  let v := peerVersion r.hello1
  realVersion v && advertised o v &&
  !(sentinel impl r.hello1 && higherAdvertised o v) &&
  r.restOk &&
  (if v == tls13 then compliant13 impl o ctx.ech ctx.quic ctx.pskSuite r else compliant12 impl o ctx r v)

/-- the client is ready for the response: its Config accepts the version and the hello advertises the
Config's highest version (`SetTLSVers` derives the range from the spec); at TLS 1.3 a plain ServerHello
finds a key set, the key of the finally selected share is held unless a HelloRetryRequest replaced
the key set, and (open finding D11: uTLS cannot re-process a PSK) a HelloRetryRequest meets no offered PSK. -/
def clientReady (impl : Impl) (o : Offer) (ctx : ClientCtx) (r : Response) : Bool :=
  (cfgVersions ctx).contains (peerVersion r.hello1) && advertised o (cfgMaxVersion ctx) &&
  (peerVersion r.hello1 != tls13 ||
    ((isHRR impl r.hello1 || ctx.ecdheGroup != 0 || ctx.mlkemEcdhe) &&
     (hrrGroup impl r != 0 || keysRetained ctx (finalHello impl r).shareGroup) &&
     (!isHRR impl r.hello1 || o.pskCount == 0 || ctx.golang)))

end Negotiate
