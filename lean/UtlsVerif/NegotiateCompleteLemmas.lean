import UtlsVerif.NegotiateComplete
import UtlsVerif.NegotiateLemmas
/-!
# NegotiateCompleteLemmas — each block of `clientStep`'s guards passes on a compliant response

Helper lemmas for `Props/C10.lean` (completeness) and `Props/C11.lean`: the converse direction of
`NegotiateLemmas` — from `compliantB` / `clientReady` to "no guard of this block fails".
-/
namespace Negotiate
open Wire

theorem firstFail_all {gs : List Guard} (h : ∀ g ∈ gs, g.1 = true) : firstFail gs = none :=
  firstFail_none.mpr h

/-- `checkServerHelloOrHRR` passes on a well-formed hello whose suite agrees with an earlier retry. -/
theorem checkSH_pass {impl : Impl} {o : Offer} {sh : ServerHello} {prev : Option Nat}
    (h : shOk13 impl o sh = true) (hp : ∀ p, prev = some p → sh.suite = p) :
    firstFail (checkSHGuards impl o sh prev) = none := by
  simp only [shOk13, Bool.and_eq_true] at h
  obtain ⟨⟨⟨⟨⟨⟨h1, h2⟩, h3⟩, h4⟩, h5⟩, h6⟩, h7⟩ := h
  have hsv : (sh.supportedVersion != 0) = true := by
    have : sh.supportedVersion = tls13 := by simpa using h1
    rw [this]; decide
  have hprev : ((checkSHGuards impl o sh prev).getD 6 (true, .none)).1 = true := by
    cases prev with
    | none => rfl
    | some p => simpa [checkSHGuards] using hp p rfl
  apply firstFail_all
  intro g hg
  simp only [checkSHGuards, List.mem_cons, List.not_mem_nil, or_false] at hg
  rcases hg with rfl | rfl | rfl | rfl | rfl | rfl | rfl | rfl
  · exact hsv
  · exact h1
  · exact h2
  · exact h3
  · exact h4
  · exact h5
  · simpa [checkSHGuards] using hprev
  · simp only [Bool.and_eq_true]; exact ⟨h6, h7⟩

/-- the certificate-message guards pass on a compliant certificate message. -/
theorem cert_pass {o : Offer} {c : CertMsg} (h : certOk o c = true) : firstFail (certGuards o c) = none := by
  cases c with
  | plain => rfl
  | compressed alg valid =>
    simp only [certOk, Bool.and_eq_true] at h
    obtain ⟨⟨⟨h1, h2⟩, h3⟩, h4⟩ := h
    have hne : (!o.certCompAlgs.isEmpty) = true := by
      have : alg ∈ o.certCompAlgs := contains_nat.mp h2
      cases hl : o.certCompAlgs with
      | nil => rw [hl] at this; cases this
      | cons _ _ => rfl
    apply firstFail_all
    intro g hg
    simp only [certGuards, List.mem_cons, List.not_mem_nil, or_false] at hg
    rcases hg with rfl | rfl | rfl | rfl
    · simp only [Bool.and_eq_true]; exact ⟨h1, hne⟩
    · exact h2
    · exact h3
    · exact h4

/-- no downgrade is detected when the hello advertises the Config's highest version and the server did
not pass over an advertised higher version while signalling that it supports more. -/
theorem no_downgrade {impl : Impl} {o : Offer} {ctx : ClientCtx} {sh : ServerHello}
    (hmax : advertised o (cfgMaxVersion ctx) = true)
    (hc : (sentinel impl sh && higherAdvertised o (peerVersion sh)) = false) :
    downgradeDetected impl ctx sh (peerVersion sh) = false := by
  cases hd : downgradeDetected impl ctx sh (peerVersion sh) with
  | false => rfl
  | true =>
    exfalso
    unfold downgradeDetected at hd
    simp only [Bool.or_eq_true, Bool.and_eq_true, beq_iff_eq, decide_eq_true_eq] at hd
    have contra : sentinel impl sh = true → higherAdvertised o (peerVersion sh) = true → False := by
      intro h1 h2; rw [h1, h2] at hc; cases hc
    rcases hd with ⟨⟨hm, hle⟩, hcan⟩ | ⟨⟨hm, hle⟩, hcan⟩
    · apply contra
      · simp only [sentinel, Bool.and_eq_true, decide_eq_true_eq, Bool.or_eq_true]; exact ⟨hle, hcan⟩
      · rw [hm] at hmax
        simp only [higherAdvertised, List.any_cons, List.any_nil, Bool.or_eq_true, Bool.and_eq_true, decide_eq_true_eq]
        exact Or.inl ⟨Nat.lt_of_le_of_lt hle (by decide), hmax⟩
    · apply contra
      · simp only [sentinel, Bool.and_eq_true, decide_eq_true_eq, Bool.or_eq_true]
        exact ⟨Nat.le_trans hle (by decide), Or.inr hcan⟩
      · rw [hm] at hmax
        simp only [higherAdvertised, List.any_cons, List.any_nil, Bool.or_eq_true, Bool.and_eq_true, decide_eq_true_eq]
        exact Or.inr (Or.inl ⟨Nat.lt_of_le_of_lt hle (by decide), hmax⟩)

/-- the version guards pass when the version is advertised, accepted by the Config and no downgrade is detected. -/
theorem version_pass {impl : Impl} {o : Offer} {ctx : ClientCtx} {sh : ServerHello}
    (hcfg : (cfgVersions ctx).contains (peerVersion sh) = true)
    (hadv : advertised o (peerVersion sh) = true)
    (hd : downgradeDetected impl ctx sh (peerVersion sh) = false) :
    firstFail (versionGuards impl o ctx sh) = none := by
  apply firstFail_all
  intro g hg
  simp only [versionGuards, List.mem_cons, List.not_mem_nil, or_false] at hg
  rcases hg with rfl | rfl | rfl
  · exact hcfg
  · exact hadv
  · simp [hd]

theorem sh13_hybrid_len {g len : Nat} (h : serverShareOk g len = true) :
    (!isHybrid g || len == 1088 + 32) = true := by
  unfold serverShareOk at h
  by_cases hy : isHybrid g = true
  · rw [if_pos hy] at h; simp [h]
  · have : isHybrid g = false := by simpa using hy
    simp [this]

theorem keyCurve_ne_zero {g : Nat} (h : (g != 0) = true) : keyCurve g ≠ 0 := by
  unfold keyCurve
  by_cases hy : isHybrid g = true
  · rw [if_pos hy]; decide
  · rw [if_neg hy]; simpa using h

theorem sh13_key_present {k g : Nat} (hk : k = keyCurve g) (hg : (g != 0) = true) : (k != 0) = true := by
  have := keyCurve_ne_zero hg
  rw [← hk] at this
  simpa using this

theorem sh13_size {k g len : Nat} (hk : k = keyCurve g) (h : serverShareOk g len = true) :
    shareSizeOk k (if isHybrid g then 32 else len) = true := by
  subst hk
  unfold serverShareOk at h
  unfold keyCurve
  by_cases hy : isHybrid g = true
  · rw [if_pos hy, if_pos hy]; decide
  · rw [if_neg hy, if_neg hy]; rw [if_neg hy] at h; exact h

theorem sh13_mlkem {g : Nat} {b : Bool} (h : isHybrid g = true → b = true) : (!isHybrid g || b) = true := by
  by_cases hy : isHybrid g = true
  · simp [h hy]
  · have : isHybrid g = false := by simpa using hy
    simp [this]

/-- `processHelloRetryRequest` passes on a compliant retry request followed by a well-formed second hello. -/
theorem hrr_pass {impl : Impl} {o : Offer} {ctx : ClientCtx} {r : Response}
    (hh : hrrOk impl o ctx.ech r.hello1 = true) (h2 : r.hello2.isSome = true)
    (hs2 : shOk13 impl o (r.hello2.getD default) = true)
    (hsuite : ((r.hello2.getD default).suite == r.hello1.suite) = true)
    (hpsk : (o.pskCount == 0 || ctx.golang) = true) (hrec : (r.recVersion == tls12) = true) :
    firstFail (hrrGuards impl o ctx r) = none := by
  simp only [hrrOk, Bool.and_eq_true] at hh
  obtain ⟨⟨⟨he, hc⟩, hsg⟩, hg⟩ := hh
  unfold hrrGuards
  rw [firstFail_append_none]
  refine ⟨?_, checkSH_pass hs2 (fun p hp => by injection hp with hp; subst hp; simpa using hsuite)⟩
  apply firstFail_all
  intro g hgm
  simp only [List.mem_cons, List.not_mem_nil, or_false] at hgm
  by_cases hz : (r.hello1.selectedGroup == 0) = true
  · rcases hgm with rfl | rfl | rfl | rfl | rfl | rfl | rfl | rfl | rfl
    · exact he
    · exact hc
    · exact hsg
    · simp [hz]
    · simp [hz]
    · simp [hz]
    · exact hpsk
    · exact hrec
    · exact h2
  · have hz' : (r.hello1.selectedGroup == 0) = false := by simpa using hz
    rw [hz', Bool.false_or] at hg
    simp only [Bool.and_eq_true] at hg
    obtain ⟨⟨⟨g1, g2⟩, g3⟩, _⟩ := hg
    rcases hgm with rfl | rfl | rfl | rfl | rfl | rfl | rfl | rfl | rfl
    · exact he
    · exact hc
    · exact hsg
    · simp only [g1, Bool.or_true]
    · simp only [g2, Bool.or_true]
    · simp only [g3, Bool.or_true]
    · exact hpsk
    · exact hrec
    · exact h2

/-- `processServerHello` and the key selection of `establishHandshakeKeys` pass on a compliant final hello
whose share's private key is held (or was just generated for a HelloRetryRequest). -/
theorem sh13_pass {impl : Impl} {o : Offer} {ctx : ClientCtx} {r : Response}
    (hf : finalOk13 impl o ctx.pskSuite (sharesAfter impl o r) (finalHello impl r) = true)
    (hk : (hrrGroup impl r != 0 || keysRetained ctx (finalHello impl r).shareGroup) = true)
    (hcl : hrrGroup impl r ≠ 0 → isHybrid (hrrGroup impl r) = false) :
    firstFail (sh13Guards impl o ctx r) = none := by
  simp only [finalOk13, Bool.and_eq_true] at hf
  obtain ⟨⟨⟨⟨⟨⟨f1, f2⟩, f3⟩, f4⟩, f5⟩, f6⟩, f7⟩ := hf
  -- the key facts: ECDH key on the right curve, ML-KEM key for a hybrid group
  have hkey : ecdheAfter impl ctx r (finalHello impl r).shareGroup = keyCurve (finalHello impl r).shareGroup ∧
      (isHybrid (finalHello impl r).shareGroup = true → hybridAfter impl ctx r (finalHello impl r).shareGroup = true) := by
    by_cases hg : (hrrGroup impl r != 0) = true
    · have hne : hrrGroup impl r ≠ 0 := by simpa using hg
      have hcls := hcl hne
      have hin : (finalHello impl r).shareGroup = hrrGroup impl r := by
        have := f5
        unfold sharesAfter at this
        rw [if_pos hg] at this
        simpa using this
      unfold ecdheAfter hybridAfter keyCurve
      rw [if_pos hg, if_pos hg, hin, hcls]
      exact ⟨by simp, by intro h; cases h⟩
    · have hg' : (hrrGroup impl r != 0) = false := by simpa using hg
      rw [hg', Bool.false_or] at hk
      simp only [keysRetained, Bool.and_eq_true] at hk
      unfold ecdheAfter hybridAfter
      rw [if_neg hg, if_neg hg]
      refine ⟨by simpa using hk.1, ?_⟩
      intro hy
      simpa [hy] using hk.2
  have hpsk := f7
  unfold pskOk at hpsk
  apply firstFail_all
  intro g hgm
  simp only [sh13Guards, List.mem_cons, List.not_mem_nil, or_false] at hgm
  by_cases hp : (finalHello impl r).pskPresent = true
  · rw [hp] at hpsk
    simp only [Bool.not_true, Bool.false_or, Bool.and_eq_true] at hpsk
    obtain ⟨⟨p1, p2⟩, p3⟩ := hpsk
    cases hps : ctx.pskSuite with
    | none => rw [hps] at p3; cases p3
    | some s =>
      rw [hps] at p3
      simp only [Bool.and_eq_true] at p3
      rcases hgm with rfl | rfl | rfl | rfl | rfl | rfl | rfl | rfl | rfl | rfl | rfl | rfl | rfl
      · exact f1
      · exact f2
      · exact f3
      · exact f4
      · exact f5
      · simp [hp, p1]
      · simp [hp, p2, hps]
      · simp only [hp, hps, p3.1, Bool.not_true, Bool.false_or]
      · simp only [hp, hps, p3.2, Bool.not_true, Bool.false_or]
      · exact sh13_hybrid_len f6
      · exact sh13_key_present hkey.1 f4
      · exact sh13_size hkey.1 f6
      · exact sh13_mlkem hkey.2
  · have hp' : (finalHello impl r).pskPresent = false := by simpa using hp
    rcases hgm with rfl | rfl | rfl | rfl | rfl | rfl | rfl | rfl | rfl | rfl | rfl | rfl | rfl
    · exact f1
    · exact f2
    · exact f3
    · exact f4
    · exact f5
    · simp [hp']
    · simp [hp']
    · simp [hp']
    · simp [hp']
    · exact sh13_hybrid_len f6
    · exact sh13_key_present hkey.1 f4
    · exact sh13_size hkey.1 f6
    · exact sh13_mlkem hkey.2

/-- the TLS 1.0–1.2 guards pass on a compliant response. -/
theorem guards12_pass {impl : Impl} {o : Offer} {ctx : ClientCtx} {r : Response} {vers : Nat}
    (h : compliant12 impl o ctx r vers = true) (hrest : r.restOk = true) :
    firstFail (guards12 impl o ctx r vers) = none := by
  simp only [compliant12, Bool.and_eq_true] at h
  obtain ⟨⟨⟨⟨⟨⟨h1, h2⟩, h3⟩, h4⟩, h5⟩, h6⟩, h7⟩ := h
  unfold guards12
  simp only [firstFail_append_none]
  refine ⟨⟨?_, ?_⟩, ?_⟩
  · apply firstFail_all
    intro g hg
    simp only [List.mem_cons, List.not_mem_nil, or_false] at hg
    rcases hg with rfl | rfl | rfl | rfl
    · simp only [Bool.and_eq_true]; exact ⟨h1, h2⟩
    · exact h3
    · exact h4
    · exact h5
  · by_cases hr : resumed12 o ctx r.hello1 = true
    · rw [if_pos hr] at h7 ⊢
      cases hs : ctx.session12 with
      | none => rfl
      | some s =>
        rw [hs] at h7
        simp only [Bool.and_eq_true] at h7
        apply firstFail_all
        intro g hg
        simp only [List.mem_cons, List.not_mem_nil, or_false] at hg
        rcases hg with rfl | rfl | rfl | rfl
        · exact h7.1.1
        · exact h7.1.2
        · exact h7.2
        · exact h6
    · rw [if_neg hr] at h7 ⊢
      unfold kex12Ok at h7
      apply firstFail_all
      intro g hg
      simp only [List.mem_cons, List.not_mem_nil, or_false] at hg
      by_cases he : impl.ecdhe12.contains r.hello1.suite = true
      · rw [if_pos he] at h7
        simp only [Bool.and_eq_true] at h7
        obtain ⟨⟨k1, k2⟩, k3⟩ := h7
        have k1' : (r.skxCurve == 0) = false := by simpa using k1
        rcases hg with rfl | rfl | rfl | rfl | rfl
        · exact h6
        · simp only [he, Bool.or_true]
        · simp only [k2, Bool.or_true]
        · simp only [k1', Bool.false_or]; exact k3
        · simp only [k1, Bool.true_or]
      · rw [if_neg he] at h7
        have he' : impl.ecdhe12.contains r.hello1.suite = false := by simpa using he
        rcases hg with rfl | rfl | rfl | rfl | rfl
        · exact h6
        · simp only [h7, Bool.true_or]
        · simp only [h7, Bool.true_or]
        · simp only [h7, Bool.true_or]
        · simp only [he', Bool.not_false, Bool.or_true]
  · apply firstFail_all
    intro g hg
    simp only [List.mem_cons, List.not_mem_nil, or_false] at hg
    subst hg
    exact hrest

/-- the TLS 1.3 guards pass on a compliant response when the client is ready for it. -/
theorem guards13_pass {impl : Impl} {o : Offer} {ctx : ClientCtx} {r : Response}
    (h : compliant13 impl o ctx.ech ctx.quic ctx.pskSuite r = true) (hrest : r.restOk = true)
    (hkeys : (isHRR impl r.hello1 || ctx.ecdheGroup != 0 || ctx.mlkemEcdhe) = true)
    (hk : (hrrGroup impl r != 0 || keysRetained ctx (finalHello impl r).shareGroup) = true)
    (hpsk : (!isHRR impl r.hello1 || o.pskCount == 0 || ctx.golang) = true) :
    firstFail (guards13 impl o ctx r) = none := by
  simp only [compliant13, Bool.and_eq_true] at h
  obtain ⟨⟨⟨⟨⟨c1, c2⟩, c3⟩, c4⟩, c5⟩, c6⟩ := h
  -- the parts of a compliant retry
  have hretry : isHRR impl r.hello1 = true →
      hrrOk impl o ctx.ech r.hello1 = true ∧ r.hello2.isSome = true ∧
      shOk13 impl o (r.hello2.getD default) = true ∧ ((r.hello2.getD default).suite == r.hello1.suite) = true := by
    intro hH
    rw [hH] at c2
    simp only [Bool.not_true, Bool.false_or, Bool.and_eq_true] at c2
    exact ⟨c2.1.1.1, c2.1.1.2, c2.1.2, c2.2⟩
  -- a retry-selected group is classical
  have hcl : hrrGroup impl r ≠ 0 → isHybrid (hrrGroup impl r) = false := by
    intro hne
    unfold hrrGroup at hne ⊢
    by_cases hH : isHRR impl r.hello1 = true
    · rw [if_pos hH] at hne ⊢
      have hh := (hretry hH).1
      simp only [hrrOk, Bool.and_eq_true] at hh
      have hz : (r.hello1.selectedGroup == 0) = false := by simpa using hne
      have h4 := hh.2
      rw [hz, Bool.false_or] at h4
      simp only [Bool.and_eq_true] at h4
      simpa using h4.2
    · rw [if_neg hH] at hne; exact absurd rfl hne
  unfold guards13
  simp only [firstFail_append_none]
  refine ⟨⟨⟨⟨⟨⟨?_, checkSH_pass c1 (fun p hp => by cases hp)⟩, ?_⟩, sh13_pass c3 hk hcl⟩, ?_⟩, ?_⟩, ?_⟩
  · -- consistency check
    apply firstFail_all
    intro g hg
    simp only [List.mem_cons, List.not_mem_nil, or_false] at hg
    subst hg
    by_cases hH : isHRR impl r.hello1 = true
    · simp only [hH, Bool.true_or]
    · have hH' : isHRR impl r.hello1 = false := by simpa using hH
      rw [hH', Bool.false_or] at hkeys ⊢
      -- the hello sent at least one share: the final hello's group is among them
      have hne : (!o.shareGroups.isEmpty) = true := by
        simp only [finalOk13, Bool.and_eq_true] at c3
        have hc := c3.1.1.2
        have hg0 : hrrGroup impl r = 0 := by unfold hrrGroup; rw [if_neg hH]
        unfold sharesAfter at hc
        rw [hg0] at hc
        have hm : (finalHello impl r).shareGroup ∈ o.shareGroups := contains_nat.mp (by simpa using hc)
        cases hl : o.shareGroups with
        | nil => rw [hl] at hm; cases hm
        | cons _ _ => rfl
      simp only [Bool.and_eq_true]
      exact ⟨hkeys, hne⟩
  · by_cases hH : isHRR impl r.hello1 = true
    · rw [if_pos hH]
      rw [hH] at hpsk
      simp only [Bool.not_true, Bool.false_or] at hpsk
      obtain ⟨r1, r2, r3, r4⟩ := hretry hH
      exact hrr_pass r1 r2 r3 r4 hpsk c4
    · rw [if_neg hH]; rfl
  · apply firstFail_all
    intro g hg
    simp only [List.mem_cons, List.not_mem_nil, or_false] at hg
    rcases hg with rfl | rfl
    · exact c4
    · exact c5
  · by_cases hp : (finalHello impl r).pskPresent = true
    · rw [if_pos hp]; rfl
    · rw [if_neg hp]
      have hp' : (finalHello impl r).pskPresent = false := by simpa using hp
      rw [hp', Bool.false_or] at c6
      exact cert_pass c6
  · apply firstFail_all
    intro g hg
    simp only [List.mem_cons, List.not_mem_nil, or_false] at hg
    subst hg
    exact hrest

end Negotiate
