import UtlsVerif.Negotiate
/-!
# NegotiateLemmas — what passing each block of guards establishes

Helper lemmas for `Props/C12.lean` and `Props/C13.lean`: each says "if no guard of this block
fails, then these facts hold", by unfolding the block into the conjunction of its conditions.
-/
namespace Negotiate
open Wire

theorem contains_nat {l : List Nat} {a : Nat} : l.contains a = true ↔ a ∈ l := List.contains_iff_mem

theorem contains_bytes {l : List Bytes} {a : Bytes} : l.contains a = true ↔ a ∈ l := List.contains_iff_mem

/-- passing `checkServerHelloOrHRR`. -/
theorem checkSH_facts {impl : Impl} {o : Offer} {sh : ServerHello} {prev : Option Nat}
    (h : firstFail (checkSHGuards impl o sh prev) = none) :
    sh.supportedVersion = tls13 ∧ sh.legacyVersion = tls12 ∧ sh.sessionId = o.sessionId ∧
    sh.compression = 0 ∧ sh.suite ∈ o.suites ∧ sh.suite ∈ impl.suites13 ∧ sh.alpn = [] ∧
    (∀ p, prev = some p → sh.suite = p) := by
  rw [firstFail_none] at h
  simp only [checkSHGuards, List.mem_cons, List.not_mem_nil, or_false, forall_eq_or_imp, forall_eq] at h
  obtain ⟨_, h2, h3, h4, h5, h6, h7, h8⟩ := h
  simp only [Bool.and_eq_true, contains_nat] at h8
  simp only [Bool.not_eq_true', Bool.or_eq_false_iff, Bool.not_eq_false'] at h4
  refine ⟨by simpa using h2, by simpa using h3, by simpa using h5, by simpa using h6, h8.1, h8.2, ?_, ?_⟩
  · simpa using h4.1.2
  · intro p hp; subst hp; simpa using h7

/-- passing `checkALPN`: nothing selected, or something the hello offered. -/
theorem checkALPN_facts {offered : List Bytes} {sel : Bytes} {quic : Bool}
    (h : checkALPN offered sel quic = true) : sel = [] ∨ sel ∈ offered := by
  unfold checkALPN at h
  by_cases he : sel.isEmpty = true
  · left; simpa using he
  · right; rw [if_neg he] at h; exact contains_bytes.mp h

/-- passing the certificate-message guards: an accepted compressed certificate uses an advertised algorithm. -/
theorem cert_facts {o : Offer} {c : CertMsg} (h : firstFail (certGuards o c) = none) :
    ∀ a v, c = .compressed a v → a ∈ o.certCompAlgs ∧ v = true := by
  intro a v hc
  subst hc
  rw [firstFail_none] at h
  simp only [certGuards, List.mem_cons, List.not_mem_nil, or_false, forall_eq_or_imp, forall_eq] at h
  exact ⟨contains_nat.mp h.2.1, h.2.2.2⟩

/-- passing `processServerHello` + key selection for the final hello. -/
theorem sh13_facts {impl : Impl} {o : Offer} {ctx : ClientCtx} {r : Response}
    (h : firstFail (sh13Guards impl o ctx r) = none) :
    (finalHello impl r).shareGroup ∈ sharesAfter impl o r ∧
    ((finalHello impl r).pskPresent = true → (finalHello impl r).pskIdx < o.pskCount) ∧
    (finalHello impl r).shareGroup ≠ 0 ∧ isHRR impl (finalHello impl r) = false := by
  rw [firstFail_none] at h
  simp only [sh13Guards, List.mem_cons, List.not_mem_nil, or_false, forall_eq_or_imp, forall_eq] at h
  obtain ⟨h1, _, _, h4, h5, h6, _⟩ := h
  refine ⟨contains_nat.mp h5, ?_, by simpa using h4, by simpa using h1⟩
  intro hp
  simpa [hp] using h6

/-- passing `processHelloRetryRequest`. -/
theorem hrr_facts {impl : Impl} {o : Offer} {ctx : ClientCtx} {r : Response}
    (h : firstFail (hrrGuards impl o ctx r) = none) :
    (r.hello1.selectedGroup ≠ 0 → r.hello1.selectedGroup ∈ o.groups ∧ r.hello1.selectedGroup ∉ o.shareGroups) ∧
    r.hello2.isSome = true ∧
    firstFail (checkSHGuards impl o (r.hello2.getD default) (some r.hello1.suite)) = none := by
  unfold hrrGuards at h
  rw [firstFail_append_none] at h
  obtain ⟨h, hc⟩ := h
  rw [firstFail_none] at h
  simp only [List.mem_cons, List.not_mem_nil, or_false, forall_eq_or_imp, forall_eq] at h
  obtain ⟨_, _, _, h4, h5, _, _, _, h9⟩ := h
  refine ⟨?_, h9, hc⟩
  intro hg
  have hg' : (r.hello1.selectedGroup == 0) = false := by simpa using hg
  simp only [hg', Bool.false_or] at h4 h5
  exact ⟨contains_nat.mp h4, by simpa [contains_nat] using h5⟩

/-- the version guards. -/
theorem version_facts {impl : Impl} {o : Offer} {ctx : ClientCtx} {sh : ServerHello}
    (h : firstFail (versionGuards impl o ctx sh) = none) :
    peerVersion sh ∈ cfgVersions ctx ∧ advertised o (peerVersion sh) = true ∧
    downgradeDetected impl ctx sh (peerVersion sh) = false := by
  rw [firstFail_none] at h
  simp only [versionGuards, List.mem_cons, List.not_mem_nil, or_false, forall_eq_or_imp, forall_eq] at h
  exact ⟨contains_nat.mp h.1, h.2.1, by simpa using h.2.2⟩

/-- every version the client Config accepts is one of the four TLS versions, within [min, max]. -/
theorem cfgVersions_mem {ctx : ClientCtx} {v : Nat} (h : v ∈ cfgVersions ctx) :
    (v = tls13 ∨ v = tls12 ∨ v = tls11 ∨ v = tls10) ∧
    (ctx.cfgMin ≠ 0 → ctx.cfgMin ≤ v) ∧ (ctx.cfgMax ≠ 0 → v ≤ ctx.cfgMax) ∧ (ctx.cfgMin = 0 → tls12 ≤ v) := by
  unfold cfgVersions at h
  rw [List.mem_filter] at h
  obtain ⟨hm, hc⟩ := h
  simp only [List.mem_cons, List.not_mem_nil, or_false] at hm
  simp only [Bool.and_eq_true, Bool.not_eq_true', Bool.and_eq_false_iff, decide_eq_false_iff_not,
    bne_eq_false_iff_eq, beq_eq_false_iff_ne] at hc
  obtain ⟨⟨⟨h1, _⟩, h3⟩, h4⟩ := hc
  refine ⟨hm, ?_, ?_, ?_⟩
  · intro hne
    rcases h3 with h3 | h3
    · exact absurd h3 (by simpa using hne)
    · omega
  · intro hne
    rcases h4 with h4 | h4
    · exact absurd h4 (by simpa using hne)
    · omega
  · intro h0
    rcases h1 with h1 | h1
    · exact absurd h0 (by simpa using h1)
    · omega

end Negotiate
