import UtlsVerif.Negotiate
import UtlsVerif.Line
/-!
# NegotiateWire — from recorded handshake bytes to the `Negotiate` model, and the shared
evaluation of one handshake case line (families `c12_hs`, `c13_hs`).

* `parseOffer` — an independent strict parser of a ClientHello handshake message into `Offer`
  (what the hello said on the wire);
* `parseServerHello` — mirrors `serverHelloMsg.unmarshal` (/repo/handshake_messages.go): same
  fields, duplicate extensions and trailing bytes rejected, unknown extensions ignored;
* `parseEEAlpn` — the ALPN protocol of an EncryptedExtensions message;
* `evalCase` — builds `Offer`, `ClientCtx`, `Response` from a case line, runs `clientStep`,
  compares with what the implementation did, and computes the facts the monitors need.
Core Lean only.
-/
namespace NegotiateWire
open Wire Negotiate Line

/-- extension list: `(type, body)*`, fuel = number of bytes. -/
def parseExtList : Nat → Bytes → Option (List (Nat × Bytes))
  | 0, bs => if bs.isEmpty then some [] else none
  | fuel + 1, bs =>
    if bs.isEmpty then some [] else do
      let (t, r) ← readU16 bs
      let (body, r) ← readVec16 r
      let rest ← parseExtList fuel r
      pure ((t, body) :: rest)

def findExt (exts : List (Nat × Bytes)) (t : Nat) : Option Bytes := (exts.find? (·.1 == t)).map (·.2)

def hasDup : List Nat → Bool
  | [] => false
  | x :: xs => xs.contains x || hasDup xs

/-- key_share client entries: `(group, vec16 key)*` → groups. -/
def parseShareGroups : Nat → Bytes → Option (List Nat)
  | 0, bs => if bs.isEmpty then some [] else none
  | fuel + 1, bs =>
    if bs.isEmpty then some [] else do
      let (g, r) ← readU16 bs
      let (_, r) ← readVec16 r
      let rest ← parseShareGroups fuel r
      pure (g :: rest)

/-- ALPN protocol name list: `vec8*`. -/
def parseNames : Nat → Bytes → Option (List Bytes)
  | 0, bs => if bs.isEmpty then some [] else none
  | fuel + 1, bs =>
    if bs.isEmpty then some [] else do
      let (p, r) ← readVec8 bs
      let rest ← parseNames fuel r
      pure (p :: rest)

/-- pre_shared_key identities: `(vec16 identity, uint32 age)*` → count. -/
def countIdentities : Nat → Bytes → Option Nat
  | 0, bs => if bs.isEmpty then some 0 else none
  | fuel + 1, bs =>
    if bs.isEmpty then some 0 else do
      let (_, r) ← readVec16 bs
      let (_, r) ← readU32 r
      let n ← countIdentities fuel r
      pure (n + 1)

/-- handshake message framing: type, uint24 length, body; nothing may follow. -/
def hsBody (typ : Nat) (msg : Bytes) : Option Bytes := do
  let (t, r) ← readU8 msg
  guard (t == typ)
  let (body, rest) ← readVec24 r
  guard rest.isEmpty
  pure body

/-- what a ClientHello handshake message offers on the wire. -/
def parseOffer (msg : Bytes) : Option Offer := do
  let body ← hsBody 1 msg
  let (legacy, r) ← readU16 body
  let (_, r) ← take? 32 r
  let (sid, r) ← readVec8 r
  let (cs, r) ← readVec16 r
  let suites ← decU16s cs
  let (comps, r) ← readVec8 r
  let exts ← (if r.isEmpty then some [] else do
    let (eb, r') ← readVec16 r
    guard r'.isEmpty
    parseExtList eb.length eb)
  guard (!hasDup (exts.map (·.1)))
  let versions ← (match findExt exts 43 with
    | none => some []
    | some b => do
      let (l, r) ← readVec8 b
      guard r.isEmpty
      decU16s l)
  let groups ← (match findExt exts 10 with
    | none => some []
    | some b => do
      let (l, r) ← readVec16 b
      guard r.isEmpty
      decU16s l)
  let shares ← (match findExt exts 51 with
    | none => some []
    | some b => do
      let (l, r) ← readVec16 b
      guard r.isEmpty
      parseShareGroups l.length l)
  let alpn ← (match findExt exts 16 with
    | none => some []
    | some b => do
      let (l, r) ← readVec16 b
      guard r.isEmpty
      parseNames l.length l)
  let pskCount ← (match findExt exts 41 with
    | none => some 0
    | some b => do
      let (l, _) ← readVec16 b
      countIdentities l.length l)
  let ccAlgs ← (match findExt exts 27 with
    | none => some []
    | some b => do
      let (l, r) ← readVec8 b
      guard r.isEmpty
      decU16s l)
  pure { legacyVersion := legacy, sessionId := sid, suites := suites, compressions := decU8s comps,
         hasVersions := (findExt exts 43).isSome, versions := versions,
         hasGroups := (findExt exts 10).isSome, groups := groups, shareGroups := shares,
         alpn := alpn, pskCount := pskCount,
         hasCertComp := (findExt exts 27).isSome, certCompAlgs := ccAlgs }

/-- one ServerHello extension applied to the message under construction
(`serverHelloMsg.unmarshal`'s switch); `none` = the unmarshal fails. -/
def applySHExt (m : ServerHello) (t : Nat) (d : Bytes) : Option ServerHello :=
  if t == 5 then (if d.isEmpty then some { m with ocsp := true } else none)
  else if t == 35 then (if d.isEmpty then some { m with ticket := true } else none)
  else if t == 0xff01 then do
    let (x, r) ← readVec8 d
    guard r.isEmpty
    pure { m with renegSupported := true, renegData := x }
  else if t == 23 then (if d.isEmpty then some { m with ems := true } else none)
  else if t == 16 then do
    let (l, r) ← readVec16 d
    guard (r.isEmpty && !l.isEmpty)
    let (p, r) ← readVec8 l
    guard (r.isEmpty && !p.isEmpty)
    pure { m with alpn := p }
  else if t == 18 then do
    let (l, r) ← readVec16 d
    guard (r.isEmpty && !l.isEmpty)
    pure { m with scts := true }
  else if t == 43 then do
    let (v, r) ← readU16 d
    guard r.isEmpty
    pure { m with supportedVersion := v }
  else if t == 44 then do
    let (c, r) ← readVec16 d
    guard (r.isEmpty && !c.isEmpty)
    pure { m with hasCookie := true }
  else if t == 51 then
    (if d.length == 2 then do
      let (g, _) ← readU16 d
      pure { m with selectedGroup := g }
    else do
      let (g, r) ← readU16 d
      let (k, r) ← readVec16 r
      guard r.isEmpty
      pure { m with shareGroup := g, shareLen := k.length })
  else if t == 41 then do
    let (i, r) ← readU16 d
    guard r.isEmpty
    pure { m with pskPresent := true, pskIdx := i }
  else if t == 11 then do
    let (p, r) ← readVec8 d
    guard (r.isEmpty && !p.isEmpty)
    pure m
  else if t == 0xfe0d then some { m with echExt := true }
  else if t == 0 then (if d.isEmpty then some m else none)
  else some m

def applySHExts (m : ServerHello) : List (Nat × Bytes) → Option ServerHello
  | [] => some m
  | (t, d) :: rest => (applySHExt m t d).bind (applySHExts · rest)

/-- `serverHelloMsg.unmarshal`. -/
def parseServerHello (msg : Bytes) : Option ServerHello := do
  let body ← hsBody 2 msg
  let (vers, r) ← readU16 body
  let (rnd, r) ← take? 32 r
  let (sid, r) ← readVec8 r
  let (suite, r) ← readU16 r
  let (comp, r) ← readU8 r
  let m : ServerHello := { legacyVersion := vers, random := rnd, sessionId := sid, suite := suite, compression := comp }
  if r.isEmpty then pure m else do
    let (eb, r') ← readVec16 r
    guard r'.isEmpty
    let exts ← parseExtList eb.length eb
    guard (!hasDup (exts.map (·.1)))
    applySHExts m exts

/-- ALPN protocol of an EncryptedExtensions message ([] when there is none). -/
def parseEEAlpn (msg : Bytes) : Option Bytes := do
  let body ← hsBody 8 msg
  let (eb, r) ← readVec16 body
  guard r.isEmpty
  let exts ← parseExtList eb.length eb
  match findExt exts 16 with
  | none => pure []
  | some d => do
    let (l, r) ← readVec16 d
    guard (r.isEmpty && !l.isEmpty)
    let (p, r) ← readVec8 l
    guard (r.isEmpty && !p.isEmpty)
    pure p

/-! ## one handshake case -/

def hex16? (s : String) : Option Nat :=
  match unhex s with
  | some [a, c] => some (a.toNat * 256 + c.toNat)
  | _ => none

/-- `c<alg>v<0|1>` / `plain` / `-`. -/
def parseCert (s : String) : Option CertMsg :=
  if s == "plain" || s == "-" then some .plain
  else if s.startsWith "c" then
    match (s.drop 1).toString.splitOn "v" with
    | [a, v] => do
      let alg ← a.toNat?
      pure (.compressed alg (v == "1"))
    | _ => none
  else none

/-- the reported ConnectionState: `vers,suite,curve,alpn,resumed,hrr` (hex, hex, dec, hex bytes, 0/1, 0/1). -/
def parseState (s : String) : Option Report :=
  match s.splitOn "," with
  | [v, su, c, a, res, h] => do
    let v ← hex16? v
    let su ← hex16? su
    let c ← c.toNat?
    let a ← unhex a
    pure { version := v, suite := su, curve := c, alpn := a, didResume := res == "1", didHRR := h == "1" }
  | _ => none

def renderReport (r : Report) : String :=
  s!"{r.version},{r.suite},{r.curve},{hex r.alpn},{if r.didResume then 1 else 0},{if r.didHRR then 1 else 0}"

/-- everything the families need about one case. -/
structure Eval where
  mode : String
  offer : Offer
  ctx : ClientCtx
  resp : Response
  hellos : List ServerHello      -- every ServerHello-type message the server sent, in order
  cfgObserved : Nat × Nat        -- implementation: Config.MinVersion / MaxVersion after the build
  model : Outcome
  completed : Bool               -- implementation: Handshake returned nil
  state : Option Report          -- implementation: reported ConnectionState
  app : Bool                     -- application data was exchanged
  calert : String
  salert : String
  certSent : CertMsg
  skx : Nat

inductive Parsed where
  | eval (e : Eval)
  | skipped (why : String)       -- the harness could not build the case for this hello
  | refused (mode : String) (completed : Bool)   -- the server sent no ServerHello at all
  | bad (msg : String)

def parseCase (impl : Impl) (c : Case) : Parsed :=
  let mode := c.input.getD "mode" "?"
  match c.output.get "out" with
  | some "skip" => .skipped (c.output.getD "reason" "?")
  | some o => .bad s!"harness outcome {o}"
  | none =>
  let completed := c.output.getD "cerr" "?" == "ok"
  if c.output.getD "sh" "-" == "-" then .refused mode completed else
  let r : Option Eval := do
    let ch ← c.output.bytes "ch"
    let offer ← parseOffer ch
    let hellos ← (listOf (c.output.getD "sh" "-")).mapM fun s => (unhex s).bind parseServerHello
    let h1 ← hellos.head?
    let h2 := hellos[1]?
    guard (hellos.length ≤ 2)
    let (cfgMin, cfgMax, ech) ← (match listOf (c.output.getD "cfg" "") with
      | [a, b, e] => do
        let a ← hex16? a
        let b ← hex16? b
        pure (a, b, e == "1")
      | _ => none)
    let (ecdhe, hybrid) ← (match listOf (c.output.getD "keys" "") with
      | [a, b] => do
        let a ← a.toNat?
        pure (a, b == "1")
      | _ => none)
    -- the Config range is *predicted* from the declared spec by the model's SetTLSVers (it must not
    -- depend on what the Config held before); the observed range is compared in `diff`
    let (specMin, specMax) ← (match listOf (c.output.getD "spec" "") with
      | [a, b] => do
        let a ← hex16? a
        let b ← hex16? b
        pure (a, b)
      | _ => none)
    let specExts ← (listOf (c.output.getD "specexts" "-")).mapM fun e =>
      if e == "e" then some [] else (e.splitOn ".").mapM hex16?
    -- `nospec=1`: the hello was built by crypto/tls (HelloGolang): no spec, SetTLSVers never ran
    let (mMin, mMax) ← (if c.output.getD "nospec" "0" == "1" then some (cfgMin, cfgMax) else
      match setTLSVers specMin specMax specExts with
      | .ok p => some p
      | .error _ => none)
    -- per-share keys: `kx=<Mlkem 0|1>,<MlkemEcdhe 0|1>,<EcdheKeys groups, +-separated>,<MlkemKeys groups>`
    let plusNats := fun (s : String) => if s == "-" || s == "" then some [] else (s.splitOn "+").mapM String.toNat?
    let (mlkem, mlkemEcdhe, keyGroups, mlkemGroups) ← (match listOf (c.output.getD "kx" "") with
      | [] => some (hybrid, hybrid, [], [])
      | [a, b, g1, g2] => do
        let g1 ← plusNats g1
        let g2 ← plusNats g2
        pure (a == "1", b == "1", g1, g2)
      | _ => none)
    let pskSuite := hex16? (c.output.getD "psks" "-")
    let recv ← hex16? (c.output.getD "recv" "")
    let eeAlpn ← (match c.output.getD "ee" "-" with
      | "-" => some []
      | s => (unhex s).bind parseEEAlpn)
    let cert ← parseCert (c.output.getD "cert" "-")
    let skx ← c.output.nat "skx"
    let state ← (match c.output.getD "state" "-" with
      | "-" => some none
      | s => (parseState s).map some)
    let ctx : ClientCtx := ctxOfVers mMin mMax ech
      { cfgMin := cfgMin, cfgMax := cfgMax, ech := ech, ecdheGroup := ecdhe, hybridKeys := hybrid, pskSuite := pskSuite,
        mlkem := mlkem, mlkemEcdhe := mlkemEcdhe, keyGroups := keyGroups, mlkemGroups := mlkemGroups,
        quic := c.output.getD "quic" "0" == "1", golang := c.output.getD "golang" "0" == "1" }
    let resp : Response := { hello1 := h1, hello2 := h2, recVersion := recv, eeAlpn := eeAlpn, cert := cert,
                             skxCurve := skx, restOk := true }
    pure { mode := mode, offer := offer, ctx := ctx, resp := resp, hellos := hellos,
           cfgObserved := (cfgMin, cfgMax),
           model := clientStep impl offer ctx resp,
           completed := completed, state := state, app := c.output.getD "app" "0" == "1",
           calert := c.output.getD "calert" "-", salert := c.output.getD "salert" "-",
           certSent := cert, skx := skx }
  match r with
  | some e => .eval e
  | none => .bad "unparsable handshake case"

/-- does the observed alert (plaintext alert on the client's wire, else the server's remote error)
match the predicted one? -/
def alertMatches (a : Alert) (calert salert : String) : Bool :=
  match a with
  | .none => calert == "-" && !salert.startsWith "ralert:"
  | .unmodelled => false
  | a => calert == toString a.code || (calert == "-" && salert == "ralert:" ++ a.name)

def outcomeTag : Outcome → String
  | .accept _ => "accept"
  | .abort a => s!"abort:{a.name}"

/-- model vs implementation: `none` = they agree, `some msg` = the model predicts something else. -/
def diff (e : Eval) : Option String :=
  if !e.ctx.ech && e.cfgObserved != (e.ctx.cfgMin, e.ctx.cfgMax) then
    some s!"cfg={e.ctx.cfgMin},{e.ctx.cfgMax} (SetTLSVers result must depend on the spec only)"
  else
  match e.model with
  | .accept st =>
    if e.completed && e.app && e.state == some (report st) then none
    else some s!"accept state={renderReport (report st)}"
  | .abort a =>
    if !e.completed && e.state.isNone && !e.app && alertMatches a e.calert e.salert then none
    else some s!"abort alert={a.code}/{a.name}"

end NegotiateWire
