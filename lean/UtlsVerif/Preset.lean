import UtlsVerif.Hello
import UtlsVerif.Grease
/-!
# Preset — `(*UConn).ApplyPreset` (/repo/u_parrots.go), `SetTLSVers` (/repo/u_conn.go),
`ShuffleChromeTLSExtensions`, an **independent reference encoder** `render` for a spec plus the
per-connection material, and the normalisation `shape` used by C03 and C06.

* `Spec` — what a `ClientHelloSpec` says: cipher suites, compression methods, `TLSVersMin/Max`, the
  extension list (values of `Ext`; GREASE placeholders as they stand in the spec) and the padding policy
  (`GetPaddingLen` of the first padding extension).
* `Material` — everything of *this connection* that `ApplyPreset` and session loading put into the hello:
  client random, session id, the 10 GREASE seed bytes, `Config.ServerName`, the generated key-share
  public keys (in generation order), `Config.OmitEmptyPsk`, the frozen GREASE-ECH draws and what the
  session controller put into the session-ticket / pre_shared_key extension.
* `applyPreset spec m` — transcription of `ApplyPreset` up to the state `MarshalClientHelloNoECH` reads
  (`Hello.HelloFields` + `uconn.Extensions`): `SetTLSVers`, `hello.Vers = min(max, 1.2)`
  (`makeClientHelloForApplyPreset`), compression methods (the spec's, `[0]` when it has none — after the
  repair), GREASE seeding and de-duplication, cipher suites with GREASE substituted, the extension loop
  (SNI fill-in, first/second GREASE extension, supported_groups, key_share generation, supported_versions),
  `syncSessionExts`/session loading as far as they touch the extension values.
* `render spec m` — the reference: what RFC 8446 presentation-language encoding of "the spec with the
  connection's material filled in" is, as a `Hello.ParsedCH`. Written without `Ext.body`/`Ext.len`.
* `shuffleWith` — `ShuffleChromeTLSExtensions` as a fold of guarded swaps.
* `shape` — a parsed ClientHello with GREASE values and per-connection material erased.

Core Lean only (linked into `utlsmodel`).
-/
namespace Preset
open Wire Ext Ext.Ext Hello

structure Spec where
  suites : List Nat
  comp : Bytes
  vmin : Nat
  vmax : Nat
  exts : List Ext
  /-- `GetPaddingLen` of the first `UtlsPaddingExtension`. -/
  pol : PadPolicy
  deriving DecidableEq, Repr

/-- NB: there is deliberately **no** `Config.MinVersion` / `Config.MaxVersion` here: `ApplyPreset` calls
`SetTLSVers` first, which replaces both by the spec's range before `makeClientHelloForApplyPreset` reads
them, so the hello (legacy_version in particular) is a function of the spec, not of what the caller had
pinned in the Config (`C03.legacy_version_from_spec`; the tie varies the pinned values). -/
structure Material where
  random : Bytes
  sessionId : Bytes
  /-- the five little-endian words of the 10-byte read from `Config.Rand` (before de-duplication). -/
  seeds : Grease.Seeds
  serverName : Bytes
  /-- public keys `generateECDHEKey` / ML-KEM produced, in the order the loop asked for them. -/
  keys : List Bytes
  omitEmptyPsk : Bool
  echKdf : Nat := 0
  echAead : Nat := 0
  echCid : Nat := 0
  echEnc : Bytes := []
  echPayload : Bytes := []
  /-- a ticket the session controller wrote into the session_ticket extension. -/
  ticket : Option Bytes := none
  /-- a pre_shared_key extension provided by the user / filled from a session:
  `(fake, sessionSet, identities, binders)`. -/
  psk : Option (Bool × Bool × List (Bytes × Nat) × List Bytes) := none
  deriving Repr

/-! ## `SetTLSVers` -/

def isGreaseV (v : Nat) : Bool := isGreaseU16 v

/-- `findVersionsInSupportedVersionsExtensions`: `(minVers, maxVers)` over the non-GREASE entries. -/
def versMinMax : List Nat → Nat × Nat → Nat × Nat
  | [], acc => acc
  | v :: r, (mn, mx) =>
    if isGreaseV v then versMinMax r (mn, mx)
    else versMinMax r (if mn > v ∨ mn = 0 then v else mn, if mx < v ∨ mx = 0 then v else mx)

/-- the scan over the spec's extensions when `TLSVersMin = TLSVersMax = 0`: number of
supported_versions extensions seen and the range of the last one; `none` = "invalid Versions field". -/
def scanVersions : List Ext → Nat → Nat × Nat → Option (Nat × (Nat × Nat))
  | [], n, r => some (n, r)
  | supportedVersions vs :: rest, n, _ =>
    let r := versMinMax vs (0, 0)
    if r.1 = 0 ∧ r.2 = 0 then none else scanVersions rest (n + 1) r
  | _ :: rest, n, r => scanVersions rest n r

/-- `SetTLSVers(min, max, exts)`: the range written to `Config.MinVersion/MaxVersion`, or an error. -/
def versRange (spec : Spec) : Option (Nat × Nat) :=
  let r : Option (Nat × Nat) :=
    if spec.vmin = 0 ∧ spec.vmax = 0 then
      match scanVersions spec.exts 0 (0, 0) with
      | none => none
      | some (0, _) => some (0x0301, 0x0303)
      | some (1, r) => some r
      | some _ => none
    else some (spec.vmin, spec.vmax)
  match r with
  | none => none
  | some (mn, mx) =>
    if mn < 0x0301 ∨ mn > 0x0304 then none
    else if mx < 0x0301 ∨ mx > 0x0304 then none
    else if mx < mn then none        -- makeClientHello: "no supported versions satisfy MinVersion and MaxVersion"
    else some (mn, mx)

/-! ## the extension loop of `ApplyPreset` -/

/-- `generateECDHEKey` knows X25519, P-256, P-384, P-521. -/
def ecdheGroup (g : Nat) : Bool := g == 29 || g == 23 || g == 24 || g == 25
/-- X25519MLKEM768 / X25519Kyber768Draft00. -/
def hybridGroup (g : Nat) : Bool := g == 4588 || g == 25497

/-- the key-share loop: GREASE group substituted (data kept), a share with more than one byte of data
kept, otherwise a fresh key for a supported group; "unsupported Curve" otherwise. `ks`: the keys the
generator yields, in order (`none` when it runs dry — a harness error, not a behaviour). -/
def fillShares (grp : Nat) : List (Nat × Bytes) → List Bytes → Option (List (Nat × Bytes) × List Bytes)
  | [], ks => some ([], ks)
  | (g, d) :: r, ks =>
    if isGreaseV g then (fillShares grp r ks).map fun (o, k) => ((grp, d) :: o, k)
    else if d.length > 1 then (fillShares grp r ks).map fun (o, k) => ((g, d) :: o, k)
    else if hybridGroup g || ecdheGroup g then
      match ks with
      | key :: ks' => (fillShares grp r ks').map fun (o, k) => ((g, key) :: o, k)
      | [] => none
    else none

def substG (v : Nat) (xs : List Nat) : List Nat := xs.map fun x => if isGreaseV x then v else x

/-- one iteration of `for _, e := range uconn.Extensions` (plus what `syncSessionExts` / session loading /
`init()` do to the same extension). State: GREASE extensions seen, keys left. -/
def fillOne (m : Material) (s : Grease.Seeds) (seen : Nat) (ks : List Bytes) (e : Ext) : Option (Ext × Nat × List Bytes) :=
  match e with
  | sni n => some (sni (if n.isEmpty then m.serverName else n), seen, ks)
  | grease _ bd =>
    if seen = 0 then some (grease (Grease.boring s.ext1) bd, 1, ks)
    else if seen = 1 then some (grease (Grease.boring s.ext2) [0], 2, ks)
    else none                                  -- "at most 2 grease extensions are supported"
  | supportedCurves c => some (supportedCurves (substG (Grease.boring s.group) c), seen, ks)
  | keyShare ss =>
    match fillShares (Grease.boring s.group) ss ks with
    | some (ss', ks') => some (keyShare ss', seen, ks')
    | none => none
  | supportedVersions vs => some (supportedVersions (substG (Grease.boring s.version) vs), seen, ks)
  | sessionTicket t => some (sessionTicket (m.ticket.getD t), seen, ks)
  | psk fake _ sess ids binders =>
    match m.psk with
    | some (f', s', ids', b') => some (psk f' m.omitEmptyPsk s' ids' b', seen, ks)
    | none => some (psk fake m.omitEmptyPsk sess ids binders, seen, ks)
  | greaseECH k a _ _ _ =>
    some (greaseECH (if k = 0 then m.echKdf else k) (if a = 0 then m.echAead else a) m.echCid m.echEnc m.echPayload, seen, ks)
  | e => some (e, seen, ks)

def fillExts (m : Material) (s : Grease.Seeds) : List Ext → Nat → List Bytes → Option (List Ext)
  | [], _, _ => some []
  | e :: r, seen, ks =>
    match fillOne m s seen ks e with
    | none => none
    | some (e', seen', ks') => (fillExts m s r seen' ks').map (e' :: ·)

/-- the state `MarshalClientHelloNoECH` reads. -/
structure State where
  f : HelloFields
  pol : PadPolicy
  exts : List Ext
  deriving DecidableEq, Repr

/-- `ApplyPreset(spec)` (+ `ApplyConfig` / session loading as far as extension values go).
`none` = any of its error returns. -/
def applyPreset (spec : Spec) (m : Material) : Option State :=
  match versRange spec with
  | none => none
  | some (_, mx) =>
    let s := Grease.dedup m.seeds
    match fillExts m s spec.exts 0 m.keys with
    | none => none
    | some xs =>
      some { f := { vers := if mx > 0x0303 then 0x0303 else mx,
                    random := m.random, sessionId := m.sessionId,
                    cipherSuites := substG (Grease.boring s.cipher) spec.suites,
                    compressionMethods := if spec.comp.isEmpty then [0] else spec.comp },
             pol := spec.pol, exts := xs }

/-! ## decidable well-formedness (the hypotheses of `preset_wire`) -/

def isGreaseExt : Ext → Bool
  | grease _ _ => true
  | _ => false

/-- keys the share loop asks the generator for. -/
def sharesNeed : List (Nat × Bytes) → Nat
  | [] => 0
  | (g, d) :: r => (if isGreaseV g || d.length > 1 then 0 else 1) + sharesNeed r

def keysNeed : Ext → Nat
  | keyShare ss => sharesNeed ss
  | _ => 0

/-- every share is a GREASE entry, carries its own key, or names a group a key can be generated for. -/
def sharesOKb (ss : List (Nat × Bytes)) : Bool :=
  ss.all fun x => isGreaseV x.1 || x.2.length > 1 || hybridGroup x.1 || ecdheGroup x.1

def extSpecOK : Ext → Bool
  | keyShare ss => sharesOKb ss
  | grease _ _ => true
  | e => typeId e < 65536

/-- a spec `ApplyPreset` accepts: a usable version range, list fields within their length prefixes,
at most two GREASE extensions, key shares that can be generated. Material-independent and decidable
(`parrot_rows_wf` evaluates it on every regenerated row). -/
def specWF (spec : Spec) : Bool :=
  (versRange spec).isSome && spec.suites.length * 2 < 65536 && spec.suites.all (· < 65536) &&
  spec.comp.length < 256 && spec.exts.all extSpecOK && spec.exts.countP isGreaseExt ≤ 2

/-- the connection's material fits: a session id that fits its length byte and enough generated keys. -/
def matOK (spec : Spec) (m : Material) : Bool :=
  m.sessionId.length < 256 && (spec.exts.map keysNeed).sum ≤ m.keys.length

/-! ## the reference encoder -/

/-- one entry of the reference extension list before the padding decision. -/
inductive Slot where
  | ext (t : Nat) (body : Bytes)
  | pad (n : Nat) (w : Bool)
  | skip
  deriving DecidableEq, Repr

def refU16s (xs : List Nat) : Bytes := xs.flatMap u16
def refVec8s (xs : List Bytes) : Bytes := xs.flatMap vec8
def refShares (xs : List (Nat × Bytes)) : Bytes := xs.flatMap fun x => u16 x.1 ++ vec16 x.2
def refIds (xs : List (Bytes × Nat)) : Bytes := xs.flatMap fun x => vec16 x.1 ++ u32 x.2

/-- RFC presentation-language encoding of an extension's `extension_data` (for extensions that carry no
per-connection substitution; those are spelled out in `slotOne`). -/
def refBody : Ext → Bytes
  | sni n => vec16 ([0] ++ vec16 (Sni.hostnameInSNI n))
  | statusRequest => [1] ++ vec16 [] ++ vec16 []
  | supportedCurves c => vec16 (refU16s c)
  | supportedPoints p => vec8 (p.map b)
  | sigAlgs a => vec16 (refU16s a)
  | statusRequestV2 => vec16 ([2] ++ vec16 (vec16 [] ++ vec16 []))
  | sigAlgsCert a => vec16 (refU16s a)
  | alpn ps => vec16 (refVec8s ps)
  | alps _ ps => vec16 (refVec8s ps)
  | sct => []
  | generic _ d => d
  | ems => []
  | grease _ bd => bd
  | padding n _ => List.replicate n 0
  | compressCert a => vec8 (refU16s a)
  | keyShare ss => vec16 (refShares ss)
  | quicTP mar => mar
  | pskModes ms => vec8 (ms.map b)
  | supportedVersions v => vec8 (refU16s v)
  | cookie c => vec16 c
  | npn => []
  | renegInfo d => vec8 d
  | channelId _ => []
  | recordSizeLimit l => u16 l
  | tokenBinding ma mi p => [b ma, b mi] ++ vec8 (p.map b)
  | delegatedCreds a => vec16 (refU16s a)
  | sessionTicket t => t
  | psk _ _ _ ids binders => vec16 (refIds ids) ++ vec16 (refVec8s binders)
  | greaseECH kdf aead cid enc payload => [0] ++ u16 kdf ++ u16 aead ++ [b cid] ++ vec16 enc ++ vec16 payload

/-- extension code points (RFC / IANA registry; utls-specific ones as in u_common.go). -/
def refType : Ext → Nat
  | sni _ => 0 | statusRequest => 5 | supportedCurves _ => 10 | supportedPoints _ => 11
  | sigAlgs _ => 13 | alpn _ => 16 | statusRequestV2 => 17 | sct => 18 | padding _ _ => 21 | ems => 23
  | tokenBinding _ _ _ => 24 | compressCert _ => 27 | recordSizeLimit _ => 28 | delegatedCreds _ => 34
  | sessionTicket _ => 35 | psk _ _ _ _ _ => 41 | supportedVersions _ => 43 | cookie _ => 44
  | pskModes _ => 45 | sigAlgsCert _ => 50 | keyShare _ => 51 | quicTP _ => 57 | npn => 13172
  | alps new _ => if new then 17613 else 17513
  | channelId old => if old then 30031 else 30032
  | greaseECH _ _ _ _ _ => 65037 | renegInfo _ => 65281
  | generic id _ => id | grease v _ => v

/-- is the (filled-in) extension on the wire at all? SNI only for a non-empty host name, padding only when
the policy decided to pad, pre_shared_key only when it has identities and binders (and, for the real one,
a session). -/
def onWire : Ext → Bool
  | sni n => !(Sni.hostnameInSNI n).isEmpty
  | padding _ w => w
  | psk fake _ sess ids binders => (fake || sess) && !(ids.isEmpty || binders.isEmpty)
  | _ => true

/-- reference slot of a filled-in extension. -/
def slotOf (e : Ext) : Slot :=
  match e with
  | padding n w => .pad n w
  | e => if onWire e then .ext (refType e) (refBody e) else .skip

/-- reference counterpart of one spec entry: the connection's material substituted, then encoded.
Written entry by entry from the property text: SNI value from the configuration, the first and second
GREASE extension get the connection's two GREASE values (the second with the one-byte body), GREASE
placeholders in supported_groups / key_share / supported_versions get the connection's group / version
GREASE value, key shares get this connection's public keys. -/
def slotOne (m : Material) (s : Grease.Seeds) (seen : Nat) (ks : List Bytes) (e : Ext) : Option (Slot × Nat × List Bytes) :=
  match e with
  | sni n =>
    let host := Sni.hostnameInSNI (if n.isEmpty then m.serverName else n)
    some (if host.isEmpty then .skip else .ext 0 (vec16 ([0] ++ vec16 host)), seen, ks)
  | grease _ bd =>
    if seen = 0 then some (.ext (Grease.boring s.ext1) bd, 1, ks)
    else if seen = 1 then some (.ext (Grease.boring s.ext2) [0], 2, ks)
    else none
  | supportedCurves c => some (.ext 10 (vec16 (refU16s (substG (Grease.boring s.group) c))), seen, ks)
  | keyShare ss =>
    match fillShares (Grease.boring s.group) ss ks with
    | some (ss', ks') => some (.ext 51 (vec16 (refShares ss')), seen, ks')
    | none => none
  | supportedVersions vs => some (.ext 43 (vec8 (refU16s (substG (Grease.boring s.version) vs))), seen, ks)
  | sessionTicket t => some (.ext 35 (m.ticket.getD t), seen, ks)
  | psk fake _ sess ids binders =>
    let (f', s', ids', b') := m.psk.getD (fake, sess, ids, binders)
    some (if (f' || s') && !(ids'.isEmpty || b'.isEmpty) then .ext 41 (vec16 (refIds ids') ++ vec16 (refVec8s b')) else .skip, seen, ks)
  | greaseECH k a _ _ _ =>
    some (.ext 65037 ([0] ++ u16 (if k = 0 then m.echKdf else k) ++ u16 (if a = 0 then m.echAead else a) ++
      [b m.echCid] ++ vec16 m.echEnc ++ vec16 m.echPayload), seen, ks)
  | padding n w => some (.pad n w, seen, ks)
  | e => some (.ext (refType e) (refBody e), seen, ks)

def slots (m : Material) (s : Grease.Seeds) : List Ext → Nat → List Bytes → Option (List Slot)
  | [], _, _ => some []
  | e :: r, seen, ks =>
    match slotOne m s seen ks e with
    | none => none
    | some (sl, seen', ks') => (slots m s r seen' ks').map (sl :: ·)

/-- bytes the non-padding entries occupy in the extensions block. -/
def slotsLen : List Slot → Nat
  | [] => 0
  | .ext _ bd :: r => 4 + bd.length + slotsLen r
  | _ :: r => slotsLen r

/-- resolve the padding entry for a ClientHello whose unpadded handshake message has `l` bytes. -/
def resolve (pol : PadPolicy) (l : Nat) : List Slot → List (Nat × Bytes)
  | [] => []
  | .ext t bd :: r => (t, bd) :: resolve pol l r
  | .pad n w :: r =>
    let d := pol.apply l (n, w)
    if d.2 then (21, List.replicate d.1 0) :: resolve pol l r else resolve pol l r
  | .skip :: r => resolve pol l r

/-- **the reference**: the ClientHello a spec describes, for this connection's material. -/
def render (spec : Spec) (m : Material) : Option ParsedCH :=
  match versRange spec with
  | none => none
  | some (_, mx) =>
    let s := Grease.dedup m.seeds
    match slots m s spec.exts 0 m.keys with
    | none => none
    | some sl =>
      let suites := substG (Grease.boring s.cipher) spec.suites
      let comp : Bytes := if spec.comp.isEmpty then [0] else spec.comp
      -- handshake header (4) ‖ version (2) ‖ random (32) ‖ session id ‖ suites ‖ compression ‖ extensions length (2)
      let l := 4 + (2 + 32 + (1 + m.sessionId.length) + (2 + 2 * suites.length) + (1 + comp.length)) + 2 + slotsLen sl
      some { vers := if mx > 0x0303 then 0x0303 else mx, random := m.random, sessionId := m.sessionId,
             suites := suites, comps := comp,
             exts := if spec.exts.isEmpty then none else some (resolve spec.pol l sl) }

/-! ## `ShuffleChromeTLSExtensions` -/

/-- `skipShuf`: `*UtlsGREASEExtension`, `*UtlsPaddingExtension`, `PreSharedKeyExtension`. -/
def fixedKind : Ext → Bool
  | grease _ _ => true
  | padding _ _ => true
  | psk _ _ _ _ _ => true
  | _ => false

/-- the callback `rand.Shuffle` is given: `if skipShuf(i) || skipShuf(j) { return }; swap`. (Indices
outside the slice cannot occur in Go; here they leave the list alone.) -/
def shuffleStep {α : Type} (fixed : α → Bool) (xs : List α) (ij : Nat × Nat) : List α :=
  match xs[ij.1]?, xs[ij.2]? with
  | some a, some c => if fixed a || fixed c then xs else (xs.set ij.1 c).set ij.2 a
  | _, _ => xs

/-- the whole shuffle for the sequence of `(i, j)` calls `rand.Shuffle` makes. -/
def shuffleWith {α : Type} (fixed : α → Bool) (swaps : List (Nat × Nat)) (xs : List α) : List α :=
  swaps.foldl (shuffleStep fixed) xs

/-! ## shape -/

def decShares : Nat → Bytes → Option (List (Nat × Bytes))
  | _, [] => some []
  | 0, _ => none
  | fuel + 1, bs =>
    match readU16 bs with
    | none => none
    | some (g, r) =>
      match readVec16 r with
      | none => none
      | some (d, r') => (decShares fuel r').map ((g, d) :: ·)

/-- an extension with GREASE values and per-connection material erased: GREASE code points → `0x0a0a`;
SNI value, session ticket, pre_shared_key identities/binders → erased; key-share public keys → erased
(the GREASE entry's data stays); GREASE-ECH → `type ‖ kdf ‖ aead` only. Undecodable bodies stay as they are. -/
def shapeExt (t : Nat) (bd : Bytes) : Nat × Bytes :=
  if t = 0 then (0, [])
  else if t = 35 then (35, [])
  else if t = 41 then (41, [])
  else if t = 10 then
    match readVec16 bd with
    | some (l, []) => (match decU16s l with | some cs => (10, vec16 (refU16s (cs.map unGrease))) | none => (10, bd))
    | _ => (10, bd)
  else if t = 43 then
    match readVec8 bd with
    | some (l, []) => (match decU16s l with | some vs => (43, vec8 (refU16s (vs.map unGrease))) | none => (43, bd))
    | _ => (43, bd)
  else if t = 51 then
    match readVec16 bd with
    | some (l, []) =>
      (match decShares l.length l with
       | some ss => (51, vec16 (refShares (ss.map fun x => if isGreaseU16 x.1 then (greasePlaceholder, x.2) else (x.1, []))))
       | none => (51, bd))
    | _ => (51, bd)
  else if t = 65037 then (65037, bd.take 5)
  else (unGrease t, bd)

/-- the shape of a ClientHello: legacy version, cipher suites (GREASE → placeholder), compression
methods, and the extension sequence with `shapeExt` applied — **without the padding extension**
(its presence and length are a function of the total length, see `fp_len_eq`). -/
structure Shape where
  vers : Nat
  suites : List Nat
  comps : Bytes
  exts : List (Nat × Bytes)
  deriving DecidableEq, Repr

def shapeExts (es : List (Nat × Bytes)) : List (Nat × Bytes) :=
  (es.filter fun x => x.1 != 21).map fun x => shapeExt x.1 x.2

def shape (p : ParsedCH) : Shape :=
  { vers := p.vers, suites := p.suites.map unGrease, comps := p.comps, exts := shapeExts p.extList }

end Preset
