import UtlsVerif.Preset
import UtlsVerif.HelloMarshalLemmas
import UtlsVerif.HelloPaddingLemmas
/-!
# PresetLemmas — helper lemmas for C03 / C06: the reference encodings agree with the transcribed
`Read`s, what a successful `marshalNoECH` parses to (no validity needed), `fillExts` vs `slots`.
-/
namespace Preset
open Wire Ext Ext.Ext Hello

/-! ## reference encodings = transcribed bodies -/

@[simp] theorem refU16s_eq (xs : List Nat) : refU16s xs = encU16s xs := by
  induction xs with
  | nil => rfl
  | cons x xs ih => simp [refU16s, encU16s] at *; exact ih

@[simp] theorem refVec8s_eq (xs : List Bytes) : refVec8s xs = encVec8s xs := by
  induction xs with
  | nil => rfl
  | cons x xs ih => simp [refVec8s, encVec8s] at *; exact ih

@[simp] theorem refShares_eq (xs : List (Nat × Bytes)) : refShares xs = encShares xs := by
  induction xs with
  | nil => rfl
  | cons x xs ih => obtain ⟨g, d⟩ := x; simp [refShares, encShares] at *; exact ih

@[simp] theorem refIds_eq (xs : List (Bytes × Nat)) : refIds xs = encIdentities xs := by
  induction xs with
  | nil => rfl
  | cons x xs ih => obtain ⟨l, a⟩ := x; simp [refIds, encIdentities] at *; exact ih

@[simp] theorem encVec8s_length (xs : List Bytes) : (encVec8s xs).length = vec8sLen xs := by
  induction xs with
  | nil => rfl
  | cons x xs ih => simp [encVec8s, vec8sLen, ih] at *

@[simp] theorem encShares_length (xs : List (Nat × Bytes)) : (encShares xs).length = sharesLen xs := by
  induction xs with
  | nil => rfl
  | cons x xs ih => obtain ⟨g, d⟩ := x; simp [encShares, sharesLen, ih] at *; omega

@[simp] theorem encIdentities_length (xs : List (Bytes × Nat)) : (encIdentities xs).length = identitiesLen xs := by
  induction xs with
  | nil => rfl
  | cons x xs ih => obtain ⟨l, a⟩ := x; simp [encIdentities, identitiesLen, ih] at *; omega

theorem refType_eq (e : Ext) : refType e = typeId e := by
  cases e <;> rfl

theorem u16_congr {a c : Nat} (h : a = c) : u16 a = u16 c := by rw [h]
theorem u8_congr {a c : Nat} (h : a = c) : u8 a = u8 c := by rw [h]

theorem refBody_eq (e : Ext) : refBody e = body e := by
  cases e <;> simp [refBody, body, vec16, vec8, encU8s]
  case sni n => exact u16_congr (by omega)
  case statusRequest => decide
  case statusRequestV2 => decide

/-! ## `Len()` and presence on the wire, in reference terms -/

theorem len_onWire (e : Ext) : len e = if onWire e then 4 + (refBody e).length else 0 := by
  cases e <;> simp [len, onWire, refBody] <;> try omega
  case sni n =>
    by_cases h : (Sni.hostnameInSNI n).length = 0
    · simp [List.length_eq_zero_iff.mp h]
    · have : Sni.hostnameInSNI n ≠ [] := fun h0 => h (by simp [h0])
      simp [this]; omega
  case psk fake om sess ids binders =>
    unfold pskExtLen
    cases fake <;> cases sess <;> cases ids <;> cases binders <;> simp <;> omega

/-- for an extension whose `Read` wrote exactly `Len()` bytes (what every successful marshal
establishes), "emits" is the reference notion `onWire`. -/
theorem emits_onWire (e : Ext) (h : (emit e).length = len e) : emits e = onWire e := by
  rw [len_onWire] at h
  by_cases hem : emit e = []
  · have h1 : emits e = false := by unfold emits; simp [hem]
    rw [h1]
    by_cases c : onWire e = true
    · rw [if_pos c, hem] at h; simp at h; omega
    · simpa using c
  · have h1 : emits e = true := (emits_iff e).mpr hem
    rw [h1]
    by_cases c : onWire e = true
    · exact c.symm
    · rw [if_neg c] at h
      exact absurd (List.length_eq_zero_iff.mp h) hem

/-! ## what a successful `marshalNoECH` establishes per extension, and what it parses to -/

theorem readAll_each {S : Nat} : ∀ (xs : List Ext) (st st' : BufSt), readAll S st xs = .ok st' →
    ∀ e ∈ xs, (emit e).length = len e := by
  intro xs
  induction xs with
  | nil => intro _ _ _ e he; cases he
  | cons x r ih =>
    intro st st' h e he
    unfold readAll at h
    cases hs : readStep S st x with
    | error err => rw [hs] at h; cases h
    | ok st1 =>
      rw [hs] at h
      rcases List.mem_cons.mp he with rfl | hr
      · exact (readStep_out hs).2
      · exact ih st1 st' h e hr

/-- every extension of the list `MarshalClientHelloNoECH` read from wrote exactly its `Len()`. -/
theorem marshal_each {f : HelloFields} {pol : PadPolicy} {xs : List Ext} {bs : Bytes}
    (h : marshalNoECH f pol xs = .ok bs) : ∀ e ∈ updated f pol xs, (emit e).length = len e := by
  unfold marshalNoECH at h
  simp only at h
  by_cases c1 : 2 ≤ paddingCount xs
  · rw [if_pos c1] at h; cases h
  · rw [if_neg c1] at h
    by_cases c2 : 65535 < extensionsLen f pol xs
    · rw [if_pos c2] at h; cases h
    · rw [if_neg c2] at h
      by_cases c3 : 16777215 < helloLen f pol xs
      · rw [if_pos c3] at h; cases h
      · rw [if_neg c3] at h
        cases hr : readAll (helloLen f pol xs + 4)
            (List.foldl (bufWrite (helloLen f pol xs + 4)) { n := 0, out := [] }
              (headerChunks f (helloLen f pol xs) ++ if xs.isEmpty = true then [] else [u16 (extensionsLen f pol xs)]))
            (List.map (updatePad pol (unpaddedLen f xs)) xs) with
        | error err => rw [hr] at h; cases h
        | ok st => exact readAll_each _ _ _ hr

theorem marshal_random_len {f : HelloFields} {pol : PadPolicy} {xs : List Ext} {bs : Bytes}
    (h : marshalNoECH f pol xs = .ok bs) : f.random.length = 32 := by
  obtain ⟨_, _, _, hbs, hX, hlen⟩ := marshal_ok_inv h
  rw [hbs] at hlen
  simp only [List.length_append, headerBytes_length, hX] at hlen
  unfold helloLen headerLength at hlen
  by_cases hx : xs.isEmpty = true
  · have : xs = [] := by simpa using hx
    subst this
    simp [extensionsLen, extsLenNoPad, firstPadding] at hlen
    omega
  · simp only [hx] at hlen
    simp at hlen
    omega

/-- **what a successful marshal parses to** (no validity claim, hence no distinctness needed): the
fields, and the (type, body) of the emitting extensions in list order. -/
theorem marshal_parse' (f : HelloFields) (pol : PadPolicy) (xs : List Ext) (bs : Bytes)
    (hf : fieldsOK f = true) (ht : ∀ e ∈ updated f pol xs, emits e = true → typeId e < 65536) (h : marshalNoECH f pol xs = .ok bs) :
    parseCH bs = some { vers := f.vers, random := f.random, sessionId := f.sessionId, suites := f.cipherSuites,
                        comps := f.compressionMethods, exts := expectedExts f pol xs } := by
  have hr := marshal_random_len h
  obtain ⟨hpc, hel, hhl, hbs, hX, hlen⟩ := marshal_ok_inv h
  rw [List.append_assoc] at hbs
  have hlen' := hlen
  rw [hbs] at hlen'
  have hparse := parseCH_header f (helloLen f pol xs) _ hf hlen' (by omega) hr
  rw [← hbs] at hparse
  by_cases hx : xs.isEmpty = true
  · have hxs : xs = [] := by simpa using hx
    subst hxs
    simp only [updated, List.map_nil, List.flatMap_nil, List.isEmpty_nil, ↓reduceIte, List.append_nil] at hparse
    rw [hparse]; simp [expectedExts]
  · have htail : (if xs.isEmpty = true then [] else u16 (extensionsLen f pol xs)) ++ (updated f pol xs).flatMap emit
        = vec16 ((updated f pol xs).flatMap emit) ++ [] := by
      simp [hx, vec16, hX]
    have hne : vec16 ((updated f pol xs).flatMap emit) ++ [] ≠ [] := by simp [vec16, u16]
    rw [htail, if_neg hne, readVec16_vec16 _ _ (by omega)] at hparse
    have hbound : ∀ e ∈ updated f pol xs, emits e = true → typeId e < 65536 ∧ (body e).length < 65536 := by
      intro e he hem
      refine ⟨?_, ?_⟩
      · exact ht e he hem
      · rcases emit_cases e with h0 | ⟨_, hfr, hl, _⟩
        · rw [(emits_iff e)] at hem; exact absurd h0 hem
        · have h1 := len_le_extsLen _ e he
          rw [extsLen_updated' f pol xs hpc] at h1
          have : (emit e).length = 4 + (body e).length := by rw [hfr]; simp; omega
          omega
    have hpe := parseExts_emitted (updated f pol xs) hbound _ (Nat.le_refl _)
    simp only [ne_eq, not_true_eq_false, ↓reduceIte] at hparse
    unfold parseExts at hparse
    rw [hpe] at hparse
    simp only at hparse
    rw [hparse]
    simp [expectedExts, hx, updated]

theorem marshal_parse (f : HelloFields) (pol : PadPolicy) (xs : List Ext) (bs : Bytes)
    (hf : fieldsOK f = true) (ht : ∀ e ∈ xs, typeId e < 65536) (h : marshalNoECH f pol xs = .ok bs) :
    parseCH bs = some { vers := f.vers, random := f.random, sessionId := f.sessionId, suites := f.cipherSuites,
                        comps := f.compressionMethods, exts := expectedExts f pol xs } := by
  apply marshal_parse' f pol xs bs hf _ h
  intro e he _
  obtain ⟨a, ha, rfl⟩ := List.mem_map.mp he
  rw [updatePad_typeId]; exact ht a ha

/-! ## `fillExts` (transcription) vs `slots` (reference) -/

theorem slotOne_fillOne (m : Material) (s : Grease.Seeds) (seen : Nat) (ks : List Bytes) (e e' : Ext) (seen' : Nat) (ks' : List Bytes)
    (h : fillOne m s seen ks e = some (e', seen', ks')) : slotOne m s seen ks e = some (slotOf e', seen', ks') := by
  cases e <;> simp only [fillOne] at h <;> try (injection h with h; injection h with h1 h2; injection h2 with h2 h3; subst h1 h2 h3; simp [slotOne, slotOf, onWire, refType, refBody]; done)
  case grease v bd =>
    by_cases h0 : seen = 0
    · simp only [h0, ↓reduceIte] at h
      injection h with h; injection h with h1 h2; injection h2 with h2 h3; subst h1 h2 h3
      simp [slotOne, slotOf, onWire, refType, refBody, h0]
    · by_cases h1 : seen = 1
      · simp only [h1, ↓reduceIte] at h
        simp only [show (1 : Nat) ≠ 0 by omega, ↓reduceIte] at h
        injection h with h; injection h with h1' h2; injection h2 with h2 h3; subst h1' h2 h3
        simp [slotOne, slotOf, onWire, refType, refBody, h1]
      · simp [h0, h1] at h
  case keyShare ss =>
    cases hf : fillShares (Grease.boring s.group) ss ks with
    | none => simp [hf] at h
    | some p =>
      obtain ⟨ss', k'⟩ := p
      simp only [hf] at h
      injection h with h; injection h with h1 h2; injection h2 with h2 h3; subst h1 h2 h3
      simp [slotOne, slotOf, onWire, refType, refBody, hf]
  case psk fake om sess ids binders =>
    cases hp : m.psk with
    | none =>
      simp only [hp] at h
      injection h with h; injection h with h1 h2; injection h2 with h2 h3; subst h1 h2 h3
      simp only [slotOne, hp, Option.getD_none, slotOf, onWire, refType, refBody]
      by_cases c : ((fake || sess) && !(ids.isEmpty || binders.isEmpty)) = true
      · simp [c]
      · simp [c]
    | some q =>
      obtain ⟨f', s', ids', b'⟩ := q
      simp only [hp] at h
      injection h with h; injection h with h1 h2; injection h2 with h2 h3; subst h1 h2 h3
      simp only [slotOne, hp, Option.getD_some, slotOf, onWire, refType, refBody]
      by_cases c : ((f' || s') && !(ids'.isEmpty || b'.isEmpty)) = true
      · simp [c]
      · simp [c]

theorem slots_fill (m : Material) (s : Grease.Seeds) : ∀ (xs ys : List Ext) (seen : Nat) (ks : List Bytes),
    fillExts m s xs seen ks = some ys → slots m s xs seen ks = some (ys.map slotOf) := by
  intro xs
  induction xs with
  | nil => intro ys seen ks h; simp [fillExts] at h; subst h; rfl
  | cons e r ih =>
    intro ys seen ks h
    unfold fillExts at h
    cases h1 : fillOne m s seen ks e with
    | none => simp [h1] at h
    | some p =>
      obtain ⟨e', seen', ks'⟩ := p
      simp only [h1] at h
      cases h2 : fillExts m s r seen' ks' with
      | none => simp [h2] at h
      | some ys' =>
        simp only [h2, Option.map_some] at h
        injection h with h; subst h
        unfold slots
        rw [slotOne_fillOne m s seen ks e e' seen' ks' h1]
        simp only
        rw [ih ys' seen' ks' h2]
        rfl

theorem slotsLen_map (ys : List Ext) : slotsLen (ys.map slotOf) = extsLenNoPad ys := by
  induction ys with
  | nil => rfl
  | cons e r ih =>
    simp only [List.map_cons, extsLenNoPad]
    by_cases hp : isPadding e = true
    · cases e <;> simp [isPadding] at hp
      simp [slotOf, slotsLen, isPadding, ih]
    · have hp' : isPadding e = false := by simpa using hp
      have hs : slotOf e = if onWire e then .ext (refType e) (refBody e) else .skip := by
        cases e <;> first | rfl | (simp [isPadding] at hp')
      rw [hs, hp', len_onWire]
      by_cases c : onWire e = true
      · simp [c, slotsLen, ih]
      · simp [c, slotsLen, ih]

/-- resolving the reference slots = what the marshaller's updated list emits. -/
theorem resolve_map (pol : PadPolicy) (l : Nat) : ∀ (ys : List Ext),
    (∀ e ∈ ys.map (updatePad pol l), (emit e).length = len e) →
    resolve pol l (ys.map slotOf) = ((ys.map (updatePad pol l)).filter emits).map fun e => (typeId e, body e) := by
  intro ys
  induction ys with
  | nil => intro _; rfl
  | cons e r ih =>
    intro h
    have hr := ih (fun x hx => h x (by simp only [List.map_cons, List.mem_cons]; exact .inr hx))
    have he := h (updatePad pol l e) (by simp)
    simp only [List.map_cons]
    by_cases hp : isPadding e = true
    · cases e <;> simp [isPadding] at hp
      rename_i n w
      simp only [slotOf, resolve, updatePad, List.filter_cons, emits_padding]
      by_cases c : (pol.apply l (n, w)).2 = true
      · rw [if_pos c, if_pos c, List.map_cons, hr]; rfl
      · rw [if_neg c, if_neg c, hr]
    · have hp' : isPadding e = false := by simpa using hp
      have hu : updatePad pol l e = e := updatePad_notPadding pol l e hp'
      have hs : slotOf e = if onWire e then .ext (refType e) (refBody e) else .skip := by
        cases e <;> first | rfl | (simp [isPadding] at hp')
      rw [hu] at he ⊢
      rw [hs, List.filter_cons, emits_onWire e he]
      by_cases c : onWire e = true
      · rw [if_pos c, if_pos c, List.map_cons, ← hr, refType_eq, refBody_eq]; rfl
      · rw [if_neg c, if_neg c, ← hr]; rfl

/-! ## `ApplyPreset` accepts a well-formed spec -/

theorem boring_lt (s : Nat) : Grease.boring s < 65536 := by
  unfold Grease.boring; exact Nat.mod_lt _ (by omega)

theorem fillShares_ok (grp : Nat) : ∀ (ss : List (Nat × Bytes)) (ks : List Bytes),
    sharesOKb ss = true → sharesNeed ss ≤ ks.length →
    ∃ ss' ks', fillShares grp ss ks = some (ss', ks') ∧ ks'.length + sharesNeed ss = ks.length := by
  intro ss
  induction ss with
  | nil => intro ks _ _; exact ⟨[], ks, rfl, by simp [sharesNeed]⟩
  | cons x r ih =>
    intro ks hok hn
    obtain ⟨g, d⟩ := x
    simp only [sharesOKb, List.all_cons, Bool.and_eq_true] at hok
    obtain ⟨hx, hr⟩ := hok
    have hr' : sharesOKb r = true := hr
    simp only [sharesNeed] at hn ⊢
    unfold fillShares
    by_cases c1 : isGreaseV g = true
    · simp only [c1, Bool.true_or, ↓reduceIte] at hn ⊢
      obtain ⟨ss', ks', h1, h2⟩ := ih ks hr' (by omega)
      exact ⟨(grp, d) :: ss', ks', by simp [h1], by omega⟩
    · have c1' : isGreaseV g = false := by simpa using c1
      by_cases c2 : d.length > 1
      · simp only [c1', c2, decide_true, Bool.or_true, ↓reduceIte, Bool.false_eq_true] at hn ⊢
        obtain ⟨ss', ks', h1, h2⟩ := ih ks hr' (by omega)
        exact ⟨(g, d) :: ss', ks', by simp [h1], by omega⟩
      · simp only [c1', c2, decide_false, Bool.or_self, Bool.false_eq_true, ↓reduceIte] at hn ⊢
        have hg : (hybridGroup g || ecdheGroup g) = true := by
          simp only [c1', c2, decide_false, Bool.false_or] at hx
          exact hx
        rw [if_pos hg]
        cases ks with
        | nil => simp at hn
        | cons key ks0 =>
          simp only [List.length_cons] at hn
          obtain ⟨ss', ks', h1, h2⟩ := ih ks0 hr' (by omega)
          exact ⟨(g, key) :: ss', ks', by simp [h1], by simp; omega⟩

theorem fill_ok (m : Material) (s : Grease.Seeds) : ∀ (xs : List Ext) (seen : Nat) (ks : List Bytes),
    xs.all extSpecOK = true → seen + xs.countP isGreaseExt ≤ 2 → (xs.map keysNeed).sum ≤ ks.length →
    ∃ ys, fillExts m s xs seen ks = some ys ∧ ∀ e ∈ ys, typeId e < 65536 := by
  intro xs
  induction xs with
  | nil => intro seen ks _ _ _; exact ⟨[], rfl, by simp⟩
  | cons e r ih =>
    intro seen ks hall hg hk
    simp only [List.all_cons, Bool.and_eq_true] at hall
    obtain ⟨he, hr⟩ := hall
    simp only [List.map_cons, List.sum_cons] at hk
    -- one step
    have step : ∃ e' seen' ks', fillOne m s seen ks e = some (e', seen', ks') ∧ typeId e' < 65536 ∧
        seen' + r.countP isGreaseExt ≤ 2 ∧ (r.map keysNeed).sum ≤ ks'.length := by
      cases e
      case grease v bd =>
        simp only [List.countP_cons, isGreaseExt, ↓reduceIte] at hg
        by_cases h0 : seen = 0
        · exact ⟨grease (Grease.boring s.ext1) bd, 1, ks, by simp [fillOne, h0], boring_lt _, by omega, by simpa [keysNeed] using hk⟩
        · have h1 : seen = 1 := by omega
          exact ⟨grease (Grease.boring s.ext2) [0], 2, ks, by simp [fillOne, h1], boring_lt _, by omega, by simpa [keysNeed] using hk⟩
      case keyShare ss =>
        simp only [List.countP_cons, isGreaseExt, Bool.false_eq_true, ↓reduceIte, Nat.add_zero] at hg
        simp only [keysNeed] at hk
        obtain ⟨ss', ks', h1, h2⟩ := fillShares_ok (Grease.boring s.group) ss ks he (by omega)
        exact ⟨keyShare ss', seen, ks', by simp [fillOne, h1], by simp [typeId], hg, by omega⟩
      all_goals
        simp only [List.countP_cons, isGreaseExt, Bool.false_eq_true, ↓reduceIte, Nat.add_zero] at hg
        simp only [keysNeed, Nat.zero_add] at hk
        simp only [extSpecOK, decide_eq_true_eq] at he
        simp only [fillOne]
        first
          | exact ⟨_, seen, ks, rfl, he, hg, hk⟩
          | exact ⟨_, seen, ks, rfl, by simp [typeId], hg, hk⟩
          | (split <;> exact ⟨_, seen, ks, rfl, by simp [typeId], hg, hk⟩)
    obtain ⟨e', seen', ks', h1, ht, hg', hk'⟩ := step
    obtain ⟨ys, h2, h3⟩ := ih seen' ks' hr hg' hk'
    refine ⟨e' :: ys, ?_, ?_⟩
    · unfold fillExts; simp [h1, h2]
    · intro x hx
      rcases List.mem_cons.mp hx with rfl | hx
      · exact ht
      · exact h3 x hx
