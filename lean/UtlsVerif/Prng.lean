/-!
# Prng — the seeded PRNG helpers of /repo/u_prng.go over an explicit stream, and a replica of the
`math/rand` (Go 1.24) algorithms they delegate to (`Int63n`, `Int31n`, `int31n`, `Intn`, `Perm`, `Shuffle`).

The SHAKE256 stream is an *input*: `Stream` is the list of big-endian `uint64` words the generator
will hand out next (`Uint64()`); `Int63 = Uint64 & (2^63-1)`. Every function returns the unread rest,
`none` means the finite log supplied by the harness ran out (rejection loops are fuelled by its length).
Go `int`/`int64` arguments are `Int`s; `wrap64` is two's-complement wrap-around.
-/
namespace Prng

abbrev Stream := List Nat

def two63 : Nat := 9223372036854775808
def two31 : Nat := 2147483648
def two32 : Nat := 4294967296

def uint64 : Stream → Option (Nat × Stream)
  | [] => none
  | u :: r => some (u % 18446744073709551616, r)

/-- `prng.Int63`. -/
def int63 (s : Stream) : Option (Nat × Stream) :=
  (uint64 s).map fun (u, r) => (u % two63, r)

/-- `rand.Int31 = int32(Int63() >> 32)`. -/
def int31 (s : Stream) : Option (Nat × Stream) :=
  (int63 s).map fun (v, r) => (v / two32, r)

/-- `rand.Uint32 = uint32(Int63() >> 31)`. -/
def uint32 (s : Stream) : Option (Nat × Stream) :=
  (int63 s).map fun (v, r) => (v / two31, r)

/-- the loop `for v > max { v = draw() }` with an explicit bound on the number of draws. -/
def rejectLoop (draw : Stream → Option (Nat × Stream)) (max : Nat) : Nat → Stream → Option (Nat × Stream)
  | 0, _ => none
  | fuel + 1, s =>
    match draw s with
    | none => none
    | some (v, r) => if v > max then rejectLoop draw max fuel r else some (v, r)

/-- `rand.Int63n(n)` for `n > 0`. -/
def int63n (n : Nat) (s : Stream) : Option (Nat × Stream) :=
  if n &&& (n - 1) = 0 then
    (int63 s).map fun (v, r) => (v &&& (n - 1), r)
  else
    let max := two63 - 1 - two63 % n
    (rejectLoop int63 max (s.length + 1) s).map fun (v, r) => (v % n, r)

/-- `rand.Int31n(n)` for `0 < n ≤ 2^31-1`. -/
def int31n (n : Nat) (s : Stream) : Option (Nat × Stream) :=
  if n &&& (n - 1) = 0 then
    (int31 s).map fun (v, r) => (v &&& (n - 1), r)
  else
    let max := two31 - 1 - two31 % n
    (rejectLoop int31 max (s.length + 1) s).map fun (v, r) => (v % n, r)

/-- Lemire's `rand.int31n(n)` (used by `Shuffle`). -/
def lemireLoop (n thresh : Nat) : Nat → Stream → Option (Nat × Stream)
  | 0, _ => none
  | fuel + 1, s =>
    match uint32 s with
    | none => none
    | some (v, r) =>
      let prod := v * n
      if prod % two32 < thresh then lemireLoop n thresh fuel r else some (prod / two32, r)

def lemire31n (n : Nat) (s : Stream) : Option (Nat × Stream) :=
  match uint32 s with
  | none => none
  | some (v, r) =>
    let prod := v * n
    let low := prod % two32
    if low < n then
      let thresh := (two32 - n) % n
      if low < thresh then lemireLoop n thresh (r.length + 1) r else some (prod / two32, r)
    else some (prod / two32, r)

/-- `rand.Intn(n)` for `n > 0`. -/
def randIntn (n : Nat) (s : Stream) : Option (Nat × Stream) :=
  if n ≤ two31 - 1 then int31n n s else int63n n s

/-- `prng.Intn(n)`: 0 (and no draw) when `n ≤ 0`. -/
def intn (n : Int) (s : Stream) : Option (Nat × Stream) :=
  if n ≤ 0 then some (0, s) else randIntn n.toNat s

/-- `prng.Int63n(n)`: 0 (and no draw) when `n ≤ 0`. -/
def pInt63n (n : Int) (s : Stream) : Option (Nat × Stream) :=
  if n ≤ 0 then some (0, s) else int63n n.toNat s

/-- two's-complement wrap of an `int64` computation. -/
def wrap64 (x : Int) : Int := (x + 9223372036854775808) % 18446744073709551616 - 9223372036854775808

/-- `prng.Range(min, max)`. -/
def range (min max : Int) (s : Stream) : Option (Int × Stream) :=
  let min' := if min < 0 then 0 else min
  if max < min' then some (min', s)
  else (intn (wrap64 (max - min' + 1)) s).map fun (n, r) => ((n : Int) + min', r)

/-- one iteration of `rand.Perm`: `j := Intn(i+1); m[i] = m[j]; m[j] = i` on the prefix `m` of length `i`. -/
def permStep (m : List Nat) (j : Nat) : List Nat :=
  let i := m.length
  if j = i then m ++ [i] else (m.set j i) ++ [m.getD j 0]

def permLoop : Nat → List Nat → Stream → Option (List Nat × Stream)
  | 0, m, s => some (m, s)
  | k + 1, m, s =>
    match randIntn (m.length + 1) s with
    | none => none
    | some (j, r) => permLoop k (permStep m j) r

/-- `prng.Perm(n)`. -/
def perm (n : Nat) (s : Stream) : Option (List Nat × Stream) := permLoop n [] s

/-- swap positions `i` and `j` of a list. -/
def swap {α : Type} (xs : List α) (i j : Nat) : List α :=
  match xs[i]?, xs[j]? with
  | some a, some b => (xs.set i b).set j a
  | _, _ => xs

/-- `rand.Shuffle(n, swap)` for `n ≤ 2^31-1`: `for i := n-1; i > 0; i-- { j := int31n(i+1); swap(i,j) }`. -/
def shuffleLoop {α : Type} : Nat → List α → Stream → Option (List α × Stream)
  | 0, xs, s => some (xs, s)
  | i + 1, xs, s =>
    match lemire31n (i + 2) s with
    | none => none
    | some (j, r) => shuffleLoop i (swap xs (i + 1) j) r

def shuffle {α : Type} (xs : List α) (s : Stream) : Option (List α × Stream) :=
  shuffleLoop (xs.length - 1) xs s

/-- weight classes of `FlipWeightedCoin` that the property speaks about. -/
inductive WClass where
  | leZero | geOne | mid | nan
  deriving DecidableEq, Repr

/-- `FlipWeightedCoin` over an abstract float layer: `frac v` is `float64(v)/float64(MaxInt64)` and
`thr w` is `1.0 - min(w,1)`, both as exact rationals `num/den` scaled to a common denominator `D`. -/
def coinAbs (frac : Nat → Nat) (thr : Int) (v : Nat) : Bool := decide ((frac v : Int) > thr)

/-! ## Concurrent callers

`Uint64` is `Read` (the whole read of 8 bytes under `randomStreamMutex`) followed by a decode of a
buffer **local to the call**. With that shape a call is atomic with respect to the stream, so a
concurrent execution is described by its lock order: `sched` names the goroutine of each successive
call. -/

/-- the (goroutine, word) pairs of a concurrent execution with lock order `sched`. -/
def runSched : List Nat → Stream → List (Nat × Nat)
  | t :: ts, u :: r => (t, u % 18446744073709551616) :: runSched ts r
  | _, _ => []

/-- what goroutine `t` received, in its program order. -/
def drawsOf (t : Nat) (ev : List (Nat × Nat)) : List Nat := (ev.filter (·.1 == t)).map (·.2)

/-! ## Salted seeds

`newSaltedPRNGSeed(seed, salt) = HKDF-SHA3-256(secret = seed, salt, info = none)[0:32]`. The only
place the salt enters is the key of the extract step's HMAC, i.e. the HMAC key block: the salt
zero-padded to the block size of SHA3-256 (136 bytes), or its hash `H salt` (padded) when longer.
Everything after that block is the parameter `F` (HMAC extract + expand); `H` and `F` are not
modelled. -/

def hmacBlock : Nat := 136

def saltKey (H : List UInt8 → List UInt8) (salt : List UInt8) : List UInt8 :=
  let k := if salt.length ≤ hmacBlock then salt else H salt
  k ++ List.replicate (hmacBlock - k.length) 0

def saltedSeed (H : List UInt8 → List UInt8) (F : List UInt8 → List UInt8 → List UInt8)
    (seed salt : List UInt8) : List UInt8 := F seed (saltKey H salt)

/-- a salt without its trailing NUL bytes. -/
def stripZ (s : List UInt8) : List UInt8 := (s.reverse.dropWhile (· == 0)).reverse

end Prng
