import UtlsVerif.BuildSM
import UtlsVerif.PresetLemmas
/-!
# C01 — the ClientHello on the wire is exactly the hello the caller built and inspected

Model `BuildSM`. For every configuration, every sequence of documented edits (and extra
`BuildHandshakeState` calls) applied to a hello built by uTLS, and every server answer:

* `status_stays_built` — no edit and no re-build leaves the `BuildByUtls` status (the preset is never
  applied again, so no edit can be overwritten);
* `wire_is_final_state` — the first ClientHello is `MarshalClientHelloNoECH` of the state as edited, i.e.
  of the state at handshake start — and it is `Hello.Raw` as rebuilt there (`first_wire_is_raw`);
* `edits_visible`, `wire_determines_state` — that ClientHello parses (strict parser) to the final
  random / session id / cipher suites / compression methods and the `(type, body)` of the final extension
  list, so two final states that differ in any of these give different bytes: no edit is invisible;
  `random_edit_visible` … spell this out for the single setters;
* `raw_after_is_last_wire` — after the handshake `Raw` is the last ClientHello sent (the second one after
  a HelloRetryRequest);
* `build_idempotent` — calling `BuildHandshakeState` again changes nothing;
* `golang_raw_empty` — the stated exclusion: for `HelloGolang`, `Raw` is empty before and after.
-/
namespace C01
open Wire Ext Ext.Ext Hello BuildSM

theorem build_status (cfg : Cfg) (st : St) (h : st.status = .byUtls) : (build cfg st).1.status = .byUtls := by
  unfold build
  rw [h]
  simp only
  split <;> simp [h]

theorem step_status (cfg : Cfg) (st : St) (op : Op) (h : st.status = .byUtls) : (step cfg st op).status = .byUtls := by
  cases op <;> simp only [step]
  case setClientRandom r => split <;> simp [h]
  case editExt i e => split <;> simp [h]
  case insertExt i e => split <;> simp [h]
  case build => exact build_status cfg st h
  all_goals exact h

/-- no edit, and no re-build, leaves the built status: the preset is never applied a second time. -/
theorem status_stays_built (cfg : Cfg) (st : St) (ops : List Op) (h : st.status = .byUtls) :
    (run cfg st ops).status = .byUtls := by
  unfold run
  induction ops generalizing st with
  | nil => exact h
  | cons op r ih => exact ih _ (step_status cfg st op h)

/-- what the wire is supposed to be: the marshalling of a state. -/
def wireOf (st : St) : Option Bytes :=
  match marshalSt st with
  | .ok bs => some bs
  | .err _ => none

/-- **the first ClientHello is the marshalling of the final edited state** (= the state at handshake
start), for every edit sequence and server answer; if that marshalling fails nothing is sent. -/
theorem wire_is_final_state (cfg : Cfg) (st : St) (ops : List Op) (resp : Resp) (h : st.status = .byUtls) :
    (handshake cfg (run cfg st ops) resp).wire1 = wireOf (run cfg st ops) := by
  have hs := status_stays_built cfg st ops h
  generalize run cfg st ops = s at hs
  unfold handshake build wireOf
  rw [hs]
  simp only
  cases hm : marshalSt s with
  | err e => simp
  | ok bs =>
    simp only [Bool.not_true, Bool.false_eq_true, ↓reduceIte, hs]
    cases resp with
    | plain => rfl
    | hrr g fr ck idx =>
      simp only
      split
      · rfl
      · split <;> rfl

/-- … and it is `Hello.Raw` as rebuilt at handshake start. -/
theorem first_wire_is_raw (cfg : Cfg) (st : St) (ops : List Op) (resp : Resp) (h : st.status = .byUtls)
    (w : Bytes) (hw : (handshake cfg (run cfg st ops) resp).wire1 = some w) :
    (build cfg (run cfg st ops)).1.raw = w ∧ (build cfg (run cfg st ops)).2 = true := by
  rw [wire_is_final_state cfg st ops resp h] at hw
  have hs := status_stays_built cfg st ops h
  generalize run cfg st ops = s at hs hw
  unfold wireOf at hw
  unfold build
  rw [hs]
  simp only
  cases hm : marshalSt s with
  | err e => rw [hm] at hw; cases hw
  | ok bs => rw [hm] at hw; injection hw with hw; subst hw; simp

/-- **every edit is visible**: the first ClientHello parses, under the strict parser, to the final
state's fields and the `(type, body)` of the final extension list (as far as it emits), in order. -/
theorem edits_visible (cfg : Cfg) (st : St) (ops : List Op) (resp : Resp) (h : st.status = .byUtls) (w : Bytes)
    (hw : (handshake cfg (run cfg st ops) resp).wire1 = some w)
    (hf : fieldsOK (run cfg st ops).f = true) (ht : ∀ e ∈ (run cfg st ops).exts, typeId e < 65536) :
    parseCH w = some { vers := (run cfg st ops).f.vers, random := (run cfg st ops).f.random,
                       sessionId := (run cfg st ops).f.sessionId, suites := (run cfg st ops).f.cipherSuites,
                       comps := (run cfg st ops).f.compressionMethods,
                       exts := expectedExts (run cfg st ops).f (run cfg st ops).pol (run cfg st ops).exts } := by
  rw [wire_is_final_state cfg st ops resp h] at hw
  generalize run cfg st ops = s at hw hf ht
  unfold wireOf marshalSt at hw
  cases hm : marshalNoECH s.f s.pol s.exts with
  | err e => rw [hm] at hw; cases hw
  | ok bs =>
    rw [hm] at hw; injection hw with hw; subst hw
    exact Preset.marshal_parse s.f s.pol s.exts bs hf ht hm

/-- **no edit is invisible**: two edit histories that put the same bytes on the wire ended in states with
the same random, session id, cipher suites, compression methods and emitted extension list. -/
theorem wire_determines_state (cfg₁ cfg₂ : Cfg) (st₁ st₂ : St) (ops₁ ops₂ : List Op) (r₁ r₂ : Resp) (w : Bytes)
    (h₁ : st₁.status = .byUtls) (h₂ : st₂.status = .byUtls)
    (hw₁ : (handshake cfg₁ (run cfg₁ st₁ ops₁) r₁).wire1 = some w)
    (hw₂ : (handshake cfg₂ (run cfg₂ st₂ ops₂) r₂).wire1 = some w)
    (hf₁ : fieldsOK (run cfg₁ st₁ ops₁).f = true) (ht₁ : ∀ e ∈ (run cfg₁ st₁ ops₁).exts, typeId e < 65536)
    (hf₂ : fieldsOK (run cfg₂ st₂ ops₂).f = true) (ht₂ : ∀ e ∈ (run cfg₂ st₂ ops₂).exts, typeId e < 65536) :
    (run cfg₁ st₁ ops₁).f = (run cfg₂ st₂ ops₂).f ∧
    expectedExts (run cfg₁ st₁ ops₁).f (run cfg₁ st₁ ops₁).pol (run cfg₁ st₁ ops₁).exts =
      expectedExts (run cfg₂ st₂ ops₂).f (run cfg₂ st₂ ops₂).pol (run cfg₂ st₂ ops₂).exts := by
  have e₁ := edits_visible cfg₁ st₁ ops₁ r₁ h₁ w hw₁ hf₁ ht₁
  have e₂ := edits_visible cfg₂ st₂ ops₂ r₂ h₂ w hw₂ hf₂ ht₂
  rw [e₁] at e₂
  injection e₂ with e₂
  injection e₂ with a b c d e f
  refine ⟨?_, f⟩
  generalize (run cfg₁ st₁ ops₁).f = x at *
  generalize (run cfg₂ st₂ ops₂).f = y at *
  cases x; cases y; simp_all

/-- the single setters: a `SetClientRandom` that is the last edit of the random is what the wire carries. -/
theorem random_edit_visible (cfg : Cfg) (st : St) (ops : List Op) (r : Bytes) (resp : Resp) (h : st.status = .byUtls)
    (hr : r.length = 32) (w : Bytes)
    (hw : (handshake cfg (run cfg st (ops ++ [.setClientRandom r])) resp).wire1 = some w)
    (hf : fieldsOK (run cfg st (ops ++ [.setClientRandom r])).f = true)
    (ht : ∀ e ∈ (run cfg st (ops ++ [.setClientRandom r])).exts, typeId e < 65536) :
    ∃ p, parseCH w = some p ∧ p.random = r := by
  refine ⟨_, edits_visible cfg st _ resp h w hw hf ht, ?_⟩
  simp [run, List.foldl_append, step, hr]

theorem suites_edit_visible (cfg : Cfg) (st : St) (ops : List Op) (cs : List Nat) (resp : Resp) (h : st.status = .byUtls) (w : Bytes)
    (hw : (handshake cfg (run cfg st (ops ++ [.setCipherSuites cs])) resp).wire1 = some w)
    (hf : fieldsOK (run cfg st (ops ++ [.setCipherSuites cs])).f = true)
    (ht : ∀ e ∈ (run cfg st (ops ++ [.setCipherSuites cs])).exts, typeId e < 65536) :
    ∃ p, parseCH w = some p ∧ p.suites = cs := by
  refine ⟨_, edits_visible cfg st _ resp h w hw hf ht, ?_⟩
  simp [run, List.foldl_append, step]

theorem session_id_edit_visible (cfg : Cfg) (st : St) (ops : List Op) (sid : Bytes) (resp : Resp) (h : st.status = .byUtls) (w : Bytes)
    (hw : (handshake cfg (run cfg st (ops ++ [.setSessionId sid])) resp).wire1 = some w)
    (hf : fieldsOK (run cfg st (ops ++ [.setSessionId sid])).f = true)
    (ht : ∀ e ∈ (run cfg st (ops ++ [.setSessionId sid])).exts, typeId e < 65536) :
    ∃ p, parseCH w = some p ∧ p.sessionId = sid := by
  refine ⟨_, edits_visible cfg st _ resp h w hw hf ht, ?_⟩
  simp [run, List.foldl_append, step]

/-- **after the handshake `Raw` is the last ClientHello sent** — the second one after a
HelloRetryRequest — for every edit history and every answer. -/
theorem raw_after_is_last_wire (cfg : Cfg) (st : St) (ops : List Op) (resp : Resp) (h : st.status = .byUtls) (w : Bytes)
    (hw : (handshake cfg (run cfg st ops) resp).lastWire = some w) :
    (handshake cfg (run cfg st ops) resp).final.raw = w := by
  have hs := status_stays_built cfg st ops h
  generalize run cfg st ops = s at hs hw
  unfold Outcome.lastWire handshake build at hw
  unfold handshake build
  rw [hs] at hw ⊢
  simp only at hw ⊢
  cases hm : marshalSt s with
  | err e => simp [hm] at hw
  | ok bs =>
    simp only [hm, Bool.not_true, Bool.false_eq_true, ↓reduceIte, hs] at hw ⊢
    cases resp with
    | plain => simp only [Option.orElse] at hw; injection hw
    | hrr g fr ck idx =>
      simp only at hw ⊢
      cases hx : hrrExts s.exts g fr ck idx with
      | none => simp only [hx, Option.orElse] at hw ⊢; injection hw
      | some xs' =>
        simp only [hx] at hw ⊢
        cases hm2 : marshalNoECH s.f s.pol xs' with
        | ok w2 => simp only [hm2, Option.orElse] at hw ⊢; injection hw
        | err e => simp only [hm2, Option.orElse] at hw ⊢; injection hw

private theorem build_utls_ok (cfg : Cfg) (st : St) (bs : Bytes) (hst : st.status = .byUtls) (hm : marshalSt st = .ok bs) :
    build cfg st = ({ st with raw := bs }, true) := by
  unfold build; rw [hst]; simp only; rw [hm]

private theorem build_utls_err (cfg : Cfg) (st : St) (e : MErr) (hst : st.status = .byUtls) (hm : marshalSt st = .err e) :
    build cfg st = (st, false) := by
  unfold build; rw [hst]; simp only; rw [hm]

/-- **`BuildHandshakeState` is idempotent**: a second call returns the same result and leaves the same
state — in every status (in particular it never re-applies the preset to a built hello). -/
theorem build_idempotent (cfg : Cfg) (st : St) : build cfg (build cfg st).1 = build cfg st := by
  cases hst : st.status with
  | byGo => simp [build, hst]
  | byUtls =>
    cases hm : marshalSt st with
    | err e => rw [build_utls_err cfg st e hst hm]; exact build_utls_err cfg st e hst hm
    | ok bs =>
      rw [build_utls_ok cfg st bs hst hm]
      exact build_utls_ok cfg { st with raw := bs } bs hst hm
  | notBuilt =>
    by_cases hg : cfg.golang = true
    · simp [build, hst, hg]
    · cases hp : cfg.preset with
      | none => simp [build, hst, hg, hp]
      | some p =>
        have e1 : build cfg st = match marshalNoECH p.f p.pol p.exts with
            | .ok bs => ({ status := .byUtls, f := p.f, pol := p.pol, exts := p.exts, raw := bs }, true)
            | .err _ => ({ st with f := p.f, pol := p.pol, exts := p.exts }, false) := by
          unfold build; rw [hst]; simp only [hg, Bool.false_eq_true, ↓reduceIte, hp]; rfl
        cases hm : marshalNoECH p.f p.pol p.exts with
        | err e =>
          rw [e1, hm]; simp only
          unfold build; simp only [hst, hg, Bool.false_eq_true, ↓reduceIte, hp, marshalSt, hm]
        | ok bs =>
          rw [e1, hm]; simp only
          exact build_utls_ok cfg _ bs rfl hm

/-! ## HelloGolang: the stated exclusion -/

private theorem go_build (cfg : Cfg) (st : St) (hg : cfg.golang = true) (h : st.status ≠ .byUtls) (hr : st.raw = []) :
    (build cfg st).1.status ≠ .byUtls ∧ (build cfg st).1.raw = [] ∧ (build cfg st).2 = true := by
  unfold build
  cases hst : st.status with
  | byGo => simp [hst, hr]
  | byUtls => exact absurd hst h
  | notBuilt => simp [hg, hr]

private theorem go_step (cfg : Cfg) (st : St) (op : Op) (hg : cfg.golang = true) (h : st.status ≠ .byUtls) (hr : st.raw = []) :
    (step cfg st op).status ≠ .byUtls ∧ (step cfg st op).raw = [] := by
  cases op <;> simp only [step]
  case setClientRandom r => split <;> exact ⟨h, hr⟩
  case editExt i e => split <;> exact ⟨h, hr⟩
  case insertExt i e => split <;> exact ⟨h, hr⟩
  case build => exact ⟨(go_build cfg st hg h hr).1, (go_build cfg st hg h hr).2.1⟩
  all_goals exact ⟨h, hr⟩

/-- for `HelloGolang`, `Hello.Raw` is empty after any sequence of builds and edits and stays empty
through the handshake, HelloRetryRequest or not: both sentences of the property exclude it. -/
theorem golang_raw_empty (cfg : Cfg) (st : St) (ops : List Op) (resp : Resp) (hg : cfg.golang = true)
    (h : st.status ≠ .byUtls) (hr : st.raw = []) :
    (run cfg st ops).raw = [] ∧ (handshake cfg (run cfg st ops) resp).final.raw = [] := by
  have inv : (run cfg st ops).status ≠ .byUtls ∧ (run cfg st ops).raw = [] := by
    unfold run
    induction ops generalizing st with
    | nil => exact ⟨h, hr⟩
    | cons op r ih => exact ih _ (go_step cfg st op hg h hr).1 (go_step cfg st op hg h hr).2
  refine ⟨inv.2, ?_⟩
  generalize run cfg st ops = s at inv
  obtain ⟨b1, b2, b3⟩ := go_build cfg s hg inv.1 inv.2
  unfold handshake
  simp only [b3, Bool.not_true, Bool.false_eq_true, ↓reduceIte]
  have hgo : (build cfg s).1.status = .byGo := by
    unfold build
    cases hst : s.status with
    | byGo => simp [hst]
    | byUtls => exact absurd hst inv.1
    | notBuilt => simp [hg]
  rw [hgo]
  exact b2

/-! ## Non-vacuity -/

def exCfg : Cfg := { golang := false, preset := none }

/-- a hello as built by uTLS (status `BuildByUtls`, `Raw` = its marshalling). -/
def exFields : HelloFields :=
  { vers := 0x0303, random := List.replicate 32 7, sessionId := List.replicate 32 9,
    cipherSuites := [0x1301, 0xc02f], compressionMethods := [0] }
def exExts : List Ext :=
  [sni [97, 46, 98], supportedCurves [29, 23], keyShare [(29, List.replicate 32 1)], supportedVersions [0x0304, 0x0303],
   padding 0 false]
def exSt : St :=
  { status := .byUtls, f := exFields, pol := .boring, exts := exExts,
    raw := match marshalNoECH exFields .boring exExts with | .ok b => b | .err _ => [] }

def exOps : List Op :=
  [.setSNI [120, 46, 121, 46], .setClientRandom (List.replicate 32 5), .insertExt 1 (alpn [[104, 50]]), .build,
   .setSessionId [1, 2, 3], .removeExt 2, .setCipherSuites [0x1302], .editExt 0 (sni [122])]

def exResp : Resp := .hrr 23 (List.replicate 65 4) [9, 9, 9] 1

/-- an edit history of eight operations followed by a HelloRetryRequest with a cookie: two hellos are
sent, the first is the marshalling of the edited state and parses to the edited fields (SNI `z`, ALPN
inserted, supported_groups removed), the second carries the cookie at index 1 and the single fresh share,
and `Raw` afterwards is the second one. -/
example :
    let o := handshake exCfg (run exCfg exSt exOps) exResp
    o.wire1 = wireOf (run exCfg exSt exOps) ∧ o.wire1.isSome = true ∧ o.wire2.isSome = true ∧ o.wire1 ≠ o.wire2 ∧
    some o.final.raw = o.wire2 ∧
    (o.wire1.bind parseCH).map (fun p => (p.random, p.sessionId, p.suites, p.extTypes)) =
      some (List.replicate 32 5, [1, 2, 3], [0x1302], [0, 16, 51, 43]) ∧
    (o.wire2.bind parseCH).map (fun p => p.extTypes) = some [0, 44, 16, 51, 43] := by decide +kernel

/-- the hypotheses of `edits_visible` hold on that history. -/
example : exSt.status = .byUtls ∧ fieldsOK (run exCfg exSt exOps).f = true ∧
    (run exCfg exSt exOps).exts.all (fun e => typeId e < 65536) = true := by decide +kernel

/-- `HelloGolang`: built by the standard library, `Raw` empty throughout. -/
example :
    let cfg : Cfg := { golang := true, preset := none, goWire1 := [1, 0, 0, 0] }
    let st0 : St := { status := .notBuilt, f := exFields, pol := .none, exts := [], raw := [] }
    (build cfg st0).1.status = .byGo ∧ (handshake cfg (run cfg st0 [.build, .setClientRandom (List.replicate 32 5)]) .plain).final.raw = [] := by
  decide +kernel

end C01
