import UtlsVerif.HelloMarshalLemmas
/-!
# C02 — every emitted ClientHello is syntactically valid TLS

Model: `Hello.marshalNoECH` (transcription of `(*UConn).MarshalClientHelloNoECH` incl. the repair of
D02) over **arbitrary** hello fields, padding policy and extension list; `Hello.parseCH` /
`Hello.validCH` = independent strict parser and the validity predicate of the property.

* `marshal_valid` — whenever marshalling a spec within limits (`specOK`: every extension's field values
  within their limits, each extension type at most once, pre_shared_key last) succeeds, the bytes parse
  under the strict grammar (every length prefix exact, nothing trailing), satisfy `validCH` (no repeated
  type, pre_shared_key last, every known body under its grammar), carry exactly the hello fields, and
  the extension list is — in order — (type, body) of exactly the extensions whose `Read` emitted.
* `marshal_err_or_valid` — the same as a disjunction: an error or valid bytes, never malformed bytes.
  Before the repair of D02 this was provable only under `extensionsLen < 65536`
  (`marshal_err_or_valid_partial`); the witness (two 40 000-byte extensions) is now
  `overflow_witness_rejected` and a corpus regression case.
* `marshal_overflow_rejected`, `marshal_bad_random_rejected`, `marshal_prefixes_exact` (framing of the
  extension block needs no well-formedness at all beyond 16-bit type ids).
* `hrr_cookie_insert_valid` — the second hello after a HelloRetryRequest (cookie inserted anywhere below
  the end): no type repeats, nothing is lost, valid or error.
* `sni_absent_iff`, `sni_present_body`, `sni_no_trailing_dot` — SNI shapes.
-/
namespace C02
open Wire Ext Ext.Ext Hello

private theorem updated_ok {f : HelloFields} {pol : PadPolicy} {xs : List Ext} (h : xs.all extOKb = true) :
    ∀ e ∈ updated f pol xs, extOKb e = true := by
  intro e he
  obtain ⟨a, ha, rfl⟩ := List.mem_map.mp he
  have hok := List.all_eq_true.mp h a ha
  cases a <;> first | exact hok | rfl

private theorem updated_types (f : HelloFields) (pol : PadPolicy) (xs : List Ext) :
    (updated f pol xs).map typeId = xs.map typeId := by
  simp [updated, List.map_map, Function.comp_def, updatePad_typeId]

/-- a run that succeeded was given a 32-byte random. -/
private theorem random_len {f : HelloFields} {pol : PadPolicy} {xs : List Ext} {bs : Bytes}
    (h : marshalNoECH f pol xs = .ok bs) : f.random.length = 32 := by
  obtain ⟨_, _, _, hbs, hX, hlen⟩ := marshal_ok_inv h
  rw [hbs] at hlen
  simp only [List.length_append, headerBytes_length, hX] at hlen
  unfold helloLen headerLength at hlen
  by_cases hx : xs.isEmpty = true
  · have : xs = [] := by simpa using hx
    subst this
    simp [extensionsLen, extsLenNoPad, firstPadding] at hlen
    omega
  · simp only [hx] at hlen
    simp at hlen
    omega

/-- bodies of emitted extensions fit their 16-bit length (consequence of the overflow check alone). -/
private theorem emitted_bounds {f : HelloFields} {pol : PadPolicy} {xs : List Ext}
    (hpc : paddingCount xs ≤ 1) (hel : extensionsLen f pol xs ≤ 65535) :
    ∀ e ∈ updated f pol xs, emits e = true → (body e).length < 65536 := by
  intro e he hem
  rcases emit_cases e with h0 | ⟨_, hfr, hl, _⟩
  · rw [(emits_iff e)] at hem; exact absurd h0 hem
  · have h1 := len_le_extsLen _ e he
    rw [extsLen_updated' f pol xs hpc] at h1
    have : (emit e).length = 4 + (body e).length := by rw [hfr]; simp; omega
    omega

/-- **Main theorem.** A successful marshal of a spec within limits yields a syntactically valid
ClientHello that carries exactly the fields and the emitted extensions, in order. -/
theorem marshal_valid (f : HelloFields) (pol : PadPolicy) (xs : List Ext) (bs : Bytes)
    (hs : specOK f xs = true) (h : marshalNoECH f pol xs = .ok bs) :
    ∃ p, parseCH bs = some p ∧ validCH p = true ∧
      p.vers = f.vers ∧ p.random = f.random ∧ p.sessionId = f.sessionId ∧ p.suites = f.cipherSuites ∧
      p.comps = f.compressionMethods ∧ p.exts = expectedExts f pol xs := by
  have hr := random_len h
  obtain ⟨hpc, hel, hhl, hbs, hX, hlen⟩ := marshal_ok_inv h
  simp only [specOK, Bool.and_eq_true] at hs
  obtain ⟨⟨⟨hf, hall⟩, hd⟩, hp⟩ := hs
  have hok := updated_ok (f := f) (pol := pol) hall
  rw [List.append_assoc] at hbs
  have hlen' := hlen
  rw [hbs] at hlen'
  have hparse := parseCH_header f (helloLen f pol xs) _ hf hlen' (by omega) hr
  rw [← hbs] at hparse
  by_cases hx : xs.isEmpty = true
  · -- no extensions block at all
    have hxs : xs = [] := by simpa using hx
    subst hxs
    simp only [updated, List.map_nil, List.flatMap_nil, List.isEmpty_nil, ↓reduceIte, List.append_nil] at hparse
    refine ⟨_, hparse, ?_, rfl, rfl, rfl, rfl, rfl, ?_⟩
    · rfl
    · simp [expectedExts]
  · -- extensions block: uint16 length ‖ emitted frames
    have htail : (if xs.isEmpty = true then [] else u16 (extensionsLen f pol xs)) ++ (updated f pol xs).flatMap emit
        = vec16 ((updated f pol xs).flatMap emit) ++ [] := by
      simp [hx, vec16, hX]
    have hne : vec16 ((updated f pol xs).flatMap emit) ++ [] ≠ [] := by simp [vec16, u16]
    rw [htail, if_neg hne, readVec16_vec16 _ _ (by omega)] at hparse
    have hpe := parseExts_emitted (updated f pol xs)
      (fun e he hem => ⟨typeId_lt e (hok e he), emitted_bounds hpc hel e he hem⟩) _ (Nat.le_refl _)
    simp only [ne_eq, not_true_eq_false, ↓reduceIte] at hparse
    unfold parseExts at hparse
    rw [hpe] at hparse
    simp only at hparse
    refine ⟨_, hparse, ?_, rfl, rfl, rfl, rfl, rfl, ?_⟩
    · -- validity
      unfold validCH
      simp only [ParsedCH.extTypes, ParsedCH.extList, Option.getD_some, List.map_map, Bool.and_eq_true]
      have htypes : (List.map ((fun x => x.1) ∘ fun e => (typeId e, body e)) (List.filter emits (updated f pol xs)))
          = ((updated f pol xs).filter emits).map typeId := by
        simp [Function.comp_def]
      rw [htypes]
      refine ⟨⟨?_, ?_⟩, ?_⟩
      · apply distinctB_filter_map; rw [updated_types]; exact hd
      · apply pskLastB_filter_map; rw [updated_types]; exact hp
      · rw [List.all_eq_true]
        intro x hxm
        obtain ⟨e, he, rfl⟩ := List.mem_map.mp hxm
        obtain ⟨hmem, hem⟩ := List.mem_filter.mp he
        rcases emit_cases e with h0 | ⟨_, _, _, hearly⟩
        · rw [(emits_iff e)] at hem; exact absurd h0 hem
        · exact body_ok e (hok e hmem) hearly
    · simp [expectedExts, hx, updated]

/-- **error or valid** — the full statement of the property's last sentence for the marshaller: for any
spec within limits the result is an error or bytes that are a valid ClientHello; malformed bytes are
never returned. (Before the repair of D02 this needed the extra hypothesis `extensionsLen < 65536`.) -/
theorem marshal_err_or_valid (f : HelloFields) (pol : PadPolicy) (xs : List Ext) (hs : specOK f xs = true) :
    (∃ e, marshalNoECH f pol xs = .err e) ∨
    (∃ bs p, marshalNoECH f pol xs = .ok bs ∧ parseCH bs = some p ∧ validCH p = true) := by
  cases h : marshalNoECH f pol xs with
  | err e => exact .inl ⟨e, rfl⟩
  | ok bs =>
    obtain ⟨p, h1, h2, _⟩ := marshal_valid f pol xs bs hs h
    exact .inr ⟨bs, p, rfl, h1, h2⟩

/-- (repair of D02) an extensions block that does not fit its 16-bit length is refused — for every
hello, policy and extension list, well-formed or not. -/
theorem marshal_overflow_rejected (f : HelloFields) (pol : PadPolicy) (xs : List Ext)
    (h : 65535 < extensionsLen f pol xs) : ∀ bs, marshalNoECH f pol xs ≠ .ok bs := by
  intro bs hbs
  have := (marshal_ok_inv hbs).2.1
  omega

/-- the failing input of D02 (two 40 000-byte generic extensions; 80 008 bytes under a length field
that would have read 14 472) is now an error, whatever the bytes, hello and policy. Kept as corpus case
`corpus/C02/d02.case`. -/
theorem overflow_witness_rejected (f : HelloFields) (pol : PadPolicy) (d1 d2 : Bytes)
    (h1 : d1.length = 40000) (h2 : d2.length = 40000) :
    ∀ bs, marshalNoECH f pol [generic 0x7777 d1, generic 0x7778 d2] ≠ .ok bs := by
  apply marshal_overflow_rejected
  simp only [extensionsLen, extsLenNoPad, firstPadding, isPadding, len, h1, h2, Bool.false_eq_true, ↓reduceIte]
  omega

example (f : HelloFields) (pol : PadPolicy) : ∀ bs, marshalNoECH f pol
    [generic 0x7777 (List.replicate 40000 0), generic 0x7778 (List.replicate 40000 0)] ≠ .ok bs :=
  overflow_witness_rejected f pol _ _ List.length_replicate List.length_replicate

/-- the final length check: a random that is not 32 bytes long never yields bytes. -/
theorem marshal_bad_random_rejected (f : HelloFields) (pol : PadPolicy) (xs : List Ext)
    (h : f.random.length ≠ 32) : ∀ bs, marshalNoECH f pol xs ≠ .ok bs := by
  intro bs hbs
  exact h (random_len hbs)

/-- **framing needs no well-formedness**: for *any* extension list whose type ids fit 16 bits, the
bytes after the compression methods of a successful run are `uint16 n ‖ frames` with `n` exact and each
frame `type ‖ uint16 len ‖ body` exact: the strict extension-list parser reads back (type, body) of the
emitted extensions. -/
theorem marshal_prefixes_exact (f : HelloFields) (pol : PadPolicy) (xs : List Ext) (bs : Bytes)
    (ht : ∀ e ∈ xs, typeId e < 65536) (h : marshalNoECH f pol xs = .ok bs) :
    ((updated f pol xs).flatMap emit).length = extensionsLen f pol xs ∧ extensionsLen f pol xs < 65536 ∧
    parseExts ((updated f pol xs).flatMap emit) =
      some (((updated f pol xs).filter emits).map fun e => (typeId e, body e)) := by
  obtain ⟨hpc, hel, _, _, hX, _⟩ := marshal_ok_inv h
  refine ⟨hX, by omega, ?_⟩
  unfold parseExts
  apply parseExts_emitted _ _ _ (Nat.le_refl _)
  intro e he hem
  refine ⟨?_, emitted_bounds hpc hel e he hem⟩
  obtain ⟨a, ha, rfl⟩ := List.mem_map.mp he
  rw [updatePad_typeId]; exact ht a ha

/-! ## The second ClientHello after a HelloRetryRequest -/

/-- **hrr_cookie_insert_valid**: `processHelloRetryRequest` re-marshals `uconn.Extensions` after inserting
the server's cookie at an index below the end. For a spec within limits that has no cookie extension of
its own, a non-empty cookie that fits its length field and *any* such index: the new list is again within
limits (no type repeats, pre_shared_key still last), it is exactly one element longer and erasing the
cookie gives the old list back (no extension is lost) — so by `marshal_valid` the second hello is a valid
ClientHello (or an error), for every hello, policy, list and index. -/
theorem hrr_cookie_insert_valid (f : HelloFields) (pol : PadPolicy) (xs : List Ext) (i : Nat) (c : Bytes)
    (hs : specOK f xs = true) (hno : ∀ x ∈ xs, typeId x ≠ 44) (hi : i < xs.length)
    (hc : c ≠ []) (hl : 2 + c.length < 65536) :
    specOK f (insertAt i (cookie c) xs) = true ∧
    (insertAt i (cookie c) xs).length = xs.length + 1 ∧
    (insertAt i (cookie c) xs).eraseIdx i = xs ∧
    ∀ bs, marshalNoECH f pol (insertAt i (cookie c) xs) = .ok bs →
      ∃ p, parseCH bs = some p ∧ validCH p = true ∧ p.exts = expectedExts f pol (insertAt i (cookie c) xs) := by
  have hok : extOKb (cookie c) = true := by
    cases c with
    | nil => exact absurd rfl hc
    | cons a r => simp only [extOKb, List.isEmpty_cons, Bool.not_false, Bool.true_and, decide_eq_true_eq]; exact hl
  obtain ⟨h1, h2, h3⟩ := specOK_insertAt f xs i (cookie c) hs hok hno (by simp [typeId]) hi
  refine ⟨h1, h2, h3, ?_⟩
  intro bs hbs
  obtain ⟨p, hp1, hp2, _, _, _, _, _, hp8⟩ := marshal_valid f pol _ bs h1 hbs
  exact ⟨p, hp1, hp2, hp8⟩

/-! ## SNI shapes -/

/-- the SNI extension is absent exactly for names that `hostnameInSNI` maps to the empty string … -/
theorem sni_absent_iff (name : Bytes) : emit (sni name) = [] ↔ Sni.hostnameInSNI name = [] := by
  unfold emit Ext.read
  by_cases h0 : Sni.hostnameInSNI name = []
  · simp [early, h0]
  · have hl : (Sni.hostnameInSNI name).length ≠ 0 := by
      intro h; exact h0 (List.length_eq_zero_iff.mp h)
    simp [early, late, hl, h0, u16]

private theorem dropWhile_nil_iff {α : Type} (p : α → Bool) : ∀ l : List α,
    l.dropWhile p = [] ↔ ∀ x ∈ l, p x = true := by
  intro l
  induction l with
  | nil => simp
  | cons a r ih =>
    by_cases h : p a = true
    · simp [h, ih]
    · simp [h]

/-- … i.e. for the empty name, IP literals (v4, v6, bracketed, zoned) and names consisting of dots only. -/
theorem sni_empty_iff (name : Bytes) :
    Sni.hostnameInSNI name = [] ↔ (Sni.isIP (Sni.hostPart name) = true ∨ name.all (· == 46) = true) := by
  unfold Sni.hostnameInSNI
  by_cases hip : Sni.isIP (Sni.hostPart name) = true
  · simp [hip]
  · simp only [hip, Bool.false_eq_true, ↓reduceIte, false_or]
    unfold Sni.stripTrailingDots
    rw [List.reverse_eq_nil_iff, dropWhile_nil_iff]
    simp [List.all_eq_true]

/-- otherwise it carries exactly one host_name entry: the name with trailing dots stripped. -/
theorem sni_present_body (name : Bytes) (h : Sni.hostnameInSNI name ≠ []) :
    emit (sni name) = u16 0 ++ vec16 (vec16 ([0] ++ vec16 (Sni.hostnameInSNI name))) ∧
    (Sni.isIP (Sni.hostPart name) = false → Sni.hostnameInSNI name = Sni.stripTrailingDots name) := by
  constructor
  · rcases emit_cases (sni name) with h0 | ⟨_, hfr, _, _⟩
    · exact absurd ((sni_absent_iff name).mp h0) h
    · rw [hfr]
      have hb : body (sni name) = vec16 ([0] ++ vec16 (Sni.hostnameInSNI name)) := by
        have hl : ([0] ++ (u16 (Sni.hostnameInSNI name).length ++ Sni.hostnameInSNI name) : Bytes).length
            = (Sni.hostnameInSNI name).length + 3 := by simp; omega
        simp only [body, vec16, hl, List.append_assoc]
      rw [hb]; rfl
  · intro hip
    unfold Sni.hostnameInSNI
    simp [hip]

/-- the host name on the wire never ends in a dot. -/
theorem sni_no_trailing_dot (name : Bytes) : (Sni.hostnameInSNI name).getLast? ≠ some 46 := host_last name

/-! ## Non-vacuity -/

/-- a concrete spec within limits (SNI with a trailing dot, GREASE, supported_groups, ALPN, key share,
padding, fake PSK last) marshals successfully, and the theorem's conclusion is checked on it directly. -/
def exFields : HelloFields :=
  { vers := 0x0303, random := List.replicate 32 7, sessionId := List.replicate 32 9,
    cipherSuites := [0x1301, 0xc02f], compressionMethods := [0] }

def exExts : List Ext :=
  [grease 0x0a0a [], sni [97, 46, 98, 46], supportedCurves [0x0a0a, 29, 23], alpn [[104, 50]],
   keyShare [(29, List.replicate 32 1)], supportedVersions [0x0304, 0x0303], padding 0 false,
   psk true false false [([1, 2, 3], 5)] [List.replicate 32 0]]

example : specOK exFields exExts = true := by decide +kernel
def exRaw : Bytes :=
  match marshalNoECH exFields .boring exExts with
  | .ok bs => bs
  | .err _ => []

example : marshalNoECH exFields .boring exExts = .ok exRaw ∧ exRaw.length = 219 := by decide +kernel
example : ∃ p, parseCH exRaw = some p ∧ validCH p = true ∧ p.extTypes = [0x0a0a, 0, 10, 16, 51, 43, 41] := by
  obtain ⟨p, h1, h2, _, _, _, _, _, h8⟩ := marshal_valid exFields .boring exExts exRaw (by decide +kernel) (by decide +kernel)
  refine ⟨p, h1, h2, ?_⟩
  simp only [ParsedCH.extTypes, ParsedCH.extList, h8]
  decide +kernel
/-- IP literal, empty and all-dots names emit no SNI; a trailing dot is stripped. -/
example : emit (sni [49, 46, 50, 46, 51, 46, 52]) = [] ∧ emit (sni []) = [] ∧ emit (sni [46, 46]) = [] ∧
    emit (sni [97, 46]) = [0, 0, 0, 6, 0, 4, 0, 0, 1, 97] := by decide +kernel
/-- the example spec with a 32-byte cookie inserted at index 3 (as after a HelloRetryRequest) is within
limits again and marshals to a valid hello carrying the cookie once (now long enough to be padded). -/
def exRaw2 : Bytes :=
  match marshalNoECH exFields .boring (insertAt 3 (cookie (List.replicate 32 5)) exExts) with
  | .ok bs => bs
  | .err _ => []

example : specOK exFields (insertAt 3 (cookie (List.replicate 32 5)) exExts) = true ∧
    marshalNoECH exFields .boring (insertAt 3 (cookie (List.replicate 32 5)) exExts) = .ok exRaw2 ∧
    ((parseCH exRaw2).map fun p => p.extTypes) = some [0x0a0a, 0, 10, 44, 16, 51, 43, 21, 41] := by
  decide +kernel
/-- a 31-byte random is refused by the final length check. -/
example : marshalNoECH { exFields with random := List.replicate 31 7 } .boring exExts = .err .length := by decide +kernel
/-- the marshaller does return errors: a second padding extension. -/
example : marshalNoECH exFields .boring (padding 0 false :: exExts) = .err .multiplePadding := by decide +kernel

end C02
