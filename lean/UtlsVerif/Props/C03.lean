import UtlsVerif.PresetLemmas
import UtlsVerif.Gen.Parrots
/-!
# C03 — predefined parrots send exactly the ClientHello their spec describes

Model: `Preset.applyPreset` (transcription of `ApplyPreset`/`SetTLSVers`) followed by
`Hello.marshalNoECH` (transcription of `MarshalClientHelloNoECH`, C02), against the independent
reference `Preset.render` (presentation-language encoding of "the spec with this connection's material
filled in"), read back by the strict parser `Hello.parseCH`.

* `preset_applies` — `ApplyPreset` accepts every well-formed spec (`specWF`, decidable,
  material-independent) for every fitting material (`matOK`).
* `preset_wire` — whatever bytes the marshaller then returns parse to **exactly** `render spec m`:
  legacy_version `min(max, 1.2)`, cipher suites with the connection's GREASE value substituted,
  compression methods, and the extension sequence `(type, body)` in spec order with the per-connection
  material in the places the property lists — nothing dropped, reordered or re-encoded.
* `shuffle_perm`, `shuffle_fixed`, `shuffle_fixed_iff`, `shuffle_wf` — `ShuffleChromeTLSExtensions`, for
  every sequence of `rand.Shuffle` callbacks: a permutation that leaves every GREASE / padding /
  pre_shared_key extension at its index (and only those kinds at those indices); a shuffled well-formed
  spec is well-formed, so `preset_wire` applies to it.
* `parrot_rows_wf` (below, over the regenerated table) — every predefined id's spec is `specWF`.
-/
namespace C03
open Wire Ext Ext.Ext Hello Preset

/-- `ApplyPreset` accepts a well-formed spec and leaves a state within the marshaller's limits. -/
theorem preset_applies (spec : Spec) (m : Material) (hw : specWF spec = true) (hm : matOK spec m = true) :
    ∃ st, applyPreset spec m = some st ∧ fieldsOK st.f = true ∧ ∀ e ∈ st.exts, typeId e < 65536 := by
  simp only [specWF, Bool.and_eq_true, decide_eq_true_eq] at hw
  obtain ⟨⟨⟨⟨⟨hv, hsl⟩, hsa⟩, hcl⟩, hex⟩, hg⟩ := hw
  simp only [matOK, Bool.and_eq_true, decide_eq_true_eq] at hm
  obtain ⟨hsid, hk⟩ := hm
  obtain ⟨ys, hy, hty⟩ := fill_ok m (Grease.dedup m.seeds) spec.exts 0 m.keys hex (by omega) hk
  cases hvr : versRange spec with
  | none => rw [hvr] at hv; cases hv
  | some r =>
    obtain ⟨mn, mx⟩ := r
    refine ⟨{ f := { vers := if mx > 0x0303 then 0x0303 else mx, random := m.random, sessionId := m.sessionId,
                     cipherSuites := substG (Grease.boring (Grease.dedup m.seeds).cipher) spec.suites,
                     compressionMethods := if spec.comp.isEmpty then [0] else spec.comp },
              pol := spec.pol, exts := ys }, by simp only [applyPreset, hvr, hy], ?_, hty⟩
    -- the range is within TLS 1.0 … 1.3
    have hmx : mx ≤ 0x0304 := by
      unfold versRange at hvr
      simp only at hvr
      split at hvr
      · cases hvr
      · split at hvr
        · cases hvr
        · split at hvr
          · cases hvr
          · split at hvr
            · cases hvr
            · injection hvr with hvr; injection hvr with h1 h2; omega
    simp only [fieldsOK, Bool.and_eq_true, decide_eq_true_eq, substG, List.length_map, List.all_map]
    refine ⟨⟨⟨⟨?_, hsid⟩, hsl⟩, ?_⟩, ?_⟩
    · split <;> omega
    · rw [List.all_eq_true] at hsa ⊢
      intro x hx
      have := hsa x hx
      simp only [Function.comp, decide_eq_true_eq] at this ⊢
      split
      · exact boring_lt _
      · exact this
    · split
      · simp
      · exact hcl

/-- **Main theorem.** For a well-formed spec and this connection's material, the bytes
`MarshalClientHelloNoECH` produces after `ApplyPreset` parse — under the strict parser — to exactly the
reference rendering of the spec: version, cipher suites, compression methods, and the extension
sequence with its bodies, differing from the spec only in the per-connection material. -/
theorem preset_wire (spec : Spec) (m : Material) (st : State) (bs : Bytes)
    (hw : specWF spec = true) (hm : matOK spec m = true)
    (ha : applyPreset spec m = some st) (hb : marshalNoECH st.f st.pol st.exts = .ok bs) :
    render spec m = parseCH bs := by
  obtain ⟨st', ha', hf, hty⟩ := preset_applies spec m hw hm
  rw [ha] at ha'; injection ha' with ha'; subst ha'
  rw [marshal_parse st.f st.pol st.exts bs hf hty hb]
  -- unfold both sides to the same version range and filled list
  unfold applyPreset at ha
  unfold render
  cases hvr : versRange spec with
  | none => rw [hvr] at ha; cases ha
  | some r =>
    obtain ⟨mn, mx⟩ := r
    simp only [hvr] at ha ⊢
    cases hfe : fillExts m (Grease.dedup m.seeds) spec.exts 0 m.keys with
    | none => rw [hfe] at ha; cases ha
    | some ys =>
      simp only [hfe] at ha
      injection ha with ha; subst ha
      rw [slots_fill m _ spec.exts ys 0 m.keys hfe]
      simp only
      have hemp : spec.exts.isEmpty = ys.isEmpty := by
        cases hs : spec.exts with
        | nil => rw [hs] at hfe; simp [fillExts] at hfe; subst hfe; rfl
        | cons e r =>
          rw [hs] at hfe
          unfold fillExts at hfe
          cases h1 : fillOne m (Grease.dedup m.seeds) 0 m.keys e with
          | none => simp [h1] at hfe
          | some p =>
            obtain ⟨e', a, c⟩ := p
            simp only [h1] at hfe
            cases h2 : fillExts m (Grease.dedup m.seeds) r a c with
            | none => simp [h2] at hfe
            | some ys' => simp [h2] at hfe; subst hfe; rfl
      have hL : 4 + (2 + 32 + (1 + m.sessionId.length) + (2 + 2 * (substG (Grease.boring (Grease.dedup m.seeds).cipher) spec.suites).length) +
            (1 + (if spec.comp.isEmpty = true then [0] else spec.comp : Bytes).length)) + 2 + slotsLen (ys.map slotOf)
          = unpaddedLen { vers := if mx > 0x0303 then 0x0303 else mx, random := m.random, sessionId := m.sessionId,
                          cipherSuites := substG (Grease.boring (Grease.dedup m.seeds).cipher) spec.suites,
                          compressionMethods := if spec.comp.isEmpty = true then [0] else spec.comp } ys := by
        rw [slotsLen_map]; unfold unpaddedLen headerLength; simp only; omega
      rw [hL]
      congr 2
      unfold expectedExts
      rw [hemp]
      by_cases hy : ys.isEmpty = true
      · simp [hy]
      · simp only [hy]
        exact congrArg some (resolve_map _ _ ys (marshal_each hb))

/-- **the legacy version is a function of the spec alone.** `applyPreset`/`render` take the spec and the
connection's material; the material has no version component — in particular `Config.MinVersion` /
`Config.MaxVersion` as the caller set them are *not* an input (`SetTLSVers` replaces them by the spec's
range before `makeClientHelloForApplyPreset` computes `hello.vers`). The tie pins them to every
combination of TLS 1.0 … 1.3 (also below the spec's range, also inverted) and must still see this value. -/
theorem legacy_version_from_spec (spec : Spec) (m : Material) (p : ParsedCH) (h : render spec m = some p) :
    ∃ mn mx, versRange spec = some (mn, mx) ∧ p.vers = (if mx > 0x0303 then 0x0303 else mx) ∧
      0x0301 ≤ p.vers ∧ p.vers ≤ 0x0303 := by
  unfold render at h
  cases hvr : versRange spec with
  | none => simp [hvr] at h
  | some r =>
    obtain ⟨mn, mx⟩ := r
    simp only [hvr] at h
    cases hs : slots m (Grease.dedup m.seeds) spec.exts 0 m.keys with
    | none => simp [hs] at h
    | some sl =>
      simp only [hs, Option.some.injEq] at h
      subst h
      refine ⟨mn, mx, rfl, rfl, ?_⟩
      have hb : 0x0301 ≤ mx ∧ mx ≤ 0x0304 := by
        unfold versRange at hvr
        simp only at hvr
        split at hvr
        · cases hvr
        · split at hvr
          · cases hvr
          · split at hvr
            · cases hvr
            · split at hvr
              · cases hvr
              · injection hvr with hvr; injection hvr with h1 h2; omega
      simp only
      split <;> omega

/-! ## `ShuffleChromeTLSExtensions` -/

section shuffle
variable {α : Type}

private theorem step_length (fixed : α → Bool) (xs : List α) (ij : Nat × Nat) :
    (shuffleStep fixed xs ij).length = xs.length := by
  unfold shuffleStep; split <;> (try split) <;> simp

private theorem step_perm [DecidableEq α] (fixed : α → Bool) (xs : List α) (ij : Nat × Nat) : (shuffleStep fixed xs ij).Perm xs := by
  unfold shuffleStep
  split
  · rename_i a c ha hc
    split
    · exact List.Perm.refl _
    · obtain ⟨hi, rfl⟩ := List.getElem?_eq_some_iff.mp ha
      obtain ⟨hj, rfl⟩ := List.getElem?_eq_some_iff.mp hc
      rw [List.perm_iff_count]
      intro c
      by_cases hij : ij.1 = ij.2
      · simp [hij]
      · have hj' : ij.2 < (xs.set ij.1 xs[ij.2]).length := by simpa using hj
        rw [List.count_set hj', List.count_set hi]
        simp only [List.getElem_set_ne hij]
        have h1 : 0 < List.count xs[ij.1] xs := List.count_pos_iff.mpr (List.getElem_mem hi)
        have h2 : 0 < List.count xs[ij.2] xs := List.count_pos_iff.mpr (List.getElem_mem hj)
        by_cases e1 : xs[ij.1] = c <;> by_cases e2 : xs[ij.2] = c <;> simp [e1, e2, beq_iff_eq] <;> (try subst e1) <;> (try subst e2) <;> omega
  · exact List.Perm.refl _

private theorem step_fixed (fixed : α → Bool) (xs : List α) (ij : Nat × Nat) (i : Nat) (a : α)
    (h : xs[i]? = some a) (hf : fixed a = true) : (shuffleStep fixed xs ij)[i]? = some a := by
  unfold shuffleStep
  split
  · rename_i x y hx hy
    split
    · exact h
    · rename_i hnf
      simp only [Bool.or_eq_true, not_or, Bool.not_eq_true] at hnf
      have hi1 : ij.1 ≠ i := by
        intro e; subst e; rw [hx] at h; cases h; simp [hf] at hnf
      have hi2 : ij.2 ≠ i := by
        intro e; subst e; rw [hy] at h; cases h; simp [hf] at hnf
      simp [List.getElem?_set, hi1, hi2, h]
  · exact h

/-- a step never puts a non-fixed element where a fixed one was, nor the reverse: the *kind* at every
index is invariant. -/
private theorem step_kind (fixed : α → Bool) (xs : List α) (ij : Nat × Nat) (i : Nat) :
    ((shuffleStep fixed xs ij)[i]?).map fixed = (xs[i]?).map fixed := by
  unfold shuffleStep
  split
  · rename_i x y hx hy
    split
    · rfl
    · rename_i hnf
      simp only [Bool.or_eq_true, not_or, Bool.not_eq_true] at hnf
      obtain ⟨hi, hxe⟩ := List.getElem?_eq_some_iff.mp hx
      obtain ⟨hj, hye⟩ := List.getElem?_eq_some_iff.mp hy
      by_cases h2 : ij.2 = i
      · subst h2
        simp [List.getElem?_set, hj, hye, hxe, hnf.1, hnf.2]
      · by_cases h1 : ij.1 = i
        · subst h1
          simp [List.getElem?_set, h2, hi, hye, hxe, hnf.1, hnf.2]
        · simp [List.getElem?_set, h1, h2]
  · rfl

/-- the shuffle is a permutation, for every sequence of `rand.Shuffle` callbacks. -/
theorem shuffle_perm [DecidableEq α] (fixed : α → Bool) (swaps : List (Nat × Nat)) (xs : List α) :
    (shuffleWith fixed swaps xs).Perm xs := by
  unfold shuffleWith
  induction swaps generalizing xs with
  | nil => exact List.Perm.refl _
  | cons s ss ih => exact (ih _).trans (step_perm fixed xs s)

/-- a positionally invariant extension (GREASE, padding, pre_shared_key) stays at its index. -/
theorem shuffle_fixed (fixed : α → Bool) (swaps : List (Nat × Nat)) (xs : List α) (i : Nat) (a : α)
    (h : xs[i]? = some a) (hf : fixed a = true) : (shuffleWith fixed swaps xs)[i]? = some a := by
  unfold shuffleWith
  induction swaps generalizing xs with
  | nil => exact h
  | cons s ss ih => exact ih _ (step_fixed fixed xs s i a h hf)

/-- and only those: at every index the result holds a fixed-kind extension iff the spec did. -/
theorem shuffle_fixed_iff (fixed : α → Bool) (swaps : List (Nat × Nat)) (xs : List α) (i : Nat) :
    ((shuffleWith fixed swaps xs)[i]?).map fixed = (xs[i]?).map fixed := by
  unfold shuffleWith
  induction swaps generalizing xs with
  | nil => rfl
  | cons s ss ih => exact (ih _).trans (step_kind fixed xs s i)

end shuffle

/-! ### a shuffled well-formed spec is well-formed -/

def svOf : Ext → Option (List Nat)
  | supportedVersions vs => some vs
  | _ => none

private def scanSV : List (List Nat) → Nat → Nat × Nat → Option (Nat × (Nat × Nat))
  | [], n, r => some (n, r)
  | vs :: rest, n, _ =>
    let r := versMinMax vs (0, 0)
    if r.1 = 0 ∧ r.2 = 0 then none else scanSV rest (n + 1) r

private theorem scan_eq : ∀ (xs : List Ext) (n : Nat) (r : Nat × Nat),
    scanVersions xs n r = scanSV (xs.filterMap svOf) n r := by
  intro xs
  induction xs with
  | nil => intro n r; rfl
  | cons e rest ih =>
    intro n r
    cases e <;> simp only [scanVersions, List.filterMap_cons, svOf, scanSV, ih]

private theorem perm_short {β : Type} {l₁ l₂ : List β} (h : l₁.Perm l₂) (hl : l₁.length ≤ 1) : l₂ = l₁ := by
  match l₁, hl with
  | [], _ => exact (List.perm_nil.mp h.symm)
  | [a], _ => exact (List.perm_singleton.mp h.symm)

/-- `specWF` / `matOK` only look at the extension list through order-insensitive facts — except the
`SetTLSVers` scan, which is order-insensitive when there is at most one supported_versions extension
(more than one is an error anyway). So `preset_wire` applies to every shuffled parrot. -/
theorem shuffle_wf (spec : Spec) (m : Material) (swaps : List (Nat × Nat))
    (hsv : (spec.exts.filterMap svOf).length ≤ 1) :
    specWF { spec with exts := shuffleWith fixedKind swaps spec.exts } = specWF spec ∧
    matOK { spec with exts := shuffleWith fixedKind swaps spec.exts } m = matOK spec m := by
  have hp : (shuffleWith fixedKind swaps spec.exts).Perm spec.exts := shuffle_perm fixedKind swaps spec.exts
  have hvr : versRange { spec with exts := shuffleWith fixedKind swaps spec.exts } = versRange spec := by
    unfold versRange
    simp only [scan_eq]
    rw [perm_short (hp.symm.filterMap svOf) hsv]
  constructor
  · unfold specWF
    simp only [hvr, hp.countP_eq, hp.all_eq]
  · unfold matOK
    simp only [(hp.map keysNeed).sum_nat]

/-! ## the regenerated parrot table -/

/-- what every row of `Gen.Parrots` (= `UTLSIdToSpec(id)` of the working tree) must satisfy for the
theorems above to apply to it: `specWF`; at most one supported_versions extension (so shuffling keeps it
well-formed); compression methods `[0]`; the canonical order recovered from two shuffle seeds agrees;
GREASE-ECH candidates present exactly when the spec has the extension. -/
def rowOK (r : Gen.Parrots.Row) : Bool :=
  specWF r.spec && decide ((r.spec.exts.filterMap svOf).length ≤ 1) && r.spec.comp == [0] && r.canon2 &&
  (r.spec.exts.any (fun e => typeId e == 65037) == !r.echSuites.isEmpty) &&
  (r.spec.exts.any (fun e => typeId e == 65037) == !r.echLens.isEmpty)

/-- every predefined ClientHelloID's spec is well-formed (re-checked by the kernel on every run over the
table regenerated from the working tree). -/
theorem parrot_rows_wf : Gen.Parrots.rows.all rowOK = true := by decide +kernel

/-- the table is not empty and contains shuffled and unshuffled ids. -/
theorem parrot_rows_cover : Gen.Parrots.rows.length ≥ 38 ∧ Gen.Parrots.rows.any (·.shuffle) = true ∧
    Gen.Parrots.rows.any (fun r => !r.shuffle) = true := by decide +kernel

/-! ## Non-vacuity -/

/-- material of one connection (values as a deterministic `Config.Rand` would serve them). -/
def exMat : Material :=
  { random := List.replicate 32 7, sessionId := List.replicate 32 9,
    seeds := ⟨0x1234, 0x5678, 0x9abc, 0x9ab0, 0xdef0⟩, serverName := [97, 46, 98],
    keys := [List.replicate 32 1, List.replicate 32 2], omitEmptyPsk := true,
    echKdf := 1, echAead := 1, echCid := 77, echEnc := List.replicate 32 3, echPayload := List.replicate 144 4 }

/-- Chrome 106 (shuffled id, canonical order) and a shuffled instance of it. -/
def exSpec : Spec := Gen.Parrots.row_Chrome_106.spec
def exSwaps : List (Nat × Nat) := [(17, 3), (16, 2), (15, 4), (14, 14), (13, 1), (12, 5), (11, 0), (10, 2), (9, 9), (8, 1)]
def exShuffled : Spec := { exSpec with exts := shuffleWith fixedKind exSwaps exSpec.exts }

example : specWF exSpec = true ∧ matOK exSpec exMat = true ∧ specWF exShuffled = true := by decide +kernel

/-- the hypotheses of `preset_wire` are met by a real (shuffled) row, the marshaller returns bytes, and
the conclusion holds on them — re-checked here by evaluation. (The ext1/ext2 seeds of `exMat` collide, so
the de-duplication branch is taken.) -/
def exCheck : Bool :=
  match applyPreset exShuffled exMat with
  | none => false
  | some st =>
    match marshalNoECH st.f st.pol st.exts with
    | .err _ => false
    | .ok bs =>
      bs.length == 512 && decide (render exShuffled exMat = parseCH bs) && (parseCH bs).isSome &&
      ((parseCH bs).map fun p => p.extTypes.take 3) == some [0xbaba, 5, 18]

example : exCheck = true := by decide +kernel

/-- the shuffle moved something, kept the multiset, and left GREASE (0, 16) and padding (17) in place. -/
example : exShuffled.exts ≠ exSpec.exts ∧ exShuffled.exts[0]? = exSpec.exts[0]? ∧
    exShuffled.exts[16]? = exSpec.exts[16]? ∧ exShuffled.exts[17]? = exSpec.exts[17]? := by decide +kernel

end C03
