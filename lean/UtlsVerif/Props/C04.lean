import UtlsVerif.Grease
import UtlsVerif.GreaseReapply
/-!
# C04 — GREASE values are well-formed, distinct where required, and fresh (a function of this
connection's random bytes)
-/
namespace C04
open Grease

private theorem and_f0_mod (s : Nat) : s &&& 0xf0 = (s % 256) &&& 0xf0 := by
  have h : (0xf0 : Nat) = 0xff &&& 0xf0 := by decide
  rw [h, ← Nat.and_assoc]
  congr 1
  exact Nat.and_two_pow_sub_one_eq_mod s 8

/-- `boring` depends on the low byte of the seed only. -/
private theorem boring_low (s : Nat) : boring s = boring (s % 256) := by
  unfold boring
  rw [and_f0_mod s, and_f0_mod (s % 256), Nat.mod_mod]

private theorem all_bytes (p : Nat → Bool) (h : (List.range 256).all p = true) (s : Nat) : p (s % 256) = true := by
  rw [List.all_eq_true] at h
  exact h _ (List.mem_range.mpr (Nat.mod_lt _ (by decide)))

/-- every value `GetBoringGREASEValue` returns is in the reserved `0x?A?A` space. -/
theorem boring_is_grease (s : Nat) : isGrease (boring s) = true := by
  rw [boring_low]
  exact all_bytes (fun b => isGrease (boring b)) (by decide +kernel) s

private theorem xor_low (s : Nat) : (s ^^^ 0x1010) % 256 = (s % 256) ^^^ 0x10 := by
  have := Nat.xor_mod_two_pow (a := s) (b := 0x1010) (n := 8)
  simpa using this

private theorem all_bytes2 (p : Nat → Nat → Bool)
    (h : (List.range 256).all (fun a => (List.range 256).all (p a)) = true) (s t : Nat) :
    p (s % 256) (t % 256) = true := by
  rw [List.all_eq_true] at h
  have h1 := h _ (List.mem_range.mpr (Nat.mod_lt s (by decide)))
  rw [List.all_eq_true] at h1
  exact h1 _ (List.mem_range.mpr (Nat.mod_lt t (by decide)))

/-- after the de-duplication step the two GREASE extensions never carry the same code point. -/
theorem ext_grease_distinct (s : Seeds) :
    extValue (dedup s) 0 ≠ extValue (dedup s) 1 := by
  have key : ∀ a c : Nat, boring a = boring c → boring a ≠ boring (c ^^^ 0x1010) := by
    intro a c h
    rw [boring_low a, boring_low c] at h
    rw [boring_low a, boring_low (c ^^^ 0x1010), xor_low]
    have := all_bytes2 (fun x y => !(boring x == boring y) || !(boring x == boring (y ^^^ 0x10)))
      (by decide +kernel) a c
    simp only [Bool.or_eq_true, Bool.not_eq_true', beq_eq_false_iff_ne, ne_eq] at this
    rcases this with h' | h'
    · exact absurd h h'
    · exact h'
  unfold extValue dedup
  by_cases heq : boring s.ext1 = boring s.ext2
  · simp [heq]
    have := key _ _ heq
    rw [heq] at this
    exact this
  · simp [heq]

/-- the GREASE group placed in key_share equals the GREASE group placed in supported_groups,
and nothing else in either list is touched. -/
theorem group_grease_consistent (seed : Nat) (groups shares : List Nat) :
    (∀ g ∈ subst seed groups, isGrease g = true → g = boring seed) ∧
    (∀ g ∈ subst seed shares, isGrease g = true → g = boring seed) ∧
    (subst seed groups).length = groups.length ∧
    (∀ i, (h : i < groups.length) → isGrease groups[i] = false → (subst seed groups)[i]? = some groups[i]) := by
  refine ⟨?_, ?_, by simp [subst], ?_⟩
  · intro g hg hgr
    simp only [subst, List.mem_map] at hg
    obtain ⟨x, _, rfl⟩ := hg
    split at hgr <;> simp_all
  · intro g hg hgr
    simp only [subst, List.mem_map] at hg
    obtain ⟨x, _, rfl⟩ := hg
    split at hgr <;> simp_all
  · intro i h hng
    simp [subst, h, hng]

/-! ### Re-application of one spec object (two-step build, a spec shared by several connections,
literal GREASE values in a custom spec) -/

/-- **the substitution is consistent under re-application**: applied to a list that an earlier
application (seed `s`) already rewrote, it yields the *new* seed's values — exactly what a fresh list
would give. The earlier connection's concrete GREASE value is recognised and replaced, not kept. -/
theorem resubst_consistent (s t : Nat) (xs : List Nat) : subst t (subst s xs) = subst t xs := by
  simp only [subst, List.map_map]
  apply List.map_congr_left
  intro x _
  by_cases h : isGrease x = true
  · simp [h, boring_is_grease s]
  · simp [h]

/-- the substitution is idempotent. -/
theorem subst_idem (s : Nat) (xs : List Nat) : subst s (subst s xs) = subst s xs :=
  resubst_consistent s s xs

/-- a literal GREASE value in a (custom) spec is treated like the placeholder: the result depends on the
*shape* of the spec's list only. -/
theorem subst_literal (s : Nat) (xs ys : List Nat) (h : xs.map toPlaceholder = ys.map toPlaceholder) :
    subst s xs = subst s ys := by
  have key : ∀ zs : List Nat, subst s (zs.map toPlaceholder) = subst s zs := by
    intro zs
    simp only [subst, List.map_map]
    apply List.map_congr_left
    intro x _
    by_cases hx : isGrease x = true
    · have : isGrease 2570 = true := by decide
      simp [toPlaceholder, hx, this]
    · simp [toPlaceholder, hx]
  rw [← key xs, ← key ys, h]

/-- two spec objects are indistinguishable for every later application. -/
private def SameShape (p q : SpecLists) : Prop :=
  q.ciphers = p.ciphers ∧ (∀ t, subst t q.groups = subst t p.groups) ∧
  (∀ t, subst t q.shares = subst t p.shares) ∧ (∀ t, subst t q.versions = subst t p.versions)

private theorem applySpec_sameShape (raw : Seeds) (n : Nat) (p q : SpecLists) (h : SameShape p q) :
    (applySpec raw n q).2 = (applySpec raw n p).2 ∧ SameShape p (applySpec raw n q).1 := by
  obtain ⟨hc, hg, hs, hv⟩ := h
  refine ⟨?_, ?_, ?_, ?_, ?_⟩
  · simp [applySpec, hc, hg, hs, hv]
  · simp [applySpec, hc]
  · intro t; simp only [applySpec]; rw [resubst_consistent, hg]
  · intro t; simp only [applySpec]; rw [resubst_consistent, hs]
  · intro t; simp only [applySpec]; rw [resubst_consistent, hv]

private theorem applySpecAll_sameShape (n : Nat) (ss : List Seeds) (p q : SpecLists) (h : SameShape p q) :
    applySpecAll n ss q = ss.map fun s => (applySpec s n p).2 := by
  induction ss generalizing q with
  | nil => rfl
  | cons s ss ih =>
    obtain ⟨h1, h2⟩ := applySpec_sameShape s n p q h
    simp only [applySpecAll, List.map_cons]
    rw [h1, ih _ h2]

/-- **every hello is a function of its own connection's seed and the original spec only**: for every
sequence of applications of one spec object (any number of build steps / connections, any seeds), the
hello produced by the j-th application is the hello a *fresh* copy of the spec would give with the j-th
seed — nothing of an earlier connection's GREASE values survives in the in-place rewritten spec. -/
theorem reapply_function_of_own_seed (n : Nat) (ss : List Seeds) (p : SpecLists) :
    applySpecAll n ss p = ss.map fun s => (applySpec s n p).2 :=
  applySpecAll_sameShape n ss p p ⟨rfl, fun _ => rfl, fun _ => rfl, fun _ => rfl⟩

/-- in every hello of every such sequence the GREASE group of key_share and the GREASE group of
supported_groups are both the value of that application's own group seed (hence equal to each other),
and the two GREASE extensions differ. -/
theorem reapply_group_consistent (n : Nat) (ss : List Seeds) (p : SpecLists) (j : Nat) (h : HelloGrease)
    (hj : (applySpecAll n ss p)[j]? = some h) :
    ∃ s, ss[j]? = some s ∧
      (∀ g ∈ h.groups, isGrease g = true → g = boring s.group) ∧
      (∀ g ∈ h.shares, isGrease g = true → g = boring s.group) ∧
      (n = 2 → h.exts[0]? ≠ h.exts[1]?) := by
  rw [reapply_function_of_own_seed, List.getElem?_map] at hj
  cases hs : ss[j]? with
  | none => simp [hs] at hj
  | some s =>
    simp only [hs, Option.map_some, Option.some.injEq] at hj
    subst hj
    have hd : (dedup s).group = s.group := by unfold dedup; split <;> rfl
    obtain ⟨h1, h2, _, _⟩ := group_grease_consistent s.group p.groups p.shares
    refine ⟨s, rfl, ?_, ?_, ?_⟩
    · simpa [applySpec, hd] using h1
    · simpa [applySpec, hd] using h2
    · intro hn; subst hn
      have := ext_grease_distinct s
      simpa [applySpec, List.range, List.range.loop] using this

/-- substituted values stay in the reserved space: whatever was GREASE-shaped is GREASE-shaped after. -/
theorem subst_keeps_shape (seed : Nat) (xs : List Nat) (i : Nat) (h : i < xs.length) :
    isGrease xs[i] = true → ∃ v, (subst seed xs)[i]? = some v ∧ isGrease v = true := by
  intro hg
  exact ⟨boring seed, by simp [subst, h, hg], boring_is_grease seed⟩

/-- freshness as functional dependence: the value is determined by — and determines — the high
nibble of the low byte of this connection's seed word (16 equally likely values). -/
theorem boring_injective_on_nibble (s t : Nat) :
    boring s = boring t ↔ (s % 256) / 16 = (t % 256) / 16 := by
  rw [boring_low s, boring_low t]
  have := all_bytes2 (fun x y => decide (boring x = boring y ↔ x / 16 = y / 16)) (by decide +kernel) s t
  simpa using this

/-- QUIC transport-parameter GREASE ids are `31·N + 27` and fit a varint, for every multiplier
`rand.Int` can return. -/
theorem tp_grease_id (k : Nat) (hk : k < greaseMaxMult) :
    isGreaseId (greaseId k) = true ∧ greaseId k < 4611686018427387904 := by
  unfold greaseMaxMult at hk
  unfold isGreaseId greaseId
  refine ⟨?_, by omega⟩
  simp only [Bool.and_eq_true, decide_eq_true_eq, beq_iff_eq]
  exact ⟨by omega, by omega⟩

private theorem vbyte_shape (x : Nat) : greaseVersionByte (x % 256) % 16 = 10 ∧ greaseVersionByte (x % 256) < 256 := by
  have := all_bytes (fun b => decide (greaseVersionByte b % 16 = 10 ∧ greaseVersionByte b < 256)) (by decide +kernel) x
  simpa using this

/-- QUIC version-information GREASE versions match `0x?a?a?a?a`, for every drawn value. -/
theorem grease_version (r : Nat) : isGreaseVersion (greaseVersion r) = true := by
  unfold greaseVersion isGreaseVersion
  have h3 : r % 4294967296 / 16777216 = (r % 4294967296 / 16777216) % 256 := by omega
  obtain ⟨a1, a2⟩ := vbyte_shape (r % 4294967296 / 16777216)
  obtain ⟨b1, b2⟩ := vbyte_shape (r % 4294967296 / 65536)
  obtain ⟨c1, c2⟩ := vbyte_shape (r % 4294967296 / 256)
  obtain ⟨d1, d2⟩ := vbyte_shape (r % 4294967296)
  rw [← h3] at a1 a2
  simp only [Bool.and_eq_true, decide_eq_true_eq, beq_iff_eq]
  have e : r % 4294967296 % 256 = r % 4294967296 % 256 := rfl
  refine ⟨⟨⟨⟨?_, ?_⟩, ?_⟩, ?_⟩, ?_⟩ <;> omega

/-! Non-vacuity -/
example : boring 0x1234 = 0x3a3a := by decide
example : dedup ⟨1, 2, 0x10, 0x1f, 5⟩ = ⟨1, 2, 0x10, 0x100f, 5⟩ := by decide
example : greaseVersion 1 = 0x0a0a0a0a := by decide
example : greaseVersion 0xffffffff = 0xfafafafa := by decide
/-- a Chrome-like spec applied three times: the third hello carries the third seed's values. -/
example : (applySpecAll 2 [⟨0x10, 0x20, 0x30, 0x30, 0x50⟩, ⟨0x60, 0x70, 0x80, 0x90, 0xa0⟩, ⟨1, 0xf2, 3, 4, 5⟩]
    ⟨[0x0a0a, 4865], [0x0a0a, 29, 23], [0x0a0a, 29], [0x0a0a, 772, 771]⟩)[2]? =
    some ⟨[0x0a0a, 4865], [0xfafa, 29, 23], [0xfafa, 29], [0x0a0a, 772, 771], [0x0a0a, 0x1a1a]⟩ := by decide
example : subst 0x70 (subst 0x20 [0x0a0a, 29]) = [0x7a7a, 29] := by decide
example : [0x1a1a, 29].map toPlaceholder = [0x0a0a, 29].map toPlaceholder := by decide

end C04
