import UtlsVerif.HelloPaddingLemmas
import UtlsVerif.Props.C02
/-!
# C05 — padding makes the ClientHello length follow the declared padding policy

Over `Hello.marshalNoECH` (transcription of `MarshalClientHelloNoECH`, which calls
`paddingExt.Update(unpaddedLen)` with `BoringPaddingStyle` / `AlwaysPadToLen(n)` / no policy), for
**arbitrary** hello fields and extension lists containing one padding extension anywhere:

* `boring_policy`, `boring_len` — with BoringSSL-style padding an unpadded handshake message of
  256 … 507 bytes is sent as exactly 512 bytes, one of 508 … 511 bytes gets a padding extension with a
  1-byte body (`L+5` bytes), any other length is sent unpadded (`L` bytes);
* `padding_wire`, `boring_wire` — what the strict parser finds on the wire: exactly one type-21
  extension with the all-zero body of the decided length, or none;
* `padding_zero`, `padding_not_duplicated`, `two_paddings_err`;
* `padding_stateless`, `marshal_padding_state_irrelevant`, `marshalSeq_stateless` — `Update` is a
  function of the current unpadded length only: stored state from earlier marshals never leaks;
* `padTo_len`, `padTo_reproduces` — `AlwaysPadToLen(T)` (installed by `FromRaw` with `T` = captured
  handshake length): a capture with a non-empty padding body and equal unpadded length is reproduced
  at exactly `T` bytes.
-/
namespace C05
open Wire Ext Ext.Ext Hello
open C02 (marshal_valid)

/-- `BoringPaddingStyle` in closed form: the 255/256, 507/508 and 511/512 boundaries. -/
theorem boring_policy (l : Nat) :
    boringPadding l =
      if 256 ≤ l ∧ l ≤ 507 then (508 - l, true) else if 508 ≤ l ∧ l ≤ 511 then (1, true) else (0, false) :=
  boringPadding_eq l

/-- **boring_len**: total length under BoringSSL-style padding as a function of the unpadded length. -/
theorem boring_len (f : HelloFields) (xs : List Ext) (bs : Bytes)
    (h : marshalNoECH f .boring xs = .ok bs) (hc : paddingCount xs = 1) :
    (256 ≤ unpaddedLen f xs ∧ unpaddedLen f xs ≤ 507 → bs.length = 512) ∧
    (508 ≤ unpaddedLen f xs ∧ unpaddedLen f xs ≤ 511 → bs.length = unpaddedLen f xs + 5) ∧
    (unpaddedLen f xs ≤ 255 ∨ 512 ≤ unpaddedLen f xs → bs.length = unpaddedLen f xs) := by
  obtain ⟨cur, hcur⟩ := firstPadding_of_count xs hc
  have hl := marshal_len_one_padding h hcur
  simp only [PadPolicy.apply, boringPadding_eq] at hl
  refine ⟨?_, ?_, ?_⟩
  · intro hr
    rw [if_pos hr] at hl
    simp only [len, ↓reduceIte] at hl
    omega
  · intro hr
    have h1 : ¬ (256 ≤ unpaddedLen f xs ∧ unpaddedLen f xs ≤ 507) := by omega
    rw [if_neg h1, if_pos hr] at hl
    simp only [len, ↓reduceIte] at hl
    omega
  · intro hr
    have h1 : ¬ (256 ≤ unpaddedLen f xs ∧ unpaddedLen f xs ≤ 507) := by omega
    have h2 : ¬ (508 ≤ unpaddedLen f xs ∧ unpaddedLen f xs ≤ 511) := by omega
    rw [if_neg h1, if_neg h2] at hl
    simp only [len, Bool.false_eq_true, ↓reduceIte] at hl
    omega

/-- without any padding extension nothing is ever added. -/
theorem no_padding_ext_len (f : HelloFields) (pol : PadPolicy) (xs : List Ext) (bs : Bytes)
    (h : marshalNoECH f pol xs = .ok bs) (hc : firstPadding xs = none) (hx : xs ≠ []) :
    bs.length = unpaddedLen f xs := marshal_len_no_padding h hc hx

private theorem only_padding_is_21 {f : HelloFields} {pol : PadPolicy} {xs : List Ext} {cur : Nat × Bool}
    (hd : distinctB (xs.map typeId) = true) (hcur : firstPadding xs = some cur) :
    ∀ e ∈ updated f pol xs, typeId e = 21 → isPadding e = true := by
  intro e he ht
  obtain ⟨a, ha, rfl⟩ := List.mem_map.mp he
  rw [updatePad_typeId] at ht
  have hp := exists_padding_of_first xs cur hcur
  have : a = padding cur.1 cur.2 := distinctB_inj typeId xs hd a ha _ hp (by rw [ht]; rfl)
  subst this
  rfl

/-- **what is on the wire**: for a spec within limits with one padding extension (anywhere in the
list), under any policy, the strict parser finds exactly the padding the policy decided on — one
type-21 extension whose body is that many zero bytes — or none when the policy says not to pad. -/
theorem padding_wire (f : HelloFields) (pol : PadPolicy) (xs : List Ext) (bs : Bytes) (cur : Nat × Bool)
    (hs : specOK f xs = true) (h : marshalNoECH f pol xs = .ok bs)
    (hc : paddingCount xs = 1) (hcur : firstPadding xs = some cur) :
    ∃ p, parseCH bs = some p ∧ validCH p = true ∧
      p.paddings = if (pol.apply (unpaddedLen f xs) cur).2 = true
                   then [List.replicate (pol.apply (unpaddedLen f xs) cur).1 0] else [] := by
  obtain ⟨p, h1, h2, _, _, _, _, _, h8⟩ := marshal_valid f pol xs bs hs h
  refine ⟨p, h1, h2, ?_⟩
  simp only [specOK, Bool.and_eq_true] at hs
  have hd := hs.1.2
  have hx : xs.isEmpty = false := by cases xs <;> simp_all [firstPadding]
  simp only [ParsedCH.paddings, ParsedCH.extList, h8, expectedExts, hx, Bool.false_eq_true, ↓reduceIte, Option.getD_some]
  have := paddings_emitted (updated f pol xs) (only_padding_is_21 (f := f) (pol := pol) hd hcur)
  unfold updated at this
  rw [this, filter_isPadding_updated pol _ xs cur hc hcur]
  by_cases hw : (pol.apply (unpaddedLen f xs) cur).2 = true
  · rw [if_pos hw, List.filter_cons_of_pos (by rw [emits_padding]; exact hw)]
    simp [body]
  · rw [if_neg hw, List.filter_cons_of_neg (by rw [emits_padding]; exact hw)]
    rfl

/-- `padding_wire` for BoringSSL-style padding, with the boundaries spelled out. -/
theorem boring_wire (f : HelloFields) (xs : List Ext) (bs : Bytes)
    (hs : specOK f xs = true) (h : marshalNoECH f .boring xs = .ok bs) (hc : paddingCount xs = 1) :
    ∃ p, parseCH bs = some p ∧
      p.paddings =
        if 256 ≤ unpaddedLen f xs ∧ unpaddedLen f xs ≤ 507 then [List.replicate (508 - unpaddedLen f xs) 0]
        else if 508 ≤ unpaddedLen f xs ∧ unpaddedLen f xs ≤ 511 then [[0]] else [] := by
  obtain ⟨cur, hcur⟩ := firstPadding_of_count xs hc
  obtain ⟨p, h1, _, h3⟩ := padding_wire f .boring xs bs cur hs h hc hcur
  refine ⟨p, h1, ?_⟩
  rw [h3]
  simp only [PadPolicy.apply, boringPadding_eq]
  by_cases r1 : 256 ≤ unpaddedLen f xs ∧ unpaddedLen f xs ≤ 507
  · simp [r1]
  · by_cases r2 : 508 ≤ unpaddedLen f xs ∧ unpaddedLen f xs ≤ 511
    · simp [r1, r2]
    · simp [r1, r2]

/-- **padding bodies are all zero** — every type-21 extension of any hello marshalled from a spec
within limits, whatever the policy and wherever (or whether) the padding extension sits. -/
theorem padding_zero (f : HelloFields) (pol : PadPolicy) (xs : List Ext) (bs : Bytes)
    (hs : specOK f xs = true) (h : marshalNoECH f pol xs = .ok bs) :
    ∃ p, parseCH bs = some p ∧ ∀ bd ∈ p.paddings, bd.all (· == 0) = true := by
  obtain ⟨p, h1, h2, _⟩ := marshal_valid f pol xs bs hs h
  refine ⟨p, h1, ?_⟩
  intro bd hbd
  simp only [validCH, Bool.and_eq_true] at h2
  have hall := List.all_eq_true.mp h2.2
  simp only [ParsedCH.paddings, List.mem_map, List.mem_filter] at hbd
  obtain ⟨x, ⟨hx, h21⟩, rfl⟩ := hbd
  have hb := hall x hx
  have : x.1 = 21 := by simpa using h21
  rw [this] at hb
  simpa [bodyOk] using hb

/-- **never duplicated**: at most one padding extension on the wire. -/
theorem padding_not_duplicated (f : HelloFields) (pol : PadPolicy) (xs : List Ext) (bs : Bytes)
    (hs : specOK f xs = true) (h : marshalNoECH f pol xs = .ok bs) :
    ∃ p, parseCH bs = some p ∧ p.paddings.length ≤ 1 := by
  obtain ⟨p, h1, h2, _⟩ := marshal_valid f pol xs bs hs h
  refine ⟨p, h1, ?_⟩
  simp only [validCH, Bool.and_eq_true] at h2
  have := count_filter_21 p.extTypes h2.1.1
  simp only [ParsedCH.extTypes, List.filter_map, List.length_map] at this
  simpa [ParsedCH.paddings, Function.comp_def] using this

/-- two padding extensions in the list are refused, for every hello and policy. -/
theorem two_paddings_err (f : HelloFields) (pol : PadPolicy) (xs : List Ext) (h : 2 ≤ paddingCount xs) :
    marshalNoECH f pol xs = .err .multiplePadding := by
  unfold marshalNoECH
  rw [if_pos h]

/-- `AlwaysPadToLen(T)` in closed form and the resulting total length. -/
theorem padTo_len (f : HelloFields) (t : Nat) (xs : List Ext) (bs : Bytes)
    (h : marshalNoECH f (.padTo t) xs = .ok bs) (hc : paddingCount xs = 1) :
    (unpaddedLen f xs + 5 ≤ t → bs.length = t) ∧
    (unpaddedLen f xs < t ∧ t < unpaddedLen f xs + 5 → bs.length = unpaddedLen f xs + 5) ∧
    (t ≤ unpaddedLen f xs → bs.length = unpaddedLen f xs) := by
  obtain ⟨cur, hcur⟩ := firstPadding_of_count xs hc
  have hl := marshal_len_one_padding h hcur
  simp only [PadPolicy.apply, alwaysPadTo_eq] at hl
  refine ⟨?_, ?_, ?_⟩
  · intro hr
    rw [if_pos hr] at hl
    simp only [len, ↓reduceIte] at hl
    omega
  · intro hr
    have h1 : ¬ (unpaddedLen f xs + 5 ≤ t) := by omega
    rw [if_neg h1, if_pos hr.1] at hl
    simp only [len, ↓reduceIte] at hl
    omega
  · intro hr
    have h1 : ¬ (unpaddedLen f xs + 5 ≤ t) := by omega
    have h2 : ¬ (unpaddedLen f xs < t) := by omega
    rw [if_neg h1, if_neg h2] at hl
    simp only [len, Bool.false_eq_true, ↓reduceIte] at hl
    omega

/-- **padTo_reproduces**: a capture of `capturedLen` handshake bytes that carried a padding extension
with a non-empty body `capturedPad` over an unpadded part of the same size as the new hello's is
reproduced at exactly the captured length (and with the captured padding body length). -/
theorem padTo_reproduces (f : HelloFields) (capturedLen capturedPad : Nat) (xs : List Ext) (bs : Bytes)
    (hpad : 1 ≤ capturedPad) (hcap : capturedLen = unpaddedLen f xs + 4 + capturedPad)
    (h : marshalNoECH f (.padTo capturedLen) xs = .ok bs) (hc : paddingCount xs = 1) :
    bs.length = capturedLen ∧
    ∀ cur, firstPadding xs = some cur →
      (PadPolicy.padTo capturedLen).apply (unpaddedLen f xs) cur = (capturedPad, true) := by
  refine ⟨(padTo_len f capturedLen xs bs h hc).1 (by omega), ?_⟩
  intro cur _
  simp only [PadPolicy.apply, alwaysPadTo_eq]
  rw [if_pos (by omega)]
  congr 1
  omega

/-! ## `Update` is a function of the current unpadded length only -/

/-- **padding_stateless**: under a policy (`BoringPaddingStyle`, `AlwaysPadToLen n`) the padding
decision after *any* sequence of earlier `Update` calls on the same extension object equals the
decision for the last unpadded length — whatever `(PaddingLen, WillPad)` the object held before. -/
theorem padding_stateless (pol : PadPolicy) (hp : pol ≠ .none) (earlier : List Nat) (l : Nat) (cur cur' : Nat × Bool) :
    (earlier ++ [l]).foldl (fun c u => pol.apply u c) cur = pol.apply l cur' := by
  rw [List.foldl_append]
  simp only [List.foldl_cons, List.foldl_nil]
  exact apply_stateless pol hp l _ _

/-- the bytes (or error) of a marshal do not depend on what is stored in the padding extension. -/
theorem marshal_padding_state_irrelevant (f : HelloFields) (pol : PadPolicy) (hp : pol ≠ .none) (xs : List Ext)
    (c1 c2 : Nat × Bool) :
    marshalNoECH f pol (xs.map (setPad c1)) = marshalNoECH f pol (xs.map (setPad c2)) :=
  marshal_setPad f pol hp xs c1 c2

/-- **sequences**: marshalling hello after hello over one extension-list object — re-marshal after
`SetSNI`, the second ClientHello after a HelloRetryRequest, one spec object shared by several
connections — gives at every step exactly what a fresh padding extension would give, however the stored
state evolved (`next` arbitrary). In particular an out-of-range hello after an in-range one carries no
padding (`boring_len` applies to every step). -/
theorem marshalSeq_stateless (pol : PadPolicy) (hp : pol ≠ .none)
    (next : Nat × Bool → HelloFields → List Ext → Nat × Bool) (c0 : Nat × Bool) :
    ∀ (steps : List (HelloFields × List Ext)) (c : Nat × Bool),
      marshalSeq pol next c steps = steps.map fun s => marshalNoECH s.1 pol (s.2.map (setPad c0)) := by
  intro steps
  induction steps with
  | nil => intro c; rfl
  | cons s r ih =>
    intro c
    obtain ⟨f, xs⟩ := s
    simp only [marshalSeq, List.map_cons]
    rw [ih, marshal_setPad f pol hp xs c c0]

/-! ## Non-vacuity: concrete hellos on each side of every boundary -/

def exFields : HelloFields :=
  { vers := 0x0303, random := List.replicate 32 7, sessionId := List.replicate 32 9,
    cipherSuites := [0x1301, 0xc02f], compressionMethods := [0] }

/-- SNI, a generic extension of `k` bytes, the padding extension in the middle, supported_versions. -/
def exExts (k : Nat) : List Ext :=
  [sni [97, 46, 98], generic 0x7777 (List.replicate k 0), padding 0 false, supportedVersions [0x0304]]

def rawOf (pol : PadPolicy) (k : Nat) : Bytes :=
  match marshalNoECH exFields pol (exExts k) with
  | .ok bs => bs
  | .err _ => []

-- unpadded length = 104 + k
example : unpaddedLen exFields (exExts 151) = 255 ∧ specOK exFields (exExts 151) = true ∧ paddingCount (exExts 151) = 1 := by
  decide +kernel
example : marshalNoECH exFields .boring (exExts 151) = .ok (rawOf .boring 151) ∧ (rawOf .boring 151).length = 255 := by decide +kernel
example : marshalNoECH exFields .boring (exExts 152) = .ok (rawOf .boring 152) ∧ (rawOf .boring 152).length = 512 := by decide +kernel
example : marshalNoECH exFields .boring (exExts 403) = .ok (rawOf .boring 403) ∧ (rawOf .boring 403).length = 512 := by decide +kernel
example : marshalNoECH exFields .boring (exExts 404) = .ok (rawOf .boring 404) ∧ (rawOf .boring 404).length = 513 := by decide +kernel
example : marshalNoECH exFields .boring (exExts 407) = .ok (rawOf .boring 407) ∧ (rawOf .boring 407).length = 516 := by decide +kernel
example : marshalNoECH exFields .boring (exExts 408) = .ok (rawOf .boring 408) ∧ (rawOf .boring 408).length = 512 := by decide +kernel
example : (parseCH (rawOf .boring 404)).map (·.paddings) = some [[0]] ∧
    (parseCH (rawOf .boring 403)).map (·.paddings) = some [[0]] ∧
    (parseCH (rawOf .boring 402)).map (·.paddings) = some [[0, 0]] ∧
    (parseCH (rawOf .boring 408)).map (·.paddings) = some [] := by decide +kernel
/-- a 512-byte capture with a 100-byte padding body (unpadded 408) replayed over an unpadded part of 408 bytes:
the hypotheses of `padTo_reproduces` hold (`512 = 408 + 4 + 100`) and so does its conclusion. -/
example : unpaddedLen exFields (exExts 304) = 408 ∧
    marshalNoECH exFields (.padTo 512) (exExts 304) = .ok (rawOf (.padTo 512) 304) ∧
    (rawOf (.padTo 512) 304).length = 512 ∧
    (parseCH (rawOf (.padTo 512) 304)).map (·.paddings) = some [List.replicate 100 0] := by decide +kernel
/-- an in-range hello (512 bytes, padded) followed by an out-of-range one over the same object whose
padding extension still holds `(204, true)`: the second hello is sent unpadded; and back. -/
example : marshalSeq .boring (fun c _ _ => (c.1 + 7, true)) (204, true)
      [(exFields, exExts 152), (exFields, exExts 408), (exFields, exExts 152)]
    = [.ok (rawOf .boring 152), .ok (rawOf .boring 408), .ok (rawOf .boring 152)] ∧
    (rawOf .boring 408).length = 512 ∧ (parseCH (rawOf .boring 408)).map (·.paddings) = some [] := by decide +kernel
/-- a second padding extension is refused. -/
example : marshalNoECH exFields .boring (padding 5 true :: exExts 10) = .err .multiplePadding := by decide +kernel

end C05
