import UtlsVerif.FpLemmas
/-!
# C06 — fingerprinting a ClientHello and re-applying it reproduces its shape

Model: `Fp.roundtrip` = `Fingerprinter.FingerprintClientHello` (`Import.rawClientHello`, C07) of the
record of a hello marshalled by `Hello.marshalNoECH` (C02), the spec applied by `Preset.applyPreset`
(C03) with the material `m'` of a fresh connection, and marshalled again. `Preset.shape` erases GREASE
values and per-connection material.

The hellos the statements range over: `Fp.representable` (decidable; see its definition — wire limits,
extension types with a `Write`, key shares for groups keys can be generated for, initial-handshake
renegotiation_info, GREASE-ECH with a key (the open C08 finding `ech-empty-enc` otherwise), the fake-PSK
flavour, uTLS/Chrome GREASE bodies, a legacy_version consistent with the advertised versions), for any
padding policy, any `AllowBluntMimicry` / `AlwaysAddPadding` setting, `RealPSKResumption` off.

* `fp_roundtrip` — same shape: legacy version, cipher suites, compression methods, extension order and
  extension bodies modulo GREASE values and per-connection material (the padding extension is not part
  of the shape; it is covered by `fp_len_eq`).
* `fp_len_eq` — with per-connection parts of equal size (equal `Len()` of every non-padding extension,
  equal session-id length) and a capture whose padding, if any, is non-empty, the total length is equal.
* `fp_idempotent` — fingerprinting the regenerated hello yields an equivalent spec (`Fp.specCore`).
-/
namespace C06
open Wire Ext Ext.Ext Hello Preset Fp

/-- what `representable` says, unpacked. -/
private theorem repr_unpack {f : HelloFields} {pol : PadPolicy} {xs : List Ext}
    (h : representable false false f pol xs = true) :
    fieldsOK f = true ∧ f.compressionMethods.isEmpty = false ∧ xs.isEmpty = false ∧
    (∀ e ∈ emitted f pol xs, extOKb e = true ∧ hasWriterB e = true ∧ extRepr false e = true) ∧
    greaseBodiesOK 0 (emitted f pol xs) = true ∧
    ∃ mn mx, versRange (fpSpec f (emitted f pol xs) 0) = some (mn, mx) ∧ (if mx > 0x0303 then 0x0303 else mx) = f.vers := by
  simp only [representable, Bool.and_eq_true, Bool.not_eq_true', Bool.or_false] at h
  obtain ⟨⟨⟨⟨⟨⟨⟨hf, hc⟩, hx⟩, ho⟩, hw⟩, hr⟩, hg⟩, hv⟩ := h
  refine ⟨hf, hc, hx, ?_, hg, ?_⟩
  · intro e he
    exact ⟨List.all_eq_true.mp ho e he, List.all_eq_true.mp hw e he, List.all_eq_true.mp hr e he⟩
  · cases hvr : versRange (fpSpec f (emitted f pol xs) 0) with
    | none => rw [hvr] at hv; cases hv
    | some p => obtain ⟨mn, mx⟩ := p; rw [hvr] at hv; exact ⟨mn, mx, rfl, by simpa using hv⟩

/-- the pieces of a successful round trip. -/
private theorem roundtrip_unpack {bs₁ bs₂ : Bytes} {blunt pad : Bool} {m' : Material}
    (h : roundtrip bs₁ blunt pad false m' = some bs₂) :
    ∃ s st, Import.fromRaw (record bs₁) blunt false = .ok s ∧
      applyPreset (toSpec (if pad then Import.alwaysAddPadding s else s)) m' = some st ∧
      marshalNoECH st.f st.pol st.exts = .ok bs₂ := by
  unfold roundtrip Import.rawClientHello at h
  cases hfr : Import.fromRaw (record bs₁) blunt false with
  | ok s =>
    simp only [hfr, Import.Out.bind_ok] at h
    cases ha : applyPreset (toSpec (if pad then Import.alwaysAddPadding s else s)) m' with
    | none => simp [ha] at h
    | some st =>
      simp only [ha] at h
      cases hm : marshalNoECH st.f st.pol st.exts with
      | err e => simp [hm] at h
      | ok b => simp only [hm, Option.some.injEq] at h; subst h; exact ⟨s, st, rfl, ha, hm⟩
  | err => simp [hfr, Import.Out.bind] at h
  | panic => simp [hfr, Import.Out.bind] at h
  | hang => simp [hfr, Import.Out.bind] at h

/-- everything the three theorems share: the state the second marshal ran from, in terms of the capture. -/
private theorem second_state {f : HelloFields} {pol : PadPolicy} {xs : List Ext} {bs₁ bs₂ : Bytes} {blunt pad : Bool} {m' : Material}
    (hrep : representable false false f pol xs = true) (h₁ : marshalNoECH f pol xs = .ok bs₁)
    (h₂ : roundtrip bs₁ blunt pad false m' = some bs₂) :
    ∃ (st : State) (mx : Nat),
      marshalNoECH st.f st.pol st.exts = .ok bs₂ ∧
      st.f = { vers := f.vers, random := m'.random, sessionId := m'.sessionId,
               cipherSuites := substG (Grease.boring (Grease.dedup m'.seeds).cipher) (f.cipherSuites.map unGrease),
               compressionMethods := f.compressionMethods } ∧
      fillExts m' (Grease.dedup m'.seeds) ((NP (emitted f pol xs)).map norm) 0 m'.keys = some (NP st.exts) ∧
      (∀ y ∈ st.exts, typeId y < 65536) ∧
      (pad = false → st.exts.length = (emitted f pol xs).length ∧ st.pol = (if (emitted f pol xs).any isPadding then .padTo bs₁.length else .none) ∧
        fillExts m' (Grease.dedup m'.seeds) ((emitted f pol xs).map norm) 0 m'.keys = some st.exts) ∧ mx = mx := by
  obtain ⟨hf, hc, hx, hE, hg, mn, mx, hvr, hvers⟩ := repr_unpack hrep
  obtain ⟨s, st, hfr, ha, hm⟩ := roundtrip_unpack h₂
  obtain ⟨s0, hfr0, hspec, hexts⟩ := fingerprint_formula blunt false h₁ hf hx hE
  rw [hfr] at hfr0; injection hfr0 with hs; subst hs
  -- the spec that was applied
  have hfields : (toSpec (if pad then Import.alwaysAddPadding s else s)).suites = f.cipherSuites.map unGrease ∧
      (toSpec (if pad then Import.alwaysAddPadding s else s)).comp = f.compressionMethods ∧
      (toSpec (if pad then Import.alwaysAddPadding s else s)).vmin = (fpSpec f (emitted f pol xs) 0).vmin ∧
      (toSpec (if pad then Import.alwaysAddPadding s else s)).vmax = (fpSpec f (emitted f pol xs) 0).vmax ∧
      NP (toSpec (if pad then Import.alwaysAddPadding s else s)).exts = (NP (emitted f pol xs)).map norm := by
    have h0 : (toSpec s).suites = f.cipherSuites.map unGrease ∧ (toSpec s).comp = f.compressionMethods ∧
        (toSpec s).vmin = (fpSpec f (emitted f pol xs) 0).vmin ∧ (toSpec s).vmax = (fpSpec f (emitted f pol xs) 0).vmax := by
      rw [hspec]; exact ⟨rfl, rfl, rfl, rfl⟩
    cases pad with
    | false =>
      simp only [Bool.false_eq_true, ↓reduceIte]
      refine ⟨h0.1, h0.2.1, h0.2.2.1, h0.2.2.2, ?_⟩
      simp only [toSpec, hexts, np_norm]
    | true =>
      simp only [↓reduceIte]
      obtain ⟨a1, a2, a3, a4, a5⟩ := alwaysAddPadding_np s
      refine ⟨?_, ?_, ?_, ?_, ?_⟩
      · simp only [toSpec, a2]; exact h0.1
      · simp only [toSpec, a3]; exact h0.2.1
      · simp only [toSpec, a4]; exact h0.2.2.1
      · simp only [toSpec, a5]; exact h0.2.2.2
      · simp only [toSpec, a1, hexts, np_norm]
  obtain ⟨hsu, hco, hvmin, hvmax, hnp⟩ := hfields
  generalize hsp : toSpec (if pad then Import.alwaysAddPadding s else s) = sp at ha hsu hco hvmin hvmax hnp
  -- its version range is the capture's
  have hvr' : versRange sp = some (mn, mx) := by
    rw [versRange_np sp, ← hvr, versRange_np (fpSpec f (emitted f pol xs) 0)]
    unfold versRange
    simp only [hvmin, hvmax, hnp, fpSpec, np_norm]
  unfold applyPreset at ha
  simp only [hvr'] at ha
  cases hfe : fillExts m' (Grease.dedup m'.seeds) sp.exts 0 m'.keys with
  | none => simp [hfe] at ha
  | some ys =>
    simp only [hfe, Option.some.injEq] at ha
    subst ha
    refine ⟨_, mx, hm, ?_, ?_, ?_, ?_, rfl⟩
    · simp only [hvers, hsu, hco, State.mk.injEq, HelloFields.mk.injEq, true_and]
      simp [hc]
    · simp only
      rw [← hnp]
      exact fillExts_np m' _ sp.exts 0 m'.keys ys hfe
    · simp only
      apply fill_types m' _ sp.exts 0 m'.keys ys _ hfe
      intro e he
      by_cases c : isPadding e = true
      · left; rw [isPadding_typeId e c]; omega
      · have hmem : e ∈ NP sp.exts := by simp [NP, he, c]
        rw [hnp] at hmem
        obtain ⟨a, ha', rfl⟩ := List.mem_map.mp hmem
        have : a ∈ emitted f pol xs := (List.mem_filter.mp ha').1
        exact norm_type a (hE a this).1
    · intro hpad
      subst hpad
      simp only [Bool.false_eq_true, ↓reduceIte] at hsp
      have hsx : sp.exts = (emitted f pol xs).map norm := by rw [← hsp]; simp only [toSpec, hexts]
      have hpol : sp.pol = (if (emitted f pol xs).any isPadding then .padTo bs₁.length else .none) := by
        rw [← hsp, hspec]; rfl
      rw [hsx] at hfe
      refine ⟨?_, hpol, hfe⟩
      have := fill_len m' _ _ 0 m'.keys ys hfe
      simpa using this

/-- hypotheses on the fresh connection's material: no session-provided PSK, a server name that gives an
SNI, a session id that fits its length byte. -/
def matFits (m' : Material) : Prop :=
  m'.psk = none ∧ Sni.hostnameInSNI m'.serverName ≠ [] ∧ m'.sessionId.length < 256

private theorem fields_ok_second {f : HelloFields} {m' : Material} (hf : fieldsOK f = true) (hs : m'.sessionId.length < 256) :
    fieldsOK { vers := f.vers, random := m'.random, sessionId := m'.sessionId,
               cipherSuites := substG (Grease.boring (Grease.dedup m'.seeds).cipher) (f.cipherSuites.map unGrease),
               compressionMethods := f.compressionMethods } = true := by
  simp only [fieldsOK, Bool.and_eq_true, decide_eq_true_eq] at hf ⊢
  obtain ⟨⟨⟨⟨hv, _⟩, hcs⟩, hcsa⟩, hcm⟩ := hf
  refine ⟨⟨⟨⟨hv, hs⟩, by simpa [substG] using hcs⟩, ?_⟩, hcm⟩
  rw [List.all_eq_true]
  intro x hx
  have := substG_lt _ (boring_lt (Grease.dedup m'.seeds).cipher) (f.cipherSuites.map unGrease) (by
    intro a ha
    obtain ⟨a', ha', rfl⟩ := List.mem_map.mp ha
    exact unGrease_lt a' (by simpa using List.all_eq_true.mp hcsa a' ha')) x hx
  simpa using this

/-- **Main theorem.** Fingerprint → apply → marshal reproduces the shape of every representable hello:
for any padding policy of the capture, any `AllowBluntMimicry`/`AlwaysAddPadding` setting and any
material of the new connection. -/
theorem fp_roundtrip (f : HelloFields) (pol : PadPolicy) (xs : List Ext) (bs₁ bs₂ : Bytes) (blunt pad : Bool) (m' : Material)
    (hrep : representable false false f pol xs = true) (h₁ : marshalNoECH f pol xs = .ok bs₁)
    (hm : matFits m') (h₂ : roundtrip bs₁ blunt pad false m' = some bs₂) :
    ∃ p₁ p₂, parseCH bs₁ = some p₁ ∧ parseCH bs₂ = some p₂ ∧ shape p₂ = shape p₁ := by
  obtain ⟨hf, hc, hx, hE, hg, _⟩ := repr_unpack hrep
  obtain ⟨hpsk, hhost, hsid⟩ := hm
  obtain ⟨st, _, hm₂, hstf, hfill, htypes, _, _⟩ := second_state hrep h₁ h₂
  have hfacts₁ := emitted_facts h₁
  have hfacts₂ := emitted_facts hm₂
  -- both hellos parse to their fields and emitted extensions
  have hp₁ := marshal_parse' f pol xs bs₁ hf (fun e he hem =>
    typeId_lt e (hE e (List.mem_filter.mpr ⟨he, hem⟩)).1) h₁
  have hf₂ : fieldsOK st.f = true := by rw [hstf]; exact fields_ok_second hf hsid
  have hp₂ := marshal_parse st.f st.pol st.exts bs₂ hf₂ htypes hm₂
  refine ⟨_, _, hp₁, hp₂, ?_⟩
  -- the non-padding extensions of the capture, and what the loop made of them
  have hNPE : ∀ e ∈ NP (emitted f pol xs), isPadding e = false ∧ extOKb e = true ∧ extRepr false e = true ∧ early e = none := by
    intro e he
    obtain ⟨hmem, hnp⟩ := List.mem_filter.mp he
    exact ⟨by simpa using hnp, (hE e hmem).1, (hE e hmem).2.2, (hfacts₁ e hmem).1⟩
  have hgb : greaseBodiesOK 0 (NP (emitted f pol xs)) = true := greaseBodies_np 0 _ hg
  obtain ⟨hon, hshape⟩ := fill_shape m' _ hpsk hhost (NP (emitted f pol xs)) 0 m'.keys (NP st.exts) hNPE hgb hfill
  have hdec0 := fill_dec0 m' _ (NP (emitted f pol xs)) 0 m'.keys (NP st.exts)
    (fun e he => ⟨(hE e (List.mem_filter.mp he).1).1, (hE e (List.mem_filter.mp he).1).2.1⟩) hfill
  -- shapes
  have hs₁ : shapeExts ((emitted f pol xs).map fun e => (typeId e, body e)) = (NP (emitted f pol xs)).map shapeE :=
    shapeExts_map _ (fun e he _ => shapeDec_of_ok e (hE e he).1 (hE e he).2.1)
  have hnpem : NP (emitted st.f st.pol st.exts) = NP st.exts :=
    np_emitted st.pol _ st.exts (marshal_each hm₂) (fun y hy => (hon y hy).2)
  have hs₂ : shapeExts ((emitted st.f st.pol st.exts).map fun e => (typeId e, body e)) = (NP st.exts).map shapeE := by
    rw [shapeExts_map, hnpem]
    intro y hy hnp
    have hyin : y ∈ NP st.exts := by rw [← hnpem]; exact List.mem_filter.mpr ⟨hy, by simpa using hnp⟩
    exact shapeDec_of0 y (hdec0 y hyin) (hfacts₂ y hy).2.1
  have hx' : xs.isEmpty = false := hx
  -- assemble
  simp only [shape, ParsedCH.extList, expectedExts, hx', Bool.false_eq_true, ↓reduceIte, Option.getD_some]
  have hl₂ : (if st.exts.isEmpty = true then none else some (((st.exts.map (updatePad st.pol (unpaddedLen st.f st.exts))).filter emits).map fun e => (typeId e, body e))).getD []
      = (emitted st.f st.pol st.exts).map fun e => (typeId e, body e) := by
    by_cases c : st.exts.isEmpty = true
    · have : st.exts = [] := by simpa using c
      simp [this, emitted]
    · simp [c, emitted]
  rw [hl₂]
  have he₁ : ((xs.map (updatePad pol (unpaddedLen f xs))).filter emits) = emitted f pol xs := rfl
  rw [he₁, hs₁, hs₂, hshape, hstf]
  simp only [Shape.mk.injEq, true_and, and_true]
  exact unGrease_subst _ (boring_grease16 _) f.cipherSuites

/-- the extension values `ApplyPreset` regenerates on the new connection from the capture. -/
def regenerated (f : HelloFields) (pol : PadPolicy) (xs : List Ext) (m' : Material) : Option (List Ext) :=
  fillExts m' (Grease.dedup m'.seeds) ((emitted f pol xs).map norm) 0 m'.keys

/-- **equal sizes ⇒ equal total length** (`AlwaysAddPadding` off). With a server name of the same
length and per-connection parts of equal size — the regenerated non-padding extensions occupy as many
bytes as the captured ones, the session id has the same length — and a capture whose padding extension,
if on the wire, is non-empty (`1 ≤ n`), the regenerated ClientHello has exactly the captured length:
`AlwaysPadToLen(len(raw) − 5)` reproduces the padding, and without padding nothing is added. -/
theorem fp_len_eq (f : HelloFields) (pol : PadPolicy) (xs : List Ext) (bs₁ bs₂ : Bytes) (blunt : Bool) (m' : Material)
    (hrep : representable false false f pol xs = true) (h₁ : marshalNoECH f pol xs = .ok bs₁)
    (h₂ : roundtrip bs₁ blunt false false m' = some bs₂)
    (hne : emitted f pol xs ≠ [])
    (hsid : m'.sessionId.length = f.sessionId.length)
    (hsz : ∀ ys, regenerated f pol xs m' = some ys → extsLenNoPad ys = extsLenNoPad (emitted f pol xs))
    (hp : ∀ n, padding n true ∈ emitted f pol xs → 1 ≤ n) :
    bs₂.length = bs₁.length := by
  obtain ⟨st, _, hm₂, hstf, _, _, hnopad, _⟩ := second_state hrep h₁ h₂
  obtain ⟨hlen, hpol, hfill⟩ := hnopad rfl
  obtain ⟨hpc, _, _, _, _, _⟩ := marshal_ok_inv h₁
  -- unpadded lengths agree
  have hnp₁ : extsLenNoPad (emitted f pol xs) = extsLenNoPad xs := noPad_emitted pol _ xs (marshal_each h₁)
  have hL : unpaddedLen st.f st.exts = unpaddedLen f xs := by
    unfold unpaddedLen headerLength
    rw [hsz st.exts hfill, hnp₁, hstf]
    simp only [substG, List.length_map, hsid]
  obtain ⟨hany, hmem⟩ := emitted_padding pol (unpaddedLen f xs) xs hpc
  have hE : (xs.map (updatePad pol (unpaddedLen f xs))).filter emits = emitted f pol xs := rfl
  rw [hE] at hany hmem
  obtain ⟨hfp, hcnt⟩ := fill_padding m' _ _ 0 m'.keys st.exts hfill
  obtain ⟨hfn, hcn⟩ := firstPadding_norm (emitted f pol xs)
  rw [hfn] at hfp
  have hys : st.exts ≠ [] := by
    intro h0; rw [h0] at hlen; simp at hlen; exact hne (List.length_eq_zero_iff.mp hlen.symm)
  cases hf1 : firstPadding xs with
  | none =>
    simp only [hf1] at hany
    rw [hany] at hfp hpol
    simp only [Bool.false_eq_true, ↓reduceIte] at hfp hpol
    have hxs : xs ≠ [] := by intro h0; subst h0; exact hne rfl
    rw [marshal_len_no_padding hm₂ hfp hys, marshal_len_no_padding h₁ hf1 hxs, hL]
  | some cur =>
    simp only [hf1] at hany
    have hb₁ := marshal_len_one_padding h₁ hf1
    by_cases hw : (pol.apply (unpaddedLen f xs) cur).2 = true
    · -- the capture carries a padding extension of `n ≥ 1` bytes: reproduced by `AlwaysPadToLen`
      have hn := hp _ (hmem cur hf1 hw)
      rw [hw] at hany hb₁
      rw [hany] at hfp hpol
      simp only [↓reduceIte] at hfp hpol
      simp only [len, ↓reduceIte] at hb₁
      have hc1 : paddingCount st.exts = 1 := by
        rw [hcnt, hcn]
        have : paddingCount (emitted f pol xs) ≤ paddingCount xs := paddingCount_emitted pol _ xs
        have h1 : 1 ≤ paddingCount (emitted f pol xs) := paddingCount_pos _ hany
        omega
      have hm₂' : marshalNoECH st.f (.padTo bs₁.length) st.exts = .ok bs₂ := by rw [← hpol]; exact hm₂
      exact (C05.padTo_reproduces st.f bs₁.length _ st.exts bs₂ hn (by rw [hL]; omega) hm₂' hc1).1
    · have hw' : (pol.apply (unpaddedLen f xs) cur).2 = false := by simpa using hw
      rw [hw'] at hany hb₁
      rw [hany] at hfp hpol
      simp only [Bool.false_eq_true, ↓reduceIte] at hfp hpol
      simp only [len, Bool.false_eq_true, ↓reduceIte, Nat.add_zero] at hb₁
      rw [marshal_len_no_padding hm₂ hfp hys, hb₁, hL]

/-- **fingerprinting is idempotent**: the regenerated hello can be fingerprinted again (the Fingerprinter
does not refuse it), and the spec it yields is equivalent to the spec of the capture — equal cipher
suites, compression methods, version range and extension entries, up to the parts of a spec that follow
the capture's length or per-connection bytes (`specCore`: padding entries, GREASE-ECH sizes and config id).
(`AlwaysAddPadding` off; `matRepr`: the new connection's generated keys are non-empty and its GREASE-ECH
draws have the sizes the Fingerprinter accepts.) -/
theorem fp_idempotent (f : HelloFields) (pol : PadPolicy) (xs : List Ext) (bs₁ bs₂ : Bytes) (blunt : Bool) (m' : Material)
    (hrep : representable false false f pol xs = true) (h₁ : marshalNoECH f pol xs = .ok bs₁)
    (hm : matFits m') (hmr : matRepr m') (hne : emitted f pol xs ≠ [])
    (h₂ : roundtrip bs₁ blunt false false m' = some bs₂) :
    ∃ s₁ s₂, Import.rawClientHello (record bs₁) blunt false false = .ok s₁ ∧
      Import.rawClientHello (record bs₂) blunt false false = .ok s₂ ∧ specCore s₂ = specCore s₁ := by
  obtain ⟨hf, hc, hx, hE, hg, _⟩ := repr_unpack hrep
  obtain ⟨hpsk, hhost, hsid⟩ := hm
  obtain ⟨st, _, hm₂, hstf, hfill, htypes, hnopad, _⟩ := second_state hrep h₁ h₂
  obtain ⟨hlen, _, _⟩ := hnopad rfl
  have hfacts₁ := emitted_facts h₁
  have hfacts₂ := emitted_facts hm₂
  have hf₂ : fieldsOK st.f = true := by rw [hstf]; exact fields_ok_second hf hsid
  have hx₂ : st.exts.isEmpty = false := by
    cases hs : st.exts with
    | nil => rw [hs] at hlen; simp at hlen; exact absurd (List.length_eq_zero_iff.mp hlen.symm) hne
    | cons a r => rfl
  -- the non-padding part of the capture and of the regenerated list
  have hNPE : ∀ e ∈ NP (emitted f pol xs), isPadding e = false ∧ extOKb e = true ∧ extRepr false e = true ∧ early e = none := by
    intro e he
    obtain ⟨hmem, hnp⟩ := List.mem_filter.mp he
    exact ⟨by simpa using hnp, (hE e hmem).1, (hE e hmem).2.2, (hfacts₁ e hmem).1⟩
  have hNPE' : ∀ e ∈ NP (emitted f pol xs), isPadding e = false ∧ extOKb e = true ∧ hasWriterB e = true ∧ extRepr false e = true := by
    intro e he
    obtain ⟨hmem, hnp⟩ := List.mem_filter.mp he
    exact ⟨by simpa using hnp, (hE e hmem).1, (hE e hmem).2.1, (hE e hmem).2.2⟩
  have hgb : greaseBodiesOK 0 (NP (emitted f pol xs)) = true := greaseBodies_np 0 _ hg
  obtain ⟨hon, _⟩ := fill_shape m' _ hpsk hhost (NP (emitted f pol xs)) 0 m'.keys (NP st.exts) hNPE hgb hfill
  have hdec0 := fill_dec0 m' _ (NP (emitted f pol xs)) 0 m'.keys (NP st.exts) (fun e he => ⟨(hNPE' e he).2.1, (hNPE' e he).2.2.1⟩) hfill
  obtain ⟨hcore, hok₂⟩ := fill_second m' _ hpsk hmr (NP (emitted f pol xs)) 0 m'.keys (NP st.exts) hNPE' hgb hmr.1 hfill
  have hnpem : NP (emitted st.f st.pol st.exts) = NP st.exts :=
    np_emitted st.pol _ st.exts (marshal_each hm₂) (fun y hy => (hon y hy).2)
  -- the regenerated hello is within the class the Fingerprinter accepts
  have hE₂ : ∀ y ∈ emitted st.f st.pol st.exts, extOKb y = true ∧ hasWriterB y = true ∧ extRepr false y = true := by
    intro y hy
    by_cases c : isPadding y = true
    · cases y <;> first | exact ⟨rfl, rfl, rfl⟩ | simp [isPadding] at c
    · have hyin : y ∈ NP st.exts := by rw [← hnpem]; exact List.mem_filter.mpr ⟨hy, by simpa using c⟩
      exact hok₂ y hyin (hdec0 y hyin) (hfacts₂ y hy).2.1
  obtain ⟨s₁, hfr₁, hsp₁, hex₁⟩ := fingerprint_formula blunt false h₁ hf hx hE
  obtain ⟨s₂, hfr₂, hsp₂, hex₂⟩ := fingerprint_formula blunt false hm₂ hf₂ hx₂ hE₂
  refine ⟨s₁, s₂, by simp [Import.rawClientHello, hfr₁, Import.Out.bind], by simp [Import.rawClientHello, hfr₂, Import.Out.bind], ?_⟩
  -- compare the two specs
  have a1 : s₁.suites = f.cipherSuites.map unGrease := by have := congrArg Spec.suites hsp₁; simpa [toSpec, fpSpec] using this
  have a2 : s₂.suites = st.f.cipherSuites.map unGrease := by have := congrArg Spec.suites hsp₂; simpa [toSpec, fpSpec] using this
  have b1 : s₁.comp = f.compressionMethods := by have := congrArg Spec.comp hsp₁; simpa [toSpec, fpSpec] using this
  have b2 : s₂.comp = st.f.compressionMethods := by have := congrArg Spec.comp hsp₂; simpa [toSpec, fpSpec] using this
  have c1 : s₁.vmin = (if (emitted f pol xs).any (fun e => typeId e == 43) then 0 else 0x0301) := by
    have := congrArg Spec.vmin hsp₁; simpa [toSpec, fpSpec] using this
  have c2 : s₂.vmin = (if (emitted st.f st.pol st.exts).any (fun e => typeId e == 43) then 0 else 0x0301) := by
    have := congrArg Spec.vmin hsp₂; simpa [toSpec, fpSpec] using this
  have d1 : s₁.vmax = (if (emitted f pol xs).any (fun e => typeId e == 43) then 0 else f.vers) := by
    have := congrArg Spec.vmax hsp₁; simpa [toSpec, fpSpec] using this
  have d2 : s₂.vmax = (if (emitted st.f st.pol st.exts).any (fun e => typeId e == 43) then 0 else st.f.vers) := by
    have := congrArg Spec.vmax hsp₂; simpa [toSpec, fpSpec] using this
  have hcoreL : (NP (emitted st.f st.pol st.exts)).map (fun y => coreExt (norm y)) = (NP (emitted f pol xs)).map (fun e => coreExt (norm e)) := by
    rw [hnpem]; exact hcore
  have h43 : (emitted st.f st.pol st.exts).any (fun e => typeId e == 43) = (emitted f pol xs).any (fun e => typeId e == 43) := by
    rw [any43_np (emitted st.f st.pol st.exts), any43_np (emitted f pol xs),
      ← any43_core (NP (emitted st.f st.pol st.exts)) (fun e he => ⟨(hE₂ e (List.mem_filter.mp he).1).1, (hE₂ e (List.mem_filter.mp he).1).2.1⟩),
      ← any43_core (NP (emitted f pol xs)) (fun e he => ⟨(hNPE' e he).2.1, (hNPE' e he).2.2.1⟩), hcoreL]
  unfold specCore
  rw [a1, a2, b1, b2, c1, c2, d1, d2, h43, hex₁, hex₂, hstf]
  simp only [SpecCore.mk.injEq, true_and]
  refine ⟨unGrease_subst _ (boring_grease16 _) f.cipherSuites, ?_⟩
  have e1 : ∀ l : List Ext, (l.map norm).filter (fun e => !Import.isPadding e) = (NP l).map norm := by
    intro l
    have := np_norm l
    simp only [NP] at this ⊢
    rw [← this]
    apply List.filter_congr
    intro x _
    rw [isPadding_import]
  rw [e1, e1, List.map_map, List.map_map, ← hstf]
  exact hcoreL

/-- **a GREASE key share keeps its key_exchange bytes, whatever their length** (RFC 8701 does not fix
it; Chrome sends one byte): `KeyShareExtension.Write` on the body `Read` produced keeps every GREASE
entry's data at its index (group → placeholder) and drops the data of exactly the other entries (which
`ApplyPreset` regenerates). `ApplyPreset` skips GREASE entries, so these bytes are what the regenerated
hello carries — `shape` keeps them (`shapeExt` 51), hence `fp_roundtrip` and `fp_len_eq` depend on it. -/
theorem fp_grease_share_kept (ss : List (Nat × Bytes)) (hwf : WF (keyShare ss)) (realPSK : Bool) :
    ∃ ss', Ext.write realPSK 51 (body (keyShare ss)) = .ok (keyShare ss') ∧ ss'.length = ss.length ∧
      (∀ (i g : Nat) (d : Bytes), ss[i]? = some (g, d) → isGreaseU16 g = true → ss'[i]? = some (greasePlaceholder, d)) ∧
      (∀ (i g : Nat) (d : Bytes), ss[i]? = some (g, d) → isGreaseU16 g = false → ss'[i]? = some (g, [])) := by
  have h := C08.write_read_partial (keyShare ss) hwf rfl rfl (by intro k a c enc p he; cases he)
  have hflag : Ext.write realPSK 51 (body (keyShare ss)) = Ext.write (C08.realPskOf (keyShare ss)) 51 (body (keyShare ss)) := by
    simp [Ext.write]
  rw [norm_keyShare] at h
  refine ⟨_, by rw [hflag]; exact h, by simp, ?_, ?_⟩
  · intro i g d hi hg
    simp [List.getElem?_map, hi, unGrease_of_grease g hg]
  · intro i g d hi hg
    have hne : unGrease g ≠ greasePlaceholder := by
      rw [unGrease_of_not g hg]; intro e; rw [e] at hg; exact absurd hg (by decide)
    simp [List.getElem?_map, hi, hne]

/-- a GREASE share of 32 bytes in first position and of 2 bytes in last position: both kept. -/
example : Ext.write false 51 (body (keyShare [(0x1a1a, List.replicate 32 7), (29, List.replicate 32 1), (0x2a2a, [8, 9])])) =
    .ok (keyShare [(0x0a0a, List.replicate 32 7), (29, []), (0x0a0a, [8, 9])]) := by decide +kernel

/-- **a fingerprint is a function of the record and the flags only**: whatever the receiver held
before, and whatever is fingerprinted with the same receiver afterwards, the `i`-th result kept by value
is the fingerprint of the `i`-th record — so `fp_roundtrip` / `fp_len_eq` / `fp_idempotent` apply to every
element of such a sequence. (In the code this is `*chs = ClientHelloSpec{}` at the top of `FromRaw`: fresh
fields and a fresh extension array per call; the tie applies kept results after later calls.) -/
theorem fp_sequence_independent (recv : Import.Spec) (blunt realPSK : Bool) (raws : List Bytes) :
    fromRawSeq recv blunt realPSK raws = raws.map fun raw => Import.fromRaw raw blunt realPSK := by
  induction raws generalizing recv with
  | nil => rfl
  | cons raw rest ih => simp only [fromRawSeq, fromRawInto, List.map_cons, ih]

/-! ## Non-vacuity, and why the guard is needed -/

/-- a Chrome-like capture: GREASE, SNI, supported_groups with GREASE, ALPN, key_share (GREASE + X25519),
supported_versions with GREASE, GREASE-ECH, second GREASE (body `[0]`), padding, fake PSK last. -/
def exF : HelloFields :=
  { vers := 0x0303, random := List.replicate 32 7, sessionId := List.replicate 32 9,
    cipherSuites := [0x1a1a, 0x1301, 0xc02f], compressionMethods := [0] }
def exXs : List Ext :=
  [grease 0x2a2a [], sni [97, 46, 98, 99], supportedCurves [0x3a3a, 29, 23], alpn [[104, 50]],
   keyShare [(0x3a3a, [0]), (29, List.replicate 32 1)], supportedVersions [0x4a4a, 0x0304, 0x0303],
   greaseECH 1 1 5 (List.replicate 32 2) (List.replicate 144 3), grease 0x5a5a [0], padding 0 false,
   psk true false false [([1, 2, 3], 5)] [List.replicate 32 0]]
def exRaw1 : Bytes := match marshalNoECH exF .boring exXs with | .ok b => b | .err _ => []

/-- the new connection: other random / session id / GREASE seeds / key / ECH draws of the same sizes,
a server name of the same length. -/
def exM : Material :=
  { random := List.replicate 32 8, sessionId := List.replicate 32 6, seeds := ⟨0x11, 0x22, 0x33, 0x44, 0x55⟩,
    serverName := [120, 46, 121, 122], keys := [List.replicate 32 4], omitEmptyPsk := true,
    echKdf := 1, echAead := 1, echCid := 200, echEnc := List.replicate 32 5, echPayload := List.replicate 144 6 }

def exRaw2 (pad : Bool) : Bytes := (roundtrip exRaw1 false pad false exM).getD []

/-- hypotheses of the three theorems hold on this instance, the round trip succeeds, and the conclusions
are re-checked by evaluation: equal shapes (both `AlwaysAddPadding` settings), equal length 512 = 512, an
equivalent second fingerprint; and the bytes do differ (random, GREASE values, key, ECH, SNI). -/
example : representable false false exF .boring exXs = true ∧ marshalNoECH exF .boring exXs = .ok exRaw1 ∧
    exRaw1.length = 512 ∧ roundtrip exRaw1 false false false exM = some (exRaw2 false) ∧ (exRaw2 false).length = 512 ∧
    exRaw2 false ≠ exRaw1 ∧
    (parseCH (exRaw2 false)).map shape = (parseCH exRaw1).map shape ∧
    (parseCH (exRaw2 true)).map shape = (parseCH exRaw1).map shape ∧ (parseCH exRaw1).isSome = true ∧
    (match Import.rawClientHello (record exRaw1) false false false, Import.rawClientHello (record (exRaw2 false)) false false false with
     | .ok a, .ok b => specCore a == specCore b
     | _, _ => false) = true := by decide +kernel

example : matFits exM ∧ matRepr exM := by
  refine ⟨⟨rfl, by decide, by decide⟩, ⟨by decide, by decide, by decide, by decide⟩⟩

/-- **the guard is needed (1)**: a renegotiation_info carrying data (a renegotiation hello) is not
reproduced — `RenegotiationInfoExtension.Write` ignores the body. Not `representable`. -/
theorem reneg_data_not_reproduced :
    let xs := [renegInfo [1, 2, 3], supportedVersions [0x0304, 0x0303], keyShare [(29, List.replicate 32 1)]]
    representable false false exF .none xs = false ∧
    (match marshalNoECH exF .none xs with
     | .ok b₁ => (match roundtrip b₁ false false false exM with
        | some b₂ => (parseCH b₂).map shape != (parseCH b₁).map shape
        | none => false)
     | .err _ => false) = true := by decide +kernel

/-- **the guard is needed (2)**: a key share for a group `ApplyPreset` cannot generate a key for
(here ffdhe2048 = 256): the captured key is dropped by `KeyShareExtension.Write`, and `ApplyPreset` answers
"unsupported Curve in KeyShareExtension … fill the Data(key) field manually". Not `representable`. -/
theorem unsupported_share_not_applicable :
    let xs := [supportedVersions [0x0304, 0x0303], keyShare [(256, List.replicate 256 1)]]
    representable false false exF .none xs = false ∧
    (match marshalNoECH exF .none xs with
     | .ok b₁ => (roundtrip b₁ false false false exM).isNone
     | .err _ => false) = true := by decide +kernel

end C06
