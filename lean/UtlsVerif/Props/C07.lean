import UtlsVerif.ImportLemmas
import UtlsVerif.Props.C08
/-!
# C07 — spec importers never panic and valid captures always yield usable specs

Model: `Import.fromRaw` / `rawClientHello` (Fingerprinter, `FromRaw`, `ReadTLSExtensions`),
`Import.importTLS` (`ImportTLSClientHello`), `Import.jsonSpec` / `jsonClientHello`
(`ClientHelloSpec.UnmarshalJSON`). Every Go index / slice expression of the transcribed code is an
explicit `panic` outcome and every loop's fuel exhaustion an explicit `hang` outcome, so
`Out.Safe r` (`r ≠ panic ∧ r ≠ hang`) is a statement about the bounds checks and the progress of
the loops of the code, not a triviality of the result type.
-/
namespace C07
open Wire Ext Ext.Ext Import

/-! ## totality of the raw-bytes importer -/

/-- **`FromRaw` never panics and terminates**, for all input bytes and both control flags. -/
theorem fromRaw_total (raw : Bytes) (blunt realPSK : Bool) : (fromRaw raw blunt realPSK).Safe := by
  unfold fromRaw
  rw [cbU8_eq]; apply safe_need; intro ⟨contentType, s⟩ _; try simp only
  rw [cbU16_eq]; apply safe_need; intro ⟨recordVersion, s⟩ _; try simp only
  rw [cbSkip_eq]; apply safe_need; intro s _; try simp only
  split
  · exact safe_err
  rw [cbU8_eq]; apply safe_need; intro ⟨handshakeType, s⟩ _; try simp only
  rw [cbSkip_eq]; apply safe_need; intro s _; try simp only
  rw [cbU16_eq]; apply safe_need; intro ⟨handshakeVersion, s⟩ _; try simp only
  rw [cbSkip_eq]; apply safe_need; intro s _; try simp only
  split
  · exact safe_err
  rw [cbVec8_eq]; apply safe_need; intro ⟨sid, s⟩ _; try simp only
  rw [cbVec16_eq]; apply safe_need; intro ⟨suiteBytes, s⟩ _; try simp only
  split
  · exact safe_err
  rw [cbVec8_eq]; apply safe_need; intro ⟨comp, s⟩ _; try simp only
  split
  · exact safe_ok _
  rw [cbVec16_eq]; apply safe_need; intro ⟨extBytes, tail⟩ _; try simp only
  apply safe_bind (readExts_safe blunt realPSK _ _ _ _ (Nat.le_refl _))
  intro ⟨exts, sv⟩ _
  exact safe_ok _

/-- `Fingerprinter.RawClientHello` / `FingerprintClientHello` (all eight flag combinations). -/
theorem rawClientHello_total (raw : Bytes) (blunt pad realPSK : Bool) :
    (rawClientHello raw blunt pad realPSK).Safe := by
  unfold rawClientHello
  exact safe_bind (fromRaw_total raw blunt realPSK) (fun _ _ => safe_ok _)

example : fromRaw [22, 3, 1, 0, 0, 1, 0, 0, 0, 3, 3] false false = .err := by decide

/-- the one panic site *inside* a `Write`: the ECH decoder calls `cipherLen` on the AEAD id read from
the wire. Its id validation admits exactly the three ids `cipherLen` supports, so for **every** body
(every 16-bit KDF/AEAD value, registry-listed or not) the call is reached only with a supported id:
whenever the decoder gets as far as accepting the body, `cipherLen` of the decoded id is safe. (A
validation that admits more — e.g. every id of the IANA registry, which lists 0xFFFF "export-only" —
breaks this.) -/
theorem ech_write_cipherLen_safe (p : Bool) (bd : Bytes) (k a c : Nat) (enc pl : Bytes)
    (h : write p 65037 bd = .ok (greaseECH k a c enc pl)) : (cipherLen a).Safe ∧ (k = 1 ∨ k = 2 ∨ k = 3) := by
  simp only [write, Nat.reduceEqDiff, ↓reduceIte] at h
  unfold write.greaseEch at h
  repeat' split at h
  all_goals first
    | cases h
    | skip
  all_goals
    refine ⟨?_, by omega⟩
    unfold cipherLen
    rw [if_pos (by omega)]
    exact safe_ok _

example : cipherLen 0xFFFF = .panic := by decide

/-! ## totality of the tlsfingerprint.io map importer -/

private theorem writeOf_safe (id : Nat) (d : Bytes) : (writeOf id d).Safe := by
  unfold writeOf
  cases Ext.write false id d <;> first | exact safe_ok _ | exact safe_err

private theorem importKeyShare_safe (ks : Bytes) : (importKeyShare ks).Safe := by
  unfold importKeyShare
  split
  · exact safe_err
  · rename_i hlen
    have h4 : ks.length % 4 = 0 := by omega
    exact safe_bind (ksLoop_safe ks h4 ks.length 0 [] (by omega) (by omega)) (fun _ _ => writeOf_safe _ _)

private theorem importExt_safe (m : ImportMap) (id : Nat) : (importExt m id).Safe := by
  unfold importExt
  repeat' first
    | exact safe_err
    | exact safe_ok _
    | exact writeOf_safe _ _
    | exact importKeyShare_safe _
    | apply safe_ite
    | (apply safe_withKey; intro d)

private theorem importExts_safe (m : ImportMap) : ∀ (ids : List Nat) (acc : List SExt), (importExts m ids acc).Safe := by
  intro ids
  induction ids with
  | nil => intro acc; exact safe_ok _
  | cons id ids ih =>
    intro acc
    unfold importExts
    exact safe_bind (importExt_safe m id) (fun e _ => ih _)

/-- **`ImportTLSClientHello` never panics** on any map (ragged values included) — for the repaired
code. Before the repair of D04 this was false, see `d04_unchecked_key_share_panics`. -/
theorem importTLS_no_panic (m : ImportMap) (vmin0 vmax0 : Nat) : (importTLS m vmin0 vmax0).Safe := by
  unfold importTLS uint8to16
  repeat' split
  all_goals first
    | exact safe_err
    | skip
  all_goals simp only [Out.bind_ok]
  all_goals first
    | exact safe_err
    | exact safe_bind (importExts_safe m _ _) (fun _ _ => safe_ok _)

/-- D04 (repaired by a `fix:` commit): without the length check the key_share loop slices out of
range on the 3-byte value `[0, 29, 0]` — the replay input of the corpus. -/
theorem d04_unchecked_key_share_panics : importKeyShareUnchecked [0, 29, 0] = .panic := by decide

example : importTLS { cipherSuites := some [0x13, 1], compressionMethods := some [0], extensions := some [0, 51],
                      keyShare := some [0, 29, 0] } 0 0 = .err := by decide

set_option maxRecDepth 10000 in
example : (match importTLS { cipherSuites := some [0x13, 1], compressionMethods := some [0], extensions := some [0, 51],
                             keyShare := some [0, 29, 0, 32] } 0 0 with
           | .ok s => s.exts.map (·.ext)
           | _ => []) = [keyShare [(29, [])]] := by decide

/-! ## totality of the JSON spec importer -/

/-- **`ClientHelloSpec.UnmarshalJSON` never panics**, for every dictionary and every parsed JSON
value — for the repaired code (nil unmarshalers are an error). -/
theorem json_total (d : Dicts) (v : JVal) : (jsonSpec d v).Safe := by
  unfold jsonSpec
  split
  · exact safe_err
  · rename_i cs cm ex vmin vmax _
    split
    · exact safe_err
    · rename_i h
      cases cs <;> cases cm <;> cases ex <;> simp at h
      exact safe_ok _

/-- `Fingerprinter.UnmarshalJSONClientHello`. -/
theorem jsonClientHello_total (d : Dicts) (v : JVal) (pad : Bool) : (jsonClientHello d v pad).Safe := by
  unfold jsonClientHello
  exact safe_bind (json_total d v) (fun _ _ => safe_ok _)

/-- the defect repaired together with D04: without the nil check, a document lacking any of the three
required fields (here `{}`) makes `ClientHelloSpec()` dereference a nil unmarshaler. -/
theorem json_unchecked_nil_panics (d : Dicts) : jsonSpecUnchecked d (.obj []) = .panic := by
  simp [jsonSpecUnchecked, decodeTop, asStruct, ptrField, field, asUint, specOfUnmarshalers]

example (d : Dicts) : jsonSpec d (.obj []) = .err := by
  simp [jsonSpec, decodeTop, asStruct, ptrField, field, asUint]

/-! ## valid captures -/

/-- reference encoding of an extension list: `type ‖ uint16 length ‖ body` each (what the `Read`
methods emit, `C08.read_frame`). -/
def encExts : List Ext → Bytes
  | [] => []
  | e :: es => u16 (typeId e) ++ (vec16 (body e) ++ encExts es)

/-- a ClientHello as a structured value. -/
structure Hello where
  recVer : Nat
  hsVer : Nat
  random : Bytes
  sid : Bytes
  suites : List Nat
  comp : Bytes
  exts : List Ext

/-- the handshake message body. -/
def Hello.msg (h : Hello) : Bytes :=
  u16 h.hsVer ++ (h.random ++ (vec8 h.sid ++ (vec16 (encU16s h.suites) ++ (vec8 h.comp ++ (vec16 (encExts h.exts) ++ [])))))

/-- the TLS record carrying the ClientHello (what `FingerprintClientHello` is given). -/
def Hello.encode (h : Hello) : Bytes :=
  22 :: (u16 h.recVer ++ (u16 (h.msg.length + 4) ++ (1 :: (u24 h.msg.length ++ h.msg))))

/-- an extension the importer can represent: field values within wire limits, of a type with a
`Write`, actually emitted by `Read`, GREASE-ECH with a non-empty key, PSK of the requested flavour. -/
def ExtOK (realPSK : Bool) (e : Ext) : Prop :=
  WF e ∧ C08.hasWriter e = true ∧ early e = none ∧ (body e).length < 65536 ∧
  (∀ k a c enc p, e = greaseECH k a c enc p → enc ≠ []) ∧ (isPsk e = true → C08.realPskOf e = realPSK)

/-- a well-formed, representable hello. -/
def Hello.OK (h : Hello) (realPSK : Bool) : Prop :=
  h.recVer < 65536 ∧ h.hsVer < 65536 ∧ h.random.length = 32 ∧ h.sid.length < 256 ∧
  2 * h.suites.length < 65536 ∧ (∀ x ∈ h.suites, x < 65536) ∧ h.comp.length < 256 ∧
  (encExts h.exts).length < 65536 ∧ ∀ e ∈ h.exts, ExtOK realPSK e

private theorem typeId_lt (e : Ext) (hwf : WF e) (hw : C08.hasWriter e = true) : typeId e < 65536 := by
  cases e <;> simp [typeId, WF, C08.hasWriter] at * <;> first | omega | (split <;> omega)

private theorem write_flag (p q : Bool) (id : Nat) (bd : Bytes) (h : id ≠ 41) : write p id bd = write q id bd := by
  simp [write, h]

private theorem not_grease_41 (v : Nat) (h : isGreaseU16 v = true) : v ≠ 41 := by
  intro hv; subst hv; exact absurd h (by decide)

private theorem typeId_ne_41 (e : Ext) (hwf : WF e) (hw : C08.hasWriter e = true) (hp : isPsk e = false) : typeId e ≠ 41 := by
  cases e <;> simp [typeId, WF, C08.hasWriter, isPsk] at * <;> first | (split <;> omega) | skip
  case grease v bd => exact not_grease_41 v hwf.1

private theorem write_ok (realPSK : Bool) (e : Ext) (h : ExtOK realPSK e) :
    write realPSK (typeId e) (body e) = .ok (norm e) := by
  obtain ⟨hwf, hw, he, _, hech, hpsk⟩ := h
  rw [← C08.write_read_partial e hwf hw he hech]
  by_cases hp : isPsk e = true
  · rw [hpsk hp]
  · have hp' : isPsk e = false := by simpa using hp
    exact write_flag _ _ _ _ (typeId_ne_41 e hwf hw hp')

private theorem encExts_cons_ne (e : Ext) (es : List Ext) : encExts (e :: es) ≠ [] := by
  simp [encExts, u16]

/-- the extension loop on a reference-encoded list rebuilds every extension, in order, up to the
documented normalisation. -/
private theorem readExts_enc (blunt realPSK : Bool) :
    ∀ (es : List Ext), (∀ e ∈ es, ExtOK realPSK e) →
    ∀ (fuel : Nat) (acc : List SExt) (sv : Bool), (encExts es).length ≤ fuel →
      readExts blunt realPSK fuel (encExts es) acc sv =
        .ok (acc ++ es.map (fun e => ofWrite (norm e)), sv || es.any (fun e => typeId e == 43)) := by
  intro es
  induction es with
  | nil => intro _ fuel acc sv _; cases fuel <;> simp [readExts, encExts]
  | cons e es ih =>
    intro hall fuel acc sv hf
    have he := hall e (by simp)
    have hrest : ∀ x ∈ es, ExtOK realPSK x := fun x hx => hall x (by simp [hx])
    cases fuel with
    | zero => simp [encExts] at hf
    | succ fuel =>
      rw [readExts_succ _ _ _ _ _ _ (encExts_cons_ne e es)]
      simp only [encExts] at hf ⊢
      rw [cbU16_eq, readU16_u16, Nat.mod_eq_of_lt (typeId_lt e he.1 he.2.1), Out.need_some]
      simp only
      rw [cbVec16_eq, readVec16_vec16 _ _ he.2.2.2.1, Out.need_some]
      simp only
      rw [write_ok realPSK e he]
      simp only
      rw [ih hrest fuel _ _ (by simp at hf ⊢; omega)]
      simp [List.append_assoc, Bool.or_assoc]

private theorem take?_of_len {n : Nat} (x r : Bytes) (h : x.length = n) : take? n (x ++ r) = some (x, r) := by
  subst h; exact take?_append x r

private theorem setPadTo_ext (n : Nat) (xs : List SExt) : (setPadTo n xs).map (·.ext) = xs.map (·.ext) := by
  induction xs with
  | nil => rfl
  | cons x xs ih =>
    unfold setPadTo
    split
    · simp
    · simp [ih]

/-- **a well-formed representable ClientHello always imports**: `FromRaw` of its record returns a
spec (never an error) holding the cipher suites (GREASE → placeholder), the compression methods, the
versions (zeroed when supported_versions is present) and — in order — every extension up to the
documented normalisation of `C08` (`norm`: per-connection values dropped, GREASE values replaced by
the placeholder); the first padding extension gets `AlwaysPadToLen(len(raw) − 5)`. -/
theorem valid_gives_spec (h : Hello) (blunt realPSK : Bool) (hok : h.OK realPSK) :
    fromRaw h.encode blunt realPSK = .ok
      { suites := h.suites.map unGrease, comp := h.comp,
        vmin := if h.exts.any (fun e => typeId e == 43) then 0 else h.recVer,
        vmax := if h.exts.any (fun e => typeId e == 43) then 0 else h.hsVer,
        exts := setPadTo (h.encode.length - 5) (h.exts.map fun e => ofWrite (norm e)) } := by
  obtain ⟨hrv, hhv, hrand, hsid, hsl, hsu, hcomp, hext, hall⟩ := hok
  have hsl' : (encU16s h.suites).length < 65536 := by simp; omega
  have hne : (vec16 (encExts h.exts) ++ [] : Bytes).isEmpty = false := by simp [vec16, u16]
  unfold fromRaw
  generalize hlen : h.encode.length = L
  unfold Hello.encode Hello.msg
  rw [cbU8_eq]; simp only [readU8, Out.need_some]
  rw [cbU16_eq, readU16_u16, Nat.mod_eq_of_lt hrv]; simp only [Out.need_some]
  rw [cbSkip_eq, take?_of_len _ _ (u16_length _)]; simp only [Option.map_some, Out.need_some]
  rw [if_neg (by simp)]
  rw [cbU8_eq]; simp only [readU8, Out.need_some]
  rw [cbSkip_eq, take?_of_len _ _ (u24_length _)]; simp only [Option.map_some, Out.need_some]
  rw [cbU16_eq, readU16_u16, Nat.mod_eq_of_lt hhv]; simp only [Out.need_some]
  rw [cbSkip_eq, take?_of_len _ _ hrand]; simp only [Option.map_some, Out.need_some]
  rw [if_neg (by simp)]
  rw [cbVec8_eq, readVec8_vec8 _ _ hsid]; simp only [Out.need_some]
  rw [cbVec16_eq, readVec16_vec16 _ _ hsl']; simp only [Out.need_some]
  rw [decU16s_encU16s _ hsu]; simp only
  rw [cbVec8_eq, readVec8_vec8 _ _ hcomp]; simp only [Out.need_some]
  rw [hne]; simp only [Bool.false_eq_true, if_false]
  rw [cbVec16_eq, readVec16_vec16 _ _ hext]; simp only [Out.need_some]
  rw [readExts_enc blunt realPSK h.exts hall _ _ _ (Nat.le_refl _)]
  simp [Out.bind]

private theorem typeId_norm (e : Ext) (hwf : WF e) (hw : C08.hasWriter e = true) :
    typeId (norm e) = unGrease (typeId e) := by
  cases e
  case grease v bd =>
    have hg : isGreaseU16 v = true := hwf.1
    simp [norm, typeId, unGrease, hg]
  case generic id d => simp [C08.hasWriter] at hw
  case alps n ps => cases n <;> simp [norm, typeId, unGrease, isGreaseU16]
  case channelId o => cases o <;> simp [norm, typeId, unGrease, isGreaseU16]
  case psk f o se ids bs => cases f <;> simp [norm, typeId, unGrease, isGreaseU16]
  all_goals simp [norm, typeId, unGrease, isGreaseU16]

/-- corollary: the imported extension list reproduces the captured extension types in order (a GREASE
type is replaced by the placeholder `0x0a0a`, which `ApplyPreset` re-randomises). -/
theorem valid_spec_types (h : Hello) (blunt realPSK : Bool) (hok : h.OK realPSK) :
    ∃ s, fromRaw h.encode blunt realPSK = .ok s ∧
      s.exts.map (fun x => typeId x.ext) = h.exts.map (fun e => unGrease (typeId e)) := by
  refine ⟨_, valid_gives_spec h blunt realPSK hok, ?_⟩
  simp only
  have h1 := setPadTo_ext (h.encode.length - 5) (h.exts.map fun e => ofWrite (norm e))
  have h2 : ∀ xs : List SExt, xs.map (fun x => typeId x.ext) = (xs.map (·.ext)).map typeId := by
    intro xs; simp
  rw [h2, h1]
  simp only [List.map_map]
  apply List.map_congr_left
  intro e he
  obtain ⟨hwf, hw, _⟩ := hok.2.2.2.2.2.2.2.2 e he
  exact typeId_norm e hwf hw

/-! ## the imported spec passes the assertions `ApplyPreset` panics on -/

def isTicket : Ext → Bool
  | .sessionTicket _ => true
  | _ => false

/-- the two `uAssert`s of `sessionController.syncSessionExts` (run by `ApplyPreset`): a second
session-ticket extension, or a pre_shared_key extension that is not last, is a **panic**. `n` =
`numSessionExt` so far. -/
def sessionAsserts : List Ext → Nat → Bool
  | [], _ => true
  | e :: rest, n =>
    if isTicket e then n == 0 && sessionAsserts rest 1
    else if isPsk e then rest.isEmpty && sessionAsserts rest n
    else sessionAsserts rest n

private theorem norm_flags (e : Ext) : isTicket (norm e) = isTicket e ∧ isPsk (norm e) = isPsk e := by
  cases e <;> first | exact ⟨rfl, rfl⟩ | skip
  case psk f o se ids bs => cases f <;> exact ⟨rfl, rfl⟩

private theorem sessionAsserts_map (f : Ext → Ext) (hf : ∀ e, isTicket (f e) = isTicket e ∧ isPsk (f e) = isPsk e) :
    ∀ (xs : List Ext) (n : Nat), sessionAsserts (xs.map f) n = sessionAsserts xs n := by
  intro xs
  induction xs with
  | nil => intro n; rfl
  | cons x xs ih =>
    intro n
    simp only [List.map_cons, sessionAsserts, (hf x).1, (hf x).2, ih, List.isEmpty_map]

private theorem isPadding_flags (e : Ext) (h : isPadding e = true) : isTicket e = false ∧ isPsk e = false := by
  cases e <;> simp [isPadding] at h <;> exact ⟨rfl, rfl⟩

/-- inserting the padding extension where `AlwaysAddPadding` puts it does not disturb the assertions. -/
private theorem addPadScan_some : ∀ (xs ys : List SExt) (n : Nat), addPadScan xs = some ys →
    sessionAsserts (ys.map (·.ext)) n = sessionAsserts (xs.map (·.ext)) n := by
  intro xs
  induction xs with
  | nil => intro ys n h; simp [addPadScan] at h
  | cons x xs ih =>
    intro ys n h
    unfold addPadScan at h
    split at h
    · cases h; rfl
    · split at h
      · cases h
        simp [sessionAsserts, boringPad, isTicket, isPsk]
      · rename_i hpad hpsk
        cases hs : addPadScan xs with
        | none => simp [hs] at h
        | some zs =>
          simp [hs] at h
          subst h
          simp only [List.map_cons, sessionAsserts, ih zs _ hs, List.isEmpty_map]
          have : zs.isEmpty = xs.isEmpty := by
            cases xs with
            | nil => simp [addPadScan] at hs
            | cons a as =>
              cases zs with
              | nil =>
                unfold addPadScan at hs
                split at hs
                · cases hs
                · split at hs
                  · cases hs
                  · cases h2 : addPadScan as <;> simp [h2] at hs
              | cons _ _ => rfl
          rw [this]

private theorem addPadScan_none : ∀ (xs : List SExt) (n : Nat), addPadScan xs = none →
    sessionAsserts ((xs ++ [boringPad]).map (·.ext)) n = sessionAsserts (xs.map (·.ext)) n := by
  intro xs
  induction xs with
  | nil => intro n _; simp [sessionAsserts, boringPad, isTicket, isPsk]
  | cons x xs ih =>
    intro n h
    unfold addPadScan at h
    split at h
    · cases h
    · split at h
      · cases h
      · rename_i hpad hpsk
        have hn : addPadScan xs = none := by
          cases hs : addPadScan xs with
          | none => rfl
          | some zs => simp [hs] at h
        have hpsk' : isPsk x.ext = false := by simpa using hpsk
        simp only [List.cons_append, List.map_cons, sessionAsserts, hpsk', ih _ hn]
        simp

private theorem alwaysAddPadding_asserts (s : Spec) (n : Nat) :
    sessionAsserts ((alwaysAddPadding s).exts.map (·.ext)) n = sessionAsserts (s.exts.map (·.ext)) n := by
  unfold alwaysAddPadding
  cases h : addPadScan s.exts with
  | some ys => exact addPadScan_some _ _ _ h
  | none => exact addPadScan_none _ _ h

/-- **the spec of a valid capture does not trip `ApplyPreset`'s assertions**: if the captured hello
has at most one session_ticket extension and its pre_shared_key extension (if any) is last — which
RFC 8446 §4.2 requires of every ClientHello — then so does the spec returned by the Fingerprinter,
with or without `AlwaysAddPadding` (padding goes in front of the PSK extension). Conversely a hello
violating this imports to a spec on which `ApplyPreset` panics (observed on the real code; such
hellos are not valid ClientHellos). -/
theorem valid_spec_passes_session_asserts (h : Hello) (blunt pad realPSK : Bool) (hok : h.OK realPSK)
    (hs : sessionAsserts h.exts 0 = true) :
    ∃ s, rawClientHello h.encode blunt pad realPSK = .ok s ∧ sessionAsserts (s.exts.map (·.ext)) 0 = true := by
  have key : sessionAsserts ((setPadTo (h.encode.length - 5) (h.exts.map fun e => ofWrite (norm e))).map (·.ext)) 0 = true := by
    rw [setPadTo_ext]
    have : (h.exts.map fun e => ofWrite (norm e)).map (·.ext) = h.exts.map norm := by simp [ofWrite]
    rw [this, sessionAsserts_map norm norm_flags]
    exact hs
  unfold rawClientHello
  rw [valid_gives_spec h blunt realPSK hok]
  simp only [Out.bind_ok]
  refine ⟨_, rfl, ?_⟩
  cases pad
  · simpa using key
  · simp only [if_true]
    rw [alwaysAddPadding_asserts]
    exact key

/-- non-vacuity: a hello with GREASE, supported_versions, session_ticket and padding is `OK`. -/
example : (Hello.mk 0x0301 0x0303 (List.replicate 32 7) [] [0x1301, 0x0a0a] [0]
    [grease 0x1a1a [], ems, supportedVersions [0x0304, 0x0303], sessionTicket [1, 2], padding 3 true]).OK false := by
  refine ⟨by decide, by decide, by decide, by decide, by decide, by decide, by decide, by decide, ?_⟩
  intro e he
  simp only [List.mem_cons, List.not_mem_nil, or_false] at he
  rcases he with rfl | rfl | rfl | rfl | rfl <;>
    exact ⟨by simp [WF, isGreaseU16], rfl, rfl, by decide, (by intro _ _ _ _ _ h; cases h), (by intro h; cases h)⟩

example : sessionAsserts [grease 0x1a1a [], ems, sessionTicket [1, 2], padding 3 true, psk true false false [] []] 0 = true := by decide
example : sessionAsserts [sessionTicket [], ems, sessionTicket []] 0 = false := by decide
example : sessionAsserts [psk true false false [] [], ems] 0 = false := by decide

end C07
