import UtlsVerif.ExtLemmas
/-!
# C08 — every extension's encoder and decoder agree

For **every** extension value `e` (all 29 constructors, all field values):
* `read_len` — whenever `Read` succeeds it writes exactly `Len()` bytes;
* `read_short` — on any buffer shorter than `Len()` it fails with `io.ErrShortBuffer` (the early
  exits that write nothing at all — empty SNI, disabled padding, empty PSK — are stated in `early_writes_nothing`);
* `read_frame` — within wire limits the bytes are `type ‖ uint16 len ‖ body` with the length field exact;
* `write_read_partial` — (full statement `write_read`: no `hech` hypothesis; it is **false today**, see
  `write_read_ech_empty_key_witness`: a GREASE ECH body with an empty encapsulated key is regenerated
  with a 32-byte key — known finding `ech-empty-enc`) for every type with a `Write`, decoding the body `Read` produced gives back the
  extension up to the documented normalisation `norm`, and `norm` is idempotent.
-/
namespace C08
open Wire Ext Ext.Ext

private theorem pskEarly_cases (fake om sess : Bool) (ids : List (Bytes × Nat)) (binders : List Bytes) :
    (pskEarly fake om sess ids binders = some (.err "empty-psk")) ∨
    (pskEarly fake om sess ids binders = some .eof0 ∧ (fake = true ∨ sess = true → pskExtLen ids binders = 0)) ∨
    (pskEarly fake om sess ids binders = some (.err "binder-size")) ∨
    (pskEarly fake om sess ids binders = none ∧ (fake = true ∨ sess = true) ∧ pskExtLen ids binders ≠ 0) := by
  unfold pskEarly
  by_cases c1 : om = false ∧ (if fake = true ∨ sess = true then pskExtLen ids binders else 0) = 0
  · rw [if_pos c1]; exact .inl rfl
  · rw [if_neg c1]
    by_cases c0 : fake = false ∧ sess = false
    · rw [if_pos c0]; refine .inr (.inl ⟨rfl, ?_⟩); intro h; rcases h with h | h <;> simp_all
    · rw [if_neg c0]
      by_cases c2 : fake = true ∧ (binders.all fun x => validBinderLen x.length) = false
      · rw [if_pos c2]; exact .inr (.inr (.inl rfl))
      · rw [if_neg c2]
        by_cases c3 : pskExtLen ids binders = 0
        · rw [if_pos c3]; exact .inr (.inl ⟨rfl, fun _ => c3⟩)
        · rw [if_neg c3]; refine .inr (.inr (.inr ⟨rfl, ?_, c3⟩))
          cases fake <;> cases sess <;> simp_all

private theorem pskEarly_not_ok (fake om sess : Bool) (ids : List (Bytes × Nat)) (binders : List Bytes) (bs : Bytes) :
    pskEarly fake om sess ids binders ≠ some (.ok bs) := by
  rcases pskEarly_cases fake om sess ids binders with h | ⟨h, _⟩ | h | ⟨h, _⟩ <;> rw [h] <;> intro h' <;> cases h'

private theorem pskEarly_none {fake om sess : Bool} {ids : List (Bytes × Nat)} {binders : List Bytes}
    (h : pskEarly fake om sess ids binders = none) :
    (fake = true ∨ sess = true) ∧ pskExtLen ids binders ≠ 0 := by
  rcases pskEarly_cases fake om sess ids binders with h' | ⟨h', _⟩ | h' | ⟨_, h'⟩
  · rw [h'] at h; cases h
  · rw [h'] at h; cases h
  · rw [h'] at h; cases h
  · exact h'

theorem early_not_ok (e : Ext) (r : ReadRes) (he : early e = some r) : ∀ bs, r ≠ .ok bs := by
  intro bs hr; subst hr
  cases e <;> simp only [early] at he
  case sni name => split at he <;> cases he
  case padding n w => split at he <;> cases he
  case psk fake om sess ids binders => exact pskEarly_not_ok _ _ _ _ _ _ he
  all_goals cases he

theorem late_not_ok (e : Ext) (r : ReadRes) (he : late e = some r) : ∀ bs, r ≠ .ok bs := by
  intro bs hr; subst hr
  cases e <;> simp only [late] at he
  case compressCert a => split at he <;> cases he
  case pskModes a => split at he <;> cases he
  case supportedVersions a => split at he <;> cases he
  all_goals cases he

/-- the length field the code writes is exactly the number of body bytes it writes. -/
theorem body_length (e : Ext) (h : early e = none) : (body e).length = lenField e := by
  cases e <;> simp [body, lenField, encU8s] <;> try omega
  case psk fake om sess ids binders =>
    have hne := (pskEarly_none (by simpa [early] using h)).2
    unfold pskExtLen at hne ⊢
    split at hne
    · exact absurd rfl hne
    · rename_i hc; simp only [hc]; simp; omega

/-- `Len()` is the header plus the length field (whenever `Read` does not bail out early). -/
theorem len_eq (e : Ext) (h : early e = none) : len e = 4 + lenField e := by
  cases e <;> simp [len, lenField] <;> try omega
  case sni name =>
    simp only [early] at h
    split at h
    · cases h
    · rename_i hne
      have : Sni.hostnameInSNI name ≠ [] := by
        intro h0; apply hne; simp [h0]
      simp [this]; omega
  case padding n w =>
    simp only [early] at h
    split at h
    · rename_i hw; simp [hw]
    · cases h
  case psk fake om sess ids binders =>
    have hh : pskEarly fake om sess ids binders = none := by simpa [early] using h
    have hfs := (pskEarly_none hh).1
    have hne := (pskEarly_none hh).2
    simp only [hfs, if_true]
    unfold pskExtLen at hne ⊢
    split at hne
    · exact absurd rfl hne
    · rename_i hc; simp only [hc]; simp; omega

theorem need_eq_len (e : Ext) (h : early e = none) : need e = len e := by
  cases e <;> simp [need, len]
  case psk fake om sess ids binders =>
    rcases (pskEarly_none (by simpa [early] using h)).1 with h | h <;> simp [h]

/-- **Len = bytes written**: whenever `Read` succeeds, it wrote exactly `Len()` bytes. -/
theorem read_len (e : Ext) (n : Nat) (bs : Bytes)
    (h : Ext.read e n = .ok bs) : bs.length = len e := by
  unfold Ext.read at h
  cases he : early e with
  | some r => simp only [he] at h; exact absurd h (early_not_ok e r he bs)
  | none =>
    simp only [he] at h
    split at h
    · cases h
    · cases hl : late e with
      | some r => simp only [hl] at h; exact absurd h (late_not_ok e r hl bs)
      | none =>
        simp only [hl] at h
        cases h
        simp [body_length e he, len_eq e he]; omega

/-- **short buffers**: any buffer shorter than `Len()` gives `io.ErrShortBuffer`, never partial success. -/
theorem read_short (e : Ext) (n : Nat)
    (he : early e = none) (hn : n < len e) : Ext.read e n = .short := by
  unfold Ext.read
  rw [he, need_eq_len e he]
  simp [hn]

/-- a real PSK extension that bails out before looking at the buffer has `Len() = 0`
(so `MarshalClientHelloNoECH` reserves nothing for it). -/
theorem early_len_zero_psk (om sess : Bool) (ids : List (Bytes × Nat)) (binders : List Bytes) (r : ReadRes)
    (he : early (psk false om sess ids binders) = some r) : len (psk false om sess ids binders) = 0 := by
  simp only [early] at he
  simp only [len]
  rcases pskEarly_cases false om sess ids binders with h | ⟨h, h0⟩ | h | ⟨h, _⟩
  · unfold pskEarly at h
    by_cases c1 : om = false ∧ (if false = true ∨ sess = true then pskExtLen ids binders else 0) = 0
    · exact c1.2
    · rw [if_neg c1] at h
      cases sess <;> simp_all
  · cases sess
    · simp
    · simpa using h0 (.inr rfl)
  · unfold pskEarly at h
    cases sess <;> simp at h
    all_goals (repeat' split at h) <;> simp_all
  · rw [h] at he; cases he

/-- the early exits never report success: they return 0 bytes (`io.EOF` / an error). -/
theorem early_writes_nothing (e : Ext) (n : Nat) (r : ReadRes) (he : early e = some r) :
    Ext.read e n = r ∧ ∀ bs, r ≠ .ok bs := by
  unfold Ext.read; rw [he]
  exact ⟨rfl, early_not_ok e r he⟩

/-- a `uint16` length field in range is not truncated. -/
private theorem u16_exact (n : Nat) (bd : Bytes) (hl : bd.length = n) : u16 n ++ bd = vec16 bd := by
  simp [vec16, hl]

/-- **framing**: the written bytes are `type ‖ uint16-length-prefixed body` (the length field the
code computes is the body's length; it is exact on the wire iff it is `< 65536`, see `Wire.readVec16_vec16`). -/
theorem read_frame (e : Ext) (n : Nat) (bs : Bytes)
    (h : Ext.read e n = .ok bs) : bs = u16 (typeId e) ++ vec16 (body e) := by
  unfold Ext.read at h
  cases he : early e with
  | some r => simp only [he] at h; exact absurd h (early_not_ok e r he bs)
  | none =>
    simp only [he] at h
    split at h
    · cases h
    · cases hl : late e with
      | some r => simp only [hl] at h; exact absurd h (late_not_ok e r hl bs)
      | none =>
        simp only [hl] at h
        cases h
        rw [List.append_assoc, u16_exact _ _ (body_length e he)]

/-- which constructors `ExtensionFromID` can rebuild with a `Write` (everything except the three
types without one: GenericExtension, QUICTransportParametersExtension, CookieExtension). -/
def hasWriter : Ext → Bool
  | generic _ _ => false
  | quicTP _ => false
  | cookie _ => false
  | _ => true

/-- PSK flavour `ReadTLSExtensions` is asked for. -/
def realPskOf : Ext → Bool
  | psk fake _ _ _ _ => !fake
  | _ => false

private theorem stripDots_last (s : Bytes) : (Sni.stripTrailingDots s).getLast? ≠ some 46 := by
  unfold Sni.stripTrailingDots
  rw [List.getLast?_reverse]
  have := List.head?_dropWhile_not (fun x => decide (x = (46 : UInt8))) s.reverse
  intro h
  rw [h] at this
  simp at this

private theorem host_last (name : Bytes) : (Sni.hostnameInSNI name).getLast? ≠ some 46 := by
  unfold Sni.hostnameInSNI
  split
  · simp
  · exact stripDots_last name

private theorem u16s_wf (a : List Nat) (h1 : a ≠ []) (h2 : 2 + 2 * a.length < 65536) (h3 : ∀ x ∈ a, x < 65536)
    (mk : List Nat → Ext) :
    write.u16List (u16 (2 * a.length) ++ encU16s a) mk = .ok (mk a) := by
  unfold write.u16List
  have hl : (encU16s a).length = 2 * a.length := by simp
  have : u16 (2 * a.length) ++ encU16s a = vec16 (encU16s a) ++ [] := by simp [vec16, hl]
  rw [this, readVec16_vec16 _ _ (by rw [hl]; omega)]
  have hne : (encU16s a).isEmpty = false := by
    cases a with
    | nil => exact absurd rfl h1
    | cons x xs => simp [encU16s, u16]
  simp only [hne, Bool.false_eq_true, if_false, decU16s_encU16s a h3]

private theorem protos_wf (ps : List Bytes) (h1 : ps ≠ []) (h2 : vec8sLen ps + 2 < 65536)
    (h3 : ∀ p ∈ ps, p ≠ [] ∧ p.length < 256) (mk : List Bytes → Ext) :
    write.protoList (u16 (vec8sLen ps) ++ encVec8s ps) mk = .ok (mk ps) := by
  unfold write.protoList
  have hl : (encVec8s ps).length = vec8sLen ps := by simp
  have : u16 (vec8sLen ps) ++ encVec8s ps = vec16 (encVec8s ps) ++ [] := by simp [vec16, hl]
  rw [this, readVec16_vec16 _ _ (by rw [hl]; omega)]
  have hne : (encVec8s ps).isEmpty = false := by
    cases ps with
    | nil => exact absurd rfl h1
    | cons x xs => simp [encVec8s, vec8, u8]
  simp only [hne, Bool.false_eq_true, if_false, decVec8s_enc ps h3]

/-- **decode ∘ encode = normalise**: for every extension with a `Write`, field values within wire
limits and a successful `Read` (no early exit), `Write` applied to the body `Read` produced rebuilds
the extension up to the documented normalisation `norm`. -/
theorem write_read_partial (e : Ext) (hwf : WF e) (hw : hasWriter e = true) (he : early e = none)
    (hech : ∀ k a c enc p, e = greaseECH k a c enc p → enc ≠ []) :
    write (realPskOf e) (typeId e) (body e) = .ok (norm e) := by
  cases e
  case sni name =>
    simp only [WF] at hwf
    simp only [early] at he
    have hne : (Sni.hostnameInSNI name) ≠ [] := by
      intro h0; rw [h0] at he; simp at he
    have hlast := host_last name
    simp only [typeId, body, norm, write, Nat.reduceEqDiff, ↓reduceIte]
    generalize Sni.hostnameInSNI name = h at *
    have e1 : u16 (h.length + 3) ++ ([0] ++ (u16 h.length ++ h)) = vec16 ([0] ++ vec16 h) ++ [] := by
      have hl0 : ([0] ++ (u16 h.length ++ h) : Bytes).length = h.length + 3 := by simp; omega
      simp only [vec16, hl0, List.append_nil]
    rw [List.append_assoc, List.append_assoc, e1, readVec16_vec16 _ _ (by simp; omega)]
    have hne2 : ([0] ++ vec16 h : Bytes).isEmpty = false := by simp
    simp only [hne2, Bool.false_eq_true, if_false]
    have hlen : ([0] ++ vec16 h : Bytes).length = (h.length + 2) + 1 := by simp; omega
    rw [hlen]
    unfold write.sniNames
    simp only [List.singleton_append, readU8]
    have hne3 : h.isEmpty = false := by cases h <;> simp_all
    have : vec16 h = vec16 h ++ [] := by simp
    rw [this, readVec16_vec16 _ _ (by omega)]
    simp [hne3, hlast]
    cases hh : h.length + 2 <;> simp [write.sniNames]
  case statusRequest => decide
  case supportedCurves c =>
    obtain ⟨h1, h2, h3⟩ := hwf
    simp only [typeId, body, norm, write, Nat.reduceEqDiff, ↓reduceIte]
    have hl : (encU16s c).length = 2 * c.length := by simp
    have : u16 (2 * c.length) ++ encU16s c = vec16 (encU16s c) ++ [] := by simp [vec16, hl]
    rw [this, readVec16_vec16 _ _ (by rw [hl]; omega)]
    have hne : (encU16s c).isEmpty = false := by
      cases c with
      | nil => exact absurd rfl h1
      | cons x xs => simp [encU16s, u16]
    simp only [hne, Bool.false_eq_true, if_false, decU16s_encU16s c h3]
  case supportedPoints p =>
    obtain ⟨h1, h2, h3⟩ := hwf
    simp only [typeId, body, norm, write, Nat.reduceEqDiff, ↓reduceIte]
    have hl : (encU8s p).length = p.length := by simp
    have : u8 p.length ++ encU8s p = vec8 (encU8s p) ++ [] := by simp [vec8, hl]
    rw [this, readVec8_vec8 _ _ (by rw [hl]; omega)]
    have hne : (encU8s p).isEmpty = false := by
      cases p with
      | nil => exact absurd rfl h1
      | cons x xs => simp [encU8s]
    simp only [hne, Bool.false_eq_true, if_false, decU8s_encU8s p h3]
  case sigAlgs a =>
    obtain ⟨h1, h2, h3⟩ := hwf
    simp only [typeId, body, norm, write, Nat.reduceEqDiff, ↓reduceIte]
    exact u16s_wf a h1 h2 h3 _
  case statusRequestV2 => decide
  case sigAlgsCert a =>
    obtain ⟨h1, h2, h3⟩ := hwf
    simp only [typeId, body, norm, write, Nat.reduceEqDiff, ↓reduceIte]
    exact u16s_wf a h1 h2 h3 _
  case delegatedCreds a =>
    obtain ⟨h1, h2, h3⟩ := hwf
    simp only [typeId, body, norm, write, Nat.reduceEqDiff, ↓reduceIte]
    exact u16s_wf a h1 h2 h3 _
  case alpn ps =>
    obtain ⟨h1, h2, h3⟩ := hwf
    simp only [typeId, body, norm, write, Nat.reduceEqDiff, ↓reduceIte]
    exact protos_wf ps h1 h2 h3 _
  case alps nw ps =>
    obtain ⟨h1, h2, h3⟩ := hwf
    cases nw <;> simp only [typeId, body, norm, write, Nat.reduceEqDiff, ↓reduceIte] <;> exact protos_wf ps h1 h2 h3 _
  case sct => simp only [typeId, body, norm, write, Nat.reduceEqDiff, ↓reduceIte] <;> simp [readU8, readU16, readVec16, take?]
  case generic id d => simp [hasWriter] at hw
  case ems => simp only [typeId, body, norm, write, Nat.reduceEqDiff, ↓reduceIte] <;> simp [readU8, readU16, readVec16, take?]
  case npn => simp only [typeId, body, norm, write, Nat.reduceEqDiff, ↓reduceIte] <;> simp [readU8, readU16, readVec16, take?]
  case quicTP m => simp [hasWriter] at hw
  case cookie c => simp [hasWriter] at hw
  case channelId old => cases old <;> simp only [typeId, body, norm, write, Nat.reduceEqDiff, ↓reduceIte, Bool.false_eq_true]
  case renegInfo d => simp only [typeId, body, norm, write, Nat.reduceEqDiff, ↓reduceIte] <;> simp [readU8, readU16, readVec16, take?]
  case sessionTicket t => simp only [typeId, body, norm, write, Nat.reduceEqDiff, ↓reduceIte] <;> simp [readU8, readU16, readVec16, take?]
  case padding n w => simp only [typeId, body, norm, write, Nat.reduceEqDiff, ↓reduceIte] <;> simp [readU8, readU16, readVec16, take?]
  case grease v bd =>
    obtain ⟨h1, h2, h3⟩ := hwf
    have hne : ∀ k : Nat, isGreaseU16 k = false → v ≠ k := by
      intro k hk hv; rw [hv] at h1; rw [h1] at hk; cases hk
    show write false v bd = .ok (grease greasePlaceholder bd)
    unfold write
    have n0 : ¬ v = 0 := hne 0 (by decide)
    have n5 : ¬ v = 5 := hne 5 (by decide)
    have n10 : ¬ v = 10 := hne 10 (by decide)
    have n11 : ¬ v = 11 := hne 11 (by decide)
    have n13 : ¬ v = 13 := hne 13 (by decide)
    have n50 : ¬ v = 50 := hne 50 (by decide)
    have n34 : ¬ v = 34 := hne 34 (by decide)
    have n16 : ¬ v = 16 := hne 16 (by decide)
    have n17513 : ¬ v = 17513 := hne 17513 (by decide)
    have n17613 : ¬ v = 17613 := hne 17613 (by decide)
    have n17 : ¬ v = 17 := hne 17 (by decide)
    have n18 : ¬ v = 18 := hne 18 (by decide)
    have n21 : ¬ v = 21 := hne 21 (by decide)
    have n23 : ¬ v = 23 := hne 23 (by decide)
    have n24 : ¬ v = 24 := hne 24 (by decide)
    have n27 : ¬ v = 27 := hne 27 (by decide)
    have n28 : ¬ v = 28 := hne 28 (by decide)
    have n35 : ¬ v = 35 := hne 35 (by decide)
    have n41 : ¬ v = 41 := hne 41 (by decide)
    have n43 : ¬ v = 43 := hne 43 (by decide)
    have n45 : ¬ v = 45 := hne 45 (by decide)
    have n51 : ¬ v = 51 := hne 51 (by decide)
    have n57 : ¬ v = 57 := hne 57 (by decide)
    have n13172 : ¬ v = 13172 := hne 13172 (by decide)
    have n30031 : ¬ v = 30031 := hne 30031 (by decide)
    have n30032 : ¬ v = 30032 := hne 30032 (by decide)
    have n65037 : ¬ v = 65037 := hne 65037 (by decide)
    have n65281 : ¬ v = 65281 := hne 65281 (by decide)
    simp only [n0, n5, n10, n11, n13, n50, n34, n16, n17513, n17613, n17, n18, n21, n23, n24, n27, n28, n35, n41, n43, n45, n51, n57, n13172, n30031, n30032, n65037, n65281, if_false, ↓reduceIte]
    rw [if_pos h1]
  case compressCert a =>
    obtain ⟨h1, h2⟩ := hwf
    simp only [typeId, body, norm, write, Nat.reduceEqDiff, ↓reduceIte]
    have hl : (encU16s a).length = 2 * a.length := by simp
    have : u8 (2 * a.length) ++ encU16s a = vec8 (encU16s a) ++ [] := by simp [vec8, hl]
    rw [this, readVec8_vec8 _ _ (by rw [hl]; omega)]
    simp only [decU16s_encU16s a h2]
  case pskModes m =>
    obtain ⟨h1, h2⟩ := hwf
    simp only [typeId, body, norm, write, Nat.reduceEqDiff, ↓reduceIte]
    have hl : (encU8s m).length = m.length := by simp
    have : u8 m.length ++ encU8s m = vec8 (encU8s m) ++ [] := by simp [vec8, hl]
    rw [this, readVec8_vec8 _ _ (by rw [hl]; omega)]
    simp only [decU8s_encU8s m h2]
  case supportedVersions v =>
    obtain ⟨h1, h2, h3⟩ := hwf
    simp only [typeId, body, norm, write, Nat.reduceEqDiff, ↓reduceIte]
    have hl : (encU16s v).length = 2 * v.length := by simp
    have : u8 (2 * v.length) ++ encU16s v = vec8 (encU16s v) ++ [] := by simp [vec8, hl]
    rw [this, readVec8_vec8 _ _ (by rw [hl]; omega)]
    have hne : (encU16s v).isEmpty = false := by
      cases v with
      | nil => exact absurd rfl h1
      | cons x xs => simp [encU16s, u16]
    simp only [hne, Bool.false_eq_true, if_false, decU16s_encU16s v h3]
  case recordSizeLimit l =>
    simp only [WF] at hwf
    simp only [typeId, body, norm, write, Nat.reduceEqDiff, ↓reduceIte]
    have : u16 l = u16 l ++ [] := by simp
    rw [this, readU16_u16, Nat.mod_eq_of_lt hwf]
  case tokenBinding ma mi p =>
    obtain ⟨h1, h2, h3, h4⟩ := hwf
    simp only [typeId, body, norm, write, Nat.reduceEqDiff, ↓reduceIte]
    have hl : (encU8s p).length = p.length := by simp
    have : ([b ma, b mi] ++ u8 p.length ++ encU8s p : Bytes) = b ma :: b mi :: (vec8 (encU8s p) ++ []) := by
      simp [vec8, hl]
    rw [this]
    simp only
    rw [readVec8_vec8 _ _ (by rw [hl]; omega)]
    simp [decU8s_encU8s p h4, Nat.mod_eq_of_lt h1, Nat.mod_eq_of_lt h2]
  case keyShare ss =>
    obtain ⟨h1, h2⟩ := hwf
    simp only [typeId, body, norm, write, Nat.reduceEqDiff, ↓reduceIte]
    have hl : (encShares ss).length = sharesLen ss := by simp
    have : u16 (sharesLen ss) ++ encShares ss = vec16 (encShares ss) ++ [] := by simp [vec16, hl]
    rw [this, readVec16_vec16 _ _ (by rw [hl]; omega)]
    have hdl : ∀ x ∈ ss, x.1 < 65536 ∧ x.2 ≠ [] ∧ x.2.length < 65536 := by
      intro x hx
      obtain ⟨a1, a2⟩ := h2 x hx
      refine ⟨a1, a2, ?_⟩
      have := share_le_sharesLen ss x hx
      omega
    simp only [decSharesFuel_enc ss hdl _ (Nat.le_refl _)]
  case psk fake om sess ids binders =>
    obtain ⟨h1, h2, h3⟩ := hwf
    have hne := (pskEarly_none he).2
    cases fake
    · simp [typeId, body, norm, write, realPskOf]
    · simp only [typeId, body, norm, write, realPskOf, Nat.reduceEqDiff, ↓reduceIte, Bool.not_true,
        Bool.false_eq_true]
      have hx : pskExtLen ids binders = 4 + 2 + identitiesLen ids + 2 + vec8sLen binders := by
        unfold pskExtLen at hne ⊢
        split at hne
        · exact absurd rfl hne
        · rename_i hc; rw [if_neg hc]
      have hil := length_le_identitiesLen ids
      have hbl := length_le_vec8sLen binders
      unfold write.fakePsk
      simp only [List.append_assoc]
      rw [readU16_u16, Nat.mod_eq_of_lt (by omega)]
      simp only
      rw [pskIds_enc ids _ (by omega) h2 _ [] (by simp; omega)]
      simp only
      rw [readU16_u16, Nat.mod_eq_of_lt (by omega)]
      simp only
      rw [pskBinders_enc binders (by omega) h3 _ [] (by simp; omega)]
      simp
  case greaseECH kdf aead cid enc payload =>
    obtain ⟨h1, h2, h3, h4, h5⟩ := hwf
    simp only [typeId, body, norm, write, Nat.reduceEqDiff, ↓reduceIte]
    unfold write.greaseEch
    have e0 : ([0] ++ u16 kdf ++ u16 aead ++ [b cid] ++ u16 enc.length ++ enc ++ u16 payload.length ++ payload : Bytes)
        = (0 : UInt8) :: (u16 kdf ++ (u16 aead ++ (b cid :: (vec16 enc ++ (vec16 payload ++ []))))) := by
      simp [vec16]
    have hk : kdf % 65536 = kdf := by rcases h1 with h | h | h <;> subst h <;> rfl
    have ha : aead % 65536 = aead := by rcases h2 with h | h | h <;> subst h <;> rfl
    rw [e0]
    simp only [readU8]
    rw [if_neg (by simp), readU16_u16]
    simp only
    rw [readU16_u16]
    simp only [hk, ha]
    rw [if_neg (fun hn => hn h1), if_neg (fun hn => hn h2)]
    rw [readVec16_vec16 _ _ (by omega)]
    simp only
    rw [readVec16_vec16 _ _ (by omega)]
    simp only
    have hne : enc.length ≠ 0 := by
      intro h0; exact hech _ _ _ _ _ rfl (List.length_eq_zero_iff.mp h0)
    simp [hne]
    rw [if_neg (by omega)]
    simp [Nat.mod_eq_of_lt h3]

/-- the full statement (without `hech`) fails on the unchanged code: an empty encapsulated key is not
"regenerated at the same size" — the decoded extension carries a 32-byte key. -/
theorem write_read_ech_empty_key_witness :
    WF (greaseECH 1 1 7 [] (List.replicate 16 0)) ∧
    hasWriter (greaseECH 1 1 7 [] (List.replicate 16 0)) = true ∧
    early (greaseECH 1 1 7 [] (List.replicate 16 0)) = none ∧
    write false 65037 (body (greaseECH 1 1 7 [] (List.replicate 16 0))) ≠
      .ok (norm (greaseECH 1 1 7 [] (List.replicate 16 0))) := by
  refine ⟨by simp [WF], rfl, rfl, by decide⟩

/-- **ECH-GREASE: "regenerated at the same sizes"** — for every non-empty encapsulated key, of *any*
length (not only the 32 bytes of X25519 that `init()` would draw by itself: 65/97/133 for the NIST KEMs,
1, 33, …), decoding the body `Read` produced yields an extension whose key and payload have the decoded
lengths, so the re-encoding has the same total size and the same deterministic prefix. -/
theorem ech_sizes_preserved (k a c : Nat) (enc pl : Bytes) (hwf : WF (greaseECH k a c enc pl)) (hne : enc ≠ []) :
    ∃ enc' pl', write false 65037 (body (greaseECH k a c enc pl)) = .ok (greaseECH k a c enc' pl') ∧
      enc'.length = enc.length ∧ pl'.length = pl.length ∧
      len (greaseECH k a c enc' pl') = len (greaseECH k a c enc pl) ∧
      (body (greaseECH k a c enc' pl')).take 8 = (body (greaseECH k a c enc pl)).take 8 := by
  refine ⟨List.replicate enc.length 0, List.replicate pl.length 0, ?_, by simp, by simp, by simp [len], ?_⟩
  · have h := write_read_partial (greaseECH k a c enc pl) hwf rfl rfl
      (by intro k' a' c' enc' p' he; cases he; exact hne)
    simpa [realPskOf, typeId, norm] using h
  · simp [body, List.take_append, u16]

example : WF (greaseECH 1 1 7 (List.replicate 65 9) (List.replicate 144 3)) ∧ (List.replicate 65 (9 : UInt8)) ≠ [] := by
  refine ⟨by simp [WF], by simp⟩

/-- the normalisation is idempotent: normalised extensions are fixed points of decode ∘ encode. -/
theorem norm_idem (e : Ext) : norm (norm e) = norm e := by
  cases e <;> simp [norm, unGrease, greasePlaceholder, isGreaseU16]
  case supportedCurves c => intro a _; split <;> simp_all [isGreaseU16]
  case supportedVersions c => intro a _; split <;> simp_all [isGreaseU16]
  case keyShare s =>
    intro a bd _
    have hph : isGreaseU16 2570 = true := by decide
    by_cases hc : (a / 256 = a % 256 → ¬a % 16 = 10) → a = 2570
    · rw [if_pos hc]; simp
    · simp only [hc, if_false]
  case psk f o se i bd => cases f <;> simp [norm]

/-- the three types without a `Write` are reported as unknown by `ExtensionFromID`-dispatch
(the fingerprinter then keeps them verbatim as `GenericExtension` or fails). -/
theorem no_writer_unknown (bd : Bytes) :
    write false 57 bd = .unknown ∧ write false 44 bd = .unknown := by
  constructor <;> simp [write, isGreaseU16]

end C08
