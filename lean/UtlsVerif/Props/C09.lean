import UtlsVerif.RandomizedLemmas
import UtlsVerif.RandomizedTables
/-!
# C09 — randomized fingerprints are reproducible and internally consistent

`Randomized.gen` transcribes `generateRandomizedSpec` draw for draw. **Determinism** is functionality: `gen` is a
function of (client, weights, coin, tables, serverName, nextProtos, the SHAKE stream of the seed, the stream
of the "ALPS"-salted seed) — the same `ClientHelloID` gives the same spec; the implementation's side of this
(same seed ⇒ same stream ⇒ same spec) is checked on every run by building each spec three times.

Every theorem below holds for **every** stream, **every** coin function (`Coin`, so independently of float
rounding in `FlipWeightedCoin`), every weight vector, every client variant, every serverName / nextProtos
(`none` = the supplied stream log ended, nothing is claimed):

* `suite_order`, `tls13_rules`, `alps_needs_alpn`, `keyshare_subset_groups`, `hybrid_has_share` — the
  consistency clauses of the property, stated with the very predicates the driver evaluates on the
  implementation's spec (`suiteOrderOk`, …);
* `first_cipher_kept` — `removeRandomCiphers` never removes index 0;
* `weights_corners_absent` / `weights_corners_present` — weights whose coin never / always comes up on the
  draws of the stream (0.0 / 1.0) make the corresponding feature absent / present unless a TLS 1.3 rule
  forces it (`absentOk` / `presentOk`);
* `real_tables_wf`, `rc4_ids_complete`, `real_spec_consistent` — instances for the tables regenerated from the
  working tree (`Gen.C09Suites`).

**D05 (repaired, /repo `fix:` commit).** Before the repair the X25519MLKEM768 key share was decided by its own
coin (`KeyShare_Append_RandomGroups`, second flip) independently of `supported_groups`, so
`keyshare_subset_groups` and `hybrid_has_share` were false (coin outcomes tls13 = true, first `CurveIDs_Append_X25519`
flip = false, second `KeyShare_Append_RandomGroups` flip = true: share without group; and first flip = true,
share flip = false: group without share). The model is the repaired code (the flip is still drawn, its value
unused); the formerly failing seeds are regression cases in `corpus/C09/`.
-/
namespace C09
open Randomized Prng Wire

private theorem mem_extsOf {sni : Bytes} {protos : List Bytes} {d : Drawn} {e : RExt} : e ∈ extsOf sni protos d ↔
    e = .sni sni ∨ e = .sessionTicket [] false false ∨ e = .sigAlgs d.algs ∨ e = .points [0] ∨ e = .curves d.curves ∨
    (d.withAlpn = true ∧ e = .alpn (if protos.isEmpty then [protoH2, protoHttp11] else protos)) ∨
    ((d.pad || d.tls13) = true ∧ e = ePadding) ∨ (d.st = true ∧ e = .statusRequest) ∨ (d.sc = true ∧ e = .sct) ∨
    (d.rn = true ∧ e = eReneg) ∨ (d.em = true ∧ e = .ems) ∨
    (d.tls13 = true ∧ (e = .keyShare (d.shares.map fun g => (g, [])) ∨ e = .pskModes [1] ∨
      e = .versions (versRange d.vmin vTLS13) ∨ (d.alps = true ∧ e = .alps [protoH2]))) := by
  simp only [extsOf, optList, tailList, List.mem_append, List.mem_cons, List.mem_ite_nil_right, List.not_mem_nil, or_false]
  grind

variable {sni : Bytes} {protos : List Bytes} {d : Drawn} {sp : Spec}

private theorem mem_sigAlgs (hp : sp.exts.Perm (extsOf sni protos d)) {x : Nat} : x ∈ sp.sigAlgs ↔ x ∈ d.algs := by
  simp only [Spec.sigAlgs, List.mem_flatMap, hp.mem_iff, mem_extsOf]
  constructor
  · rintro ⟨e, he, hx⟩
    rcases he with rfl | rfl | rfl | rfl | rfl | ⟨_, rfl⟩ | ⟨_, rfl⟩ | ⟨_, rfl⟩ | ⟨_, rfl⟩ | ⟨_, rfl⟩ | ⟨_, rfl⟩ | ⟨_, rfl | rfl | rfl | ⟨_, rfl⟩⟩ <;>
      simp_all [RExt.sigAlgIds, ePadding, eReneg]
  · intro hx
    exact ⟨.sigAlgs d.algs, by simp, hx⟩

private theorem mem_curves (hp : sp.exts.Perm (extsOf sni protos d)) {x : Nat} : x ∈ sp.curves ↔ x ∈ d.curves := by
  simp only [Spec.curves, List.mem_flatMap, hp.mem_iff, mem_extsOf]
  constructor
  · rintro ⟨e, he, hx⟩
    rcases he with rfl | rfl | rfl | rfl | rfl | ⟨_, rfl⟩ | ⟨_, rfl⟩ | ⟨_, rfl⟩ | ⟨_, rfl⟩ | ⟨_, rfl⟩ | ⟨_, rfl⟩ | ⟨_, rfl | rfl | rfl | ⟨_, rfl⟩⟩ <;>
      simp_all [RExt.curveIds, ePadding, eReneg]
  · intro hx
    exact ⟨.curves d.curves, by simp, hx⟩

private theorem mem_shares (hp : sp.exts.Perm (extsOf sni protos d)) {x : Nat} :
    x ∈ sp.shareGroups ↔ d.tls13 = true ∧ x ∈ d.shares := by
  simp only [Spec.shareGroups, List.mem_flatMap, hp.mem_iff, mem_extsOf]
  constructor
  · rintro ⟨e, he, hx⟩
    rcases he with rfl | rfl | rfl | rfl | rfl | ⟨_, rfl⟩ | ⟨_, rfl⟩ | ⟨_, rfl⟩ | ⟨_, rfl⟩ | ⟨_, rfl⟩ | ⟨_, rfl⟩ | ⟨_, rfl | rfl | rfl | ⟨_, rfl⟩⟩ <;>
      simp_all [RExt.shareGroups, ePadding, eReneg]
  · rintro ⟨ht, hx⟩
    exact ⟨.keyShare (d.shares.map fun g => (g, [])), by simp [ht], by simpa [RExt.shareGroups] using hx⟩

private theorem hasAlpn_eq (hp : sp.exts.Perm (extsOf sni protos d)) : sp.hasAlpn = d.withAlpn := by
  rw [Bool.eq_iff_iff]
  simp only [Spec.hasAlpn, List.any_eq_true, hp.mem_iff, mem_extsOf]
  constructor
  · rintro ⟨e, he, hx⟩
    rcases he with rfl | rfl | rfl | rfl | rfl | ⟨h, rfl⟩ | ⟨_, rfl⟩ | ⟨_, rfl⟩ | ⟨_, rfl⟩ | ⟨_, rfl⟩ | ⟨_, rfl⟩ | ⟨_, rfl | rfl | rfl | ⟨_, rfl⟩⟩ <;>
      simp_all [RExt.isAlpn, ePadding, eReneg]
  · intro h
    exact ⟨_, Or.inr (Or.inr (Or.inr (Or.inr (Or.inr (Or.inl ⟨h, rfl⟩))))), rfl⟩

private theorem hasAlps_eq (hp : sp.exts.Perm (extsOf sni protos d)) : sp.hasAlps = (d.tls13 && d.alps) := by
  rw [Bool.eq_iff_iff]
  simp only [Spec.hasAlps, List.any_eq_true, hp.mem_iff, mem_extsOf, Bool.and_eq_true]
  constructor
  · rintro ⟨e, he, hx⟩
    rcases he with rfl | rfl | rfl | rfl | rfl | ⟨h, rfl⟩ | ⟨_, rfl⟩ | ⟨_, rfl⟩ | ⟨_, rfl⟩ | ⟨_, rfl⟩ | ⟨_, rfl⟩ | ⟨_, rfl | rfl | rfl | ⟨_, rfl⟩⟩ <;>
      simp_all [RExt.isAlps, ePadding, eReneg]
  · rintro ⟨h1, h2⟩
    exact ⟨.alps [protoH2], by simp [h1, h2], rfl⟩

private theorem hasPadding_eq (hp : sp.exts.Perm (extsOf sni protos d)) : sp.hasPadding = (d.pad || d.tls13) := by
  rw [Bool.eq_iff_iff]
  simp only [Spec.hasPadding, List.any_eq_true, hp.mem_iff, mem_extsOf]
  constructor
  · rintro ⟨e, he, hx⟩
    rcases he with rfl | rfl | rfl | rfl | rfl | ⟨h, rfl⟩ | ⟨_, rfl⟩ | ⟨_, rfl⟩ | ⟨_, rfl⟩ | ⟨_, rfl⟩ | ⟨_, rfl⟩ | ⟨_, rfl | rfl | rfl | ⟨_, rfl⟩⟩ <;>
      simp_all [RExt.isPadding, ePadding, eReneg]
  · intro h
    exact ⟨ePadding, by simp [h], rfl⟩


private theorem is13_eq (hmax : sp.versMax = if d.tls13 then vTLS13 else vTLS12) : (sp.versMax == vTLS13) = d.tls13 := by
  rw [hmax]; cases d.tls13 <;> simp [vTLS12, vTLS13]

private theorem imp_true {a b : Bool} : imp a b = true ↔ (a = true → b = true) := by
  cases a <;> cases b <;> simp [imp]

/-! ## the property, for every stream, every coin function, every weight vector -/

/-- **Suites are ordered TLS 1.3 first, then TLS 1.2-only, then older ones** (`cls`), whatever the table
contents, provided the table ids are distinct and disjoint from the TLS 1.3 list (`TablesWF`). -/
theorem suite_order (client : Client) (w : Weights) (coin : Coin) (tbl : List (Nat × Bool)) (t13 : List Nat)
    (sni : Bytes) (protos : List Bytes) (s sA : Stream) (sp : Spec) (hwf : TablesWF tbl t13 = true)
    (h : gen client w coin tbl t13 sni protos s sA = some sp) : suiteOrderOk tbl t13 sp = true := by
  obtain ⟨d, F, _, hs, _, _, _⟩ := gen_inv h
  simp only [suiteOrderOk, decide_eq_true_eq, hs]
  exact F.order hwf

/-- **TLS 1.3 rules**: a spec with `TLSVersMax = 1.3` carries none of the RC4 suites (`rc4`: any set of ids
contained in the three `removeRC4Ciphers` names), includes RSA-PSS, a padding extension and the
supported_versions list `[max … min]`. -/
theorem tls13_rules (rc4 : List Nat) (hrc4 : ∀ c, c ∈ rc4 → c ∈ rc4Ids)
    (client : Client) (w : Weights) (coin : Coin) (tbl : List (Nat × Bool)) (t13 : List Nat)
    (sni : Bytes) (protos : List Bytes) (s sA : Stream) (sp : Spec)
    (h : gen client w coin tbl t13 sni protos s sA = some sp) : tls13RulesOk rc4 sp = true := by
  obtain ⟨d, F, hp, hs, hmin, hmax, _⟩ := gen_inv h
  unfold tls13RulesOk
  cases ht : d.tls13 with
  | false => rw [hmax, ht]; simp [vTLS12, vTLS13]
  | true =>
    simp only [ht, if_true] at hmax
    have h1 : sp.suites.all (fun c => !rc4.contains c) = true := by
      rw [List.all_eq_true]
      intro c hc
      rw [hs] at hc
      simp only [Bool.not_eq_eq_eq_not, Bool.not_true, List.contains_eq_mem, decide_eq_false_iff_not]
      intro hcr
      exact F.norc4 ht c (hrc4 c hcr) hc
    have h2 : sp.sigAlgs.any (rsaPssSchemes.contains ·) = true := by
      rw [List.any_eq_true]
      refine ⟨sPSSWithSHA256, (mem_sigAlgs hp).2 ?_, by decide⟩
      obtain ⟨b1, b2, b3, b4, hperm, _⟩ := F.sig
      rw [hperm.mem_iff, ht]
      simp [sigList]
    have h3 : sp.hasPadding = true := by rw [hasPadding_eq hp, ht]; simp
    have h4 : sp.exts.contains (.versions (versRange sp.versMin sp.versMax)) = true := by
      rw [List.contains_iff_mem, hp.mem_iff, mem_extsOf, hmin, hmax]
      simp [ht]
    simp only [h1, h2, h3, h4, Bool.and_self, Bool.or_true]

/-- **ALPS appears only with ALPN.** -/
theorem alps_needs_alpn (client : Client) (w : Weights) (coin : Coin) (tbl : List (Nat × Bool)) (t13 : List Nat)
    (sni : Bytes) (protos : List Bytes) (s sA : Stream) (sp : Spec)
    (h : gen client w coin tbl t13 sni protos s sA = some sp) : alpsNeedsAlpnOk sp = true := by
  obtain ⟨d, F, hp, _, _, _, _⟩ := gen_inv h
  unfold alpsNeedsAlpnOk
  rw [hasAlps_eq hp, hasAlpn_eq hp]
  cases ha : d.withAlpn with
  | false => rw [F.alps' ha]; simp
  | true => simp

/-- **Every key-share group is listed in supported_groups.** -/
theorem keyshare_subset_groups (client : Client) (w : Weights) (coin : Coin) (tbl : List (Nat × Bool))
    (t13 : List Nat) (sni : Bytes) (protos : List Bytes) (s sA : Stream) (sp : Spec)
    (h : gen client w coin tbl t13 sni protos s sA = some sp) : keyShareSubsetOk sp = true := by
  obtain ⟨d, F, hp, _, _, _, _⟩ := gen_inv h
  unfold keyShareSubsetOk
  rw [List.all_eq_true]
  intro g hg
  obtain ⟨ht, hg⟩ := (mem_shares hp).1 hg
  rw [List.contains_iff_mem, mem_curves hp]
  obtain ⟨wa, t, vmin, suites, algs, hyb, x, p521, pad, st, sc, rn, em, first, rg, alps⟩ := d
  simp only at ht
  subst ht
  simp only [Drawn.shares, Drawn.curves] at hg ⊢
  cases hyb <;> cases x <;> cases p521 <;> cases first <;> cases rg <;>
    simp_all [shareList, curveList, gX25519MLKEM768, gX25519, gP256, gP384, gP521] <;> omega

/-- **Every hybrid post-quantum group in supported_groups carries a key share.** -/
theorem hybrid_has_share (client : Client) (w : Weights) (coin : Coin) (tbl : List (Nat × Bool))
    (t13 : List Nat) (sni : Bytes) (protos : List Bytes) (s sA : Stream) (sp : Spec)
    (h : gen client w coin tbl t13 sni protos s sA = some sp) : hybridHasShareOk sp = true := by
  obtain ⟨d, F, hp, _, _, _, _⟩ := gen_inv h
  unfold hybridHasShareOk
  rw [List.all_eq_true]
  intro g hg
  rw [mem_curves hp] at hg
  simp only [Bool.or_eq_true, Bool.not_eq_eq_eq_not, Bool.not_true, List.contains_eq_mem, decide_eq_false_iff_not,
    decide_eq_true_eq, mem_shares hp]
  obtain ⟨wa, t, vmin, suites, algs, hyb, x, p521, pad, st, sc, rn, em, first, rg, alps⟩ := d
  simp only [Drawn.shares, Drawn.curves] at hg ⊢
  cases t <;> cases hyb <;> cases x <;> cases p521 <;> cases first <;> cases rg <;>
    simp_all [shareList, curveList, hybridGroups, gX25519MLKEM768, gX25519Kyber768Draft00, gX25519, gP256, gP384, gP521] <;> omega

/-- **`removeRandomCiphers` never removes the first cipher**: the result starts with the same suite and is a
sub-sequence of the input, for every coin, weight and stream. -/
theorem first_cipher_kept (coin : Coin) (wb : Nat) (x : Nat) (xs ys : List Nat) (s r : Stream)
    (h : removeRandom coin wb (x :: xs) s = some (ys, r)) : ∃ zs, ys = x :: zs ∧ zs.Sublist xs := by
  unfold removeRandom at h
  rw [andThen_eq_some] at h
  obtain ⟨zs, r2, hz, h⟩ := h
  simp only [Option.some.injEq, Prod.mk.injEq] at h
  obtain ⟨rfl, rfl⟩ := h
  exact ⟨zs, rfl, (removeLoop_inv xs _ _ _ _ hz).2.1⟩


/-! ### weight corners -/

/-- the weight with bit pattern `b` never comes up on the draws of the two streams, also when scaled by
`i/n` in `removeRandomCiphers` (weight 0.0: `f > 1.0 - 0.0` is false for every draw). -/
def NeverUp (coin : Coin) (s sA : Stream) (b : Nat) : Prop :=
  CoinConst coin s (.bits b) false ∧ CoinConst coin sA (.bits b) false ∧ ∀ j n, CoinConst coin s (.scaled b j n) false

/-- the weight with bit pattern `b` comes up on every draw of the two streams (weight 1.0: `f > 0.0` holds
for every non-zero draw). -/
def AlwaysUp (coin : Coin) (s sA : Stream) (b : Nat) : Prop :=
  CoinConst coin s (.bits b) true ∧ CoinConst coin sA (.bits b) true

private theorem not_contains {l : List Nat} {x : Nat} : l.contains x = false ↔ x ∉ l := by simp

private theorem not_containsE {l : List RExt} {x : RExt} : l.contains x = false ↔ x ∉ l := by simp

/-- **Weight 0 ⇒ feature absent** unless a TLS 1.3 rule forces it (RSA-PSS, X25519, padding in a TLS 1.3 spec):
every clause of `absentOk`, for every weight pattern `off` declares never-up. -/
theorem weights_corners_absent (off : Nat → Bool) (client : Client) (w : Weights) (coin : Coin)
    (tbl : List (Nat × Bool)) (t13 : List Nat) (sni : Bytes) (protos : List Bytes) (s sA : Stream) (sp : Spec)
    (hoff : ∀ b, off b = true → NeverUp coin s sA b)
    (h : gen client w coin tbl t13 sni protos s sA = some sp) : absentOk off client w tbl t13 sp = true := by
  obtain ⟨d, F, hp, hs, hmin, hmax, _⟩ := gen_inv h
  obtain ⟨b1, b2, b3, b4, hsig, f1, f2, f3, f4, f4'⟩ := F.sig
  have his := is13_eq hmax
  have K : ∀ {wf : Nat} {b : Bool}, off wf = true → Flipped coin s (.bits wf) b → b = false :=
    fun ho hf => hf.eq_of_const (hoff _ ho).1
  have KA : ∀ {wf : Nat} {b : Bool}, off wf = true → Flipped coin sA (.bits wf) b → b = false :=
    fun ho hf => hf.eq_of_const (hoff _ ho).2.1
  have msig : ∀ x, x ∈ sp.sigAlgs ↔ x ∈ sigList b1 b2 (b3 || d.tls13) b4 := fun x => by
    rw [mem_sigAlgs hp, hsig.mem_iff]
  have mcur : ∀ x, x ∈ sp.curves ↔ x ∈ curveList d.tls13 d.hyb d.x d.p521 := fun x => mem_curves hp
  have msh : ∀ x, x ∈ sp.shareGroups ↔ d.tls13 = true ∧ x ∈ d.shares := fun x => mem_shares hp
  have mext : ∀ e, e ∈ sp.exts ↔ e ∈ extsOf sni protos d := fun e => hp.mem_iff
  unfold absentOk
  simp only [Bool.and_eq_true, imp_true, his, and_assoc, not_contains, not_containsE, beq_iff_eq, Bool.not_eq_true',
    Bool.or_eq_true, List.contains_iff_mem, msig, mcur, msh, mext, mem_extsOf]
  generalize hcc : (b3 || d.tls13) = c at *
  refine ⟨?_, ?_, ?_, ?_, ?_, ?_, ?_, ?_, ?_, ?_, ?_, ?_, ?_, ?_, ?_, ?_, ?_⟩
  · rintro ⟨ho, hc⟩
    rw [hasAlpn_eq hp]; exact K ho (F.alpnR hc)
  · intro ho
    rw [hmax, K ho F.tls13]; rfl
  · intro ho
    rw [hs, F.full (hoff _ ho).2.2]
  · intro ho
    rw [K ho f1]
    cases b2 <;> cases c <;> cases b4 <;> decide
  · intro ho
    rw [K ho f2]
    cases b1 <;> cases c <;> cases b4 <;> decide
  · rintro ⟨ho, ht⟩
    have h3 := K ho f3
    subst h3
    rw [ht] at hcc
    simp only [Bool.or_self] at hcc
    subst hcc
    cases b1 <;> cases b2 <;> cases b4 <;> decide
  · intro ho
    have h4 : b4 = false := by
      cases c with
      | true => exact K ho (f4 rfl)
      | false => exact f4' rfl
    subst h4
    cases b1 <;> cases b2 <;> cases c <;> decide
  · intro ho
    rw [K ho F.hyb, K ho F.x]
    cases d.tls13 <;> cases d.p521 <;> decide
  · intro ho
    rw [K ho F.p521]
    cases d.tls13 <;> cases d.hyb <;> cases d.x <;> decide
  · rintro ⟨ho, ht⟩
    rw [hasPadding_eq hp, K ho F.pad, ht]; rfl
  · intro ho
    rw [K ho F.st]
    simp [ePadding, eReneg]
  · intro ho
    rw [K ho F.sc]
    simp [ePadding, eReneg]
  · intro ho
    rw [K ho F.rn]
    simp [ePadding, eReneg]
  · intro ho
    rw [K ho F.em]
    simp [ePadding, eReneg]
  · rintro ⟨ho, ht⟩
    refine ⟨ht, ?_⟩
    rw [Drawn.shares, K ho (F.first ht)]
    cases (d.curves.contains gX25519MLKEM768) <;> cases d.rg <;> decide
  · rintro ⟨ho1, ho2⟩ ⟨ht, hm⟩
    have hf := K ho1 (F.first ht)
    have hr := K ho2 (F.rg ht hf)
    rw [Drawn.shares, hf, hr] at hm
    revert hm
    cases (d.curves.contains gX25519MLKEM768) <;> decide
  · intro ho
    rw [hasAlps_eq hp]
    cases ht : d.tls13 with
    | false => rfl
    | true =>
      cases ha : d.withAlpn with
      | false => rw [F.alps' ha]; rfl
      | true => rw [KA ho (F.alps ht ha)]; rfl


/-- **Weight 1 ⇒ feature present** (where it can apply: key-share and ALPS features need a TLS 1.3 spec, ALPS
also ALPN; PSS-384/512 accompany PSS-256): every clause of `presentOk`. -/
theorem weights_corners_present (on : Nat → Bool) (client : Client) (w : Weights) (coin : Coin)
    (tbl : List (Nat × Bool)) (t13 : List Nat) (sni : Bytes) (protos : List Bytes) (s sA : Stream) (sp : Spec)
    (hon : ∀ b, on b = true → AlwaysUp coin s sA b)
    (h : gen client w coin tbl t13 sni protos s sA = some sp) : presentOk on client w sp = true := by
  obtain ⟨d, F, hp, hs, hmin, hmax, _⟩ := gen_inv h
  obtain ⟨b1, b2, b3, b4, hsig, f1, f2, f3, f4, f4'⟩ := F.sig
  have his := is13_eq hmax
  have K : ∀ {wf : Nat} {b : Bool}, on wf = true → Flipped coin s (.bits wf) b → b = true :=
    fun ho hf => hf.eq_of_const (hon _ ho).1
  have KA : ∀ {wf : Nat} {b : Bool}, on wf = true → Flipped coin sA (.bits wf) b → b = true :=
    fun ho hf => hf.eq_of_const (hon _ ho).2
  have msig : ∀ x, x ∈ sp.sigAlgs ↔ x ∈ sigList b1 b2 (b3 || d.tls13) b4 := fun x => by
    rw [mem_sigAlgs hp, hsig.mem_iff]
  have mcur : ∀ x, x ∈ sp.curves ↔ x ∈ curveList d.tls13 d.hyb d.x d.p521 := fun x => mem_curves hp
  have msh : ∀ x, x ∈ sp.shareGroups ↔ d.tls13 = true ∧ x ∈ d.shares := fun x => mem_shares hp
  have mext : ∀ e, e ∈ sp.exts ↔ e ∈ extsOf sni protos d := fun e => hp.mem_iff
  unfold presentOk
  simp only [Bool.and_eq_true, imp_true, his, and_assoc, beq_iff_eq, Bool.not_eq_true',
    Bool.or_eq_true, List.contains_iff_mem, msig, mcur, msh, List.all_eq_true, mext]
  generalize hcc : (b3 || d.tls13) = c at *
  refine ⟨?_, ?_, ?_, ?_, ?_, ?_, ?_, ?_, ?_, ?_, ?_, ?_, ?_, ?_, ?_, ?_⟩
  · rintro ⟨ho, hc⟩
    rw [hasAlpn_eq hp]; exact K ho (F.alpnR hc)
  · intro ho
    exact K ho F.tls13
  · intro ho
    rw [K ho f1]
    cases b2 <;> cases c <;> cases b4 <;> decide
  · intro ho
    rw [K ho f2]
    cases b1 <;> cases c <;> cases b4 <;> decide
  · intro ho
    have h3 := K ho f3
    subst h3
    simp only [Bool.true_or] at hcc
    subst hcc
    cases b1 <;> cases b2 <;> cases b4 <;> decide
  · rintro ⟨ho, hm⟩
    have hc : c = true := by
      revert hm
      cases c
      · cases b1 <;> cases b2 <;> cases b4 <;> decide
      · intro _; rfl
    subst hc
    rw [K ho (f4 rfl)]
    cases b1 <;> cases b2 <;> decide
  · intro ho
    rw [K ho F.hyb, K ho F.x]
    cases d.tls13 <;> cases d.p521 <;> decide
  · intro ho
    rw [K ho F.p521]
    cases d.tls13 <;> cases d.hyb <;> cases d.x <;> decide
  · intro ho
    rw [hasPadding_eq hp, K ho F.pad]; rfl
  · intro ho
    rw [mem_extsOf, K ho F.st]
    simp
  · intro ho
    rw [mem_extsOf, K ho F.sc]
    simp
  · intro ho
    rw [mem_extsOf, K ho F.rn]
    simp
  · intro ho
    rw [mem_extsOf, K ho F.em]
    simp
  · rintro ⟨ho, ht⟩
    have hf := K ho (F.first ht)
    refine ⟨?_, ht, ?_⟩
    · intro e he
      rw [mem_extsOf] at he
      rcases he with rfl | rfl | rfl | rfl | rfl | ⟨_, rfl⟩ | ⟨_, rfl⟩ | ⟨_, rfl⟩ | ⟨_, rfl⟩ | ⟨_, rfl⟩ | ⟨_, rfl⟩ | ⟨_, rfl | rfl | rfl | ⟨_, rfl⟩⟩ <;>
        try (simp [RExt.shareGroups, ePadding, eReneg]; done)
      rw [Drawn.shares, hf]
      simp [RExt.shareGroups, shareList]
    · rw [Drawn.shares, hf]
      simp [shareList]
  · rintro ⟨ho, ht⟩
    refine ⟨ht, ?_⟩
    rw [Drawn.shares]
    cases hfi : d.first with
    | true => simp [shareList]
    | false =>
      rw [K ho (F.rg ht hfi)]
      cases (d.curves.contains gX25519MLKEM768) <;> decide
  · rintro ⟨ho, ht, ha⟩
    rw [hasAlpn_eq hp] at ha
    rw [hasAlps_eq hp, ht, KA ho (F.alps ht ha)]; rfl

/-! ## the tables the code has now (`Gen.C09Suites`, regenerated on every run) -/

/-- the working tree's `cipherSuites` / `defaultCipherSuitesTLS13` satisfy the hypothesis of `suite_order`. -/
theorem real_tables_wf : TablesWF realTbl realT13 = true := by decide

/-- every suite of the table whose registered name says RC4 is one of the three ids `removeRC4Ciphers`
removes — so "no RC4" in `tls13_rules` covers every RC4 suite the generator can draw. -/
theorem rc4_ids_complete : ∀ c, c ∈ rc4All → c ∈ rc4Ids := by decide

/-- `suite_order` and the TLS 1.3 rules for the tables the code has now. -/
theorem real_spec_consistent (client : Client) (w : Weights) (coin : Coin) (sni : Bytes) (protos : List Bytes)
    (s sA : Stream) (sp : Spec) (h : gen client w coin realTbl realT13 sni protos s sA = some sp) :
    suiteOrderOk realTbl realT13 sp = true ∧ tls13RulesOk rc4All sp = true ∧ alpsNeedsAlpnOk sp = true ∧
      keyShareSubsetOk sp = true ∧ hybridHasShareOk sp = true :=
  ⟨suite_order _ _ _ _ _ _ _ _ _ _ real_tables_wf h, tls13_rules _ rc4_ids_complete _ _ _ _ _ _ _ _ _ _ h,
   alps_needs_alpn _ _ _ _ _ _ _ _ _ _ h, keyshare_subset_groups _ _ _ _ _ _ _ _ _ _ h,
   hybrid_has_share _ _ _ _ _ _ _ _ _ _ h⟩


/-! ## non-vacuity: concrete instances (real tables, explicit streams and coins) -/

/-- a stream of 150 words below 2^62. -/
def exStream : Stream := (List.range 150).map fun i => (i * 2654435761 * 1000003 + 999331) % 4611686018427387904
def exAlps : Stream := [5, 6, 7, 8]
/-- weights: bit pattern 1 for "always", 0 for "never", 2 for "sometimes". -/
def exCoin : Coin
  | .bits b, v => b == 1 || (b == 2 && v % 3 == 0)
  | .scaled b i _, v => b == 2 && (v / 1024 + i) % 4 == 0
def exWAll (b : Nat) : Weights := ⟨b, b, b, b, b, b, b, b, b, b, b, b, b, b, b, b, b⟩
/-- TLS 1.3 forced, legacy first-key-share off, everything else "sometimes". -/
def exWMix : Weights := ⟨2, 1, 2, 2, 2, 2, 2, 1, 2, 2, 2, 2, 2, 2, 0, 2, 1⟩
def exSni : Bytes := [0x61, 0x2e, 0x62]

/-- a TLS 1.3 spec with the hybrid group, its key share, ALPN and ALPS is generated (hypothesis of every theorem
above is met with `sp` a non-trivial spec), and some suites were removed. -/
example : (match gen .alpn exWMix exCoin realTbl realT13 exSni [] exStream exAlps with
    | some sp => sp.versMax == 772 && sp.curves.contains gX25519MLKEM768 && sp.shareGroups.contains gX25519MLKEM768 &&
        sp.hasAlpn && sp.hasAlps && Nat.blt sp.suites.length 22 && sp.exts.length == 12
    | none => false) = true := by decide +kernel

/-- a TLS 1.2 spec (all weights "never"): 22 suites, 5 extensions. -/
example : (match gen .randomized (exWAll 0) exCoin realTbl realT13 exSni [] exStream exAlps with
    | some sp => sp.versMax == 771 && sp.suites.length == 22 && sp.exts.length == 5
    | none => false) = true := by decide +kernel

/-- the corner hypotheses are satisfiable: `exCoin` never comes up for pattern 0 and always for pattern 1. -/
example : NeverUp exCoin exStream exAlps 0 ∧ AlwaysUp exCoin exStream exAlps 1 := by
  refine ⟨⟨fun v _ => rfl, fun v _ => rfl, fun j n v _ => rfl⟩, fun v _ => rfl, fun v _ => rfl⟩

/-- all weights "always": every optional feature is present (legacy first key share P-256, hybrid share after it). -/
example : (match gen .randomized (exWAll 1) exCoin realTbl realT13 exSni [] exStream exAlps with
    | some sp => presentOk (· == 1) .randomized (exWAll 1) sp && sp.shareGroups == [23, 4588]
    | none => false) = true := by decide +kernel

/-- `first_cipher_kept`: removal with a coin that removes everything it is asked about keeps index 0. -/
example : removeRandom (fun _ _ => true) 0 [10, 20, 30, 40] [1, 2, 3] = some ([10], []) := by decide

end C09
