import UtlsVerif.NegotiateCompleteLemmas
import UtlsVerif.KeyShareLemmas
import UtlsVerif.Gen.ParrotVers
/-!
# C10 — every offered fingerprint completes a handshake with a compliant server

Completeness of the client's acceptance logic, the converse of C12's soundness over the same
`Negotiate.clientStep` (every check of `UConn.clientHandshake`, `checkServerHelloOrHRR`,
`processHelloRetryRequest`, `processServerHello`, the key selection of `establishHandshakeKeys`,
`checkALPN`, the compressed-certificate checks, the TLS 1.0–1.2 checks, in code order).

**Full statement** (what the property asks): for every offer `o` on the wire, every client context `ctx`
produced by `ApplyPreset` for that offer, and every response `r` of a compliant server — every
selected parameter offered by `o`, implemented by uTLS at the negotiated version, messages
well-formed — `clientStep impl o ctx r = accept (finalState …)`.

It is **false of the code in two corners**, both kept visible as explicit conjuncts of the hypotheses
and both witnessed below and replayed on the real code on every run:

* D11 — a HelloRetryRequest while a PSK identity is offered: uTLS returns "does not support reprocessing
  of PSK key" (`clientReady`'s last conjunct; `psk_hrr_witness`);
* `hrr-hybrid` — a HelloRetryRequest selecting a *hybrid* group the hello listed without a key share:
  `processHelloRetryRequest` can only generate classical shares (`hrrOk`'s last conjunct;
  `hrr_hybrid_witness`).

The third corner the proof ran into — D06, only the first classical private key retained — is repaired
in /repo (the private key of every generated share is kept and selected by group), as is the abort on
a hello without usable key share that receives the HelloRetryRequest it asks for; so `retained_all`
holds in full and `complete_partial` needs no guard on *which* offered share the server selects.

* `complete_partial` — compliant response ∧ client ready ⇒ accept, with exactly the state the server selected.
* `retained_all` — after `applyPreset` every generated (non-GREASE, not caller-supplied) key share has its
  private key(s): `keysRetained` holds for its group and the key set passes the consistency check.
* `complete_preset` — the two combined: for the context `ApplyPreset` leaves, a compliant response
  selecting *any* generated share (or retrying with a listed classical group) is accepted.
* `accepted_is_selected` — the accepted state reports what the server selected.
* `retry_ignores_first_flight_keys` — after a HelloRetryRequest that selects a group, `clientStep` is independent
  of every key the connection held before (whatever sequence of ApplyPreset / build / edit calls produced them).
* `parrot_versions_accepted` (table) — for every predefined ClientHelloID the Config range `SetTLSVers`
  derives accepts every version the marshalled hello advertises, i.e. `clientReady`'s first conjunct holds
  for every version a compliant server can select.
-/
namespace C10
open Negotiate KeyShare

/-- **Completeness (partial: D11 and `hrr-hybrid` excluded by the hypotheses)**: a compliant response —
every selection offered on the wire and implemented, messages well-formed — met by a client that is
ready for it — Config accepts the version, the selected share's private key is held — is accepted, and
the resulting state is the one the server selected. Every guard of `versionGuards`, `guards13`,
`guards12` is discharged from the two hypotheses. -/
theorem complete_partial (impl : Impl) (o : Offer) (ctx : ClientCtx) (r : Response)
    (hc : compliantB impl o ctx r = true) (hr : clientReady impl o ctx r = true) :
    clientStep impl o ctx r = .accept (finalState impl o ctx r) := by
  simp only [compliantB, Bool.and_eq_true] at hc
  obtain ⟨⟨⟨⟨_, hadv⟩, hcan⟩, hrest⟩, hv⟩ := hc
  simp only [clientReady, Bool.and_eq_true] at hr
  obtain ⟨⟨hcfg, hmax⟩, hr13⟩ := hr
  have hcan' : downgradeDetected impl ctx r.hello1 (peerVersion r.hello1) = false :=
    no_downgrade hmax (by simpa only [Bool.not_eq_true'] using hcan)
  have hg : firstFail (guards impl o ctx r) = none := by
    unfold guards
    rw [firstFail_append_none]
    refine ⟨version_pass hcfg hadv hcan', ?_⟩
    by_cases h13 : (peerVersion r.hello1 == tls13) = true
    · rw [if_pos h13] at hv ⊢
      have hne : (peerVersion r.hello1 != tls13) = false := by simpa using h13
      rw [hne, Bool.false_or] at hr13
      simp only [Bool.and_eq_true] at hr13
      obtain ⟨⟨k1, k2⟩, k3⟩ := hr13
      exact guards13_pass hv hrest (by simpa [Bool.or_assoc] using k1) k2 (by simpa [Bool.or_assoc] using k3)
    · rw [if_neg h13] at hv ⊢
      exact guards12_pass hv hrest
  unfold clientStep
  rw [hg]

/-- what an accepted compliant handshake reports is what the server selected: the version of the
ServerHello, and the suite / group / ALPN protocol of the messages that were finally processed. -/
theorem accepted_is_selected (impl : Impl) (o : Offer) (ctx : ClientCtx) (r : Response)
    (hc : compliantB impl o ctx r = true) (hr : clientReady impl o ctx r = true) :
    ∃ st, clientStep impl o ctx r = .accept st ∧ st.version = peerVersion r.hello1 ∧
      (peerVersion r.hello1 = tls13 →
        st.suite = (finalHello impl r).suite ∧ st.group = (finalHello impl r).shareGroup ∧ st.alpn = r.eeAlpn ∧
        st.resumed = (finalHello impl r).pskPresent) ∧
      (peerVersion r.hello1 ≠ tls13 →
        st.suite = r.hello1.suite ∧ st.alpn = r.hello1.alpn ∧ (st.resumed = false → st.group = r.skxCurve)) := by
  refine ⟨_, complete_partial impl o ctx r hc hr, ?_, ?_, ?_⟩
  · unfold finalState
    by_cases h13 : (peerVersion r.hello1 == tls13) = true
    · rw [if_pos h13]; exact (by simpa using h13 : peerVersion r.hello1 = tls13).symm
    · rw [if_neg h13]; rfl
  · intro hv
    have h13 : (peerVersion r.hello1 == tls13) = true := by simpa using hv
    unfold finalState
    rw [if_pos h13]
    exact ⟨rfl, rfl, rfl, rfl⟩
  · intro hv
    have h13 : ¬ (peerVersion r.hello1 == tls13) = true := by simpa using hv
    unfold finalState
    rw [if_neg h13]
    refine ⟨rfl, rfl, ?_⟩
    intro hres
    have : resumed12 o ctx r.hello1 = false := hres
    simp [state12, this]

/-- **Every generated key share is backed by its private key.** After `ApplyPreset` (first application,
QUIC or not, any GREASE group) every key share the loop generated — every entry that is neither a GREASE
entry nor supplied with data by the caller — has its private key(s) in the key set: `keysRetained`
holds for its group in the client context the key set induces, and the key set passes the
consistency check of the TLS 1.3 handshake. -/
theorem retained_all (quic : Bool) (gg : Nat) (keep : Bool) (spec : List SpecShare) (out : Out) (base : ClientCtx)
    (h : applyPreset quic gg keep none spec = some out) :
    ∀ s ∈ spec, generated s = true →
      keysRetained (out.keys.toCtx base) s.group = true ∧
      ((out.keys.toCtx base).ecdheGroup ≠ 0 ∨ (out.keys.toCtx base).mlkemEcdhe = true) := by
  unfold applyPreset at h
  simp only [Option.map_eq_some_iff] at h
  obtain ⟨st, hl, hout⟩ := h
  obtain ⟨wf, _, hgen, _⟩ := loop_keys spec _ st 0 hl wf_empty (by intro h; cases h)
  intro s hs hg
  obtain ⟨hmem, huse⟩ := hgen s hs hg
  subst hout
  exact ⟨retains_ready base wf hmem, huse⟩

/-- **Completeness for the context `ApplyPreset` leaves**: whichever generated share of the spec a
compliant server selects — the first classical one, a later classical one (the Firefox 63–120 case of
D06), a hybrid one — or whichever listed classical group it retries with, the handshake is accepted.
Hypotheses besides compliance: the Config accepts the version (`parrot_versions_accepted` for the
predefined ids), no retry while a PSK is offered (D11). -/
theorem complete_preset (impl : Impl) (o : Offer) (base : ClientCtx) (r : Response)
    (quic : Bool) (gg : Nat) (keep : Bool) (spec : List SpecShare) (out : Out)
    (hp : applyPreset quic gg keep none spec = some out)
    (hc : compliantB impl o (out.keys.toCtx base) r = true)
    (hver : (cfgVersions (out.keys.toCtx base)).contains (peerVersion r.hello1) = true)
    (hmax : advertised o (cfgMaxVersion (out.keys.toCtx base)) = true)
    (hsel : peerVersion r.hello1 = tls13 → hrrGroup impl r = 0 →
      ∃ s ∈ spec, generated s = true ∧ s.group = (finalHello impl r).shareGroup)
    (hD11 : (!isHRR impl r.hello1 || o.pskCount == 0 || base.golang) = true) :
    clientStep impl o (out.keys.toCtx base) r = .accept (finalState impl o (out.keys.toCtx base) r) := by
  apply complete_partial impl o _ r hc
  simp only [clientReady, Bool.and_eq_true]
  refine ⟨⟨hver, hmax⟩, ?_⟩
  by_cases h13 : peerVersion r.hello1 = tls13
  · have hne : (peerVersion r.hello1 != tls13) = false := by simpa using h13
    rw [hne, Bool.false_or]
    simp only [Bool.and_eq_true]
    by_cases hg : hrrGroup impl r = 0
    · obtain ⟨s, hs, hgen, hgrp⟩ := hsel h13 hg
      obtain ⟨hk, huse⟩ := retained_all quic gg keep spec out base hp s hs hgen
      rw [hgrp] at hk
      refine ⟨⟨?_, ?_⟩, ?_⟩
      · rcases huse with h | h
        · have : ((out.keys.toCtx base).ecdheGroup != 0) = true := by simpa using h
          simp [this]
        · simp [h]
      · simp [hk]
      · simpa [Keys.toCtx, Bool.or_assoc] using hD11
    · have hg' : (hrrGroup impl r != 0) = true := by simpa using hg
      have hH : isHRR impl r.hello1 = true := by
        unfold hrrGroup at hg
        by_cases hH : isHRR impl r.hello1 = true
        · exact hH
        · rw [if_neg hH] at hg; exact absurd rfl hg
      refine ⟨⟨?_, ?_⟩, ?_⟩
      · simp [hH]
      · simp [hg']
      · simpa [Keys.toCtx, Bool.or_assoc] using hD11
  · have hne : (peerVersion r.hello1 != tls13) = true := by simpa using h13
    rw [hne, Bool.true_or]

/-- the key material of a client context replaced by anything else. -/
def withKeys (ctx : ClientCtx) (e : Nat) (h m me : Bool) (kg mg : List Nat) : ClientCtx :=
  { ctx with ecdheGroup := e, hybridKeys := h, mlkem := m, mlkemEcdhe := me, keyGroups := kg, mlkemGroups := mg }

/-- **After a group-selecting HelloRetryRequest the verdict does not depend on the keys of the first
flight.** `processHelloRetryRequest` replaces the key set by the key it generates for the selected group;
whatever the connection held before — keys of shares a second spec no longer sends, of shares removed from the
built KeyShareExtension, per-group entries of an earlier application — has no influence on `clientStep`:
for **every** sequence of calls that led to the first ClientHello, the retried handshake is decided by the
offer, the Config range and the response alone. -/
theorem retry_ignores_first_flight_keys (impl : Impl) (o : Offer) (ctx : ClientCtx) (r : Response)
    (e : Nat) (h m me : Bool) (kg mg : List Nat)
    (hH : isHRR impl r.hello1 = true) (hg : r.hello1.selectedGroup ≠ 0) :
    clientStep impl o (withKeys ctx e h m me kg mg) r = clientStep impl o ctx r := by
  have hgrp : (hrrGroup impl r != 0) = true := by
    unfold hrrGroup; rw [if_pos hH]; simpa using hg
  have hguards : guards impl o (withKeys ctx e h m me kg mg) r = guards impl o ctx r := by
    unfold guards
    congr 1
    by_cases h13 : (peerVersion r.hello1 == tls13) = true
    · rw [if_pos h13, if_pos h13]
      unfold guards13 sh13Guards hrrGuards
      simp only [hH, Bool.true_or, if_true, ecdheAfter, hybridAfter, hgrp]
      rfl
    · rw [if_neg h13, if_neg h13]
      rfl
  have hfinal : finalState impl o (withKeys ctx e h m me kg mg) r = finalState impl o ctx r := rfl
  unfold clientStep
  rw [hguards, hfinal]

/-! ## the Config accepts what the hello advertises (regenerated table of the predefined ids) -/

/-- versions the marshalled hello of a row advertises: the real TLS versions in its supported_versions,
or without that extension those from the spec minimum up to legacy_version. -/
def rowAdvertises (row : Gen.ParrotVers.Row) (v : Nat) : Bool :=
  realVersion v &&
  (if row.wireHasExt then row.wireVers.contains v else decide (row.cfgMin ≤ v) && decide (v ≤ row.wireLegacy))

/-- for every predefined ClientHelloID, every version its hello advertises is accepted by the Config
range `SetTLSVers` derived (`Config.supportedVersions(roleClient)`): the first conjunct of `clientReady`
holds whatever advertised version a compliant server selects. -/
theorem parrot_versions_accepted : ∀ row ∈ Gen.ParrotVers.rows, ∀ v ∈ [tls13, tls12, tls11, tls10],
    rowAdvertises row v = true → row.accepts.contains v = true := by decide +kernel

/-- … and the highest version the Config accepts is one the hello advertises (the second conjunct of
`clientReady`: a compliant server's downgrade sentinel is then never mistaken for an attack). -/
theorem parrot_max_advertised : ∀ row ∈ Gen.ParrotVers.rows, rowAdvertises row (row.accepts.headD 0) = true := by
  decide +kernel

/-! ## the two open corners: negation witnesses (replayed on the real code by `c10_hs mode=finding,…`) -/

/-- a small implementation table. -/
def implEx : Impl :=
  { suites12 := [0xc02f, 0xc02b, 0x002f], ecdhe12 := [0xc02f, 0xc02b], suites13 := [0x1301, 0x1302, 0x1303],
    curves := [23, 24, 25, 29], canary12 := [68, 79, 87, 78, 71, 82, 68, 1], canary11 := [68, 79, 87, 78, 71, 82, 68, 0],
    hrrRandom := [207, 33] }

/-- a Firefox-120-like hello: shares for X25519 and P-256, P-384 listed without share. -/
def offerEx : Offer :=
  { legacyVersion := tls12, sessionId := [1, 2, 3], suites := [0x1301, 0x1303, 0x1302, 0xc02b, 0xc02f],
    compressions := [0], hasVersions := true, versions := [tls13, tls12],
    hasGroups := true, groups := [29, 23, 24, 25, 256, 4588], shareGroups := [29, 23],
    alpn := [[104, 50], [104, 116, 116, 112, 47, 49, 46, 49]], pskCount := 0,
    hasCertComp := false, certCompAlgs := [] }

/-- the key shares of that spec and the context `applyPreset` leaves for them. -/
def specEx : List SpecShare := [⟨29, 0⟩, ⟨23, 0⟩]
def baseEx : ClientCtx := { cfgMin := tls12, cfgMax := tls13, ecdheGroup := 0, hybridKeys := false }
def outEx : Out := (applyPreset false 0x3a3a false none specEx).getD ⟨{}, [], 0, []⟩
def ctxEx : ClientCtx := outEx.keys.toCtx baseEx

/-- a compliant ServerHello selecting the **second** classical share (P-256): the D06 input. -/
def shP256 : ServerHello :=
  { legacyVersion := tls12, random := [9, 9, 9], sessionId := [1, 2, 3], suite := 0x1301, compression := 0,
    supportedVersion := tls13, shareGroup := 23, shareLen := 65 }
def respP256 : Response := { hello1 := shP256, recVersion := tls12, eeAlpn := [104, 50] }

/-- non-vacuity of `complete_partial` / `complete_preset`: the hypotheses hold for the P-256 answer … -/
example : applyPreset false 0x3a3a false none specEx = some outEx := by decide
example : compliantB implEx offerEx ctxEx respP256 = true := by decide
example : clientReady implEx offerEx ctxEx respP256 = true := by decide
/-- … and it is accepted on P-256 (before the D06 repair the retained key was X25519 only). -/
example : ∃ st, clientStep implEx offerEx ctxEx respP256 = .accept st ∧ st.group = 23 :=
  ⟨_, complete_partial _ _ _ _ (by decide) (by decide), by decide⟩
/-- the unrepaired key set (first classical key only, no per-group keys) aborts the same response with
illegal_parameter ("invalid server key share"): this is the D06 regression input. -/
example : clientStep implEx offerEx { baseEx with ecdheGroup := 29 } respP256 = .abort .illegalParameter := by decide

/-- a compliant retry: HelloRetryRequest selecting P-384 (listed, no share), then a ServerHello on it. -/
def hrrP384 : ServerHello :=
  { legacyVersion := tls12, random := [207, 33], sessionId := [1, 2, 3], suite := 0x1301, compression := 0,
    supportedVersion := tls13, selectedGroup := 24 }
def respHRR : Response :=
  { hello1 := hrrP384, hello2 := some { shP256 with shareGroup := 24, shareLen := 97 }, recVersion := tls12 }
example : compliantB implEx offerEx ctxEx respHRR = true ∧ clientReady implEx offerEx ctxEx respHRR = true := by decide

/-- hypotheses of `retry_ignores_first_flight_keys` hold for that retry; a stale per-group key for P-384 left by
an earlier spec changes nothing: accepted on the freshly generated P-384 key. -/
example : isHRR implEx respHRR.hello1 = true ∧ respHRR.hello1.selectedGroup ≠ 0 ∧
    (∃ st, clientStep implEx offerEx (withKeys ctxEx 29 false false false [29, 24] []) respHRR = .accept st ∧ st.group = 24) := by
  refine ⟨by decide, by decide, finalState implEx offerEx ctxEx respHRR, ?_, by decide⟩
  rw [retry_ignores_first_flight_keys _ _ _ _ _ _ _ _ _ _ (by decide) (by decide)]
  decide

/-- a TLS 1.2 answer (ECDHE on P-256, ALPN h2) is compliant and accepted as well. -/
def resp12 : Response :=
  { hello1 := { shP256 with supportedVersion := 0, suite := 0xc02f, shareGroup := 0, shareLen := 0, sessionId := [], alpn := [104, 50] },
    recVersion := tls12, skxCurve := 23 }
example : compliantB implEx offerEx ctxEx resp12 = true ∧ clientReady implEx offerEx ctxEx resp12 = true := by decide

/-- **D11 witness** (negation of the full statement): a PSK identity is offered, the server retries with
P-384 — everything it selects is offered and implemented, the client holds all keys — and the client
gives up (no alert: "uTLS does not support reprocessing of PSK key triggered by HelloRetryRequest"). -/
theorem psk_hrr_witness :
    ∃ (impl : Impl) (o : Offer) (ctx : ClientCtx) (r : Response),
      compliantB impl o ctx r = true ∧
      (cfgVersions ctx).contains (peerVersion r.hello1) = true ∧ advertised o (cfgMaxVersion ctx) = true ∧
      (∀ g ∈ o.shareGroups, keysRetained ctx g = true) ∧
      clientStep impl o ctx r = .abort .none :=
  ⟨implEx, { offerEx with pskCount := 1 }, { ctxEx with pskSuite := some 0x1301 }, respHRR,
    by decide, by decide, by decide, by decide, by decide⟩

/-- **`hrr-hybrid` witness**: X25519MLKEM768 is listed without a key share, the server's
HelloRetryRequest selects it (offered, and a group uTLS implements as a key share), and the client aborts
with internal_error ("CurvePreferences includes unsupported curve") — `hrrOk` minus its last conjunct
holds. -/
theorem hrr_hybrid_witness :
    ∃ (impl : Impl) (o : Offer) (ctx : ClientCtx) (r : Response),
      shOk13 impl o r.hello1 = true ∧ isHRR impl r.hello1 = true ∧
      o.groups.contains r.hello1.selectedGroup = true ∧ o.shareGroups.contains r.hello1.selectedGroup = false ∧
      (shareSize r.hello1.selectedGroup).isSome = true ∧
      clientStep impl o ctx r = .abort .internalError :=
  ⟨implEx, offerEx, ctxEx,
    { hello1 := { hrrP384 with selectedGroup := 4588 }, hello2 := some { shP256 with shareGroup := 4588, shareLen := 1120 }, recVersion := tls12 },
    by decide, by decide, by decide, by decide, by decide, by decide⟩

end C10
