import UtlsVerif.Report
import UtlsVerif.NegotiateCompleteLemmas
/-!
# C11 — client and server agree on every negotiated parameter and exported key

Over the `Report` model (both ends' `ConnectionState` as functions of the accepted state / of the
server's selections, the server name, the exporter with its availability policy) on top of
`Negotiate.clientStep`:

* `reports_agree` — after **any** accepted handshake (any offer, context, implementation table and
  response: TLS 1.3 or below, resumed or not, after a HelloRetryRequest or not) the client's report —
  a function of the accepted state — equals the server's report — a function of what the server selected
  and sent — in version, cipher suite, ALPN protocol, curve, DidResume, HRR, ECHAccepted.
* `server_name_agree` — both ends report the same server name, and it is the host name **actually sent**:
  the one in the hello's server_name extension, empty when none was sent (no SNIExtension in the spec,
  `RemoveSNIExtension`, an IP literal); under accepted ECH the inner hello's name on both ends. This is
  the repaired behaviour (D07 and its ECH variant); `stale_name_witness` records what the unrepaired code
  reported.
* `ekm_agree` — **reading adopted** (recorded in notes/C11-report.md): the property's "identical bytes
  for every label, context and length" is about the bytes either end hands out. A documented refusal of
  `ExportKeyingMaterial` (renegotiation enabled; below TLS 1.3 without extended master secret; a reserved
  label or an oversized context below TLS 1.3) returns no bytes, so it cannot make the ends use
  different keys; it is not a disagreement. The theorem: with the exporter an uninterpreted function of
  (secret, transcript, label, context, length) and both ends holding the same secret and transcript,
  whenever both ends answer they answer the same bytes, and each end refuses exactly when the
  availability predicate `refusal` says so — for every label, context and length. `ekm_refusals_symmetric`:
  when neither end has renegotiation enabled the two ends refuse in exactly the same cases.
  `ekm_transcript_is_server_finished`: the transcript argument is the one up to and including the server
  Finished on both ends, whatever the client sends afterwards (client authentication);
  `ekm_late_capture_witness`: a closure installed at `sendClientFinished` would capture more.
* `grease_share_not_compliant` — the case observed by the C12 work package (a server echoing the client's
  GREASE key-share group is accepted and the GREASE value reported as curve) lies outside this property
  and outside C18: such a ServerHello is not one a compliant server sends (`serverShareOk` fails for a
  GREASE group), and C18 speaks about non-GREASE shares only.
-/
namespace C11
open Negotiate Report Wire

/-- **Both ends report the same negotiated parameters.** For every accepted handshake the client's
`ConnectionState` (read off the accepted state) and the server's (read off its own selections) coincide
in every field: version, cipher suite, curve, ALPN protocol, DidResume, HRR, and — given the same ECH
outcome and name on both ends, see `server_name_agree` — ECHAccepted and ServerName. -/
theorem reports_agree (impl : Impl) (o : Offer) (ctx : ClientCtx) (r : Response) (st : State)
    (h : clientStep impl o ctx r = .accept st) (ech : Bool) (name : Bytes) :
    reportClient st ech name = reportServer impl o ctx r ech name := by
  obtain ⟨_, hst⟩ := clientStep_accept h
  subst hst
  unfold reportClient reportServer finalState
  by_cases h13 : (peerVersion r.hello1 == tls13) = true
  · rw [if_pos h13, if_pos h13]; rfl
  · rw [if_neg h13, if_neg h13]; rfl

/-- … spelled out field by field, in the words of the property. -/
theorem reports_agree_fields (impl : Impl) (o : Offer) (ctx : ClientCtx) (r : Response) (st : State)
    (h : clientStep impl o ctx r = .accept st) (ech : Bool) (name : Bytes) :
    let c := reportClient st ech name
    let s := reportServer impl o ctx r ech name
    c.version = s.version ∧ c.suite = s.suite ∧ c.alpn = s.alpn ∧ c.curve = s.curve ∧
    c.didResume = s.didResume ∧ c.echAccepted = s.echAccepted ∧ c.serverName = s.serverName := by
  have := reports_agree impl o ctx r st h ech name
  simp only [this, and_self]

/-- **The client reports the server name actually sent, and so does the server.** Whatever the Config
name, the spec's SNIExtension (absent, without a name, with an explicit name) and the ECH outcome:
both ends report the same name; without ECH it is exactly the host name in the hello's server_name
extension, and empty when the hello carries none. -/
theorem server_name_agree (n : Names) (echAccepted : Bool) :
    clientName n echAccepted = serverName n echAccepted ∧
    (echAccepted = false → clientName n false = sentName n) ∧
    (n.sniExt = none → sentName n = [] ∧ clientName n false = []) := by
  refine ⟨rfl, fun _ => rfl, ?_⟩
  intro hno
  have : sentName n = [] := by simp [sentName, extName, hno]
  exact ⟨this, this⟩

/-- what the unrepaired client reported: `hostnameInSNI(Config.ServerName)` whether or not an SNIExtension
sent it (D07), and `Config.ServerName` verbatim under accepted ECH. -/
def staleClientName (n : Names) (echAccepted : Bool) : Bytes :=
  if echAccepted then n.cfgName else Sni.hostnameInSNI n.cfgName

/-- **D07 witness** (regression inputs, replayed by `c11_hs mode=v13-rmsni` / `v13-ech` with a dotted
name): without an SNIExtension the unrepaired client reported `example.golang` while nothing was sent and
the server reported no name; under ECH with `Config.ServerName = "a."` it reported `a.` while the server
reported `a`. -/
theorem stale_name_witness :
    (∃ n : Names, n.sniExt = none ∧ staleClientName n false ≠ serverName n false) ∧
    (∃ n : Names, staleClientName n true ≠ serverName n true) :=
  ⟨⟨{ cfgName := [101, 120, 97, 109, 112, 108, 101, 46, 103, 111, 108, 97, 110, 103], sniExt := none }, rfl, by decide⟩,
   ⟨{ cfgName := [97, 46], sniExt := some [], ech := true, publicName := [112] }, by decide⟩⟩

/-- **Exported keying material agrees.** `F` is the exporter as an uninterpreted function of the
connection's (secret, transcript) and the call's (label, context, length). Both ends hold the same secret
and transcript (the key-agreement hypothesis: what a completed handshake with verified Finished messages
establishes). Then for every label, context and length: (1) if both ends answer, the bytes are identical;
(2) each end refuses exactly when `refusal` says so, and answers `F …` otherwise. -/
theorem ekm_agree {S T : Type} (F : S → T → Bytes → Option Bytes → Nat → Bytes)
    (client server : Side) (secretC secretS : S) (transcriptC transcriptS : T)
    (hsecret : secretC = secretS) (htranscript : transcriptC = transcriptS)
    (label : Bytes) (context : Option Bytes) (length : Nat) :
    (∀ a b, exportKM F client secretC transcriptC label context length = .ok a →
            exportKM F server secretS transcriptS label context length = .ok b → a = b) ∧
    (∀ side sec tr, (exportKM F side sec tr label context length = .ok (F sec tr label context length) ∧ refusal side label context = none) ∨
                    (∃ why, exportKM F side sec tr label context length = .error why ∧ refusal side label context = some why)) := by
  subst hsecret htranscript
  constructor
  · intro a b ha hb
    unfold exportKM at ha hb
    cases hc : refusal client label context with
    | some w => rw [hc] at ha; cases ha
    | none =>
      cases hs : refusal server label context with
      | some w => rw [hs] at hb; cases hb
      | none =>
        rw [hc] at ha; rw [hs] at hb
        cases ha; cases hb; rfl
  · intro side sec tr
    unfold exportKM
    cases hr : refusal side label context with
    | none => exact Or.inl ⟨rfl, rfl⟩
    | some w => exact Or.inr ⟨w, rfl, rfl⟩

/-- **The exporter is derived from the transcript up to and including the server Finished**, whatever
the client sends afterwards (nothing, an empty Certificate after a CertificateRequest, a Certificate and
CertificateVerify): the client's closure, installed at the end of `readServerFinished`, captures exactly the
transcript the server's closure captures — so with the same master secret both ends export the same bytes
for every label, context and length, with or without client authentication. -/
theorem ekm_transcript_is_server_finished {S : Type} (F : S → List Bytes → Bytes → Option Bytes → Nat → Bytes)
    (f : Flight) (clientFlight' : List Bytes) (secret : S) (label : Bytes) (context : Option Bytes) (length : Nat) :
    clientEkmTranscript codeEkmPoint { f with clientFlight := clientFlight' } = serverEkmTranscript f ∧
    F secret (clientEkmTranscript codeEkmPoint { f with clientFlight := clientFlight' }) label context length =
      F secret (serverEkmTranscript f) label context length :=
  ⟨rfl, rfl⟩

/-- installing the closure later — at the top of `sendClientFinished` — captures the client's own
Certificate / CertificateVerify as soon as there is a CertificateRequest: the transcripts differ (and with
them every exported value of an injective exporter). Replayed on the real code by the `cauth=` modes of
`c11_hs`: the raw exporter closures of both ends are compared on every handshake. -/
theorem ekm_late_capture_witness :
    ∃ f : Flight, clientEkmTranscript .beforeClientFinished f ≠ serverEkmTranscript f ∧
      clientEkmTranscript .afterServerFinished f = serverEkmTranscript f :=
  ⟨{ throughServerFinished := [[1], [2], [20]], clientFlight := [[11, 0, 0, 4, 0, 0, 0, 0]] }, by decide, rfl⟩

/-- when neither end has renegotiation enabled, both ends see the same version and extended-master-secret
state, so they refuse in exactly the same cases and with the same reason. -/
theorem ekm_refusals_symmetric (client server : Side) (hv : client.version = server.version)
    (hems : client.ems = server.ems) (hc : client.reneg = false) (hs : server.reneg = false)
    (label : Bytes) (context : Option Bytes) :
    refusal client label context = refusal server label context := by
  unfold refusal
  rw [hc, hs, hv, hems]

/-- at TLS 1.3 without renegotiation nothing is ever refused: every label, context and length is answered. -/
theorem ekm_tls13_total (s : Side) (hv : s.version = tls13) (hr : s.reneg = false) (label : Bytes) (context : Option Bytes) :
    refusal s label context = none := by
  unfold refusal
  rw [hr, hv]
  simp

/-- a ServerHello that "selects" a GREASE key-share group — with a share of whatever length — is not a
compliant response: no size is right for a GREASE group. (It is accepted by the client when the share is
a valid X25519 key; that is outside C11, which speaks about compliant servers, and outside C18, which
speaks about non-GREASE shares.) -/
theorem grease_share_not_compliant (g len : Nat) (hg : Grease.isGrease g = true) :
    serverShareOk g len = false := by
  have hne : ∀ c : Nat, Grease.isGrease c = false → g ≠ c := by
    intro c hc he; rw [he] at hg; rw [hg] at hc; cases hc
  have h29 := hne 29 (by decide)
  have h23 := hne 23 (by decide)
  have h24 := hne 24 (by decide)
  have h25 := hne 25 (by decide)
  have hm := hne x25519MLKEM768 (by decide)
  have hk := hne x25519Kyber768Draft00 (by decide)
  have hy : isHybrid g = false := by
    unfold isHybrid; simp [hm, hk]
  unfold serverShareOk shareSizeOk
  simp [hy, h29, h23, h24, h25]

/-! ## non-vacuity -/

def implEx : Impl :=
  { suites12 := [0xc02f, 0xc02b, 0x002f], ecdhe12 := [0xc02f, 0xc02b], suites13 := [0x1301, 0x1302, 0x1303],
    curves := [23, 24, 25, 29], canary12 := [68, 79, 87, 78, 71, 82, 68, 1], canary11 := [68, 79, 87, 78, 71, 82, 68, 0],
    hrrRandom := [207, 33] }
def offerEx : Offer :=
  { legacyVersion := tls12, sessionId := [1, 2, 3], suites := [0x1301, 0xc02f], compressions := [0],
    hasVersions := true, versions := [tls13, tls12], hasGroups := true, groups := [29, 23], shareGroups := [29],
    alpn := [[104, 50]], pskCount := 0, hasCertComp := false, certCompAlgs := [] }
def ctxEx : ClientCtx := { cfgMin := tls12, cfgMax := tls13, ecdheGroup := 29, hybridKeys := false }
def respEx : Response :=
  { hello1 := { legacyVersion := tls12, random := [9], sessionId := [1, 2, 3], suite := 0x1301, compression := 0,
                supportedVersion := tls13, shareGroup := 29, shareLen := 32 },
    recVersion := tls12, eeAlpn := [104, 50] }

/-- an accepted handshake (hypothesis of `reports_agree`), and what both ends report. -/
example : ∃ st, clientStep implEx offerEx ctxEx respEx = .accept st ∧
    reportServer implEx offerEx ctxEx respEx false [97] =
      { version := tls13, suite := 0x1301, curve := 29, alpn := [104, 50], didResume := false, didHRR := false,
        echAccepted := false, serverName := [97] } :=
  ⟨_, rfl, by decide⟩

/-- names: an explicit extension name wins over the Config name; an IP literal sends nothing. -/
example : sentName { cfgName := [97], sniExt := some [98] } = [98] := by decide
example : sentName { cfgName := [49, 46, 50, 46, 51, 46, 52], sniExt := some [] } = [] := by decide
example : clientName { cfgName := [97, 46], sniExt := some [] } false = [97] := by decide

/-- the exporter policy: a parrot with renegotiation enabled refuses on the client while the server
answers; with the policy set to Never both answer. -/
example : refusal { version := tls13, ems := false, reneg := true } [120] none = some .renegotiation := by decide
example : refusal { version := tls13, ems := false, reneg := false } [120] none = none := by decide
example : refusal { version := tls12, ems := false, reneg := false } [120] none = some .noEMS := by decide

end C11
