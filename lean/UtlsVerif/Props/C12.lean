import UtlsVerif.NegotiateLemmas
/-!
# C12 — the client rejects any server choice it did not offer on the wire

Over the `Negotiate` model (`clientStep`: the client's checks in code order, see
`UtlsVerif/Negotiate.lean`), for **every** offer, client context, implementation table and server
response:

* `sound` — if the client accepts, then every parameter of the resulting connection state was
  offered by the ClientHello: the cipher suite is in the offered list; at TLS 1.3 the group is one a
  key share was sent for, or the group a HelloRetryRequest selected from `supported_groups` (and no
  share had been sent for); below 1.3 the ServerKeyExchange curve is listed in `supported_groups`
  whenever that extension was sent; the ALPN protocol is absent or one of the offered names; the
  compression method is null; a selected PSK identity index is below the number of identities
  offered; a CompressedCertificate uses an advertised algorithm; and at TLS 1.3 the ServerHello
  echoes the legacy session id.
* `state_is_server_choice` — the accepted state carries exactly what the server selected on the wire
  (so `sound` is a statement about the server's selections, not about values the model invents).
* `rejects_unoffered` — the contrapositive in the words of the property: a response whose selections
  include something unoffered is answered with an abort.
* `abort_has_no_state` — an abort leaves no accepted state (no ConnectionState values to report).
* `report_from_state` — every negotiated value of `ConnectionState` is a field of the accepted state,
  hence offered.
-/
namespace C12
open Negotiate Wire

/-- the seven "was offered" clauses for a state. -/
def Offered (o : Offer) (st : State) : Prop :=
  st.suite ∈ o.suites ∧
  (st.version = tls13 →
    st.group ∈ o.shareGroups ∨
    (st.didHRR = true ∧ st.group = st.hrrGroup ∧ st.group ∈ o.groups ∧ st.group ∉ o.shareGroups)) ∧
  (st.version ≠ tls13 → st.group = 0 ∨ o.groups = [] ∨ st.group ∈ o.groups) ∧
  (st.alpn = [] ∨ st.alpn ∈ o.alpn) ∧
  st.compression = 0 ∧
  (st.usedPsk = true → st.pskIdx < o.pskCount) ∧
  (∀ a, st.certAlg = some a → a ∈ o.certCompAlgs) ∧
  (st.version = tls13 → st.sessionId = o.sessionId)

private theorem final_checkSH {impl : Impl} {o : Offer} {ctx : ClientCtx} {r : Response}
    (h1 : firstFail (checkSHGuards impl o r.hello1 none) = none)
    (hh : firstFail (if isHRR impl r.hello1 then hrrGuards impl o ctx r else []) = none) :
    ∃ prev, firstFail (checkSHGuards impl o (finalHello impl r) prev) = none := by
  unfold finalHello
  by_cases hH : isHRR impl r.hello1 = true
  · rw [if_pos hH] at hh ⊢
    exact ⟨_, (hrr_facts hh).2.2⟩
  · rw [if_neg hH]
    exact ⟨_, h1⟩

private theorem sound13 {impl : Impl} {o : Offer} {ctx : ClientCtx} {r : Response}
    (h : firstFail (guards13 impl o ctx r) = none) : Offered o (state13 impl r) := by
  unfold guards13 at h
  simp only [firstFail_append_none] at h
  obtain ⟨⟨⟨⟨⟨⟨_, hc1⟩, hhrr⟩, hsh⟩, hee⟩, hcert⟩, _⟩ := h
  obtain ⟨prev, hfin⟩ := final_checkSH hc1 hhrr
  obtain ⟨_, _, hsid, hcomp, hsuite, _, _, _⟩ := checkSH_facts hfin
  obtain ⟨hgrp, hpsk, _, _⟩ := sh13_facts hsh
  have halpn : checkALPN o.alpn r.eeAlpn ctx.quic = true := by
    rw [firstFail_none] at hee
    exact hee (checkALPN o.alpn r.eeAlpn ctx.quic, .noApplicationProtocol)
      (List.mem_cons_of_mem _ (List.mem_singleton.mpr rfl))
  refine ⟨hsuite, ?_, ?_, checkALPN_facts halpn, hcomp, hpsk, ?_, fun _ => hsid⟩
  · -- group
    intro _
    show (finalHello impl r).shareGroup ∈ o.shareGroups ∨ _
    unfold sharesAfter at hgrp
    by_cases hg : (hrrGroup impl r != 0) = true
    · rw [if_pos hg] at hgrp
      right
      have hge : (finalHello impl r).shareGroup = hrrGroup impl r := by simpa using hgrp
      have hH : isHRR impl r.hello1 = true := by
        unfold hrrGroup at hg
        by_cases hH : isHRR impl r.hello1 = true
        · exact hH
        · rw [if_neg hH] at hg; simp at hg
      rw [if_pos hH] at hhrr
      have hsel : hrrGroup impl r = r.hello1.selectedGroup := by unfold hrrGroup; rw [if_pos hH]
      have hne : r.hello1.selectedGroup ≠ 0 := by rw [← hsel]; simpa using hg
      obtain ⟨hin, hnot⟩ := (hrr_facts hhrr).1 hne
      refine ⟨hH, hge, ?_, ?_⟩
      · show (finalHello impl r).shareGroup ∈ o.groups
        rw [hge, hsel]; exact hin
      · show (finalHello impl r).shareGroup ∉ o.shareGroups
        rw [hge, hsel]; exact hnot
    · rw [if_neg hg] at hgrp
      exact Or.inl hgrp
  · intro hv
    exact absurd rfl hv
  · -- certificate compression
    intro a ha
    simp only [state13] at ha
    by_cases hp : (finalHello impl r).pskPresent = true
    · rw [if_pos hp] at ha; cases ha
    · rw [if_neg hp] at ha hcert
      cases hcm : r.cert with
      | plain => rw [hcm] at ha; cases ha
      | compressed alg v =>
        rw [hcm] at ha hcert
        injection ha with ha
        subst ha
        exact (cert_facts hcert _ _ rfl).1

private theorem sound12 {impl : Impl} {o : Offer} {ctx : ClientCtx} {r : Response} {vers : Nat}
    (hv : vers ≠ tls13) (h : firstFail (guards12 impl o ctx r vers) = none) :
    Offered o (state12 o ctx r vers) := by
  unfold guards12 at h
  simp only [firstFail_append_none] at h
  obtain ⟨⟨h4, hmid⟩, _⟩ := h
  rw [firstFail_none] at h4
  simp only [List.mem_cons, List.not_mem_nil, or_false, forall_eq_or_imp, forall_eq] at h4
  obtain ⟨hs, hc, _, ha⟩ := h4
  simp only [Bool.and_eq_true, contains_nat] at hs
  refine ⟨hs.1, fun hv' => absurd hv' hv, ?_, checkALPN_facts ha, by simpa [state12] using hc,
    fun hp => by simp [state12] at hp, fun a ha => by simp [state12] at ha, fun hv' => absurd hv' hv⟩
  intro _
  simp only [state12]
  by_cases hr : resumed12 o ctx r.hello1 = true
  · left; rw [if_pos hr]
  · rw [if_neg hr] at hmid ⊢
    rw [firstFail_none] at hmid
    simp only [List.mem_cons, List.not_mem_nil, or_false, forall_eq_or_imp, forall_eq] at hmid
    obtain ⟨_, _, _, hg, _⟩ := hmid
    simp only [Bool.or_eq_true, beq_iff_eq, List.isEmpty_iff, contains_nat] at hg
    rcases hg with (hg | hg) | hg
    · exact Or.inl hg
    · exact Or.inr (Or.inl hg)
    · exact Or.inr (Or.inr hg)

/-- **Soundness of acceptance**: whatever the server answers, a state the client accepts contains
only parameters the ClientHello offered on the wire. -/
theorem sound (impl : Impl) (o : Offer) (ctx : ClientCtx) (r : Response) (st : State)
    (h : clientStep impl o ctx r = .accept st) : Offered o st := by
  obtain ⟨hff, hst⟩ := clientStep_accept h
  subst hst
  unfold guards at hff
  rw [firstFail_append_none] at hff
  unfold finalState
  by_cases h13 : (peerVersion r.hello1 == tls13) = true
  · rw [if_pos h13] at hff ⊢
    exact sound13 hff.2
  · rw [if_neg h13] at hff ⊢
    exact sound12 (by simpa using h13) hff.2

/-- the accepted state carries exactly the server's selections: suite, group, ALPN protocol,
compression method, PSK index and session id of the ServerHello that was finally processed (the one
after a HelloRetryRequest, if any), the EncryptedExtensions ALPN protocol at TLS 1.3, the
ServerKeyExchange curve below, the CompressedCertificate algorithm. -/
theorem state_is_server_choice (impl : Impl) (o : Offer) (ctx : ClientCtx) (r : Response) (st : State)
    (h : clientStep impl o ctx r = .accept st) :
    (peerVersion r.hello1 = tls13 →
      st.version = tls13 ∧ st.suite = (finalHello impl r).suite ∧ st.group = (finalHello impl r).shareGroup ∧
      st.alpn = r.eeAlpn ∧ st.compression = (finalHello impl r).compression ∧
      st.sessionId = (finalHello impl r).sessionId ∧
      st.usedPsk = (finalHello impl r).pskPresent ∧ st.pskIdx = (finalHello impl r).pskIdx ∧
      (∀ a v, (finalHello impl r).pskPresent = false → r.cert = .compressed a v → st.certAlg = some a)) ∧
    (peerVersion r.hello1 ≠ tls13 →
      st.version = peerVersion r.hello1 ∧ st.suite = r.hello1.suite ∧ st.alpn = r.hello1.alpn ∧
      st.compression = r.hello1.compression ∧
      (st.resumed = false → st.group = r.skxCurve)) := by
  obtain ⟨_, hst⟩ := clientStep_accept h
  subst hst
  constructor
  · intro hv
    have h13 : (peerVersion r.hello1 == tls13) = true := by simpa using hv
    unfold finalState
    rw [if_pos h13]
    refine ⟨rfl, rfl, rfl, rfl, rfl, rfl, rfl, rfl, ?_⟩
    intro a v hp hc
    simp [state13, hp, hc]
  · intro hv
    have h13 : ¬ (peerVersion r.hello1 == tls13) = true := by simpa using hv
    unfold finalState
    rw [if_neg h13]
    refine ⟨rfl, rfl, rfl, rfl, ?_⟩
    intro hr
    have hr' : resumed12 o ctx r.hello1 = false := hr
    simp [state12, hr']

/-- **The property, in its own words**: if what the server selected (the state the handshake would
end in) includes a cipher suite, group, ALPN protocol, compression method, PSK identity or
certificate-compression algorithm the hello did not offer, or a TLS 1.3 ServerHello that does not
echo the legacy session id, the client aborts — there is an alert, and no accepted state. -/
theorem rejects_unoffered (impl : Impl) (o : Offer) (ctx : ClientCtx) (r : Response)
    (h : ¬ Offered o (finalState impl o ctx r)) : ∃ a, clientStep impl o ctx r = .abort a := by
  cases hc : clientStep impl o ctx r with
  | abort a => exact ⟨a, rfl⟩
  | accept st =>
    have hs := sound impl o ctx r st hc
    rw [(clientStep_accept hc).2] at hs
    exact absurd hs h

/-- an abort is the alert of a failing check and nothing else: no state is produced. -/
theorem abort_has_no_state (impl : Impl) (o : Offer) (ctx : ClientCtx) (r : Response) (a : Alert)
    (h : clientStep impl o ctx r = .abort a) :
    firstFail (guards impl o ctx r) = some a ∧ ∀ st, clientStep impl o ctx r ≠ .accept st := by
  constructor
  · unfold clientStep at h
    split at h
    · injection h with h; subst h; assumption
    · cases h
  · intro st hs; rw [h] at hs; cases hs

/-- every negotiated value the client reports (`ConnectionState.Version`, `.CipherSuite`,
`.NegotiatedProtocol`, the curve) is a field of the accepted state, hence one the hello offered. -/
theorem report_from_state (impl : Impl) (o : Offer) (ctx : ClientCtx) (r : Response) (st : State)
    (h : clientStep impl o ctx r = .accept st) :
    (report st).suite = st.suite ∧ (report st).curve = st.group ∧ (report st).alpn = st.alpn ∧
    (report st).version = st.version ∧
    (report st).suite ∈ o.suites ∧ ((report st).alpn = [] ∨ (report st).alpn ∈ o.alpn) ∧
    ((report st).curve = 0 ∨ o.groups = [] ∨ (report st).curve ∈ o.shareGroups ∨ (report st).curve ∈ o.groups) := by
  obtain ⟨hs, hg13, hg12, ha, _⟩ := sound impl o ctx r st h
  refine ⟨rfl, rfl, rfl, rfl, hs, ha, ?_⟩
  show st.group = 0 ∨ o.groups = [] ∨ st.group ∈ o.shareGroups ∨ st.group ∈ o.groups
  by_cases hv : st.version = tls13
  · rcases hg13 hv with hg | ⟨_, _, hg, _⟩
    · exact Or.inr (Or.inr (Or.inl hg))
    · exact Or.inr (Or.inr (Or.inr hg))
  · rcases hg12 hv with hg | hg | hg
    · exact Or.inl hg
    · exact Or.inr (Or.inl hg)
    · exact Or.inr (Or.inr (Or.inr hg))

/-- **Every TLS 1.3 hello the client processes echoes the legacy session id — on QUIC too.**
An accepted TLS 1.3 handshake means the first server message (ServerHello or HelloRetryRequest) and
the finally processed ServerHello both carry exactly the session id the ClientHello sent; the
statement holds for every client context, in particular with `ctx.quic = true`, where the hello's id
is empty (RFC 9001, Section 8.4) and any non-empty id from the server is a mismatch. -/
theorem session_id_echo_all_hellos (impl : Impl) (o : Offer) (ctx : ClientCtx) (r : Response) (st : State)
    (h : clientStep impl o ctx r = .accept st) (hv : peerVersion r.hello1 = tls13) :
    r.hello1.sessionId = o.sessionId ∧ (finalHello impl r).sessionId = o.sessionId ∧
    (ctx.quic = true → o.sessionId = [] → r.hello1.sessionId = [] ∧ st.sessionId = []) := by
  obtain ⟨hff, hst⟩ := clientStep_accept h
  subst hst
  unfold guards at hff
  rw [firstFail_append_none] at hff
  have h13 : (peerVersion r.hello1 == tls13) = true := by simpa using hv
  rw [if_pos h13] at hff
  have hg := hff.2
  unfold guards13 at hg
  simp only [firstFail_append_none] at hg
  obtain ⟨⟨⟨⟨⟨⟨_, hc1⟩, hhrr⟩, _⟩, _⟩, _⟩, _⟩ := hg
  have h1 := (checkSH_facts hc1).2.2.1
  have hfin : (finalHello impl r).sessionId = o.sessionId := by
    unfold finalHello
    by_cases hH : isHRR impl r.hello1 = true
    · rw [if_pos hH] at hhrr ⊢
      exact (checkSH_facts (hrr_facts hhrr).2.2).2.2.1
    · rw [if_neg hH]; exact h1
  refine ⟨h1, hfin, ?_⟩
  intro _ he
  refine ⟨by rw [h1, he], ?_⟩
  unfold finalState
  rw [if_pos h13]
  show (finalHello impl r).sessionId = []
  rw [hfin, he]

/-! ## non-vacuity: concrete handshakes the model accepts and rejects -/

/-- a small implementation table. -/
def implEx : Impl :=
  { suites12 := [0xc02f, 0xc02b, 0x002f], ecdhe12 := [0xc02f, 0xc02b], suites13 := [0x1301, 0x1302, 0x1303],
    curves := [23, 24, 25, 29], canary12 := [68, 79, 87, 78, 71, 82, 68, 1], canary11 := [68, 79, 87, 78, 71, 82, 68, 0],
    hrrRandom := [207, 33] }

/-- a Chrome-like hello: GREASE suite 0x1a1a, TLS 1.3 and 1.2 suites, shares for GREASE and X25519,
groups GREASE/X25519/P-256/P-384, ALPN h2 + http/1.1, brotli certificate compression. -/
def offerEx : Offer :=
  { legacyVersion := tls12, sessionId := [1, 2, 3], suites := [0x1a1a, 0x1301, 0x1302, 0xc02f],
    compressions := [0], hasVersions := true, versions := [0x2a2a, tls13, tls12],
    hasGroups := true, groups := [0x3a3a, 29, 23, 24], shareGroups := [0x3a3a, 29],
    alpn := [[104, 50], [104, 116, 116, 112, 47, 49, 46, 49]], pskCount := 0,
    hasCertComp := true, certCompAlgs := [2] }

def ctxEx : ClientCtx := { cfgMin := tls12, cfgMax := tls13, ecdheGroup := 29, hybridKeys := false }

/-- a compliant TLS 1.3 ServerHello: suite 0x1301, X25519 share, session id echoed. -/
def shEx : ServerHello :=
  { legacyVersion := tls12, random := [9, 9, 9], sessionId := [1, 2, 3], suite := 0x1301, compression := 0,
    supportedVersion := tls13, shareGroup := 29, shareLen := 32 }

def respEx : Response := { hello1 := shEx, recVersion := tls12, eeAlpn := [104, 50] }

/-- the compliant response is accepted (hypothesis of `sound` is satisfiable), with h2 over X25519. -/
example : ∃ st, clientStep implEx offerEx ctxEx respEx = .accept st ∧ st.suite = 0x1301 ∧ st.group = 29 ∧
    st.alpn = [104, 50] :=
  ⟨finalState implEx offerEx ctxEx respEx, by decide, by decide, by decide, by decide⟩

/-- the same response selecting P-521 (not offered) is an instance of `rejects_unoffered`. -/
example : ¬ Offered offerEx (finalState implEx offerEx ctxEx { respEx with hello1 := { shEx with shareGroup := 25, shareLen := 133 } }) := by
  intro h
  have := h.2.1 (by decide)
  revert this
  decide

/-- … and the model indeed aborts it with illegal_parameter; an unoffered GREASE suite, a foreign
ALPN protocol, compression 1, an altered session id, a PSK index and an unadvertised
certificate-compression algorithm each abort too. -/
example : clientStep implEx offerEx ctxEx { respEx with hello1 := { shEx with shareGroup := 25, shareLen := 133 } } = .abort .illegalParameter := by decide
example : clientStep implEx offerEx ctxEx { respEx with hello1 := { shEx with suite := 0x4a4a } } = .abort .illegalParameter := by decide
example : clientStep implEx offerEx ctxEx { respEx with eeAlpn := [122, 122] } = .abort .noApplicationProtocol := by decide
example : clientStep implEx offerEx ctxEx { respEx with hello1 := { shEx with compression := 1 } } = .abort .illegalParameter := by decide
example : clientStep implEx offerEx ctxEx { respEx with hello1 := { shEx with sessionId := [1, 2, 4] } } = .abort .illegalParameter := by decide
example : clientStep implEx offerEx ctxEx { respEx with hello1 := { shEx with pskPresent := true, pskIdx := 0 } } = .abort .illegalParameter := by decide
example : clientStep implEx offerEx ctxEx { respEx with cert := .compressed 1 true } = .abort .badCertificate := by decide
/-- a TLS 1.2 answer on an unlisted curve (P-521) is rejected, on a listed one accepted. -/
example : clientStep implEx offerEx ctxEx { hello1 := { shEx with supportedVersion := 0, suite := 0xc02f, shareGroup := 0, sessionId := [] }, recVersion := tls12, skxCurve := 25 } = .abort .illegalParameter := by decide
def resp12Ex : Response :=
  { hello1 := { shEx with supportedVersion := 0, suite := 0xc02f, shareGroup := 0, sessionId := [] }, recVersion := tls12, skxCurve := 23 }
example : ∃ st, clientStep implEx offerEx ctxEx resp12Ex = .accept st ∧ st.group = 23 :=
  ⟨finalState implEx offerEx ctxEx resp12Ex, by decide, by decide⟩

/-- QUIC: the hello's legacy session id is empty; a ServerHello echoing the empty id is accepted
(hypotheses of `session_id_echo_all_hellos` are satisfiable with `quic = true`), one carrying a
non-empty id is refused with illegal_parameter. -/
def offerQ : Offer := { offerEx with sessionId := [] }
def ctxQ : ClientCtx := { ctxEx with quic := true }
def respQ : Response := { respEx with hello1 := { shEx with sessionId := [] } }
example : ∃ st, clientStep implEx offerQ ctxQ respQ = .accept st ∧ st.sessionId = [] :=
  ⟨finalState implEx offerQ ctxQ respQ, by decide, by decide⟩
example : clientStep implEx offerQ ctxQ { respQ with hello1 := { shEx with sessionId := [9, 9] } } = .abort .illegalParameter := by decide

end C12
