import UtlsVerif.NegotiateLemmas
import UtlsVerif.Gen.ParrotVers
/-!
# C13 — the client never settles on a protocol version it did not advertise

Over the `Negotiate` model (`clientStep`), for **every** offer, client context, implementation table
and server response:

* `version_advertised` — an accepted handshake runs at a version the on-wire ClientHello advertised:
  one listed in `supported_versions` when the hello carries that extension, otherwise one between
  the spec's minimum (the `Config.MinVersion` SetTLSVers left; 1.2 when unset) and `legacy_version`;
  it is also one of TLS 1.0–1.3 inside the Config range.
* `unadvertised_rejected` — a ServerHello selecting a version outside that set is answered with
  `protocol_version`, whatever else it contains (this is the repaired D08: the check is made against
  the hello, not only against the Config range derived from `TLSVersMin/TLSVersMax`).
* `canary_rejected` — a client whose highest supported version is 1.3 aborts on a TLS ≤ 1.2
  ServerHello carrying either RFC 8446 downgrade sentinel (`illegal_parameter` when the version
  itself was acceptable); `canary11_rejected` — the same for a 1.2-max client and the 1.1 sentinel.

Over the regenerated table `Gen.ParrotVers` (one row per predefined ClientHelloID, produced by
running the working tree: spec min/max + supported_versions, the Config range `SetTLSVers` derived,
the versions the client Config accepts, the marshalled hello's version fields), by `decide`:

* `parrot_setvers` — the model's `setTLSVers` and `cfgVersions` reproduce, for every row, the
  Config range and accepted-version list the code derived;
* `parrot_ranges` — for every row, every version the client can settle on (accepted by its Config
  **and** passing the advertised-version check) is advertised by the hello that row marshals;
* `parrot_canary_armed` — every row whose hello advertises TLS 1.3 has 1.3 as its Config maximum,
  i.e. the hypothesis of `canary_rejected` holds for every parrot that offers 1.3.

*Full statement that does not hold and is not claimed:* "for every row the Config range
[`TLSVersMin`, `TLSVersMax`] is a subset of the advertised versions" fails on the Firefox_102 row
(`TLSVersMin` 1.0, hello advertises {1.3, 1.2}); see `firefox102_range_exceeds_hello`. Since the
repair checks the negotiated version against the hello itself, that excess is no longer reachable
(`version_advertised`), so it is recorded, not demanded.
-/
namespace C13
open Negotiate Wire

/-- the spec's minimum as the client enforces it: `Config.MinVersion`, 1.2 when unset. -/
def specMin (ctx : ClientCtx) : Nat := if ctx.cfgMin = 0 then tls12 else ctx.cfgMin

/-- "a version the on-wire ClientHello advertised" (property text). -/
def Advertised (o : Offer) (ctx : ClientCtx) (v : Nat) : Prop :=
  (o.hasVersions = true → v ∈ o.versions) ∧
  (o.hasVersions = false → specMin ctx ≤ v ∧ v ≤ o.legacyVersion)

private theorem finalState_version (impl : Impl) (o : Offer) (ctx : ClientCtx) (r : Response) :
    (finalState impl o ctx r).version = peerVersion r.hello1 := by
  unfold finalState
  by_cases h13 : (peerVersion r.hello1 == tls13) = true
  · rw [if_pos h13]
    have : peerVersion r.hello1 = tls13 := by simpa using h13
    rw [this]; rfl
  · rw [if_neg h13]; rfl

private theorem advertised_spec {o : Offer} {ctx : ClientCtx} {v : Nat}
    (hc : v ∈ cfgVersions ctx) (ha : advertised o v = true) : Advertised o ctx v := by
  obtain ⟨_, hmin, _, hmin0⟩ := cfgVersions_mem hc
  unfold advertised at ha
  constructor
  · intro hv
    rw [if_pos hv] at ha
    exact contains_nat.mp ha
  · intro hv
    rw [if_neg (by simp [hv])] at ha
    refine ⟨?_, by simpa using ha⟩
    unfold specMin
    by_cases h0 : ctx.cfgMin = 0
    · rw [if_pos h0]; exact hmin0 h0
    · rw [if_neg h0]; exact hmin h0

/-- **An accepted handshake runs at an advertised version.** -/
theorem version_advertised (impl : Impl) (o : Offer) (ctx : ClientCtx) (r : Response) (st : State)
    (h : clientStep impl o ctx r = .accept st) :
    Advertised o ctx st.version ∧ st.version ∈ cfgVersions ctx ∧
    (st.version = tls13 ∨ st.version = tls12 ∨ st.version = tls11 ∨ st.version = tls10) := by
  obtain ⟨hff, hst⟩ := clientStep_accept h
  subst hst
  unfold guards at hff
  rw [firstFail_append_none] at hff
  obtain ⟨hc, ha, _⟩ := version_facts hff.1
  rw [finalState_version]
  exact ⟨advertised_spec hc ha, hc, (cfgVersions_mem hc).1⟩

private theorem firstFail_append_some {xs ys : List Guard} {a : Alert} (h : firstFail xs = some a) :
    firstFail (xs ++ ys) = some a := by
  induction xs with
  | nil => simp [firstFail] at h
  | cons g gs ih =>
    obtain ⟨ok, b⟩ := g
    cases ok
    · simpa [firstFail] using h
    · simp only [firstFail, if_true, List.cons_append] at h ⊢
      exact ih h

/-- the three version checks as one nested conditional. -/
private theorem versionGuards_firstFail (impl : Impl) (o : Offer) (ctx : ClientCtx) (sh : ServerHello) :
    firstFail (versionGuards impl o ctx sh) =
      bif (cfgVersions ctx).contains (peerVersion sh) then
        bif advertised o (peerVersion sh) then
          bif downgradeDetected impl ctx sh (peerVersion sh) then some Alert.illegalParameter else none
        else some Alert.protocolVersion
      else some Alert.protocolVersion := by
  unfold versionGuards
  generalize (cfgVersions ctx).contains (peerVersion sh) = b1
  generalize advertised o (peerVersion sh) = b2
  generalize downgradeDetected impl ctx sh (peerVersion sh) = b3
  cases b1 <;> cases b2 <;> cases b3 <;> rfl

private theorem abort_of_version_guard {impl : Impl} {o : Offer} {ctx : ClientCtx} {r : Response} {a : Alert}
    (h : firstFail (versionGuards impl o ctx r.hello1) = some a) : clientStep impl o ctx r = .abort a := by
  unfold clientStep guards
  rw [firstFail_append_some h]

/-- **A ServerHello selecting an unadvertised version is refused with `protocol_version`**, whatever
the Config range says and whatever else the message contains. -/
theorem unadvertised_rejected (impl : Impl) (o : Offer) (ctx : ClientCtx) (r : Response)
    (h : advertised o (peerVersion r.hello1) = false) :
    clientStep impl o ctx r = .abort .protocolVersion := by
  apply abort_of_version_guard
  rw [versionGuards_firstFail, h]
  cases (cfgVersions ctx).contains (peerVersion r.hello1) <;> rfl

/-- **Downgrade sentinel**: a client supporting TLS 1.3 aborts on a TLS ≤ 1.2 ServerHello whose
random ends in `DOWNGRD\x01` or `DOWNGRD\x00`; the alert is `illegal_parameter` when the selected
version was otherwise acceptable, `protocol_version` when it was not even that. -/
theorem canary_rejected (impl : Impl) (o : Offer) (ctx : ClientCtx) (r : Response)
    (hmax : cfgMaxVersion ctx = tls13) (hlow : peerVersion r.hello1 ≤ tls12)
    (hc : hasCanary12 impl r.hello1 = true ∨ hasCanary11 impl r.hello1 = true) :
    (clientStep impl o ctx r = .abort .illegalParameter ∨ clientStep impl o ctx r = .abort .protocolVersion) ∧
    ((peerVersion r.hello1 ∈ cfgVersions ctx ∧ advertised o (peerVersion r.hello1) = true) →
      clientStep impl o ctx r = .abort .illegalParameter) := by
  have hd : downgradeDetected impl ctx r.hello1 (peerVersion r.hello1) = true := by
    unfold downgradeDetected
    have h1 : (cfgMaxVersion ctx == tls13) = true := by simpa using hmax
    have h2 : decide (peerVersion r.hello1 ≤ tls12) = true := by simpa using hlow
    have h3 : (hasCanary12 impl r.hello1 || hasCanary11 impl r.hello1) = true := by
      rcases hc with hc | hc <;> simp [hc]
    simp [h1, h2, h3]
  cases h1 : (cfgVersions ctx).contains (peerVersion r.hello1)
  · have : clientStep impl o ctx r = .abort .protocolVersion := by
      apply abort_of_version_guard
      rw [versionGuards_firstFail, h1]; rfl
    refine ⟨Or.inr this, fun h => ?_⟩
    have h1' := contains_nat.mpr h.1
    rw [h1] at h1'; cases h1'
  · cases h2 : advertised o (peerVersion r.hello1)
    · have : clientStep impl o ctx r = .abort .protocolVersion := by
        apply abort_of_version_guard
        rw [versionGuards_firstFail, h1, h2]; rfl
      refine ⟨Or.inr this, fun h => ?_⟩
      exact Bool.noConfusion h.2
    · have : clientStep impl o ctx r = .abort .illegalParameter := by
        apply abort_of_version_guard
        rw [versionGuards_firstFail, h1, h2, hd]; rfl
      exact ⟨Or.inl this, fun _ => this⟩

/-- the same for a client whose maximum is TLS 1.2 and the TLS 1.1 sentinel. -/
theorem canary11_rejected (impl : Impl) (o : Offer) (ctx : ClientCtx) (r : Response)
    (hmax : cfgMaxVersion ctx = tls12) (hlow : peerVersion r.hello1 ≤ tls11)
    (hc : hasCanary11 impl r.hello1 = true) :
    ∃ a, clientStep impl o ctx r = .abort a ∧ (a = .illegalParameter ∨ a = .protocolVersion) := by
  have hd : downgradeDetected impl ctx r.hello1 (peerVersion r.hello1) = true := by
    unfold downgradeDetected
    have h1 : (cfgMaxVersion ctx == tls12) = true := by simpa using hmax
    have h2 : decide (peerVersion r.hello1 ≤ tls11) = true := by simpa using hlow
    simp [h1, h2, hc]
  cases h1 : (cfgVersions ctx).contains (peerVersion r.hello1)
  · exact ⟨.protocolVersion, abort_of_version_guard (by rw [versionGuards_firstFail, h1]; rfl), Or.inr rfl⟩
  · cases h2 : advertised o (peerVersion r.hello1)
    · exact ⟨.protocolVersion, abort_of_version_guard (by rw [versionGuards_firstFail, h1, h2]; rfl), Or.inr rfl⟩
    · exact ⟨.illegalParameter, abort_of_version_guard (by rw [versionGuards_firstFail, h1, h2, hd]; rfl), Or.inl rfl⟩

/-! ## SetTLSVers: the spec's range replaces whatever the Config held -/

private theorem setTLSVers_ok_range {mn mx : Nat} {exts : List (List Nat)} {a b : Nat}
    (h : setTLSVers mn mx exts = .ok (a, b)) : tls10 ≤ a ∧ a ≤ tls13 ∧ tls10 ≤ b ∧ b ≤ tls13 := by
  unfold setTLSVers at h
  split at h
  · cases h
  · exact (validateVers_ok h).2.2

/-- **`SetTLSVers` overrides the Config**: after it succeeded with (a, b) (and no ECH config list is
set) `Config.MinVersion/MaxVersion` are (a, b) and the versions the client accepts are the same
whatever the Config held before — a bound pinned by the caller or left by an earlier connection
that used the same `*Config` does not survive. The result is a function of the spec only. -/
theorem setTLSVers_overrides_config (a b : Nat) (before1 before2 : ClientCtx) :
    (ctxOfVers a b false before1).cfgMin = a ∧ (ctxOfVers a b false before1).cfgMax = b ∧
    cfgVersions (ctxOfVers a b false before1) = cfgVersions (ctxOfVers a b false before2) := by
  refine ⟨rfl, rfl, ?_⟩
  simp [ctxOfVers, cfgVersions]

/-- **The client settles inside the spec's range**: with the Config as `SetTLSVers` leaves it for a
spec (explicit `TLSVersMin/Max`, else its supported_versions extension, else 1.0–1.2), whatever the
Config held before, an accepted handshake runs at a version between the minimum and the maximum
`SetTLSVers` derived — in particular never below the spec's minimum when the hello carries no
supported_versions extension. -/
theorem settles_within_spec_range (impl : Impl) (o : Offer) (before : ClientCtx) (r : Response) (st : State)
    (mn mx : Nat) (exts : List (List Nat)) (a b : Nat)
    (hs : setTLSVers mn mx exts = .ok (a, b))
    (h : clientStep impl o (ctxOfVers a b false before) r = .accept st) :
    a ≤ st.version ∧ st.version ≤ b ∧ Advertised o (ctxOfVers a b false before) st.version ∧
    specMin (ctxOfVers a b false before) = a := by
  obtain ⟨ha1, _, hb1, _⟩ := setTLSVers_ok_range hs
  obtain ⟨hadv, hc, _⟩ := version_advertised impl o _ r st h
  obtain ⟨_, hmin, hmax, _⟩ := cfgVersions_mem hc
  have ha0 : a ≠ 0 := by unfold tls10 at ha1; omega
  have hb0 : b ≠ 0 := by unfold tls10 at hb1; omega
  refine ⟨hmin ha0, hmax hb0, hadv, ?_⟩
  show (if a = 0 then tls12 else a) = a
  rw [if_neg ha0]

/-! ## the regenerated parrot table -/

open Gen.ParrotVers in
/-- client context of a row: the Config range the code derived. -/
def ctxOfRow (row : Row) : ClientCtx :=
  { cfgMin := row.cfgMin, cfgMax := row.cfgMax, ecdheGroup := 0, hybridKeys := false }

open Gen.ParrotVers in
/-- version part of the offer a row's marshalled hello makes. -/
def offerOfRow (row : Row) : Offer :=
  { legacyVersion := row.wireLegacy, sessionId := [], suites := [], compressions := [0],
    hasVersions := row.wireHasExt, versions := row.wireVers, hasGroups := false, groups := [],
    shareGroups := [], alpn := [], pskCount := 0, hasCertComp := false, certCompAlgs := [] }

/-- the model's SetTLSVers result equals (a, b). -/
def setVersIs (mn mx : Nat) (exts : List (List Nat)) (a b : Nat) : Bool :=
  match setTLSVers mn mx exts with
  | .ok p => p.1 == a && p.2 == b
  | .error _ => false

/-- the property's "advertised", decidable form for table rows. -/
def advertisedB (o : Offer) (ctx : ClientCtx) (v : Nat) : Bool :=
  if o.hasVersions then o.versions.contains v else (decide (specMin ctx ≤ v) && decide (v ≤ o.legacyVersion))

/-- the model reproduces what the code derived for every predefined ClientHelloID: Config range
from `SetTLSVers(spec.TLSVersMin, spec.TLSVersMax, spec.Extensions)` and the versions the client
Config accepts. -/
theorem parrot_setvers : ∀ row ∈ Gen.ParrotVers.rows,
    setVersIs row.specMin row.specMax row.specExts row.cfgMin row.cfgMax = true ∧
    cfgVersions (ctxOfRow row) = row.accepts := by decide

/-- for every predefined ClientHelloID: a version the client can settle on — accepted by its Config
and passing the advertised-version check against its own hello — is advertised by that hello. -/
theorem parrot_ranges : ∀ row ∈ Gen.ParrotVers.rows, ∀ v ∈ row.accepts,
    advertised (offerOfRow row) v = true → advertisedB (offerOfRow row) (ctxOfRow row) v = true := by decide

/-- every predefined ClientHelloID whose hello advertises TLS 1.3 has 1.3 as its Config maximum
(so the downgrade-sentinel check is armed for it), and conversely. -/
theorem parrot_canary_armed : ∀ row ∈ Gen.ParrotVers.rows,
    (row.wireVers.contains tls13 = true ↔ cfgMaxVersion (ctxOfRow row) = tls13) := by decide

/-- the Firefox_102 shape: Config 1.0–1.3, hello advertises {1.3, 1.2}. -/
def offer102 : Offer :=
  { legacyVersion := tls12, sessionId := [7], suites := [0x1301, 0xc02f, 0xc013], compressions := [0],
    hasVersions := true, versions := [tls13, tls12], hasGroups := true, groups := [29, 23], shareGroups := [29],
    alpn := [], pskCount := 0, hasCertComp := false, certCompAlgs := [] }
def ctx102 : ClientCtx := { cfgMin := tls10, cfgMax := tls13, ecdheGroup := 29, hybridKeys := false }

/-- recorded, not demanded: the Config range of the Firefox_102 row (TLS 1.0–1.3) exceeds what its
hello advertises ({1.3, 1.2}); before the repair this made TLS 1.0/1.1 reachable (D08). Stated for
a row of that shape so that repairing the spec row later does not break this file. -/
theorem firefox102_range_exceeds_hello :
    tls11 ∈ cfgVersions ctx102 ∧ advertised offer102 tls11 = false ∧
    tls10 ∈ cfgVersions ctx102 ∧ advertised offer102 tls10 = false := by decide

/-! ## non-vacuity -/

def implEx : Impl :=
  { suites12 := [0xc02f, 0xc013], ecdhe12 := [0xc02f, 0xc013], suites13 := [0x1301], curves := [23, 29],
    canary12 := [68, 79, 87, 78, 71, 82, 68, 1], canary11 := [68, 79, 87, 78, 71, 82, 68, 0], hrrRandom := [207, 33] }

/-- a legacy server answering at TLS 1.1 (inside the Config range, never advertised) is refused —
instance of `unadvertised_rejected`; the D08 replay on the real code is corpus/C13/d08.case. -/
example : clientStep implEx offer102 ctx102
    { hello1 := { legacyVersion := tls11, random := [1, 2, 3], sessionId := [], suite := 0xc013, compression := 0 },
      recVersion := tls11, skxCurve := 29 } = .abort .protocolVersion := by decide

/-- the same server at TLS 1.2 (advertised) is accepted: hypothesis of `version_advertised` is satisfiable. -/
def resp12 : Response :=
  { hello1 := { legacyVersion := tls12, random := [1, 2, 3], sessionId := [], suite := 0xc02f, compression := 0 },
    recVersion := tls12, skxCurve := 29 }
example : ∃ st, clientStep implEx offer102 ctx102 resp12 = .accept st ∧ st.version = tls12 :=
  ⟨finalState implEx offer102 ctx102 resp12, by decide, by decide⟩

/-- … and with the TLS 1.2 downgrade sentinel in the random it is refused with illegal_parameter
(hypotheses of `canary_rejected` hold: Config maximum 1.3, version 1.2, sentinel present). -/
def respCanary : Response :=
  { hello1 := { legacyVersion := tls12, random := List.replicate 24 0 ++ [68, 79, 87, 78, 71, 82, 68, 1],
                sessionId := [], suite := 0xc02f, compression := 0 },
    recVersion := tls12, skxCurve := 29 }
example : cfgMaxVersion ctx102 = tls13 ∧ peerVersion respCanary.hello1 ≤ tls12 ∧ hasCanary12 implEx respCanary.hello1 = true ∧
    clientStep implEx offer102 ctx102 respCanary = .abort .illegalParameter := by decide

end C13
