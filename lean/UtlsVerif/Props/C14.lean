import UtlsVerif.VerifyPlan
/-!
# C14 — server certificates are verified exactly as the Config requests

Over `VerifyPlan` (the transcription of `verifyServerCertificate`'s decision logic with the D09
repair, and of `loadSession`'s re-check), for **every** configuration, oracle (= x509 outcome),
chain and cache content:

* `verified_as_requested` — unless `InsecureSkipVerify`, a fresh handshake is accepted only if the
  oracle verifies the presented chain under a plan whose name is `ServerName` by default,
  `InsecureServerNameToVerify` when set, no name when that field is `"*"`, and whose time is the
  configured time unless `InsecureSkipTimeVerify` (then the leaf's `NotAfter`);
* `time_flag_relaxes_only_time` — `InsecureSkipTimeVerify` changes nothing but the time component;
* `skip_only_when_requested` — verification is skipped exactly when `InsecureSkipVerify` is set and
  ECH was not rejected;
* `ech_rejected_public_name` — after an ECH rejection the chain is verified (even with
  `InsecureSkipVerify`) against the name of the outer ClientHello, the connection is never reported
  as accepted, and `ECHRejectionError` is returned exactly when that verification succeeds;
* `resumed_rechecked` — a resumed session is used only if the cached leaf passed the re-check
  against the *current* Config (not expired unless the time flag; verified chains present and the
  host name of the plan matches unless `InsecureSkipVerify`); anything else goes through the full
  verification (`not_resumed_is_verified`).
-/
namespace C14
open VerifyPlan

/-- the verification name the property text prescribes for a non-rejected handshake. -/
def NameSpec (cfg : Cfg) (n : Option String) : Prop :=
  (cfg.nameToVerify = "" → n = (if cfg.serverName = "" then none else some cfg.serverName)) ∧
  (cfg.nameToVerify = "*" → n = none) ∧
  (cfg.nameToVerify ≠ "" → cfg.nameToVerify ≠ "*" → n = some cfg.nameToVerify)

/-- the time the property text prescribes. -/
def TimeSpecOf (cfg : Cfg) (t : TimeSpec) : Prop :=
  (cfg.skipTime = false → t = .configured) ∧ (cfg.skipTime = true → t = .leafNotAfter)

private theorem isEmpty_iff (s : String) : s.isEmpty = true ↔ s = "" := String.isEmpty_iff

private theorem chooseName_spec (cfg : Cfg) : NameSpec cfg (chooseName cfg cfg.serverName) := by
  unfold NameSpec chooseName
  refine ⟨?_, ?_, ?_⟩
  · intro h
    have : cfg.nameToVerify.isEmpty = true := (isEmpty_iff _).2 h
    rw [if_pos this]
    by_cases hs : cfg.serverName = ""
    · rw [if_pos ((isEmpty_iff _).2 hs), if_pos hs]
    · have : ¬ cfg.serverName.isEmpty = true := fun h' => hs ((isEmpty_iff _).1 h')
      rw [if_neg this, if_neg hs]
  · intro h
    have h1 : ¬ cfg.nameToVerify.isEmpty = true := by
      intro h'; rw [(isEmpty_iff _).1 h'] at h; exact absurd h (by decide)
    rw [if_neg h1]
    simp [h]
  · intro h1 h2
    have h1' : ¬ cfg.nameToVerify.isEmpty = true := fun h' => h1 ((isEmpty_iff _).1 h')
    rw [if_neg h1']
    simp [h2]

private theorem chooseTime_spec (cfg : Cfg) : TimeSpecOf cfg (chooseTime cfg) := by
  unfold TimeSpecOf chooseTime
  constructor <;> intro h <;> simp [h]

/-- **C14 main theorem (fresh handshakes).** Without `InsecureSkipVerify`, whenever
`verifyServerCertificate` lets a non-ECH-rejected handshake through, x509 (the oracle) has verified
the presented chain against `RootCAs` under a plan with exactly the name and time the Config asks. -/
theorem verified_as_requested {Chain : Type} (O : Oracle Chain) (cfg : Cfg) (echAccepted : Bool)
    (connName : String) (chain : Chain)
    (hskip : cfg.skipVerify = false) (hrej : echRejected cfg echAccepted = false)
    (hacc : verifyCert O cfg echAccepted connName chain = none) :
    ∃ p, verifyPlan cfg echAccepted connName = .verify p ∧ O p chain = true ∧
      NameSpec cfg p.name ∧ TimeSpecOf cfg p.time := by
  unfold verifyCert at hacc
  have hplan : verifyPlan cfg echAccepted connName
      = .verify ⟨chooseTime cfg, chooseName cfg cfg.serverName⟩ := by
    unfold verifyPlan; simp [hrej, hskip]
  rw [hplan] at hacc
  refine ⟨_, hplan, ?_, chooseName_spec cfg, chooseTime_spec cfg⟩
  by_cases ho : O ⟨chooseTime cfg, chooseName cfg cfg.serverName⟩ chain = true
  · exact ho
  · simp [ho] at hacc

private theorem connect_cases {Chain : Type} (O : Oracle Chain) (S : SessOracle Chain) (cfg : Cfg)
    (cached : Option (Session Chain)) (og sr echAccepted : Bool) (connName : String) (chain : Chain) :
    (offered S cfg cached og = true ∧ sr = true ∧
        connect O S cfg cached og sr echAccepted connName chain = .accepted true) ∨
    ((offered S cfg cached og && sr) = false ∧
      ((verifyCert O cfg echAccepted connName chain ≠ none ∧
          connect O S cfg cached og sr echAccepted connName chain = .certError) ∨
       (verifyCert O cfg echAccepted connName chain = none ∧ echRejected cfg echAccepted = true ∧
          connect O S cfg cached og sr echAccepted connName chain = .echRejection) ∨
       (verifyCert O cfg echAccepted connName chain = none ∧ echRejected cfg echAccepted = false ∧
          connect O S cfg cached og sr echAccepted connName chain = .accepted false))) := by
  unfold connect
  by_cases h1 : (offered S cfg cached og && sr) = true
  · left
    have h1' : offered S cfg cached og = true ∧ sr = true := by simpa using h1
    exact ⟨h1'.1, h1'.2, by rw [if_pos h1]⟩
  · right
    have h1f : (offered S cfg cached og && sr) = false := by simpa using h1
    refine ⟨h1f, ?_⟩
    rw [if_neg h1]
    cases hv : verifyCert O cfg echAccepted connName chain with
    | some e => left; simp
    | none =>
      right
      cases hr : echRejected cfg echAccepted with
      | true => left; simp
      | false => right; simp

/-- at the level of a whole connection: an accepted, non-resumed connection was verified. -/
theorem not_resumed_is_verified {Chain : Type} (O : Oracle Chain) (S : SessOracle Chain) (cfg : Cfg)
    (cached : Option (Session Chain)) (og sr echAccepted : Bool) (connName : String) (chain : Chain)
    (hskip : cfg.skipVerify = false)
    (h : connect O S cfg cached og sr echAccepted connName chain = .accepted false) :
    echRejected cfg echAccepted = false ∧
    ∃ p, O p chain = true ∧ NameSpec cfg p.name ∧ TimeSpecOf cfg p.time := by
  rcases connect_cases O S cfg cached og sr echAccepted connName chain with
    ⟨_, _, hc⟩ | ⟨_, ⟨_, hc⟩ | ⟨_, _, hc⟩ | ⟨hv, hr, _⟩⟩
  · rw [hc] at h; cases h
  · rw [hc] at h; cases h
  · rw [hc] at h; cases h
  · obtain ⟨p, _, hO, hn, ht⟩ := verified_as_requested O cfg echAccepted connName chain hskip hr hv
    exact ⟨hr, p, hO, hn, ht⟩

/-- **`InsecureSkipTimeVerify` relaxes only the validity period**: flipping it never changes whether
verification happens nor the name; it changes the time component and nothing else. -/
theorem time_flag_relaxes_only_time (cfg : Cfg) (b echAccepted : Bool) (connName : String) :
    (verifyPlan { cfg with skipTime := b } echAccepted connName = .skip ↔
      verifyPlan cfg echAccepted connName = .skip) ∧
    ∀ p, verifyPlan cfg echAccepted connName = .verify p →
      verifyPlan { cfg with skipTime := b } echAccepted connName
        = .verify ⟨if b then .leafNotAfter else .configured, p.name⟩ := by
  unfold verifyPlan echRejected chooseName chooseTime
  constructor
  · by_cases h1 : (cfg.echConfigured && !echAccepted) = true <;> simp [h1]
  · intro p
    by_cases h1 : (cfg.echConfigured && !echAccepted) = true
    · simp only [h1, if_true]; intro h; cases h; rfl
    · by_cases h2 : cfg.skipVerify = true
      · simp [h1, h2]
      · simp only [h1, h2]; intro h
        simp at h; cases h; simp

/-- verification is skipped exactly when `InsecureSkipVerify` is set and ECH was not rejected. -/
theorem skip_only_when_requested (cfg : Cfg) (echAccepted : Bool) (connName : String) :
    verifyPlan cfg echAccepted connName = .skip ↔
      (cfg.skipVerify = true ∧ echRejected cfg echAccepted = false) := by
  unfold verifyPlan
  by_cases h1 : echRejected cfg echAccepted = true
  · simp [h1]
  · by_cases h2 : cfg.skipVerify = true <;> simp [h1, h2]

/-- **ECH rejected ⇒ verified against the public name** (the repaired D09). With ECH configured and
not accepted, and no `InsecureServerNameToVerify` override, the chain is verified against the name
of the outer ClientHello (`connName`, the ECH public name) — also under `InsecureSkipVerify` —, the
connection is never reported accepted, and the caller gets `ECHRejectionError` exactly when that
verification succeeds (otherwise a certificate error). -/
theorem ech_rejected_public_name {Chain : Type} (O : Oracle Chain) (S : SessOracle Chain) (cfg : Cfg)
    (publicName : String) (chain : Chain)
    (hech : cfg.echConfigured = true) (hnv : cfg.nameToVerify = "") (hpub : publicName ≠ "") :
    verifyPlan cfg false publicName = .verify ⟨chooseTime cfg, some publicName⟩ ∧
    (connect O S cfg none false false false publicName chain = .echRejection ↔
      O ⟨chooseTime cfg, some publicName⟩ chain = true) ∧
    (connect O S cfg none false false false publicName chain = .certError ↔
      O ⟨chooseTime cfg, some publicName⟩ chain = false) ∧
    ∀ r, connect O S cfg none false false false publicName chain ≠ .accepted r := by
  have hrej : echRejected cfg false = true := by simp [echRejected, hech]
  have hname : chooseName cfg publicName = some publicName := by
    unfold chooseName
    have h1 : cfg.nameToVerify.isEmpty = true := (isEmpty_iff _).2 hnv
    have h2 : ¬ publicName.isEmpty = true := fun h => hpub ((isEmpty_iff _).1 h)
    rw [if_pos h1, if_neg h2]
  have hplan : verifyPlan cfg false publicName = .verify ⟨chooseTime cfg, some publicName⟩ := by
    unfold verifyPlan; rw [if_pos hrej, hname]
  refine ⟨hplan, ?_⟩
  have hv : verifyCert O cfg false publicName chain
      = if O ⟨chooseTime cfg, some publicName⟩ chain then none else some .verification := by
    unfold verifyCert; rw [hplan]
  rcases connect_cases O S cfg none false false false publicName chain with
    ⟨ho, _, _⟩ | ⟨_, ⟨hne, hc⟩ | ⟨hn, _, hc⟩ | ⟨_, hr, _⟩⟩
  · simp [offered] at ho
  · rw [hc]
    cases ho : O ⟨chooseTime cfg, some publicName⟩ chain
    · simp
    · rw [hv, ho] at hne; simp at hne
  · rw [hc]
    cases ho : O ⟨chooseTime cfg, some publicName⟩ chain
    · rw [hv, ho] at hn; simp at hn
    · simp
  · rw [hrej] at hr; cases hr

/-- **resumed sessions are re-checked.** A connection is reported as resumed only if a cached
session existed whose leaf passed `loadSession`'s re-check against the *current* Config: not
expired at the configured time unless `InsecureSkipTimeVerify`; and, unless `InsecureSkipVerify`,
established with verified chains and matching the host name the Config asks for. -/
theorem resumed_rechecked {Chain : Type} (O : Oracle Chain) (S : SessOracle Chain) (cfg : Cfg)
    (cached : Option (Session Chain)) (og sr echAccepted : Bool) (connName : String) (chain : Chain)
    (h : connect O S cfg cached og sr echAccepted connName chain = .accepted true) :
    ∃ s, cached = some s ∧ sr = true ∧
      (cfg.skipTime = true ∨ S.expired s.chain = false) ∧
      (cfg.skipVerify = true ∨
        (s.hasVerifiedChains = true ∧
          ∃ n, NameSpec cfg n ∧ (∀ x, n = some x → S.hostOk x s.chain = true))) := by
  rcases connect_cases O S cfg cached og sr echAccepted connName chain with
    ⟨ho, hsr, _⟩ | ⟨_, ⟨_, hc⟩ | ⟨_, _, hc⟩ | ⟨_, _, hc⟩⟩
  · cases cached with
    | none => simp [offered] at ho
    | some s =>
      have h3 : sessionUsable S cfg s = true ∧ og = true := by simpa [offered] using ho
      refine ⟨s, rfl, hsr, ?_⟩
      have hu := h3.1
      unfold sessionUsable at hu
      simp only [Bool.and_eq_true, Bool.or_eq_true, Bool.not_eq_true'] at hu
      refine ⟨hu.1, ?_⟩
      rcases hu.2 with hsv | ⟨hvc, hn⟩
      · exact Or.inl hsv
      · refine Or.inr ⟨hvc, chooseName cfg cfg.serverName, chooseName_spec cfg, ?_⟩
        intro x hx
        rw [hx] at hn
        exact hn
  · rw [hc] at h; cases h
  · rw [hc] at h; cases h
  · rw [hc] at h; cases h

/-- **the re-check uses the verification name, never the SNI value.** Whatever `ServerName` is — a
DNS name, an IP literal (for which the ClientHello carries no server_name), a name the spec does not
send at all: the value of the hello's SNI is not even an input of the decision —, a resumed
connection under a Config that verifies means the cached leaf matched exactly the host name a full
handshake under this Config would hand to x509. -/
theorem resumed_name_is_fresh_name {Chain : Type} (O : Oracle Chain) (S : SessOracle Chain) (cfg : Cfg)
    (cached : Option (Session Chain)) (og sr echAccepted : Bool) (connName : String) (chain : Chain)
    (hskip : cfg.skipVerify = false) (hrej : echRejected cfg echAccepted = false)
    (h : connect O S cfg cached og sr echAccepted connName chain = .accepted true) :
    ∃ p, verifyPlan cfg echAccepted connName = .verify p ∧
      ∀ s, cached = some s → ∀ x, p.name = some x → S.hostOk x s.chain = true := by
  have hplan : verifyPlan cfg echAccepted connName
      = .verify ⟨chooseTime cfg, chooseName cfg cfg.serverName⟩ := by
    unfold verifyPlan; simp [hrej, hskip]
  refine ⟨_, hplan, ?_⟩
  intro s hs x hx
  rcases connect_cases O S cfg cached og sr echAccepted connName chain with
    ⟨ho, _, _⟩ | ⟨_, ⟨_, hc⟩ | ⟨_, _, hc⟩ | ⟨_, _, hc⟩⟩
  · subst hs
    have h3 : sessionUsable S cfg s = true ∧ og = true := by simpa [offered] using ho
    have hu := h3.1
    unfold sessionUsable at hu
    simp only [Bool.and_eq_true, Bool.or_eq_true, Bool.not_eq_true', hskip, Bool.false_eq_true, false_or] at hu
    simp only at hx
    rw [hx] at hu
    exact hu.2.2
  · rw [hc] at h; cases h
  · rw [hc] at h; cases h
  · rw [hc] at h; cases h

/-! ## non-vacuity: concrete instances meeting the hypotheses -/

/-- a toy x509: chains are (names the leaf is valid for, valid now?, valid at NotAfter?). -/
private def toyO : Oracle (List String × Bool × Bool) := fun p c =>
  (match p.time with | .configured => c.2.1 | .leafNotAfter => c.2.2) &&
  (match p.name with | none => true | some n => c.1.contains n)

private def toyS : SessOracle (List String × Bool × Bool) :=
  { expired := fun c => !c.2.1, hostOk := fun n c => c.1.contains n }

private def cfgA : Cfg := ⟨"a.test", "b.test", false, true, false⟩

-- verified_as_requested: InsecureServerNameToVerify=b.test, InsecureSkipTimeVerify, expired leaf for b.test
example : verifyCert toyO cfgA false "a.test" (["b.test"], false, true) = none := by decide
example : verifyPlan cfgA false "a.test" = .verify ⟨.leafNotAfter, some "b.test"⟩ := by decide
-- … and the same leaf is refused without the time flag, or for the default name
example : verifyCert toyO { cfgA with skipTime := false } false "a.test" (["b.test"], false, true)
    = some .verification := by decide
example : verifyCert toyO { cfgA with nameToVerify := "" } false "a.test" (["b.test"], false, true)
    = some .verification := by decide
-- ech_rejected_public_name: secret a.test, public p.test, server certificate for p.test only
example : connect toyO toyS ⟨"a.test", "", false, false, true⟩ none false false false "p.test"
    (["p.test"], true, true) = .echRejection := by decide
example : connect toyO toyS ⟨"a.test", "", true, false, true⟩ none false false false "p.test"
    (["a.test"], true, true) = .certError := by decide
-- resumed_rechecked: a cached session for the right name is resumed, one for another name is not
example : connect toyO toyS ⟨"a.test", "", false, false, false⟩
    (some ⟨(["a.test"], true, true), true⟩) true true false "a.test" (["x"], false, false)
    = .accepted true := by decide
example : connect toyO toyS ⟨"a.test", "", false, false, false⟩
    (some ⟨(["b.test"], true, true), true⟩) true true false "a.test" (["x"], false, false)
    = .certError := by decide
-- resumed_name_is_fresh_name: an IP-literal ServerName is re-checked like any other name
example : connect toyO toyS ⟨"127.0.0.1", "", false, false, false⟩
    (some ⟨(["other.invalid"], true, true), true⟩) true true false "127.0.0.1" (["other.invalid"], true, true)
    = .certError := by decide
example : connect toyO toyS ⟨"127.0.0.1", "", false, false, false⟩
    (some ⟨(["127.0.0.1"], true, true), true⟩) true true false "127.0.0.1" (["x"], false, false)
    = .accepted true := by decide

end C14
