import UtlsVerif.EchLemmas
/-!
# C15 — ECH hides the real server name and is honoured end to end

Over `Ech` (transcription of the inner-hello codec, the outer hello construction, the
HelloRetryRequest key-share update incl. its uTLS section as repaired by the D10 fix, and the
accept / reject signalling), HPKE and the transcript functions symbolic:

* `inner_roundtrip` (crypto/tls path) and `inner_roundtrip_utls` (uTLS path, reordered
  `ech_outer_extensions`) — the server's `decodeInner` applied to the client's `encodeInner` returns
  the inner hello: every compressed extension expands to the outer hello's value, in the position
  the client meant, for extension lists of any length; the padding is all zero, and any non-zero
  padding byte is rejected (`padding_checked`);
* `outer_hides_name` — no plaintext byte of the outer ClientHello derives from `Config.ServerName`
  (provenance-tagged model, HPKE output tagged as ciphertext), hence the name is not a sub-list of
  it; `outer_sni_public` — the outer server_name is the config's public name; `marshalT_erase` ties
  the tagged model to the executable one;
* `accept_reports` — a server holding the key reconstructs the inner hello the client hashed, its
  confirmation is recognised, both sides report ECH accepted and the inner `ServerName`;
* `reject_gives_retry` — a server without the key continues with the outer hello; the client
  verifies the public name and returns `ECHRejectionError` carrying exactly the server's retry list;
* `hrr_one_share` — after a HelloRetryRequest the second (outer and reconstructed inner) hello
  carries exactly one key share, for the selected group, equal to what the client hashed.
-/
namespace C15
open Wire Ech

/-- an inner hello within wire limits (what `cryptobyte` would marshal without error). -/
structure HelloWF (h : Hello) : Prop where
  vr : h.vr.length = 34
  suites : h.suites.length < 65536
  comp : h.comp.length < 256
  exts : ∀ e ∈ h.exts, ExtWF e

/-- the structural conditions the server imposes on a reconstructed inner hello. -/
def finalOk (exts : List RawExt) : Bool :=
  decide (exts.map (·.typ)).Nodup &&
  ((exts.dropWhile (·.typ != extPSK)).drop 1).length == 0 &&
  findExt exts extECH == some [1] &&
  findExt exts extSupportedVersions == some [2, 3, 4]

private theorem finalChecks_ok (h : Hello) (hok : finalOk h.exts = true) : finalChecks h = .ok h := by
  simp only [finalOk, Bool.and_eq_true, decide_eq_true_eq, beq_iff_eq] at hok
  obtain ⟨⟨⟨h1, h2⟩, h3⟩, h4⟩ := hok
  have h2' : (List.dropWhile (fun x => x.typ != extPSK) h.exts).length - 1 = 0 := by
    simpa [List.length_drop] using h2
  unfold finalChecks
  simp [h1, h2', h3, h4]

private theorem findExt_mid (a m c : List RawExt) (t : Nat) (h : ∀ e ∈ m, e.typ ≠ t) :
    findExt (a ++ m ++ c) t = findExt (a ++ c) t := by
  unfold findExt
  have hm : m.find? (fun e => e.typ == t) = none := by
    apply List.find?_eq_none.2
    intro x hx; simp [h x hx]
  simp [List.find?_append, hm]

/-- general form: decoding the encoding yields `pre ++ xs ++ post` where `xs` is what the listed
types expand to in the outer hello. -/
private theorem decode_encode (inner outer : Hello) (pre blk post xs : List RawExt) (mnl : Nat)
    (ot : Option (List Nat)) (reorder : Bool) (hr : ot.isSome = reorder)
    (hs : Split reorder inner.exts pre blk post) (hwf : HelloWF inner)
    (hfit : (encExts (encodeInnerExts inner.exts ot)).length < 65536)
    (hlist : (encU16s (listedTypes (blk.map (·.typ)) ot)).length < 256)
    (hlt : ∀ t ∈ listedTypes (blk.map (·.typ)) ot, t < 65536)
    (hne : encodeInnerExts inner.exts ot ≠ [])
    (hx : expandL outer.exts (listedTypes (blk.map (·.typ)) ot) = .ok xs)
    (hok : finalOk (pre ++ xs ++ post) = true) :
    decodeInner outer (encodeInner inner mnl ot)
      = .ok ⟨inner.vr, outer.sid, inner.suites, inner.comp, pre ++ xs ++ post⟩ := by
  have hpre_in : ∀ e ∈ pre, e ∈ inner.exts := by intro e he; rw [hs.split]; simp [he]
  have hpost_in : ∀ e ∈ post, e ∈ inner.exts := by intro e he; rw [hs.split]; simp [he]
  have hpre_ne : ∀ e ∈ pre, e.typ ≠ extOuterExts := fun e he => (hs.pre_plain e he).2.2.2
  have hpost_ne : ∀ e ∈ post, e.typ ≠ extOuterExts := by
    intro e he; rw [hs.post_psk e he]; decide
  have hW := encodeInnerExts_split ot hr hs
  have hnotempty : (encodeInnerExts inner.exts ot).isEmpty = false := by
    cases h : encodeInnerExts inner.exts ot with
    | nil => exact absurd h hne
    | cons _ _ => rfl
  unfold encodeInner encodeInnerCore extBlock
  rw [hnotempty]
  simp only [Bool.false_eq_true, if_false]
  rw [decode_header outer _ _ _ _ _ hwf.vr hwf.suites hwf.comp hfit]
  rw [all_zero_replicate]
  simp only [Bool.not_true, Bool.false_eq_true, if_false]
  -- the loop runs over the extension list
  have hWwf : ∀ e ∈ encodeInnerExts inner.exts ot, ExtWF e := by
    rw [hW]
    intro e he
    simp only [List.mem_append] at he
    rcases he with (he | he) | he
    · exact hwf.exts e (hpre_in e he)
    · by_cases hl : (listedTypes (blk.map (·.typ)) ot).isEmpty = true
      · rw [if_pos hl] at he; cases he
      · rw [if_neg hl] at he
        simp only [List.mem_singleton] at he
        subst he
        refine ⟨by simp [outerExtsExt, extOuterExts], ?_⟩
        simp only [outerExtsExt, vec8_length]
        omega
    · exact hwf.exts e (hpost_in e he)
  rw [reconAux_enc outer.exts _ _ hWwf (length_le_encExts _)]
  rw [hW]
  by_cases hl : (listedTypes (blk.map (·.typ)) ot).isEmpty = true
  · have hnil : listedTypes (blk.map (·.typ)) ot = [] := List.isEmpty_iff.1 hl
    rw [hnil] at hx
    have hxs : xs = [] := by
      simp only [expandL] at hx
      cases hx; rfl
    subst hxs
    rw [if_pos hl]
    have : reconList outer.exts (pre ++ [] ++ post) = .ok (pre ++ [] ++ post) := by
      apply reconList_plain_nil
      intro e he
      simp only [List.append_nil, List.mem_append] at he
      rcases he with he | he
      · exact hpre_ne e he
      · exact hpost_ne e he
    rw [this]
    exact finalChecks_ok _ hok
  · rw [if_neg hl]
    have hexp : expandTypes outer.exts (encU16s (listedTypes (blk.map (·.typ)) ot)) = .ok xs := by
      rw [expandTypes_enc _ _ hlt, hx]
    have := reconList_mid outer.exts pre post _ xs hpre_ne hpost_ne hlist hexp
    unfold outerExtsExt
    rw [this]
    exact finalChecks_ok _ hok

/-- **inner round trip, crypto/tls path** (`HelloGolang`; `ech_outer_extensions` in marshal order).
If the compressed extensions of the inner hello occur, with the same values and in the same order,
in the outer hello (they do: the outer hello is a clone of the inner one), the server reconstructs
exactly the inner hello — for any number of extensions. -/
theorem inner_roundtrip (inner outer : Hello) (pre blk post : List RawExt) (mnl : Nat)
    (hs : Split false inner.exts pre blk post) (hwf : HelloWF inner)
    (hfit : (encExts (encodeInnerExts inner.exts none)).length < 65536)
    (hlist : 2 * blk.length < 256)
    (hsub : blk.Sublist outer.exts) (hnd : (outer.exts.map (·.typ)).Nodup)
    (hok : finalOk inner.exts = true) (hsid : inner.sid = outer.sid) :
    decodeInner outer (encodeInner inner mnl none) = .ok inner := by
  have hblkwf : ∀ e ∈ blk, ExtWF e := by
    intro e he; apply hwf.exts; rw [hs.split]; simp [he]
  have hx : expandL outer.exts (listedTypes (blk.map (·.typ)) none) = .ok blk := by
    apply expandL_sublist blk outer.exts hsub hnd
    intro e he
    exact (compressible_not_special (hs.blk_cmp e he)).2.2.2.1
  have hne : encodeInnerExts inner.exts none ≠ [] := by
    intro h
    have h3 : findExt inner.exts extECH = some [1] := by
      simp only [finalOk, Bool.and_eq_true, beq_iff_eq] at hok
      exact hok.1.2
    rw [encodeInnerExts_split (reorder := false) none rfl hs] at h
    have hp : pre = [] := by
      cases pre with
      | nil => rfl
      | cons _ _ => simp at h
    have hq : post = [] := by
      cases post with
      | nil => rfl
      | cons _ _ => simp at h
    have hb : blk = [] := by
      cases blk with
      | nil => rfl
      | cons _ _ => simp [hp, listedTypes] at h
    rw [hs.split, hp, hq, hb] at h3
    simp [findExt] at h3
  have h := decode_encode inner outer pre blk post blk mnl none false rfl hs hwf hfit
    (by simp [listedTypes]; omega)
    (by intro t ht
        simp only [listedTypes, List.mem_map] at ht
        obtain ⟨e, he, rfl⟩ := ht
        exact (hblkwf e he).1)
    hne hx (by rw [← hs.split]; exact hok)
  rw [h, ← hs.split, ← hsid]

/-- **inner round trip, uTLS path** (parrots; `ech_outer_extensions` reordered to the outer
extension order, which `uconn.extensionsList()` supplies). Whatever order the inner hello's
struct had its compressible extensions in, the server reconstructs `pre ++ (the outer hello's
extensions of the compressed types, in outer order) ++ post`; the inner random, cipher suites,
compression methods and every uncompressed extension — in particular server_name — are unchanged. -/
theorem inner_roundtrip_utls (inner outer : Hello) (pre blk post : List RawExt) (mnl : Nat)
    (hs : Split true inner.exts pre blk post) (hwf : HelloWF inner)
    (hfit : (encExts (encodeInnerExts inner.exts (some (outer.exts.map (·.typ))))).length < 65536)
    (hlist : 2 * outer.exts.length < 256) (howf : ∀ e ∈ outer.exts, ExtWF e)
    (hnd : (outer.exts.map (·.typ)).Nodup)
    (hok : finalOk (pre ++ outer.exts.filter (fun e => (blk.map (·.typ)).contains e.typ) ++ post) = true) :
    decodeInner outer (encodeInner inner mnl (some (outer.exts.map (·.typ))))
      = .ok ⟨inner.vr, outer.sid, inner.suites, inner.comp,
          pre ++ outer.exts.filter (fun e => (blk.map (·.typ)).contains e.typ) ++ post⟩ ∧
    findExt (pre ++ outer.exts.filter (fun e => (blk.map (·.typ)).contains e.typ) ++ post) extSNI
      = findExt inner.exts extSNI := by
  let X := outer.exts.filter (fun e => (blk.map (·.typ)).contains e.typ)
  have hlisted : listedTypes (blk.map (·.typ)) (some (outer.exts.map (·.typ))) = X.map (·.typ) := by
    simp only [listedTypes, X, List.filter_map]
    rfl
  have hXcmp : ∀ e ∈ X, compressible true e.typ = true := by
    intro e he
    have := (List.mem_filter.1 he).2
    have hm : e.typ ∈ blk.map (·.typ) := by simpa using this
    obtain ⟨x, hx, hxe⟩ := List.mem_map.1 hm
    rw [← hxe]; exact hs.blk_cmp x hx
  have hx : expandL outer.exts (listedTypes (blk.map (·.typ)) (some (outer.exts.map (·.typ)))) = .ok X := by
    rw [hlisted]
    apply expandL_sublist X outer.exts List.filter_sublist hnd
    intro e he
    exact (compressible_not_special (hXcmp e he)).2.2.2.1
  have hXlen : X.length ≤ outer.exts.length := List.length_filter_le _ _
  have hne : encodeInnerExts inner.exts (some (outer.exts.map (·.typ))) ≠ [] := by
    intro h
    have h3 : findExt (pre ++ X ++ post) extECH = some [1] := by
      simp only [finalOk, Bool.and_eq_true, beq_iff_eq] at hok
      exact hok.1.2
    rw [encodeInnerExts_split (reorder := true) (some (outer.exts.map (·.typ))) rfl hs] at h
    have hp : pre = [] := by
      cases pre with
      | nil => rfl
      | cons _ _ => simp at h
    have hq : post = [] := by
      cases post with
      | nil => rfl
      | cons _ _ => simp at h
    rw [hp, hq, findExt_mid [] X [] extECH
      (fun e he => (compressible_not_special (hXcmp e he)).2.2.2.1)] at h3
    simp [findExt] at h3
  refine ⟨?_, ?_⟩
  · exact decode_encode inner outer pre blk post X mnl _ true rfl hs hwf hfit
      (by rw [hlisted]; simp; omega)
      (by intro t ht
          rw [hlisted] at ht
          obtain ⟨e, he, rfl⟩ := List.mem_map.1 ht
          exact (howf e (List.mem_filter.1 he).1).1)
      hne hx hok
  · rw [hs.split, findExt_mid pre X post extSNI
        (fun e he => (compressible_not_special (hXcmp e he)).2.2.2.2.1),
      findExt_mid pre blk post extSNI
        (fun e he => (compressible_not_special (hs.blk_cmp e he)).2.2.2.2.1)]

/-- on the uTLS path, too, the reconstruction *is* the inner hello whenever the inner hello holds
its compressed extensions in the outer hello's order with the outer hello's values. -/
theorem inner_roundtrip_utls_exact (inner outer : Hello) (pre blk post : List RawExt) (mnl : Nat)
    (hs : Split true inner.exts pre blk post) (hwf : HelloWF inner)
    (hfit : (encExts (encodeInnerExts inner.exts (some (outer.exts.map (·.typ))))).length < 65536)
    (hlist : 2 * outer.exts.length < 256) (howf : ∀ e ∈ outer.exts, ExtWF e)
    (hsub : blk.Sublist outer.exts) (hnd : (outer.exts.map (·.typ)).Nodup)
    (hok : finalOk inner.exts = true) (hsid : inner.sid = outer.sid) :
    decodeInner outer (encodeInner inner mnl (some (outer.exts.map (·.typ)))) = .ok inner := by
  have hf := filter_of_sublist blk outer.exts hsub hnd
  have h := (inner_roundtrip_utls inner outer pre blk post mnl hs hwf hfit hlist howf hnd
    (by rw [hf, ← hs.split]; exact hok)).1
  rw [h, hf, ← hs.split, ← hsid]

/-- **compressed extensions expand to the outer values**: in the reconstruction every compressed
type `t` carries exactly the outer hello's extension of that type (e.g. key_share after a
HelloRetryRequest: what `hrr_one_share` says about the outer hello is what the server sees). -/
theorem expands_to_outer_values (outer : Hello) (pre blk post : List RawExt) (t : Nat)
    (hpre : ∀ e ∈ pre, e.typ ≠ t) (hpost : ∀ e ∈ post, e.typ ≠ t)
    (ht : (blk.map (·.typ)).contains t = true) :
    findExt (pre ++ outer.exts.filter (fun e => (blk.map (·.typ)).contains e.typ) ++ post) t
      = findExt outer.exts t := by
  unfold findExt
  have h1 : pre.find? (fun e => e.typ == t) = none := by
    apply List.find?_eq_none.2; intro x hx; simp [hpre x hx]
  have h2 : post.find? (fun e => e.typ == t) = none := by
    apply List.find?_eq_none.2; intro x hx; simp [hpost x hx]
  have h3 : (outer.exts.filter (fun e => (blk.map (·.typ)).contains e.typ)).find? (fun e => e.typ == t)
      = outer.exts.find? (fun e => e.typ == t) := by
    rw [List.find?_filter]
    congr 1
    funext a
    by_cases ha : a.typ = t
    · rw [ha, ht]; simp
    · simp [ha]
  rw [List.find?_append, List.find?_append, h1, h2, h3]
  simp

/-- the encoding is the unpadded encoding followed by at most 31 zero bytes … -/
theorem padding_zero (inner : Hello) (mnl : Nat) (ot : Option (List Nat)) :
    ∃ k, k ≤ 31 ∧ encodeInner inner mnl ot = encodeInnerCore inner ot ++ List.replicate k 0 := by
  refine ⟨_, ?_, rfl⟩
  simp only [paddingLen]
  omega

/-- … and the decoder insists on it: one non-zero byte after the extensions is rejected. -/
theorem padding_checked (outer : Hello) (vr suites comp eb pad : Bytes)
    (hvr : vr.length = 34) (hs : suites.length < 65536) (hc : comp.length < 256) (he : eb.length < 65536)
    (hpad : ∃ x ∈ pad, x ≠ 0) :
    decodeInner outer (vr ++ vec8 [] ++ vec16 suites ++ vec8 comp ++ vec16 eb ++ pad) = .err .invalidInner := by
  rw [decode_header outer vr suites comp eb pad hvr hs hc he]
  have : pad.all (· == 0) = false := by
    obtain ⟨x, hx, hne⟩ := hpad
    apply Bool.eq_false_iff.2
    intro hall
    have := List.all_eq_true.1 hall x hx
    exact hne (by simpa using this)
  simp [this]

/-! ## the outer hello hides the name -/

private theorem mem_tagAs {s : Src} {bs : Bytes} {x : TB} (h : x ∈ tagAs s bs) : x.2 = s := by
  simp only [tagAs, List.mem_map] at h
  obtain ⟨_, _, rfl⟩ := h; rfl

/-- all bytes of a tagged list avoid the `secret` tag. -/
def NoSecret (l : List TB) : Prop := ∀ x ∈ l, x.2 ≠ .secret

private theorem noSecret_append {a c : List TB} (ha : NoSecret a) (hc : NoSecret c) : NoSecret (a ++ c) := by
  intro x hx
  rcases List.mem_append.1 hx with h | h
  · exact ha x h
  · exact hc x h

private theorem noSecret_tagAs {s : Src} (bs : Bytes) (h : s ≠ .secret) : NoSecret (tagAs s bs) := by
  intro x hx; rw [mem_tagAs hx]; exact h

private theorem noSecret_encTExts (es : List TExt) (h : ∀ e ∈ es, NoSecret e.data) : NoSecret (encTExts es) := by
  induction es with
  | nil => intro x hx; cases hx
  | cons e es ih =>
    simp only [encTExts, encTExt]
    refine noSecret_append (noSecret_append (noSecret_append ?_ ?_) ?_) ?_
    · exact noSecret_tagAs _ (by decide)
    · exact noSecret_tagAs _ (by decide)
    · exact h e (by simp)
    · exact ih (fun x hx => h x (by simp [hx]))

/-- **the outer ClientHello carries no byte derived from `Config.ServerName`.** Whatever the shared
extensions, randoms and session id are (as long as they themselves are not made from the secret
name), every byte of the marshalled outer hello is a constant, the public name, random material,
spec data, or HPKE ciphertext. `hseal` is an arbitrary function: the statement needs no property of
it beyond "its output is ciphertext". -/
theorem outer_hides_name (hseal : Bytes → Bytes → Bytes) (p : EchParams) (serverName : Bytes)
    (outerVr innerVr sid suites comp : List TB) (shared : List TExt) (ot : Option (List Nat))
    (h1 : NoSecret outerVr) (h2 : NoSecret sid) (h3 : NoSecret suites) (h4 : NoSecret comp)
    (h5 : ∀ e ∈ shared, NoSecret e.data) :
    NoSecret (buildOuter hseal p serverName outerVr innerVr sid suites comp shared ot).marshalT := by
  unfold buildOuter HelloT.marshalT HelloT.bodyT
  simp only
  have hexts : ∀ (payload : List TB), NoSecret payload →
      ∀ e ∈ outerExtsT p payload shared, NoSecret e.data := by
    intro payload hp e he
    simp only [outerExtsT, List.cons_append, List.nil_append, List.mem_cons] at he
    rcases he with rfl | rfl | he
    · simp only [sniT]
      repeat (first | apply noSecret_append | (apply noSecret_tagAs; decide))
    · simp only [outerEchT]
      repeat (first | assumption | apply noSecret_append | (apply noSecret_tagAs; decide))
    · exact h5 e he
  apply noSecret_append
  · apply noSecret_tagAs; decide
  apply noSecret_append
  · repeat (first | assumption | apply noSecret_append | (apply noSecret_tagAs; decide))
  · split
    all_goals first
      | (intro x hx; cases hx; done)
      | (apply noSecret_append
         · apply noSecret_tagAs; decide
         · exact noSecret_encTExts _ (hexts _ (noSecret_tagAs _ (by decide))))

/-- … hence the (non-empty) secret name, as bytes made from `Config.ServerName`, is not a
contiguous sub-list of the plaintext outer hello. -/
theorem outer_name_not_sublist (hseal : Bytes → Bytes → Bytes) (p : EchParams) (serverName : Bytes)
    (outerVr innerVr sid suites comp : List TB) (shared : List TExt) (ot : Option (List Nat))
    (h1 : NoSecret outerVr) (h2 : NoSecret sid) (h3 : NoSecret suites) (h4 : NoSecret comp)
    (h5 : ∀ e ∈ shared, NoSecret e.data) (hname : serverName ≠ []) :
    ¬ (tagAs .secret serverName) <:+:
      (buildOuter hseal p serverName outerVr innerVr sid suites comp shared ot).marshalT := by
  intro hinf
  have hns := outer_hides_name hseal p serverName outerVr innerVr sid suites comp shared ot h1 h2 h3 h4 h5
  cases serverName with
  | nil => exact hname rfl
  | cons c cs =>
    have hmem : (c, Src.secret) ∈ tagAs .secret (c :: cs) := by simp [tagAs]
    exact hns _ (hinf.subset hmem) rfl

/-- the inner hello *does* carry the name (the model is not vacuous about where the name lives). -/
theorem inner_has_name (serverName : Bytes) (shared : List TExt) :
    (tagAs .secret serverName) <:+: encTExts (innerExtsT serverName shared) := by
  have h1 : tagAs .secret serverName <:+: (sniT .secret serverName).data := by
    simp only [sniT]
    exact (List.suffix_append _ _).isInfix
  have h2 : (sniT .secret serverName).data <:+: encTExt (sniT .secret serverName) := by
    simp only [encTExt]
    exact (List.suffix_append _ _).isInfix
  have h3 : encTExt (sniT .secret serverName) <:+: encTExts (innerExtsT serverName shared) := by
    simp only [innerExtsT, List.cons_append, encTExts]
    exact (List.prefix_append _ _).isInfix
  exact h1.trans (h2.trans h3)

private theorem erase_tagAs (s : Src) (bs : Bytes) : erase (tagAs s bs) = bs := by
  simp only [erase, tagAs, List.map_map]
  induction bs <;> simp_all

private theorem erase_append (a c : List TB) : erase (a ++ c) = erase a ++ erase c := by
  simp [erase]

private theorem erase_length (a : List TB) : (erase a).length = a.length := by simp [erase]

private theorem erase_encTExts (es : List TExt) : erase (encTExts es) = encExts (es.map TExt.erase) := by
  induction es with
  | nil => rfl
  | cons e es ih =>
    simp only [encTExts, encTExt, erase_append, erase_tagAs, ih, List.map_cons, encExts, encExt,
      TExt.erase, vec16, erase_length, List.append_assoc]

/-- the tagged marshalling, with the tags erased, is the executable model's marshalling: the
provenance model describes the same bytes the driver compares with the implementation. -/
theorem marshalT_erase (h : HelloT) : erase h.marshalT = h.erase.marshal := by
  obtain ⟨vr, sid, suites, comp, exts⟩ := h
  have hbody : erase (HelloT.bodyT ⟨vr, sid, suites, comp, exts⟩)
      = (HelloT.erase ⟨vr, sid, suites, comp, exts⟩).body := by
    simp only [HelloT.bodyT, Hello.body, HelloT.erase, erase_append, erase_tagAs, vec8, vec16,
      erase_length, extBlock, List.append_assoc]
    cases exts with
    | nil => simp [erase]
    | cons e es =>
      simp only [List.isEmpty_cons, Bool.false_eq_true, if_false, List.map_cons, erase_append,
        erase_tagAs, erase_encTExts, ← erase_length (encTExts (e :: es))]
  simp only [HelloT.marshalT, Hello.marshal, erase_append, erase_tagAs, vec24, ← hbody, erase_length,
    List.append_assoc]

/-- **the outer server_name is the public name.** -/
theorem outer_sni_public (p : EchParams) (payload : List TB) (shared : List TExt)
    (hlen : p.publicName.length + 3 < 65536) :
    (⟨[], [], [], [], (outerExtsT p payload shared).map TExt.erase⟩ : Hello).serverName
      = some p.publicName := by
  have h3 : (p.publicName.length + 3) % 65536 = p.publicName.length + 3 := Nat.mod_eq_of_lt hlen
  have h0 : p.publicName.length % 65536 = p.publicName.length := Nat.mod_eq_of_lt (by omega)
  simp only [Hello.serverName, findExt, outerExtsT, List.cons_append, List.map_cons, TExt.erase, sniT,
    List.find?_cons, extSNI, beq_self_eq_true, Option.map_some, Option.bind_some]
  simp only [erase, tagAs, List.map_append, List.map_map]
  have hid : ∀ (l : Bytes), List.map ((fun x : TB => x.1) ∘ fun x => (x, Src.const)) l = l := by
    intro l; induction l <;> simp_all
  have hid2 : ∀ (l : Bytes), List.map ((fun x : TB => x.1) ∘ fun x => (x, Src.pub)) l = l := by
    intro l; induction l <;> simp_all
  simp only [hid, hid2]
  unfold sniHost
  have hrd : readVec16 (u16 (p.publicName.length + 3) ++ [0] ++ u16 p.publicName.length ++ p.publicName)
      = some ([0] ++ u16 p.publicName.length ++ p.publicName, []) := by
    have := readVec16_vec16 ([0] ++ u16 p.publicName.length ++ p.publicName) [] (by simp; omega)
    simp only [vec16, List.append_nil, List.length_append, List.length_cons, List.length_nil, u16_length] at this
    have hl : 0 + 1 + 2 + p.publicName.length = p.publicName.length + 3 := by omega
    rw [hl] at this
    simpa [List.append_assoc] using this
  rw [hrd]
  simp only [List.cons_append, List.nil_append]
  have := readVec16_vec16 p.publicName [] (by omega)
  simp only [vec16, List.append_nil] at this
  rw [this]
  rfl

/-! ## HelloRetryRequest -/

/-- **one key share after a HelloRetryRequest.** When the server selects a group, the key_share
extension of the second outer ClientHello — from which the server expands the compressed key_share
of the inner hello — holds exactly one share, for the selected group and with the freshly generated
key, the server's `len(keyShares) == 1 && group == selectedGroup` check passes, and if ECH was
accepted in the HelloRetryRequest this is also what the client's inner hello (and transcript) holds.
Holds on the crypto/tls path and on the uTLS path. -/
theorem hrr_one_share (i : HrrIn) (o : HrrOut) (h : processHrrShares i = .ok o) (hg : i.selectedGroup ≠ 0) :
    o.wireShares = [⟨i.selectedGroup, i.newKey⟩] ∧
    serverAcceptsSecond i.selectedGroup o.wireShares = true ∧
    (i.echAccepted = true → o.innerShares = o.wireShares) := by
  unfold processHrrShares at h
  simp only [hg, decide_true, decide_false, Bool.false_and, Bool.true_and, ne_eq, not_false_eq_true,
    Bool.false_eq_true, if_false, if_true] at h
  split at h
  · cases h
  · split at h
    · cases h
    · simp only [Except.ok.injEq] at h
      subst h
      refine ⟨by cases i.utls <;> simp, by cases i.utls <;> simp [serverAcceptsSecond], ?_⟩
      intro ha
      cases i.utls <;> simp [ha]

/-- without a selected group (cookie only) the shares of the hello in use are re-sent unchanged. -/
theorem hrr_cookie_only (i : HrrIn) (o : HrrOut) (h : processHrrShares i = .ok o) (hg : i.selectedGroup = 0) :
    o.wireShares = (if i.echAccepted then i.innerShares else i.outerShares) := by
  unfold processHrrShares at h
  simp only [hg, ne_eq, not_true_eq_false, decide_false, Bool.false_and,
    Bool.false_eq_true, if_false] at h
  split at h
  · cases h
  · simp only [Except.ok.injEq] at h
    subst h
    cases i.utls <;> simp

/-! ## accept / reject -/

private theorem findSome_ours (C : Crypto) (hC : C.Laws) (keys : List SKey) (c : Nat) (aad pt : Bytes)
    (seq : Nat) (h : ∃ k ∈ keys, C.seqCtx (k.ctxOf C) seq = c) :
    keys.findSome? (fun k => C.hopen (C.seqCtx (k.ctxOf C) seq) aad (C.hseal c aad pt)) = some pt := by
  induction keys with
  | nil => obtain ⟨k, hk, _⟩ := h; cases hk
  | cons k ks ih =>
    by_cases hk : C.seqCtx (k.ctxOf C) seq = c
    · simp [hk, hC.hopen_hseal]
    · have hne : c ≠ C.seqCtx (k.ctxOf C) seq := fun e => hk e.symm
      have hrest : ∃ k' ∈ ks, C.seqCtx (k'.ctxOf C) seq = c := by
        obtain ⟨k', hk', he⟩ := h
        rcases List.mem_cons.1 hk' with rfl | hm
        · exact absurd he hk
        · exact ⟨k', hm, he⟩
      simp [hC.hopen_other c (C.seqCtx (k.ctxOf C) seq) aad pt hne, ih hrest]

private theorem findSome_none (C : Crypto) (hC : C.Laws) (keys : List SKey) (c : Nat) (aad pt : Bytes)
    (seq : Nat) (h : ∀ k ∈ keys, C.seqCtx (k.ctxOf C) seq ≠ c) :
    keys.findSome? (fun k => C.hopen (C.seqCtx (k.ctxOf C) seq) aad (C.hseal c aad pt)) = none := by
  induction keys with
  | nil => rfl
  | cons k ks ih =>
    have hne : c ≠ C.seqCtx (k.ctxOf C) seq := fun e => h k (by simp) e.symm
    simp [hC.hopen_other c (C.seqCtx (k.ctxOf C) seq) aad pt hne, ih (fun x hx => h x (by simp [hx]))]

/-! ## the ECHConfigList: every entry's `raw` is exactly its own bytes -/

/-- one list entry on the wire: version, uint16 length, contents. -/
def encEntry (e : Nat × Bytes) : Bytes := u16 e.1 ++ vec16 e.2

def EntryWF (e : Nat × Bytes) : Prop := e.1 < 65536 ∧ e.2.length < 65536

instance (e : Nat × Bytes) : Decidable (EntryWF e) := by unfold EntryWF; infer_instance

private theorem parseConfig_entry (e : Nat × Bytes) (rest : Bytes) (h : EntryWF e) :
    parseConfig (encEntry e ++ rest) =
      if e.1 ≠ extECH then .skip else
      match parseConfigFields (e.2 ++ rest) with
      | none => .malformed
      | some c => .cfg { c with raw := encEntry e } := by
  unfold parseConfig encEntry vec16
  simp only [List.append_assoc]
  rw [readU16_u16, Nat.mod_eq_of_lt h.1]
  simp only
  rw [readU16_u16, Nat.mod_eq_of_lt h.2]
  simp only
  have hlen : ¬ (u16 e.1 ++ (u16 e.2.length ++ (e.2 ++ rest))).length < e.2.length + 4 := by
    simp only [List.length_append, u16_length]; omega
  rw [if_neg hlen]
  have htake : (u16 e.1 ++ (u16 e.2.length ++ (e.2 ++ rest))).take (e.2.length + 4)
      = u16 e.1 ++ (u16 e.2.length ++ e.2) := by
    have : u16 e.1 ++ (u16 e.2.length ++ (e.2 ++ rest)) = (u16 e.1 ++ (u16 e.2.length ++ e.2)) ++ rest := by
      simp [List.append_assoc]
    rw [this]
    apply List.take_left'
    simp only [List.length_append, u16_length]; omega
  rw [htake]
  by_cases hv : e.1 = extECH
  · simp only [hv, ne_eq, not_true_eq_false, if_false]
    cases parseConfigFields (e.2 ++ rest) <;> rfl
  · simp [hv]

private theorem entryLen_entry (e : Nat × Bytes) (rest : Bytes) (h : EntryWF e) :
    entryLen (encEntry e ++ rest) = e.2.length := by
  simp only [encEntry, vec16, u16, List.cons_append, List.nil_append, entryLen, b_toNat]
  have := h.2
  omega

private theorem drop_entry (e : Nat × Bytes) (rest : Bytes) (h : EntryWF e) :
    (encEntry e ++ rest).drop (entryLen (encEntry e ++ rest) + 4) = rest := by
  rw [entryLen_entry e rest h]
  apply List.drop_left'
  simp only [encEntry, vec16, List.length_append, u16_length]; omega

private theorem encEntry_isEmpty (e : Nat × Bytes) (rest : Bytes) :
    (encEntry e ++ rest).isEmpty = false ∧ ¬ (encEntry e ++ rest).length < 4 := by
  constructor
  · simp [encEntry, u16]
  · simp only [encEntry, vec16, List.length_append, u16_length]; omega

private theorem length_le_flatMap (entries : List (Nat × Bytes)) :
    entries.length ≤ (entries.flatMap encEntry).length := by
  induction entries with
  | nil => simp
  | cons e es ih =>
    simp only [List.flatMap_cons, List.length_append, List.length_cons, encEntry, vec16, u16_length]
    omega

private theorem parseListAux_raw : ∀ (entries : List (Nat × Bytes)) (fuel : Nat) (cfgs : List EchConfig),
    (∀ e ∈ entries, EntryWF e) → entries.length ≤ fuel →
    parseListAux fuel (entries.flatMap encEntry) = some cfgs →
    cfgs.map (·.raw) = (entries.filter (fun e => e.1 == extECH)).map encEntry := by
  intro entries
  induction entries with
  | nil =>
    intro fuel cfgs _ _ h
    cases fuel <;> simp [parseListAux] at h <;> subst h <;> rfl
  | cons e es ih =>
    intro fuel cfgs hwf hlen h
    cases fuel with
    | zero => simp at hlen
    | succ f =>
      have he : EntryWF e := hwf e (by simp)
      have hes : ∀ x ∈ es, EntryWF x := fun x hx => hwf x (by simp [hx])
      have hf : es.length ≤ f := by simpa using hlen
      simp only [List.flatMap_cons, parseListAux, (encEntry_isEmpty e _).1, Bool.false_eq_true, if_false,
        if_neg (encEntry_isEmpty e _).2, parseConfig_entry e _ he, drop_entry e _ he] at h
      by_cases hv : e.1 = extECH
      · simp only [hv, ne_eq, not_true_eq_false, if_false] at h
        cases hp : parseConfigFields (e.2 ++ es.flatMap encEntry) with
        | none => simp [hp] at h
        | some c =>
          simp only [hp] at h
          cases hr : parseListAux f (es.flatMap encEntry) with
          | none => simp [hr] at h
          | some rest =>
            simp only [hr, Option.map_some, Option.some.injEq] at h
            subst h
            have := ih f rest hes hf hr
            simp [hv, this]
      · simp only [ne_eq, hv, not_false_eq_true, if_true] at h
        have := ih f cfgs hes hf h
        simp [hv, this]

/-- **`config_raw_exact`.** For every ECHConfigList (any number of entries, any versions, any
contents): if the list parses, the `raw` of the k-th parsed config is exactly the k-th
encrypted_client_hello-versioned length-delimited entry of the list — its own bytes, nothing of the
entries that follow it. (The HPKE `info`, `hpkeInfo`, is built from `raw`.) -/
theorem config_raw_exact (entries : List (Nat × Bytes)) (cfgs : List EchConfig)
    (hwf : ∀ e ∈ entries, EntryWF e)
    (h : parseConfigList (vec16 (entries.flatMap encEntry)) = some cfgs) :
    cfgs.map (·.raw) = (entries.filter (fun e => e.1 == extECH)).map encEntry := by
  unfold parseConfigList vec16 at h
  rw [readU16_u16] at h
  simp only at h
  split at h
  · cases h
  · exact parseListAux_raw entries _ cfgs hwf (length_le_flatMap entries) h

/-- the client's HPKE `info` for the config it picked is `"tls ech\0"` followed by that entry's own
bytes — the bytes a server operator configures as `EncryptedClientHelloKey.Config` for it. -/
theorem picked_info_own_bytes (entries : List (Nat × Bytes)) (cfgs : List EchConfig) (c : EchConfig)
    (hwf : ∀ e ∈ entries, EntryWF e)
    (h : parseConfigList (vec16 (entries.flatMap encEntry)) = some cfgs) (hp : pickConfig cfgs = some c) :
    ∃ e ∈ entries, e.1 = extECH ∧ hpkeInfo c = hpkeInfoOfBytes (encEntry e) := by
  have hraw := config_raw_exact entries cfgs hwf h
  have hc : c ∈ cfgs := List.mem_of_find?_eq_some hp
  have : c.raw ∈ cfgs.map (·.raw) := List.mem_map.2 ⟨c, hc, rfl⟩
  rw [hraw] at this
  obtain ⟨e, he, hee⟩ := List.mem_map.1 this
  have hf := List.mem_filter.1 he
  exact ⟨e, hf.1, by simpa using hf.2, by simp [hpkeInfo, hpkeInfoOfBytes, hee]⟩

/-- why exactness matters: a server key whose configured bytes differ from the `raw` the client used
(or whose key differs) never opens the payload — the server rejects although it "has the key". -/
theorem other_info_rejected (C : Crypto) (hC : C.Laws) (keys : List SKey) (picked : EchConfig)
    (outer : Hello) (aad pt : Bytes)
    (h : ∀ k ∈ keys, k.pk ≠ picked.publicKey ∨ k.config ≠ picked.raw) :
    tryKeys C keys 0 outer aad (C.hseal (C.seqCtx (clientCtx C picked) 0) aad pt) = .rejected (retryList keys) := by
  unfold tryKeys
  rw [findSome_none C hC keys _ aad pt 0]
  intro k hk heq
  have := hC.ctx_inj _ _ _ _ (hC.seq_inj _ _ _ _ heq).1
  rcases h k hk with h1 | h2
  · exact h1 this.1
  · apply h2
    have h3 := this.2
    simp only [hpkeInfoOfBytes, hpkeInfo] at h3
    exact List.append_cancel_left h3

/-! ## marshalling the first hello more than once; specs that already hold a name -/

private theorem marshalSeq_last (C : Crypto) : ∀ (ms : List (Nat × Bytes × Bytes)) (st : Option Sender)
    (f : Nat) (aad pt : Bytes),
    marshalSeq C st (ms ++ [(f, aad, pt)]) = (some (C.hseal (C.seqCtx f 0) aad pt), some ⟨f, 1⟩) := by
  intro ms
  induction ms with
  | nil => intro st f aad pt; rfl
  | cons m ms ih =>
    intro st f aad pt
    obtain ⟨f0, a0, p0⟩ := m
    cases hms : ms ++ [(f, aad, pt)] with
    | nil => simp at hms
    | cons x xs =>
      have := ih (marshalFirst C st f0 a0 p0).2 f aad pt
      rw [hms] at this
      simpa [marshalSeq, hms] using this

/-- **`seal_seq_zero_first_hello`.** However often the first ClientHello was marshalled before it is
sent (explicit `BuildHandshakeState()` once or many times, `MarshalClientHello()` after edits, then
`Handshake()`), and whatever `echCtx` was left by `ApplyPreset` or earlier marshals: the payload on the
wire is sealed under the HPKE context set up by the *last* marshal with sequence number 0 — the context
and sequence number a server's fresh receiver (from that hello's `enc`) opens with —, and the stored
sender is at sequence 1, matching the server's second open after a HelloRetryRequest. -/
theorem seal_seq_zero_first_hello (C : Crypto) (hC : C.Laws) (prev : Option Sender)
    (earlier : List (Nat × Bytes × Bytes)) (fresh : Nat) (aad pt : Bytes) :
    let r := marshalSeq C prev (earlier ++ [(fresh, aad, pt)])
    r.1 = some (C.hseal (C.seqCtx fresh 0) aad pt) ∧
    C.hopen (C.seqCtx fresh 0) aad (C.hseal (C.seqCtx fresh 0) aad pt) = some pt ∧
    r.2 = some ⟨fresh, 1⟩ := by
  simp only [marshalSeq_last C earlier prev fresh aad pt, hC.hopen_hseal, and_self]

/-- a payload sealed by a re-used sender (sequence number ≥ 1) is not opened by the server's fresh
receiver: why the context must be per marshal. -/
theorem reused_sender_not_opened (C : Crypto) (hC : C.Laws) (ctx n : Nat) (aad pt : Bytes) (hn : n ≠ 0) :
    C.hopen (C.seqCtx ctx 0) aad (C.hseal (C.seqCtx ctx n) aad pt) = none := by
  apply hC.hopen_other
  intro h
  exact hn (hC.seq_inj _ _ _ _ h).2

/-- **the outer SNI ignores what the spec's SNIExtension held.** For a connection with an ECH config
list the outer server_name is the public name, whatever name the `SNIExtension` object carried before:
empty, pinned by the caller, or left there by any sequence of earlier connections (plain or ECH) that
used the same spec object. -/
theorem outer_sni_ignores_spec_name (specName : Bytes) (history : List (Bytes × Option Bytes))
    (cfgName publicName : Bytes) :
    presetSni (presetSniSeq specName history) cfgName (some publicName) = publicName := rfl

/-- without ECH a pre-filled name is kept and an empty one is filled from `Config.ServerName`. -/
theorem plain_sni_from_config (cfgName : Bytes) : presetSni [] cfgName none = cfgName := rfl

/-- **accept.** (`seq`: 0 for the first ClientHello, 1 after a HelloRetryRequest — the same on both
sides, see `seal_seq_zero_first_hello`.) A server that holds the HPKE key of the config the client picked, configured with
that config's own bytes (so that both sides derive the same HPKE `info`), opens the payload,
reconstructs an inner hello (`inner'`, by the round-trip theorems), and signals acceptance over its
inner transcript. The client — which hashed its own marshalling of the inner hello on the crypto/tls
path (`hgo`: there the reconstruction *is* the inner hello) and the reconstruction on the uTLS path —
recognises the confirmation: it reports `ECHAccepted` and `Config.ServerName`, and the name the
server saw in the inner hello is the client's. -/
theorem accept_reports {Chain : Type} (C : Crypto) (hC : C.Laws) (O : VerifyPlan.Oracle Chain)
    (cfg : VerifyPlan.Cfg) (keys : List SKey) (picked : EchConfig) (inner outer inner' : Hello)
    (mnl : Nat) (ot : Option (List Nat)) (utls : Bool) (seq : Nat) (aad snB : Bytes) (pub : String) (chain : Chain)
    (sh : SHello) (hrr : Option (Bytes × Bytes))
    (hkey : ∃ k ∈ keys, k.pk = picked.publicKey ∧ k.config = picked.raw)
    (hdec : decodeInner outer (encodeInner inner mnl ot) = .ok inner')
    (hvr : inner'.vr = inner.vr) (hsn : inner'.serverName = inner.serverName)
    (hgo : utls = false → inner' = inner)
    (hcert : VerifyPlan.verifyCert O cfg true cfg.serverName chain = none)
    (hsig : ∀ m, clientInnerMsg utls inner outer mnl ot = some m →
      sh.signal = serverSignal C (inner'.vr.drop 2) (innerTranscript C inner'.marshal hrr) sh.zeroed)
    (hnoext : sh.hasEchExt = false) :
    tryKeys C keys seq outer aad (C.hseal (C.seqCtx (clientCtx C picked) seq) aad (encodeInner inner mnl ot))
      = .accepted inner' ∧
    clientInnerMsg utls inner outer mnl ot = some inner'.marshal ∧
    clientFinish C O cfg snB pub (inner.vr.drop 2) (innerTranscript C inner'.marshal hrr) sh none chain
      = .accepted snB true ∧
    inner'.serverName = inner.serverName := by
  have hmsg : clientInnerMsg utls inner outer mnl ot = some inner'.marshal := by
    unfold clientInnerMsg
    cases utls with
    | true => simp [hdec]
    | false => simp [hgo rfl]
  refine ⟨?_, hmsg, ?_, hsn⟩
  · unfold tryKeys
    have hkey' : ∃ k ∈ keys, C.seqCtx (k.ctxOf C) seq = C.seqCtx (clientCtx C picked) seq := by
      obtain ⟨k, hk, h1, h2⟩ := hkey
      exact ⟨k, hk, by simp [SKey.ctxOf, clientCtx, hpkeInfo, hpkeInfoOfBytes, h1, h2]⟩
    rw [findSome_ours C hC keys _ aad _ seq hkey']
    simp [hdec]
  · unfold clientFinish clientConfirms
    rw [hsig _ hmsg, hvr]
    simp [serverSignal, hnoext, hcert]

/-- **reject.** A server holding none of the keys continues with the outer hello and puts its retry
list into EncryptedExtensions. The client, seeing no confirmation (hypothesis `hnoconf`: the server's
own random does not happen to equal the confirmation value), verifies the certificate against the
public name and returns `ECHRejectionError` carrying exactly that retry list (empty when the server
has none to offer) — never "accepted". -/
theorem reject_gives_retry {Chain : Type} (C : Crypto) (hC : C.Laws) (O : VerifyPlan.Oracle Chain)
    (cfg : VerifyPlan.Cfg) (keys : List SKey) (c : Nat) (outer : Hello) (aad pt snB tr innerRandom : Bytes)
    (pub : String) (chain : Chain) (sh : SHello)
    (hnokey : ∀ k ∈ keys, C.seqCtx (k.ctxOf C) 0 ≠ c)
    (hnoconf : sh.signal ≠ C.conf 0 innerRandom (tr ++ sh.zeroed))
    (hcert : VerifyPlan.verifyCert O cfg false pub chain = none) :
    tryKeys C keys 0 outer aad (C.hseal c aad pt) = .rejected (retryList keys) ∧
    clientFinish C O cfg snB pub innerRandom tr sh (retryList keys) chain
      = .echRejection ((retryList keys).getD []) := by
  constructor
  · unfold tryKeys
    rw [findSome_none C hC keys c aad pt 0 hnokey]
  · unfold clientFinish clientConfirms
    have : (C.conf 0 innerRandom (tr ++ sh.zeroed) == sh.signal) = false := by
      apply Bool.eq_false_iff.2
      intro h
      exact hnoconf (by simpa using (beq_iff_eq.1 h).symm)
    simp [this, hcert]

/-- the retry list is exactly the SendAsRetry configs, in order, as a uint16-prefixed list. -/
theorem retry_list_content (keys : List SKey) (h : ∃ k ∈ keys, k.sendAsRetry = true) :
    retryList keys = some (vec16 ((keys.filter (·.sendAsRetry)).flatMap (·.config))) := by
  unfold retryList
  have : (keys.filter (·.sendAsRetry)).isEmpty = false := by
    obtain ⟨k, hk, hs⟩ := h
    cases hf : keys.filter (·.sendAsRetry) with
    | nil =>
      have : k ∈ keys.filter (·.sendAsRetry) := List.mem_filter.2 ⟨hk, hs⟩
      rw [hf] at this; cases this
    | cons _ _ => rfl
  simp [this]

/-! ## non-vacuity: concrete instances meeting the hypotheses -/

private def nameEx : Bytes := [97, 46, 98]          -- "a.b"
private def pubEx : Bytes := [112, 46, 113]         -- "p.q"
private def grp : RawExt := ⟨10, [0, 2, 0, 29]⟩
private def ver : RawExt := ⟨43, [2, 3, 4]⟩
private def ksh : RawExt := ⟨51, [0, 5, 0, 29, 0, 1, 9]⟩
private def alpn : RawExt := ⟨16, [0, 3, 2, 104, 50]⟩
private def marker : RawExt := ⟨extECH, [1]⟩
private def innerGo : Hello :=
  ⟨List.replicate 34 7, [1, 2], [19, 1], [0], [⟨0, sniBody nameEx⟩, marker, grp, ver, ksh]⟩
private def outerGo : Hello :=
  ⟨List.replicate 34 8, [1, 2], [19, 1], [0], [⟨0, sniBody pubEx⟩, ⟨extECH, [0, 0, 1, 0, 1, 5, 0, 0, 0, 0]⟩, grp, ver, ksh]⟩
-- a parrot-like outer hello: other order, GREASE and ALPN the inner struct does not have in that order
private def outerU : Hello :=
  ⟨List.replicate 34 8, [1, 2], [19, 1], [0],
    [⟨2570, []⟩, ksh, ⟨0, sniBody pubEx⟩, alpn, ver, ⟨extECH, [0, 0, 1, 0, 1, 5, 0, 0, 0, 0]⟩, grp]⟩
private def innerU : Hello :=
  ⟨List.replicate 34 7, [1, 2], [19, 1], [0], [⟨0, sniBody nameEx⟩, marker, ver, grp, alpn, ksh]⟩

example : Split false innerGo.exts [⟨0, sniBody nameEx⟩, marker] [grp, ver, ksh] [] :=
  ⟨rfl, by decide, by decide, by decide⟩
example : HelloWF innerGo := ⟨by decide, by decide, by decide, by decide⟩
example : finalOk innerGo.exts = true := by decide
example : [grp, ver, ksh].Sublist outerGo.exts := by decide
-- inner_roundtrip applies to it, and the model indeed computes the identity
set_option maxRecDepth 100000 in
example : decodeInner outerGo (encodeInner innerGo 16 none) = .ok innerGo := by decide +kernel
-- inner_roundtrip_utls: struct order grp, alpn, ksh ↦ outer order ksh, alpn, grp; versions stay plain
example : Split true innerU.exts [⟨0, sniBody nameEx⟩, marker, ver] [grp, alpn, ksh] [] :=
  ⟨rfl, by decide, by decide, by decide⟩
set_option maxRecDepth 100000 in
example : decodeInner outerU (encodeInner innerU 16 (some (outerU.exts.map (·.typ))))
    = .ok ⟨innerU.vr, outerU.sid, innerU.suites, innerU.comp, [⟨0, sniBody nameEx⟩, marker, ver, ksh, alpn, grp]⟩ := by
  decide +kernel
-- a wrong expansion order is refused by the decoder (what the reordering is there to avoid)
set_option maxRecDepth 100000 in
example : decodeInner outerU (encodeInner innerU 16 (some [10, 16, 51])) = .err .invalidOuterExts := by decide +kernel
-- padding_checked: a stray byte after the extensions
set_option maxRecDepth 100000 in
example : decodeInner outerGo (encodeInnerCore innerGo none ++ [0, 0, 1]) = .err .invalidInner := by decide +kernel
-- hrr_one_share: a parrot that offered X25519 and a GREASE share is asked for P-384
example : (processHrrShares ⟨true, true, [⟨2570, [0]⟩, ⟨29, [1]⟩], [⟨2570, [0]⟩, ⟨29, [1]⟩], [29, 23, 24], 24, false, [9, 9]⟩).toOption.map
    (fun o => (o.innerShares, o.wireShares)) = some ([⟨24, [9, 9]⟩], [⟨24, [9, 9]⟩]) := by decide
-- retry_list_content / reject_gives_retry: one retry config out of two keys
example : retryList [⟨[2], [1, 2, 3], true⟩, ⟨[3], [4], false⟩] = some [0, 3, 1, 2, 3] := by decide
-- config_raw_exact / picked_info_own_bytes: a rotation list [unknown version, picked, next key]
private def cEx : Bytes := [7, 0, 32, 0, 1, 1, 0, 4, 0, 1, 0, 1, 16, 3, 112, 46, 113, 0, 0]
private def cEx2 : Bytes := [8, 0, 32, 0, 1, 2, 0, 4, 0, 1, 0, 3, 16, 3, 112, 46, 113, 0, 0]
private def listEx : List (Nat × Bytes) := [(0xfe0a, [1, 2]), (extECH, cEx), (extECH, cEx2)]
example : ∀ e ∈ listEx, EntryWF e := by decide
set_option maxRecDepth 100000 in
example : (parseConfigList (vec16 (listEx.flatMap encEntry))).map (·.map (·.raw))
    = some [encEntry (extECH, cEx), encEntry (extECH, cEx2)] := by decide +kernel
set_option maxRecDepth 100000 in
example : ((parseConfigList (vec16 (listEx.flatMap encEntry))).bind pickConfig).map
    (fun c => (c.configId, c.publicKey, hpkeInfo c)) = some (7, [1], infoPrefix ++ encEntry (extECH, cEx)) := by
  decide +kernel
-- a list whose only usable entry comes after an entry without a supported suite and one with a mandatory extension
set_option maxRecDepth 100000 in
example : ((parseConfigList (vec16 ([(extECH, [9, 0, 32, 0, 1, 1, 0, 4, 0, 2, 0, 1, 16, 3, 112, 46, 113, 0, 0]),
      (extECH, [6, 0, 32, 0, 1, 1, 0, 4, 0, 1, 0, 1, 16, 3, 112, 46, 113, 0, 4, 128, 1, 0, 0]),
      (extECH, cEx)].flatMap encEntry))).bind pickConfig).map (·.configId) = some 7 := by decide +kernel

-- the laws of the symbolic primitives are satisfiable: a unary-tagged "HPKE" and injective "KDF"s
private def natOfD : List Nat → Nat
  | [] => 0
  | d :: ds => (d + 1) + 258 * natOfD ds

private def digitsOf (pk info : Bytes) : List Nat := pk.map (·.toNat) ++ 256 :: info.map (·.toNat)

private theorem natOfD_inj : ∀ (a c : List Nat), (∀ d ∈ a, d ≤ 256) → (∀ d ∈ c, d ≤ 256) →
    natOfD a = natOfD c → a = c := by
  intro a
  induction a with
  | nil => intro c _ _ h; cases c with
    | nil => rfl
    | cons d ds => simp only [natOfD] at h; omega
  | cons x xs ih =>
    intro c ha hc h
    cases c with
    | nil => simp only [natOfD] at h; omega
    | cons d ds =>
      have hx : x ≤ 256 := ha x (by simp)
      have hd : d ≤ 256 := hc d (by simp)
      simp only [natOfD] at h
      have h1 : x = d := by omega
      have h2 : natOfD xs = natOfD ds := by omega
      rw [h1, ih ds (fun y hy => ha y (by simp [hy])) (fun y hy => hc y (by simp [hy])) h2]

private theorem map_toNat_inj : ∀ (a c : Bytes), a.map (·.toNat) = c.map (·.toNat) → a = c := by
  intro a
  induction a with
  | nil => intro c h; cases c with
    | nil => rfl
    | cons _ _ => simp at h
  | cons x xs ih =>
    intro c h
    cases c with
    | nil => simp at h
    | cons y ys =>
      simp only [List.map_cons, List.cons.injEq] at h
      rw [UInt8.toNat_inj.1 h.1, ih ys h.2]

private theorem digitsOf_inj : ∀ (pk pk' info info' : Bytes), digitsOf pk info = digitsOf pk' info' →
    pk = pk' ∧ info = info' := by
  intro pk
  induction pk with
  | nil =>
    intro pk' info info' h
    cases pk' with
    | nil =>
      simp only [digitsOf, List.map_nil, List.nil_append, List.cons.injEq, true_and] at h
      exact ⟨rfl, map_toNat_inj _ _ h⟩
    | cons y ys =>
      simp only [digitsOf, List.map_nil, List.nil_append, List.map_cons, List.cons_append, List.cons.injEq] at h
      have := UInt8.toNat_lt y
      omega
  | cons x xs ih =>
    intro pk' info info' h
    cases pk' with
    | nil =>
      simp only [digitsOf, List.map_nil, List.nil_append, List.map_cons, List.cons_append, List.cons.injEq] at h
      have := UInt8.toNat_lt x
      omega
    | cons y ys =>
      simp only [digitsOf, List.map_cons, List.cons_append, List.cons.injEq] at h
      have := ih ys info info' h.2
      rw [UInt8.toNat_inj.1 h.1, this.1, this.2]
      exact ⟨rfl, rfl⟩

private theorem digitsOf_le (pk info : Bytes) : ∀ d ∈ digitsOf pk info, d ≤ 256 := by
  intro d hd
  simp only [digitsOf, List.mem_append, List.mem_cons, List.mem_map] at hd
  rcases hd with ⟨x, _, rfl⟩ | rfl | ⟨x, _, rfl⟩
  · have := UInt8.toNat_lt x; omega
  · omega
  · have := UInt8.toNat_lt x; omega

private theorem pow2_succ_mul (k x : Nat) : 2 ^ (k + 1) * x = 2 * (2 ^ k * x) := by
  rw [Nat.pow_succ, Nat.mul_comm (2 ^ k) 2, Nat.mul_assoc]

private theorem pow2_odd_inj : ∀ (n n' a a' : Nat), 2 ^ n * (2 * a + 1) = 2 ^ n' * (2 * a' + 1) → a = a' ∧ n = n' := by
  intro n
  induction n with
  | zero =>
    intro n' a a' h
    cases n' with
    | zero => simp at h; exact ⟨by omega, rfl⟩
    | succ m =>
      rw [pow2_succ_mul] at h
      generalize 2 ^ m * (2 * a' + 1) = y at h
      simp at h; omega
  | succ k ih =>
    intro n' a a' h
    cases n' with
    | zero =>
      rw [pow2_succ_mul] at h
      generalize 2 ^ k * (2 * a + 1) = y at h
      simp at h; omega
    | succ m =>
      rw [pow2_succ_mul, pow2_succ_mul] at h
      have h' : 2 ^ k * (2 * a + 1) = 2 ^ m * (2 * a' + 1) := by omega
      have := ih m a a' h'
      exact ⟨this.1, by rw [this.2]⟩

private def toyC : Crypto where
  conf := fun l r tr => [b l] ++ vec16 r ++ tr
  mhash := fun m => m
  ctx := fun pk info => natOfD (digitsOf pk info)
  seqCtx := fun a n => 2 ^ n * (2 * a + 1)
  hseal := fun k _ pt => List.replicate k (1 : UInt8) ++ (0 :: pt)
  hopen := fun k _ ct =>
    if ct.take k = List.replicate k (1 : UInt8) ∧ (ct.drop k).head? = some 0 then some (ct.drop (k + 1)) else none

private theorem take_rep (k : Nat) (r : List UInt8) :
    (List.replicate k (1 : UInt8) ++ r).take k = List.replicate k 1 := by simp

private theorem drop_rep (k : Nat) (r : List UInt8) : (List.replicate k (1 : UInt8) ++ r).drop k = r := by simp

private theorem toyLaws : toyC.Laws := by
  constructor
  · intro k aad pt
    simp only [toyC]
    rw [take_rep, drop_rep]
    simp only [List.head?_cons, and_self, if_true]
    have : (List.replicate k (1 : UInt8) ++ 0 :: pt).drop (k + 1)
        = ((List.replicate k (1 : UInt8) ++ 0 :: pt).drop k).drop 1 := by
      rw [List.drop_drop]
    rw [this, drop_rep]; rfl
  · intro k k' aad pt hne
    simp only [toyC]
    rw [if_neg]
    intro ⟨h1, h2⟩
    rcases Nat.lt_or_gt_of_ne hne with hlt | hgt
    · have h := congrArg (fun l => l[k]?) h1
      simp only [List.getElem?_take, hlt, if_true] at h
      rw [List.getElem?_append_right (by simp)] at h
      simp [hlt] at h
    · have hd : (List.replicate k (1 : UInt8) ++ 0 :: pt).drop k'
          = List.replicate (k - k') 1 ++ 0 :: pt := by
        rw [List.drop_append_of_le_length (by simp; omega), List.drop_replicate]
      rw [hd] at h2
      have : k - k' = (k - k' - 1) + 1 := by omega
      rw [this, List.replicate_succ] at h2
      simp at h2
  · intro pk info pk' info' h
    exact digitsOf_inj pk pk' info info'
      (natOfD_inj _ _ (digitsOf_le pk info) (digitsOf_le pk' info') h)
  · intro a n a' n' h
    exact pow2_odd_inj n n' a a' h

private def toyO : VerifyPlan.Oracle Unit := fun _ _ => true
private def pickedEx : EchConfig := ⟨[5, 6], 7, 0x20, [1], [(1, 1)], 16, pubEx, []⟩
private def cfgEx : VerifyPlan.Cfg := ⟨"a.b", "", false, false, true⟩
private def shEx : SHello :=
  ⟨[9], serverSignal toyC (innerGo.vr.drop 2) (innerTranscript toyC innerGo.marshal none) [9], false, 0, [9, 9]⟩

-- accept_reports: every hypothesis is met by the crypto/tls example above (server holds key 1 as its second key)
set_option maxRecDepth 100000 in
example : clientFinish toyC toyO cfgEx nameEx "p.q" (innerGo.vr.drop 2)
    (innerTranscript toyC innerGo.marshal none) shEx none () = .accepted nameEx true :=
  (accept_reports toyC toyLaws toyO cfgEx [⟨[2], [9], true⟩, ⟨[1], [5, 6], true⟩] pickedEx innerGo outerGo innerGo 16 none
    false 0 [] nameEx "p.q" () shEx none ⟨⟨[1], [5, 6], true⟩, by simp, rfl, rfl⟩ (by decide +kernel) rfl rfl (fun _ => rfl)
    (by decide) (fun _ _ => rfl) rfl).2.2.1

-- reject_gives_retry: the server only has key 2, marked SendAsRetry
example : clientFinish toyC toyO cfgEx nameEx "p.q" [7] [8] ⟨[], [0], false, 0, []⟩
      (retryList [⟨[2], [1, 2, 3], true⟩]) ()
    = .echRejection ((retryList [⟨[2], [1, 2, 3], true⟩]).getD []) :=
  (reject_gives_retry toyC toyLaws toyO cfgEx [⟨[2], [1, 2, 3], true⟩] (toyC.seqCtx (clientCtx toyC pickedEx) 0) outerGo [] [5] nameEx [8] [7] "p.q" ()
    ⟨[], [0], false, 0, []⟩
    (by intro k hk h
        simp only [List.mem_singleton] at hk; subst hk
        have := toyLaws.ctx_inj _ _ _ _ (toyLaws.seq_inj _ _ _ _ h).1
        exact absurd this.1 (by decide))
    (by decide) (by decide)).2

-- outer_hides_name / outer_sni_public: the outer hello of the example names p.q
example : (⟨[], [], [], [], (outerExtsT ⟨5, 1, 1, 16, pubEx, []⟩ [] []).map TExt.erase⟩ : Hello).serverName
    = some pubEx := by decide

end C15
