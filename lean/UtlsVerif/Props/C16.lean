import UtlsVerif.GreaseEch
import UtlsVerif.Props.C17
/-!
# C16 — GREASE ECH looks like real outer ECH, is frozen across a retry, and is this object's own draw

Theorems over `GreaseEch` (the transcription of `GREASEEncryptedClientHelloExtension.init/Len/Read`).
HPKE is modelled: `hpke.SetupSender` enters only through the encapsulated key it returns
(`Draws.kemEnc`) and the hypothesis that this key has the KEM's output length `kemLen`
(32 for DHKEM(X25519), the only KEM the code uses) — part of `drawsWF`.

* `grease_ech_frame` — for well-formed candidate lists and draws `init` succeeds, and `Read` writes
  `0xfe0d ‖ uint16 length ‖ body` whose body parses (by the independent strict parser `parseOuter`) as
  an *outer* ECH with exactly the frozen values, which satisfy `frameOk`: suite from the candidate
  list (default when empty), `|enc| = kemLen` (or the preset key), `|payload| =` a candidate length
  `+ 16`.
* `grease_ech_frozen` — once `init` has run, a second `init` is the identity and `Len`/`Read` are
  functions of the frozen state alone, whatever the random source would serve now;
  `grease_ech_kept_by_hrr` — the HelloRetryRequest step (`C17.hrr_diff`) carries every GREASE ECH
  extension over unchanged, hence identical bytes in the second ClientHello.
* `grease_ech_fresh` — the random parts *are* this object's draws (config id byte, encapsulated key,
  the first `cipherLen` payload bytes), and the wire bytes determine the frozen state: two objects
  whose key or payload draws differ never emit the same extension. (How much two draws differ is a
  statement about `crypto/rand` and is only measured by the harness.)
-/
namespace C16
open Wire Ext GreaseEch

private theorem index_ok {α : Type} {xs : List α} {i : Nat} (h : i < xs.length) :
    index xs i = .ok xs[i] ∧ xs[i] ∈ xs := by
  unfold index
  rw [List.getElem?_eq_getElem h]
  exact ⟨rfl, List.getElem_mem h⟩

/-- the body `Read` writes for a frozen state parses back to exactly that state. -/
private theorem parse_body (fr : Frozen) (h1 : fr.kdf < 65536) (h2 : fr.aead < 65536) (h3 : fr.configId < 256)
    (h4 : fr.enc.length < 65536) (h5 : fr.payload.length < 65536) :
    parseOuter (Ext.body (toExt fr)) = some ⟨fr.kdf, fr.aead, fr.configId, fr.enc, fr.payload⟩ := by
  unfold parseOuter toExt Ext.body
  simp only [List.cons_append, List.nil_append, readU8, List.append_assoc]
  have e0 : ((0 : UInt8).toNat ≠ 0) = False := by simp
  simp only [e0, if_false]
  rw [readU16_u16, Nat.mod_eq_of_lt h1]
  simp only
  rw [readU16_u16, Nat.mod_eq_of_lt h2]
  simp only
  have hb : (b fr.configId).toNat = fr.configId := by rw [b_toNat, Nat.mod_eq_of_lt h3]
  simp only [hb]
  have e1 : u16 fr.enc.length ++ (fr.enc ++ (u16 fr.payload.length ++ fr.payload)) =
      vec16 fr.enc ++ (vec16 fr.payload ++ []) := by simp [vec16]
  rw [e1, readVec16_vec16 _ _ h4]
  simp only
  rw [readVec16_vec16 _ _ h5]

private theorem all_mem {α : Type} {p : α → Bool} {xs : List α} (h : xs.all p = true) {x : α} (hx : x ∈ xs) : p x = true :=
  List.all_eq_true.mp h x hx

/-- `Read` on a frozen state within wire limits: framing, body length, parse. -/
private theorem frame_of (fr : Frozen) (h1 : fr.kdf < 65536) (h2 : fr.aead < 65536) (h3 : fr.configId < 256)
    (hb : 10 + fr.enc.length + fr.payload.length < 65536) (n : Nat) (hn : Ext.len (toExt fr) ≤ n) :
    Ext.read (toExt fr) n = .ok (u16 0xfe0d ++ vec16 (Ext.body (toExt fr))) ∧
    (Ext.body (toExt fr)).length < 65536 ∧
    parseOuter (Ext.body (toExt fr)) = some ⟨fr.kdf, fr.aead, fr.configId, fr.enc, fr.payload⟩ := by
  have hr : Ext.read (toExt fr) n =
      .ok (u16 (Ext.typeId (toExt fr)) ++ u16 (Ext.lenField (toExt fr)) ++ Ext.body (toExt fr)) := by
    unfold Ext.read
    have hne : Ext.early (toExt fr) = none := rfl
    have hnd : Ext.need (toExt fr) = Ext.len (toExt fr) := rfl
    have hla : Ext.late (toExt fr) = none := rfl
    rw [hne]
    simp only
    rw [if_neg (by omega), hla]
  have hfr := C08.read_frame _ n _ hr
  rw [hfr] at hr
  refine ⟨hr, ?_, parse_body fr h1 h2 h3 (by omega) (by omega)⟩
  rw [C08.body_length _ rfl]
  simp only [toExt, Ext.lenField]
  omega

/-- **the frame.** -/
theorem grease_ech_frame (cfg : Cfg) (kemLen : Nat) (d : Draws)
    (hw : cfgWF cfg kemLen = true) (hd : drawsWF cfg kemLen d = true) :
    ∃ fr, draw cfg d = .ok fr ∧
      frameOk cfg kemLen ⟨fr.kdf, fr.aead, fr.configId, fr.enc, fr.payload⟩ = true ∧
      ∀ n, Ext.len (toExt fr) ≤ n →
        Ext.read (toExt fr) n = .ok (u16 0xfe0d ++ vec16 (Ext.body (toExt fr))) ∧
        (Ext.body (toExt fr)).length < 65536 ∧
        parseOuter (Ext.body (toExt fr)) = some ⟨fr.kdf, fr.aead, fr.configId, fr.enc, fr.payload⟩ := by
  unfold cfgWF at hw
  unfold drawsWF at hd
  simp only [Bool.and_eq_true, Bool.or_eq_true, decide_eq_true_eq, Bool.not_eq_true', beq_iff_eq] at hw hd
  obtain ⟨⟨hws, hwi⟩, hwl⟩ := hw
  obtain ⟨⟨⟨⟨hd1, hd2⟩, hd3⟩, hd4⟩, hd5⟩ := hd
  -- the payload length draw
  cases hl : (lensOf cfg)[d.lenIdx]? with
  | none => rw [hl] at hd4; cases hd4
  | some l =>
    rw [hl] at hd4
    simp only [decide_eq_true_eq] at hd4
    have hlm : l ∈ lensOf cfg := List.mem_of_getElem? hl
    have hlb := all_mem hwl hlm
    simp only [decide_eq_true_eq] at hlb
    -- config id
    obtain ⟨cid, hcid, hcidlt, hcidok⟩ : ∃ cid, (if cfg.configIds.isEmpty then Res.ok d.cidByte else index cfg.configIds d.cidIdx) = .ok cid ∧
        cid < 256 ∧ (if cfg.configIds.isEmpty then decide (cid < 256) else cfg.configIds.contains cid) = true := by
      by_cases he : cfg.configIds.isEmpty = true
      · exact ⟨d.cidByte, by rw [if_pos he], hd1, by rw [if_pos he]; simpa using hd1⟩
      · rcases hd2 with h | h
        · exact absurd h he
        · obtain ⟨a, bm⟩ := index_ok h
          refine ⟨_, by rw [if_neg he]; exact a, ?_, by rw [if_neg he]; exact List.contains_iff_mem.mpr bm⟩
          have := all_mem hwi bm; simpa using this
    -- suite
    obtain ⟨kdf, aead, hsu, hk, ha, hsok⟩ : ∃ kdf aead, (if cfg.suites.isEmpty then Res.ok (defaultKdf, defaultAead) else index cfg.suites d.suiteIdx) = .ok (kdf, aead) ∧
        kdf < 65536 ∧ (aead = 1 ∨ aead = 2 ∨ aead = 3) ∧
        (if cfg.suites.isEmpty then (kdf == defaultKdf && aead == defaultAead) else cfg.suites.contains (kdf, aead)) = true := by
      by_cases he : cfg.suites.isEmpty = true
      · exact ⟨defaultKdf, defaultAead, by rw [if_pos he], by decide, .inl rfl, by rw [if_pos he]; rfl⟩
      · rcases hd3 with h | h
        · exact absurd h he
        · obtain ⟨a, bm⟩ := index_ok h
          have hp := all_mem hws bm
          simp only [Bool.and_eq_true, Bool.or_eq_true, decide_eq_true_eq, beq_iff_eq] at hp
          refine ⟨cfg.suites[d.suiteIdx].1, cfg.suites[d.suiteIdx].2, by rw [if_neg he]; exact a, hp.1, ?_, ?_⟩
          · rcases hp.2 with (h1 | h1) | h1
            · exact .inl h1
            · exact .inr (.inl h1)
            · exact .inr (.inr h1)
          · rw [if_neg he]; exact List.contains_iff_mem.mpr bm
    -- key
    obtain ⟨enc, hE, hEl, hEok⟩ : ∃ enc, (if cfg.enc.isEmpty then d.kemEnc else cfg.enc) = enc ∧
        enc.length = (if cfg.enc.isEmpty then kemLen else cfg.enc.length) ∧
        (if cfg.enc.isEmpty then enc.length == kemLen else enc == cfg.enc) = true := by
      by_cases he : cfg.enc.isEmpty = true
      · have hk : d.kemEnc.length = kemLen := by
          rcases hd5 with h | h
          · rw [he] at h; cases h
          · exact h
        exact ⟨d.kemEnc, by rw [if_pos he], by rw [if_pos he]; exact hk, by rw [if_pos he]; simpa using hk⟩
      · exact ⟨cfg.enc, by rw [if_neg he], by rw [if_neg he], by rw [if_neg he]; simp⟩
    have hpl : (d.payload.take (l + tagLen)).length = l + tagLen := by
      rw [List.length_take]; omega
    have hcl : cipherLen aead l = .ok (l + tagLen) := by unfold cipherLen; rw [if_pos ha]
    have hidx : index (lensOf cfg) d.lenIdx = .ok l := by unfold index; rw [hl]
    refine ⟨⟨kdf, aead, cid, enc, d.payload.take (l + tagLen)⟩, ?_, ?_, ?_⟩
    · unfold draw
      rw [hcid]; simp only
      rw [hsu]; simp only
      rw [hidx]; simp only
      rw [hcl, hE]
    · unfold frameOk
      simp only [Bool.and_eq_true]
      refine ⟨⟨⟨hsok, hcidok⟩, hEok⟩, ?_⟩
      rw [List.any_eq_true]
      exact ⟨l, hlm, by simp [hpl]⟩
    · intro n hn
      exact frame_of ⟨kdf, aead, cid, enc, d.payload.take (l + tagLen)⟩ hk (by rcases ha with h | h | h <;> (simp only; omega)) hcidlt
        (by simp only [hpl, hEl]; rw [hEl] at *; unfold tagLen at *; omega) n hn

/-- **frozen.** Once `init` has returned, (1) any later `init` — with whatever the random source
would serve — is the identity, (2) `Len` and `Read` do not depend on later draws, (3) they are the
encoder of the frozen state. -/
theorem grease_ech_frozen (o o1 : Obj) (d d' : Draws) (h : o.init d = .ok o1) :
    o1.init d' = .ok o1 ∧
    (∃ fr, o1.frozen = some fr ∧
      o1.len d' = .ok (o1, Ext.len (toExt fr)) ∧ ∀ buf, o1.read d' buf = .ok (o1, Ext.read (toExt fr) buf)) := by
  have hfr : ∃ fr, o1.frozen = some fr := by
    unfold Obj.init at h
    cases hf : o.frozen with
    | some fr => rw [hf] at h; simp only at h; cases h; exact ⟨fr, hf⟩
    | none =>
      rw [hf] at h; simp only at h
      cases hdr : draw o.cfg d with
      | panic => rw [hdr] at h; cases h
      | ok fr => rw [hdr] at h; simp only at h; cases h; exact ⟨fr, rfl⟩
  obtain ⟨fr, hf⟩ := hfr
  have hi : o1.init d' = .ok o1 := by unfold Obj.init; rw [hf]
  refine ⟨hi, fr, hf, ?_, ?_⟩
  · unfold Obj.len; rw [hi]; simp only; rw [hf]
  · intro buf; unfold Obj.read; rw [hi]; simp only; rw [hf]

def isEch : Ext.Ext → Bool
  | .greaseECH .. => true
  | _ => false

/-- **identical after a HelloRetryRequest.** The second extension list `C17.hrr_diff` describes
contains the very same GREASE ECH extension values (same frozen state, hence — `Read` being a function
of the frozen state — the same bytes) at the same relative position among the untouched extensions. -/
theorem grease_ech_kept_by_hrr (c : Hrr.Client) (h : Hrr.SH) (fresh : Bytes) (j u : Nat) :
    (C17.expected c h fresh j u).filter isEch = c.exts.filter isEch := by
  have hsub : ∀ l : List Ext.Ext, l.filter isEch = (l.filter Hrr.other).filter isEch := by
    intro l
    rw [List.filter_filter]
    congr 1
    funext e
    cases e <;> rfl
  rw [hsub, C17.hrr_others_identical, ← hsub]

private theorem draw_parts {cfg : Cfg} {d : Draws} {fr : Frozen} (h : draw cfg d = .ok fr) :
    (cfg.configIds = [] → fr.configId = d.cidByte) ∧ (cfg.enc = [] → fr.enc = d.kemEnc) ∧
    (∃ l, l ∈ lensOf cfg ∧ fr.payload = d.payload.take (l + tagLen)) := by
  unfold draw at h
  cases h1 : (if cfg.configIds.isEmpty then Res.ok d.cidByte else index cfg.configIds d.cidIdx) with
  | panic => rw [h1] at h; cases h
  | ok cid =>
    rw [h1] at h; simp only at h
    cases h2 : (if cfg.suites.isEmpty then Res.ok (defaultKdf, defaultAead) else index cfg.suites d.suiteIdx) with
    | panic => rw [h2] at h; cases h
    | ok ka =>
      obtain ⟨kdf, aead⟩ := ka
      rw [h2] at h; simp only at h
      cases h3 : index (lensOf cfg) d.lenIdx with
      | panic => rw [h3] at h; cases h
      | ok l =>
        rw [h3] at h; simp only at h
        cases h4 : cipherLen aead l with
        | panic => rw [h4] at h; cases h
        | ok n =>
          rw [h4] at h; simp only at h
          cases h
          have hn : n = l + tagLen := by
            unfold cipherLen at h4
            split at h4
            · cases h4; rfl
            · cases h4
          have hlm : l ∈ lensOf cfg := by
            unfold index at h3
            cases hg : (lensOf cfg)[d.lenIdx]? with
            | none => rw [hg] at h3; cases h3
            | some x => rw [hg] at h3; cases h3; exact List.mem_of_getElem? hg
          refine ⟨?_, ?_, l, hlm, by rw [hn]⟩
          · intro he
            simp only [he, List.isEmpty_nil, if_true] at h1
            cases h1; rfl
          · intro he
            simp [he]

/-- **fresh = this object's draws.** (a) the three random parts of the frozen state are the
object's own draws: the config id byte (when there are no candidates), the encapsulated key
`SetupSender` returned (when none is preset), the first `len + 16` payload bytes for a candidate
`len`; (b) the bytes on the wire determine the frozen state, so two objects (two connections, two
`UTLSIdToSpec` calls) whose draws differ in key or payload never send the same extension. -/
theorem grease_ech_fresh (cfg : Cfg) (kemLen : Nat) (d d' : Draws) (fr fr' : Frozen)
    (hw : cfgWF cfg kemLen = true) (hd : drawsWF cfg kemLen d = true) (hd' : drawsWF cfg kemLen d' = true)
    (h : draw cfg d = .ok fr) (h' : draw cfg d' = .ok fr') :
    (cfg.configIds = [] → fr.configId = d.cidByte) ∧
    (cfg.enc = [] → fr.enc = d.kemEnc) ∧
    (∃ l, l ∈ lensOf cfg ∧ fr.payload = d.payload.take (l + tagLen)) ∧
    (∀ n m bs, Ext.len (toExt fr) ≤ n → Ext.len (toExt fr') ≤ m →
      Ext.read (toExt fr) n = .ok bs → Ext.read (toExt fr') m = .ok bs → fr = fr') := by
  obtain ⟨f1, hf1, _, hp1⟩ := grease_ech_frame cfg kemLen d hw hd
  obtain ⟨f2, hf2, _, hp2⟩ := grease_ech_frame cfg kemLen d' hw hd'
  rw [h] at hf1; cases hf1
  rw [h'] at hf2; cases hf2
  obtain ⟨a1, a2, a3⟩ := draw_parts h
  refine ⟨a1, a2, a3, ?_⟩
  intro n m bs hn hm hr hr'
  obtain ⟨e1, _, p1⟩ := hp1 n hn
  obtain ⟨e2, _, p2⟩ := hp2 m hm
  rw [hr] at e1
  rw [hr'] at e2
  have hb : Ext.body (toExt fr) = Ext.body (toExt fr') := by
    have h0 := e1.symm.trans e2
    simp only [ReadRes.ok.injEq] at h0
    have h2 := List.append_cancel_left h0
    unfold vec16 at h2
    have hl : (Ext.body (toExt fr)).length = (Ext.body (toExt fr')).length := by
      have := congrArg List.length h2
      simp at this; exact this
    rw [hl] at h2
    exact List.append_cancel_left h2
  rw [hb, p2] at p1
  simp only [Option.some.injEq, Outer.mk.injEq] at p1
  obtain ⟨b1, b2, b3, b4, b5⟩ := p1
  cases fr; cases fr'
  simp_all

/-! ## non-vacuity -/

section Examples

/-- `BoringGREASEECH()`: Chrome 120 / 120_PQ / 131 / 133. -/
def cfgBoring : Cfg := ⟨[(1, 1), (1, 3)], [], [], [128, 160, 192, 224]⟩
/-- Firefox 120. -/
def cfgFirefox : Cfg := ⟨[(1, 1), (1, 3)], [], [], [223]⟩
/-- an extension without any candidate (`&GREASEEncryptedClientHelloExtension{}`). -/
def cfgEmpty : Cfg := ⟨[], [], [], []⟩

def exDraws : Draws := ⟨7, 0, 1, List.replicate 32 9, 2, List.replicate 300 5⟩

example : cfgWF cfgBoring 32 = true ∧ cfgWF cfgFirefox 32 = true ∧ cfgWF cfgEmpty 32 = true := by decide
set_option maxRecDepth 20000 in
example : drawsWF cfgBoring 32 exDraws = true := by decide
set_option maxRecDepth 20000 in
example : drawsWF cfgEmpty 32 { exDraws with lenIdx := 0, suiteIdx := 0 } = true := by decide

set_option maxRecDepth 20000 in
example : draw cfgBoring exDraws = .ok ⟨1, 3, 7, List.replicate 32 9, List.replicate 208 5⟩ := by decide
set_option maxRecDepth 20000 in
/-- the default suite and `128 + 16` payload bytes when nothing is configured. -/
example : draw cfgEmpty { exDraws with lenIdx := 0 } = .ok ⟨1, 1, 7, List.replicate 32 9, List.replicate 144 5⟩ := by decide

set_option maxRecDepth 20000 in
/-- `grease_ech_frozen` on a fresh object: the first `init` freezes (and fills in `EncapsulatedKey`),
the second — with other draws — changes nothing. -/
example : (fresh cfgBoring).init exDraws = .ok ⟨{ cfgBoring with enc := List.replicate 32 9 }, some ⟨1, 3, 7, List.replicate 32 9, List.replicate 208 5⟩⟩ ∧
    (⟨{ cfgBoring with enc := List.replicate 32 9 }, some ⟨1, 3, 7, List.replicate 32 9, List.replicate 208 5⟩⟩ : Obj).init
      { exDraws with cidByte := 99, payload := List.replicate 300 6 } =
      .ok ⟨{ cfgBoring with enc := List.replicate 32 9 }, some ⟨1, 3, 7, List.replicate 32 9, List.replicate 208 5⟩⟩ := by
  decide

/-- an AEAD id `cipherLen` does not know panics (so `cfgWF` excludes it). -/
example : draw ⟨[(1, 4)], [], [], []⟩ { exDraws with suiteIdx := 0, lenIdx := 0 } = .panic := by decide

end Examples

end C16
