import UtlsVerif.HrrLemmas
import UtlsVerif.Props.C30
/-!
# C17 — a HelloRetryRequest changes only what RFC 8446 allows

Theorems over `Hrr` (the transcription of `processHelloRetryRequest`'s uTLS path,
`checkServerHelloOrHRR` and `MarshalClientHelloNoECH`). Hypotheses are the decidable predicate
`Hrr.validHRR` (the HelloRetryRequests the property quantifies over) and "the first ClientHello was
marshalled from this extension list" (`marshal … = .ok (c.exts, raw1)`, which the correspondence
checks on every recorded hello). The fresh key share is an input (`fresh`), the cookie index comes
from an arbitrary prng stream `s`.

* `hrr_diff` — the second extension list is the first one mapped slot by slot through `Hrr.slot`
  (so order and every other extension are kept), plus — only if the server sent a cookie and the
  list has no cookie extension — one cookie extension inserted; the bytes sent are the marshalling
  of that list under the *same* non-extension fields; padding is recomputed for the new length.
* `slot_other`, `slot_keyShare`, `slot_cookie`, `slot_padding` — what `slot` does.
* `hrr_others_identical`, `hrr_key_share_single`, `hrr_cookie_echoed` — the consequences the
  monitor checks on the wire.
* `hrr_invalid_abort`, `hrr_bad_fields_abort` — the aborts and their alerts.
* `hrr_key_is_fresh` — the key exchange after the retry uses the key behind the fresh share for every
  prior key set (history independence).
* `hrr_no_panic`, `cookie_index_range` — the insertion index for every list length.
* `cookie_before_last` — the inserted cookie is never last; a trailing PSK / padding stays last.
-/
namespace C17
open Wire Ext Ext.Ext ChSplit Hrr

/-! ## what `slot` does -/

/-- every extension other than key_share / cookie / padding is returned **unchanged**. -/
theorem slot_other (sh : List (Nat × Bytes)) (ck : Option Bytes) (pol : Policy) (u : Nat) (e : Ext)
    (h : other e = true) : slot sh ck pol u e = e := by
  cases e <;> first | (cases ck <;> rfl) | (simp [other, isKeyShare, isCookie, isPadding] at h)

/-- a `KeyShareExtension` holds exactly the new share list afterwards (whatever it held before). -/
theorem slot_keyShare (sh old : List (Nat × Bytes)) (ck : Option Bytes) (pol : Policy) (u : Nat) :
    slot sh ck pol u (keyShare old) = keyShare sh := by
  cases ck <;> rfl

/-- an existing `CookieExtension` echoes the server's cookie; without one it is left alone. -/
theorem slot_cookie (sh : List (Nat × Bytes)) (ck : Option Bytes) (pol : Policy) (u : Nat) (old : Bytes) :
    slot sh ck pol u (cookie old) = cookie (ck.getD old) := by
  cases ck <;> rfl

/-- the padding extension is recomputed by its policy for the unpadded length (kept when it has none). -/
theorem slot_padding (sh : List (Nat × Bytes)) (ck : Option Bytes) (pol : Policy) (u : Nat) (n : Nat) (w : Bool) :
    slot sh ck pol u (padding n w) =
      match pol with
      | none => padding n w
      | some f => padding (f u).1 (f u).2 := by
  cases ck <;> cases pol <;> rfl

/-! ## the cookie index -/

/-- **`Intn(len−2)` for every list length**: 0 (no draw) for `len ≤ 2`, at most `len−3` otherwise —
so for a non-empty list the index is always a valid position and at least one extension (at least
three for `len ≥ 3`) follows it. For the empty list the index 0 is *not* below the length: that is
the branch the code guards with "cookieIndex >= len(hs.uconn.Extensions)". -/
theorem cookie_index_range (n : Nat) (s : Prng.Stream) (i : Nat) (h : cookieIndex n s = some i) :
    (n ≤ 2 → i = 0) ∧ (3 ≤ n → i + 3 ≤ n) ∧ (1 ≤ n → i < n) := by
  unfold cookieIndex at h
  cases hi : Prng.intn ((n : Int) - 2) s with
  | none => rw [hi] at h; cases h
  | some p =>
    obtain ⟨v, r⟩ := p
    rw [hi] at h
    simp only [Option.map_some, Option.some.injEq] at h
    subst h
    have hr := C30.intn_range ((n : Int) - 2) s r v hi
    refine ⟨fun hn => (hr.2 (by omega)).1, fun hn => ?_, fun hn => ?_⟩
    · have := hr.1 (by omega); omega
    · by_cases h3 : 3 ≤ n
      · have := hr.1 (by omega); omega
      · have := (hr.2 (by omega)).1; omega

/-! ## the main theorem -/

/-- the second extension list in closed form: slot-wise image of the first, the cookie inserted at
`j` when (and only when) the server sent one and the list has no cookie extension. -/
def expected (c : Client) (h : SH) (fresh : Bytes) (j unp : Nat) : List Ext :=
  let l := c.exts.map (slot (sharesAfter c h fresh) (effCookie h) c.pol unp)
  match effCookie h with
  | some ck => if c.exts.any isCookie then l else insertAt j (cookie ck) l
  | none => l

private theorem valid_unpack {c : Client} {h : SH} (hv : validHRR c h = true) :
    checkSH c.fixed none h = none ∧ h.ech = false ∧ h.share = 0 ∧
    (h.group ≠ 0 → (curvesOf c.defaultCurves c.exts).contains h.group = true ∧
      (sharesOf c.exts).any (·.1 == h.group) = false ∧ classical h.group = true) ∧
    (h.group ≠ 0 ∨ h.cookie ≠ none) ∧ c.pskInUse = false ∧ c.realECH = false ∧ c.exts.any isKeyShare = true ∧
    versionAdvertised c = true := by
  unfold validHRR at hv
  simp only [Bool.and_eq_true, Bool.or_eq_true, Bool.not_eq_true', beq_iff_eq, bne_iff_ne, ne_eq,
    Option.isNone_iff_eq_none, Option.isSome_iff_ne_none] at hv
  obtain ⟨⟨⟨⟨⟨⟨⟨⟨h0, h1⟩, h2⟩, h3⟩, h4⟩, h5⟩, h6⟩, h7⟩, h8⟩ := hv
  refine ⟨h1, h2, h3, ?_, h5, h6, h7, h8, h0⟩
  intro hg
  rcases h4 with h4 | h4
  · exact absurd h4 hg
  · exact ⟨h4.1.1, h4.1.2, h4.2⟩

private theorem newShares_valid {c : Client} {h : SH} (fresh : Bytes) (hv : validHRR c h = true) :
    newShares c h fresh = .ok (sharesAfter c h fresh) := by
  obtain ⟨_, _, _, hg, _⟩ := valid_unpack hv
  unfold newShares sharesAfter
  by_cases h0 : h.group = 0
  · simp [h0]
  · obtain ⟨a, b, d⟩ := hg h0
    rw [if_neg h0, if_neg (fun hn => hn a), if_neg (by rw [b]; exact Bool.false_ne_true), if_neg (fun hn => hn d), if_neg h0]

private theorem stepAt_valid {c : Client} {h : SH} (fresh : Bytes) (idx : Nat) (hv : validHRR c h = true) :
    hrrStepAt c h fresh idx = utlsSection c h (sharesAfter c h fresh) idx := by
  obtain ⟨h1, h2, h3, _, h5, _, h7, _, h9⟩ := valid_unpack hv
  unfold hrrStepAt
  rw [if_neg (by simp [h9]), h1]
  simp only
  rw [if_neg (by simp [h7]), if_neg (by simp [h2])]
  rw [if_neg (by intro ⟨a, b⟩; rcases h5 with h5 | h5 <;> contradiction), if_neg (by simp [h3]), newShares_valid fresh hv]

/-- the list handed to `MarshalClientHelloNoECH`. -/
private def pre (c : Client) (h : SH) (fresh : Bytes) (j : Nat) : List Ext :=
  let l1 := c.exts.map (setKeyShares (sharesAfter c h fresh))
  match effCookie h with
  | some ck => if c.exts.any isCookie then l1.map (setCookie ck) else insertAt j (cookie ck) l1
  | none => l1

private theorem any_isCookie_setKeyShares (sh : List (Nat × Bytes)) (l : List Ext) :
    (l.map (setKeyShares sh)).any isCookie = l.any isCookie := by
  induction l with
  | nil => rfl
  | cons e es ih =>
    simp only [List.map_cons, List.any_cons, ih]
    congr 1
    cases e <;> rfl

private theorem section_valid {c : Client} {h : SH} (fresh : Bytes) (j : Nat) (hv : validHRR c h = true)
    (hj : j < c.exts.length) :
    utlsSection c h (sharesAfter c h fresh) j =
      match marshal c.pol c.fixed (pre c h fresh j) with
      | .error e => .fail (.marshal e)
      | .ok (exts3, raw) => .sent exts3 raw := by
  obtain ⟨_, _, _, _, _, h6, _, h8, _⟩ := valid_unpack hv
  have hstep : cookieStep (c.exts.map (setKeyShares (sharesAfter c h fresh))) h.cookie j = .ok (pre c h fresh j) := by
    unfold cookieStep pre effCookie
    cases hck : h.cookie with
    | none => rfl
    | some ck =>
      simp only
      by_cases he : ck.isEmpty = true
      · rw [if_pos he]; simp [he]
      · rw [if_neg he]
        simp only [he]
        rw [any_isCookie_setKeyShares]
        by_cases hc : c.exts.any isCookie = true
        · rw [if_pos hc]; simp [hc]
        · rw [if_neg hc]
          have hlen : ¬ (j ≥ (c.exts.map (setKeyShares (sharesAfter c h fresh))).length) := by
            rw [List.length_map]; omega
          rw [if_neg hlen]
          unfold insertAtGo
          rw [if_pos (by rw [List.length_map]; omega)]
          simp [hc]
  unfold utlsSection
  rw [if_neg (by simp [h6]), if_neg (by simp [h8]), hstep]
  rfl

private theorem pre_padding (c : Client) (h : SH) (fresh : Bytes) (j : Nat) :
    ((pre c h fresh j).filter isPadding).length = (c.exts.filter isPadding).length := by
  unfold pre
  have h1 := filter_isPadding_map (g := setKeyShares (sharesAfter c h fresh)) (isPadding_setKeyShares _) c.exts
  cases effCookie h with
  | none => exact h1
  | some ck =>
    simp only
    split
    · rw [filter_isPadding_map (isPadding_setCookie ck), h1]
    · rw [filter_insertAt isPadding j (cookie ck) _ rfl, h1]

private theorem pre_readable (c : Client) (h : SH) (fresh : Bytes) (j : Nat)
    (hr : ∀ e ∈ c.exts, readable e = true) : ∀ e ∈ pre c h fresh j, readable e = true := by
  have h1 : ∀ e ∈ c.exts.map (setKeyShares (sharesAfter c h fresh)), readable e = true := by
    intro e he
    obtain ⟨a, ha, rfl⟩ := List.mem_map.mp he
    exact readable_setKeyShares (hr a ha)
  unfold pre
  cases effCookie h with
  | none => exact h1
  | some ck =>
    simp only
    split
    · intro e he
      obtain ⟨a, ha, rfl⟩ := List.mem_map.mp he
      exact readable_setCookie (h1 a ha)
    · intro e he
      rcases mem_insertAt.mp he with rfl | he
      · exact readable_cookie ck
      · exact h1 e he

private theorem pre_expected (c : Client) (h : SH) (fresh : Bytes) (j u : Nat) :
    (pre c h fresh j).map (updatePadding c.pol u) = expected c h fresh j u := by
  unfold pre expected slot
  cases hck : effCookie h with
  | none => simp [List.map_map, Function.comp_def]
  | some ck =>
    simp only
    by_cases hc : c.exts.any isCookie = true
    · simp [hc, List.map_map, Function.comp_def]
    · simp only [hc, Bool.false_eq_true, if_false]
      rw [map_insertAt, List.map_map]
      have hid : ∀ e ∈ c.exts, setCookie ck (setKeyShares (sharesAfter c h fresh) e) = setKeyShares (sharesAfter c h fresh) e := by
        intro e he
        have hne : isCookie e = false := by
          cases hce : isCookie e with
          | false => rfl
          | true => exact absurd (List.any_eq_true.mpr ⟨e, he, hce⟩) hc
        cases e <;> first | rfl | (simp [isCookie] at hne)
      congr 1
      apply List.map_congr_left
      intro e he
      simp only [Function.comp]
      rw [hid e he]

/-- **the diff** (the `…_partial` form in the sense of the builder guide: `validHRR` contains the guard
`classical h.group`; the statement without it is refuted by `hrr_diff_full_false`).
For a valid HelloRetryRequest the client sends a second ClientHello whose extension
list is `expected …`: the first list, slot by slot through `slot` (same positions, same order), with
the echoed cookie inserted at an index `j` with `j < len`, `j = 0` for `len ≤ 2`, `j + 3 ≤ len`
otherwise — and only when there was no cookie extension to overwrite. The bytes sent are the
marshalling of exactly this list under the **same non-extension fields** `c.fixed`, and the padding
slot was recomputed for the unpadded length of this very list. The one other outcome is the marshaller's
own refusal: if this list no longer fits the uint16 / uint24 length fields (a huge cookie), the step
returns the "too long" error and nothing is sent. -/
theorem hrr_diff (c : Client) (h : SH) (fresh : Bytes) (s : Prng.Stream) (raw1 : Bytes) (out : Outcome)
    (hfirst : marshal c.pol c.fixed c.exts = .ok (c.exts, raw1))
    (hv : validHRR c h = true)
    (hout : hrrStep c h fresh s = some out) :
    ∃ exts' j,
      exts' = expected c h fresh j (unpaddedLen c.fixed exts') ∧
      j < c.exts.length ∧ (c.exts.length ≤ 2 → j = 0) ∧ (3 ≤ c.exts.length → j + 3 ≤ c.exts.length) ∧
      ((fits c.fixed exts' = true ∧ ∃ raw2, out = .sent exts' raw2 ∧ marshalCore c.fixed exts' = .ok raw2) ∨
       (fits c.fixed exts' = false ∧ out = .fail (.marshal .tooLong))) := by
  obtain ⟨_, _, _, _, _, _, _, h8, _⟩ := valid_unpack hv
  have hne : 1 ≤ c.exts.length := by
    obtain ⟨x, hx, _⟩ := List.any_eq_true.mp h8
    cases hc : c.exts with
    | nil => rw [hc] at hx; cases hx
    | cons a l => simp
  unfold hrrStep at hout
  cases hci : cookieIndex c.exts.length s with
  | none => rw [hci] at hout; cases hout
  | some j =>
    rw [hci] at hout
    simp only [Option.map_some, Option.some.injEq] at hout
    obtain ⟨r1, r2, r3⟩ := cookie_index_range _ _ _ hci
    have hj := r3 hne
    obtain ⟨_, hpad, hcore⟩ := marshal_inv hfirst
    obtain ⟨hread, hfix, _, _⟩ := marshalCore_inv hcore
    have hpp : ((pre c h fresh j).filter isPadding).length ≤ 1 := by rw [pre_padding]; exact hpad
    have hlist : (pre c h fresh j).map (updatePadding c.pol (unpaddedLen c.fixed (pre c h fresh j))) =
        expected c h fresh j (unpaddedLen c.fixed ((pre c h fresh j).map (updatePadding c.pol (unpaddedLen c.fixed (pre c h fresh j))))) := by
      rw [unpaddedLen_map_update, pre_expected]
    refine ⟨_, j, hlist, hj, r1, r2, ?_⟩
    cases hfit : fits c.fixed ((pre c h fresh j).map (updatePadding c.pol (unpaddedLen c.fixed (pre c h fresh j)))) with
    | true =>
      left
      obtain ⟨raw2, hm⟩ := marshal_ok (pol := c.pol) (f := c.fixed) (exts := pre c h fresh j) hpp
        (fun e he => .inr (pre_readable c h fresh j hread e he)) hfix hfit
      refine ⟨rfl, raw2, ?_, (marshal_inv hm).2.2⟩
      rw [← hout, stepAt_valid fresh j hv, section_valid fresh j hv hj, hm]
    | false =>
      right
      refine ⟨rfl, ?_⟩
      rw [← hout, stepAt_valid fresh j hv, section_valid fresh j hv hj, marshal_tooLong hpp hfit]

/-! ## consequences in the shape the wire monitor checks -/

private theorem filter_other_map_slot (sh : List (Nat × Bytes)) (ck : Option Bytes) (pol : Policy) (u : Nat)
    (l : List Ext) : (l.map (slot sh ck pol u)).filter other = l.filter other := by
  induction l with
  | nil => rfl
  | cons e es ih =>
    simp only [List.map_cons, List.filter_cons]
    have hk : other (slot sh ck pol u e) = other e := by
      cases e <;> cases ck <;> cases pol <;> rfl
    rw [hk]
    by_cases ho : other e = true
    · simp [ho, slot_other sh ck pol u e ho, ih]
    · simp [ho, ih]

/-- **every other extension is byte-identical and in the same relative order**: dropping key_share,
cookie and padding from both lists leaves the same list. -/
theorem hrr_others_identical (c : Client) (h : SH) (fresh : Bytes) (j u : Nat) :
    (expected c h fresh j u).filter other = c.exts.filter other := by
  unfold expected
  simp only
  cases effCookie h with
  | none => exact filter_other_map_slot _ _ _ _ _
  | some ck =>
    simp only
    split
    · exact filter_other_map_slot _ _ _ _ _
    · rw [filter_insertAt other j (cookie ck) _ rfl]; exact filter_other_map_slot _ _ _ _ _

private theorem filter_ks_map_slot (sh : List (Nat × Bytes)) (ck : Option Bytes) (pol : Policy) (u : Nat)
    (l : List Ext) : (l.map (slot sh ck pol u)).filter isKeyShare = (l.filter isKeyShare).map fun _ => keyShare sh := by
  induction l with
  | nil => rfl
  | cons e es ih =>
    simp only [List.map_cons, List.filter_cons]
    have hk : isKeyShare (slot sh ck pol u e) = isKeyShare e := by
      cases e <;> cases ck <;> cases pol <;> rfl
    rw [hk]
    by_cases ho : isKeyShare e = true
    · have : slot sh ck pol u e = keyShare sh := by
        cases e <;> first | (simp [isKeyShare] at ho; done) | exact slot_keyShare _ _ _ _ _
      simp [ho, this, ih]
    · simp [ho, ih]

/-- **key_share holds exactly one fresh share of the requested group**: every `KeyShareExtension` of
the second list is `[(selected group, fresh)]` — no stale share survives next to it — and there are
exactly as many of them as before (one, for a well-formed hello). -/
theorem hrr_key_share_single (c : Client) (h : SH) (fresh : Bytes) (j u : Nat) (hg : h.group ≠ 0) :
    (expected c h fresh j u).filter isKeyShare =
      (c.exts.filter isKeyShare).map fun _ => keyShare [(h.group, fresh)] := by
  have hs : sharesAfter c h fresh = [(h.group, fresh)] := by unfold sharesAfter; rw [if_neg hg]
  unfold expected
  simp only
  rw [hs]
  cases effCookie h with
  | none => exact filter_ks_map_slot _ _ _ _ _
  | some ck =>
    simp only
    split
    · exact filter_ks_map_slot _ _ _ _ _
    · rw [filter_insertAt isKeyShare j (cookie ck) _ rfl]; exact filter_ks_map_slot _ _ _ _ _

private def ckImage (ck : Option Bytes) (e : Ext) : Ext :=
  match ck with
  | some k => cookie k
  | none => e

private theorem filter_ck_map_slot (sh : List (Nat × Bytes)) (ck : Option Bytes) (pol : Policy) (u : Nat)
    (l : List Ext) :
    (l.map (slot sh ck pol u)).filter isCookie = (l.filter isCookie).map (ckImage ck) := by
  induction l with
  | nil => rfl
  | cons e es ih =>
    simp only [List.map_cons, List.filter_cons]
    have hk : isCookie (slot sh ck pol u e) = isCookie e := by
      cases e <;> cases ck <;> cases pol <;> rfl
    rw [hk]
    by_cases ho : isCookie e = true
    · have : slot sh ck pol u e = ckImage ck e := by
        cases e <;> first | (simp [isCookie] at ho; done) | (cases ck <;> rfl)
      simp [ho, this, ih]
    · simp [ho, ih]

/-- **the cookie is echoed**: with a server cookie `ck` every cookie extension of the second list is
`cookie ck` — the existing ones overwritten, or exactly one inserted when there was none; without a
server cookie the cookie extensions are the first hello's. -/
theorem hrr_cookie_echoed (c : Client) (h : SH) (fresh : Bytes) (j u : Nat) :
    (expected c h fresh j u).filter isCookie =
      match effCookie h with
      | some ck => if c.exts.any isCookie then (c.exts.filter isCookie).map fun _ => cookie ck else [cookie ck]
      | none => c.exts.filter isCookie := by
  unfold expected
  simp only
  cases hck : effCookie h with
  | none =>
    simp only
    rw [filter_ck_map_slot]
    show List.map (fun e => e) _ = _
    simp
  | some ck =>
    simp only
    by_cases hc : c.exts.any isCookie = true
    · simp only [hc, if_true]
      rw [filter_ck_map_slot]
      rfl
    · simp only [hc, Bool.false_eq_true, if_false]
      unfold insertAt
      rw [List.filter_append, List.filter_cons]
      simp only [isCookie, if_true]
      rw [← List.map_take, ← List.map_drop, filter_ck_map_slot, filter_ck_map_slot]
      have hno : ∀ l : List Ext, (∀ e ∈ l, e ∈ c.exts) → l.filter isCookie = [] := by
        intro l hl
        rw [List.filter_eq_nil_iff]
        intro e he hce
        exact hc (List.any_eq_true.mpr ⟨e, hl e he, hce⟩)
      rw [hno _ (fun e he => List.mem_of_mem_take he), hno _ (fun e he => List.mem_of_mem_drop he)]
      rfl

/-! ## aborts -/

/-- **invalid selections abort**: with the common checks passed and no ECH involved,
* neither a group nor a cookie ⇒ `illegal_parameter` ("unnecessary HelloRetryRequest message");
* a group that is not listed ⇒ `illegal_parameter` ("server selected unsupported group");
* a group a share was already sent for ⇒ `illegal_parameter` ("unnecessary HelloRetryRequest key_share");
* a listed, unshared group `generateECDHEKey` cannot serve ⇒ `internal_error`;
* a key_share in ServerHello form ⇒ `decode_error`.
No second ClientHello exists in any of these outcomes (`Outcome.abort` carries none). -/
theorem hrr_invalid_abort (c : Client) (h : SH) (fresh : Bytes) (idx : Nat)
    (hver : versionAdvertised c = true) (hchk : checkSH c.fixed none h = none) (hre : c.realECH = false) (hech : h.ech = false) :
    (h.group = 0 ∧ h.cookie = none → hrrStepAt c h fresh idx = .abort alertIllegalParameter "unnecessary-hrr") ∧
    (¬ (h.group = 0 ∧ h.cookie = none) → h.share ≠ 0 →
      hrrStepAt c h fresh idx = .abort alertDecodeError "malformed-keyshare") ∧
    (h.share = 0 → h.group ≠ 0 → (curvesOf c.defaultCurves c.exts).contains h.group = false →
      hrrStepAt c h fresh idx = .abort alertIllegalParameter "unsupported-group") ∧
    (h.share = 0 → h.group ≠ 0 → (curvesOf c.defaultCurves c.exts).contains h.group = true →
      (sharesOf c.exts).any (·.1 == h.group) = true →
      hrrStepAt c h fresh idx = .abort alertIllegalParameter "unnecessary-keyshare") ∧
    (h.share = 0 → h.group ≠ 0 → (curvesOf c.defaultCurves c.exts).contains h.group = true →
      (sharesOf c.exts).any (·.1 == h.group) = false → classical h.group = false →
      hrrStepAt c h fresh idx = .abort alertInternalError "unsupported-curve") := by
  have pre0 : ∀ (X : Outcome), (¬ (h.group = 0 ∧ h.cookie = none)) → h.share = 0 →
      (match newShares c h fresh with
        | .error o => o
        | .ok shares => utlsSection c h shares idx) = X → hrrStepAt c h fresh idx = X := by
    intro X hnc hs hX
    unfold hrrStepAt
    rw [if_neg (by simp [hver]), hchk]; simp only
    rw [if_neg (by simp [hre]), if_neg (by simp [hech]), if_neg hnc, if_neg (by simp [hs])]
    exact hX
  refine ⟨?_, ?_, ?_, ?_, ?_⟩
  · intro hn
    unfold hrrStepAt
    rw [if_neg (by simp [hver]), hchk]; simp only
    rw [if_neg (by simp [hre]), if_neg (by simp [hech]), if_pos hn]
  · intro hnc hs
    unfold hrrStepAt
    rw [if_neg (by simp [hver]), hchk]; simp only
    rw [if_neg (by simp [hre]), if_neg (by simp [hech]), if_neg hnc, if_pos hs]
  · intro hs hg hl
    apply pre0 _ (fun ⟨a, _⟩ => hg a) hs
    unfold newShares
    rw [if_neg hg, if_pos (by rw [hl]; exact Bool.false_ne_true)]
  · intro hs hg hl hsh
    apply pre0 _ (fun ⟨a, _⟩ => hg a) hs
    unfold newShares
    rw [if_neg hg, if_neg (fun hn => hn hl), if_pos hsh]
  · intro hs hg hl hsh hcl
    apply pre0 _ (fun ⟨a, _⟩ => hg a) hs
    unfold newShares
    rw [if_neg hg, if_neg (fun hn => hn hl), if_neg (by rw [hsh]; exact Bool.false_ne_true),
      if_pos (by rw [hcl]; exact Bool.false_ne_true)]

/-- **bad fields abort before anything else**: whatever `checkServerHelloOrHRR` rejects (legacy
version, forbidden extension, session id not echoed, compression, cipher suite not offered or not a
TLS 1.3 suite, suite changed after a retry) is an abort with an alert, and is the outcome of the step. -/
theorem hrr_bad_fields_abort (c : Client) (h : SH) (fresh : Bytes) (idx : Nat) (o : Outcome)
    (hver : versionAdvertised c = true) (hchk : checkSH c.fixed none h = some o) :
    hrrStepAt c h fresh idx = o ∧ ∃ a cls, o = .abort a cls := by
  refine ⟨by unfold hrrStepAt; rw [if_neg (by simp [hver]), hchk], ?_⟩
  unfold checkSH at hchk
  repeat' split at hchk
  all_goals first | (cases hchk; exact ⟨_, _, rfl⟩) | cases hchk

/-- **TLS 1.3 not advertised on the wire** (no supported_versions extension listing it, legacy_version
below it): the HelloRetryRequest is refused with `protocol_version` before any other check — a
ClientHello whose spec merely *allows* 1.3 through `TLSVersMax` never settles on it. -/
theorem hrr_version_not_advertised (c : Client) (h : SH) (fresh : Bytes) (idx : Nat)
    (hver : versionAdvertised c = false) :
    hrrStepAt c h fresh idx = .abort alertProtocolVersion "version-not-advertised" := by
  unfold hrrStepAt
  rw [if_pos (by simp [hver])]

/-- a ServerHello that changes the suite the HelloRetryRequest chose is rejected with `illegal_parameter`. -/
theorem suite_change_aborts (f : Fixed) (p : Nat) (h : SH)
    (h1 : h.sv = 0x0304) (h2 : h.vers = 0x0303) (h3 : h.forbidden = false) (h4 : f.sid = h.sid) (h5 : h.comp = 0)
    (hs : mutual13 f.suites h.suite ≠ some p) :
    checkSH f (some p) h = some (.abort alertIllegalParameter "suite-changed") := by
  unfold checkSH
  rw [if_neg (by omega), if_neg (by omega), if_neg (by omega), if_neg (by simp [h3]), if_neg (by simp [h4]),
    if_neg (by omega), if_pos ⟨rfl, hs⟩]

/-! ## the key behind the fresh share -/

/-- **the key exchange uses the fresh key, whatever the UConn went through before.** For *every*
key set the handshake state held when the HelloRetryRequest arrived — in particular one whose
per-group map still has a private key for the selected group from an earlier `ApplyPreset`, or from a
share that was built and then removed — `establishHandshakeKeys` (`ecdheKeyFor(selected group)`) finds
the key behind the share the second ClientHello carries (`hrr_key_share_single`), and no key of the old
set is reachable any more. So the outcome of the retry is a function of the current extension list, the
HelloRetryRequest and the fresh key only — not of the history of the connection object. -/
theorem hrr_key_is_fresh (old : Option KeySet) (h : SH) (fresh : Bytes) (hg : h.group ≠ 0) :
    ecdheKeyFor (keysAfterHRR old h fresh) h.group = some fresh ∧
    ∀ g, ecdheKeyFor (keysAfterHRR old h fresh) g = some fresh := by
  unfold keysAfterHRR
  rw [if_neg hg]
  exact ⟨rfl, fun _ => rfl⟩

/-- what the statement rules out: updating the old set in place (`curveID`, `ecdhe` overwritten, map
kept) hands the key exchange the stale key of an earlier spec. -/
example : ecdheKeyFor (some { (⟨29, some [1], [(29, [1]), (23, [2])]⟩ : KeySet) with curveID := 23, ecdhe := some [9] }) 23 = some [2] := by
  decide

/-! ## no panic, cookie never last -/

private theorem newShares_err {c : Client} {h : SH} {fresh : Bytes} {o : Outcome}
    (he : newShares c h fresh = .error o) : ∃ a cls, o = .abort a cls := by
  unfold newShares at he
  repeat' split at he
  all_goals first | (cases he; exact ⟨_, _, rfl⟩) | cases he

/-- the cookie step succeeds for every valid position. -/
theorem cookieStep_ok (l : List Ext) (ck : Option Bytes) (j : Nat) (hj : j < l.length) :
    ∃ l', cookieStep l ck j = .ok l' := by
  unfold cookieStep
  cases ck with
  | none => exact ⟨_, rfl⟩
  | some k =>
    simp only
    split
    · exact ⟨_, rfl⟩
    · split
      · exact ⟨_, rfl⟩
      · rw [if_neg (by omega)]
        unfold insertAtGo
        rw [if_pos (by omega)]
        exact ⟨_, rfl⟩

/-- **no panic, whatever the list length and the prng stream.** The step never ends in a Go
slice-bounds panic, and the explicit "cookieIndex >= len" error is unreachable: the only list for
which `Intn(len−2)` is not a valid position is the empty one, and an empty list has no
`KeyShareExtension`, which is reported first. (For `len ∈ {1,2}` the index is 0 and nothing is drawn,
for `len ≥ 3` it is at most `len−3`: `cookie_index_range`.) -/
theorem hrr_no_panic (c : Client) (h : SH) (fresh : Bytes) (s : Prng.Stream) (out : Outcome)
    (hout : hrrStep c h fresh s = some out) : out ≠ .panic ∧ out ≠ .fail .cookieIndex := by
  unfold hrrStep at hout
  cases hci : cookieIndex c.exts.length s with
  | none => rw [hci] at hout; cases hout
  | some j =>
    rw [hci] at hout
    simp only [Option.map_some, Option.some.injEq] at hout
    subst hout
    obtain ⟨_, _, r3⟩ := cookie_index_range _ _ _ hci
    have hsec : ∀ sh, utlsSection c h sh j ≠ .panic ∧ utlsSection c h sh j ≠ .fail .cookieIndex := by
      intro sh
      unfold utlsSection
      split
      · exact ⟨by simp, by simp⟩
      · split
        · exact ⟨by simp, by simp⟩
        · rename_i hks
          have hne : 1 ≤ c.exts.length := by
            have hks' : c.exts.any isKeyShare = true := by simpa using hks
            obtain ⟨x, hx, _⟩ := List.any_eq_true.mp hks'
            cases hc : c.exts with
            | nil => rw [hc] at hx; cases hx
            | cons a l => simp
          obtain ⟨l', hl'⟩ := cookieStep_ok (c.exts.map (setKeyShares sh)) h.cookie j
            (by rw [List.length_map]; exact r3 hne)
          rw [hl']
          simp only
          split <;> exact ⟨by simp, by simp⟩
    by_cases hver0 : versionAdvertised c = false
    · rw [hrr_version_not_advertised c h fresh j hver0]; exact ⟨by simp, by simp⟩
    have hver : versionAdvertised c = true := by simpa using hver0
    unfold hrrStepAt
    rw [if_neg (by simp [hver])]
    split
    · rename_i o hchk
      obtain ⟨a, cls, rfl⟩ := (hrr_bad_fields_abort c h fresh j o hver hchk).2
      exact ⟨by simp, by simp⟩
    · split
      · exact ⟨by simp, by simp⟩
      · split
        · exact ⟨by simp, by simp⟩
        · split
          · exact ⟨by simp, by simp⟩
          · split
            · exact ⟨by simp, by simp⟩
            · split
              · rename_i o he
                obtain ⟨a, cls, rfl⟩ := newShares_err he
                exact ⟨by simp, by simp⟩
              · exact hsec _

/-- **the cookie is never last.** When a cookie extension is inserted (valid HelloRetryRequest with a
cookie, no cookie extension in the list), the last extension of the second list is the slot image of
the last extension of the first: a trailing pre_shared_key stays last *unchanged*, a trailing padding
stays last (recomputed). -/
theorem cookie_before_last (c : Client) (h : SH) (fresh : Bytes) (j u : Nat) (ck : Bytes)
    (hj : j < c.exts.length) (hck : effCookie h = some ck) (hno : c.exts.any isCookie = false) :
    (expected c h fresh j u).getLast? = (c.exts.getLast?).map (slot (sharesAfter c h fresh) (some ck) c.pol u) ∧
    (∀ e, c.exts.getLast? = some e → isPsk e = true → (expected c h fresh j u).getLast? = some e) ∧
    (expected c h fresh j u).getLast? ≠ some (cookie ck) := by
  have h1 : (expected c h fresh j u).getLast? = (c.exts.getLast?).map (slot (sharesAfter c h fresh) (some ck) c.pol u) := by
    unfold expected
    simp only [hck, hno, Bool.false_eq_true, if_false]
    rw [getLast?_insertAt (by rw [List.length_map]; exact hj), List.getLast?_map]
  refine ⟨h1, ?_, ?_⟩
  · intro e he hp
    rw [h1, he, Option.map_some, slot_other _ _ _ _ e (by cases e <;> simp_all [isPsk, other, isKeyShare, isCookie, isPadding])]
  · rw [h1]
    cases hl : c.exts.getLast? with
    | none => simp
    | some e =>
      have hmem : e ∈ c.exts := List.mem_of_getLast? hl
      have hnc : isCookie e = false := by
        cases hce : isCookie e with
        | false => rfl
        | true =>
          have : c.exts.any isCookie = true := List.any_eq_true.mpr ⟨e, hmem, hce⟩
          rw [hno] at this; cases this
      rw [Option.map_some]
      intro heq
      simp only [Option.some.injEq] at heq
      have : isCookie (slot (sharesAfter c h fresh) (some ck) c.pol u e) = isCookie e := by
        cases e <;> cases hp : c.pol <;> rfl
      rw [heq, hnc] at this
      cases this

/-! ## the same diff, as the splitter sees it on the two recorded messages -/

private theorem other_slot (sh : List (Nat × Bytes)) (ck : Option Bytes) (pol : Policy) (u : Nat) (e : Ext) :
    other (slot sh ck pol u e) = other e := by
  cases e <;> cases ck <;> cases pol <;> rfl

/-- **wire diff.** Splitting the two recorded ClientHello messages with `ChSplit.split` (the reader the
monitors use): both have the *same non-extension fields* (`c.fixed`: legacy version, random, session
id, cipher suites, compression methods), and after removing the extensions of type key_share (51),
cookie (44) and padding (21) the two `(type, body)` lists are **equal** — same extensions, same
bytes, same order. (`wireWF`: no length field truncates; the driver evaluates it on every recorded
hello. For the second hello it is a premise of the split only, not of the list equality.) -/
theorem hrr_wire_diff (c : Client) (h : SH) (fresh : Bytes) (s : Prng.Stream) (raw1 : Bytes) (out : Outcome)
    (hfirst : marshal c.pol c.fixed c.exts = .ok (c.exts, raw1))
    (hv : validHRR c h = true)
    (hout : hrrStep c h fresh s = some out)
    (hw1 : wireWF c.fixed c.exts = true) :
    ∃ exts',
      split raw1 = some ⟨c.fixed, true, wireExts c.exts⟩ ∧
      without changeable (wireExts exts') = without changeable (wireExts c.exts) ∧
      ((∃ raw2, out = .sent exts' raw2 ∧
          (wireWF c.fixed exts' = true → split raw2 = some ⟨c.fixed, true, wireExts exts'⟩)) ∨
       (fits c.fixed exts' = false ∧ out = .fail (.marshal .tooLong))) := by
  obtain ⟨exts', j, hexp, hj, _, _, hcase⟩ := hrr_diff c h fresh s raw1 out hfirst hv hout
  have hne : c.exts.isEmpty = false := by
    cases hc : c.exts with
    | nil => rw [hc] at hj; simp at hj
    | cons a l => rfl
  have hne' : exts'.isEmpty = false := by
    rw [hexp]
    unfold expected
    simp only
    cases effCookie h with
    | none => simpa using hne
    | some ck =>
      simp only
      split
      · simpa using hne
      · unfold insertAt; simp
  refine ⟨exts', ?_, ?_, ?_⟩
  · have := split_marshalCore (marshal_inv hfirst).2.2 hw1
    rw [hne] at this; exact this
  · rw [hexp]
    unfold expected
    simp only
    have hmap := without_wire_map (slot (sharesAfter c h fresh) (effCookie h) c.pol (unpaddedLen c.fixed exts'))
      (fun e ho => slot_other _ _ _ _ e ho) (fun e => other_slot _ _ _ _ e) c.exts
    cases hck : effCookie h with
    | none => rw [hck] at hmap; exact hmap
    | some ck =>
      rw [hck] at hmap
      simp only
      split
      · exact hmap
      · rw [← hmap]
        unfold insertAt
        rw [wireExts_append, without_append, without_wire_changeable (e := cookie ck) rfl, ← without_append,
          ← wireExts_append, List.take_append_drop]
  · rcases hcase with ⟨_, raw2, ho, hcore⟩ | ⟨hf, ho⟩
    · left
      refine ⟨raw2, ho, ?_⟩
      intro hw2
      have := split_marshalCore hcore hw2
      rw [hne'] at this; exact this
    · exact .inr ⟨hf, ho⟩

/-! ## non-vacuity: a concrete client, a concrete HelloRetryRequest -/

section Examples

/-- a small TLS 1.3 offer: supported_versions, supported_groups {x25519, P-256}, one x25519 share,
signature_algorithms, BoringSSL padding (off: the hello is short). -/
def exClient : Client :=
  { fixed := ⟨0x0303, List.replicate 32 7, [1, 2, 3], [0x1301, 0x1302], [0]⟩
    exts := [supportedVersions [0x0304, 0x0303], supportedCurves [29, 23], keyShare [(29, List.replicate 32 1)],
             sigAlgs [0x0403], padding 0 false]
    defaultCurves := []
    pol := some boringPadding
    pskInUse := false
    realECH := false }

/-- HelloRetryRequest selecting P-256 (listed, not shared) with a 3-byte cookie. -/
def exHRR : SH :=
  { vers := 0x0303, sv := 0x0304, suite := 0x1301, sid := [1, 2, 3], comp := 0, group := 23, share := 0,
    cookie := some [0xaa, 0xbb, 0xcc], forbidden := false, ech := false }

example : validHRR exClient exHRR = true := by decide

set_option maxRecDepth 20000 in
example : ∃ raw1, marshal exClient.pol exClient.fixed exClient.exts = .ok (exClient.exts, raw1) := ⟨_, rfl⟩

example : wireWF exClient.fixed exClient.exts = true := by decide

set_option maxRecDepth 20000 in
/-- the hypotheses of `hrr_diff` / `hrr_wire_diff` are met and the step sends a second hello whose
list is `[versions, groups, cookie, key_share(P-256), sigalgs, padding]` for the draw `5`
(`Intn(5−2)` = 5 mod 3 = 2 = `len−3`, the largest index possible). -/
example : ∃ raw2, hrrStep exClient exHRR (List.replicate 65 4) [5 * 4294967296] =
    some (.sent [supportedVersions [0x0304, 0x0303], supportedCurves [29, 23], cookie [0xaa, 0xbb, 0xcc],
                 keyShare [(23, List.replicate 65 4)], sigAlgs [0x0403], padding 0 false] raw2) := ⟨_, rfl⟩

/-- an invalid selection: x25519 was already shared. -/
example : hrrStepAt exClient { exHRR with group := 29 } [] 0 = .abort alertIllegalParameter "unnecessary-keyshare" := by
  decide

/-- an unlisted group. -/
example : hrrStepAt exClient { exHRR with group := 24 } [] 0 = .abort alertIllegalParameter "unsupported-group" := by
  decide

/-- no change at all. -/
example : hrrStepAt exClient { exHRR with group := 0, cookie := none } [] 0 = .abort alertIllegalParameter "unnecessary-hrr" := by
  decide

/-- a hello without supported_versions (legacy_version 0x0303) never settles on TLS 1.3. -/
example : hrrStepAt { exClient with exts := [keyShare [(29, List.replicate 32 1)]] } exHRR [] 0 =
    .abort alertProtocolVersion "version-not-advertised" := by decide

/-- `cookie_index_range` at the small lengths: nothing is drawn, the index is 0. -/
example : cookieIndex 1 [] = some 0 ∧ cookieIndex 2 [] = some 0 ∧ cookieIndex 0 [] = some 0 := by decide

/-- `cookie_before_last`: a trailing (empty) pre_shared_key stays last. -/
example : (expected { exClient with exts := exClient.exts ++ [psk false true false [] []] } exHRR [] 3 0).getLast? =
    some (psk false true false [] []) := by decide

end Examples

/-! ## the full statement is false of the unchanged code (known finding `ffdhe-hrr`)

`hrr_diff` is proved under `validHRR`, whose conjunct `classical h.group` ("a group `generateECDHEKey`
serves": X25519, P-256, P-384, P-521) is exactly the guard the proof forces. The property text speaks of
*every* classical (non-hybrid) group the client listed without a share. Without that conjunct the
statement fails: the Firefox parrots list ffdhe2048/ffdhe3072, which uTLS cannot serve. -/

/-- `validHRR` with "served by `generateECDHEKey`" weakened to "not a hybrid / GREASE code point". -/
def validHRRFull (c : Client) (h : SH) : Bool :=
  versionAdvertised c && (checkSH c.fixed none h).isNone && !h.ech && h.share == 0 &&
  (h.group == 0 ||
    ((curvesOf c.defaultCurves c.exts).contains h.group && !(sharesOf c.exts).any (·.1 == h.group) &&
      !(h.group == 4588 || h.group == 25497 || h.group == 25498 || isGreaseU16 h.group))) &&
  (h.group != 0 || h.cookie.isSome) &&
  !c.pskInUse && !c.realECH && c.exts.any isKeyShare

/-- a Firefox-like offer: ffdhe2048 (256) listed, shares for x25519 only. -/
def ffdheClient : Client :=
  { exClient with exts := [supportedVersions [0x0304, 0x0303], supportedCurves [29, 23, 256],
                            keyShare [(29, List.replicate 32 1)], sigAlgs [0x0403], padding 0 false] }

/-- **negation of the full statement, by witness**: ffdhe2048 is listed without a share and selected —
the client answers with alert internal_error and sends no second ClientHello. Replayed on the real
code by `corpus/C17/regress.case` (`hrr id=Firefox-120 … mut=ffdhe`). -/
theorem hrr_diff_full_false :
    ¬ (∀ (c : Client) (h : SH) (fresh : Bytes) (idx : Nat), validHRRFull c h = true →
        ∃ exts' raw2, hrrStepAt c h fresh idx = .sent exts' raw2) := by
  intro hall
  obtain ⟨e, r, he⟩ := hall ffdheClient { exHRR with group := 256 } [] 0 (by decide)
  have : hrrStepAt ffdheClient { exHRR with group := 256 } [] 0 = .abort alertInternalError "unsupported-curve" := by decide
  rw [this] at he
  cases he

end C17
