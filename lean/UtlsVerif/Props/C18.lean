import UtlsVerif.KeyShareLemmas
import UtlsVerif.Gen.KeyShareFacts
/-!
# C18 — key shares are fresh, correctly sized, and backed by the matching private key

Over the `KeyShare` model (the key-share loop of `ApplyPreset`, its private-key bookkeeping and its
reads of `Config.Rand`), for **every** spec (any list of key-share entries: GREASE, caller-supplied,
generated; any groups), QUIC or not, any GREASE group:

* `share_sizes` — the hello carries one key share per spec entry; a generated entry keeps its group and gets
  a public key of exactly the size its group requires; `size_table` / `size_table_is_code`: X25519 32,
  P-256 65, P-384 97, P-521 133, X25519MLKEM768 and X25519Kyber768Draft00 1216, and these six groups are
  exactly the ones the working tree's `ApplyPreset` can generate a share for (regenerated table).
* `retained_all` — every generated share's private key(s) are in the key set (shared with C10, where it is
  turned into "whichever offered share a compliant server selects, the handshake is accepted").
* `reapply_keeps_keys` — applying the preset a second time to the same spec objects
  (`BuildHandshakeStateWithoutSession`, then `BuildHandshakeState` / `Handshake`) regenerates nothing and, **with
  the D12 repair** (an existing key set is kept), leaves every generated share retained.
  **This depends on the repair of D12, which is made by the C20 work package**; on a tree without it
  the statement is false — `reapply_loses_keys_witness` — and the driver reports the lost keys
  (open finding `build-twice`). Which of the two holds for the working tree is the regenerated fact
  `Gen.KeyShareFacts.reapplyKeepsKeys`.
* `quic_empty_session_id` — a QUIC client never reads a session id from `Config.Rand` and sends an empty
  legacy_session_id; every other client sends 32 bytes read for that purpose.
* `material_from_rand` — ClientHello random, session id, GREASE seed and the seed(s) of every generated key
  are **disjoint** reads of `Config.Rand` (pairwise disjoint ranges of the stream, no piece of material read
  twice, every generated share has its own reads), and each piece is a function of the bytes in its own
  range only (`material_depends_on_its_range`). This is the functional form of "fresh": with independent
  random bytes per connection nothing repeats; uniqueness across connections itself is a property of the
  entropy source and is measured (`c18_fresh`).
* `fingerprint_regenerates` — the spec the Fingerprinter makes of a captured hello drops the captured key of
  every non-GREASE share (classical or hybrid): all of them are generated anew per connection.
* `material_chunking_irrelevant` — all of it is read with `io.ReadFull`: over a reader that serves the stream
  in arbitrary chunks (one byte per Read, short reads, empty reads) the material is the consecutive slices
  of the concatenated stream and exactly the model's number of bytes is consumed; `single_read_witness`
  shows what a bare `Read` would leave.
-/
namespace C18
open KeyShare Negotiate

/-- the size table of the property text. -/
theorem size_table :
    shareSize 29 = some 32 ∧ shareSize 23 = some 65 ∧ shareSize 24 = some 97 ∧ shareSize 25 = some 133 ∧
    shareSize x25519MLKEM768 = some 1216 ∧ shareSize x25519Kyber768Draft00 = some 1216 := by decide

/-- the groups with a size are exactly the groups the code can generate a key share for, with exactly the
lengths it generates (`Gen.KeyShareFacts.generable`: `ApplyPreset` run on a one-share spec for each of the
65 536 group ids of the working tree). -/
theorem size_table_is_code (g n : Nat) : shareSize g = some n ↔ (g, n) ∈ Gen.KeyShareFacts.generable := by
  have hgen : Gen.KeyShareFacts.generable = [(23, 65), (24, 97), (25, 133), (29, 32), (4588, 1216), (25497, 1216)] := by decide
  rw [hgen]
  constructor
  · intro h
    unfold shareSize at h
    split at h
    · rename_i hg; cases h; have : g = 29 := by simpa using hg
      subst this; decide
    · split at h
      · rename_i hg; cases h; have : g = 23 := by simpa using hg
        subst this; decide
      · split at h
        · rename_i hg; cases h; have : g = 24 := by simpa using hg
          subst this; decide
        · split at h
          · rename_i hg; cases h; have : g = 25 := by simpa using hg
            subst this; decide
          · split at h
            · rename_i hg; cases h
              simp only [Bool.or_eq_true, beq_iff_eq] at hg
              rcases hg with hg | hg <;> subst hg <;> decide
            · cases h
  · intro h
    simp only [List.mem_cons, Prod.mk.injEq, List.not_mem_nil, or_false] at h
    rcases h with ⟨rfl, rfl⟩ | ⟨rfl, rfl⟩ | ⟨rfl, rfl⟩ | ⟨rfl, rfl⟩ | ⟨rfl, rfl⟩ | ⟨rfl, rfl⟩ <;> decide

/-- **Sizes.** The hello carries one key share per entry of the spec, in order. An entry the loop generates
(neither GREASE nor supplied with data) keeps its group and carries a public key of the size `shareSize`
gives for that group; a GREASE entry carries the connection's GREASE group and its original data; a
caller-supplied entry is left alone. -/
theorem share_sizes (quic : Bool) (gg : Nat) (keep : Bool) (prev : Option Keys) (spec : List SpecShare) (out : Out)
    (h : applyPreset quic gg keep prev spec = some out) :
    out.wire.length = spec.length ∧
    ∀ k (h1 : k < spec.length) (h2 : k < out.wire.length),
      (generated spec[k] = true → out.wire[k].1 = spec[k].group ∧ shareSize spec[k].group = some out.wire[k].2) ∧
      (Grease.isGrease spec[k].group = true → out.wire[k] = (gg, spec[k].dataLen)) ∧
      (Grease.isGrease spec[k].group = false → spec[k].dataLen > 1 → out.wire[k] = (spec[k].group, spec[k].dataLen)) := by
  unfold applyPreset at h
  simp only [Option.map_eq_some_iff] at h
  obtain ⟨st, hl, hout⟩ := h
  obtain ⟨ws, hws, hw⟩ := loop_wire spec _ st 0 hl
  subst hout
  simp only [List.nil_append] at hw
  subst hw
  obtain ⟨hlen, hk⟩ := mapM_index (shareWire gg) spec st.wire hws
  refine ⟨hlen, ?_⟩
  intro k h1 h2
  have hsw' : shareWire gg spec[k] = some st.wire[k] := hk k h1 h2
  show (generated spec[k] = true → st.wire[k].1 = spec[k].group ∧ shareSize spec[k].group = some st.wire[k].2) ∧
    (Grease.isGrease spec[k].group = true → st.wire[k] = (gg, spec[k].dataLen)) ∧
    (Grease.isGrease spec[k].group = false → spec[k].dataLen > 1 → st.wire[k] = (spec[k].group, spec[k].dataLen))
  unfold shareWire at hsw'
  refine ⟨?_, ?_, ?_⟩
  · intro hgen
    simp only [generated, Bool.and_eq_true, Bool.not_eq_true', decide_eq_true_eq] at hgen
    rw [if_neg (by simp [hgen.1]), if_neg (by omega)] at hsw'
    cases hsz : shareSize spec[k].group with
    | none => rw [hsz] at hsw'; cases hsw'
    | some n =>
      rw [hsz] at hsw'
      simp only [Option.map_some, Option.some.injEq] at hsw'
      rw [← hsw']; exact ⟨rfl, rfl⟩
  · intro hgr
    rw [if_pos hgr] at hsw'
    exact (Option.some.inj hsw').symm
  · intro hgr hd
    rw [if_neg (by simp [hgr]), if_pos hd] at hsw'
    exact (Option.some.inj hsw').symm

/-- **Every generated key share is backed by its private key**: after the first application of a preset
the key set retains the private key(s) of every share the loop generated — the ECDH key of a classical
share, the X25519 key and the ML-KEM decapsulation key of a hybrid one — whatever the position of the
share in the list (the first classical one, a later one, a hybrid one). -/
theorem retained_all (quic : Bool) (gg : Nat) (keep : Bool) (spec : List SpecShare) (out : Out)
    (h : applyPreset quic gg keep none spec = some out) :
    ∀ s ∈ spec, generated s = true → out.keys.retains s.group = true := by
  unfold applyPreset at h
  simp only [Option.map_eq_some_iff] at h
  obtain ⟨st, hl, hout⟩ := h
  obtain ⟨wf, _, hgen, _⟩ := loop_keys spec _ st 0 hl wf_empty (by intro h; cases h)
  intro s hs hg
  obtain ⟨hmem, _⟩ := hgen s hs hg
  subst hout
  show st.keys.retains s.group = true
  unfold Keys.retains
  rw [contains_nat.mpr hmem, Bool.true_and]
  by_cases hy : isHybrid s.group = true
  · simp only [hy, Bool.not_true, Bool.false_or]; exact contains_nat.mpr (wf _ hmem hy)
  · have : isHybrid s.group = false := by simpa using hy
    simp only [this, Bool.not_false, Bool.true_or]

/-- **A second application keeps the keys (given the D12 repair).** When the preset is applied again to the
same spec objects — their shares now carry what the first application marshalled — with a key set that
is kept (`keepKeys = true`), nothing is regenerated, `Config.Rand` is not read for any key, the key set is
the one the first application left, and every generated share is still retained. -/
theorem reapply_keeps_keys (quic : Bool) (gg1 gg2 : Nat) (keep : Bool) (spec : List SpecShare) (out1 out2 : Out)
    (hgg : Grease.isGrease gg1 = true)
    (h1 : applyPreset quic gg1 keep none spec = some out1)
    (h2 : applyPreset quic gg2 true (some out1.keys) (specAfter out1) = some out2) :
    out2.keys = out1.keys ∧ (∀ m ∈ out2.reads, ∀ i, m.1 ≠ .ecdhe i ∧ m.1 ≠ .mlkem i) ∧
    ∀ s ∈ spec, generated s = true → out2.keys.retains s.group = true := by
  have hret := retained_all quic gg1 keep spec out1 h1
  -- nothing of the refilled spec is generated again
  have hng : ∀ s ∈ specAfter out1, generated s = false := by
    unfold applyPreset at h1
    simp only [Option.map_eq_some_iff] at h1
    obtain ⟨st, hl, hout⟩ := h1
    obtain ⟨ws, hws, hw⟩ := loop_wire spec _ st 0 hl
    simp only [List.nil_append] at hw
    obtain ⟨hlen, hk⟩ := mapM_index (shareWire gg1) spec ws hws
    intro s hs
    subst hout
    simp only [specAfter, List.mem_map] at hs
    obtain ⟨w, hwm, rfl⟩ := hs
    have hwm' : w ∈ ws := by rw [← hw]; exact hwm
    obtain ⟨k, hkl, rfl⟩ := List.getElem_of_mem hwm'
    exact shareWire_not_generated hgg (hk k (by omega) hkl)
  unfold applyPreset at h2
  simp only [Option.map_eq_some_iff] at h2
  obtain ⟨st2, hl2, hout2⟩ := h2
  obtain ⟨hk2, hr2⟩ := loop_no_gen (specAfter out1) _ st2 0 hl2 hng
  subst hout2
  refine ⟨hk2, ?_, ?_⟩
  · intro m hm i
    have hm' : m ∈ st2.reads := hm
    rw [hr2] at hm'
    exact (preReads_facts quic).2.1 m hm' i
  · intro s hs hg
    show st2.keys.retains s.group = true
    rw [hk2]; exact hret s hs hg

/-- **D12 witness** (the statement is false without the repair): Firefox-like shares X25519 + P-256; the
second application resets the key set (`keepKeys = false`) while the shares are kept — no private key is
left for either share. Replayed on the real code by `c18_reapply`. -/
theorem reapply_loses_keys_witness :
    ∃ (spec : List SpecShare) (out1 out2 : Out),
      applyPreset false 0x3a3a false none spec = some out1 ∧
      applyPreset false 0x4a4a false (some out1.keys) (specAfter out1) = some out2 ∧
      out2.wire = out1.wire ∧ ∃ s ∈ spec, generated s = true ∧ out2.keys.retains s.group = false :=
  ⟨[⟨29, 0⟩, ⟨23, 0⟩], _, _, rfl, rfl, by decide, ⟨29, 0⟩, by decide, by decide, by decide⟩

/-- **QUIC sends an empty legacy_session_id**: a QUIC client reads no session id from `Config.Rand` and
the hello's session id is empty; every other client sends the 32 bytes it read for it. -/
theorem quic_empty_session_id (quic : Bool) (gg : Nat) (keep : Bool) (prev : Option Keys) (spec : List SpecShare) (out : Out)
    (h : applyPreset quic gg keep prev spec = some out) :
    (quic = true → out.sessionIdLen = 0 ∧ ∀ m ∈ out.reads, m.1 ≠ .sessionId ∧ m.1 ≠ .sessionId0) ∧
    (quic = false → out.sessionIdLen = 32 ∧ (Material.sessionId, 32) ∈ out.reads) := by
  unfold applyPreset at h
  simp only [Option.map_eq_some_iff] at h
  obtain ⟨st, hl, hout⟩ := h
  obtain ⟨extra, hr, _, hk, _⟩ := loop_reads spec _ st 0 hl
  subst hout
  obtain ⟨_, _, _, _, hq1, hq2⟩ := preReads_facts quic
  constructor
  · intro hq
    refine ⟨by simp [hq], ?_⟩
    intro m hm
    have hm' : m ∈ st.reads := hm
    rw [hr] at hm'
    simp only [List.mem_append] at hm'
    rcases hm' with hm' | hm'
    · exact hq1 hq m hm'
    · obtain ⟨j, _, hj⟩ := hk m hm'
      rcases hj with hj | hj <;> rw [hj] <;> exact ⟨(by intro h; cases h), (by intro h; cases h)⟩
  · intro hq
    refine ⟨by simp [hq], ?_⟩
    show (Material.sessionId, 32) ∈ st.reads
    rw [hr]
    exact List.mem_append.mpr (Or.inl (hq2 hq))

/-- **Material comes from disjoint reads of `Config.Rand`.** The reads occupy pairwise disjoint, ordered
ranges of the stream; no piece of material is read twice; the ClientHello random and the GREASE seed are
always among them; and every generated share has an ECDH-seed read of its own, a hybrid share an ML-KEM-seed
read as well. -/
theorem material_from_rand (quic : Bool) (gg : Nat) (keep : Bool) (prev : Option Keys) (spec : List SpecShare) (out : Out)
    (h : applyPreset quic gg keep prev spec = some out) :
    (ranges 0 out.reads).Pairwise (fun a b => a.2.1 + a.2.2 ≤ b.2.1) ∧
    (out.reads.map (·.1)).Nodup ∧
    (Material.random, 32) ∈ out.reads ∧ (Material.grease, 10) ∈ out.reads ∧
    ∀ k (hk : k < spec.length), generated spec[k] = true →
      (.ecdhe k) ∈ out.reads.map (·.1) ∧ (isHybrid spec[k].group = true → (.mlkem k) ∈ out.reads.map (·.1)) := by
  unfold applyPreset at h
  simp only [Option.map_eq_some_iff] at h
  obtain ⟨st, hl, hout⟩ := h
  obtain ⟨extra, hr, hnd, hk, hg⟩ := loop_reads spec _ st 0 hl
  subst hout
  obtain ⟨pnd, pkey, prand, pgrease, _, _⟩ := preReads_facts quic
  refine ⟨ranges_disjoint _ 0, ?_, ?_, ?_, ?_⟩
  · show (st.reads.map (·.1)).Nodup
    rw [hr, List.map_append, List.nodup_append]
    refine ⟨pnd, hnd, ?_⟩
    intro a ha b hb hab
    subst hab
    obtain ⟨m, hm, e⟩ := List.mem_map.mp hb
    obtain ⟨m0, hm0, e0⟩ := List.mem_map.mp ha
    obtain ⟨j, _, hj⟩ := hk m hm
    rw [e, ← e0] at hj
    rcases hj with hj | hj
    · exact (pkey m0 hm0 j).1 hj
    · exact (pkey m0 hm0 j).2 hj
  · show (Material.random, 32) ∈ st.reads
    rw [hr]; exact List.mem_append.mpr (Or.inl prand)
  · show (Material.grease, 10) ∈ st.reads
    rw [hr]; exact List.mem_append.mpr (Or.inl pgrease)
  · intro k hkl hgen
    obtain ⟨a, b⟩ := hg k hkl hgen
    simp only [Nat.zero_add] at a b
    show (.ecdhe k) ∈ st.reads.map (·.1) ∧ _
    rw [hr, List.map_append]
    exact ⟨List.mem_append.mpr (Or.inr a), fun hy => List.mem_append.mpr (Or.inr (b hy))⟩

/-- each piece of material is a function of the bytes in its own range: two streams that agree there give the
same random / session id / key seed. -/
theorem material_depends_on_its_range (s1 s2 : Wire.Bytes) (off len : Nat)
    (h : ∀ i, off ≤ i → i < off + len → s1[i]? = s2[i]?) : slice s1 off len = slice s2 off len :=
  slice_congr s1 s2 off len h

/-- **A fingerprinted hello replays no key share.** Whatever key shares the captured ClientHello carried —
classical, hybrid, groups the library cannot generate — the spec made of it holds no captured key for any
non-GREASE entry: each such entry is one `ApplyPreset` generates (so `share_sizes`, `retained_all` and
`material_from_rand` apply to it: fresh key, right size, private key retained), or one for which
`ApplyPreset` fails; it never goes on the wire with the captured bytes. -/
theorem fingerprint_regenerates (wire : List (Nat × Nat)) :
    (fingerprintShares wire).length = wire.length ∧
    ∀ s ∈ fingerprintShares wire, Grease.isGrease s.group = false → generated s = true ∧ s.dataLen = 0 := by
  refine ⟨by simp [fingerprintShares], ?_⟩
  intro s hs hg
  simp only [fingerprintShares, List.mem_map] at hs
  obtain ⟨⟨g, n⟩, _, rfl⟩ := hs
  by_cases hgr : Grease.isGrease g = true
  · simp only [hgr, if_true] at hg
    exact absurd hg (by decide)
  · have hgf : Grease.isGrease g = false := by simpa using hgr
    simp only [hgf, Bool.false_eq_true, if_false]
    simp [generated, hgf]

/-- **Chunking is irrelevant.** Every piece of material is read with `io.ReadFull`; over a reader that hands
the stream out in arbitrary chunks (short reads, one byte per `Read`, empty reads) the logical reads of an
application are exactly the consecutive slices of the *concatenated* stream with the model's lengths: the
material is a function of the concatenated stream only, and exactly `Σ lengths` bytes are consumed. Two
readers serving the same stream in different chunks therefore produce the same random, session id, GREASE
seed and key seeds. -/
theorem material_chunking_irrelevant (cs1 cs2 : List Wire.Bytes) (lens : List Nat) (m1 m2 : List Wire.Bytes)
    (hsame : cs1.flatten = cs2.flatten)
    (h1 : readAll cs1 lens = some m1) (h2 : readAll cs2 lens = some m2) :
    m1 = slices cs1.flatten lens ∧ m1 = m2 := by
  have e1 := readAll_slices lens cs1 m1 h1
  have e2 := readAll_slices lens cs2 m2 h2
  refine ⟨e1, ?_⟩
  rw [e1, e2, hsame]

/-- what goes wrong without `io.ReadFull` (replayed on the real code by the reader disciplines of
`c18_shares`): a single `Read` of a 64-byte seed from a reader that serves one byte at a time leaves 63
zero bytes — not the first 64 bytes of the stream. -/
theorem single_read_witness :
    ∃ cs : List Wire.Bytes, readOnce cs 4 ≠ cs.flatten.take 4 ∧ (readFull cs 4).map (·.1) = some (cs.flatten.take 4) :=
  ⟨[[7], [8], [], [9], [10], [11]], by decide, by decide⟩

/-! ## non-vacuity -/

/-- a Chrome-131-like key-share list: GREASE (1 byte of data), X25519MLKEM768, X25519; and Firefox's. -/
def chromeSpec : List SpecShare := [⟨0x0a0a, 1⟩, ⟨4588, 0⟩, ⟨29, 0⟩]
def firefoxSpec : List SpecShare := [⟨29, 0⟩, ⟨23, 0⟩]

example : (applyPreset false 0x3a3a false none chromeSpec).map (·.wire) = some [(0x3a3a, 1), (4588, 1216), (29, 32)] := by decide
example : (applyPreset false 0x3a3a false none firefoxSpec).map (·.keys) =
    some { ecdhe := 29, mlkem := false, mlkemEcdhe := false, ecdheKeys := [29, 23], mlkemKeys := [] } := by decide
example : (applyPreset false 0x3a3a false none chromeSpec).map (·.reads) =
    some [(.random, 32), (.sessionId0, 32), (.grease, 10), (.sessionId, 32), (.ecdhe 1, 32), (.mlkem 1, 64), (.ecdhe 2, 32)] := by decide
example : (applyPreset true 0x3a3a false none chromeSpec).map (·.sessionIdLen) = some 0 := by decide
/-- hypotheses of `reapply_keeps_keys` are satisfiable: the second application succeeds and keeps the keys. -/
example : ∃ out1 out2, applyPreset false 0x3a3a false none firefoxSpec = some out1 ∧
    applyPreset false 0x4a4a true (some out1.keys) (specAfter out1) = some out2 ∧ out2.keys.retains 23 = true :=
  ⟨_, _, rfl, rfl, by decide⟩
/-- a group the library cannot generate makes `ApplyPreset` fail (no hello at all). -/
example : applyPreset false 0x3a3a false none [⟨30, 0⟩] = none := by decide
/-- a captured Chrome-131 hello (GREASE, X25519MLKEM768 1216 bytes, X25519): the fingerprinted spec regenerates both. -/
example : fingerprintShares [(0x3a3a, 1), (4588, 1216), (29, 32)] = [⟨0x0a0a, 1⟩, ⟨4588, 0⟩, ⟨29, 0⟩] := by decide
/-- hypotheses of `material_chunking_irrelevant`: the same six bytes served as 1+1+0+4 and as 3+3. -/
example : readAll [[1], [2], [], [3, 4, 5, 6]] [2, 3] = some [[1, 2], [3, 4, 5]] ∧
    readAll [[1, 2, 3], [4, 5, 6]] [2, 3] = some [[1, 2], [3, 4, 5]] := by decide

end C18
