import UtlsVerif.Resume
import UtlsVerif.ExtLemmas
/-!
# C19 — session resumption works and never breaks the next handshake

Over the model of `Resume.lean` (transcription of `loadSession`, `uLoadSession`, the extension
block of `MarshalClientHelloNoECH`, `PatchBuiltHello`/`uApplyPatch`, the PSK part of
`processHelloRetryRequest`, and one connection against crypto/tls's server):

* `guards12_iff`, `guards13_iff`, `load12_iff`, `load13_iff` — `loadSession` returns a session **iff** every
  guard holds (tickets enabled, cache hit under the cache key, version offered, certificate time unless
  `InsecureSkipTimeVerify`, verified chains and name check unless `InsecureSkipVerify`, suite / hash
  offered, `useBy`, EMS); `ticket12_iff`, `psk13_iff` — what a parrot / HelloGolang puts on the wire;
* `resume_offered_ticket`, `resume_offered_psk` — cache hit under the configured server name ∧ matching
  extension in the spec ∧ guards ⇒ the ticket / identity is on the wire, pre_shared_key is last
  (`psk_is_last`), the binder patch succeeds with `|Raw|` unchanged (`patch_ok`,
  `patch_never_changes_length`) and the server's binder check passes (`binder_verifies`,
  `binder_verifies_after_hrr`; `unpatched_binder_rejected` shows the check is not vacuous);
* `no_ems_downgrade`, `expired_not_offered`, `name_scoped`, `name_checked`, `offered_from_cache_key`,
  `offered_only_with_extension`, `server_never_aborts`;
* `psk_survives_hrr_partial` + `psk_hrr_breaks` + `psk_hrr_guard_exact`, `resumption_breaks_on_psk_hrr`
  (D11: the full statement is false of the unchanged code);
* rebuilds before `Handshake`: `binder_fresh_after_rebuild`, `sent_head_is_edited`;
* histories: `cache_origin_step`, `cache_origin_inv`, `no_cross_name_history`, `never_breaks_partial`,
  `resumes12`, `resumes13_partial`, `resumes_next_partial`.
-/
namespace C19
open Wire Resume

/-! ## `loadSession` returns a session iff every guard holds -/

/-- guards on the cached session common to both branches. -/
def SessOk (cfg : Cfg) (h : Hello) (now : Nat) (s : Session) : Prop :=
  s.version ∈ h.versions ∧
  (cfg.skipTimeVerify = true ∨ now ≤ s.certNotAfter) ∧
  (cfg.skipVerify = true ∨ (s.chains = true ∧ nameOk cfg s = true))

def Guards12 (T : Tables) (cfg : Cfg) (h : Hello) (now : Nat) (s : Session) : Prop :=
  SessOk cfg h now s ∧ s.version ≠ vTLS13 ∧ s.suite ∈ h.suites ∧ s.suite ∈ T.known12 ∧ (s.ems = true → h.ems = true)

def Guards13 (T : Tables) (cfg : Cfg) (h : Hello) (now : Nat) (s : Session) : Prop :=
  SessOk cfg h now s ∧ s.version = vTLS13 ∧ now ≤ s.useBy ∧ hashOffered T h s = true

theorem guards12_iff (T : Tables) (cfg : Cfg) (h : Hello) (now : Nat) (s s' : Session) :
    sessionGuards T cfg h now s = .sess12 s' ↔ s' = s ∧ Guards12 T cfg h now s := by
  unfold sessionGuards Guards12 SessOk
  repeat' split
  all_goals simp_all
  · intro _ _; omega
  · intro _ _ _ h1 h2; simp_all
  · cases hst : cfg.skipTimeVerify <;> cases hsv : cfg.skipVerify <;> simp_all <;> exact eq_comm


theorem guards13_iff (T : Tables) (cfg : Cfg) (h : Hello) (now : Nat) (s s' : Session) :
    sessionGuards T cfg h now s = .sess13 s' ↔ s' = s ∧ Guards13 T cfg h now s := by
  unfold sessionGuards Guards13 SessOk
  repeat' split
  all_goals simp_all
  · intro _ _; omega
  · intro _ _ _ _; omega
  · cases hst : cfg.skipTimeVerify <;> cases hsv : cfg.skipVerify <;> simp_all <;> exact eq_comm

/-- what `loadSession` checks before it looks into the cache. -/
def PreOk (cfg : Cfg) (h : Hello) : Prop :=
  cfg.ticketsDisabled = false ∧ cfg.hasCache = true ∧ h.versions ≠ [] ∧ cacheKey cfg ≠ 0

private theorem load_hit (T : Tables) (cache : Cache) (cfg : Cfg) (h : Hello) (now : Nat) (s : Session) (hp : PreOk cfg h)
    (hg : cache.get (cacheKey cfg) = some s) : loadSession T cache cfg h now = sessionGuards T cfg h now s := by
  obtain ⟨h1, h2, h3, h4⟩ := hp
  unfold loadSession
  simp [h1, h2, h3, h4, hg]

private theorem load_miss (T : Tables) (cache : Cache) (cfg : Cfg) (h : Hello) (now : Nat)
    (hg : cache.get (cacheKey cfg) = none) (hv : h.versions ≠ []) : loadSession T cache cfg h now = .none false := by
  unfold loadSession
  simp [hg, hv]

private theorem load_pre (T : Tables) (cache : Cache) (cfg : Cfg) (h : Hello) (now : Nat) (s : Session)
    (hl : loadSession T cache cfg h now = .sess12 s ∨ loadSession T cache cfg h now = .sess13 s) : PreOk cfg h := by
  unfold loadSession at hl
  unfold PreOk
  split at hl
  · simp at hl
  rename_i h1
  split at hl
  · simp at hl
  rename_i h2
  split at hl
  · simp at hl
  rename_i h3
  simp at h1 h2
  exact ⟨h1.1, h1.2, h2, h3⟩

/-- **TLS 1.2 sessions**: `loadSession` hands back the cached session iff every guard holds. -/
theorem load12_iff (T : Tables) (cache : Cache) (cfg : Cfg) (h : Hello) (now : Nat) (s : Session) :
    loadSession T cache cfg h now = .sess12 s ↔
      PreOk cfg h ∧ cache.get (cacheKey cfg) = some s ∧ Guards12 T cfg h now s := by
  constructor
  · intro hl
    have hp := load_pre T cache cfg h now s (Or.inl hl)
    cases hg : cache.get (cacheKey cfg) with
    | none => rw [load_miss T cache cfg h now hg hp.2.2.1] at hl; simp at hl
    | some s0 =>
      rw [load_hit T cache cfg h now s0 hp hg, guards12_iff] at hl
      obtain ⟨rfl, hG⟩ := hl
      exact ⟨hp, rfl, hG⟩
  · rintro ⟨hp, hg, hG⟩
    rw [load_hit T cache cfg h now s hp hg, guards12_iff]
    exact ⟨rfl, hG⟩

/-- **TLS 1.3 sessions**: likewise, with `useBy` and the KDF-hash match. -/
theorem load13_iff (T : Tables) (cache : Cache) (cfg : Cfg) (h : Hello) (now : Nat) (s : Session) :
    loadSession T cache cfg h now = .sess13 s ↔
      PreOk cfg h ∧ cache.get (cacheKey cfg) = some s ∧ Guards13 T cfg h now s := by
  constructor
  · intro hl
    have hp := load_pre T cache cfg h now s (Or.inr hl)
    cases hg : cache.get (cacheKey cfg) with
    | none => rw [load_miss T cache cfg h now hg hp.2.2.1] at hl; simp at hl
    | some s0 =>
      rw [load_hit T cache cfg h now s0 hp hg, guards13_iff] at hl
      obtain ⟨rfl, hG⟩ := hl
      exact ⟨hp, rfl, hG⟩
  · rintro ⟨hp, hg, hG⟩
    rw [load_hit T cache cfg h now s hp hg, guards13_iff]
    exact ⟨rfl, hG⟩

private theorem callsLoad_of_pre (cfg : Cfg) (h : Hello) (hp : PreOk cfg h) :
    callsLoad cfg h = (h.golang || h.hasTicketExt || h.hasPskExt) := by
  simp [callsLoad, hp.1, hp.2.1]

/-- what reaches the ClientHello as a **session ticket**: exactly a cached pre-1.3 session passing
every guard, and — for parrots — only a TLS 1.2 one and only if the spec has session_ticket. -/
theorem ticket12_iff (T : Tables) (cache : Cache) (cfg : Cfg) (h : Hello) (now : Nat) (s : Session) :
    loadDecision T cache cfg h now = .ticket12 s ↔
      PreOk cfg h ∧ cache.get (cacheKey cfg) = some s ∧ Guards12 T cfg h now s ∧
      (h.golang = true ∨ (s.version = vTLS12 ∧ h.hasTicketExt = true)) := by
  constructor
  · intro hd
    unfold loadDecision at hd
    split at hd
    · simp at hd
    rename_i hc
    split at hd
    · simp at hd
    · simp at hd
    · rename_i s0 hl
      have h12 := (load12_iff T cache cfg h now s0).1 hl
      split at hd
      · rename_i hg
        simp at hd; subst hd
        exact ⟨h12.1, h12.2.1, h12.2.2, Or.inl hg⟩
      · split at hd
        · rename_i hv
          split at hd
          · rename_i ht
            simp at hd; subst hd
            exact ⟨h12.1, h12.2.1, h12.2.2, Or.inr ⟨hv, ht⟩⟩
          · split at hd <;> simp at hd
        · split at hd
          · simp at hd
          · split at hd <;> simp at hd
    · split at hd
      · simp at hd
      · split at hd <;> simp at hd
  · rintro ⟨hp, hg, hG, hx⟩
    have hl := (load12_iff T cache cfg h now s).2 ⟨hp, hg, hG⟩
    unfold loadDecision
    rw [callsLoad_of_pre cfg h hp, hl]
    rcases hx with hgo | ⟨hv, ht⟩
    · simp [hgo]
    · cases hgo : h.golang <;> simp [hv, ht]

/-- what reaches the ClientHello as a **PSK identity**: exactly a cached TLS 1.3 session passing
every guard, and — for parrots — only if the spec has pre_shared_key. -/
theorem psk13_iff (T : Tables) (cache : Cache) (cfg : Cfg) (h : Hello) (now : Nat) (s : Session) :
    loadDecision T cache cfg h now = .psk13 s ↔
      PreOk cfg h ∧ cache.get (cacheKey cfg) = some s ∧ Guards13 T cfg h now s ∧
      (h.golang = true ∨ h.hasPskExt = true) := by
  constructor
  · intro hd
    unfold loadDecision at hd
    split at hd
    · simp at hd
    split at hd
    · simp at hd
    · simp at hd
    · split at hd
      · simp at hd
      · split at hd
        · split at hd
          · simp at hd
          · split at hd <;> simp at hd
        · split at hd
          · simp at hd
          · split at hd <;> simp at hd
    · rename_i s0 hl
      have h13 := (load13_iff T cache cfg h now s0).1 hl
      split at hd
      · rename_i hx
        simp at hd; subst hd
        exact ⟨h13.1, h13.2.1, h13.2.2, by simpa using hx⟩
      · split at hd <;> simp at hd
  · rintro ⟨hp, hg, hG, hx⟩
    have hl := (load13_iff T cache cfg h now s).2 ⟨hp, hg, hG⟩
    unfold loadDecision
    rw [callsLoad_of_pre cfg h hp, hl]
    rcases hx with hgo | hpk
    · simp [hgo]
    · cases hgo : h.golang <;> simp [hpk]

/-! ## Consequences: what is never offered -/

/-- **no EMS downgrade**: an extended-master-secret session is offered only by a hello that carries
extended_master_secret (D13, repaired: before the fix the uTLS path offered it regardless). -/
theorem no_ems_downgrade (T : Tables) (cache : Cache) (cfg : Cfg) (h : Hello) (now : Nat) (s : Session)
    (hd : loadDecision T cache cfg h now = .ticket12 s) (he : s.ems = true) : h.ems = true :=
  ((ticket12_iff T cache cfg h now s).1 hd).2.2.1.2.2.2.2 he

/-- **expired tickets / certificates are not offered**: a PSK identity is within `useBy`; any offered
session's certificate is unexpired unless `InsecureSkipTimeVerify`. -/
theorem expired_not_offered (T : Tables) (cache : Cache) (cfg : Cfg) (h : Hello) (now : Nat) (s : Session) :
    (loadDecision T cache cfg h now = .psk13 s → now ≤ s.useBy) ∧
    (offeredSession (loadDecision T cache cfg h now) = some s → cfg.skipTimeVerify = true ∨ now ≤ s.certNotAfter) := by
  refine ⟨fun hd => ((psk13_iff T cache cfg h now s).1 hd).2.2.1.2.2.1, fun ho => ?_⟩
  cases hd : loadDecision T cache cfg h now with
  | ticket12 s0 =>
    rw [hd] at ho; simp [offeredSession] at ho; subst ho
    exact ((ticket12_iff T cache cfg h now s0).1 hd).2.2.1.1.2.1
  | psk13 s0 =>
    rw [hd] at ho; simp [offeredSession] at ho; subst ho
    exact ((psk13_iff T cache cfg h now s0).1 hd).2.2.1.1.2.1
  | none => rw [hd] at ho; simp [offeredSession] at ho
  | assertNoExt => rw [hd] at ho; simp [offeredSession] at ho
  | panicIndex => rw [hd] at ho; simp [offeredSession] at ho

/-- an offered session is the cache's entry under the connection's cache key. -/
theorem offered_from_cache_key (T : Tables) (cache : Cache) (cfg : Cfg) (h : Hello) (now : Nat) (s : Session)
    (ho : offeredSession (loadDecision T cache cfg h now) = some s) :
    cache.get (cacheKey cfg) = some s ∧ cacheKey cfg ≠ 0 := by
  cases hd : loadDecision T cache cfg h now with
  | ticket12 s0 =>
    rw [hd] at ho; simp [offeredSession] at ho; subst ho
    have := (ticket12_iff T cache cfg h now s0).1 hd
    exact ⟨this.2.1, this.1.2.2.2⟩
  | psk13 s0 =>
    rw [hd] at ho; simp [offeredSession] at ho; subst ho
    have := (psk13_iff T cache cfg h now s0).1 hd
    exact ⟨this.2.1, this.1.2.2.2⟩
  | none => rw [hd] at ho; simp [offeredSession] at ho
  | assertNoExt => rw [hd] at ho; simp [offeredSession] at ho
  | panicIndex => rw [hd] at ho; simp [offeredSession] at ho

/-- **name scoped**: the cache key is the configured server name whenever one is configured, so
whatever is offered was looked up under that name (and only the remote address otherwise). -/
theorem name_scoped (T : Tables) (cache : Cache) (cfg : Cfg) (h : Hello) (now : Nat) (s : Session)
    (hn : cfg.serverName ≠ 0) (ho : offeredSession (loadDecision T cache cfg h now) = some s) :
    cacheKey cfg = cfg.serverName ∧ cache.get cfg.serverName = some s := by
  have hk : cacheKey cfg = cfg.serverName := by simp [cacheKey, hn]
  exact ⟨hk, hk ▸ (offered_from_cache_key T cache cfg h now s ho).1⟩

/-- **name checked** (defence against a faulty cache): unless `InsecureSkipVerify`, the offered
session has verified chains and its certificate is valid for the name being verified. -/
theorem name_checked (T : Tables) (cache : Cache) (cfg : Cfg) (h : Hello) (now : Nat) (s : Session)
    (hv : cfg.skipVerify = false) (ho : offeredSession (loadDecision T cache cfg h now) = some s) :
    s.chains = true ∧ ∀ n, dnsName cfg = some n → n ∈ s.validFor := by
  have key : SessOk cfg h now s := by
    cases hd : loadDecision T cache cfg h now with
    | ticket12 s0 =>
      rw [hd] at ho; simp [offeredSession] at ho; subst ho
      exact ((ticket12_iff T cache cfg h now s0).1 hd).2.2.1.1
    | psk13 s0 =>
      rw [hd] at ho; simp [offeredSession] at ho; subst ho
      exact ((psk13_iff T cache cfg h now s0).1 hd).2.2.1.1
    | none => rw [hd] at ho; simp [offeredSession] at ho
    | assertNoExt => rw [hd] at ho; simp [offeredSession] at ho
    | panicIndex => rw [hd] at ho; simp [offeredSession] at ho
  rcases key.2.2 with h1 | ⟨h1, h2⟩
  · rw [hv] at h1; cases h1
  · refine ⟨h1, fun n hn => ?_⟩
    unfold nameOk at h2
    rw [hn] at h2
    simpa using h2

/-- a parrot offers a ticket only if its spec has session_ticket, an identity only if it has
pre_shared_key; nothing at all when tickets are disabled or there is no cache. -/
theorem offered_only_with_extension (T : Tables) (cache : Cache) (cfg : Cfg) (h : Hello) (now : Nat) (s : Session)
    (hg : h.golang = false) :
    (loadDecision T cache cfg h now = .ticket12 s → h.hasTicketExt = true ∧ s.version = vTLS12) ∧
    (loadDecision T cache cfg h now = .psk13 s → h.hasPskExt = true ∧ s.version = vTLS13) ∧
    (offeredSession (loadDecision T cache cfg h now) = some s → cfg.ticketsDisabled = false ∧ cfg.hasCache = true) := by
  refine ⟨fun hd => ?_, fun hd => ?_, fun ho => ?_⟩
  · rcases ((ticket12_iff T cache cfg h now s).1 hd).2.2.2 with h1 | ⟨h1, h2⟩
    · rw [hg] at h1; cases h1
    · exact ⟨h2, h1⟩
  · have := (psk13_iff T cache cfg h now s).1 hd
    rcases this.2.2.2 with h1 | h1
    · rw [hg] at h1; cases h1
    · exact ⟨h1, this.2.2.1.2.1⟩
  · cases hd : loadDecision T cache cfg h now with
    | ticket12 s0 => exact ⟨((ticket12_iff T cache cfg h now s0).1 hd).1.1, ((ticket12_iff T cache cfg h now s0).1 hd).1.2.1⟩
    | psk13 s0 => exact ⟨((psk13_iff T cache cfg h now s0).1 hd).1.1, ((psk13_iff T cache cfg h now s0).1 hd).1.2.1⟩
    | none => rw [hd] at ho; simp [offeredSession] at ho
    | assertNoExt => rw [hd] at ho; simp [offeredSession] at ho
    | panicIndex => rw [hd] at ho; simp [offeredSession] at ho

/-! ## On the wire: ticket, identity, PSK last -/

private theorem marshalExts_append (d : Decision) (now hs : Nat) (a b : List SpecExt) :
    marshalExts d now hs (a ++ b) = marshalExts d now hs a ++ marshalExts d now hs b := by
  simp [marshalExts]

/-- the session_ticket extension of the spec carries exactly the offered ticket. -/
theorem wire_has_ticket (s : Session) (now hs : Nat) (front back : List SpecExt) :
    marshalExts (.ticket12 s) now hs (front ++ [.sessionTicket] ++ back) =
      marshalExts (.ticket12 s) now hs front ++ (u16 35 ++ u16 s.ticket.length ++ s.ticket) ++
        marshalExts (.ticket12 s) now hs back := by
  rw [marshalExts_append, marshalExts_append]
  simp [marshalExts, extBytes, ticketExt]

private theorem psk_split (spec : List SpecExt) (hl : pskOnlyLast spec = true) (hm : SpecExt.psk ∈ spec) :
    spec = spec.dropLast ++ [.psk] := by
  have hne : spec ≠ [] := by intro h; rw [h] at hm; cases hm
  have hd := List.dropLast_concat_getLast hne
  have hnot : SpecExt.psk ∉ spec.dropLast := by
    simpa [pskOnlyLast] using hl
  have hlast : spec.getLast hne = .psk := by
    rw [← hd] at hm
    rcases List.mem_append.1 hm with h1 | h1
    · exact absurd h1 hnot
    · exact (List.mem_singleton.1 h1).symm
  rw [hlast] at hd
  exact hd.symm

/-- **pre_shared_key is the last extension** and carries the cached ticket as its single identity,
with the obfuscated age and a zero placeholder binder of the suite's hash size: for every spec that
passes `syncSessionExts` (PSK only in last position). -/
theorem psk_is_last (s : Session) (now hs : Nat) (spec : List SpecExt)
    (hl : pskOnlyLast spec = true) (hm : SpecExt.psk ∈ spec) :
    marshalExts (.psk13 s) now hs spec =
      marshalExts (.psk13 s) now hs spec.dropLast ++ pskExt [(s.ticket, obfuscatedAge s now)] [zeros hs] ∧
    SpecExt.psk ∉ spec.dropLast := by
  have hs' := psk_split spec hl hm
  refine ⟨?_, by simpa [pskOnlyLast] using hl⟩
  conv => lhs; rw [hs']
  rw [marshalExts_append]
  simp [marshalExts, extBytes]

/-- no PSK bytes at all when nothing (or a TLS 1.2 ticket) is offered: the extension is omitted. -/
theorem psk_omitted (d : Decision) (now hs : Nat) (hd : ∀ s, d ≠ .psk13 s) :
    extBytes d now hs .psk = [] := by
  cases d <;> simp [extBytes] at *

private theorem pskExtLen_single (label : Bytes) (age : Nat) (bnd : Bytes) :
    pskExtLen [(label, age)] [bnd] = 4 + 2 + (2 + label.length + 4) + 2 + (1 + bnd.length) := by
  simp [pskExtLen, Ext.pskExtLen, Ext.identitiesLen, Ext.vec8sLen]

/-- the bytes written for the extension are exactly `pskExtLen` long (what `Len()` told the marshaller). -/
theorem pskExt_length (label : Bytes) (age : Nat) (bnd : Bytes) :
    (pskExt [(label, age)] [bnd]).length = pskExtLen [(label, age)] [bnd] := by
  rw [pskExtLen_single]
  simp [pskExt, Ext.encIdentities, Ext.encVec8s, Ext.identitiesLen, Ext.vec8sLen]
  omega

/-- the marshalled extension ends with the binders block. -/
theorem pskExt_ends_with_binders (ids : List (Bytes × Nat)) (binders : List Bytes) :
    ∃ head, pskExt ids binders = head ++ bindersBlock binders := by
  refine ⟨u16 41 ++ u16 (pskExtLen ids binders - 4) ++ (u16 (Ext.identitiesLen ids) ++ Ext.encIdentities ids), ?_⟩
  simp [pskExt, bindersBlock]

/-! ## Binder patch: length unchanged, only binder bytes change, the server's check succeeds -/

private theorem bindersBlock_length (bs : List Bytes) : (bindersBlock bs).length = 2 + Ext.vec8sLen bs := by
  simp [bindersBlock]

private theorem take_head (head : Bytes) (bs : List Bytes) :
    (head ++ bindersBlock bs).take ((head ++ bindersBlock bs).length - (2 + Ext.vec8sLen bs)) = head := by
  have : (head ++ bindersBlock bs).length - (2 + Ext.vec8sLen bs) = head.length := by
    simp [bindersBlock_length]
  rw [this]; simp

/-- **patch**: for a hello that ends with the placeholder binders block (as `psk_is_last` and
`pskExt_ends_with_binders` give), and a binder function whose output has the hash size,
`PatchBuiltHello` succeeds, replaces exactly the binder, and `|Raw|` is unchanged — so the assertion
in `uApplyPatch` cannot fire. -/
theorem patch_ok (F : Bytes → Bytes) (hs : Nat) (hF : ∀ x, (F x).length = hs) (head : Bytes) :
    patchBinders F (head ++ bindersBlock [zeros hs]) [zeros hs] = .ok (head ++ bindersBlock [F head]) ∧
    (head ++ bindersBlock [F head]).length = (head ++ bindersBlock [zeros hs]).length := by
  have hlen : (head ++ bindersBlock [F head]).length = (head ++ bindersBlock [zeros hs]).length := by
    simp [bindersBlock_length, Ext.vec8sLen, hF, zeros]
  refine ⟨?_, hlen⟩
  unfold patchBinders
  simp only [take_head]
  simp [hF, zeros, hlen]

/-- a binder function of the wrong size makes the patch fail with an error instead of changing the
length (`updateBinders`' length check) — the length is never silently changed. -/
theorem patch_never_changes_length (F : Bytes → Bytes) (raw out : Bytes) (ph : List Bytes)
    (h : patchBinders F raw ph = .ok out) : out.length = raw.length := by
  unfold patchBinders at h
  dsimp only at h
  split at h
  · cases h
  · split at h
    · cases h
    · split at h
      · cases h
      · rename_i hne
        simp only [Except.ok.injEq] at h
        subst h
        simpa using hne

/-- **binder verifies**: crypto/tls's server recomputes the binder over `marshalWithoutBinders` of
what it received — the same bytes the client hashed — so the patched hello passes. Symbolic in the
binder function `F` (HMAC over the transcript hash under the binder key). -/
theorem binder_verifies (F : Bytes → Bytes) (head : Bytes) :
    serverBinderOk F (head ++ bindersBlock [F head]) [F head] = true := by
  unfold serverBinderOk
  simp only [take_head]
  simp

/-- a hello whose binder was *not* patched (still the placeholder) is rejected unless the binder
function happens to return the placeholder — the check is not vacuous. -/
theorem unpatched_binder_rejected (F : Bytes → Bytes) (hs : Nat) (head : Bytes) (hne : F head ≠ zeros hs) :
    serverBinderOk F (head ++ bindersBlock [zeros hs]) [zeros hs] = false := by
  unfold serverBinderOk
  simp only [take_head]
  simp [hne]

/-- after a HelloRetryRequest crypto/tls re-binds over `message_hash ‖ HRR ‖ truncated second hello`;
the same argument applies with the prefixed binder function. -/
theorem binder_verifies_after_hrr (G : Bytes → Bytes) (pfx head2 : Bytes) :
    serverBinderOk (fun t => G (pfx ++ t)) (head2 ++ bindersBlock [G (pfx ++ head2)]) [G (pfx ++ head2)] = true :=
  binder_verifies (fun t => G (pfx ++ t)) head2

/-! ## Rebuilds: the binder on the wire is always the binder of the bytes sent -/

private theorem patch_ok_gen (F : Bytes → Bytes) (hs : Nat) (hF : ∀ x, (F x).length = hs) (head ph : Bytes)
    (hph : ph.length = hs) :
    patchBinders F (head ++ bindersBlock [ph]) [ph] = .ok (head ++ bindersBlock [F head]) := by
  have hlen : (head ++ bindersBlock [F head]).length = (head ++ bindersBlock [ph]).length := by
    simp [bindersBlock_length, Ext.vec8sLen, hF, hph]
  unfold patchBinders
  simp only [take_head]
  simp [hF, hph, hlen]

private theorem buildStep_spec (F : Bytes → Bytes) (hs : Nat) (hF : ∀ x, (F x).length = hs) (b : Built)
    (hb : b.binder.length = hs) :
    buildStep F b = { b with raw := b.head ++ bindersBlock [F b.head], binder := F b.head, st := .allSet,
                             patches := b.patches + 1 } := by
  have hsu : shouldUpdateBinders b.st = true := by cases b.st <;> rfl
  unfold buildStep
  simp only [hsu, if_true, patch_ok_gen F hs hF b.head b.binder hb, take_head]

private theorem preStep_inv (F : Bytes → Bytes) (hs : Nat) (hF : ∀ x, (F x).length = hs) (b : Built)
    (hb : b.binder.length = hs) (op : PreOp) :
    (preStep F b op).binder.length = hs ∧ (preStep F b op).patches = b.patches + (if op.isBuild then 1 else 0) := by
  cases op with
  | build => simp [preStep, buildStep_spec F hs hF b hb, hF, PreOp.isBuild]
  | marshalOnly => simp [preStep, hb, PreOp.isBuild]
  | edit f => simp [preStep, hb, PreOp.isBuild]

private theorem fold_inv (F : Bytes → Bytes) (hs : Nat) (hF : ∀ x, (F x).length = hs) (ops : List PreOp) (b : Built)
    (hb : b.binder.length = hs) :
    (ops.foldl (preStep F) b).binder.length = hs ∧ (ops.foldl (preStep F) b).patches = b.patches + nBuilds ops := by
  induction ops generalizing b with
  | nil => simp [hb, nBuilds]
  | cons op ops ih =>
    obtain ⟨h1, h2⟩ := preStep_inv F hs hF b hb op
    obtain ⟨h3, h4⟩ := ih (preStep F b op) h1
    refine ⟨h3, ?_⟩
    simp only [List.foldl_cons]
    rw [h4, h2]
    cases op <;> simp [nBuilds, PreOp.isBuild, List.filter] <;> omega

/-- **binder fresh after rebuild**: for every sequence of `BuildHandshakeState` calls and edits of
the hello before `Handshake` (which always builds once more), the hello that goes out is
`head ‖ binders-block [F head]` for the **final** head — the binder is the one of the bytes
actually sent, so crypto/tls's check passes; `|Raw|` is that of the placeholder form; and
`PatchBuiltHello` ran once per build. (A controller that patches only on the first build sends the
binder of the old bytes after any edit.) -/
theorem binder_fresh_after_rebuild (F : Bytes → Bytes) (hs : Nat) (hF : ∀ x, (F x).length = hs)
    (head0 : Bytes) (ops : List PreOp) :
    let b := sentAfter F (builtInit head0 hs) ops
    b.raw = b.head ++ bindersBlock [F b.head] ∧
    serverBinderOk F b.raw [F b.head] = true ∧
    b.raw.length = (b.head ++ bindersBlock [zeros hs]).length ∧
    b.patches = nBuilds ops + 1 := by
  have h0 : (builtInit head0 hs).binder.length = hs := by simp [builtInit, zeros]
  obtain ⟨h1, h2⟩ := fold_inv F hs hF ops (builtInit head0 hs) h0
  simp only [sentAfter]
  rw [buildStep_spec F hs hF _ h1]
  refine ⟨rfl, binder_verifies F _, ?_, ?_⟩
  · simp [bindersBlock_length, Ext.vec8sLen, hF, zeros]
  · show (List.foldl (preStep F) (builtInit head0 hs) ops).patches + 1 = nBuilds ops + 1
    rw [h2]; simp [builtInit]

/-- the head that goes out is the initial one with the caller's edits applied in order. -/
theorem sent_head_is_edited (F : Bytes → Bytes) (head0 : Bytes) (hs : Nat) (ops : List PreOp) :
    (sentAfter F (builtInit head0 hs) ops).head =
      ops.foldl (fun h op => match op with | .build => h | .marshalOnly => h | .edit f => f h) head0 := by
  have : ∀ (b : Built), (buildStep F b).head = b.head := by
    intro b; unfold buildStep; dsimp only; split
    · split <;> rfl
    · rfl
  have hf : ∀ (ops : List PreOp) (b : Built), (ops.foldl (preStep F) b).head =
      ops.foldl (fun h op => match op with | .build => h | .marshalOnly => h | .edit f => f h) b.head := by
    intro ops
    induction ops with
    | nil => intro b; rfl
    | cons op ops ih =>
      intro b
      simp only [List.foldl_cons]
      rw [ih]
      cases op <;> simp [preStep, this]
  simp only [sentAfter, this, hf]
  rfl

/-! ## `Len()` of the PSK extension does not depend on earlier builds; "*" skips the name check -/

private theorem pskLenCalls_fresh (n : Nat) (e : PskLenState) (h : e.hasSession = false) : pskLenCalls n e = e := by
  induction n with
  | zero => rfl
  | succ n ih => simp [pskLenCalls, pskLen, h, ih]

/-- **the extension length is a function of the session set now**: however many times `Len()` ran
while no session was loaded (every marshal of `BuildHandshakeStateWithoutSession` calls it), after
`InitializeByUtls` it is `pskExtLen` of the identities and binders set then, and stays so. -/
theorem len_after_init_ignores_earlier_calls (n m : Nat) (ids : List (Bytes × Nat)) (binders : List Bytes) :
    (pskLen (pskLenCalls m (pskInitByUtls (pskLenCalls n pskFresh) ids binders))).1 = pskExtLen ids binders := by
  rw [pskLenCalls_fresh n pskFresh rfl]
  induction m with
  | zero => simp [pskLenCalls, pskLen, pskInitByUtls, pskFresh]
  | succ m ih =>
    have : ∀ (k : Nat) (e : PskLenState), e.hasSession = true → e.ids = ids → e.binders = binders →
        (e.cachedLength = none ∨ e.cachedLength = some (pskExtLen ids binders)) →
        (pskLen (pskLenCalls k e)).1 = pskExtLen ids binders := by
      intro k
      induction k with
      | zero =>
        intro e h1 h2 h3 h4
        rcases h4 with h4 | h4 <;> simp [pskLenCalls, pskLen, h1, h2, h3, h4]
      | succ k ihk =>
        intro e h1 h2 h3 h4
        simp only [pskLenCalls]
        apply ihk
        · rcases h4 with h4 | h4 <;> simp [pskLen, h1, h4]
        · rcases h4 with h4 | h4 <;> simp [pskLen, h1, h2, h4]
        · rcases h4 with h4 | h4 <;> simp [pskLen, h1, h3, h4]
        · right; rcases h4 with h4 | h4 <;> simp [pskLen, h1, h2, h3, h4]
    exact this (m + 1) _ rfl rfl rfl (Or.inl rfl)

/-- `InsecureServerNameToVerify = "*"`: neither `loadSession` nor the full handshake looks at the
certificate's names, whatever `ServerName` is — so a session cached under a name the certificate
does not cover is offered again (with `name_scoped`: only under that same name). -/
theorem star_skips_name_check (cfg : Cfg) (hstar : cfg.nameToVerify = some 0) :
    dnsName cfg = none ∧ (∀ s, nameOk cfg s = true) ∧
    (∀ c : ConnIn, c.cfg = cfg → certNameOk c = true) := by
  have hd : dnsName cfg = none := by simp [dnsName, hstar]
  refine ⟨hd, fun s => by simp [nameOk, hd], fun c hc => by simp [certNameOk, hc, hd]⟩

/-! ## HelloRetryRequest (D11)

Full statement the property asks for — **false of the unchanged code**:
`∀ golang offered hashMatch, hrrPsk golang offered hashMatch ≠ .errUnsupported`
("after a HelloRetryRequest the identity is re-bound and the handshake resumes"). For parrots the
uTLS section of `processHelloRetryRequest` returns "uTLS does not support reprocessing of PSK key
triggered by HelloRetryRequest". The repair (re-marshal the PSK extension with the refreshed age,
re-patch the binder over the HRR transcript) is not a small change: kept as an open finding. -/

/-- **partial**: outside `parrot ∧ identity offered ∧ same hash` the HelloRetryRequest is processed;
HelloGolang re-binds the identity (and `binder_verifies_after_hrr` applies). -/
theorem psk_survives_hrr_partial (golang offered hashMatch : Bool)
    (hguard : ¬ (golang = false ∧ offered = true ∧ hashMatch = true)) :
    hrrPsk golang offered hashMatch ≠ .errUnsupported ∧
    (golang = true → offered = true → hashMatch = true → hrrPsk golang offered hashMatch = .rebound) := by
  cases golang <;> cases offered <;> cases hashMatch <;> simp [hrrPsk] at *

/-- **negation witness**: a parrot that offered an identity and receives a HelloRetryRequest fails. -/
theorem psk_hrr_breaks : ∃ golang offered hashMatch, hrrPsk golang offered hashMatch = .errUnsupported :=
  ⟨false, true, true, by decide⟩

/-- the guard of `psk_survives_hrr_partial` is exact: inside it the error always occurs. -/
theorem psk_hrr_guard_exact (golang offered hashMatch : Bool) :
    hrrPsk golang offered hashMatch = .errUnsupported ↔ (golang = false ∧ offered = true ∧ hashMatch = true) := by
  cases golang <;> cases offered <;> cases hashMatch <;> simp [hrrPsk]

/-! ## Histories over one cache -/

/-- every cache entry sits under the key of the connection that stored it. -/
def OriginInv (cache : Cache) : Prop := ∀ k s, (k, s) ∈ cache → s.origin = k

private theorem get_mem (cache : Cache) (k : Name) (s : Session) (h : cache.get k = some s) : (k, s) ∈ cache := by
  unfold Cache.get at h
  cases hf : cache.find? (fun x => x.1 == k) with
  | none => rw [hf] at h; simp at h
  | some p =>
    rw [hf] at h
    simp at h
    have hm := List.mem_of_find?_eq_some hf
    have hk := List.find?_some hf
    simp at hk
    obtain ⟨a, b⟩ := p
    simp at h hk
    subst h; subst hk
    exact hm

private theorem inv_del (cache : Cache) (k : Name) (h : OriginInv cache) : OriginInv (cache.del k) := by
  intro k' s hm
  unfold Cache.del at hm
  exact h k' s (List.mem_filter.1 hm).1

private theorem inv_put (cache : Cache) (k : Name) (s : Session) (h : OriginInv cache) (hs : s.origin = k) :
    OriginInv (cache.put k s) := by
  intro k' s' hm
  unfold Cache.put at hm
  rcases List.mem_cons.1 hm with h1 | h1
  · cases h1; exact hs
  · exact inv_del cache k h k' s' h1

private theorem newSession_origin (c : ConnIn) (nv : Nat) (old : Option Session) :
    (newSession c nv old).origin = cacheKey c.cfg := by
  cases old <;> simp [newSession]

/-- one connection preserves the invariant (every `Put` stores under the connection's own key). -/
theorem cache_origin_step (T : Tables) (cache : Cache) (c : ConnIn) (h : OriginInv cache) :
    OriginInv (stepConn T cache c).cache := by
  have h1 : OriginInv (if loadDeletes T cache c.cfg c.hello c.now = true then cache.del (cacheKey c.cfg) else cache) := by
    split
    · exact inv_del _ _ h
    · exact h
  simp only [stepConn]
  cases (outcome T c (loadDecision T cache c.cfg c.hello c.now)).tail with
  | keep => exact h1
  | drop => exact inv_del _ _ h1
  | store nv old => exact inv_put _ _ _ h1 (newSession_origin c nv old)

/-- **invariant over histories**: from a cache satisfying it (the empty one does), every cache
reached by any sequence of connections satisfies it. -/
theorem cache_origin_inv (T : Tables) (cs : List ConnIn) (cache : Cache) (h : OriginInv cache) :
    OriginInv (finalCache T cache cs) := by
  induction cs generalizing cache with
  | nil => exact h
  | cons c cs ih => exact ih _ (cache_origin_step T cache c h)

/-- **no resumption across server names, for every history**: whatever any connection of any
history offers was stored by a connection with the same cache key — which is the configured server
name whenever one is set. -/
theorem no_cross_name_history (T : Tables) (cs : List ConnIn) (cache : Cache) (h : OriginInv cache) :
    ∀ p ∈ cs.zip (run T cache cs), ∀ s, offeredSession p.2.decision = some s → s.origin = cacheKey p.1.cfg := by
  induction cs generalizing cache with
  | nil => intro p hp; simp [run] at hp
  | cons c cs ih =>
    intro p hp s ho
    simp only [run, List.zip_cons_cons, List.mem_cons] at hp
    rcases hp with rfl | hp
    · have hdec : (stepConn T cache c).decision = loadDecision T cache c.cfg c.hello c.now := rfl
      rw [hdec] at ho
      have := offered_from_cache_key T cache c.cfg c.hello c.now s ho
      exact h _ _ (get_mem cache _ s this.1)
    · exact ih _ (cache_origin_step T cache c h) p hp s ho

/-! ## A resumption attempt never breaks the handshake -/

private theorem decision_ne_assert (T : Tables) (cache : Cache) (cfg : Cfg) (h : Hello) (now : Nat)
    (hs : cfg.skipOnNil = true) : loadDecision T cache cfg h now ≠ .assertNoExt := by
  unfold loadDecision
  repeat' split
  all_goals simp_all

private theorem decision_ne_panic (T : Tables) (cache : Cache) (cfg : Cfg) (h : Hello) (now : Nat)
    (hv : h.versions ≠ []) : loadDecision T cache cfg h now ≠ .panicIndex := by
  have hl : loadSession T cache cfg h now ≠ .panicIndex := by
    unfold loadSession
    split
    · simp
    split
    · simp_all
    split
    · simp
    split
    · simp
    · unfold sessionGuards
      repeat' split
      all_goals simp
  unfold loadDecision
  repeat' split
  all_goals simp_all

/-- the server never aborts on what `loadDecision` offers (this is D13's repair seen from the
server: `session supported extended_master_secret but client does not` is unreachable). -/
theorem server_never_aborts (T : Tables) (cache : Cache) (c : ConnIn) :
    serverRes T c (loadDecision T cache c.cfg c.hello c.now) ≠ .abort := by
  cases hd : loadDecision T cache c.cfg c.hello c.now with
  | ticket12 s =>
    have he := no_ems_downgrade T cache c.cfg c.hello c.now s hd
    unfold serverRes
    dsimp only
    repeat' split
    all_goals simp_all
  | psk13 s =>
    unfold serverRes
    dsimp only
    repeat' split
    all_goals simp
  | none => simp [serverRes]
  | assertNoExt => simp [serverRes]
  | panicIndex => simp [serverRes]

/-- Full statement the property asks for — **false of the unchanged code** (D11):
`∀ cache c, WF c → (stepConn T cache c).err = none`, where `WF` says only: resumption usable by the
spec (`skipOnNil`, `OmitEmptyPsk` for PSK parrots), a common version, a certificate valid now and for the
name being verified.

**partial**: it holds outside exactly `parrot ∧ identity offered ∧ TLS 1.3 ∧ HelloRetryRequest`:
whatever is in the cache — stale, from another parrot, with or without EMS, expired — the
handshake completes (resumed or full). -/
theorem never_breaks_partial (T : Tables) (cache : Cache) (c : ConnIn)
    (hskip : c.cfg.skipOnNil = true) (hv : c.hello.versions ≠ [])
    (hneg : negotiated c ∈ c.hello.versions)
    (hpsk : c.hello.golang = true ∨ c.hello.hasPskExt = false ∨ c.cfg.omitEmptyPsk = true)
    (hcert : certTimeOk c = true) (hcname : certNameOk c = true)
    (hD11 : ¬ (c.hello.golang = false ∧ isPsk (loadDecision T cache c.cfg c.hello c.now) = true ∧
              negotiated c = vTLS13 ∧ c.srv.hrr = true)) :
    (stepConn T cache c).err = none := by
  have h1 := decision_ne_assert T cache c.cfg c.hello c.now hskip
  have h2 := decision_ne_panic T cache c.cfg c.hello c.now hv
  have h3 := server_never_aborts T cache c
  show (outcome T c (loadDecision T cache c.cfg c.hello c.now)).err = none
  generalize loadDecision T cache c.cfg c.hello c.now = d at *
  have hempty : (!c.hello.golang && c.hello.hasPskExt && !c.cfg.omitEmptyPsk && !isPsk d) = false := by
    rcases hpsk with h | h | h <;> simp [h]
  have hver : (!c.hello.versions.contains (negotiated c)) = false := by simpa using hneg
  have hhrr : ∀ hm, (decide (negotiated c = vTLS13) && c.srv.hrr && (hrrPsk c.hello.golang (isPsk d) hm == .errUnsupported)) = false := by
    intro hm
    cases hg : c.hello.golang <;> cases hp : isPsk d <;> cases hm <;> simp [hrrPsk]
    intro hn
    cases hr : c.srv.hrr
    · rfl
    · exact absurd ⟨hg, hp, hn, hr⟩ hD11
  unfold outcome
  cases d with
  | assertNoExt => exact absurd rfl h1
  | panicIndex => exact absurd rfl h2
  | none =>
    simp only [hempty, hver, hhrr]
    cases hs : serverRes T c .none <;> simp_all
  | ticket12 s =>
    simp only [hempty, hver, hhrr]
    cases hs : serverRes T c (.ticket12 s) <;> simp_all
  | psk13 s =>
    simp only [hempty, hver, hhrr]
    cases hs : serverRes T c (.psk13 s) <;> simp_all

/-! ## Resumption is offered — and happens — when the property says so -/

/-- **resume_offered (TLS 1.2)**: cache hit under the configured server name ∧ session_ticket in the
spec ∧ guards ⇒ the decision is the cached session and its ticket is in the session_ticket
extension on the wire. -/
theorem resume_offered_ticket (T : Tables) (cache : Cache) (cfg : Cfg) (h : Hello) (now hs : Nat) (s : Session)
    (front back : List SpecExt)
    (hname : cfg.serverName ≠ 0) (hen : cfg.ticketsDisabled = false ∧ cfg.hasCache = true) (hv : h.versions ≠ [])
    (hhit : cache.get cfg.serverName = some s) (hG : Guards12 T cfg h now s)
    (hext : h.golang = true ∨ (s.version = vTLS12 ∧ h.hasTicketExt = true)) :
    loadDecision T cache cfg h now = .ticket12 s ∧
    marshalExts (.ticket12 s) now hs (front ++ [.sessionTicket] ++ back) =
      marshalExts (.ticket12 s) now hs front ++ (u16 35 ++ u16 s.ticket.length ++ s.ticket) ++
        marshalExts (.ticket12 s) now hs back := by
  have hk : cacheKey cfg = cfg.serverName := by simp [cacheKey, hname]
  refine ⟨(ticket12_iff T cache cfg h now s).2 ⟨⟨hen.1, hen.2, hv, hk ▸ hname⟩, hk ▸ hhit, hG, hext⟩, wire_has_ticket s now hs front back⟩

/-- **resume_offered (TLS 1.3)**: cache hit under the configured server name ∧ pre_shared_key in the
spec ∧ guards ⇒ the identity is on the wire, pre_shared_key is the last extension, the binder patch
succeeds, `|Raw|` after the patch = before, and the server's binder check passes. -/
theorem resume_offered_psk (T : Tables) (cache : Cache) (cfg : Cfg) (h : Hello) (now hs : Nat) (s : Session)
    (spec : List SpecExt) (pre : Bytes) (F : Bytes → Bytes)
    (hname : cfg.serverName ≠ 0) (hen : cfg.ticketsDisabled = false ∧ cfg.hasCache = true) (hv : h.versions ≠ [])
    (hhit : cache.get cfg.serverName = some s) (hG : Guards13 T cfg h now s)
    (hext : h.golang = true ∨ h.hasPskExt = true)
    (hspec : pskOnlyLast spec = true ∧ SpecExt.psk ∈ spec) (hF : ∀ x, (F x).length = hs) :
    loadDecision T cache cfg h now = .psk13 s ∧
    marshalExts (.psk13 s) now hs spec =
      marshalExts (.psk13 s) now hs spec.dropLast ++ pskExt [(s.ticket, obfuscatedAge s now)] [zeros hs] ∧
    ∃ head raw', marshalHello pre (.psk13 s) now hs spec = head ++ bindersBlock [zeros hs] ∧
      patchBinders F (marshalHello pre (.psk13 s) now hs spec) [zeros hs] = .ok raw' ∧
      raw'.length = (marshalHello pre (.psk13 s) now hs spec).length ∧
      raw' = head ++ bindersBlock [F head] ∧
      serverBinderOk F raw' [F head] = true := by
  have hk : cacheKey cfg = cfg.serverName := by simp [cacheKey, hname]
  have hd := (psk13_iff T cache cfg h now s).2 ⟨⟨hen.1, hen.2, hv, hk ▸ hname⟩, hk ▸ hhit, hG, hext⟩
  have hlast := (psk_is_last s now hs spec hspec.1 hspec.2).1
  refine ⟨hd, hlast, ?_⟩
  obtain ⟨eh, he⟩ := pskExt_ends_with_binders [(s.ticket, obfuscatedAge s now)] [zeros hs]
  have hne : spec.isEmpty = false := by
    cases spec with
    | nil => cases hspec.2
    | cons a l => rfl
  have hE : marshalExts (.psk13 s) now hs spec =
      (marshalExts (.psk13 s) now hs spec.dropLast ++ eh) ++ bindersBlock [zeros hs] := by
    rw [hlast, he, List.append_assoc]
  have hm : marshalHello pre (.psk13 s) now hs spec =
      u8 1 ++ u24 (pre ++ (u16 (marshalExts (.psk13 s) now hs spec).length ++ marshalExts (.psk13 s) now hs spec)).length ++
        (pre ++ (u16 (marshalExts (.psk13 s) now hs spec).length ++ marshalExts (.psk13 s) now hs spec)) := by
    simp only [marshalHello, hne, Bool.false_eq_true, if_false]
  rw [hm]
  generalize marshalExts (.psk13 s) now hs spec = E at hE ⊢
  generalize marshalExts (.psk13 s) now hs spec.dropLast ++ eh = D at hE
  have key : ∀ (X : Bytes) (n : Nat), X ++ (pre ++ (u16 n ++ E)) = (X ++ (pre ++ (u16 n ++ D))) ++ bindersBlock [zeros hs] := by
    intro X n; rw [hE]; simp [List.append_assoc]
  have hraw := key (u8 1 ++ u24 (pre ++ (u16 E.length ++ E)).length) E.length
  generalize u8 1 ++ u24 (pre ++ (u16 E.length ++ E)).length ++ (pre ++ (u16 E.length ++ D)) = head at hraw
  refine ⟨head, head ++ bindersBlock [F head], hraw, ?_, ?_, rfl, binder_verifies F head⟩
  · rw [hraw]; exact (patch_ok F hs hF head).1
  · rw [hraw]; exact (patch_ok F hs hF head).2

/-- a usable TLS 1.2 entry is resumed: the ticket is offered, crypto/tls's server accepts it, the
handshake completes. -/
theorem resumes12 (T : Tables) (cache : Cache) (c : ConnIn) (s : Session)
    (hp : PreOk c.cfg c.hello) (hhit : cache.get (cacheKey c.cfg) = some s) (hG : Guards12 T c.cfg c.hello c.now s)
    (hext : c.hello.golang = true ∨ c.hello.hasTicketExt = true) (hv12 : s.version = vTLS12)
    (hneg : negotiated c = vTLS12)
    (hpsk : c.hello.golang = true ∨ c.hello.hasPskExt = false ∨ c.cfg.omitEmptyPsk = true)
    (hage : c.srv.now ≤ s.srvCreatedAt + week) (hems : s.ems = c.hello.ems) :
    (stepConn T cache c).decision = .ticket12 s ∧ (stepConn T cache c).resumed = true ∧ (stepConn T cache c).err = none := by
  have hd : loadDecision T cache c.cfg c.hello c.now = .ticket12 s :=
    (ticket12_iff T cache c.cfg c.hello c.now s).2 ⟨hp, hhit, hG, hext.imp id (fun h => ⟨hv12, h⟩)⟩
  have hsr : serverRes T c (.ticket12 s) = .resumed := by
    have hsu : s.suite ∈ c.hello.suites := hG.2.2.1
    have hnot : ¬ (c.srv.now > s.srvCreatedAt + week) := by omega
    unfold serverRes
    simp [hneg, hv12, hsu, hnot, hems]
  have hempty : (!c.hello.golang && c.hello.hasPskExt && !c.cfg.omitEmptyPsk && !isPsk (.ticket12 s)) = false := by
    rcases hpsk with h | h | h <;> simp [h]
  have hver : (!c.hello.versions.contains (negotiated c)) = false := by
    have : s.version ∈ c.hello.versions := hG.1.1
    rw [hneg, ← hv12]; simpa using this
  have hnohrr : (decide (negotiated c = vTLS13) && c.srv.hrr) = false := by simp [hneg, vTLS12, vTLS13]
  refine ⟨hd, ?_, ?_⟩
  · show (outcome T c (loadDecision T cache c.cfg c.hello c.now)).resumed = true
    rw [hd]; unfold outcome
    simp only [hempty, hver, hnohrr, hsr]; simp
  · show (outcome T c (loadDecision T cache c.cfg c.hello c.now)).err = none
    rw [hd]; unfold outcome
    simp only [hempty, hver, hnohrr, hsr]; simp

/-- a usable TLS 1.3 entry is resumed — **except** (D11) by a parrot whose server answers with a
HelloRetryRequest. -/
theorem resumes13_partial (T : Tables) (cache : Cache) (c : ConnIn) (s : Session)
    (hp : PreOk c.cfg c.hello) (hhit : cache.get (cacheKey c.cfg) = some s) (hG : Guards13 T c.cfg c.hello c.now s)
    (hext : c.hello.golang = true ∨ c.hello.hasPskExt = true) (hmodes : c.hello.modes = true)
    (hneg : negotiated c = vTLS13)
    (hage : c.srv.now ≤ s.srvCreatedAt + week) (hhash : T.hash s.suite = T.hash c.srv.suite)
    (hD11 : ¬ (c.hello.golang = false ∧ c.srv.hrr = true)) :
    (stepConn T cache c).decision = .psk13 s ∧ (stepConn T cache c).resumed = true ∧ (stepConn T cache c).err = none := by
  have hd : loadDecision T cache c.cfg c.hello c.now = .psk13 s :=
    (psk13_iff T cache c.cfg c.hello c.now s).2 ⟨hp, hhit, hG, hext⟩
  have hsr : serverRes T c (.psk13 s) = .resumed := by
    have hnot : ¬ (c.srv.now > s.srvCreatedAt + week) := by omega
    unfold serverRes
    simp [hneg, hmodes, hnot, hhash]
  have hempty : (!c.hello.golang && c.hello.hasPskExt && !c.cfg.omitEmptyPsk && !isPsk (.psk13 s)) = false := by
    simp [isPsk]
  have hver : (!c.hello.versions.contains (negotiated c)) = false := by
    have : s.version ∈ c.hello.versions := hG.1.1
    rw [hneg, ← hG.2.1]; simpa using this
  have hh : (T.hash s.suite == T.hash c.srv.suite) = true := by simp [hhash]
  have hnohrr : (decide (negotiated c = vTLS13) && c.srv.hrr && (hrrPsk c.hello.golang (isPsk (.psk13 s)) true == .errUnsupported)) = false := by
    cases hg : c.hello.golang <;> cases hr : c.srv.hrr <;> simp [hrrPsk, isPsk]
    exact absurd ⟨hg, hr⟩ hD11
  refine ⟨hd, ?_, ?_⟩
  · show (outcome T c (loadDecision T cache c.cfg c.hello c.now)).resumed = true
    rw [hd]; unfold outcome
    simp only [hempty, hver, hh, hnohrr, hsr]; simp
  · show (outcome T c (loadDecision T cache c.cfg c.hello c.now)).err = none
    rw [hd]; unfold outcome
    simp only [hempty, hver, hh, hnohrr, hsr]; simp

/-- **negation witness at connection level** (D11): a Chrome-like PSK parrot with a valid cached
TLS 1.3 session whose server asks for a retry: the client fails and the entry is dropped, although
the same connection without the cache entry — or without the HelloRetryRequest — completes. -/
theorem resumption_breaks_on_psk_hrr :
    ∃ (T : Tables) (cache : Cache) (c : ConnIn),
      (stepConn T cache c).err = some .pskHrr ∧ (stepConn T [] c).err = none ∧
      (stepConn T cache { c with srv := { c.srv with hrr := false } }).resumed = true := by
  refine ⟨{ known12 := [], hash13 := [(0x1301, 32)] },
    [(1, { version := vTLS13, suite := 0x1301, ems := false, createdAt := 100, useBy := 100 + week, ageAdd := 7,
           ticket := [1, 2, 3], certNotAfter := 1000000, chains := true, validFor := [1], origin := 1, srvCreatedAt := 100 })],
    { cfg := { ticketsDisabled := false, hasCache := true, serverName := 1, remoteAddr := 4, skipVerify := false,
               skipTimeVerify := false, nameToVerify := none, skipOnNil := true, omitEmptyPsk := true },
      hello := { golang := false, hasTicketExt := true, hasPskExt := true, ems := true, modes := true,
                 versions := [vTLS13, vTLS12], suites := [0x1301] },
      now := 160,
      srv := { maxVer := vTLS13, now := 160, hrr := true, suite := 0x1301, certNotBefore := 0, certNotAfter := 1000000,
               certNames := [1], newTicket := [9], newAgeAdd := 0 } }, ?_, ?_, ?_⟩ <;> decide

private theorem get_put (cache : Cache) (k : Name) (s : Session) : (cache.put k s).get k = some s := by
  simp [Cache.put, Cache.get]

private theorem tail_of_full (T : Tables) (c : ConnIn) (d : Decision)
    (he : (outcome T c d).err = none) (hr : (outcome T c d).resumed = false) :
    (outcome T c d).tail = if storesTicket c (negotiated c) then .store (negotiated c) none else .keep := by
  unfold outcome at he hr ⊢
  dsimp only at he hr ⊢
  repeat' split
  all_goals simp_all

/-- **the property's headline, for every cache state and configuration**: a connection that
completes a full handshake and receives a ticket, followed by a connection with the same Config,
the same ClientHello features (same parrot) and the same server configuration, within the ticket
lifetime on both clocks and the certificate's validity, with the matching extension in the spec,
**resumes** — except (D11) a parrot answered with a HelloRetryRequest in TLS 1.3. -/
theorem resumes_next_partial (T : Tables) (cache : Cache) (c1 c2 : ConnIn)
    (h1 : (stepConn T cache c1).err = none) (hfull : (stepConn T cache c1).resumed = false)
    (hst : storesTicket c1 (negotiated c1) = true)
    (hcfg : c2.cfg = c1.cfg) (hhello : c2.hello = c1.hello) (hmax : c2.srv.maxVer = c1.srv.maxVer)
    (hsuite : c2.srv.suite = c1.srv.suite)
    (hen : c1.cfg.ticketsDisabled = false) (hv : c1.hello.versions ≠ [])
    (hnegin : negotiated c1 ∈ c1.hello.versions)
    (ht2 : c2.now ≤ c1.now + week) (ht3 : c2.srv.now ≤ c1.srv.now + week)
    (hna : c1.cfg.skipTimeVerify = true ∨ c2.now ≤ c1.srv.certNotAfter)
    (hname : c1.cfg.skipVerify = true ∨ ∀ n, dnsName c1.cfg = some n → n ∈ c1.srv.certNames)
    (hext : if negotiated c1 = vTLS13 then (c1.hello.golang = true ∨ c1.hello.hasPskExt = true) ∧ c1.hello.modes = true
            else (c1.hello.golang = true ∨ c1.hello.hasTicketExt = true) ∧
              (c1.hello.golang = true ∨ c1.hello.hasPskExt = false ∨ c1.cfg.omitEmptyPsk = true))
    (hoff : if negotiated c1 = vTLS13 then ∃ hs, T.hash c1.srv.suite = some hs ∧ c1.srv.suite ∈ c1.hello.suites
            else c1.srv.suite ∈ c1.hello.suites ∧ c1.srv.suite ∈ T.known12)
    (hD11 : ¬ (c1.hello.golang = false ∧ negotiated c1 = vTLS13 ∧ c2.srv.hrr = true)) :
    (stepConn T (stepConn T cache c1).cache c2).resumed = true ∧ (stepConn T (stepConn T cache c1).cache c2).err = none := by
  -- the entry the first connection leaves
  have hkey : cacheKey c1.cfg ≠ 0 := by
    unfold storesTicket at hst
    simp at hst
    exact hst.1.2
  have hcache : c1.cfg.hasCache = true := by
    unfold storesTicket at hst
    simp at hst
    exact hst.1.1
  have htail := tail_of_full T c1 _ h1 hfull
  rw [hst] at htail
  have hget : (stepConn T cache c1).cache.get (cacheKey c1.cfg) = some (newSession c1 (negotiated c1) none) := by
    show (tailCache c1 _ (outcome T c1 (loadDecision T cache c1.cfg c1.hello c1.now)).tail).get _ = _
    rw [htail]
    exact get_put _ _ _
  have hneg2 : negotiated c2 = negotiated c1 := by simp [negotiated, hmax, hhello]
  have hp : PreOk c2.cfg c2.hello := by rw [hcfg, hhello]; exact ⟨hen, hcache, hv, hkey⟩
  have hhit : (stepConn T cache c1).cache.get (cacheKey c2.cfg) = some (newSession c1 (negotiated c1) none) := by
    rw [hcfg]; exact hget
  have hsess : SessOk c2.cfg c2.hello c2.now (newSession c1 (negotiated c1) none) := by
    rw [hcfg, hhello]
    refine ⟨by simpa [newSession] using hnegin, by simpa [newSession] using hna, ?_⟩
    rcases hname with h | h
    · exact Or.inl h
    · cases hsv : c1.cfg.skipVerify
      · right
        refine ⟨by simp [newSession, hsv], ?_⟩
        unfold nameOk
        cases hd : dnsName c1.cfg with
        | none => rfl
        | some n => simpa [newSession] using h n hd
      · exact Or.inl rfl
  by_cases h13 : negotiated c1 = vTLS13
  · rw [if_pos h13] at hext hoff
    obtain ⟨hs, hh, hmem⟩ := hoff
    have hG : Guards13 T c2.cfg c2.hello c2.now (newSession c1 (negotiated c1) none) := by
      refine ⟨hsess, by simp [newSession, h13], by simp [newSession, h13]; omega, ?_⟩
      rw [hhello]
      unfold hashOffered
      simp only [newSession, hh]
      exact List.any_eq_true.2 ⟨c1.srv.suite, hmem, by simp [hh]⟩
    have := resumes13_partial T (stepConn T cache c1).cache c2 _ hp hhit hG (by rw [hhello]; exact hext.1)
      (by rw [hhello]; exact hext.2) (by rw [hneg2]; exact h13) (by simp [newSession, h13]; omega)
      (by simp [newSession, hsuite])
      (by rw [hhello]; intro ⟨a, b⟩; exact hD11 ⟨a, h13, b⟩)
    exact this.2
  · rw [if_neg h13] at hext hoff
    have h12 : negotiated c1 = vTLS12 := by
      unfold negotiated at h13 ⊢
      split <;> simp_all
    have hG : Guards12 T c2.cfg c2.hello c2.now (newSession c1 (negotiated c1) none) := by
      refine ⟨hsess, by simp [newSession, h12, vTLS12, vTLS13], by rw [hhello]; simpa [newSession] using hoff.1,
        by simpa [newSession] using hoff.2, ?_⟩
      rw [hhello]; simp [newSession, h13]
    have := resumes12 T (stepConn T cache c1).cache c2 _ hp hhit hG (by rw [hhello]; exact hext.1)
      (by simp [newSession, h12]) (by rw [hneg2]; exact h12) (by rw [hhello, hcfg]; exact hext.2)
      (by simp [newSession, h13]; omega) (by rw [hhello]; simp [newSession, h13])
    exact this.2

/-! ## Non-vacuity: concrete instances meeting the hypotheses -/

namespace Ex
def T : Tables := { known12 := [0xc02b, 0xc02f], hash13 := [(0x1301, 32), (0x1302, 48), (0x1303, 32)] }
def cfg : Cfg := { ticketsDisabled := false, hasCache := true, serverName := 1, remoteAddr := 4, skipVerify := false, skipTimeVerify := false, nameToVerify := none, skipOnNil := true, omitEmptyPsk := true }
/-- a Chrome-like PSK parrot -/
def chromePsk : Hello := { golang := false, hasTicketExt := true, hasPskExt := true, ems := true, modes := true, versions := [0x0a0a, vTLS13, vTLS12], suites := [0x1301, 0x1302, 0x1303, 0xc02b, 0xc02f] }
/-- the same spec without extended_master_secret (e.g. a randomized fingerprint) -/
def noEms : Hello := { chromePsk with ems := false }
def s12 : Session := { version := vTLS12, suite := 0xc02b, ems := true, createdAt := 100, useBy := 0, ageAdd := 0, ticket := [1, 2, 3, 4], certNotAfter := 1000000, chains := true, validFor := [1, 2], origin := 1, srvCreatedAt := 100 }
def s13 : Session := { version := vTLS13, suite := 0x1301, ems := false, createdAt := 100, useBy := 100 + week, ageAdd := 77, ticket := [5, 6, 7], certNotAfter := 1000000, chains := true, validFor := [1, 2], origin := 1, srvCreatedAt := 100 }
def srv (hrr : Bool) (now : Nat) : Server := { maxVer := vTLS13, now := now, hrr := hrr, suite := 0x1301, certNotBefore := 0, certNotAfter := 1000000, certNames := [1, 2], newTicket := [9, 9], newAgeAdd := 5 }
def spec : List SpecExt := [.other [0, 23, 0, 0], .sessionTicket, .other [0, 45, 0, 2, 1, 1], .psk]
def F : Bytes → Bytes := fun t => (t ++ zeros 32).take 32
end Ex

/-- `resume_offered_ticket`: hypotheses met, the ticket is offered. -/
example : loadDecision Ex.T [(1, Ex.s12)] Ex.cfg Ex.chromePsk 200 = .ticket12 Ex.s12 := by decide +kernel
/-- D13's input on the repaired model: the EMS session is *not* offered by the spec without EMS,
and the connection completes with a full handshake. -/
example : loadDecision Ex.T [(1, Ex.s12)] Ex.cfg Ex.noEms 200 = .none := by decide +kernel
example : (stepConn Ex.T [(1, Ex.s12)] { cfg := Ex.cfg, hello := Ex.noEms, now := 200, srv := { (Ex.srv false 200) with maxVer := vTLS12, suite := 0xc02b } }).err = none := by decide +kernel
/-- `resume_offered_psk` / `psk_is_last`: identity offered, PSK last in the example spec. -/
example : loadDecision Ex.T [(1, Ex.s13)] Ex.cfg Ex.chromePsk 200 = .psk13 Ex.s13 := by decide +kernel
example : pskOnlyLast Ex.spec = true ∧ SpecExt.psk ∈ Ex.spec := by decide +kernel
example : ∀ x, (Ex.F x).length = 32 := by intro x; simp [Ex.F, zeros]
/-- `expired_not_offered`: one second after `useBy` nothing is offered and the entry is deleted. -/
example : loadDecision Ex.T [(1, Ex.s13)] Ex.cfg Ex.chromePsk (100 + week + 1) = .none ∧
    loadDeletes Ex.T [(1, Ex.s13)] Ex.cfg Ex.chromePsk (100 + week + 1) = true ∧
    loadDecision Ex.T [(1, Ex.s13)] Ex.cfg Ex.chromePsk (100 + week) = .psk13 Ex.s13 := by decide +kernel
/-- `name_scoped`: the same cache, another server name: nothing offered. -/
example : loadDecision Ex.T [(1, Ex.s13)] { Ex.cfg with serverName := 2 } Ex.chromePsk 200 = .none := by decide +kernel
/-- `never_breaks_partial` / `resumes13_partial`: hypotheses met without HRR → resumed. -/
example : (stepConn Ex.T [(1, Ex.s13)] { cfg := Ex.cfg, hello := Ex.chromePsk, now := 200, srv := Ex.srv false 200 }).resumed = true ∧
    (stepConn Ex.T [(1, Ex.s13)] { cfg := Ex.cfg, hello := Ex.chromePsk, now := 200, srv := Ex.srv false 200 }).err = none := by decide +kernel
/-- `resumes_next_partial`: a full handshake from the empty cache, then the same connection a minute later. -/
example : (run Ex.T [] [{ cfg := Ex.cfg, hello := Ex.chromePsk, now := 200, srv := Ex.srv false 200 }, { cfg := Ex.cfg, hello := Ex.chromePsk, now := 260, srv := Ex.srv false 260 }]).map (·.resumed) = [false, true] := by decide +kernel
/-- HelloGolang survives the HelloRetryRequest (re-binding), the parrot does not (D11). -/
example : (stepConn Ex.T [(1, Ex.s13)] { cfg := Ex.cfg, hello := { Ex.chromePsk with golang := true }, now := 200, srv := Ex.srv true 200 }).resumed = true ∧
    (stepConn Ex.T [(1, Ex.s13)] { cfg := Ex.cfg, hello := Ex.chromePsk, now := 200, srv := Ex.srv true 200 }).err = some .pskHrr := by decide +kernel
/-- `binder_fresh_after_rebuild`: BuildHandshakeState, an edit of the hello (e.g. SetClientRandom), Handshake —
three patches, the binder on the wire is the one of the edited bytes, not of the first build. -/
example :
    let b := sentAfter Ex.F (builtInit [1, 2, 3] 32) [.build, .edit (fun h => 9 :: h), .build]
    b.patches = 3 ∧ b.head = [9, 1, 2, 3] ∧ b.binder = Ex.F [9, 1, 2, 3] ∧ b.binder ≠ Ex.F [1, 2, 3] ∧
      serverBinderOk Ex.F b.raw [b.binder] = true := by decide +kernel
/-- `OriginInv` holds of the empty cache (the start of every history). -/
example : OriginInv [] := by intro k s h; cases h

end C19
