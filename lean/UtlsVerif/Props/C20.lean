import UtlsVerif.SessionCtlLegal2
/-!
# C20 — injected sessions are used as given, under any legal call order

Theorems over the `SessionCtl` machine (the transcription of `sessionController`, the setters,
`buildHandshakeState`, `uLoadSession`, `uApplyPatch` and the session part of `Handshake`), for
**every** configuration (HelloGolang / parrot / HelloCustom, spec with or without session_ticket and
pre_shared_key, skip-on-nil flag, tickets disabled), every start (cache configured or not), every
call sequence of any length and every answer of the cache at each build:

* `no_assert_any_order` / `legal_no_assert` — no call of any sequence ends in an internal assertion
  panic (so in particular none of a documented order does);
* `legal_all_ok` — every call of a documented order succeeds (no error, no panic at all);
* `forbidden_err` — the calls the documentation forbids are refused the documented way;
* `locked_immutable` — once the controller is locked no later call changes a session field;
* `injected_verbatim` / `injected_psk_verbatim` — on a documented order, after the injection every
  build marshals exactly the user's ticket / identity, for arbitrary ticket bytes;
* `legal_handshakes` — a documented order ending in `Handshake` reaches the wire with the private
  keys of its key shares retained, offers the injected session, and resumes when the negotiated
  version is the session's;
* `keys_backed` — (D12) in any order, generated key shares keep their private keys;
* `binder_of_bytes_sent` — in any order (any builds and edits of other ClientHello fields before), a
  `Handshake` that offers a PSK sends the binder computed over exactly the bytes it sends.

All are proved from two inductive invariants (`SessionCtl.inv`, `SessionCtl.pinv`) by induction over
the call sequence; the per-call preservation lemmas live in `SessionCtl*.lean`.

Repaired defects modelled here (the full statements hold only for the repaired code):
D12 — `ApplyPreset` dropped the key-share private keys when the same spec was applied again
(`BuildHandshakeStateWithoutSession` then `Handshake`); `uLoadSession` called
`setSessionTicketToUConn` although the ticket initialisation had been skipped (spec with
pre_shared_key but no session_ticket, TLS 1.2 session in the cache): internal assertion panic.
-/
namespace C20
open SessionCtl Wire

/-! ## any call order -/

/-- No call of any call sequence ends in an internal assertion panic. -/
theorem no_assert_any_order (cfg : Cfg) (hasCache : Bool) (ops : List Op) :
    ∀ o ∈ outcomes cfg (St.start cfg hasCache) ops, o.isAssertion = false :=
  no_assert_of_inv cfg _ (inv_start cfg hasCache) ops

/-- In particular every ordering the documentation allows completes without an internal assertion. -/
theorem legal_no_assert (cfg : Cfg) (hasCache : Bool) (ops : List Op) (_ : Legal cfg hasCache ops = true) :
    ∀ o ∈ outcomes cfg (St.start cfg hasCache) ops, o.isAssertion = false :=
  no_assert_any_order cfg hasCache ops

/-- (D12) Whatever the call order, a hello whose key shares were generated holds their private keys. -/
theorem keys_backed (cfg : Cfg) (hasCache : Bool) (ops : List Op) :
    (final cfg (St.start cfg hasCache) ops).sharesFilled = true →
    (final cfg (St.start cfg hasCache) ops).keysHeld = true := by
  have h := inv_final cfg _ (inv_start cfg hasCache) ops
  generalize final cfg (St.start cfg hasCache) ops = s at h
  simp only [inv, keysOk, Bool.and_eq_true, Bool.or_eq_true, Bool.not_eq_true'] at h
  intro hf
  rcases h.1.1.1.1.1.1 with h1 | h1
  · rw [hf] at h1; cases h1
  · exact h1

/-- Once the controller is locked, no later call sequence changes a session field (controller state,
owned extensions and their contents, session / early secret / ticket / identities of the handshake
state, the marshalled session extensions). -/
theorem locked_immutable (cfg : Cfg) (hasCache : Bool) (ops ops' : List Op) :
    (final cfg (St.start cfg hasCache) ops).locked = true →
    sessionView (final cfg (final cfg (St.start cfg hasCache) ops) ops') =
      sessionView (final cfg (St.start cfg hasCache) ops) := by
  have h := inv_final cfg _ (inv_start cfg hasCache) ops
  generalize final cfg (St.start cfg hasCache) ops = s at h
  intro hl
  induction ops' generalizing s with
  | nil => rfl
  | cons op ops' ih =>
    rw [final_cons]
    have hv := locked_step cfg s op h hl
    have hl' : (step cfg s op).1.locked = true := by
      have := congrArg (fun v => v.2.1) hv
      simp only [sessionView] at this
      rw [this, hl]
    rw [ih _ (inv_step cfg s op h).1 hl', hv]

/-- The calls the documentation forbids are refused the documented way, in any reachable state
before `Handshake`: (a) any setter without a usable session cache returns the "session is disabled"
error; (b) a non-nil extension after the controller is locked panics with the documented "you must
not modify the session after it's locked"; (c) a non-nil extension after an initialised one panics
with the documented `overrideExtension` state panic; (d) after injecting an extension whose kind
the parrot's spec lacks, every build / `Handshake` returns the documented "the specification
doesn't contain one" error. None of these changes a session field. -/
theorem forbidden_err (cfg : Cfg) (hasCache : Bool) (ops : List Op) :
    let s := final cfg (St.start cfg hasCache) ops
    s.hsDone = false →
    (∀ op, isSetter op = true → (cfg.disabled = true ∨ s.hasCache = false) → (step cfg s op).2 = .err .disabled)
    ∧ (∀ op, isSetter op = true → op ≠ .setTicket .nil → op ≠ .setPsk .nil → cfg.disabled = false → s.hasCache = true →
        s.locked = true → (step cfg s op).2 = .panic .documented .locked)
    ∧ (∀ op, isSetter op = true → op ≠ .setTicket .nil → op ≠ .setPsk .nil → cfg.disabled = false → s.hasCache = true →
        s.locked = false → s.state ≠ .noSession → (step cfg s op).2 = .panic .documented .state)
    ∧ (∀ op, isSetter op = true → (step cfg s op).2 ≠ .ok → sessionView (step cfg s op).1 = sessionView s)
    ∧ (cfg.golang = false → cfg.custom = false → s.state = .ticketInit → cfg.specT = false →
        (step cfg s .buildNoSession).2 = .err .noTicketSpec ∧ ∀ lr, (step cfg s (.build lr)).2 = .err .noTicketSpec ∧ (step cfg s (.handshake lr)).2 = .err .noTicketSpec)
    ∧ (cfg.golang = false → cfg.custom = false → s.state = .pskInit → cfg.specP = false →
        (step cfg s .buildNoSession).2 = .err .noPskSpec ∧ ∀ lr, (step cfg s (.build lr)).2 = .err .noPskSpec ∧ (step cfg s (.handshake lr)).2 = .err .noPskSpec) := by
  intro s hd
  have hinv : inv cfg s = true := inv_final cfg _ (inv_start cfg hasCache) ops
  have hset : ∀ op, isSetter op = true → (cfg.disabled = true ∨ s.hasCache = false) → (step cfg s op).2 = .err .disabled := by
    intro op hop hu
    cases op with
    | setTicket a => rcases hu with hu | hu <;> simp [step, stepR, hd, setTicketOp, hu, failR, outcomeOf]
    | setPsk a => rcases hu with hu | hu <;> simp [step, stepR, hd, setPskOp, hu, failR, outcomeOf]
    | _ => simp [isSetter] at hop
  refine ⟨hset, ?_, ?_, ?_, ?_, ?_⟩
  · intro op hop hn1 hn2 hdis hc hl
    cases op with
    | setTicket a =>
      cases a <;> simp_all [step, stepR, setTicketOp, overrideTicket, docAssert, failR, okR, R.andThen, outcomeOf]
    | setPsk a =>
      cases a <;> simp_all [step, stepR, setPskOp, overridePsk, docAssert, failR, okR, R.andThen, outcomeOf]
    | _ => simp [isSetter] at hop
  · intro op hop hn1 hn2 hdis hc hl hst
    cases op with
    | setTicket a =>
      cases a <;> simp_all [step, stepR, setTicketOp, overrideTicket, docAssert, failR, okR, R.andThen, outcomeOf]
    | setPsk a =>
      cases a <;> simp_all [step, stepR, setPskOp, overridePsk, docAssert, failR, okR, R.andThen, outcomeOf]
    | _ => simp [isSetter] at hop
  · intro op hop hne
    obtain ⟨hasCache', state, locked, tracker, calling, status, tRef, pRef, specT, userT, specP, userP, lT, lP, hsS, hsE, hT, hP, raw, ts, shares, filled, held, done, bfresh⟩ := s
    simp only at hd; subst hd
    cases op with
    | setTicket a =>
      cases a <;> cases hu : (cfg.disabled || !hasCache') <;> cases locked <;> cases state <;>
        simp_all [step, stepR, setTicketOp, overrideTicket, docAssert, failR, okR, R.andThen, outcomeOf, sessionView, TArg.ext]
    | setPsk a =>
      cases a <;> cases hu : (cfg.disabled || !hasCache') <;> cases locked <;> cases state <;>
        simp_all [step, stepR, setPskOp, overridePsk, docAssert, failR, okR, R.andThen, outcomeOf, sessionView, PArg.ext]
    | _ => simp [isSetter] at hop
  · intro hg hc hst hT
    have hb := fun load lr => (build_spec_lacks cfg load lr s hg hc hinv hd).1 hst hT
    refine ⟨by simp [step, stepR, hd, outcomeOf, hb false .none], fun lr => ⟨by simp [step, stepR, hd, outcomeOf, hb true lr], ?_⟩⟩
    have := hb true lr
    simp only [step, stepR, hd, Bool.false_eq_true, if_false, handshake_eq, outcomeOf]
    generalize buildHandshakeState cfg true lr s = r at this ⊢
    obtain ⟨s1, o1⟩ := r
    simp only at this; subst this
    rfl
  · intro hg hc hst hP
    have hb := fun load lr => (build_spec_lacks cfg load lr s hg hc hinv hd).2 hst hP
    refine ⟨by simp [step, stepR, hd, outcomeOf, hb false .none], fun lr => ⟨by simp [step, stepR, hd, outcomeOf, hb true lr], ?_⟩⟩
    have := hb true lr
    simp only [step, stepR, hd, Bool.false_eq_true, if_false, handshake_eq, outcomeOf]
    generalize buildHandshakeState cfg true lr s = r at this ⊢
    obtain ⟨s1, o1⟩ := r
    simp only at this; subst this
    rfl

/-- In any call order — whatever builds, setters and edits of other ClientHello fields came before
— a `Handshake` that does not leave through an error / panic before the hello is written
(`stepR … = none`) and offers a PSK (`PskAllSet`) sends the binder that was computed
over exactly the bytes it sends: the build `Handshake` always performs re-marshals the hello *and*
recomputes the binder, also on a locked controller. (A controller that patches the binder only
on the first build would send the binder of the old bytes after any edit.) -/
theorem binder_of_bytes_sent (cfg : Cfg) (hasCache : Bool) (ops : List Op) (lr : LoadRes) :
    let s0 := final cfg (St.start cfg hasCache) ops
    s0.hsDone = false → (stepR cfg s0 (.handshake lr)).2 = none →
    (step cfg s0 (.handshake lr)).1.hsDone = true ∧
    ((step cfg s0 (.handshake lr)).1.state = .pskAllSet → (step cfg s0 (.handshake lr)).1.binderFresh = true) := by
  intro s0 hd hok
  have hinv : inv cfg s0 = true := inv_final cfg _ (inv_start cfg hasCache) ops
  cases hg : cfg.golang with
  | true =>
    have hi := (inv_step cfg s0 (.handshake lr) hinv).1
    have hb := build_golang_inv cfg true lr s0 hg hinv hd
    have hdone : (step cfg s0 (.handshake lr)).1.hsDone = true := by
      simp only [step, stepR, hd, Bool.false_eq_true, if_false, handshake_eq]
      generalize buildHandshakeState cfg true lr s0 = r at hb ⊢
      obtain ⟨s1, o1⟩ := r
      obtain ⟨h1, h2, -, h4, h5⟩ := hb
      simp only at h2; subst h2
      exact (hsTail_inv cfg lr s1 h1 (by simp [hg]) (fun _ => h5)).2.2
    refine ⟨hdone, ?_⟩
    intro hst
    simp only [inv, hg, if_true, Bool.and_eq_true, bne_iff_ne, ne_eq] at hi
    exact absurd hst hi.1.1.1.1.1.2.1.2
  | false =>
    have hbi := build_parrot_inv cfg true lr s0 hg hinv hd
    have hbf := build_binder_fresh cfg lr s0 hg hinv hd
    simp only [step, stepR, hd, Bool.false_eq_true, if_false, handshake_eq] at hok ⊢
    generalize buildHandshakeState cfg true lr s0 = r at hbi hbf hok ⊢
    obtain ⟨s1, o1⟩ := r
    cases o1 with
    | some o => simp [R.andThen] at hok
    | none =>
      have hl : s1.locked = true := hbi.2.2.2 rfl rfl
      have hf := hbf rfl
      simp only [R.andThen, hsTail, hl, if_true, okR]
      refine ⟨trivial, ?_⟩
      intro hst
      simp only [Bool.or_eq_true, bne_iff_ne, ne_eq] at hf
      rcases hf with hf | hf
      · exact absurd hst hf
      · exact hf

/-! ## documented call orders -/

/-- along a documented order the product invariant holds and every call returned `ok`. -/
private theorem legal_run (cfg : Cfg) (hwf : cfg.WF = true) :
    ∀ (ops : List Op) (s : St) (d d' : Doc), pinv cfg s d = true → legalRun cfg d ops = some d' →
      pinv cfg (final cfg s ops) d' = true ∧ ∀ o ∈ outcomes cfg s ops, o = .ok := by
  intro ops
  induction ops with
  | nil =>
    intro s d d' h hl
    simp only [legalRun, Option.some.injEq] at hl; subst hl
    exact ⟨h, by simp [outcomes_nil]⟩
  | cons op ops ih =>
    intro s d d' h hl
    simp only [legalRun] at hl
    cases hs : legalStep cfg d op with
    | none => simp [hs] at hl
    | some d1 =>
      simp only [hs] at hl
      have hstep := pinv_step cfg hwf s d d1 op h hs
      have := ih _ _ _ hstep.2 hl
      rw [final_cons, outcomes_cons]
      refine ⟨this.1, ?_⟩
      intro o ho
      rcases List.mem_cons.mp ho with rfl | ho
      · exact hstep.1
      · exact this.2 o ho

/-- Every call of an ordering the documentation allows succeeds: no error return, no panic. -/
theorem legal_all_ok (cfg : Cfg) (hwf : cfg.WF = true) (hasCache : Bool) (ops : List Op)
    (hl : Legal cfg hasCache ops = true) :
    ∀ o ∈ outcomes cfg (St.start cfg hasCache) ops, o = .ok := by
  simp only [Legal, Option.isSome_iff_exists] at hl
  obtain ⟨d', hd'⟩ := hl
  exact (legal_run cfg hwf ops _ _ d' (pinv_start cfg hasCache) hd').2

/-- what the product invariant says about an injected session ticket extension. -/
private theorem pinvRest_injT {cfg : Cfg} {s : St} {d : Doc} {a : TArg} (h : pinvRest cfg s d = true) (hi : d.injT = some a) :
    a.isInit = true ∧ cfg.specT = true ∧ cfg.golang = false ∧ cfg.custom = false ∧ s.tRef = some .user ∧ s.userT = a.ext
    ∧ (d.built = true → s.state = .ticketAllSet ∧ s.hsSession = a.ext.sess ∧ s.helloTicket = a.ext.ticket)
    ∧ (d.fresh = true → s.lT = some .user ∧ s.raw = some (slots s)) := by
  simp only [pinvRest, hi, Bool.and_eq_true, Bool.or_eq_true, beq_iff_eq, Bool.not_eq_true'] at h
  cases hb : d.built <;> cases hf : d.fresh <;> simp only [hb, hf, Bool.false_eq_true, if_false, if_true, Bool.and_eq_true, beq_iff_eq] at h <;> grind

private theorem pinvRest_injP {cfg : Cfg} {s : St} {d : Doc} {a : PArg} (h : pinvRest cfg s d = true) (hi : d.injP = some a) :
    a.isInit = true ∧ cfg.specP = true ∧ cfg.golang = false ∧ cfg.custom = false ∧ s.pRef = some .user ∧ s.userP = a.ext
    ∧ (d.built = true → s.state = .pskAllSet ∧ s.hsSession = a.ext.sess ∧ s.hsEarly = a.ext.sess ∧ s.helloPsk = a.ext.id)
    ∧ (d.fresh = true → s.lP = some .user ∧ s.raw = some (slots s)) := by
  simp only [pinvRest, hi, Bool.and_eq_true, Bool.or_eq_true, beq_iff_eq, Bool.not_eq_true'] at h
  cases hb : d.built <;> cases hf : d.fresh <;> simp only [hb, hf, Bool.false_eq_true, if_false, if_true, Bool.and_eq_true, beq_iff_eq] at h <;> grind

private theorem pinvRest_basic {cfg : Cfg} {s : St} {d : Doc} (h : pinvRest cfg s d = true) :
    (cfg.golang = false → d.built = s.locked)
    ∧ (d.done = true → s.raw.isSome = true)
    ∧ (d.built = true → s.sharesFilled = true ∧ s.keysHeld = true)
    ∧ (d.built = true → d.injected = true → d.fresh = true)
    ∧ (d.done = true → s.state = .pskAllSet → s.binderFresh = true) := by
  simp only [pinvRest, Bool.and_eq_true, Bool.or_eq_true, beq_iff_eq, bne_iff_ne, ne_eq, Bool.not_eq_true'] at h
  cases hg : cfg.golang <;> simp only [hg, Bool.false_eq_true, if_false, if_true, beq_iff_eq] at h <;> grind

/-- bytes `SessionTicketExtension.Read` emits (shared `Ext` model): type 35, length, the ticket. -/
theorem extBytes_sessionTicket (t : Bytes) : extBytes (.sessionTicket t) = u16 35 ++ u16 t.length ++ t := by
  simp [extBytes, Ext.read, Ext.early, Ext.need, Ext.len, Ext.late, Ext.typeId, Ext.lenField, Ext.body]

/-- the ticket bytes behind an initialised argument of `SetSessionTicketExtension` / `SetSessionState`. -/
def ticketBytes (m : Material) : TArg → Bytes
  | .real => m.userTicket
  | .forged => m.forgedTicket
  | _ => []

/-- On a documented order, once an initialised session ticket extension was supplied and a build
(`BuildHandshakeStateWithoutSession`, `BuildHandshakeState` or `Handshake`) ran after it, the
marshalled hello carries exactly the user's ticket — whatever the cache holds — for arbitrary ticket
bytes: the session_ticket extension is `35 ‖ len ‖ ticket`; after a full build the handshake state
also holds the user's session and ticket and the controller is locked. -/
theorem injected_verbatim (cfg : Cfg) (hwf : cfg.WF = true) (hasCache : Bool) (ops : List Op) (d' : Doc) (a : TArg)
    (hl : legalRun cfg (Doc.init cfg hasCache) ops = some d') (hinj : d'.injT = some a) (hfresh : d'.fresh = true)
    (m : Material) :
    let s := final cfg (St.start cfg hasCache) ops
    (render m s).1 = u16 35 ++ u16 (ticketBytes m a).length ++ ticketBytes m a
    ∧ (d'.built = true → s.hsSession = a.ext.sess ∧ s.helloTicket = a.ext.ticket ∧ s.locked = true) := by
  intro s
  have hp := (legal_run cfg hwf ops _ _ d' (pinv_start cfg hasCache) hl).1
  have hrest : pinvRest cfg s d' = true := by simp only [pinv, Bool.and_eq_true] at hp; exact hp.2
  obtain ⟨hinit, -, hg, -, -, hu, hbuilt, hfr⟩ := pinvRest_injT hrest hinj
  obtain ⟨hlT, hraw⟩ := hfr hfresh
  constructor
  · simp only [render, hraw, slots, slotsOf, hlT, hu]
    cases a <;> simp_all [TArg.isInit, TArg.ext, slotTicketExt, ticketBytes, Material.ticket, extBytes_sessionTicket]
  · intro hb
    obtain ⟨-, h2, h3⟩ := hbuilt hb
    exact ⟨h2, h3, by rw [← (pinvRest_basic hrest).1 hg, hb]⟩

/-- Same for an injected pre_shared_key extension: the marshalled pre_shared_key extension carries
exactly the user's identity (label and obfuscated age) and only it. -/
theorem injected_psk_verbatim (cfg : Cfg) (hwf : cfg.WF = true) (hasCache : Bool) (ops : List Op) (d' : Doc) (a : PArg)
    (hl : legalRun cfg (Doc.init cfg hasCache) ops = some d') (hinj : d'.injP = some a) (hfresh : d'.fresh = true)
    (m : Material) :
    let s := final cfg (St.start cfg hasCache) ops
    (render m s).2 = extBytes (.psk false true true [(m.pskLabel, m.pskAge)] [m.binder])
    ∧ (d'.built = true → s.hsSession = some .psk ∧ s.hsEarly = some .psk ∧ s.helloPsk = some .psk ∧ s.locked = true) := by
  intro s
  have hp := (legal_run cfg hwf ops _ _ d' (pinv_start cfg hasCache) hl).1
  have hrest : pinvRest cfg s d' = true := by simp only [pinv, Bool.and_eq_true] at hp; exact hp.2
  obtain ⟨hinit, -, hg, -, -, hu, hbuilt, hfr⟩ := pinvRest_injP hrest hinj
  obtain ⟨hlP, hraw⟩ := hfr hfresh
  have ha : a = .real := by cases a <;> simp_all [PArg.isInit]
  subst ha
  constructor
  · simp [render, hraw, slots, slotsOf, hlP, hu, PArg.ext, slotPskExt, Material.ticket, Material.age]
  · intro hb
    obtain ⟨-, h2, h3, h4⟩ := hbuilt hb
    simp only [PArg.ext] at h2 h3 h4
    exact ⟨h2, h3, h4, by rw [← (pinvRest_basic hrest).1 hg, hb]⟩

/-- the documentation automaton marks the run as done exactly when the last legal call was `Handshake`. -/
private theorem legalRun_handshake (cfg : Cfg) (ops : List Op) (lr : LoadRes) (d d' : Doc)
    (h : legalRun cfg d (ops ++ [.handshake lr]) = some d') : d'.done = true ∧ d'.built = true := by
  induction ops generalizing d with
  | nil =>
    simp only [List.nil_append, legalRun] at h
    cases hd : d.done <;> simp [legalStep, hd] at h
    subst h; simp
  | cons op ops ih =>
    simp only [List.cons_append, legalRun] at h
    cases hs : legalStep cfg d op with
    | none => simp [hs] at h
    | some d1 => simp only [hs] at h; exact ih d1 h

/-- Every documented order ending in `Handshake` — including any number of builds and edits of
other ClientHello fields (SetClientRandom, SNI, ALPN, …) before it: all calls succeed; the
handshake reaches the wire (`hsDone`, a marshalled hello) with the private keys of its key shares
retained, so the TLS 1.3 key-share check cannot fail whatever is negotiated; a PSK on the wire
carries the binder computed over exactly the bytes sent; an injected TLS 1.2 session is resumed when
TLS 1.2 is negotiated, an injected TLS 1.3 session when TLS 1.3 is. -/
theorem legal_handshakes (cfg : Cfg) (hwf : cfg.WF = true) (hasCache : Bool) (ops : List Op) (lr : LoadRes)
    (hl : Legal cfg hasCache (ops ++ [.handshake lr]) = true) :
    let s := final cfg (St.start cfg hasCache) (ops ++ [.handshake lr])
    (∀ o ∈ outcomes cfg (St.start cfg hasCache) (ops ++ [.handshake lr]), o = .ok)
    ∧ s.hsDone = true ∧ s.raw.isSome = true ∧ s.keysHeld = true
    ∧ (∀ n : Neg, hsCompletes n s = true)
    ∧ (s.state = .pskAllSet → s.binderFresh = true)
    ∧ (∀ d', legalRun cfg (Doc.init cfg hasCache) (ops ++ [.handshake lr]) = some d' →
        (d'.injT = some .real → ∀ n : Neg, n.tls13 = false → hsResumes n s = true)
        ∧ (d'.injP = some .real → (∀ n : Neg, n.tls13 = true → hsResumes n s = true) ∧ s.binderFresh = true)) := by
  intro s
  have hl' := hl
  simp only [Legal, Option.isSome_iff_exists] at hl'
  obtain ⟨d', hd'⟩ := hl'
  have hrun := legal_run cfg hwf _ _ _ d' (pinv_start cfg hasCache) hd'
  obtain ⟨hdone, hbuilt⟩ := legalRun_handshake cfg ops lr _ d' hd'
  have hp := hrun.1
  have hrest : pinvRest cfg s d' = true := by simp only [pinv, Bool.and_eq_true] at hp; exact hp.2
  have hsd : s.hsDone = true := by rw [pinv_done hp, hdone]
  obtain ⟨-, hraw, hkeys, hfr, hbind⟩ := pinvRest_basic hrest
  refine ⟨hrun.2, hsd, hraw hdone, (hkeys hbuilt).2, ?_, hbind hdone, ?_⟩
  · intro n; simp [hsCompletes, (hkeys hbuilt).2]
  · intro d'' hd''
    rw [hd'] at hd''
    simp only [Option.some.injEq] at hd''; subst hd''
    constructor
    · intro hinj n hn
      obtain ⟨-, -, -, -, -, hu, hb, hf⟩ := pinvRest_injT hrest hinj
      obtain ⟨hlT, hr⟩ := hf (hfr hbuilt (by simp [Doc.injected, hinj]))
      obtain ⟨-, hs1, -⟩ := hb hbuilt
      simp [hsResumes, hr, hn, slots, slotsOf, hlT, hu, hs1, TArg.ext]
    · intro hinj
      obtain ⟨-, -, -, -, -, hu, hb, hf⟩ := pinvRest_injP hrest hinj
      obtain ⟨hlP, hr⟩ := hf (hfr hbuilt (by simp [Doc.injected, hinj]))
      obtain ⟨hst, hs1, -, -⟩ := hb hbuilt
      refine ⟨?_, hbind hdone hst⟩
      intro n hn
      simp [hsResumes, hr, hn, slots, slotsOf, hlP, hu, hs1, PArg.ext]

/-! ## non-vacuity: concrete documented orders on concrete configurations -/

/-- Chrome 100 PSK-like parrot: both extensions in the spec, predefined id. -/
def pskParrot : Cfg := ⟨false, false, true, true, true, false⟩
/-- Chrome 100-like parrot: session_ticket only. -/
def ticketParrot : Cfg := ⟨false, false, true, false, true, false⟩

/-- SetSessionCache; BuildHandshakeStateWithoutSession; SetPskExtension(real); BuildHandshakeState; Handshake. -/
def orderPsk : List Op := [.setCache, .buildNoSession, .setPsk .real, .build .s12, .handshake .s12]
/-- SetSessionCache; SetSessionState(real ticket); BuildHandshakeStateWithoutSession; Handshake (cache holds another 1.2 session). -/
def orderTicket : List Op := [.setCache, .setTicket .real, .buildNoSession, .handshake .s12]

example : pskParrot.WF = true ∧ Legal pskParrot false orderPsk = true ∧ Legal ticketParrot false orderTicket = true := by decide
example : outcomes pskParrot (St.start pskParrot false) orderPsk = [.ok, .ok, .ok, .ok, .ok] := by decide
example : (final ticketParrot (St.start ticketParrot false) orderTicket).raw = some (.tok .user, .absent) := by decide
example : (final pskParrot (St.start pskParrot false) orderPsk).raw = some (.empty, .tok .psk)
    ∧ (final pskParrot (St.start pskParrot false) orderPsk).locked = true
    ∧ (final pskParrot (St.start pskParrot false) orderPsk).keysHeld = true := by decide
/-- `injected_verbatim`'s hypotheses are met by `orderTicket`. -/
example : ∃ d', legalRun ticketParrot (Doc.init ticketParrot false) orderTicket = some d' ∧ d'.injT = some .real ∧ d'.fresh = true ∧ d'.built = true :=
  ⟨_, rfl, by decide, by decide, by decide⟩
/-- `injected_psk_verbatim`'s hypotheses are met by `orderPsk`. -/
example : ∃ d', legalRun pskParrot (Doc.init pskParrot false) orderPsk = some d' ∧ d'.injP = some .real ∧ d'.fresh = true :=
  ⟨_, rfl, by decide, by decide⟩
/-- SetSessionCache; SetPskExtension(real); BuildHandshakeState; an edit (SetClientRandom); Handshake. -/
def orderPskEdit : List Op := [.setCache, .setPsk .real, .build .none, .edit, .handshake .none]
/-- `binder_of_bytes_sent` / `legal_handshakes`: a build, an edit, then Handshake on a locked controller —
legal, and the binder is the one of the bytes sent. -/
example : Legal pskParrot false orderPskEdit = true
    ∧ outcomes pskParrot (St.start pskParrot false) orderPskEdit = [.ok, .ok, .ok, .ok, .ok]
    ∧ (final pskParrot (St.start pskParrot false) orderPskEdit).state = .pskAllSet
    ∧ (final pskParrot (St.start pskParrot false) orderPskEdit).binderFresh = true
    ∧ (final pskParrot (St.start pskParrot false) (orderPskEdit.take 4)).locked = true := by decide
/-- forbidden calls exist and are refused: a second injection, a setter after the build, a setter without a cache. -/
example : outcomes ticketParrot (St.start ticketParrot true) [.setTicket .real, .setTicket .forged] = [.ok, .panic .documented .state]
    ∧ outcomes ticketParrot (St.start ticketParrot true) [.build .none, .setTicket .real] = [.ok, .panic .documented .locked]
    ∧ outcomes ticketParrot (St.start ticketParrot false) [.setTicket .real] = [.err .disabled]
    ∧ outcomes ticketParrot (St.start ticketParrot true) [.setPsk .real, .build .none] = [.ok, .err .noPskSpec] := by decide
/-- `locked_immutable`'s hypothesis is met after any full build. -/
example : (final ticketParrot (St.start ticketParrot true) [.setTicket .real, .build .s12]).locked = true := by decide
/-- the rendered ticket extension for concrete bytes. -/
example : extBytes (.sessionTicket [1, 2, 3]) = [0, 35, 0, 3, 1, 2, 3] := by decide

end C20
