import UtlsVerif.CertComp
import UtlsVerif.CertCompLemmas
/-!
# C21 — compressed server certificates are recovered exactly

Model: `CertComp` (transcription of the repaired `decompressCert`, the CompressedCertificate
codec, `certificateMsgTLS13.unmarshal` and the certificate step of `readServerCertificate`).
The three codecs are an uninterpreted `Decoder`; its output is an abstract `io.Reader` that hands
out the decompressed bytes in an **arbitrary chunking** (`Reader.chunks`, pieces may be empty, the
final status may come with the last piece or after it).  Everything below is for *every*
chunking; the codec law "the decoder's stream is the certificate message, ending cleanly" is an
explicit hypothesis (`dec m.alg m.payload = some r ∧ r.chunks.flatten = cert ∧ r.term = .eof`).

* `chunking_irrelevant`      — the decision is a function of the flattened data and of how the
                               stream ends only (this is what one `Read` does not have — D14).
* `recover_any_chunking`     — advertised ∧ supported ∧ stream = cert ∧ declared = |cert| ⇒ exactly
                               `cert` is recovered (and parsed), for every chunking.
* `length_mismatch_aborts`   — declared ≠ |stream| (shorter **or longer**) ⇒ abort `bad_certificate`.
* `longer_is_detected`       — the longer case names its return statement (the probe read).
* `decode_error_aborts`      — a stream that ends in a decoder error ⇒ abort `bad_certificate`.
* `unadvertised_aborts`      — algorithm not advertised ⇒ abort `bad_certificate`, nothing allocated.
* `too_large_aborts`         — declared length above the certificate-message limit ⇒ abort
                               `bad_certificate`, nothing allocated (D18).
* `alloc_bounded`, `step_alloc_bounded` — the allocation never exceeds `maxHandshakeCertificateMsg + 4`.
* `accept_sound`             — whatever is accepted is exactly the decoder's complete stream,
                               cleanly ended, of the declared length, under an advertised algorithm:
                               never a different certificate message.
* `transcript_uses_compressed`, `plain_certificate_transcript`, `handshake_recovers`,
  `compressed_without_extension_aborts` — the certificate step of the handshake: the
  CompressedCertificate bytes as received are what is hashed.
* `unmarshal_marshal`, `unmarshal_ignores_trailing`, `marshal_frame` — the message codec.
* `results_depend_on_own_call_only`, `recovered_independent_of_later_calls` — for every sequence of
  calls: each result is the decision for its own inputs, and the buffer a successful call handed
  out still holds the recovered message after all later calls (fresh value, no shared scratch).
* `step_accept_sound`, `stale_algorithms_not_accepted` — for every sequence of presets only the
  hello finally sent decides which algorithms are accepted.
-/
namespace C21
open CertComp Wire

/-! ## helpers -/

private theorem decision_open {adv : List Nat} {m : CompMsg} {dec : Decoder} {r : Reader}
    (hadv : m.alg ∈ adv) (hmax : m.declared ≤ maxCertMsg) (hsup : supported m.alg = true)
    (hdec : dec m.alg m.payload = some r) :
    decompressDecision adv m dec = readDeclared m.declared r := by
  have h1 : ¬ (maxCertMsg < m.declared) := by omega
  simp [decompressDecision, hadv, h1, hsup, hdec]

/-! ## the decision does not depend on the chunking -/

/-- Two readers that deliver the same bytes and end the same way — in *any* two chunkings, with
or without empty pieces, reporting the end with or after the last piece — lead to the same
result, allocation included. -/
theorem chunking_irrelevant (declared : Nat) (r r' : Reader)
    (hflat : r.chunks.flatten = r'.chunks.flatten) (hterm : r.term = r'.term) :
    readDeclared declared r = readDeclared declared r' := by
  rw [readDeclared_eq_spec, readDeclared_eq_spec]
  simp [Reader.flat, hflat, hterm]

/-! ## exact recovery -/

/-- **Exact recovery for every chunking.** If the algorithm was advertised and is one of
zlib/brotli/zstd, the decoder's stream — in whatever pieces — is the certificate message `cert`
and ends cleanly, the declared length is `|cert|` (within the certificate-message limit) and
`cert` is a well-formed Certificate message, then the client recovers exactly `cert`. -/
theorem recover_any_chunking (adv : List Nat) (m : CompMsg) (dec : Decoder) (r : Reader)
    (cert : Bytes) (pc : CertMsg)
    (hadv : m.alg ∈ adv) (hsup : supported m.alg = true)
    (hdec : dec m.alg m.payload = some r)
    (hchunks : r.chunks.flatten = cert) (hterm : r.term = .eof)
    (hlen : m.declared = cert.length) (hmax : cert.length ≤ maxCertMsg)
    (hparse : parseCertMsg cert = some pc) :
    (decompressDecision adv m dec).outcome = .ok cert pc := by
  rw [decision_open hadv (by omega) hsup hdec, readDeclared_eq_spec]
  have hf : r.flat = cert := hchunks
  simp [streamSpec, hf, hterm, hlen, hparse]

/-! ## every mismatch aborts with bad_certificate -/

/-- **Length mismatch, shorter or longer.** Whenever the algorithm was advertised and the
decoder's stream does not have the declared length, the handshake is aborted with
`bad_certificate` — whatever the chunking, however the stream ends, whatever the algorithm id. -/
theorem length_mismatch_aborts (adv : List Nat) (m : CompMsg) (dec : Decoder) (r : Reader)
    (hadv : m.alg ∈ adv) (hdec : dec m.alg m.payload = some r)
    (hne : m.declared ≠ r.chunks.flatten.length) :
    ∃ w, (decompressDecision adv m dec).outcome = .abort .badCertificate w := by
  by_cases h1 : maxCertMsg < m.declared
  · exact ⟨.tooLarge, by simp [decompressDecision, hadv, h1]⟩
  · by_cases hsup : supported m.alg = true
    · rw [decision_open hadv (by omega) hsup hdec, readDeclared_eq_spec]
      have hf : r.flat.length = r.chunks.flatten.length := rfl
      by_cases h2 : m.declared < r.flat.length
      · exact ⟨.long, by simp [streamSpec, h2]⟩
      · have h3 : r.flat.length < m.declared := by omega
        cases ht : r.term with
        | eof => exact ⟨.short, by simp [streamSpec, h2, h3]⟩
        | trunc => exact ⟨.short, by simp [streamSpec, h2, h3]⟩
        | err => exact ⟨.decodeErr, by simp [streamSpec, h2, h3]⟩
    · exact ⟨.unsupported, by simp [decompressDecision, hadv, h1, hsup]⟩

/-- The longer case is caught by the probe read after the declared length: the data is cut at
`declared` and **not** handed on as a certificate message. -/
theorem longer_is_detected (adv : List Nat) (m : CompMsg) (dec : Decoder) (r : Reader)
    (hadv : m.alg ∈ adv) (hsup : supported m.alg = true) (hmax : m.declared ≤ maxCertMsg)
    (hdec : dec m.alg m.payload = some r) (hlong : m.declared < r.chunks.flatten.length) :
    decompressDecision adv m dec = ⟨.abort .badCertificate .long, m.declared + 4⟩ := by
  rw [decision_open hadv hmax hsup hdec, readDeclared_eq_spec]
  have h2 : m.declared < r.flat.length := hlong
  simp [streamSpec, h2]

/-- A stream that does not end cleanly (corrupt or truncated input, checksum mismatch, garbage
after the end) is never accepted, even when the declared number of bytes came out first. -/
theorem decode_error_aborts (adv : List Nat) (m : CompMsg) (dec : Decoder) (r : Reader)
    (hdec : dec m.alg m.payload = some r) (hterm : r.term ≠ .eof) :
    ∃ w, (decompressDecision adv m dec).outcome = .abort .badCertificate w := by
  by_cases hadv : m.alg ∈ adv
  · by_cases h1 : maxCertMsg < m.declared
    · exact ⟨.tooLarge, by simp [decompressDecision, hadv, h1]⟩
    · by_cases hsup : supported m.alg = true
      · have hd : decompressDecision adv m dec = readDeclared m.declared r := by
          simp [decompressDecision, hadv, h1, hsup, hdec]
        rw [hd, readDeclared_eq_spec]
        by_cases h2 : m.declared < r.flat.length
        · exact ⟨.long, by simp [streamSpec, h2]⟩
        · by_cases h3 : r.flat.length < m.declared
          · cases ht : r.term with
            | eof => exact absurd ht hterm
            | trunc => exact ⟨.short, by simp [streamSpec, h2, h3]⟩
            | err => exact ⟨.decodeErr, by simp [streamSpec, h2, h3]⟩
          · cases ht : r.term with
            | eof => exact absurd ht hterm
            | trunc => exact ⟨.trailingErr, by simp [streamSpec, h2, h3]⟩
            | err => exact ⟨.trailingErr, by simp [streamSpec, h2, h3]⟩
      · exact ⟨.unsupported, by simp [decompressDecision, hadv, h1, hsup]⟩
  · exact ⟨.unadvertised, by simp [decompressDecision, hadv]⟩

/-- **Unadvertised algorithm.** Abort with `bad_certificate` before any decoder is created or
anything is allocated. -/
theorem unadvertised_aborts (adv : List Nat) (m : CompMsg) (dec : Decoder) (h : m.alg ∉ adv) :
    decompressDecision adv m dec = ⟨.abort .badCertificate .unadvertised, 0⟩ := by
  simp [decompressDecision, h]

/-- **D18 repair.** A declared length above the certificate-message limit is rejected with
`bad_certificate` and nothing is allocated. -/
theorem too_large_aborts (adv : List Nat) (m : CompMsg) (dec : Decoder) (hadv : m.alg ∈ adv)
    (h : maxCertMsg < m.declared) :
    decompressDecision adv m dec = ⟨.abort .badCertificate .tooLarge, 0⟩ := by
  simp [decompressDecision, hadv, h]

/-! ## allocation -/

private theorem streamSpec_alloc (n : Nat) (flat : Bytes) (t : Term) : (streamSpec n flat t).alloc = n + 4 := by
  unfold streamSpec
  split
  · rfl
  · split
    · rfl
    · cases t
      · simp only; cases parseCertMsg flat <;> rfl
      · rfl
      · rfl

/-- **Allocation bound.** For every message, advertised list and decoder behaviour, the buffer
`decompressCert` allocates from the peer-declared length is at most
`maxHandshakeCertificateMsg + 4` bytes (0 when it aborts before allocating). -/
theorem alloc_bounded (adv : List Nat) (m : CompMsg) (dec : Decoder) :
    (decompressDecision adv m dec).alloc ≤ maxCertMsg + 4 := by
  unfold decompressDecision
  split
  · simp
  · split
    · simp
    · split
      · simp
      · split
        · simp
        · rename_i h _ _ _
          rw [readDeclared_eq_spec, streamSpec_alloc]; omega

/-! ## soundness: nothing else is ever accepted -/

/-- **Never a different certificate.** If `decompressCert` accepts a message body, then the
algorithm was advertised and supported, and the body is exactly the complete output of the
decoder on the received bytes (all pieces, in order), cleanly ended, of exactly the declared
length, within the limit, and `pc` is its parse. With the codec law `decode (encode x) = x` this
is: the client never accepts a certificate message other than the one that was compressed. -/
theorem accept_sound (adv : List Nat) (m : CompMsg) (dec : Decoder) (body : Bytes) (pc : CertMsg)
    (hok : (decompressDecision adv m dec).outcome = .ok body pc) :
    m.alg ∈ adv ∧ supported m.alg = true ∧ m.declared ≤ maxCertMsg ∧
    ∃ r, dec m.alg m.payload = some r ∧ r.chunks.flatten = body ∧ r.term = .eof ∧
      body.length = m.declared ∧ parseCertMsg body = some pc := by
  by_cases hadv : m.alg ∈ adv
  · by_cases h1 : maxCertMsg < m.declared
    · simp [decompressDecision, hadv, h1] at hok
    · by_cases hsup : supported m.alg = true
      · cases hdec : dec m.alg m.payload with
        | none => simp [decompressDecision, hadv, h1, hsup, hdec] at hok
        | some r =>
          have hd : decompressDecision adv m dec = readDeclared m.declared r := by
            simp [decompressDecision, hadv, h1, hsup, hdec]
          rw [hd, readDeclared_eq_spec] at hok
          refine ⟨hadv, hsup, by omega, r, rfl, ?_⟩
          by_cases h2 : m.declared < r.flat.length
          · simp [streamSpec, h2] at hok
          · by_cases h3 : r.flat.length < m.declared
            · simp [streamSpec, h2, h3] at hok
            · cases ht : r.term with
              | err => simp [streamSpec, h2, h3, ht] at hok
              | trunc => simp [streamSpec, h2, h3, ht] at hok
              | eof =>
                cases hp : parseCertMsg r.flat with
                | none => simp [streamSpec, h2, h3, ht, hp] at hok
                | some c =>
                  simp [streamSpec, h2, h3, ht, hp] at hok
                  obtain ⟨hb, hc⟩ := hok
                  have hf : r.chunks.flatten = r.flat := rfl
                  refine ⟨by rw [hf, hb], rfl, by rw [← hb]; omega, by rw [← hb, ← hc]; exact hp⟩
      · simp [decompressDecision, hadv, h1, hsup] at hok
  · simp [decompressDecision, hadv] at hok

/-! ## the message codec -/

private theorem compBody_length (m : CompMsg) : (compBody m).length = 8 + m.payload.length := by
  simp [compBody]; omega

private theorem unmarshal_of_body (m : CompMsg) (h : m.WF) (a b c d : UInt8) (extra : Bytes) :
    unmarshal (a :: b :: c :: d :: (compBody m ++ extra)) = some m := by
  obtain ⟨h1, h2, h3⟩ := h
  have hp : m.payload.length < 16777216 := by omega
  have e1 : readU16 (u16 m.alg ++ (u24 m.declared ++ (vec24 m.payload ++ extra))) =
      some (m.alg % 65536, u24 m.declared ++ (vec24 m.payload ++ extra)) := readU16_u16 _ _
  have e2 : readU24 (u24 m.declared ++ (vec24 m.payload ++ extra)) =
      some (m.declared % 16777216, vec24 m.payload ++ extra) := readU24_u24 _ _
  have e3 : readVec24 (vec24 m.payload ++ extra) = some (m.payload, extra) := readVec24_vec24 _ _ hp
  have hd : List.drop 4 (a :: b :: c :: d :: (compBody m ++ extra)) =
      u16 m.alg ++ (u24 m.declared ++ (vec24 m.payload ++ extra)) := by
    simp [compBody, List.append_assoc]
  have hl : ¬ ((a :: b :: c :: d :: (compBody m ++ extra)).length < 4) := by simp
  unfold unmarshal
  rw [if_neg hl, hd, e1]
  simp only [e2, e3, Nat.mod_eq_of_lt h1, Nat.mod_eq_of_lt h2]

/-- **Codec round trip**, also with trailing bytes: a message with in-range fields marshals, and
`unmarshal` of the result (followed by anything) gives the message back. -/
theorem unmarshal_ignores_trailing (m : CompMsg) (h : m.WF) (extra : Bytes) :
    ∃ bs, marshal m = some bs ∧ unmarshal (bs ++ extra) = some m := by
  have hb := compBody_length m
  have h3 := h.2.2
  have hno : ¬ (16777216 ≤ m.payload.length ∨ 16777216 ≤ (compBody m).length) := by omega
  refine ⟨u8 typeCompressedCertificate ++ vec24 (compBody m), by simp [marshal, hno], ?_⟩
  have : u8 typeCompressedCertificate ++ vec24 (compBody m) ++ extra =
      b typeCompressedCertificate :: b ((compBody m).length / 65536) :: b ((compBody m).length / 256) ::
        b (compBody m).length :: (compBody m ++ extra) := by
    simp [u8, vec24, u24]
  rw [this]
  exact unmarshal_of_body m h _ _ _ _ extra

/-- **Codec round trip**: `unmarshal (marshal m) = m` for every message with in-range fields. -/
theorem unmarshal_marshal (m : CompMsg) (h : m.WF) :
    ∃ bs, marshal m = some bs ∧ unmarshal bs = some m := by
  obtain ⟨bs, h1, h2⟩ := unmarshal_ignores_trailing m h []
  exact ⟨bs, h1, by simpa using h2⟩

/-- **Framing**: the marshalled message is `25 ‖ uint24 length ‖ body` with the length field
equal to the number of bytes that follow, and the body is algorithm, uncompressed length and the
uint24-prefixed payload. -/
theorem marshal_frame (m : CompMsg) (bs : Bytes) (h : marshal m = some bs) :
    bs = u8 typeCompressedCertificate ++ u24 (bs.length - 4) ++
      (u16 m.alg ++ u24 m.declared ++ u24 m.payload.length ++ m.payload) ∧
    bs.length = 12 + m.payload.length ∧ bs.length - 4 < 16777216 := by
  unfold marshal at h
  split at h
  · simp at h
  · rename_i hno
    have hb := compBody_length m
    injection h with h
    subst h
    refine ⟨?_, by simp [hb]; omega, by simp [hb]; omega⟩
    have : (u8 typeCompressedCertificate ++ vec24 (compBody m)).length - 4 = (compBody m).length := by
      simp; omega
    rw [this]
    simp [vec24, compBody, List.append_assoc]

/-! ## the certificate step of the handshake: what is hashed -/

private theorem step_compressed (ctx : ClientCtx) (dec : Decoder) (t a b c : UInt8) (body : Bytes)
    (ht : t.toNat = typeCompressedCertificate) (hsz : body.length ≤ maxCertMsg) (m : CompMsg)
    (hm : unmarshal (t :: a :: b :: c :: body) = some m) (hext : (ctx.hasExt && !ctx.adv.isEmpty) = true) :
    readServerCert ctx (t :: a :: b :: c :: body) dec =
      (match (decompressDecision ctx.adv m dec).outcome with
       | .ok bd cm =>
         if cm.certs.isEmpty then ⟨[t :: a :: b :: c :: body], .abort .decodeError .emptyCerts, (decompressDecision ctx.adv m dec).alloc⟩
         else ⟨[t :: a :: b :: c :: body], .ok bd cm, (decompressDecision ctx.adv m dec).alloc⟩
       | o => ⟨[t :: a :: b :: c :: body], o, (decompressDecision ctx.adv m dec).alloc⟩) := by
  have hlim : ¬ (sizeLimit typeCompressedCertificate < body.length) := by
    simp [sizeLimit, typeCompressedCertificate, typeCertificate]; exact hsz
  simp only [readServerCert, ht, hlim, if_false, if_true, hm, hext]
  cases (decompressDecision ctx.adv m dec).outcome <;> rfl

/-- The allocation bound also holds for the whole certificate step, whatever message arrives. -/
theorem step_alloc_bounded (ctx : ClientCtx) (raw : Bytes) (dec : Decoder) :
    (readServerCert ctx raw dec).alloc ≤ maxCertMsg + 4 := by
  match raw with
  | t :: a :: bb :: c :: rest =>
    by_cases h25 : t.toNat = typeCompressedCertificate
    · by_cases hsz : sizeLimit typeCompressedCertificate < rest.length
      · simp [readServerCert, h25, hsz]
      · cases hm : unmarshal (t :: a :: bb :: c :: rest) with
        | none => simp [readServerCert, hsz, h25, hm]
        | some m =>
          by_cases hext : (ctx.hasExt && !ctx.adv.isEmpty) = true
          · have hsz' : rest.length ≤ maxCertMsg := by
              simp [sizeLimit, typeCompressedCertificate, typeCertificate] at hsz; exact hsz
            rw [step_compressed ctx dec t a bb c rest h25 hsz' m hm hext]
            have key := alloc_bounded ctx.adv m dec
            cases ho : (decompressDecision ctx.adv m dec).outcome with
            | ok bd cm => by_cases hc : cm.certs.isEmpty = true <;> simp [hc] <;> exact key
            | abort al w => simpa using key
          · simp [readServerCert, hsz, h25, hm, hext]
    · by_cases hsz : sizeLimit t.toNat < rest.length
      · simp [readServerCert, hsz]
      · by_cases h11 : t.toNat = typeCertificate
        · have hsz2 := hsz
          rw [h11] at hsz2
          have hn : ¬ (typeCertificate = typeCompressedCertificate) := by decide
          cases hp : parseCertMsg rest with
          | none => simp [readServerCert, hsz2, h11, hn, hp]
          | some cm => by_cases hc : cm.certs.isEmpty = true <;> simp [readServerCert, hsz2, h11, hn, hp, hc]
        · simp [readServerCert, hsz, h25, h11]
  | [] => simp [readServerCert]
  | [_] => simp [readServerCert]
  | [_, _] => simp [readServerCert]
  | [_, _, _] => simp [readServerCert]

/-- **The transcript gets the compressed message.** When the server's certificate arrives as a
CompressedCertificate and the step succeeds, exactly one message was written to the transcript
hash: the CompressedCertificate bytes as received — not the Certificate message rebuilt from
the decompressed data. -/
theorem transcript_uses_compressed (ctx : ClientCtx) (raw : Bytes) (dec : Decoder)
    (body : Bytes) (pc : CertMsg)
    (hty : raw.head? = some (b typeCompressedCertificate))
    (hok : (readServerCert ctx raw dec).outcome = .ok body pc) :
    (readServerCert ctx raw dec).transcript = [raw] ∧
    certRaw body ∉ (readServerCert ctx raw dec).transcript := by
  match raw, hty with
  | t :: a :: bb :: c :: rest, hty =>
    have ht : t = b typeCompressedCertificate := by simpa using hty
    have htn : t.toNat = typeCompressedCertificate := by rw [ht]; decide
    by_cases hsz : sizeLimit typeCompressedCertificate < rest.length
    · simp [readServerCert, htn, hsz] at hok
    · have hsz' : rest.length ≤ maxCertMsg := by
        simp [sizeLimit, typeCompressedCertificate, typeCertificate] at hsz; exact hsz
      cases hm : unmarshal (t :: a :: bb :: c :: rest) with
      | none => simp [readServerCert, hsz, htn, hm] at hok
      | some m =>
        by_cases hext : (ctx.hasExt && !ctx.adv.isEmpty) = true
        · rw [step_compressed ctx dec t a bb c rest htn hsz' m hm hext] at hok ⊢
          have hne : certRaw body ≠ t :: a :: bb :: c :: rest := by
            intro he
            have : (certRaw body).head? = some t := by rw [he]; rfl
            rw [ht] at this
            revert this
            simp [certRaw, u8]
            decide
          cases ho : (decompressDecision ctx.adv m dec).outcome with
          | ok bd cm =>
            rw [ho] at hok
            by_cases hc : cm.certs.isEmpty = true
            · simp [hc] at hok
            · simp only [hc] at hok ⊢
              exact ⟨rfl, by simpa using hne⟩
          | abort al w => rw [ho] at hok; simp at hok
        · simp [readServerCert, hsz, htn, hm, hext] at hok
  | [_], hty => simp [readServerCert] at hok
  | [_, _], hty => simp [readServerCert] at hok
  | [_, _, _], hty => simp [readServerCert] at hok

/-- A plain Certificate message is hashed as received. -/
theorem plain_certificate_transcript (ctx : ClientCtx) (raw : Bytes) (dec : Decoder)
    (body : Bytes) (pc : CertMsg)
    (hty : raw.head? = some (b typeCertificate))
    (hok : (readServerCert ctx raw dec).outcome = .ok body pc) :
    (readServerCert ctx raw dec).transcript = [raw] ∧ (readServerCert ctx raw dec).alloc = 0 := by
  match raw, hty with
  | t :: a :: bb :: c :: rest, hty =>
    have ht : t = b typeCertificate := by simpa using hty
    have htn : t.toNat = typeCertificate := by rw [ht]; decide
    have hn25 : ¬ (typeCertificate = typeCompressedCertificate) := by decide
    by_cases hsz : sizeLimit typeCertificate < rest.length
    · simp [readServerCert, htn, hsz] at hok
    · cases hp : parseCertMsg rest with
      | none => simp [readServerCert, hsz, htn, hn25, hp] at hok
      | some cm =>
        by_cases hc : cm.certs.isEmpty = true
        · simp [readServerCert, hsz, htn, hn25, hp, hc] at hok
        · simp [readServerCert, hsz, htn, hn25, hp, hc]
  | [_], hty => simp [readServerCert] at hok
  | [_, _], hty => simp [readServerCert] at hok
  | [_, _, _], hty => simp [readServerCert] at hok

/-- **End to end for the certificate step.** A client with the compress_certificate extension
that advertised the algorithm receives `marshal m` (within the 256 KiB limit `readHandshake`
applies to certificate messages, compressed or not), the decoder's stream — in any chunking — is the non-empty
certificate message `cert`: the step succeeds with exactly `cert`, having hashed exactly the
received CompressedCertificate bytes and allocated `|cert| + 4` bytes. -/
theorem handshake_recovers (ctx : ClientCtx) (m : CompMsg) (dec : Decoder) (r : Reader)
    (raw cert : Bytes) (pc : CertMsg)
    (hext : ctx.hasExt = true) (hadv : m.alg ∈ ctx.adv) (hsup : supported m.alg = true)
    (hwf : m.WF) (hraw : marshal m = some raw) (hsize : raw.length ≤ 4 + maxCertMsg)
    (hdec : dec m.alg m.payload = some r)
    (hchunks : r.chunks.flatten = cert) (hterm : r.term = .eof)
    (hlen : m.declared = cert.length) (hmax : cert.length ≤ maxCertMsg)
    (hparse : parseCertMsg cert = some pc) (hne : pc.certs ≠ []) :
    readServerCert ctx raw dec = ⟨[raw], .ok cert pc, cert.length + 4⟩ := by
  obtain ⟨bs, hb1, hb2⟩ := unmarshal_marshal m hwf
  rw [hraw] at hb1
  injection hb1 with hb1
  subst hb1
  obtain ⟨hfr, hlen12, _⟩ := marshal_frame m raw hraw
  have hcons : ∃ a bb c rest, raw = b typeCompressedCertificate :: a :: bb :: c :: rest := by
    refine ⟨b ((raw.length - 4) / 65536), b ((raw.length - 4) / 256), b (raw.length - 4),
      u16 m.alg ++ u24 m.declared ++ u24 m.payload.length ++ m.payload, ?_⟩
    calc raw = _ := hfr
      _ = _ := by simp [u8, u24]
  obtain ⟨a, bb, c, rest, hr⟩ := hcons
  have hrest : rest.length ≤ maxCertMsg := by
    have : raw.length = 4 + rest.length := by rw [hr]; simp; omega
    omega
  have htn : (b typeCompressedCertificate).toNat = typeCompressedCertificate := by decide
  have hadvne : ctx.adv.isEmpty = false := by
    cases h : ctx.adv with
    | nil => rw [h] at hadv; simp at hadv
    | cons _ _ => rfl
  have hext' : (ctx.hasExt && !ctx.adv.isEmpty) = true := by simp [hext, hadvne]
  rw [hr] at hb2 ⊢
  rw [step_compressed ctx dec _ a bb c rest htn hrest m hb2 hext']
  have hout := recover_any_chunking ctx.adv m dec r cert pc hadv hsup hdec hchunks hterm hlen hmax hparse
  have hal : (decompressDecision ctx.adv m dec).alloc = cert.length + 4 := by
    rw [decision_open hadv (by omega) hsup hdec, readDeclared_eq_spec, streamSpec_alloc, hlen]
  have hce : pc.certs.isEmpty = false := by
    cases h : pc.certs with
    | nil => exact absurd h hne
    | cons _ _ => rfl
  rw [hout]
  simp [hce, hal]

/-- A CompressedCertificate sent to a client that has no compress_certificate extension (or an
empty algorithm list) never yields a certificate: the handshake is aborted, nothing is hashed,
nothing is allocated. -/
theorem compressed_without_extension_aborts (ctx : ClientCtx) (raw : Bytes) (dec : Decoder)
    (hty : raw.head? = some (b typeCompressedCertificate))
    (hno : (ctx.hasExt && !ctx.adv.isEmpty) = false) :
    ∃ al w, readServerCert ctx raw dec = ⟨[], .abort al w, 0⟩ := by
  match raw, hty with
  | t :: a :: bb :: c :: rest, hty =>
    have ht : t = b typeCompressedCertificate := by simpa using hty
    have htn : t.toNat = typeCompressedCertificate := by rw [ht]; decide
    by_cases hsz : sizeLimit typeCompressedCertificate < rest.length
    · exact ⟨.internalError, .oversize, by simp [readServerCert, htn, hsz]⟩
    · cases hm : unmarshal (t :: a :: bb :: c :: rest) with
      | none => exact ⟨.unexpectedMessage, .malformed, by simp [readServerCert, hsz, htn, hm]⟩
      | some m => exact ⟨.unexpectedMessage, .noExtension, by simp [readServerCert, hsz, htn, hm, hno]⟩
  | [_], hty => exact ⟨.unexpectedMessage, .malformed, by simp [readServerCert]⟩
  | [_, _], hty => exact ⟨.unexpectedMessage, .malformed, by simp [readServerCert]⟩
  | [_, _, _], hty => exact ⟨.unexpectedMessage, .malformed, by simp [readServerCert]⟩

/-! ## results across calls and connections; hellos rebuilt from several presets -/

private theorem callDecompress_heap (h : Heap) (c : Call) :
    ∃ ext, (callDecompress h c).1 = h ++ ext := by
  unfold callDecompress
  by_cases h0 : (decompressDecision c.adv c.msg c.dec).alloc = 0
  · exact ⟨[], by simp [h0]⟩
  · exact ⟨[bufferOf (decompressDecision c.adv c.msg c.dec)], by simp [h0]⟩

private theorem runCalls_heap : ∀ (cs : List Call) (h : Heap), ∃ ext, (runCalls h cs).1 = h ++ ext := by
  intro cs
  induction cs with
  | nil => intro h; exact ⟨[], by simp [runCalls]⟩
  | cons c cs ih =>
    intro h
    obtain ⟨e1, h1⟩ := callDecompress_heap h c
    obtain ⟨e2, h2⟩ := ih (callDecompress h c).1
    exact ⟨e1 ++ e2, by simp only [runCalls]; rw [h2, h1, List.append_assoc]⟩

/-- **Every call answers for itself.** In any sequence of calls (any connections, algorithms,
messages) each result is the decision for that call's own inputs: nothing carries over. -/
theorem results_depend_on_own_call_only (h : Heap) (cs : List Call) :
    (runCalls h cs).2.map (·.1) = cs.map fun c => decompressDecision c.adv c.msg c.dec := by
  induction cs generalizing h with
  | nil => simp [runCalls]
  | cons c cs ih =>
    simp only [runCalls, List.map_cons, ih]
    congr 1
    unfold callDecompress
    by_cases h0 : (decompressDecision c.adv c.msg c.dec).alloc = 0 <;> simp [h0]

/-- **The recovered message is a fresh value.** Whatever calls come afterwards — for this or any
other connection of the process — the buffer a successful call handed out (the one its
certificates, OCSP staple and SCTs are slices of) still holds exactly the certificate message it
recovered, and that message still parses to the same certificates. -/
theorem recovered_independent_of_later_calls :
    ∀ (cs : List Call) (h : Heap) (i : Nat) (r : Result) (k : Nat) (body : Bytes) (pc : CertMsg),
      (runCalls h cs).2[i]? = some (r, some k) → r.outcome = .ok body pc →
      (runCalls h cs).1[k]? = some (certRaw body) ∧
      parseCertMsg (((runCalls h cs).1[k]?.getD []).drop 4) = some pc := by
  intro cs
  induction cs with
  | nil => intro h i r k body pc hi; simp [runCalls] at hi
  | cons c cs ih =>
    intro h i r k body pc hi hok
    cases i with
    | succ j =>
      have hi' : (runCalls (callDecompress h c).1 cs).2[j]? = some (r, some k) := by
        simpa [runCalls] using hi
      simpa [runCalls] using ih (callDecompress h c).1 j r k body pc hi' hok
    | zero =>
      have hx : ((callDecompress h c).2.1, (callDecompress h c).2.2) = (r, some k) := by
        simpa [runCalls] using hi
      have hr : decompressDecision c.adv c.msg c.dec = r := by
        have := congrArg Prod.fst hx
        unfold callDecompress at this
        by_cases h0 : (decompressDecision c.adv c.msg c.dec).alloc = 0 <;> simpa [h0] using this
      have hk := congrArg Prod.snd hx
      have hpos : ¬ (decompressDecision c.adv c.msg c.dec).alloc = 0 := by
        intro h0
        unfold callDecompress at hk
        simp [h0] at hk
      have hk' : k = h.length := by
        unfold callDecompress at hk
        simpa [hpos] using hk.symm
      have hpos' : ¬ r.alloc = 0 := hr ▸ hpos
      have h1 : (callDecompress h c).1 = h ++ [certRaw body] := by
        unfold callDecompress
        simp [hpos', bufferOf, hr, hok]
      obtain ⟨ext, h2⟩ := runCalls_heap cs (callDecompress h c).1
      have hfin : (runCalls h (c :: cs)).1 = h ++ (certRaw body :: ext) := by
        simp only [runCalls]; rw [h2, h1]; simp
      have hget : (runCalls h (c :: cs)).1[k]? = some (certRaw body) := by
        rw [hfin, hk']; simp
      refine ⟨hget, ?_⟩
      have hparse : parseCertMsg body = some pc := by
        have := accept_sound c.adv c.msg c.dec body pc (by rw [hr]; exact hok)
        obtain ⟨_, _, _, _, _, _, _, _, hp⟩ := this
        exact hp
      rw [hget]
      simpa [certRaw, u8, u24] using hparse

/-- What is accepted at the certificate step was advertised: a CompressedCertificate that goes
through means the client has the extension and its algorithm list contains the algorithm. -/
theorem step_accept_sound (ctx : ClientCtx) (raw : Bytes) (dec : Decoder) (body : Bytes) (pc : CertMsg)
    (hty : raw.head? = some (b typeCompressedCertificate))
    (hok : (readServerCert ctx raw dec).outcome = .ok body pc) :
    ctx.hasExt = true ∧ ∃ m, unmarshal raw = some m ∧ m.alg ∈ ctx.adv := by
  match raw, hty with
  | t :: a :: bb :: c :: rest, hty =>
    have ht : t = b typeCompressedCertificate := by simpa using hty
    have htn : t.toNat = typeCompressedCertificate := by rw [ht]; decide
    by_cases hsz : sizeLimit typeCompressedCertificate < rest.length
    · simp [readServerCert, htn, hsz] at hok
    · have hsz' : rest.length ≤ maxCertMsg := by
        simp [sizeLimit, typeCompressedCertificate, typeCertificate] at hsz; exact hsz
      cases hm : unmarshal (t :: a :: bb :: c :: rest) with
      | none => simp [readServerCert, hsz, htn, hm] at hok
      | some m =>
        by_cases hext : (ctx.hasExt && !ctx.adv.isEmpty) = true
        · rw [step_compressed ctx dec t a bb c rest htn hsz' m hm hext] at hok
          cases ho : (decompressDecision ctx.adv m dec).outcome with
          | ok bd cm =>
            have := (accept_sound ctx.adv m dec bd cm ho).1
            exact ⟨by simp at hext; exact hext.1, m, rfl, this⟩
          | abort al w => rw [ho] at hok; simp at hok
        · simp [readServerCert, hsz, htn, hm, hext] at hok
  | [_], hty => simp [readServerCert] at hok
  | [_, _], hty => simp [readServerCert] at hok
  | [_, _, _], hty => simp [readServerCert] at hok

/-- **Only the last hello counts.** For every sequence of presets applied to a connection (with
or without the compress_certificate extension, with any algorithm lists, the hello built after
each), a CompressedCertificate is accepted only if the **last** preset — the hello actually sent
— has the extension and lists the algorithm. Algorithms remembered from earlier presets are never
accepted. -/
theorem stale_algorithms_not_accepted (ps : List Preset) (p : Preset) (raw : Bytes) (dec : Decoder)
    (body : Bytes) (pc : CertMsg)
    (hty : raw.head? = some (b typeCompressedCertificate))
    (hok : (readServerCert (afterPresets (ps ++ [p])) raw dec).outcome = .ok body pc) :
    ∃ a m, p.compress = some a ∧ unmarshal raw = some m ∧ m.alg ∈ a := by
  have hlast : afterPresets (ps ++ [p]) = applyPreset (afterPresets ps) p := by
    simp [afterPresets, List.foldl_append]
  rw [hlast] at hok
  obtain ⟨hext, m, hm, hin⟩ := step_accept_sound _ raw dec body pc hty hok
  cases hp : p.compress with
  | none => simp [applyPreset, hp] at hext
  | some a => exact ⟨a, m, rfl, hm, by simpa [applyPreset, hp] using hin⟩

/-! ## non-vacuity: concrete instances meeting the hypotheses

`exCert` is a real Certificate message body (empty context, one 3-byte certificate, no
extensions). `exReader` hands it out in four pieces, one of them empty — the shape of a zlib
stream with flush points, the D14 witness: a single `Read` sees 5 of the 12 bytes. -/

private def exCert : Bytes := [0, 0, 0, 8, 0, 0, 3, 1, 2, 3, 0, 0]
private def exPc : CertMsg := ⟨[[1, 2, 3]], [], []⟩
private def exReader (eager : Bool) : Reader := ⟨[[0, 0, 0, 8, 0], [], [0, 3, 1, 2], [3, 0, 0]], .eof, eager⟩
private def exMsg (declared : Nat) : CompMsg := ⟨1, declared, [0x78, 0x9c, 1]⟩
private def exDec (r : Reader) : Decoder := fun _ _ => some r

example : ((exReader true).read 12).1 = [0, 0, 0, 8, 0] := by decide   -- what one `Read` returns

example : (decompressDecision [2, 1] (exMsg 12) (exDec (exReader true))).outcome = .ok exCert exPc :=
  recover_any_chunking [2, 1] (exMsg 12) (exDec (exReader true)) (exReader true) exCert exPc
    (by decide) (by decide) rfl (by decide) rfl (by decide) (by decide) (by decide)

example : (decompressDecision [2, 1] (exMsg 12) (exDec (exReader false))).outcome = .ok exCert exPc :=
  recover_any_chunking [2, 1] (exMsg 12) (exDec (exReader false)) (exReader false) exCert exPc
    (by decide) (by decide) rfl (by decide) rfl (by decide) (by decide) (by decide)

example : readDeclared 12 (exReader true) = readDeclared 12 ⟨[exCert], .eof, false⟩ :=
  chunking_irrelevant 12 _ _ (by decide) rfl

-- declared one too small (stream longer) and one too large (stream shorter)
example : decompressDecision [2, 1] (exMsg 11) (exDec (exReader true)) = ⟨.abort .badCertificate .long, 15⟩ :=
  longer_is_detected [2, 1] (exMsg 11) _ (exReader true) (by decide) (by decide) (by decide) rfl (by decide)
example : ∃ w, (decompressDecision [2, 1] (exMsg 11) (exDec (exReader true))).outcome = .abort .badCertificate w :=
  length_mismatch_aborts [2, 1] (exMsg 11) _ (exReader true) (by decide) rfl (by decide)
example : ∃ w, (decompressDecision [2, 1] (exMsg 13) (exDec (exReader true))).outcome = .abort .badCertificate w :=
  length_mismatch_aborts [2, 1] (exMsg 13) _ (exReader true) (by decide) rfl (by decide)
example : (decompressDecision [2, 1] (exMsg 13) (exDec (exReader true))).outcome = .abort .badCertificate .short := by
  decide
-- right length, but the stream ends in a decoder error (e.g. a bad Adler-32)
example : ∃ w, (decompressDecision [2, 1] (exMsg 12) (exDec ⟨[exCert], .err, true⟩)).outcome = .abort .badCertificate w :=
  decode_error_aborts [2, 1] (exMsg 12) _ ⟨[exCert], .err, true⟩ rfl (by decide)
example : (decompressDecision [2, 1] (exMsg 12) (exDec ⟨[exCert], .err, true⟩)).outcome =
    .abort .badCertificate .trailingErr := by decide
-- the compressed input ends too early: the decoder itself reports io.ErrUnexpectedEOF
example : (decompressDecision [2, 1] (exMsg 12) (exDec ⟨[[0, 0, 0, 8, 0]], .trunc, false⟩)).outcome =
    .abort .badCertificate .short := by decide
-- zlib (1) used although only brotli (2) was advertised
example : decompressDecision [2] (exMsg 12) (exDec (exReader true)) = ⟨.abort .badCertificate .unadvertised, 0⟩ :=
  unadvertised_aborts [2] (exMsg 12) _ (by decide)
-- D18: 16 MiB - 1 declared
example : decompressDecision [2, 1] (exMsg 16777215) (exDec (exReader true)) = ⟨.abort .badCertificate .tooLarge, 0⟩ :=
  too_large_aborts [2, 1] (exMsg 16777215) _ (by decide) (by decide)
example : (decompressDecision [2, 1] (exMsg 12) (exDec (exReader true))).alloc = 16 := by decide
example : (exMsg 12).WF := by decide
example : marshal (exMsg 12) = some [25, 0, 0, 11, 0, 1, 0, 0, 12, 0, 0, 3, 0x78, 0x9c, 1] := by decide
example : unmarshal [25, 0, 0, 11, 0, 1, 0, 0, 12, 0, 0, 3, 0x78, 0x9c, 1, 0xff, 0xff] = some (exMsg 12) := by decide

private def exRaw : Bytes := [25, 0, 0, 11, 0, 1, 0, 0, 12, 0, 0, 3, 0x78, 0x9c, 1]

example : readServerCert ⟨true, [2, 1]⟩ exRaw (exDec (exReader true)) = ⟨[exRaw], .ok exCert exPc, 16⟩ :=
  handshake_recovers ⟨true, [2, 1]⟩ (exMsg 12) _ (exReader true) exRaw exCert exPc rfl (by decide) (by decide)
    (by decide) (by decide) (by decide) rfl (by decide) rfl (by decide) (by decide) (by decide) (by decide)
example : (readServerCert ⟨true, [2, 1]⟩ exRaw (exDec (exReader true))).transcript = [exRaw] :=
  (transcript_uses_compressed ⟨true, [2, 1]⟩ exRaw _ exCert exPc (by decide) (by decide)).1
example : ∃ al w, readServerCert ⟨false, []⟩ exRaw (exDec (exReader true)) = ⟨[], .abort al w, 0⟩ :=
  compressed_without_extension_aborts ⟨false, []⟩ exRaw _ (by decide) (by decide)
example : (readServerCert ⟨false, []⟩ (certRaw exCert) (exDec (exReader true))).transcript = [certRaw exCert] :=
  (plain_certificate_transcript ⟨false, []⟩ (certRaw exCert) _ exCert exPc (by decide) (by decide)).1
example : ∃ r, exDec (exReader true) 1 [0x78, 0x9c, 1] = some r ∧ r.chunks.flatten = exCert ∧ r.term = .eof ∧
    exCert.length = 12 ∧ parseCertMsg exCert = some exPc :=
  (accept_sound [2, 1] (exMsg 12) (exDec (exReader true)) exCert exPc (by decide)).2.2.2

-- two more calls after the first (another connection, another algorithm): the first result's buffer is untouched
example : (runCalls [] [⟨[2, 1], exMsg 12, exDec (exReader true)⟩, ⟨[3], ⟨3, 12, []⟩, exDec ⟨[[9, 9, 9, 9, 9, 9, 9, 9, 9, 9, 9, 9]], .eof, false⟩⟩,
    ⟨[2, 1], exMsg 11, exDec (exReader false)⟩]).1[0]? = some (certRaw exCert) :=
  (recovered_independent_of_later_calls _ [] 0 (decompressDecision [2, 1] (exMsg 12) (exDec (exReader true))) 0
    exCert exPc (by rfl) (by decide)).1
-- brotli advertised by the first preset, none by the second: the stale algorithm is not accepted
example : (readServerCert (afterPresets [⟨some [1, 2]⟩, ⟨none⟩]) exRaw (exDec (exReader true))).outcome =
    .abort .unexpectedMessage .noExtension := by decide
example : (afterPresets [⟨some [1, 2]⟩, ⟨none⟩]).adv = [1, 2] := by decide   -- the list does survive
example : ∃ a m, (⟨some [2, 1]⟩ : Preset).compress = some a ∧ unmarshal exRaw = some m ∧ m.alg ∈ a :=
  stale_algorithms_not_accepted [⟨some [3]⟩, ⟨none⟩] ⟨some [2, 1]⟩ exRaw (exDec (exReader true)) exCert exPc
    (by decide) (by decide)

end C21
