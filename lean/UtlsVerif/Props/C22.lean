import UtlsVerif.AlpsLemmas
/-!
# C22 — application settings (ALPS) are exchanged consistently

Over the model `Alps` (transcription of `encryptedExtensionsMsg.unmarshal` + `utlsUnmarshal`,
`utlsClientEncryptedExtensionsMsg.marshal/unmarshal`, `checkALPN`, `readServerParameters`,
`utlsReadServerParameters`, `sendClientEncryptedExtensions` and the order of the client's second
flight). `fin` (the Finished MAC as a function of the transcript bytes) is an uninterpreted
parameter of every theorem.

* `alps_exposed_and_answered` — the server's EncryptedExtensions carries ALPS on either code point
  and a protocol the client offered ⇒ the handshake goes on, the connection state exposes exactly
  the server's bytes, and the client's second flight is `EncryptedExtensions(same code point,
  ApplicationSettings[that protocol])`, then the optional certificate messages, then a Finished
  whose MAC is computed over a transcript that contains that EncryptedExtensions.
* `server_finished_check_passes` — a server that hashes the client's EncryptedExtensions into its
  transcript accepts that flight; `client_ee_outside_transcript_rejected` — and rejects a flight
  whose Finished does not cover it (for a MAC that separates the two transcripts).
* `alps_without_alpn_aborts`, `alps_with_unoffered_alpn_aborts` — ALPS without a negotiated ALPN
  protocol ⇒ abort (unsupported_extension / no_application_protocol), nothing is sent.
* `alps_below_13_never_exposed` — below TLS 1.3 no run exposes settings or writes an
  EncryptedExtensions (reading adopted for "rejects": never accepted or exposed — see the note at the
  theorem); `alps_below_13_rejected_if_reached` — the version guard inside
  `utlsReadServerParameters` (literal reading, at function level);
  `alps_not_a_server_hello_extension`.
* `client_ee_roundtrip` — `unmarshal (marshal m) = m` for every well-formed `m`;
  `client_ee_wf_needed_custom` — the guard is needed (the encoder emits a "custom" extension its own
  decoder rejects).
* `code_point_echo` — whenever the client completes, it wrote an EncryptedExtensions iff the
  server's carried ALPS, and it decodes to the server's code point; `server_ee_code_point_cases`.
* `server_ee_canonical` — what the parser yields on the message an ALPS server sends.
-/
namespace C22
open Wire Alps

/-! ## helpers -/

private theorem foldOpt_inv {σ α : Type} (f : σ → α → Option σ) (P : σ → Prop)
    (hstep : ∀ s a s', P s → f s a = some s' → P s') :
    ∀ (l : List α) (s0 s : σ), P s0 → foldOpt f s0 l = some s → P s := by
  intro l
  induction l with
  | nil => intro s0 s h0 h; simp [foldOpt] at h; exact h ▸ h0
  | cons a r ih =>
    intro s0 s h0 h
    unfold foldOpt at h
    cases hf : f s0 a with
    | none => simp [hf] at h
    | some s1 =>
      simp only [hf] at h
      exact ih s1 s (hstep s0 a s1 h0 hf) h

private theorem step_cp (m m' : ServerEE) (e : Nat × Bytes)
    (hm : m.alpsCp = 0 ∨ m.alpsCp = cpOld ∨ m.alpsCp = cpNew) (h : ServerEE.step m e = some m') :
    m'.alpsCp = 0 ∨ m'.alpsCp = cpOld ∨ m'.alpsCp = cpNew := by
  obtain ⟨t, d⟩ := e
  unfold ServerEE.step at h
  simp only at h
  by_cases h1 : t = extALPN
  · rw [if_pos h1] at h
    cases hp : parseAlpnBody d with
    | none => simp [hp] at h
    | some p => simp [hp] at h; subst h; exact hm
  · rw [if_neg h1] at h
    by_cases h2 : t = extQUICTP
    · rw [if_pos h2] at h; simp at h; subst h; exact hm
    · rw [if_neg h2] at h
      by_cases h3 : t = extEarlyData
      · rw [if_pos h3] at h
        by_cases h3' : d.isEmpty = true
        · rw [if_pos h3'] at h; simp at h; subst h; exact hm
        · rw [if_neg h3'] at h; simp at h
      · rw [if_neg h3] at h
        by_cases h4 : t = extECH
        · rw [if_pos h4] at h; simp at h; subst h; exact hm
        · rw [if_neg h4] at h
          by_cases h5 : isAlps t = true
          · rw [if_pos h5] at h; simp at h; subst h
            simp [isAlps] at h5
            rcases h5 with h5 | h5 <;> simp [h5]
          · rw [if_neg h5] at h; simp at h; subst h; exact hm

/-- The client-side parser only ever reports code point 0 (no ALPS), 17513 or 17613. -/
theorem server_ee_code_point_cases (raw : Bytes) (ee : ServerEE)
    (h : ServerEE.unmarshal raw = some ee) :
    ee.alpsCp = 0 ∨ ee.alpsCp = cpOld ∨ ee.alpsCp = cpNew := by
  unfold ServerEE.unmarshal at h
  cases hu : unframe raw with
  | none => simp [hu] at h
  | some exts =>
    simp only [hu] at h
    cases hs : splitExts exts with
    | none => simp [hs] at h
    | some es =>
      simp only [hs] at h
      exact foldOpt_inv ServerEE.step (fun m => m.alpsCp = 0 ∨ m.alpsCp = cpOld ∨ m.alpsCp = cpNew)
        (fun s a s' hs' hf => step_cp s s' a hs' hf) es {} ee (Or.inl rfl) h

/-! ## the client EncryptedExtensions codec -/

/-- well-formed client EncryptedExtensions: what `sendClientEncryptedExtensions` can build (ALPS
code point with any settings that fit the 2-byte length prefixes, or the empty message). -/
def WF (m : ClientEE) : Prop :=
  (m.cp = cpOld ∨ m.cp = cpNew ∨ (m.cp = 0 ∧ m.settings = [])) ∧ m.custom = [] ∧
    m.settings.length ≤ 65531

instance (m : ClientEE) : Decidable (WF m) := by unfold WF; exact inferInstance

private theorem marshal_alps (cp : Nat) (s : Bytes) (hcp : cp = cpOld ∨ cp = cpNew)
    (hs : s.length ≤ 65531) :
    ClientEE.marshal { cp := cp, settings := s } =
      some (u8 typeEncryptedExtensions ++ vec24 (vec16 (encExt cp s))) := by
  have hne : cp ≠ 0 := by rcases hcp with h | h <;> simp [h, cpOld, cpNew]
  have hb : ({ cp := cp, settings := s } : ClientEE).extBlock = encExt cp s := by
    simp [ClientEE.extBlock, hne]
  unfold ClientEE.marshal
  rw [hb, encExt_length, if_neg (by omega)]

private theorem unmarshal_alps (cp : Nat) (s : Bytes) (hcp : cp = cpOld ∨ cp = cpNew)
    (hs : s.length ≤ 65531) :
    ClientEE.unmarshal (u8 typeEncryptedExtensions ++ vec24 (vec16 (encExt cp s))) =
      some { cp := cp, settings := s } := by
  have hcp' : cp < 65536 := by rcases hcp with h | h <;> simp [h, cpOld, cpNew]
  have hal : isAlps cp = true := by rcases hcp with h | h <;> simp [h, isAlps]
  have hsp : splitExts (encExt cp s) = some [(cp, s)] := by
    have := splitExts_encExts [(cp, s)] (by intro e he; simp at he; subst he; exact ⟨hcp', by simp; omega⟩)
    simpa [encExts] using this
  unfold ClientEE.unmarshal
  rw [unframe_frame _ _ (by rw [encExt_length]; omega)]
  simp only [hsp, foldOpt, ClientEE.step, hal, if_true]

/-- **Round trip.** Every well-formed client EncryptedExtensions marshals, and unmarshalling the
bytes gives the message back. -/
theorem client_ee_roundtrip (m : ClientEE) (h : WF m) :
    ∃ raw, m.marshal = some raw ∧ ClientEE.unmarshal raw = some m := by
  obtain ⟨cp, s, cu⟩ := m
  obtain ⟨hcp, hcu, hlen⟩ := h
  simp only at hcp hcu hlen
  subst hcu
  rcases hcp with h1 | h1 | ⟨h0, hs0⟩
  · exact ⟨_, marshal_alps cp s (Or.inl h1) hlen, unmarshal_alps cp s (Or.inl h1) hlen⟩
  · exact ⟨_, marshal_alps cp s (Or.inr h1) hlen, unmarshal_alps cp s (Or.inr h1) hlen⟩
  · subst h0; subst hs0
    refine ⟨u8 typeEncryptedExtensions ++ vec24 (vec16 []), by simp [ClientEE.marshal, ClientEE.extBlock], ?_⟩
    unfold ClientEE.unmarshal
    rw [unframe_frame _ _ (by simp)]
    simp [splitExts, splitExtsF, foldOpt]

/-- The guard is needed: `marshal` emits a "custom" extension (type 1234) that `unmarshal` — the
decoder of the same message type — rejects as unknown. (Only ever produced by callers that set
`customExtension`; `sendClientEncryptedExtensions` never does.) -/
theorem client_ee_wf_needed_custom :
    ∃ m raw, ¬ WF m ∧ m.marshal = some raw ∧ ClientEE.unmarshal raw = none :=
  ⟨{ cp := cpOld, settings := [1], custom := [2] }, _, by decide, rfl, by decide⟩

example : WF { cp := cpNew, settings := [1, 2, 3] } := by decide
example : ClientEE.unmarshal ((ClientEE.marshal { cp := cpNew, settings := [1, 2, 3] }).getD []) =
    some { cp := cpNew, settings := [1, 2, 3] } := by decide

/-! ## the canonical server message -/

/-- body of the ALPN extension in EncryptedExtensions: a list with one name. -/
def alpnBody (proto : Bytes) : Bytes := vec16 (vec8 proto)

def serverEEMsg (es : List (Nat × Bytes)) : Bytes :=
  u8 typeEncryptedExtensions ++ vec24 (vec16 (encExts es))

private theorem parseAlpnBody_alpnBody (p : Bytes) (h1 : p ≠ []) (h2 : p.length < 256) :
    parseAlpnBody (alpnBody p) = some p := by
  have ha : readVec16 (vec16 (vec8 p)) = some (vec8 p, []) := by
    have := readVec16_vec16 (vec8 p) [] (by simp; omega)
    simpa using this
  have hb : readVec8 (vec8 p) = some (p, []) := by
    have := readVec8_vec8 p [] h2
    simpa using this
  have hc : (vec8 p).isEmpty = false := by simp [vec8, u8]
  have hd : p.isEmpty = false := by cases p <;> simp_all
  simp [parseAlpnBody, alpnBody, ha, hb, hc, hd]

/-- **What the parser makes of the message an ALPS server sends** (ALPN with the selected protocol
and ALPS on either code point, in either order): exactly that protocol, code point and bytes. -/
theorem server_ee_canonical (cp : Nat) (proto settings : Bytes) (hcp : cp = cpOld ∨ cp = cpNew)
    (hp1 : proto ≠ []) (hp2 : proto.length < 256) (hs : settings.length ≤ 65000) :
    ServerEE.unmarshal (serverEEMsg [(extALPN, alpnBody proto), (cp, settings)]) =
      some { alpn := proto, alpsCp := cp, alps := settings } ∧
    ServerEE.unmarshal (serverEEMsg [(cp, settings), (extALPN, alpnBody proto)]) =
      some { alpn := proto, alpsCp := cp, alps := settings } := by
  have hcp' : cp < 65536 := by rcases hcp with h | h <;> simp [h, cpOld, cpNew]
  have hal : isAlps cp = true := by rcases hcp with h | h <;> simp [h, isAlps]
  have hn1 : cp ≠ extALPN := by rcases hcp with h | h <;> simp [h, cpOld, cpNew, extALPN]
  have hn2 : cp ≠ extQUICTP := by rcases hcp with h | h <;> simp [h, cpOld, cpNew, extQUICTP]
  have hn3 : cp ≠ extEarlyData := by rcases hcp with h | h <;> simp [h, cpOld, cpNew, extEarlyData]
  have hn4 : cp ≠ extECH := by rcases hcp with h | h <;> simp [h, cpOld, cpNew, extECH]
  have hab : (alpnBody proto).length < 65536 := by simp [alpnBody]; omega
  have hwf1 : ∀ e ∈ [(extALPN, alpnBody proto), (cp, settings)], e.1 < 65536 ∧ e.2.length < 65536 := by
    intro e he; simp at he
    rcases he with he | he <;> subst he
    · exact ⟨by simp [extALPN], hab⟩
    · exact ⟨hcp', by simp; omega⟩
  have hwf2 : ∀ e ∈ [(cp, settings), (extALPN, alpnBody proto)], e.1 < 65536 ∧ e.2.length < 65536 := by
    intro e he; exact hwf1 e (by simp at he ⊢; rcases he with h | h <;> simp [h])
  have hl1 : (encExts [(extALPN, alpnBody proto), (cp, settings)]).length < 65536 := by
    simp [encExts, encExt_length, alpnBody]; omega
  have hl2 : (encExts [(cp, settings), (extALPN, alpnBody proto)]).length < 65536 := by
    simp [encExts, encExt_length, alpnBody]; omega
  have hpa := parseAlpnBody_alpnBody proto hp1 hp2
  constructor
  · unfold ServerEE.unmarshal serverEEMsg
    rw [unframe_frame _ _ hl1]
    simp only [splitExts_encExts _ hwf1, foldOpt, ServerEE.step, if_true, hpa, hn1, hn2, hn3, hn4, hal, if_false]
  · unfold ServerEE.unmarshal serverEEMsg
    rw [unframe_frame _ _ hl2]
    simp only [splitExts_encExts _ hwf2, foldOpt, ServerEE.step, if_true, hpa, hn1, hn2, hn3, hn4, hal, if_false]

/-! ## accepted ALPS: exposed and answered inside the transcript -/

private theorem contains_of_mem (l : List Bytes) (x : Bytes) (h : x ∈ l) : l.contains x = true := by
  simp [h]

private theorem checkALPN_ok (offered : List Bytes) (p : Bytes) (hne : p ≠ []) (h : p ∈ offered) :
    checkALPN offered p = none := by
  have h1 : p.isEmpty = false := by cases p <;> simp_all
  have h2 : offered.isEmpty = false := by cases offered <;> simp_all
  simp [checkALPN, h1, h2, h]

private theorem utlsRSP_ok (vers : Nat) (p : Bytes) (cfg : SettingsMap) (ee : ServerEE)
    (hv : vers = VersionTLS13) (hne : p ≠ []) (hcp : ee.alpsCp ≠ 0) :
    utlsReadServerParameters vers p cfg ee {} =
      ({ peer := ee.alps, cp := ee.alpsCp, localS := (lookup cfg p).getD [] }, none) := by
  have h1 : p.isEmpty = false := by cases p <;> simp_all
  subst hv
  unfold utlsReadServerParameters
  simp only [ne_eq, hcp, not_false_eq_true, if_true, h1, Nat.lt_irrefl, if_false]
  cases lookup cfg p <;> simp

/-- **Exposed and answered.** TLS 1.3; the server's EncryptedExtensions parses to a message with
ALPS on either code point, a non-empty protocol the client offered, and none of the extensions the
client refuses on a plain TCP connection (`quic_transport_parameters`, `early_data`); the client's
settings for that protocol fit the length prefix. Then the run completes, the state exposes exactly
the server's settings, and the second flight is: the client's EncryptedExtensions (decoding to the
*same code point* and `ApplicationSettings[proto]`, empty when there is no entry), the certificate
messages if any, and the Finished computed over `T0 ++ EncryptedExtensions ++ certificate…`. -/
theorem alps_exposed_and_answered (fin : Bytes → Bytes) (i : Input) (ee : ServerEE) (proto : Bytes)
    (hv : i.vers = VersionTLS13)
    (hee : ServerEE.unmarshal i.eeRaw = some ee)
    (hcp : ee.alpsCp = cpOld ∨ ee.alpsCp = cpNew)
    (halpn : ee.alpn = proto) (hne : proto ≠ []) (hoff : proto ∈ i.offeredAlpn)
    (hq : ee.quicTP = none) (he : ee.earlyData = false)
    (hlen : ((lookup i.cfg proto).getD []).length ≤ 65531) :
    ∃ cee,
      ClientEE.unmarshal cee = some { cp := ee.alpsCp, settings := (lookup i.cfg proto).getD [] } ∧
      cee.head? = some (b typeEncryptedExtensions) ∧
      (run fin i).err = none ∧
      (run fin i).conn.utls.peer = ee.alps ∧
      (run fin i).conn.clientProtocol = proto ∧
      (run fin i).flight.wire = [cee] ++ i.cert ++ [finishedMsg (fin (i.T0 ++ cee ++ i.cert.flatten))] ∧
      (run fin i).flight.finOver = i.T0 ++ cee ++ i.cert.flatten := by
  have hcp0 : ee.alpsCp ≠ 0 := by rcases hcp with h | h <;> simp [h, cpOld, cpNew]
  refine ⟨u8 typeEncryptedExtensions ++ vec24 (vec16 (encExt ee.alpsCp ((lookup i.cfg proto).getD []))),
    unmarshal_alps _ _ hcp hlen, by simp [u8], ?_⟩
  have hrsp : readServerParameters i.vers i.offeredAlpn i.cfg i.eeRaw {} =
      ({ clientProtocol := proto,
         utls := { peer := ee.alps, cp := ee.alpsCp, localS := (lookup i.cfg proto).getD [] } }, none) := by
    unfold readServerParameters
    simp only [hee, halpn, checkALPN_ok _ _ hne hoff]
    rw [utlsRSP_ok i.vers proto i.cfg ee hv hne hcp0]
    simp [hq, he]
  have hsf : secondFlight fin { peer := ee.alps, cp := ee.alpsCp, localS := (lookup i.cfg proto).getD [] } i.T0 i.cert =
      some { wire := [u8 typeEncryptedExtensions ++ vec24 (vec16 (encExt ee.alpsCp ((lookup i.cfg proto).getD [])))] ++ i.cert ++
               [finishedMsg (fin (i.T0 ++ (u8 typeEncryptedExtensions ++ vec24 (vec16 (encExt ee.alpsCp ((lookup i.cfg proto).getD [])))) ++ i.cert.flatten))],
             finOver := i.T0 ++ (u8 typeEncryptedExtensions ++ vec24 (vec16 (encExt ee.alpsCp ((lookup i.cfg proto).getD [])))) ++ i.cert.flatten } := by
    unfold secondFlight sendClientEncryptedExtensions
    simp only [ne_eq, hcp0, not_false_eq_true, if_true, marshal_alps _ _ hcp hlen]
  rw [hv] at hrsp
  simp only [run, hv, if_true, run13, hrsp, hsf, and_self]

/-- non-vacuity: Chrome-style offer, server answers `h2` + ALPS(17513, "srv"), client configured
`{"h2": "cli"}`. -/
example :
    let i : Input := { vers := VersionTLS13, offeredAlpn := [[0x68, 0x32], [0x68, 0x33]],
                       cfg := [([0x68, 0x32], [0x63, 0x6c, 0x69])],
                       eeRaw := serverEEMsg [(extALPN, alpnBody [0x68, 0x32]), (cpOld, [0x73, 0x72, 0x76])],
                       T0 := [9, 9] }
    let r := run (fun t => t.take 2) i
    r.err = none ∧ r.conn.utls.peer = [0x73, 0x72, 0x76] ∧
      r.flight.wire.map ClientEE.unmarshal = [some { cp := cpOld, settings := [0x63, 0x6c, 0x69] }, none] := by
  decide

/-! ## the server's Finished check -/

private theorem finishedMsg_inj (a c : Bytes) (h : finishedMsg a = finishedMsg c) : a = c := by
  have := congrArg (List.drop 4) h
  simpa [finishedMsg, u8, vec24, u24] using this

/-- **Covered by the transcript.** Under the hypotheses of `alps_exposed_and_answered` (no client
certificate requested), a server that reads the client's EncryptedExtensions through its transcript
finds the client Finished correct. -/
theorem server_finished_check_passes (fin : Bytes → Bytes) (i : Input) (ee : ServerEE) (proto : Bytes)
    (hv : i.vers = VersionTLS13)
    (hee : ServerEE.unmarshal i.eeRaw = some ee)
    (hcp : ee.alpsCp = cpOld ∨ ee.alpsCp = cpNew)
    (halpn : ee.alpn = proto) (hne : proto ≠ []) (hoff : proto ∈ i.offeredAlpn)
    (hq : ee.quicTP = none) (he : ee.earlyData = false)
    (hlen : ((lookup i.cfg proto).getD []).length ≤ 65531) (hcert : i.cert = []) :
    serverAccepts fin i.T0 true (run fin i).flight.wire = true := by
  obtain ⟨cee, hu, hh, _, _, _, hw, _⟩ :=
    alps_exposed_and_answered fin i ee proto hv hee hcp halpn hne hoff hq he hlen
  rw [hw, hcert]
  simp [serverAccepts, hu, hh]

/-- Conversely the server's check is what detects an EncryptedExtensions sent *outside* the
transcript: if the MAC separates the two transcripts, the flight `[ee, Finished(fin T0)]` is
rejected. -/
theorem client_ee_outside_transcript_rejected (fin : Bytes → Bytes) (T0 cee : Bytes)
    (hsep : fin (T0 ++ cee) ≠ fin T0) :
    serverAccepts fin T0 true [cee, finishedMsg (fin T0)] = false := by
  have : finishedMsg (fin T0) ≠ finishedMsg (fin (T0 ++ cee)) :=
    fun h => hsep (finishedMsg_inj _ _ h).symm
  simp [serverAccepts, this]

/-! ## ALPS without a negotiated ALPN protocol -/

/-- **ALPS without ALPN aborts.** TLS 1.3, the server's EncryptedExtensions carries ALPS (either
code point) and no ALPN: the client fails with "server sent application settings without ALPN",
alert `unsupported_extension`, and writes nothing (no EncryptedExtensions, no Finished). -/
theorem alps_without_alpn_aborts (fin : Bytes → Bytes) (i : Input) (ee : ServerEE)
    (hv : i.vers = VersionTLS13)
    (hee : ServerEE.unmarshal i.eeRaw = some ee)
    (hcp : ee.alpsCp ≠ 0) (halpn : ee.alpn = []) :
    (run fin i).err = some .alpsNoAlpn ∧
    Err.alert .alpsNoAlpn = some .unsupportedExtension ∧
    (run fin i).flight.wire = [] := by
  have hrsp : (readServerParameters i.vers i.offeredAlpn i.cfg i.eeRaw {}).2 = some .alpsNoAlpn := by
    unfold readServerParameters
    simp only [hee, halpn, checkALPN, List.isEmpty_nil, if_true]
    unfold utlsReadServerParameters
    simp [hcp, hv, VersionTLS13]
  cases hr : readServerParameters i.vers i.offeredAlpn i.cfg i.eeRaw {} with
  | mk c e =>
    rw [hr] at hrsp
    simp only at hrsp
    subst hrsp
    rw [hv] at hr
    simp [run, hv, run13, hr, Err.alert]

/-- A protocol the client did not offer is not a negotiated protocol either: `checkALPN` aborts
first (alert `no_application_protocol`), whatever else the message carries. -/
theorem alps_with_unoffered_alpn_aborts (fin : Bytes → Bytes) (i : Input) (ee : ServerEE)
    (hv : i.vers = VersionTLS13)
    (hee : ServerEE.unmarshal i.eeRaw = some ee)
    (hne : ee.alpn ≠ []) (hoff : ee.alpn ∉ i.offeredAlpn) :
    ∃ e, (run fin i).err = some e ∧ e.alert = some .noApplicationProtocol ∧
      (run fin i).flight.wire = [] ∧ (run fin i).conn.utls = {} := by
  have h1 : ee.alpn.isEmpty = false := by cases h : ee.alpn <;> simp_all
  by_cases h2 : i.offeredAlpn.isEmpty = true
  · refine ⟨.alpnUnrequested, ?_⟩
    simp [run, hv, run13, readServerParameters, hee, checkALPN, h1, h2, Err.alert]
  · refine ⟨.alpnUnadvertised, ?_⟩
    simp [run, hv, run13, readServerParameters, hee, checkALPN, h1, h2, hoff, Err.alert]

example :
    (run id { vers := VersionTLS13, offeredAlpn := [[0x68, 0x32]], cfg := [],
              eeRaw := serverEEMsg [(cpNew, [1, 2])] }).err = some .alpsNoAlpn := by decide

/-! ## below TLS 1.3

Property text: "The client rejects application settings under TLS below 1.3". **Reading adopted**
(DESIGN §8/C22): *rejects = never accepted or exposed*. What the code does, confirmed on the real
client by the `alps_hs` cases with `smax=12`: a TLS 1.2 ServerHello carrying an ALPS-looking
extension is **not** answered with an alert — `serverHelloMsg.unmarshal` has no case for 17513/17613
and skips unknown extensions — the handshake completes, `PeerApplicationSettings` stays empty and
no EncryptedExtensions is written. The explicit guard in `utlsReadServerParameters`
(`vers < VersionTLS13` ⇒ error) is unreachable from the TLS 1.2 path, because only
`clientHandshakeStateTLS13` calls that function; it is proved at function level below. -/

/-- **Below 1.3 nothing is accepted or exposed**, for every server input: the connection's ALPS
state keeps its zero value and the client's flight is the unmodified one (no EncryptedExtensions). -/
theorem alps_below_13_never_exposed (fin : Bytes → Bytes) (i : Input) (hv : i.vers < VersionTLS13) :
    (run fin i).conn.utls = {} ∧
    (run fin i).flight.wire = i.cert ++ [finishedMsg (fin (i.T0 ++ i.cert.flatten))] := by
  have : i.vers ≠ VersionTLS13 := by omega
  simp [run, this, run12]

/-- The literal reading at function level: were `utlsReadServerParameters` reached with a version
below 1.3 and ALPS present, it returns "server sent application settings at invalid version"
(alert `unsupported_extension` at its call site). -/
theorem alps_below_13_rejected_if_reached (vers : Nat) (p : Bytes) (cfg : SettingsMap)
    (ee : ServerEE) (st : UtlsState) (hv : vers < VersionTLS13) (hcp : ee.alpsCp ≠ 0) :
    (utlsReadServerParameters vers p cfg ee st).2 = some .alpsVersion ∧
    Err.alert .alpsVersion = some .unsupportedExtension := by
  simp [utlsReadServerParameters, hcp, hv, Err.alert]

/-- Neither ALPS code point is an extension `serverHelloMsg.unmarshal` knows: in a ServerHello (any
version) it falls into the "ignore unknown extensions" branch. -/
theorem alps_not_a_server_hello_extension :
    cpOld ∉ serverHelloKnown ∧ cpNew ∉ serverHelloKnown := by decide

example : (run id { vers := VersionTLS12, offeredAlpn := [[0x68, 0x32]], cfg := [([0x68, 0x32], [7])],
                    eeRaw := serverEEMsg [(extALPN, alpnBody [0x68, 0x32]), (cpOld, [1])] }).conn.utls = {} := by
  decide

/-! ## the code point is echoed; an EncryptedExtensions is sent iff the server sent ALPS -/

private theorem marshal_unmarshal_alps (cp : Nat) (s raw : Bytes) (hcp : cp = cpOld ∨ cp = cpNew)
    (h : ClientEE.marshal { cp := cp, settings := s } = some raw) :
    ClientEE.unmarshal raw = some { cp := cp, settings := s } := by
  have hne : cp ≠ 0 := by rcases hcp with h | h <;> simp [h, cpOld, cpNew]
  have hb : ({ cp := cp, settings := s } : ClientEE).extBlock = encExt cp s := by
    simp [ClientEE.extBlock, hne]
  unfold ClientEE.marshal at h
  rw [hb, encExt_length] at h
  by_cases hl : 4 + s.length > 65535
  · rw [if_pos hl] at h; simp at h
  · rw [if_neg hl] at h
    simp only [Option.some.injEq] at h
    subst h
    exact unmarshal_alps cp s hcp (by omega)

private theorem rsp_state (vers : Nat) (off : List Bytes) (cfg : SettingsMap) (raw : Bytes)
    (ee : ServerEE) (c : Conn) (hee : ServerEE.unmarshal raw = some ee)
    (h : readServerParameters vers off cfg raw {} = (c, none)) :
    c.utls.cp = ee.alpsCp ∧ c.utls.peer = ee.alps := by
  unfold readServerParameters at h
  simp only [hee] at h
  cases hc : checkALPN off ee.alpn with
  | some e => simp [hc] at h
  | none =>
    simp only [hc] at h
    unfold utlsReadServerParameters at h
    by_cases h0 : ee.alpsCp = 0
    · simp only [ne_eq, h0, not_true_eq_false, if_false] at h
      by_cases hq : ee.quicTP.isSome = true
      · simp [hq] at h
      · by_cases he : ee.earlyData = true
        · simp [hq, he] at h
        · simp [hq, he] at h; subst h; simp [h0]
    · simp only [ne_eq, h0, not_false_eq_true, if_true] at h
      by_cases hv : vers < VersionTLS13
      · simp [hv] at h
      · by_cases hp : ee.alpn.isEmpty = true
        · simp [hv, hp] at h
        · cases hl : lookup cfg ee.alpn with
          | none =>
            by_cases hq : ee.quicTP.isSome = true
            · simp [hv, hp, hl, hq] at h
            · by_cases he : ee.earlyData = true
              · simp [hv, hp, hl, hq, he] at h
              · simp [hv, hp, hl, hq, he] at h; subst h; simp
          | some a =>
            by_cases hq : ee.quicTP.isSome = true
            · simp [hv, hp, hl, hq] at h
            · by_cases he : ee.earlyData = true
              · simp [hv, hp, hl, hq, he] at h
              · simp [hv, hp, hl, hq, he] at h; subst h; simp

/-- **Code point echo / EE iff ALPS.** Whenever a TLS 1.3 run completes: if the server's message
carried no ALPS the client's flight has no EncryptedExtensions (it is exactly certificate messages +
Finished over `T0 ++ certificate…`); if it carried ALPS on code point `cp`, the first message of the
flight decodes as a client EncryptedExtensions with that same `cp`, the exposed bytes are the
server's, and the Finished covers that message. No hypothesis on ALPN, settings or offer. -/
theorem code_point_echo (fin : Bytes → Bytes) (i : Input) (ee : ServerEE)
    (hv : i.vers = VersionTLS13) (hee : ServerEE.unmarshal i.eeRaw = some ee)
    (hok : (run fin i).err = none) :
    (run fin i).conn.utls.peer = ee.alps ∧
    (ee.alpsCp = 0 →
      (run fin i).flight.wire = i.cert ++ [finishedMsg (fin (i.T0 ++ i.cert.flatten))]) ∧
    (ee.alpsCp ≠ 0 → ∃ cee m,
      (run fin i).flight.wire = [cee] ++ i.cert ++ [finishedMsg (fin (i.T0 ++ cee ++ i.cert.flatten))] ∧
      ClientEE.unmarshal cee = some m ∧ m.cp = ee.alpsCp) := by
  simp only [run, hv, if_true] at hok ⊢
  unfold run13 at hok ⊢
  cases hr : readServerParameters i.vers i.offeredAlpn i.cfg i.eeRaw {} with
  | mk c e =>
    cases e with
    | some e => simp [hr] at hok
    | none =>
      have ⟨hcp, hpeer⟩ := rsp_state _ _ _ _ ee c hee hr
      simp only [hr] at hok ⊢
      cases hs : secondFlight fin c.utls i.T0 i.cert with
      | none => simp [hs] at hok
      | some f =>
        refine ⟨hpeer, ?_, ?_⟩
        · intro h0
          unfold secondFlight sendClientEncryptedExtensions at hs
          simp [hcp, h0] at hs
          subst hs; simp
        · intro hn0
          have hcases := server_ee_code_point_cases _ _ hee
          have hcp' : ee.alpsCp = cpOld ∨ ee.alpsCp = cpNew := by
            rcases hcases with h | h | h
            · exact absurd h hn0
            · exact Or.inl h
            · exact Or.inr h
          unfold secondFlight sendClientEncryptedExtensions at hs
          simp only [ne_eq, hcp, hn0, not_false_eq_true, if_true] at hs
          cases hm : ClientEE.marshal { cp := ee.alpsCp, settings := c.utls.localS } with
          | none => simp [hm] at hs
          | some raw =>
            simp only [hm, Option.some.injEq] at hs
            subst hs
            exact ⟨raw, _, rfl, marshal_unmarshal_alps _ _ _ hcp' hm, rfl⟩

/-! ## resumed handshakes

Seeded change C22-4 skipped the client EncryptedExtensions on a PSK-resumed handshake. The property
text makes no exception for resumption ("When the server negotiates application settings … the
client … sends its own configured settings … in a client EncryptedExtensions message covered by the
handshake transcript"), and neither does the code: stated explicitly for **every** value of
`resumed`. -/

/-- **Answered also when resumed.** For a full (`resumed = false`) and for a resumed
(`resumed = true`) TLS 1.3 handshake alike: under the hypotheses of `alps_exposed_and_answered` the
run completes, exposes the server's bytes, and its flight starts with the client
EncryptedExtensions (same code point, `ApplicationSettings[proto]`) covered by the Finished; on a
resumed handshake the flight is exactly `[EE, Finished(fin(T0 ++ EE))]` and a server that hashes
the EE accepts it. -/
theorem alps_answered_also_when_resumed (fin : Bytes → Bytes) (resumed : Bool) (i : Input)
    (ee : ServerEE) (proto : Bytes)
    (hv : i.vers = VersionTLS13)
    (hee : ServerEE.unmarshal i.eeRaw = some ee)
    (hcp : ee.alpsCp = cpOld ∨ ee.alpsCp = cpNew)
    (halpn : ee.alpn = proto) (hne : proto ≠ []) (hoff : proto ∈ i.offeredAlpn)
    (hq : ee.quicTP = none) (he : ee.earlyData = false)
    (hlen : ((lookup i.cfg proto).getD []).length ≤ 65531) :
    ∃ cee,
      ClientEE.unmarshal cee = some { cp := ee.alpsCp, settings := (lookup i.cfg proto).getD [] } ∧
      (runConn fin resumed i).err = none ∧
      (runConn fin resumed i).conn.utls.peer = ee.alps ∧
      (∃ rest, (runConn fin resumed i).flight.wire = cee :: rest) ∧
      (resumed = true →
        (runConn fin resumed i).flight.wire = [cee, finishedMsg (fin (i.T0 ++ cee))] ∧
        serverAccepts fin i.T0 true (runConn fin resumed i).flight.wire = true) := by
  cases resumed with
  | false =>
    obtain ⟨cee, hu, _, herr, hpeer, _, hw, _⟩ :=
      alps_exposed_and_answered fin i ee proto hv hee hcp halpn hne hoff hq he hlen
    refine ⟨cee, hu, ?_, ?_, ?_, by simp⟩
    · simpa [runConn] using herr
    · simpa [runConn] using hpeer
    · exact ⟨i.cert ++ [finishedMsg (fin (i.T0 ++ cee ++ i.cert.flatten))], by simpa [runConn] using hw⟩
  | true =>
    obtain ⟨cee, hu, hh, herr, hpeer, _, hw, _⟩ :=
      alps_exposed_and_answered fin { i with cert := [] } ee proto hv hee hcp halpn hne hoff hq he hlen
    have hw' : (runConn fin true i).flight.wire = [cee, finishedMsg (fin (i.T0 ++ cee))] := by
      simpa [runConn] using hw
    refine ⟨cee, hu, ?_, ?_, ⟨_, hw'⟩, fun _ => ⟨hw', ?_⟩⟩
    · simpa [runConn] using herr
    · simpa [runConn] using hpeer
    · rw [hw']; simp [serverAccepts, hu, hh]

/-- **EE iff ALPS, for full and resumed handshakes alike** (`code_point_echo` for every `resumed`):
a completed run wrote a client EncryptedExtensions as its first message iff the server's
EncryptedExtensions carried ALPS, on the server's code point. -/
theorem ee_iff_alps_any_resumption (fin : Bytes → Bytes) (resumed : Bool) (i : Input) (ee : ServerEE)
    (hv : i.vers = VersionTLS13) (hee : ServerEE.unmarshal i.eeRaw = some ee)
    (hok : (runConn fin resumed i).err = none) :
    (ee.alpsCp = 0 → ∀ m ∈ (runConn fin resumed i).flight.wire,
        m ∈ i.cert ∨ ∃ v, m = finishedMsg v) ∧
    (ee.alpsCp ≠ 0 → ∃ cee rest m, (runConn fin resumed i).flight.wire = cee :: rest ∧
        ClientEE.unmarshal cee = some m ∧ m.cp = ee.alpsCp) := by
  cases resumed with
  | false =>
    have hok' : (run fin i).err = none := by simpa [runConn] using hok
    obtain ⟨_, h0, h1⟩ := code_point_echo fin i ee hv hee hok'
    constructor
    · intro hz m hm
      have : (runConn fin false i).flight.wire = (run fin i).flight.wire := by simp [runConn]
      rw [this, h0 hz] at hm
      rcases List.mem_append.mp hm with h | h
      · exact Or.inl h
      · exact Or.inr ⟨_, by simpa using h⟩
    · intro hn
      obtain ⟨cee, m, hw, hu, hc⟩ := h1 hn
      exact ⟨cee, _, m, by simpa [runConn] using hw, hu, hc⟩
  | true =>
    have hok' : (run fin { i with cert := [] }).err = none := by simpa [runConn] using hok
    obtain ⟨_, h0, h1⟩ := code_point_echo fin { i with cert := [] } ee hv hee hok'
    constructor
    · intro hz m hm
      have : (runConn fin true i).flight.wire = (run fin { i with cert := [] }).flight.wire := by simp [runConn]
      rw [this, h0 hz] at hm
      exact Or.inr ⟨_, by simpa using hm⟩
    · intro hn
      obtain ⟨cee, m, hw, hu, hc⟩ := h1 hn
      exact ⟨cee, _, m, by simpa [runConn] using hw, hu, hc⟩

example :
    let i : Input := { vers := VersionTLS13, offeredAlpn := [[0x68, 0x32]], cfg := [([0x68, 0x32], [7, 7])],
                       eeRaw := serverEEMsg [(extALPN, alpnBody [0x68, 0x32]), (cpOld, [1])],
                       cert := [[11, 0, 0, 0]] }
    (runConn id true i).flight.wire.map ClientEE.unmarshal = [some { cp := cpOld, settings := [7, 7] }, none] ∧
      (runConn id false i).flight.wire.length = 3 := by
  decide

/-- `no ALPS ⇒ no EncryptedExtensions`, seen from the server: with nothing negotiated the stock
server (which does not expect the message) accepts the flight. -/
theorem no_alps_plain_flight_accepted (fin : Bytes → Bytes) (i : Input) (ee : ServerEE)
    (hv : i.vers = VersionTLS13) (hee : ServerEE.unmarshal i.eeRaw = some ee)
    (hok : (run fin i).err = none) (h0 : ee.alpsCp = 0) (hcert : i.cert = []) :
    serverAccepts fin i.T0 false (run fin i).flight.wire = true := by
  have := (code_point_echo fin i ee hv hee hok).2.1 h0
  rw [this, hcert]
  simp [serverAccepts]

example :
    let i : Input := { vers := VersionTLS13, offeredAlpn := [[0x68, 0x32]], cfg := [],
                       eeRaw := serverEEMsg [(cpNew, [5]), (extALPN, alpnBody [0x68, 0x32])] }
    (run id i).err = none ∧
      ((run id i).flight.wire.head?.bind ClientEE.unmarshal).map (·.cp) = some cpNew := by
  decide

end C22
