import UtlsVerif.QuicLemmas
import UtlsVerif.QuicSys
import UtlsVerif.QuicQueue
/-!
# C23 — QUIC clients complete through the event API and never hang

Model: `UtlsVerif/Quic.lean` — a caller thread (`Start`, `HandleData`, `SetTransportParameters`,
`Close`, `NextEvent`) and the handshake goroutine over `blockedc` / `signalc` / `cancelc` and
`handshakeMutex`; the goroutine runs the **return-path skeleton of `(*UConn).handshakeContext`**
(`Sys.prog`) and the TLS 1.3 client's emission script (`Sys.body`), both regenerated from the source
on every run (`Gen/QuicShape.lean`).

All theorems below are **general**: they hold for every `Sys` that satisfies the decidable
discipline predicate `Quic.Disc` (every return path records a result, closes `blockedc` and
`signalc` exactly once, releases `handshakeMutex`, never blocks after a close, emits events in an
admissible order), for all interleavings and unboundedly many steps. `discipline_holds` discharges
the predicate for the skeleton the working tree has now by `decide`; `d15_skeleton_rejected`
shows that a skeleton whose build-error path returns without closing the channels (the code before
the D15 repair) does not satisfy it, and a stuck state is then reachable.

* `no_stuck_caller` — no reachable state has the caller blocked on a channel (or on
  `handshakeMutex`) that the exited goroutine will never close (release).
* `caller_progress` — deadlock freedom: whenever the caller is inside a call (and the process has
  not crashed) some step of the caller or of the goroutine is enabled.
* `calls_return` — every execution that keeps taking steps while the caller is inside a call has
  the caller back, with the result of *that* call, within `measure` steps — under every schedule,
  with no fairness assumption. With `caller_progress`: Start, HandleData, SetTransportParameters
  and Close always return.
* `close_returns` — the same spelled out for `Close`, from every reachable state.
* `start_result` — `Start` returns nil only if the goroutine is waiting for handshake data or the
  handshake completed (so a `BuildHandshakeState` failure is reported, not swallowed).
* `event_order`, `event_order_spec`, `transport_params_once`, `read_secret_after_completion` —
  every reachable event trace is admissible: each secret at most once, a level's read secret only
  after its write secret, the 1-RTT read secret only after HandshakeDone and only when the
  handshake completed, peer transport parameters at most once and exactly once when HandshakeDone
  was delivered.
* `quic_hello_shape` — a QUIC ClientHello has an empty legacy session id and no compatibility CCS
  (guards regenerated from `ApplyPreset` / `makeClientHello` / `sendDummyChangeCipherSpec`).
* `no_bytes_lost`, `no_bytes_lost_drained`, `bytes_lost_without_clear`, `utls_no_bytes_lost` — the
  event queue (`QuicQueue.lean`): for every interleaving of handshake writes, other events and
  `NextEvent` calls, at every level the bytes handed out by `NextEvent` followed by the bytes still
  queued are exactly the bytes written; once `NextEvent` reports `QUICNoEvent` nothing is queued.
  This needs `NextEvent` to overwrite the slot it hands out with `QUICEvent{}` (regenerated shape
  fact): without it a later write of the same level is coalesced into the consumed slot and lost.
* `api_shapes` — the channel/mutex operation sequences of `Start`, `HandleData`, `Close`,
  `SetTransportParameters`, `NextEvent`, `quicWaitForSignal` in the source are the ones the
  transition system transcribes.
-/
namespace C23
open Quic

/-! ## the regenerated instance -/

/-- The skeleton and emission script the working tree has **now** satisfy the discipline. -/
theorem discipline_holds : Disc theSys = true := by decide

def tailErr : Prog := .act .setHsErr (.act (.close .blocked) (.act (.close .signal) .ret))
def tailOK : Prog :=
  .act (.emit .hd) (.act (.emit (.sr .app)) (.act (.close .blocked) (.act (.close .signal) .ret)))

/-- `handshakeContext` of a QUIC client, hand-condensed, with the `BuildHandshakeState`-error path
as a parameter. -/
def skel (onBuildErr : Prog) : Prog :=
  .ite .complete .ret <| .act (.dfr .cancel) <| .act .setCancel <| .act (.lock .hs) <| .act (.dfr (.unlock .hs)) <|
  .ite .hsErr .ret <| .ite .complete .ret <| .act (.lock .inp) <| .act (.dfr (.unlock .inp)) <|
  .act .build <| .ite .buildErr onBuildErr <| .act .body <| .ite .hsErr tailErr tailOK

/-- a hand-written emission script (ServerHello; handshake secrets; EncryptedExtensions with the
peer's transport parameters; Certificate … Finished; 1-RTT write secret) -/
def handBody : List BItem :=
  [.recv, .emit (.sw .handshake), .emit (.sr .handshake), .recv, .emit .tp, .recv, .emit (.sw .app)]

/-- the hand-written system with the repaired build-error path (independent of the regenerated
instance, so the examples below do not depend on the code's current shape) -/
def handSys : Sys := { prog := skel tailErr, build := buildScript, body := handBody }

/-- as it was before the D15 repair: the build-error path is a bare `return err`. -/
def preFixSys : Sys := { handSys with prog := skel .ret }

/-- D15: the unrepaired skeleton violates the discipline (its build-error return path closes
nothing) — the clause the repair restores; with that path repaired, and nothing else changed, the
same skeleton passes: the predicate discriminates on exactly that path. -/
theorem d15_skeleton_rejected : Disc preFixSys = false ∧ Disc handSys = true := by decide

/-! ## no stuck caller -/

/-- the channel a blocked caller is receiving from -/
def waitsOn : Caller → Option Chan
  | .start => some .blocked
  | .sig _ => some .signal
  | .blk _ => some .blocked
  | .drain => some .blocked
  | _ => none

def chanClosed (a : A) : Chan → Bool
  | .blocked => a.closedB
  | .signal => a.closedS

/-- The goroutine has exited while the caller is blocked on a channel it never closed, or on
`handshakeMutex` it never released. -/
def Stuck (s : St) : Prop :=
  s.g = .done ∧ ((∃ ch, waitsOn s.caller = some ch ∧ chanClosed s.a ch = false) ∨
    (s.caller = .hdLock ∧ s.a.holds = true))

theorem no_stuck_caller (sys : Sys) (hd : Disc sys = true) (s : St) (hr : Reachable sys s) : ¬ Stuck s := by
  intro ⟨hg, h⟩
  have hi := (inv_reachable sys hd s hr).gor
  simp only [gorOK, hg] at hi
  obtain ⟨h1, h2, _, h4⟩ := hi
  rcases h with ⟨ch, _, hc⟩ | ⟨_, hh⟩
  · cases ch <;> simp [chanClosed, h1, h2] at hc
  · simp [h4] at hh

/-- non-vacuity: with the unrepaired skeleton a stuck state **is** reachable — `Start`, then the
goroutine runs to the build error and exits (the D15 hang). -/
example : ∃ s, Reachable preFixSys s ∧ Stuck s := by
  let sys : Sys := preFixSys
  -- Start; 9 skeleton steps up to `build`; enter the call; it fails; ite buildErr; ret; 3 deferred calls; done
  let ls : List Label := [.invStart true] ++ List.replicate 10 (.gor .a) ++ [.gor .c] ++ List.replicate 6 (.gor .a)
  let run : List Label → St → Option St := fun ls s => ls.foldlM (fun s l => next sys s l) s
  have key : ∀ (ls : List Label) (s s' : St), Reachable sys s → ls.foldlM (fun s l => next sys s l) s = some s' →
      Reachable sys s' := by
    intro ls
    induction ls with
    | nil => intro s s' hr h; simp at h; subst h; exact hr
    | cons l r ih =>
      intro s s' hr h
      simp only [List.foldlM_cons, Option.bind_eq_bind] at h
      cases hn : next sys s l with
      | none => simp [hn] at h
      | some s1 => rw [hn] at h; exact ih s1 s' (.step l hr hn) h
  have hs : ∃ s', run ls {} = some s' ∧ s'.g = .done ∧ s'.caller = .start ∧ s'.a.closedB = false := by decide
  obtain ⟨s', h1, h2, h3, h4⟩ := hs
  exact ⟨s', key ls {} s' .init h1, h2, Or.inl ⟨.blocked, by simp [h3, waitsOn], by simp [chanClosed, h4]⟩⟩

/-! ## deadlock freedom and return of every call -/

theorem caller_progress (sys : Sys) (hd : Disc sys = true) (s : St) (hr : Reachable sys s)
    (hbusy : s.caller ≠ .idle) (hlive : s.g ≠ .crashed) :
    ∃ l, l ∈ internalLabels ∧ ∃ s', next sys s l = some s' :=
  progress sys s (inv_reachable sys hd s hr) hbusy hlive

/-- the call a busy caller is in -/
def callerOp : Caller → Option Op
  | .idle => none
  | .start => some .start
  | .sig k => some (ckOp k)
  | .blk k => some (ckOp k)
  | .hdLock => some .hd
  | .hdHeld => some .hd
  | .drain => some .close

private theorem step_op (sys : Sys) (s s' : St) (l : Label) (hb : s.caller ≠ .idle)
    (h : next sys s l = some s') :
    (s'.caller = .idle → ∃ b, s'.ret = (callerOp s.caller).map (·, b)) ∧
    (s'.caller ≠ .idle → callerOp s'.caller = callerOp s.caller) := by
  cases l with
  | invStart b => simp [next, hb] at h
  | invHD b => simp [next, hb] at h
  | invSTP => simp [next, hb] at h
  | invClose => simp [next, hb] at h
  | invNext => simp [next, hb] at h
  | gor ch =>
    have hf := gorStep_frame sys s s' ch (by simpa [next] using h)
    rw [hf.1]
    exact ⟨fun hc => absurd hc hb, fun _ => rfl⟩
  | envCancel =>
    simp only [next] at h
    split at h <;> simp at h; subst h
    exact ⟨fun hc => absurd hc hb, fun _ => rfl⟩
  | cancelSel =>
    simp only [next] at h
    split at h
    · simp at h
    · split at h <;> simp at h <;> subst h <;> exact ⟨fun hc => absurd hc hb, fun _ => rfl⟩
  | syncB =>
    simp only [next] at h
    split at h
    · split at h
      · simp at h
      · split at h <;> simp at h <;> subst h <;> rename_i hc <;> simp [retOf, hc, callerOp, ckOp]
    · simp at h
  | syncS =>
    simp only [next] at h
    split at h
    · split at h
      · simp at h
      · split at h <;> simp at h; subst h; rename_i hc; simp [hc, callerOp]
    · simp at h
  | callerStep b =>
    simp only [next, callerStep] at h
    split at h <;> rename_i hc
    · split at h <;> simp at h; subst h; simp [retOf, hc, callerOp]
    · split at h <;> simp at h; subst h; simp [hc, callerOp]
    · split at h <;> simp at h; subst h; simp [hc, callerOp, ckOp]
    · split at h <;> simp at h; subst h; simp [retOf, hc, callerOp, ckOp]
    · split at h <;> simp at h; subst h; simp [hc, callerOp]
    · split at h
      · simp at h; subst h; simp [retOf, hc, callerOp]
      · split at h <;> simp at h <;> subst h <;> simp [retOf, hc, callerOp]
    · split at h <;> simp at h; subst h; simp [retOf, hc, callerOp]
    · simp at h

/-- **Every call returns, with its own result, under every schedule.** Take any execution
`f 0, f 1, …` of any system in which a step is taken whenever the caller is inside a call. Then
within `measure sys (f 0)` steps the caller is idle again and the recorded return belongs to the
call it was in. (No fairness is assumed: *every* step taken while the caller waits strictly
decreases `measure`. That a step exists while it waits is `caller_progress`.) -/
theorem calls_return (sys : Sys) (f : Nat → St) (hbusy : (f 0).caller ≠ .idle)
    (hstep : ∀ n, (f n).caller ≠ .idle → ∃ l, next sys (f n) l = some (f (n + 1))) :
    ∃ n, n ≤ measure sys (f 0) ∧ (f n).caller = .idle ∧
      ∃ b, (f n).ret = (callerOp (f 0).caller).map (·, b) := by
  suffices H : ∀ m (f : Nat → St), measure sys (f 0) ≤ m → (f 0).caller ≠ .idle →
      (∀ n, (f n).caller ≠ .idle → ∃ l, next sys (f n) l = some (f (n + 1))) →
      ∃ n, n ≤ m ∧ (f n).caller = .idle ∧ ∃ b, (f n).ret = (callerOp (f 0).caller).map (·, b) from
    H _ f (Nat.le_refl _) hbusy hstep
  intro m
  induction m with
  | zero =>
    intro f hm hb hs
    obtain ⟨l, hl⟩ := hs 0 hb
    have := measure_decreases sys _ _ l hb hl
    omega
  | succ m ih =>
    intro f hm hb hs
    obtain ⟨l, hl⟩ := hs 0 hb
    simp only [Nat.zero_add] at hl
    have hdec := measure_decreases sys _ _ l hb hl
    have hop := step_op sys _ _ l hb hl
    by_cases h1 : (f 1).caller = .idle
    · obtain ⟨b, hb'⟩ := hop.1 h1
      exact ⟨1, by omega, h1, b, hb'⟩
    · have := ih (fun n => f (n + 1)) (by simp; omega) h1 (fun n hn => hs (n + 1) hn)
      obtain ⟨n, hn, hidle, b, hret⟩ := this
      refine ⟨n + 1, by omega, hidle, b, ?_⟩
      simp only [Nat.zero_add] at hret
      rw [hret, hop.2 h1]

/-- `Close` always returns: from any reachable state with an idle caller, calling `Close` either
returns at once (never started) or puts the caller in the `for range blockedc` loop, from which
every execution returns the result of `Close` within `measure` steps, and a step is always
enabled until then. -/
theorem close_returns (sys : Sys) (hd : Disc sys = true) (s s1 : St) (_hr : Reachable sys s)
    (hc : next sys s .invClose = some s1) :
    (s1.caller = .idle ∧ ∃ b, s1.ret = some (.close, b)) ∨
    (s1.caller = .drain ∧
      (∀ f : Nat → St, f 0 = s1 →
        (∀ n, (f n).caller ≠ .idle → ∃ l, next sys (f n) l = some (f (n + 1))) →
        ∃ n, n ≤ measure sys s1 ∧ (f n).caller = .idle ∧ ∃ b, (f n).ret = some (.close, b)) ∧
      (∀ s2, Reachable sys s2 → s2.caller = .drain → s2.g ≠ .crashed →
        ∃ l, l ∈ internalLabels ∧ ∃ s3, next sys s2 l = some s3)) := by
  simp only [next] at hc
  split at hc
  · simp at hc
  · split at hc <;> simp at hc <;> subst hc
    · exact Or.inl ⟨by simp [retOf], true, by simp [retOf]⟩
    · refine Or.inr ⟨rfl, ?_, ?_⟩
      · intro f h0 hs
        have := calls_return sys f (by simp [h0]) hs
        simpa [h0, callerOp] using this
      · intro s2 hr2 hd2 hl2
        exact caller_progress sys hd s2 hr2 (by simp [hd2]) hl2

/-- `Start` reports failure: when `Start` returns nil the goroutine is parked waiting for
handshake data, or the handshake has completed. In particular a failing `BuildHandshakeState`
cannot make `Start` return nil (and by `calls_return` it cannot make it hang). -/
theorem start_result (sys : Sys) (hd : Disc sys = true) (s s' : St) (l : Label) (hr : Reachable sys s)
    (hc : s.caller = .start) (h : next sys s l = some s') (hidle : s'.caller = .idle) :
    ∃ b, s'.ret = some (.start, b) ∧ (b = true → isSendS s'.g = true ∨ s'.a.complete = true) ∧
      (b = false → s'.a.hsErr = true) := by
  have hi := inv_reachable sys hd s hr
  have hb : s.caller ≠ .idle := by simp [hc]
  cases l with
  | invStart b => simp [next, hb] at h
  | invHD b => simp [next, hb] at h
  | invSTP => simp [next, hb] at h
  | invClose => simp [next, hb] at h
  | invNext => simp [next, hb] at h
  | gor ch =>
    have hf := gorStep_frame sys s s' ch (by simpa [next] using h)
    rw [hf.1] at hidle; exact absurd hidle hb
  | envCancel =>
    simp only [next] at h
    split at h <;> simp at h; subst h; exact absurd hidle hb
  | cancelSel =>
    simp only [next] at h
    split at h
    · simp at h
    · split at h <;> simp at h <;> subst h <;> exact absurd hidle hb
  | syncS =>
    simp only [next] at h
    split at h
    · split at h
      · simp at h
      · split at h <;> simp at h; subst h; simp at hidle
    · simp at h
  | syncB =>
    simp only [next] at h
    split at h
    · split at h
      · simp at h
      · split at h <;> simp at h <;> subst h
        · exact ⟨true, by simp [retOf], fun _ => Or.inl (by simp [retOf, isSendS]), by simp⟩
        · rename_i c hc'; simp [hc] at hc'
        · rename_i hc'; simp [hc] at hc'
    · simp at h
  | callerStep b =>
    simp only [next, callerStep, hc] at h
    split at h <;> simp at h; subst h
    rename_i hcb
    refine ⟨!s.a.hsErr, by simp [retOf], ?_, ?_⟩
    · intro hb'
      have hres := hi.closedResult hcb
      simp at hb'
      right; simpa [retOf, hb'] using hres
    · intro hb'; simpa [retOf] using hb'

/-! ## event order -/

/-- Every reachable event trace satisfies the ordering predicate. -/
theorem event_order (sys : Sys) (hd : Disc sys = true) (s : St) (hr : Reachable sys s) :
    OrderOK s.a.trace = true :=
  (inv_reachable sys hd s hr).order

private theorem orderFrom_spec (seen t : List Ev) (h : orderFrom seen t = true) (i : Nat) (e : Ev)
    (hi : t[i]? = some e) : admissible (seen ++ t.take i) e = true := by
  induction t generalizing seen i with
  | nil => simp at hi
  | cons x r ih =>
    simp only [orderFrom, Bool.and_eq_true] at h
    cases i with
    | zero => simp at hi; subst hi; simpa using h.1
    | succ j =>
      simp at hi
      have := ih (seen ++ [x]) h.2 j hi
      simpa [List.append_assoc] using this

/-- What `OrderOK` means: every event was admissible (`Quic.admissible`) after exactly the events
delivered before it — the secret of a level at most once, `SetReadSecret l` only after
`SetWriteSecret l`, `SetReadSecret Application` only after `HandshakeDone`, `TransportParameters`
at most once, `HandshakeDone` at most once and only after `TransportParameters`. -/
theorem event_order_spec (t : List Ev) (h : OrderOK t = true) (i : Nat) (e : Ev) (hi : t[i]? = some e) :
    admissible (t.take i) e = true := by
  simpa using orderFrom_spec [] t h i e hi

private theorem orderFrom_tp (seen t : List Ev) (h : orderFrom seen t = true)
    (h1 : seen.count .tp ≤ 1) (h2 : .hd ∈ seen → .tp ∈ seen) (h3 : .sr .app ∈ seen → .hd ∈ seen) :
    (seen ++ t).count .tp ≤ 1 ∧ (.hd ∈ seen ++ t → .tp ∈ seen ++ t) ∧ (.sr .app ∈ seen ++ t → .hd ∈ seen ++ t) := by
  induction t generalizing seen with
  | nil => simpa using ⟨h1, h2, h3⟩
  | cons x r ih =>
    simp only [orderFrom, Bool.and_eq_true] at h
    have hx := h.1
    have := ih (seen ++ [x]) h.2
      (by
        cases x <;> simp [admissible, List.count_append] at hx ⊢ <;> try omega
        have : List.count Ev.tp seen = 0 := List.count_eq_zero.mpr hx
        omega)
      (by
        cases x <;> simp [admissible] at hx ⊢
        all_goals first | exact h2 | (intro hh; exact Or.inl (h2 hh)) | (intro _; exact hx.1) | skip
        all_goals simp_all)
      (by
        cases x <;> simp [admissible] at hx ⊢
        all_goals first | exact h3 | (intro hh; exact Or.inl (h3 hh)) | skip
        · rintro (hh | hh)
          · exact h3 hh
          · subst hh; simpa using hx.2
        all_goals simp_all)
    simpa [List.append_assoc] using this

/-- Peer transport parameters are delivered at most once, and exactly once in every trace that
contains HandshakeDone. -/
theorem transport_params_once (sys : Sys) (hd : Disc sys = true) (s : St) (hr : Reachable sys s) :
    s.a.trace.count .tp ≤ 1 ∧ (.hd ∈ s.a.trace → s.a.trace.count .tp = 1) := by
  have h := event_order sys hd s hr
  have := orderFrom_tp [] s.a.trace h (by simp) (by simp) (by simp)
  simp only [List.nil_append] at this
  refine ⟨this.1, fun hh => ?_⟩
  have hpos : 0 < s.a.trace.count .tp := List.count_pos_iff.mpr (this.2.1 hh)
  omega

/-- The 1-RTT read secret is delivered only after HandshakeDone, and only when the handshake has
completed. -/
theorem read_secret_after_completion (sys : Sys) (hd : Disc sys = true) (s : St) (hr : Reachable sys s)
    (h : .sr .app ∈ s.a.trace) : .hd ∈ s.a.trace ∧ s.a.complete = true := by
  have ho := event_order sys hd s hr
  have := orderFrom_tp [] s.a.trace ho (by simp) (by simp) (by simp)
  simp only [List.nil_append] at this
  have hh := this.2.2 h
  exact ⟨hh, (inv_reachable sys hd s hr).hdComplete (by simpa using hh)⟩

/-- non-vacuity of the order predicate: the trace of a complete handshake (with and without early
data rejection) is accepted, and each kind of disorder is rejected. -/
example : OrderOK [.sw .handshake, .sr .handshake, .tp, .sw .app, .hd, .sr .app] = true := by decide
example : OrderOK [.tpr, .sw .early, .red, .sw .handshake, .sr .handshake, .tp, .red, .sw .app, .hd, .sr .app] = true := by decide
example : OrderOK [.sr .handshake, .sw .handshake] = false := by decide
example : OrderOK [.sw .handshake, .sr .handshake, .tp, .sw .app, .sr .app, .hd] = false := by decide
example : OrderOK [.sw .handshake, .sr .handshake, .tp, .tp] = false := by decide
example : OrderOK [.sw .handshake, .sr .handshake, .sw .app, .hd] = false := by decide

/-! ## ClientHello shape -/

/-- Every assignment of the legacy session id (in `ApplyPreset` and both `makeClientHello`s) is
guarded by `quic == nil`, and the only writer of the compatibility CCS returns first on QUIC
connections: a QUIC ClientHello has an empty session id whatever the random source yields, and no
CCS is ever written. -/
theorem quic_hello_shape :
    (∀ g ∈ Gen.QuicShape.sessionIdGuards, ∀ rand32, helloSessionId g true rand32 = []) ∧
    Gen.QuicShape.sessionIdGuards ≠ [] ∧
    (∀ sites, dummyCCSCount Gen.QuicShape.ccsQuicReturnsFirst true sites = 0) ∧
    Gen.QuicShape.ccsDirectWrites = 0 := by
  refine ⟨?_, by decide, ?_, by decide⟩
  · have : ∀ g ∈ Gen.QuicShape.sessionIdGuards, g = true := by decide
    intro g hg r; simp [helloSessionId, this g hg]
  · intro sites
    have : Gen.QuicShape.ccsQuicReturnsFirst = true := by decide
    simp [dummyCCSCount, this]

/-- non-vacuity: on a non-QUIC connection the same functions give the 32 random bytes and one CCS. -/
example : helloSessionId true false (List.replicate 32 7) = List.replicate 32 7 ∧ dummyCCSCount true false 2 = 1 := by
  decide

/-! ## API shapes -/

/-- The channel / mutex operations of the API functions, as extracted from the source, are the
sequences the transition system transcribes (`callerStep`, `syncB`, `syncS`, `cancelSel`, the
`relock` phase). -/
theorem api_shapes :
    Gen.QuicShape.startOps = expectedStartOps ∧
    Gen.QuicShape.handleDataOps = expectedHandleDataOps ∧
    Gen.QuicShape.closeOps = expectedCloseOps ∧
    Gen.QuicShape.setTPOps = expectedSetTPOps ∧
    Gen.QuicShape.nextEventOps = expectedNextEventOps ∧
    Gen.QuicShape.waitOps = expectedWaitOps := by decide

/-! ## the event queue -/

open QuicQueue in
/-- **No handshake bytes are lost or duplicated by the event queue**: for every sequence of
`quicWriteCryptoData`s, other event emissions and `NextEvent` calls from the empty queue, and every
level, the data of the WriteData events returned by `NextEvent` (in order) followed by the data still
queued equals the concatenation of everything written at that level. -/
theorem no_bytes_lost (ops : List QuicQueue.Op) (l : Nat) :
    delivered l (run true ops {}).2 ++ pendingBytes l (run true ops {}).1 = written l ops := by
  have := (run_spec ops {} clean_init l).2
  simpa [pendingBytes, slotsBytes] using this

open QuicQueue in
/-- … and when the last operation is a `NextEvent` that reported `QUICNoEvent` (the application
drained the queue), everything written has been handed out. -/
theorem no_bytes_lost_drained (ops : List QuicQueue.Op) (l : Nat)
    (h : (nextEvent true (run true ops {}).1).2 = none) :
    delivered l (run true ops {}).2 = written l ops := by
  have h1 := no_bytes_lost ops l
  have hc := (run_spec ops {} clean_init l).1
  have h2 := (next_spec (run true ops {}).1 hc l).2.2 h
  rw [h2, List.append_nil] at h1
  exact h1

open QuicQueue in
/-- Without the slot overwrite the statement is false: write, NextEvent, write at the same level —
the second write is coalesced into the slot already handed out; NextEvent then reports NoEvent. -/
theorem bytes_lost_without_clear :
    let ops := [QuicQueue.Op.write 0 [1], .next, .write 0 [2], .next]
    (run false ops {}).2 = [some ⟨.write, 0, [1]⟩, none] ∧
    delivered 0 (run false ops {}).2 ++ pendingBytes 0 (run false ops {}).1 ≠ written 0 ops ∧
    (run true ops {}).2 = [some ⟨.write, 0, [1]⟩, some ⟨.write, 0, [2]⟩] := by decide

open QuicQueue in
/-- non-vacuity: coalescing of unconsumed data does happen (two writes, one event), levels are
kept apart, other events are kept in order. -/
example :
    (run true [.write 0 [1, 2], .write 0 [3], .emit 2 2 [9], .write 2 [4], .write 0 [5], .next, .next, .next, .next, .next] {}).2 =
      [some ⟨.write, 0, [1, 2, 3]⟩, some ⟨.other 2, 2, [9]⟩, some ⟨.write, 2, [4]⟩, some ⟨.write, 0, [5]⟩, none] := by decide

/-- The code as it is now: `NextEvent` overwrites the returned slot with `QUICEvent{}` and
`quicWriteCryptoData` coalesces only into a last slot of the same kind and level (regenerated shape
facts), hence `no_bytes_lost` is about the queue the client really has. -/
theorem utls_no_bytes_lost (ops : List QuicQueue.Op) (l : Nat) :
    Gen.QuicShape.nextEventClearsSlot = true ∧ Gen.QuicShape.writeCoalescesLastSameLevel = true ∧
    QuicQueue.delivered l (QuicQueue.run Gen.QuicShape.nextEventClearsSlot ops {}).2 ++
      QuicQueue.pendingBytes l (QuicQueue.run Gen.QuicShape.nextEventClearsSlot ops {}).1 = QuicQueue.written l ops := by
  have h : Gen.QuicShape.nextEventClearsSlot = true := by decide
  refine ⟨h, by decide, ?_⟩
  rw [h]; exact no_bytes_lost ops l

/-! ## the theorems for the code as it is now -/

theorem utls_no_stuck_caller (s : St) (hr : Reachable theSys s) : ¬ Stuck s :=
  no_stuck_caller theSys discipline_holds s hr

theorem utls_caller_progress (s : St) (hr : Reachable theSys s) (hbusy : s.caller ≠ .idle)
    (hlive : s.g ≠ .crashed) : ∃ l, l ∈ internalLabels ∧ ∃ s', next theSys s l = some s' :=
  caller_progress theSys discipline_holds s hr hbusy hlive

theorem utls_event_order (s : St) (hr : Reachable theSys s) :
    OrderOK s.a.trace = true ∧ s.a.trace.count .tp ≤ 1 ∧ (.hd ∈ s.a.trace → s.a.trace.count .tp = 1) ∧
    (.sr .app ∈ s.a.trace → .hd ∈ s.a.trace ∧ s.a.complete = true) :=
  ⟨event_order theSys discipline_holds s hr, (transport_params_once theSys discipline_holds s hr).1,
   (transport_params_once theSys discipline_holds s hr).2, read_secret_after_completion theSys discipline_holds s hr⟩

/-- non-vacuity: a complete handshake is reachable (hand-written system) — Start, the goroutine
builds the hello, waits at the ServerHello read (Start returns nil), HandleData: the rest of the
script runs, HandshakeDone and the 1-RTT read secret are emitted, both channels closed, the
goroutine exits; HandleData returns nil through the post-handshake path. -/
example : ∃ s, Reachable handSys s ∧ s.g = .done ∧ s.a.complete = true ∧ s.caller = .idle ∧
    s.ret = some (.hd, true) ∧
    s.a.trace = [.sw .handshake, .sr .handshake, .tp, .sw .app, .hd, .sr .app] := by
  let ls : List Label :=
    -- Start; skeleton up to and into build; build: skip TPR, consume recv, finish; ite buildErr; enter body
    [.invStart true] ++ List.replicate 10 (.gor .a) ++ [.gor .b, .gor .a, .gor .a] ++ [.gor .a, .gor .a] ++
    -- wait at the first recv; Start returns; HandleData; re-lock; consume recv
    [.gor .b, .syncB, .invHD true, .syncS, .gor .a, .gor .a] ++
    -- the remaining six script items, completion, ite hsErr, hd, sr app, close, close, ret, 3 defers, done
    List.replicate 6 (.gor .a) ++ List.replicate 11 (.gor .a) ++
    [.callerStep true, .callerStep true, .callerStep true]
  have key : ∀ (ls : List Label) (s s' : St), Reachable handSys s → ls.foldlM (fun s l => next handSys s l) s = some s' →
      Reachable handSys s' := by
    intro ls
    induction ls with
    | nil => intro s s' hr h; simp at h; subst h; exact hr
    | cons l r ih =>
      intro s s' hr h
      simp only [List.foldlM_cons, Option.bind_eq_bind] at h
      cases hn : next handSys s l with
      | none => simp [hn] at h
      | some s1 => rw [hn] at h; exact ih s1 s' (.step l hr hn) h
  have hs : ∃ s', ls.foldlM (fun s l => next handSys s l) {} = some s' ∧ s'.g = .done ∧ s'.a.complete = true ∧
      s'.caller = .idle ∧ s'.ret = some (.hd, true) ∧
      s'.a.trace = [.sw .handshake, .sr .handshake, .tp, .sw .app, .hd, .sr .app] := by decide
  obtain ⟨s', h1, h2⟩ := hs
  exact ⟨s', key ls {} s' .init h1, h2⟩

end C23
