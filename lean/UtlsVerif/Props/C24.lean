import UtlsVerif.Varint
/-!
# C24 — QUIC transport parameters and varints encode losslessly

Property theorems (the registry of obligations for C24). Helper lemmas are marked `private`/`lemma_`.
All statements quantify over every `Nat` (Go `uint64` inputs are the subset `< 2^64`).
-/
namespace C24
open Wire Varint

/-- `Append` is defined exactly below 2^62; larger values panic, never truncate. -/
theorem too_big_panics (x : Nat) : 4611686018427387904 ≤ x ↔ vAppend x = .panic := by
  unfold vAppend max1 max2 max4 max8
  constructor
  · intro h
    rw [if_neg (by omega), if_neg (by omega), if_neg (by omega), if_neg (by omega)]
  · intro h
    split at h; · cases h
    split at h; · cases h
    split at h; · cases h
    split at h; · cases h
    omega

/-- `Len` panics on exactly the same values. -/
theorem len_panics_iff (x : Nat) : vLen x = .panic ↔ vAppend x = .panic := by
  unfold vLen vAppend
  split; · simp
  split; · simp
  split; · simp
  split <;> simp

/-- `Append` emits exactly `Len(x)` bytes. -/
theorem varint_len (x : Nat) (bs : Bytes) (h : vAppend x = .ok bs) : vLen x = .ok bs.length := by
  unfold vAppend at h; unfold vLen
  split at h; · cases h; simp [*]
  split at h; · cases h; simp [*]
  split at h; · cases h; simp [*]
  split at h; · cases h; simp [*]
  cases h

/-- `Len(x)` is the least of the four widths whose payload bits (8w−2) hold `x`. -/
theorem varint_minimal (x l : Nat) (h : vLen x = .ok l) :
    (l = 1 ∨ l = 2 ∨ l = 4 ∨ l = 8) ∧ x < 2 ^ (8 * l - 2) ∧
    ∀ w, (w = 1 ∨ w = 2 ∨ w = 4 ∨ w = 8) → x < 2 ^ (8 * w - 2) → l ≤ w := by
  unfold vLen max1 max2 max4 max8 at h
  split at h
  · cases h; refine ⟨by simp, by simp; omega, ?_⟩
    intro w hw _; omega
  split at h
  · cases h; refine ⟨by simp, by simp; omega, ?_⟩
    intro w hw hx
    rcases hw with rfl | rfl | rfl | rfl <;> simp at hx <;> omega
  split at h
  · cases h; refine ⟨by simp, by simp; omega, ?_⟩
    intro w hw hx
    rcases hw with rfl | rfl | rfl | rfl <;> simp at hx <;> omega
  split at h
  · cases h; refine ⟨by simp, by simp; omega, ?_⟩
    intro w hw hx
    rcases hw with rfl | rfl | rfl | rfl <;> simp at hx <;> omega
  cases h

/-- `Read (Append x ++ r) = (x, r)` for every encodable `x` and every continuation `r`. -/
theorem varint_roundtrip (x : Nat) (r bs : Bytes) (h : vAppend x = .ok bs) :
    vRead (bs ++ r) = some (x, r) := by
  unfold vAppend max1 max2 max4 max8 at h
  split at h
  · cases h
    have h1 : x % 256 / 64 = 0 := by omega
    simp [vRead, h1]; omega
  split at h
  · cases h
    have h0 : ¬ ((x / 256 + 64) % 256 / 64 = 0) := by omega
    have h1 : (x / 256 + 64) % 256 / 64 = 1 := by omega
    simp [vRead, h0, h1]; omega
  split at h
  · cases h
    have h0 : ¬ ((x / 16777216 + 128) % 256 / 64 = 0) := by omega
    have h1 : ¬ ((x / 16777216 + 128) % 256 / 64 = 1) := by omega
    have h2 : (x / 16777216 + 128) % 256 / 64 = 2 := by omega
    simp [vRead, h0, h1, h2]; omega
  split at h
  · cases h
    have h0 : ¬ ((x / 72057594037927936 + 192) % 256 / 64 = 0) := by omega
    have h1 : ¬ ((x / 72057594037927936 + 192) % 256 / 64 = 1) := by omega
    have h2 : ¬ ((x / 72057594037927936 + 192) % 256 / 64 = 2) := by omega
    simp [vRead, h0, h1, h2]; omega
  · cases h

private theorem vLen_eq_1 (x : Nat) : vLen x = .ok 1 ↔ x ≤ 63 := by
  unfold vLen max1 max2 max4 max8
  split; · simp [*]
  split; · simp [*]
  split; · simp [*]
  split <;> simp [*]

private theorem vLen_eq_2 (x : Nat) : vLen x = .ok 2 ↔ ¬ x ≤ 63 ∧ x ≤ 16383 := by
  unfold vLen max1 max2 max4 max8
  split; · simp [*]
  split; · simp [*]
  split; · simp [*]
  split <;> simp [*] <;> omega

private theorem vLen_eq_4 (x : Nat) : vLen x = .ok 4 ↔ ¬ x ≤ 63 ∧ ¬ x ≤ 16383 ∧ x ≤ 1073741823 := by
  unfold vLen max1 max2 max4 max8
  split; · simp [*]
  split; · simp [*]
  split; · simp [*]
  split <;> simp [*] <;> omega

/-- `AppendWithLen` with a legal width that fits: exactly `w` bytes that decode to `x`. -/
theorem withLen_width (x w l : Nat) (r : Bytes) (hw : w = 1 ∨ w = 2 ∨ w = 4 ∨ w = 8)
    (hl : vLen x = .ok l) (hle : l ≤ w) :
    ∃ bs, vAppendWithLen x w = .ok bs ∧ bs.length = w ∧ vRead (bs ++ r) = some (x, r) := by
  by_cases heq : l = w
  · subst heq
    have hnp : vAppend x ≠ .panic := by
      intro hp; rw [← len_panics_iff, hl] at hp; cases hp
    cases ha : vAppend x with
    | panic => exact absurd ha hnp
    | ok bs =>
      refine ⟨bs, ?_, ?_, varint_roundtrip x r bs ha⟩
      · unfold vAppendWithLen
        rw [if_neg (by omega), hl]; simp [ha]
      · have := varint_len x bs ha
        rw [hl] at this; cases this; rfl
  · have hlt : l < w := by omega
    have hl4 := (varint_minimal x l hl).1
    rcases hl4 with rfl | rfl | rfl | rfl
    · have hx := (vLen_eq_1 x).mp hl
      rcases hw with rfl | rfl | rfl | rfl
      · omega
      · have hc : vAppendWithLen x 2 = .ok [b 64, b x] := by
          simp [vAppendWithLen, vLen, max1, hx, beBytes]
        exact ⟨_, hc, rfl, by simp [vRead]; omega⟩
      · have hc : vAppendWithLen x 4 = .ok [b 128, b 0, b 0, b x] := by
          simp [vAppendWithLen, vLen, max1, hx, beBytes, List.replicate]
        exact ⟨_, hc, rfl, by simp [vRead]; omega⟩
      · have hc : vAppendWithLen x 8 = .ok [b 192, b 0, b 0, b 0, b 0, b 0, b 0, b x] := by
          simp [vAppendWithLen, vLen, max1, hx, beBytes, List.replicate]
        exact ⟨_, hc, rfl, by simp [vRead]; omega⟩
    · obtain ⟨hx1, hx⟩ := (vLen_eq_2 x).mp hl
      rcases hw with rfl | rfl | rfl | rfl
      · omega
      · omega
      · have hc : vAppendWithLen x 4 = .ok [b 128, b 0, b (x / 256), b x] := by
          simp [vAppendWithLen, vLen, max1, max2, hx1, hx, beBytes]
        exact ⟨_, hc, rfl, by simp [vRead]; omega⟩
      · have hc : vAppendWithLen x 8 = .ok [b 192, b 0, b 0, b 0, b 0, b 0, b (x / 256), b x] := by
          simp [vAppendWithLen, vLen, max1, max2, hx1, hx, beBytes, List.replicate]
        exact ⟨_, hc, rfl, by simp [vRead]; omega⟩
    · obtain ⟨hx1, hx2, hx⟩ := (vLen_eq_4 x).mp hl
      rcases hw with rfl | rfl | rfl | rfl
      · omega
      · omega
      · omega
      · have hc : vAppendWithLen x 8 =
            .ok [b 192, b 0, b 0, b 0, b (x / 16777216), b (x / 65536), b (x / 256), b x] := by
          simp [vAppendWithLen, vLen, max1, max2, max4, hx1, hx2, hx, beBytes, List.replicate]
        refine ⟨_, hc, rfl, ?_⟩
        -- (plain `simp [vRead]` here produces a term the kernel rejects with deep recursion)
        simp only [List.cons_append, List.nil_append, vRead, b_toNat]
        simp only [Nat.reduceMod, Nat.reduceDiv, Nat.reduceEqDiff, ↓reduceIte]
        have : x % 256 + x / 256 % 256 * 256 + x / 65536 % 256 * 65536 + x / 16777216 % 256 * 16777216 = x := by
          omega
        simp only [this, Nat.zero_mul]
        rfl
    · rcases hw with rfl | rfl | rfl | rfl <;> omega

/-- `AppendWithLen` refuses (panics on) illegal widths and widths that are too small. -/
theorem withLen_refuses (x w : Nat) :
    (¬ (w = 1 ∨ w = 2 ∨ w = 4 ∨ w = 8) → vAppendWithLen x w = .panic) ∧
    (∀ l, vLen x = .ok l → w < l → vAppendWithLen x w = .panic) ∧
    (vLen x = .panic → vAppendWithLen x w = .panic) := by
  refine ⟨?_, ?_, ?_⟩
  · intro h; unfold vAppendWithLen; rw [if_pos (by omega)]
  · intro l hl hlt; unfold vAppendWithLen
    split; · rfl
    rw [hl]; simp only
    rw [if_neg (by omega), if_pos (by omega)]
  · intro hp; unfold vAppendWithLen
    split; · rfl
    rw [hp]

private theorem vAppend_length_pos (x : Nat) (bs : Bytes) (h : vAppend x = .ok bs) : 0 < bs.length := by
  unfold vAppend at h
  split at h; · cases h; simp
  split at h; · cases h; simp
  split at h; · cases h; simp
  split at h; · cases h; simp
  cases h

private theorem parse_marshal_fuel (tps : List RawTP) (bs : Bytes) (h : marshalTPs tps = .ok bs) :
    ∀ fuel, bs.length ≤ fuel → parseTPsFuel fuel bs = some tps := by
  induction tps generalizing bs with
  | nil =>
    intro fuel _
    simp [marshalTPs] at h; subst h
    cases fuel <;> rfl
  | cons tp rest ih =>
    intro fuel hf
    unfold marshalTPs at h
    cases hi : vAppend tp.id with
    | panic => simp [hi] at h
    | ok ib =>
      cases hlen : vAppend tp.value.length with
      | panic => simp [hi, hlen] at h
      | ok lb =>
        cases hr : marshalTPs rest with
        | panic => simp [hi, hlen, hr] at h
        | ok rb =>
          simp [hi, hlen, hr] at h
          subst h
          have hpos := vAppend_length_pos _ _ hi
          cases fuel with
          | zero => simp only [List.length_append] at hf; omega
          | succ fuel =>
            have e1 : vRead (ib ++ (lb ++ (tp.value ++ rb))) = some (tp.id, lb ++ (tp.value ++ rb)) :=
              varint_roundtrip _ _ _ hi
            have e2 : vRead (lb ++ (tp.value ++ rb)) = some (tp.value.length, tp.value ++ rb) :=
              varint_roundtrip _ _ _ hlen
            have e3 := take?_append tp.value rb
            have ih' := ih rb hr fuel (by simp only [List.length_append] at hf; omega)
            cases hbs : ib ++ (lb ++ (tp.value ++ rb)) with
            | nil => have := congrArg List.length hbs; simp only [List.length_append, List.length_nil] at this; omega
            | cons c cs =>
              rw [hbs] at e1
              unfold parseTPsFuel
              simp only [e1, e2, e3, ih', Option.map_some]

/-- **Transport parameters are lossless**: whatever list `Marshal` accepts, the bytes parse —
under the RFC 9000 §18 grammar — as exactly that list of (id, value) entries. -/
theorem tps_roundtrip (tps : List RawTP) (bs : Bytes) (h : marshalTPs tps = .ok bs) :
    parseTPs bs = some tps :=
  parse_marshal_fuel tps bs h bs.length (Nat.le_refl _)

/-- the varint code is **prefix-free and injective**: two encodings followed by arbitrary
continuations give the same byte string only for the same value and the same continuation — so a
concatenation of varints has one reading. -/
theorem varint_prefix_free (x y : Nat) (bx by' r r' : Bytes)
    (hx : vAppend x = .ok bx) (hy : vAppend y = .ok by') (h : bx ++ r = by' ++ r') :
    x = y ∧ r = r' := by
  have h1 := varint_roundtrip x r bx hx
  have h2 := varint_roundtrip y r' by' hy
  rw [h, h2] at h1
  injection h1 with h1
  injection h1 with ha hb
  exact ⟨ha.symm, hb.symm⟩

theorem varint_injective (x y : Nat) (bs : Bytes)
    (hx : vAppend x = .ok bs) (hy : vAppend y = .ok bs) : x = y :=
  (varint_prefix_free x y bs bs [] [] hx hy rfl).1

/-- `Marshal` is injective on the lists it accepts: two parameter lists with the same wire bytes
are the same list (corollary of `tps_roundtrip`). -/
theorem tps_marshal_injective (a c : List RawTP) (bs : Bytes)
    (ha : marshalTPs a = .ok bs) (hc : marshalTPs c = .ok bs) : a = c := by
  have h1 := tps_roundtrip a bs ha
  have h2 := tps_roundtrip c bs hc
  rw [h1] at h2
  injection h2

example : vAppend 300 = .ok [b 65, b 44] ∧ vAppend 44 = .ok [b 44] := by decide

/-- **a caller-supplied GREASE value is emitted verbatim**, whatever `Length` says (0, equal,
shorter, longer) and whatever the random source would serve; and the object is unchanged. -/
theorem grease_override_verbatim (ov : Bytes) (h : ov ≠ []) (length : Nat) (drawn : Bytes) :
    greaseValue ov length drawn = (ov, ov) := by
  unfold greaseValue
  cases ov with
  | nil => exact absurd rfl h
  | cons a t => rfl

/-- without an override the value is `Length` drawn bytes, and it is frozen: the next `Value()`
returns the same bytes whatever is drawn then (for `Length > 0`). -/
theorem grease_drawn_frozen (length : Nat) (drawn drawn' : Bytes) (hl : 0 < length) (hd : length ≤ drawn.length) :
    (greaseValue [] length drawn).2.length = length ∧
    greaseValue (greaseValue [] length drawn).1 length drawn' = ((greaseValue [] length drawn).1, (greaseValue [] length drawn).2) := by
  have h1 : (greaseValue [] length drawn) = (drawn.take length, drawn.take length) := rfl
  rw [h1]
  refine ⟨by simp [List.length_take]; omega, ?_⟩
  apply grease_override_verbatim
  intro h
  have h' : drawn.take length = [] := h
  have : (drawn.take length).length = 0 := by rw [h']; rfl
  rw [List.length_take] at this
  omega

/-- `Marshal` panics only if some id does not fit 62 bits (a `len()` never reaches 2^62). -/
theorem tps_marshal_total (tps : List RawTP)
    (hid : ∀ tp ∈ tps, tp.id < 4611686018427387904)
    (hlen : ∀ tp ∈ tps, tp.value.length < 4611686018427387904) :
    ∃ bs, marshalTPs tps = .ok bs := by
  induction tps with
  | nil => exact ⟨[], rfl⟩
  | cons tp rest ih =>
    obtain ⟨rb, hr⟩ := ih (fun t ht => hid t (by simp [ht])) (fun t ht => hlen t (by simp [ht]))
    have h1 : vAppend tp.id ≠ .panic := by
      intro hp; have := (too_big_panics tp.id).mpr hp; have := hid tp (by simp); omega
    have h2 : vAppend tp.value.length ≠ .panic := by
      intro hp; have := (too_big_panics tp.value.length).mpr hp; have := hlen tp (by simp); omega
    cases hi : vAppend tp.id with
    | panic => exact absurd hi h1
    | ok ib =>
      cases hl : vAppend tp.value.length with
      | panic => exact absurd hl h2
      | ok lb => exact ⟨ib ++ lb ++ tp.value ++ rb, by simp [marshalTPs, hi, hl, hr]⟩

/-- a typed varint parameter's value decodes back to its number (or construction panics ≥ 2^62). -/
theorem typed_varint_value (id v : Nat) (raw : RawTP) (h : (TP.varint id v).raw = .ok raw) :
    raw.id = id ∧ vRead raw.value = some (v, []) := by
  unfold TP.raw at h
  cases ha : vAppend v with
  | panic => simp [ha] at h
  | ok bs =>
    simp [ha] at h; subst h
    exact ⟨rfl, by simpa using varint_roundtrip v [] bs ha⟩

/-! ## Destination slices and sequences of calls

The statements above are about the bytes an encoder produces. The two blocks below say that these
bytes are all there is to it: they do not depend on what the destination's backing array held
beyond `len` (a reused scratch buffer), nor on the runtime's growth policy, and a result the caller
keeps is not affected by the calls that follow. -/

private theorem goAppend_data (g : Nat → Nat) (s : Slice) (bs : Bytes) :
    (goAppend g s bs).data = s.data ++ bs := by
  unfold goAppend; split <;> rfl

private theorem appendEach_data (g : Nat → Nat) (s : Slice) (cs : Bytes) :
    (appendEach g s cs).data = s.data ++ cs := by
  induction cs generalizing s with
  | nil => simp [appendEach]
  | cons c cs ih => simp [appendEach, ih, goAppend_data]

/-- **`Append(b, x)` is `b ++ enc(x)` whatever lies between `len(b)` and `cap(b)`** and however the
runtime grows slices: the visible result is a function of `b`'s visible bytes and `x` only. -/
theorem append_ignores_capacity (g : Nat → Nat) (s : Slice) (x : Nat) :
    viewOf (sAppend g s x) = prefixed s.data (vAppend x) := by
  unfold sAppend
  cases vAppend x with
  | ok bs => simp [viewOf, prefixed, goAppend_data]
  | panic => rfl

/-- **`AppendWithLen(b, x, w)` is `b ++ enc_w(x)` whatever lies between `len(b)` and `cap(b)`**: the
padding bytes of a non-minimal width are written, never taken from the backing array. -/
theorem withLen_ignores_capacity (g : Nat → Nat) (s : Slice) (x w : Nat) :
    viewOf (sAppendWithLen g s x w) = prefixed s.data (vAppendWithLen x w) := by
  unfold sAppendWithLen vAppendWithLen
  split; · rfl
  cases vLen x with
  | panic => rfl
  | ok l =>
    simp only
    split; · exact append_ignores_capacity g s x
    split; · rfl
    simp only [viewOf, prefixed, appendEach_data]
    congr 1
    by_cases h2 : w = 2
    · simp [h2, goAppend_data]
    · by_cases h4 : w = 4
      · simp [h4, goAppend_data]
      · by_cases h8 : w = 8
        · simp [h8, goAppend_data]
        · simp [h2, h4, h8]

/-- the padded encoding in a dirty scratch buffer: exactly `w` fresh bytes after `b`, decoding to `x`
(`withLen_width` transported to an arbitrary destination slice). -/
theorem withLen_any_destination (g : Nat → Nat) (s : Slice) (x w l : Nat) (r : Bytes)
    (hw : w = 1 ∨ w = 2 ∨ w = 4 ∨ w = 8) (hl : vLen x = .ok l) (hle : l ≤ w) :
    ∃ t bs, sAppendWithLen g s x w = .ok t ∧ t.data = s.data ++ bs ∧ bs.length = w ∧
      vRead (bs ++ r) = some (x, r) := by
  obtain ⟨bs, hbs, hlen, hrd⟩ := withLen_width x w l r hw hl hle
  have h := withLen_ignores_capacity g s x w
  rw [hbs] at h
  cases ht : sAppendWithLen g s x w with
  | panic => rw [ht] at h; simp [viewOf, prefixed] at h
  | ok t =>
    rw [ht] at h
    simp only [viewOf, prefixed, Res.ok.injEq] at h
    exact ⟨t, bs, rfl, h, hlen, hrd⟩

/-- `Marshal` built by appending into any destination (the nil slice in the code) yields the
destination's bytes followed by the pure `marshalTPs` — nothing of the memory it was built in shows. -/
theorem marshal_ignores_capacity (g : Nat → Nat) (s : Slice) (tps : List RawTP) :
    viewOf (sMarshal g s tps) = prefixed s.data (marshalTPs tps) := by
  induction tps generalizing s with
  | nil => simp [sMarshal, marshalTPs, viewOf, prefixed]
  | cons tp rest ih =>
    unfold sMarshal marshalTPs sAppend
    cases hi : vAppend tp.id with
    | panic => simp [viewOf, prefixed]
    | ok ib =>
      cases hl : vAppend tp.value.length with
      | panic => simp [viewOf, prefixed]
      | ok lb =>
        simp only
        rw [ih]
        cases hr : marshalTPs rest with
        | panic => simp [prefixed]
        | ok rb => simp [prefixed, goAppend_data]

/-- **A held result is independent of later calls**: for every sequence of parameter lists marshalled
one after the other, each result — looked at after all of them were produced — parses back to its
own list. (`Marshal` returns a value; a change that makes results share storage breaks the tie to
this statement, which the `tps_seq` monitor evaluates on the real slices.) -/
theorem tps_seq_roundtrip (ls : List (List RawTP)) (rs : List Bytes) (h : marshalSeq ls = .ok rs) :
    rs.map parseTPs = ls.map some := by
  induction ls generalizing rs with
  | nil => simp [marshalSeq] at h; subst h; rfl
  | cons l ls ih =>
    unfold marshalSeq at h
    cases hm : marshalTPs l with
    | panic => simp [hm] at h
    | ok bs =>
      cases hr : marshalSeq ls with
      | panic => simp [hm, hr] at h
      | ok rest =>
        simp [hm, hr] at h
        subst h
        simp [tps_roundtrip l bs hm, ih rest hr]

/-! ## Memory: results do not share storage -/

/-- proof-side invariant: slice `s` is well-formed in `h` and — unless nil — lives in an array
allocated after the first `n` ones. -/
def Own (n : Nat) (h : Heap) : Option Hdr → Prop
  | none => True
  | some s => n ≤ s.arr ∧ s.arr < h.length ∧ s.len ≤ (h.getD s.arr []).length

private theorem writeAt_length (a : Bytes) (off : Nat) (bs : Bytes) (h : off + bs.length ≤ a.length) :
    (writeAt a off bs).length = a.length := by
  simp [writeAt]; omega

private theorem getD_snoc_lt (h : Heap) (x : Bytes) (i : Nat) (hi : i < h.length) :
    (h ++ [x]).getD i [] = h.getD i [] := by
  simp [List.getD_eq_getElem?_getD, List.getElem?_append_left hi]

private theorem getD_snoc_eq (h : Heap) (x : Bytes) : (h ++ [x]).getD h.length [] = x := by
  simp [List.getD_eq_getElem?_getD]

private theorem getD_set_self (h : Heap) (i : Nat) (x : Bytes) (hi : i < h.length) : (h.set i x).getD i [] = x := by
  simp [List.getD_eq_getElem?_getD, hi]

private theorem getD_set_other (h : Heap) (i j : Nat) (x : Bytes) (hij : i ≠ j) : (h.set i x).getD j [] = h.getD j [] := by
  simp [List.getD_eq_getElem?_getD, List.getElem?_set_ne hij]

private theorem take_keep (a bs rest : Bytes) (k : Nat) (hk : k ≤ a.length) :
    (a.take k ++ bs ++ rest).take (k + bs.length) = a.take k ++ bs := by
  have hl : (a.take k ++ bs).length = k + bs.length := by
    simp [List.length_take]; omega
  exact List.take_left' hl

private theorem hAppend_spec (g : Nat → Nat) (n : Nat) (h : Heap) (s : Option Hdr) (bs : Bytes)
    (hn : n ≤ h.length) (ho : Own n h s) :
    h.length ≤ (hAppend g h s bs).1.length ∧ Own n (hAppend g h s bs).1 (hAppend g h s bs).2 ∧
    (∀ i, i < n → (hAppend g h s bs).1.getD i [] = h.getD i []) ∧
    hView (hAppend g h s bs).1 (hAppend g h s bs).2 = hView h s ++ bs := by
  cases s with
  | none =>
    unfold hAppend
    by_cases hb : bs = []
    · simp [hb, Own, hView]
    · simp only [hb, if_false]
      refine ⟨by simp, ⟨hn, by simp, ?_⟩, fun i hi => getD_snoc_lt _ _ _ (by omega), ?_⟩
      · simp
      · simp [hView]
  | some s =>
    obtain ⟨h1, h2, h3⟩ := ho
    unfold hAppend
    simp only [hView]
    generalize ha : h.getD s.arr [] = a at h3 ⊢
    by_cases hf : s.len + bs.length ≤ a.length
    · simp only [hf, if_true]
      refine ⟨by simp, ⟨h1, by simpa using h2, ?_⟩, fun i hi => ?_, ?_⟩
      · rw [getD_set_self _ _ _ h2, writeAt_length _ _ _ hf]; exact hf
      · exact getD_set_other _ _ _ _ (by omega)
      · rw [getD_set_self _ _ _ h2]; exact take_keep _ _ _ _ h3
    · simp only [hf, if_false]
      refine ⟨by simp, ⟨by omega, by simp, ?_⟩, fun i hi => getD_snoc_lt _ _ _ (by omega), ?_⟩
      · rw [getD_snoc_eq]; simp [List.length_take]; omega
      · rw [getD_snoc_eq]; exact take_keep _ _ _ _ h3

private theorem hMarshalFrom_spec (g : Nat → Nat) (n : Nat) (tps : List RawTP) :
    ∀ (h : Heap) (s : Option Hdr) (h' : Heap) (r : Option Hdr), n ≤ h.length → Own n h s →
      hMarshalFrom g h s tps = .ok (h', r) →
      h.length ≤ h'.length ∧ Own n h' r ∧ (∀ i, i < n → h'.getD i [] = h.getD i []) ∧
      ∃ bs, marshalTPs tps = .ok bs ∧ hView h' r = hView h s ++ bs := by
  induction tps with
  | nil =>
    intro h s h' r hn ho he
    simp only [hMarshalFrom, Res.ok.injEq, Prod.mk.injEq] at he
    obtain ⟨rfl, rfl⟩ := he
    exact ⟨Nat.le_refl _, ho, fun _ _ => rfl, [], rfl, by simp⟩
  | cons tp rest ih =>
    intro h s h' r hn ho he
    unfold hMarshalFrom at he
    cases hi : vAppend tp.id with
    | panic => simp [hi] at he
    | ok ib =>
      cases hl : vAppend tp.value.length with
      | panic => simp [hi, hl] at he
      | ok lb =>
        simp only [hi, hl] at he
        obtain ⟨l1, o1, f1, v1⟩ := hAppend_spec g n h s ib hn ho
        obtain ⟨l2, o2, f2, v2⟩ := hAppend_spec g n _ _ lb (by omega) o1
        obtain ⟨l3, o3, f3, v3⟩ := hAppend_spec g n _ _ tp.value (by omega) o2
        obtain ⟨l4, o4, f4, bs, hb, v4⟩ := ih _ _ h' r (by omega) o3 he
        refine ⟨by omega, o4, fun i hi' => ?_, ib ++ lb ++ tp.value ++ bs, ?_, ?_⟩
        · rw [f4 i hi', f3 i hi', f2 i hi', f1 i hi']
        · simp [marshalTPs, hi, hl, hb]
        · rw [v4, v3, v2, v1]; simp

private theorem hView_frame (h1 hN : Heap) (n : Nat) (r : Option Hdr) (ho : Own n h1 r)
    (hf : ∀ i, i < h1.length → hN.getD i [] = h1.getD i []) : hView hN r = hView h1 r := by
  cases r with
  | none => rfl
  | some s => simp only [hView]; rw [hf s.arr ho.2.1]

/-- one `Marshal()` call writes only into arrays it allocates itself: every array that existed
before the call is unchanged, and the returned slice shows exactly `marshalTPs`. -/
theorem marshal_writes_only_fresh_memory (g : Nat → Nat) (h h' : Heap) (tps : List RawTP) (r : Option Hdr)
    (he : hMarshal g h tps = .ok (h', r)) :
    (∀ i, i < h.length → h'.getD i [] = h.getD i []) ∧ ∃ bs, marshalTPs tps = .ok bs ∧ hView h' r = bs := by
  obtain ⟨_, _, f, bs, hb, v⟩ := hMarshalFrom_spec g h.length tps h none h' r (Nat.le_refl _) trivial he
  exact ⟨f, bs, hb, by simpa [hView] using v⟩

/-- **A result the caller holds is independent of later calls** — with memory modelled: for every
sequence of parameter lists marshalled one after the other in one heap (any growth policy, any
prior heap contents), every returned slice, *read in the final heap after all calls*, shows exactly
the marshalling of its own list; and nothing that existed before is touched. This is what the
`tps_seq` monitor evaluates on the real slices; a `Marshal` that builds its result in storage a
later call reuses (a pooled or package-level scratch buffer) is not `hMarshal` — see the example
at the end of this file — and the monitor sees the overwritten bodies. -/
theorem marshal_results_survive_later_calls (g : Nat → Nat) (ls : List (List RawTP)) :
    ∀ (h hN : Heap) (rs : List (Option Hdr)), hMarshalSeq g h ls = .ok (hN, rs) →
      h.length ≤ hN.length ∧ (∀ i, i < h.length → hN.getD i [] = h.getD i []) ∧
      ∃ bss, marshalSeq ls = .ok bss ∧ rs.map (hView hN) = bss := by
  induction ls with
  | nil =>
    intro h hN rs he
    simp only [hMarshalSeq, Res.ok.injEq, Prod.mk.injEq] at he
    obtain ⟨rfl, rfl⟩ := he
    exact ⟨Nat.le_refl _, fun _ _ => rfl, [], rfl, rfl⟩
  | cons l ls ih =>
    intro h hN rs he
    unfold hMarshalSeq at he
    cases hm : hMarshal g h l with
    | panic => simp [hm] at he
    | ok p =>
      obtain ⟨h1, r⟩ := p
      simp only [hm] at he
      cases hr : hMarshalSeq g h1 ls with
      | panic => simp [hr] at he
      | ok q =>
        obtain ⟨hN', rs'⟩ := q
        simp only [hr, Res.ok.injEq, Prod.mk.injEq] at he
        obtain ⟨rfl, rfl⟩ := he
        obtain ⟨l1, o1, f1, bs, hb, v1⟩ := hMarshalFrom_spec g h.length l h none h1 r (Nat.le_refl _) trivial hm
        obtain ⟨l2, f2, bss, hbs, v2⟩ := ih h1 hN' rs' hr
        refine ⟨by omega, fun i hi => ?_, bs :: bss, ?_, ?_⟩
        · rw [f2 i (by omega), f1 i hi]
        · simp [marshalSeq, hb, hbs]
        · simp only [List.map_cons, v2, hView_frame h1 hN' h.length r o1 f2, v1]
          simp [hView]

/-! Non-vacuity: concrete non-trivial instances of the hypotheses. -/
example : vAppend 16384 = .ok [0x80, 0x00, 0x40, 0x00] := by decide
example : vAppendWithLen 37 4 = .ok [0x80, 0, 0, 37] := by decide
example : marshalTPs [⟨0x2ab2, []⟩, ⟨1, [0x40, 0x64]⟩] = .ok [0x6a, 0xb2, 0, 1, 2, 0x40, 0x64] := by decide
example : parseTPs [0x6a, 0xb2, 0, 1, 2, 0x40, 0x64] = some [⟨0x2ab2, []⟩, ⟨1, [0x40, 0x64]⟩] := by decide
-- a scratch buffer that held a longer encoding and was reset with b = b[:0]: the padding is written
example : sAppendWithLen (fun _ => 0) ⟨[], [0xc0, 0xff, 0xff, 0xff, 0xff, 0xff, 0xff, 0xff]⟩ 0 4
    = .ok ⟨[0x80, 0, 0, 0], [0xff, 0xff, 0xff, 0xff]⟩ := by decide
-- too little spare capacity: the runtime moves to a fresh array
example : sAppendWithLen (fun n => 2 * n) ⟨[7], [0xff]⟩ 37 2 = .ok ⟨[7, 0x40, 37], List.replicate 6 0⟩ := by decide
example : marshalSeq [[⟨1, [0x40, 0x64]⟩], [⟨0x2ab2, []⟩]] = .ok [[1, 2, 0x40, 0x64], [0x6a, 0xb2, 0]] := by decide
-- two Marshal calls in one heap (array 0 is the one the first call outgrew): both results intact at the end
example : hMarshalSeq (fun n => n) [] [[⟨1, [0x40, 0x64]⟩], [⟨0x2ab2, []⟩]]
    = .ok ([[1, 2], [1, 2, 0x40, 0x64, 0, 0, 0, 0], [0x6a, 0xb2, 0, 0]], [some ⟨1, 4⟩, some ⟨2, 3⟩]) := by decide
-- what the theorem excludes: building the second result in the array the first one lives in
-- (a scratch buffer handed out again) overwrites the body the caller still holds
example : hMarshalFrom (fun n => n) [[1, 2, 0x40, 0x64, 0, 0, 0, 0]] (some ⟨0, 0⟩) [⟨0x2ab2, []⟩]
    = .ok ([[0x6a, 0xb2, 0, 0x64, 0, 0, 0, 0]], some ⟨0, 3⟩) := by decide

end C24
