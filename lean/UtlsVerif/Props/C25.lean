import UtlsVerif.RecordLemmas4
import UtlsVerif.RecordLemmas5
import UtlsVerif.RecordLemmas6
import UtlsVerif.RecordToy
/-!
# C25 — application data arrives intact and tampering is detected

Model: `Record.lean` (transcription of `halfConn.encrypt/decrypt`, `maxPayloadSizeForWrite`,
`writeRecordLocked`, `UConn.Write`/`Conn.Write`, `readRecordOrCCS`, `handlePostHandshakeMessage`,
`handleKeyUpdate`, `UConn.Read`/`Conn.Read`) and `RecordSys.lean` (two connected endpoints, any
interleaving of `Write(any size)`, `Read(any buffer size)` and TLS 1.3 KeyUpdates with or without
`update_requested`, on either side). Cryptography is a parameter; the round-trip laws
(`Crypto.Laws`) and authenticity are explicit hypotheses. Helper lemmas: `RecordLemmas*.lean`.

For every well-formed suite (`Suite.WF`: TLS 1.0–1.3; AEAD with prefix or XOR nonce, CBC with 8- or
16-byte blocks, RC4; MAC ≤ 48 bytes) and **every** list of operations:

* `stream_integrity` — no `Read` ever returns an error, and in each direction the bytes read are a
  prefix of the bytes written; `stream_complete` — once the reader has nothing left unread it has
  read exactly what was written; `read_progress` — while something is outstanding, a `Read` with a
  non-empty buffer returns at least one byte;
* `keyupdate_runs_harmless` — the instance people trip over: **any number** `n` of consecutive
  KeyUpdates from one side (with or without `update_requested`) followed by a write from that side:
  the peer's next `Read` returns the beginning of that write, no error. The reader model carries
  `retryCount` with the real rules — `afterDecrypt` resets it on every non-empty record that is not
  an alert or CCS (so also on TLS 1.3 handshake records), `handleMsg` increments it per
  post-handshake message and fails above `maxUselessRecords` = 32 — so this is a statement about
  that counter: without the reset the premise `retry = 0` of `drainHand_ku` fails and neither this
  theorem nor `stream_integrity` would go through;
* `interleaved_useless_harmless` (+ `ignorable_flights_exist`) — any number of ignorable records
  (empty application data) interleaved with data and KeyUpdates, never more than 32 in a row, never
  fails a `Read`, for any sequence of buffer sizes; the data arrives in order;
* `seq_in_lockstep` — whenever a direction is drained, writer and reader agree on key, secret and
  sequence number (also across any number of KeyUpdates); `seq_advances` — one per record, reset
  with a new epoch on KeyUpdate;
* `record_limits`, `record_size`, `write_sizes`, `fragment_bounds` — everything in flight is a
  sequence of well-framed records within the version's ciphertext limit, each carrying 1..2^14
  plaintext bytes; the wire length of every record is the closed formula `recLen`, and the
  fragmentation of a write is the arithmetic function `fragSizes` of (parameters, bytesSent,
  packetsSent);
* `record_roundtrip` — one record, all cipher kinds;
* `tamper_errors_aead`, `tamper_errors_stream` — under authenticity (hypothesis), if the bytes at the
  head of the wire differ in any way from the genuine next record, `readRecord` does not deliver
  anything (it fails or waits for bytes that never form a valid record);
  `tamper_never_alters` — CBC and RC4, MAC authenticity only: whatever is accepted carries the
  genuine content type and plaintext; `tamper_errors_cbc` — CBC: never delivers, under MAC
  authenticity plus `hCbc` (the adversary cannot present a second (IV, ciphertext) decrypting to the
  genuine data ‖ MAC ‖ some padding — a property of the block cipher as a keyed permutation, not of
  the record layer; kept as a separate, explicit hypothesis).
-/
namespace C25
open Wire Keystream Record

/-- **stream_integrity**: from any state satisfying the invariant — in particular from two
connections fresh out of a handshake (`stream_integrity_fresh`) — and for every sequence of
operations on both sides: no `Read` has returned an error, and in each direction what has been read
is a prefix of what has been written. -/
theorem stream_integrity (C : Crypto) (s : Suite) (hs : s.WF) (hC : C.Laws s.tagLen s.macLen) (σ : Sys) (h : Inv C s σ)
    (ops : List Op) :
    (run C σ ops).ok = true ∧
    (∃ pending, (run C σ ops).sentAB = (run C σ ops).recvAB ++ pending) ∧
    (∃ pending, (run C σ ops).sentBA = (run C σ ops).recvBA ++ pending) := by
  obtain ⟨⟨i1, _, h1, _⟩, ⟨i2, _, h2, _⟩, hok⟩ := run_inv C s hs hC ops σ h
  exact ⟨hok, ⟨_, by rw [h1, List.append_assoc]⟩, ⟨_, by rw [h2, List.append_assoc]⟩⟩

/-- two endpoints right after a handshake: empty buffers, no errors, each incoming half in lockstep
with the peer's outgoing half. -/
theorem stream_integrity_fresh (C : Crypto) (s : Suite) (hs : s.WF) (hC : C.Laws s.tagLen s.macLen) (a b : Conn)
    (ha : Fresh s a) (hb : Fresh s b) (hab : Sync s b.inn a.out) (hba : Sync s a.inn b.out) (ops : List Op) :
    (run C { a := a, b := b } ops).ok = true ∧
    (∃ pending, (run C { a := a, b := b } ops).sentAB = (run C { a := a, b := b } ops).recvAB ++ pending) ∧
    (∃ pending, (run C { a := a, b := b } ops).sentBA = (run C { a := a, b := b } ops).recvBA ++ pending) :=
  stream_integrity C s hs hC _ (inv_init C s a b ha hb hab hba) ops

private theorem flight_raw_nil' {C : Crypto} {s : Suite} {r : Half} {raw : Bytes} {items : List Item} {w : Half}
    (hF : Flight C s r raw items w) (hraw : raw = []) : items = [] ∧ Sync s r w := by
  cases hF with
  | nil h => exact ⟨rfl, h⟩
  | app hg _ _ _ =>
    obtain ⟨t, body, hrec, _⟩ := hg.framed
    rw [hrec] at hraw; simp [hdr] at hraw
  | ku _ hg _ =>
    obtain ⟨t, body, hrec, _⟩ := hg.framed
    rw [hrec] at hraw; simp [hdr] at hraw
  | skip hg _ =>
    obtain ⟨t, body, hrec, _⟩ := hg.framed
    rw [hrec] at hraw; simp [hdr] at hraw

private theorem flight_raw_nil {C : Crypto} {s : Suite} {r : Half} {items : List Item} {w : Half}
    (hF : Flight C s r [] items w) : items = [] ∧ Sync s r w := flight_raw_nil' hF rfl

/-- **stream_complete**: in any reachable state, when B has no unparsed bytes and no buffered
plaintext left, B has read exactly what A wrote (and symmetrically). -/
theorem stream_complete (C : Crypto) (s : Suite) (hs : s.WF) (hC : C.Laws s.tagLen s.macLen) (σ : Sys) (h : Inv C s σ)
    (ops : List Op) :
    ((run C σ ops).b.raw = [] → (run C σ ops).b.input = [] → (run C σ ops).recvAB = (run C σ ops).sentAB) ∧
    ((run C σ ops).a.raw = [] → (run C σ ops).a.input = [] → (run C σ ops).recvBA = (run C σ ops).sentBA) := by
  obtain ⟨⟨i1, hF1, h1, _⟩, ⟨i2, hF2, h2, _⟩, _⟩ := run_inv C s hs hC ops σ h
  constructor
  · intro hr hi
    rw [hr] at hF1
    rw [h1, hi, (flight_raw_nil hF1).1]; simp [appBytes]
  · intro hr hi
    rw [hr] at hF2
    rw [h2, hi, (flight_raw_nil hF2).1]; simp [appBytes]

/-- **read_progress**: in any reachable state in which B has not yet read everything A wrote, a
`Read` by B with a non-empty buffer returns at least one byte and no error (and symmetrically). -/
theorem read_progress (C : Crypto) (s : Suite) (hs : s.WF) (hC : C.Laws s.tagLen s.macLen) (σ : Sys) (h : Inv C s σ)
    (ops : List Op) (n : Nat) (hn : 0 < n) :
    ((run C σ ops).sentAB ≠ (run C σ ops).recvAB →
      (read C (run C σ ops).b n).data ≠ [] ∧ (read C (run C σ ops).b n).err = none) ∧
    ((run C σ ops).sentBA ≠ (run C σ ops).recvBA →
      (read C (run C σ ops).a n).data ≠ [] ∧ (read C (run C σ ops).a n).err = none) := by
  obtain ⟨h1, h2, _⟩ := run_inv C s hs hC ops σ h
  constructor
  · intro hne
    obtain ⟨he, _, _, hp⟩ := dir_read C s hs hC _ _ _ _ _ _ n h1 h2
    exact ⟨hp hn hne, he⟩
  · intro hne
    obtain ⟨he, _, _, hp⟩ := dir_read C s hs hC _ _ _ _ _ _ n h2 h1
    exact ⟨hp hn hne, he⟩

private theorem step_ku_ghost (C : Crypto) (σ : Sys) (side : Side) (req : Bool) :
    (step C σ (.keyUpdate side req)).sentAB = σ.sentAB ∧ (step C σ (.keyUpdate side req)).recvAB = σ.recvAB ∧
    (step C σ (.keyUpdate side req)).sentBA = σ.sentBA ∧ (step C σ (.keyUpdate side req)).recvBA = σ.recvBA := by
  cases side with
  | A => by_cases h : σ.a.outErr.isSome = true ∨ σ.a.p.s.vers ≠ v13 <;> simp [step, h]
  | B => by_cases h : σ.b.outErr.isSome = true ∨ σ.b.p.s.vers ≠ v13 <;> simp [step, h]

private theorem run_ku_write_ghost (C : Crypto) (s : Suite) (hs : s.WF) (hC : C.Laws s.tagLen s.macLen) (req : Bool) (d : Bytes)
    (n : Nat) : ∀ σ : Sys, Inv C s σ →
    ((run C σ (List.replicate n (.keyUpdate .A req) ++ [.write .A d])).sentAB = σ.sentAB ++ d ∧
     (run C σ (List.replicate n (.keyUpdate .A req) ++ [.write .A d])).recvAB = σ.recvAB) ∧
    ((run C σ (List.replicate n (.keyUpdate .B req) ++ [.write .B d])).sentBA = σ.sentBA ++ d ∧
     (run C σ (List.replicate n (.keyUpdate .B req) ++ [.write .B d])).recvBA = σ.recvBA) := by
  induction n with
  | zero =>
    intro σ h
    have haoe : σ.a.outErr = none := h.1.choose_spec.2.2.2.2.2.2.1
    have hboe : σ.b.outErr = none := h.2.1.choose_spec.2.2.2.2.2.2.1
    simp [run, step, haoe, hboe]
  | succ n ih =>
    intro σ h
    obtain ⟨ga1, ga2, _, _⟩ := step_ku_ghost C σ .A req
    obtain ⟨_, _, gb3, gb4⟩ := step_ku_ghost C σ .B req
    have iha := (ih _ (step_inv C s hs hC σ (.keyUpdate .A req) h)).1
    have ihb := (ih _ (step_inv C s hs hC σ (.keyUpdate .B req) h)).2
    simp only [List.replicate_succ, List.cons_append, run, List.foldl_cons] at iha ihb ⊢
    rw [ga1, ga2] at iha
    rw [gb3, gb4] at ihb
    exact ⟨iha, ihb⟩

/-- **keyupdate_runs_harmless**: from any reachable state in which B has read everything A wrote so
far, let A send `n` KeyUpdates in a row — any `n`, with or without `update_requested` — and then
write `d ≠ []`. Then no Read has failed, and B's next `Read` (any non-empty buffer) returns no
error and a non-empty prefix of `d`: the run of KeyUpdates never exhausts `maxUselessRecords`,
because every KeyUpdate *record* resets `retryCount` before its message increments it.
(Symmetrically for B → A.) -/
theorem keyupdate_runs_harmless (C : Crypto) (s : Suite) (hs : s.WF) (hC : C.Laws s.tagLen s.macLen) (σ : Sys)
    (h : Inv C s σ) (n : Nat) (req : Bool) (d : Bytes) (hd : d ≠ []) (k : Nat) (hk : 0 < k) :
    (σ.recvAB = σ.sentAB →
      let σ' := run C σ (List.replicate n (.keyUpdate .A req) ++ [.write .A d])
      σ'.ok = true ∧ (read C σ'.b k).err = none ∧ (read C σ'.b k).data ≠ [] ∧
        ∃ rest, d = (read C σ'.b k).data ++ rest) ∧
    (σ.recvBA = σ.sentBA →
      let σ' := run C σ (List.replicate n (.keyUpdate .B req) ++ [.write .B d])
      σ'.ok = true ∧ (read C σ'.a k).err = none ∧ (read C σ'.a k).data ≠ [] ∧
        ∃ rest, d = (read C σ'.a k).data ++ rest) := by
  obtain ⟨⟨gs, gr⟩, ⟨gs', gr'⟩⟩ := run_ku_write_ghost C s hs hC req d n σ h
  constructor
  · intro hdr
    obtain ⟨h1, h2, hok⟩ := run_inv C s hs hC (List.replicate n (.keyUpdate .A req) ++ [.write .A d]) σ h
    obtain ⟨he, ⟨items, _, hsent, _⟩, _, hp⟩ := dir_read C s hs hC _ _ _ _ _ _ k h1 h2
    refine ⟨hok, he, hp hk (by rw [gs, gr, hdr]; intro hc; exact hd (by simpa using hc)), ?_⟩
    rw [gs, gr, hdr, List.append_assoc, List.append_assoc] at hsent
    exact ⟨_, List.append_cancel_left hsent⟩
  · intro hdr
    obtain ⟨h1, h2, hok⟩ := run_inv C s hs hC (List.replicate n (.keyUpdate .B req) ++ [.write .B d]) σ h
    obtain ⟨he, ⟨items, _, hsent, _⟩, _, hp⟩ := dir_read C s hs hC _ _ _ _ _ _ k h2 h1
    refine ⟨hok, he, hp hk (by rw [gs', gr', hdr]; intro hc; exact hd (by simpa using hc)), ?_⟩
    rw [gs', gr', hdr, List.append_assoc, List.append_assoc] at hsent
    exact ⟨_, List.append_cancel_left hsent⟩

/-! ### ignorable records interleaved with data -/

/-- `Read` calls with the given buffer sizes, one after the other: (all bytes returned, no call
returned an error, final connection). -/
def readMany (C : Crypto) : Conn → List Nat → Bytes × Bool × Conn
  | c, [] => ([], true, c)
  | c, n :: ns =>
    let r := read C c n
    let t := readMany C r.c ns
    (r.data ++ t.1, r.err.isNone && t.2.1, t.2.2)

/-- items a peer can legitimately put on the wire. -/
def ItemsWF (s : Suite) : List Item → Prop
  | [] => True
  | .app d :: is => d ≠ [] ∧ d.length ≤ maxPlaintext ∧ ItemsWF s is
  | .ku _ :: is => s.vers = v13 ∧ ItemsWF s is
  | .skip :: is => ItemsWF s is

/-- every such sequence — data chunks, KeyUpdates, and **empty application-data records** (`skip`) in
any order and number — is what the peer's `encrypt` produces, one record per item, as a flight. -/
theorem ignorable_flights_exist (C : Crypto) (s : Suite) (hs : s.WF) (hC : C.Laws s.tagLen s.macLen) (items : List Item) :
    ItemsWF s items → ∀ r w : Half, Sync s r w → ∃ raw w', Flight C s r raw items w' := by
  induction items with
  | nil => intro _ r w hsy; exact ⟨[], w, Flight.nil hsy⟩
  | cons i is ih =>
    intro hwf r w hsy
    cases i with
    | app d =>
      obtain ⟨hne, hd, hwf'⟩ := hwf
      obtain ⟨r', hg, hsy'⟩ := genuine_encrypt C s hs hC r w hsy tApp (by decide) (by decide) (by decide) d hd
      obtain ⟨raw, w', hF⟩ := ih hwf' _ _ hsy'
      exact ⟨_, w', Flight.app hg hne hd hF⟩
    | ku req =>
      obtain ⟨hv, hwf'⟩ := hwf
      obtain ⟨r', hg, hsy'⟩ := genuine_encrypt C s hs hC r w hsy tHs (by decide) (by decide) (by decide)
        (keyUpdateMsg req) (by simp [keyUpdateMsg]; decide)
      obtain ⟨raw, w', hF⟩ := ih hwf' _ _ (sync_rekey C s hs hv _ _ hC _ _ hsy')
      exact ⟨_, w', Flight.ku hv hg hF⟩
    | skip =>
      obtain ⟨r', hg, hsy'⟩ := genuine_encrypt C s hs hC r w hsy tApp (by decide) (by decide) (by decide) [] (by decide)
      obtain ⟨raw, w', hF⟩ := ih hwf _ _ hsy'
      exact ⟨_, w', Flight.skip hg hF⟩

/-- **interleaved_useless_harmless**: the reader `rd` has a flight waiting that contains **any number**
of ignorable records (empty application data) interleaved in any way with data and KeyUpdates,
subject only to what the code itself demands (`okRuns`: never more than `maxUselessRecords` = 32
ignorable records *in a row* — non-empty data resets `retryCount`, so the total is unbounded).
Then for every sequence of `Read` calls with any buffer sizes: no call fails, and the bytes
returned are, in order, a prefix of (buffered input ‖ the data chunks in flight). The counter in the
model is reset exactly where `readRecordOrCCS` resets it (`afterDecrypt`: every non-empty record that
is not alert/CCS), which is what makes `okRuns` an invariant of reading.
TLS ≤ 1.2 warning alerts are ignorable in the same way in `dispatch`/`retryStep`; they are covered by
the correspondence family, not by this theorem (the model's close_notify peek handles one alert
per call, `retryReadRecord` recurses). -/
theorem interleaved_useless_harmless (C : Crypto) (s : Suite) (hs : s.WF) (ns : List Nat) :
    ∀ (rd : Conn) (items : List Item) (wout : Half), Flight C s rd.inn rd.raw items wout → okRuns rd.retry items →
      rd.hand = [] → rd.inErr = none → rd.p.s = s →
      (readMany C rd ns).2.1 = true ∧
      ∃ rest, rd.input ++ appBytes items = (readMany C rd ns).1 ++ (readMany C rd ns).2.2.input ++ appBytes rest := by
  induction ns with
  | nil => intro rd items wout _ _ _ _ _; exact ⟨rfl, items, by simp [readMany]⟩
  | cons n ns ih =>
    intro rd items wout hF hok hh he hp
    obtain ⟨herr, rest, hdata, hF', hh', he', hp', _, _, hok', _, _, _⟩ :=
      read_flight C s hs (fun _ _ => True) (fun _ _ _ _ => trivial) rd n items wout hF hh he hp trivial hok
    obtain ⟨hok2, rest2, hdata2⟩ := ih (read C rd n).c rest wout hF' hok' hh' he' (by rw [hp']; exact hp)
    refine ⟨by simp [readMany, herr, hok2], rest2, ?_⟩
    simp only [readMany]
    rw [hdata, List.append_assoc, List.append_assoc, hdata2]
    simp [List.append_assoc]

/-- **seq_in_lockstep**: in any reachable state, when a direction is drained (the reader has parsed
every byte the writer sent) the reader's incoming half and the writer's outgoing half agree on key,
MAC key, traffic secret, sequence number and stream position — after any number of records and
KeyUpdates in any interleaving. -/
theorem seq_in_lockstep (C : Crypto) (s : Suite) (hs : s.WF) (hC : C.Laws s.tagLen s.macLen) (σ : Sys) (h : Inv C s σ)
    (ops : List Op) :
    ((run C σ ops).b.raw = [] → Sync s (run C σ ops).b.inn (run C σ ops).a.out) ∧
    ((run C σ ops).a.raw = [] → Sync s (run C σ ops).a.inn (run C σ ops).b.out) := by
  obtain ⟨⟨i1, hF1, _⟩, ⟨i2, hF2, _⟩, _⟩ := run_inv C s hs hC ops σ h
  exact ⟨fun hr => by rw [hr] at hF1; exact (flight_raw_nil hF1).2, fun hr => by rw [hr] at hF2; exact (flight_raw_nil hF2).2⟩

/-- `Sync` pins the sequence numbers (and keys) to be equal. -/
theorem sync_seq (s : Suite) (r w : Half) (h : Sync s r w) : r.seq = w.seq ∧ r.key = w.key ∧ r.secret = w.secret :=
  ⟨h.2.2.2.1, h.1, h.2.2.1⟩

/-- **seq_advances**: protecting a record increments the sequence number by exactly one and keeps
key and epoch; a KeyUpdate starts a new epoch at sequence number zero. Hence within one epoch (one
key) no sequence number — and so no AEAD nonce, no MAC'ed sequence number — is used twice. -/
theorem seq_advances (C : Crypto) (s : Suite) (h : Half) (typ : Nat) (d : Bytes) :
    (encrypt C s h typ d).2.seq = h.seq + 1 ∧ (encrypt C s h typ d).2.epoch = h.epoch ∧
    (encrypt C s h typ d).2.key = h.key ∧ (rekey C h).seq = 0 ∧ (rekey C h).epoch = h.epoch + 1 := by
  obtain ⟨a, b', c, _⟩ := encrypt_seq C s h typ d
  exact ⟨a, b', c, rfl, rfl⟩

/-- the bytes in flight split into records, each framed with its own length, within the reader's
limit for the version. -/
def WellFramed (s : Suite) : Bytes → Prop := fun raw =>
  ∃ recs : List Bytes, raw = recs.flatten ∧ ∀ rec ∈ recs, ∃ t body, rec = hdr t (wireVers s.vers) body.length ++ body ∧
    body.length ≤ (if s.vers = v13 then maxCiphertextTLS13 else maxCiphertext)

private theorem flight_wellFramed {C : Crypto} {s : Suite} {r : Half} {raw : Bytes} {items : List Item} {w : Half}
    (hF : Flight C s r raw items w) : WellFramed s raw ∧ ∀ d, Item.app d ∈ items → 1 ≤ d.length ∧ d.length ≤ maxPlaintext := by
  induction hF with
  | nil _ => exact ⟨⟨[], rfl, by simp⟩, by simp⟩
  | app hg hne hd _ ih =>
    obtain ⟨⟨recs, hr, hall⟩, hit⟩ := ih
    obtain ⟨t, body, hrec, hlim, _⟩ := hg.framed
    refine ⟨⟨_ :: recs, by rw [hr]; rfl, ?_⟩, ?_⟩
    · intro rec hm
      rcases List.mem_cons.mp hm with rfl | hm
      · exact ⟨t, body, hrec, hlim⟩
      · exact hall rec hm
    · intro d' hm
      rcases List.mem_cons.mp hm with h | hm
      · cases h; exact ⟨List.length_pos_iff.mpr hne, hd⟩
      · exact hit d' hm
  | ku _ hg _ ih =>
    obtain ⟨⟨recs, hr, hall⟩, hit⟩ := ih
    obtain ⟨t, body, hrec, hlim, _⟩ := hg.framed
    refine ⟨⟨_ :: recs, by rw [hr]; rfl, ?_⟩, ?_⟩
    · intro rec hm
      rcases List.mem_cons.mp hm with rfl | hm
      · exact ⟨t, body, hrec, hlim⟩
      · exact hall rec hm
    · intro d' hm
      rcases List.mem_cons.mp hm with h | hm
      · cases h
      · exact hit d' hm
  | skip hg _ ih =>
    obtain ⟨⟨recs, hr, hall⟩, hit⟩ := ih
    obtain ⟨t, body, hrec, hlim, _⟩ := hg.framed
    refine ⟨⟨_ :: recs, by rw [hr]; rfl, ?_⟩, ?_⟩
    · intro rec hm
      rcases List.mem_cons.mp hm with rfl | hm
      · exact ⟨t, body, hrec, hlim⟩
      · exact hall rec hm
    · intro d' hm
      rcases List.mem_cons.mp hm with h | hm
      · cases h
      · exact hit d' hm

/-- **record_limits**: in any reachable state everything waiting at either reader is a sequence of
records, each with a correct length field and a body of at most 2^14+2048 bytes (TLS ≤ 1.2) or
2^14+256 bytes (TLS 1.3). -/
theorem record_limits (C : Crypto) (s : Suite) (hs : s.WF) (hC : C.Laws s.tagLen s.macLen) (σ : Sys) (h : Inv C s σ)
    (ops : List Op) : WellFramed s (run C σ ops).b.raw ∧ WellFramed s (run C σ ops).a.raw := by
  obtain ⟨⟨i1, hF1, _⟩, ⟨i2, hF2, _⟩, _⟩ := run_inv C s hs hC ops σ h
  exact ⟨(flight_wellFramed hF1).1, (flight_wellFramed hF2).1⟩

/-- **record_size**: the wire length of the record protecting `m` plaintext bytes is
`5 + explicit nonce + m + tag (+1 in TLS 1.3)` for AEAD, `5 + IV + (m + MAC rounded up to the next
multiple of the block size, at least one byte of padding)` for CBC, `5 + m + MAC` for RC4. -/
theorem record_size (C : Crypto) (s : Suite) (hC : C.Laws s.tagLen s.macLen) (h : Half) (typ : Nat) (d : Bytes) :
    (encrypt C s h typ d).1.length = recLen s d.length := encrypt_length C s hC h typ d

/-- **write_sizes**: the record lengths one `writeRecordLocked(typ, data)` puts on the wire are
`recLen` of the fragment sizes `fragSizes` — a function of the parameters, `bytesSent`,
`packetsSent` and `len(data)` alone. -/
theorem write_sizes (C : Crypto) (c : Conn) (hC : C.Laws c.p.s.tagLen c.p.s.macLen) (typ : Nat) (data : Bytes) :
    (writeRecord C c typ data).1.map List.length =
      (fragSizes c.p typ data.length c.bytesSent c.packetsSent data.length).map (recLen c.p.s) :=
  writeLoop_sizes C data.length c typ data hC

/-- **fragment_bounds**: every fragment carries between 1 and 2^14 bytes. -/
theorem fragment_bounds (p : Params) (hs : p.s.WF) (typ f bs ps len : Nat) :
    ∀ m ∈ fragSizes p typ f bs ps len, 1 ≤ m ∧ m ≤ maxPlaintext := fragSizes_bounds p hs typ f bs ps len

/-- **record_roundtrip**: one record, every cipher kind. -/
theorem record_roundtrip (C : Crypto) (s : Suite) (hs : s.WF) (hC : C.Laws s.tagLen s.macLen) (r w : Half)
    (hsy : Sync s r w) (typ : Nat) (ht : typ = tApp ∨ typ = tHs) (d : Bytes) (hd : d.length ≤ maxPlaintext) :
    ∃ r', decrypt C s r (encrypt C s w typ d).1 = .ok (d, typ, r') ∧ Sync s r' (encrypt C s w typ d).2 := by
  obtain ⟨r', hg, hsy'⟩ := genuine_encrypt C s hs hC r w hsy typ (by rcases ht with h | h <;> rw [h] <;> decide)
    (by rcases ht with h | h <;> rw [h] <;> decide) (by rcases ht with h | h <;> rw [h] <;> decide) d hd
  exact ⟨r', hg.dec, hsy'⟩

/-! ### tampering -/

private theorem decrypt_ccs_typ (C : Crypto) (s : Suite) (r : Half) (rec' d' : Bytes) (typ' : Nat) (r'' : Half)
    (hok : decrypt C s r rec' = .ok (d', typ', r'')) (hccs : s.vers = v13 ∧ (rec'.headD 0).toNat = tCCS) : typ' = tCCS := by
  unfold decrypt at hok
  rw [if_pos hccs] at hok
  cases hok
  exact hccs.2

private theorem take_of_framed_eq (raw rec : Bytes) (n : Nat) (hn : n ≤ (raw.drop 5).length) (hf : Framed (raw.take (5 + n)))
    (h : raw.take (5 + n) = rec) : raw.take rec.length = rec := by
  have h5 : 5 ≤ raw.length := by
    obtain ⟨_, _, _, _, _, _, hr, _⟩ := hf
    have := congrArg List.length hr
    rw [List.length_take] at this
    simp at this; omega
  have : rec.length = 5 + n := by
    rw [← h, List.length_take]; simp at hn; omega
  rw [this]; exact h

/-- **tamper_errors (AEAD: TLS 1.2 AES-GCM / ChaCha20-Poly1305, all TLS 1.3 suites)**. The reader
`c` is in lockstep with the writer half `w`; `rec` is the record the writer produces next. If the
bytes at the head of `c.raw` differ from `rec` in any way (a flipped byte anywhere incl. the header,
a truncation, an insertion, a different record), `readRecord` never delivers: it returns an alert
error, or `short` (waiting for bytes that are not there — an unexpected-EOF error once the stream
ends). `hAuth` is AEAD ciphertext integrity, specialised by the sequence-number lockstep and
instantiated at whatever bytes the reader cuts off the wire. -/
theorem tamper_errors_aead (C : Crypto) (s : Suite) (hs : s.WF) (hC : C.Laws s.tagLen s.macLen) (wr : Wrapper)
    (hk : s.kind = .aead wr) (c : Conn) (hps : c.p.s = s) (w : Half) (hsy : Sync s c.inn w)
    (typ : Nat) (ht : typ = tApp ∨ typ = tHs) (d : Bytes) (hd : d.length ≤ maxPlaintext)
    (hne : c.raw.take (encrypt C s w typ d).1.length ≠ (encrypt C s w typ d).1)
    (hAuth : ∀ rec' pt, C.aopen c.inn.key (nonceFor wr c.inn.iv (aeadView s c.inn rec').1) (aeadView s c.inn rec').2.1
        (aeadView s c.inn rec').2.2 = some pt → aeadView s c.inn rec' = aeadView s c.inn (encrypt C s w typ d).1)
    (c' : Conn) (sent : List Bytes) : readRecord C c ≠ .next c' sent := by
  intro hnext
  obtain ⟨n, d', typ', r'', hf', hn, hok, hafter⟩ := readRecord_next_inv C c c' sent hnext
  rw [hps] at hok
  have ht0 : 0 < typ := by rcases ht with h | h <;> rw [h] <;> decide
  have ht1 : typ < 256 := by rcases ht with h | h <;> rw [h] <;> decide
  have hta : typ ≠ tAlert := by rcases ht with h | h <;> rw [h] <;> decide
  by_cases hccs : s.vers = v13 ∧ ((c.raw.take (5 + n)).headD 0).toNat = tCCS
  · have := decrypt_ccs_typ C s c.inn _ d' typ' r'' hok hccs
    rw [this] at hafter
    exact afterDecrypt_ccs_fails C _ d' r'' c' sent hafter
  · have hf := encrypt_framed C s hs hC c.inn w hsy typ ht0 ht1 hta d hd
    have heq := aead_only_genuine C s wr hk c.inn _ _ hf hf' d' typ' r'' hok hccs (hAuth _)
    exact hne (take_of_framed_eq c.raw _ n hn hf' heq)

/-- **tamper_errors (RC4 suites)**: as above, under MAC authenticity (`hMac`: the only message whose
MAC under this key the adversary can present together with this sequence number is the one the
writer MAC'ed). -/
theorem tamper_errors_stream (C : Crypto) (s : Suite) (hs : s.WF) (hC : C.Laws s.tagLen s.macLen)
    (hk : s.kind = .stream) (c : Conn) (hps : c.p.s = s) (w : Half) (hsy : Sync s c.inn w)
    (typ : Nat) (ht : typ = tApp ∨ typ = tHs) (d : Bytes) (hd : d.length ≤ maxPlaintext)
    (hne : c.raw.take (encrypt C s w typ d).1.length ≠ (encrypt C s w typ d).1)
    (hMac : ∀ rec' m t, C.mac c.inn.macKey m = t →
      m = seq8 c.inn.seq ++ rec'.take 3 ++
        u16 ((mtePlain C s c.inn rec').1.length - s.macLen - (mtePlain C s c.inn rec').2.1) ++
        (mtePlain C s c.inn rec').1.take ((mtePlain C s c.inn rec').1.length - s.macLen - (mtePlain C s c.inn rec').2.1) →
      t = ((mtePlain C s c.inn rec').1.drop ((mtePlain C s c.inn rec').1.length - s.macLen - (mtePlain C s c.inn rec').2.1)).take s.macLen →
      m = seq8 w.seq ++ hdr typ (wireVers s.vers) d.length ++ d)
    (c' : Conn) (sent : List Bytes) : readRecord C c ≠ .next c' sent := by
  intro hnext
  obtain ⟨n, d', typ', r'', hf', hn, hok, _⟩ := readRecord_next_inv C c c' sent hnext
  rw [hps] at hok
  have ht0 : 0 < typ := by rcases ht with h | h <;> rw [h] <;> decide
  have ht1 : typ < 256 := by rcases ht with h | h <;> rw [h] <;> decide
  have hta : typ ≠ tAlert := by rcases ht with h | h <;> rw [h] <;> decide
  have heq := stream_only_genuine C s hs hC hk c.inn w hsy typ ht0 ht1 hta d hd _ hf' d' typ' r'' hok (hMac _)
  exact hne (take_of_framed_eq c.raw _ n hn hf' heq)

/-- **tamper_errors (CBC suites)**: as above, under MAC authenticity `hMac` and the block-cipher
hypothesis `hCbc` (see the module comment); without `hCbc` see `tamper_never_alters`. -/
theorem tamper_errors_cbc (C : Crypto) (s : Suite) (hs : s.WF) (hC : C.Laws s.tagLen s.macLen)
    (hk : s.kind = .cbc) (c : Conn) (hps : c.p.s = s) (w : Half) (hsy : Sync s c.inn w)
    (typ : Nat) (ht : typ = tApp ∨ typ = tHs) (d : Bytes) (hd : d.length ≤ maxPlaintext)
    (hne : c.raw.take (encrypt C s w typ d).1.length ≠ (encrypt C s w typ d).1)
    (hMac : ∀ rec' m t, C.mac c.inn.macKey m = t →
      m = seq8 c.inn.seq ++ rec'.take 3 ++
        u16 ((mtePlain C s c.inn rec').1.length - s.macLen - (mtePlain C s c.inn rec').2.1) ++
        (mtePlain C s c.inn rec').1.take ((mtePlain C s c.inn rec').1.length - s.macLen - (mtePlain C s c.inn rec').2.1) →
      t = ((mtePlain C s c.inn rec').1.drop ((mtePlain C s c.inn rec').1.length - s.macLen - (mtePlain C s c.inn rec').2.1)).take s.macLen →
      m = seq8 w.seq ++ hdr typ (wireVers s.vers) d.length ++ d)
    (hCbc : ∀ rec' pad, (mtePlain C s c.inn rec').1 =
        d ++ C.mac w.macKey (seq8 w.seq ++ hdr typ (wireVers s.vers) d.length ++ d) ++ pad →
      rec'.drop 5 = (encrypt C s w typ d).1.drop 5)
    (c' : Conn) (sent : List Bytes) : readRecord C c ≠ .next c' sent := by
  intro hnext
  obtain ⟨n, d', typ', r'', hf', hn, hok, _⟩ := readRecord_next_inv C c c' sent hnext
  rw [hps] at hok
  have ht0 : 0 < typ := by rcases ht with h | h <;> rw [h] <;> decide
  have ht1 : typ < 256 := by rcases ht with h | h <;> rw [h] <;> decide
  have hta : typ ≠ tAlert := by rcases ht with h | h <;> rw [h] <;> decide
  have heq := cbc_only_genuine C s hs hC hk c.inn w hsy typ ht0 ht1 hta d hd _ hf' d' typ' r'' hok (hMac _) (hCbc _)
  exact hne (take_of_framed_eq c.raw _ n hn hf' heq)

/-- **tamper_never_alters (CBC and RC4 suites)**: if `readRecord` consumes *anything* in place of the
genuine record, then what `decrypt` returned for it is exactly the genuine content type and the
genuine plaintext — altered plaintext is never delivered. (Under MAC authenticity, as above.) -/
theorem tamper_never_alters (C : Crypto) (s : Suite) (hs : s.WF) (hk : s.kind = .cbc ∨ s.kind = .stream)
    (c : Conn) (hps : c.p.s = s) (w : Half) (hsy : Sync s c.inn w) (typ : Nat) (ht : typ < 256) (d : Bytes)
    (hMac : ∀ rec' m t, C.mac c.inn.macKey m = t →
      m = seq8 c.inn.seq ++ rec'.take 3 ++
        u16 ((mtePlain C s c.inn rec').1.length - s.macLen - (mtePlain C s c.inn rec').2.1) ++
        (mtePlain C s c.inn rec').1.take ((mtePlain C s c.inn rec').1.length - s.macLen - (mtePlain C s c.inn rec').2.1) →
      t = ((mtePlain C s c.inn rec').1.drop ((mtePlain C s c.inn rec').1.length - s.macLen - (mtePlain C s c.inn rec').2.1)).take s.macLen →
      m = seq8 w.seq ++ hdr typ (wireVers s.vers) d.length ++ d)
    (c' : Conn) (sent : List Bytes) (hnext : readRecord C c = .next c' sent) :
    ∃ n r'', decrypt C s c.inn (c.raw.take (5 + n)) = .ok (d, typ, r'') ∧
      afterDecrypt C { c with raw := c.raw.drop (5 + n) } d typ r'' = .next c' sent := by
  obtain ⟨n, d', typ', r'', hf', _, hok, hafter⟩ := readRecord_next_inv C c c' sent hnext
  rw [hps] at hok
  obtain ⟨hd', ht', _⟩ := mte_accept_genuine C s hs hk c.inn w hsy typ ht d _ hf' d' typ' r'' hok (hMac _)
  subst hd' ht'
  exact ⟨n, r'', hok, hafter⟩

/-! ### non-vacuity: the hypotheses are satisfiable, and a concrete instance -/

private theorem xorInto_length' (p iv : Bytes) : (xorInto p iv).length = p.length := by
  induction p generalizing iv with
  | nil => cases iv <;> simp [xorInto]
  | cons x xs ih => cases iv with
    | nil => simp [xorInto]
    | cons y ys => simp [xorInto, ih]

private theorem xorInto_invol (p iv : Bytes) : xorInto (xorInto p iv) iv = p := by
  induction p generalizing iv with
  | nil => cases iv <;> simp [xorInto]
  | cons x xs ih => cases iv with
    | nil => simp [xorInto]
    | cons y ys => simp [xorInto, ih, UInt8.xor_assoc]

/-- the laws are satisfiable: the size-faithful toy primitives of `RecordToy` (checksum AEAD/MAC,
IV-dependent involutive "CBC", identity stream cipher) satisfy every one of them, for every MAC size. -/
theorem toy_laws (macLen : Nat) : (RecordToy.crypto macLen).Laws 16 macLen where
  mac_len := by intro k m; simp [RecordToy.crypto, RecordToy.tmac, RecordToy.digest_length]
  seal_len := by intro k n ad p; simp [RecordToy.crypto, RecordToy.tseal, RecordToy.digest_length]
  open_seal := by
    intro k n ad p
    simp only [RecordToy.crypto, RecordToy.topen, RecordToy.tseal]
    have hl : (p ++ RecordToy.digest k [n, ad, p]).length - 16 = p.length := by simp [RecordToy.digest_length]
    rw [if_neg (by simp [RecordToy.digest_length])]
    simp only [hl, List.take_left, List.drop_left, if_true]
  cbcEnc_len := by intro k iv p; exact xorInto_length' p iv
  cbcDec_enc := by intro k iv p; exact xorInto_invol p iv
  xor_len := by intro k o p; rfl
  xor_invol := by intro k o p; rfl
  rand_len := by intro i n; simp [RecordToy.crypto]
  ivOf_len := by intro s; simp [RecordToy.crypto]

example : Suite.WF ⟨v12, .cbc, 20, 16, 16⟩ := by decide
example : Suite.WF ⟨v13, .aead .xor, 0, 16, 16⟩ := by decide
example : Suite.WF ⟨v10, .stream, 20, 16, 16⟩ := by decide

/-- a fresh pair of endpoints (TLS 1.3, XOR-nonce AEAD) satisfies the premises of
`stream_integrity_fresh`. -/
example : let s : Suite := ⟨v13, .aead .xor, 0, 16, 16⟩
    let h : Half := { iv := List.replicate 12 0 }
    let c : Conn := { p := { s := s }, inn := h, out := h }
    Fresh s c ∧ Sync s c.inn c.out := by
  refine ⟨⟨rfl, rfl, rfl, rfl, rfl, rfl⟩, rfl, rfl, rfl, rfl, rfl, ?_⟩
  exact ⟨rfl, rfl⟩

end C25
