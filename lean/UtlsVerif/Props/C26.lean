import UtlsVerif.HsLockLemmas
import UtlsVerif.WrCloseLemmas
import UtlsVerif.Gen.LockShapes
/-!
# C26 — concurrent use of a UConn is deadlock-free and consistent (logic core; *partial*)

The theorems are **general**: they hold for *every* skeleton `p` satisfying the decidable
discipline predicate `HsLock.Disc` (locks taken in the one global order handshakeMutex → in; every
return path releases what it took; `handshakeErr` read and written only under handshakeMutex; the
handshake body runs under both locks after both re-checks; `isHandshakeComplete` set only by the
body; the interrupter is joined — holding no mutex — before return and before the deferred
`cancel()`), for **any number of caller threads** (thread ids are arbitrary naturals, each with a
cancellable or background context), **any interleaving** with context cancellations, interrupter
steps and `Close()`, of **any length** (`Reach` is the reflexive-transitive closure of `step`), by
the inductive invariant `HsLock.Inv`.  `disc_handshakeContext` then discharges the predicate by
`decide` on `Gen.LockShapes.handshakeContext`, the skeleton extracted from the working tree's
`(*UConn).handshakeContext` on every run.

* `hs_mutex` — at most one thread is inside the handshake body.
* `shared_access_exclusive` — a thread about to read or write `handshakeErr` holds handshakeMutex
  (so no two such accesses are concurrent: the model-level statement of race freedom on the shared result).
* `caller_outcome` — a caller that has returned (or is returning) holds: nil ⇒ the handshake is
  complete; a stored handshake error ⇒ it *is* `handshakeErr` and the handshake is not complete; its
  own context's error ⇒ its context was cancelled and the connection has been closed by its
  interrupter; it never returns another caller's context error.  `BuildHandshakeState`'s error is
  returned but not stored (that is what the code does; see notes/C26-report.md).
* `outcomes_agree` — two callers that returned stored handshake outcomes returned the same one, and
  nobody returned nil alongside a stored error.
* `cancel_after_return_noop` / `returned_stays_returned` / `no_close_after_return` — once a caller has
  returned, cancelling its context changes nothing but the context's own flag, its interrupter is gone
  and can never close the connection, in any continuation.
* `no_deadlock` — every caller that has not returned can step, or its interrupter can, or it waits
  for a mutex whose holder can step, or whose holder waits for `in` whose holder can step.

Second part (`WrClose`): the `activeCall` interlock of `(*UConn).Write` and `Close`, again for every
pair of skeletons satisfying decidable discipline predicates (`WDisc`: the transport write happens
inside the +2/−2 window and under `c.out`, the decrement runs — deferred in the writing function —
after `c.out` is released on every path; `CDisc`: closed bit first, `c.out` only after the in-flight
test, transport closed before return), one writer calling `Write` any number of times, any number of
closers, any interleaving: `write_in_flight_visible`, `close_skips_out_when_write_in_flight`,
`close_never_blocks`, `close_closes_transport`, `blocked_write_released`; the predicates are
discharged by `decide` on the regenerated `Gen.LockShapes.uconnWrite` / `connClose`.

Not proved here (runtime residue, DESIGN §10): Go memory-model data races (exercised under `-race`
by the `c26_race` family) and scheduler fairness / termination.
-/
namespace C26
open HsLock

/-- the skeleton the code has now satisfies the discipline (re-checked against the regenerated
`Gen.LockShapes` on every run) -/
theorem disc_handshakeContext : Disc Gen.LockShapes.handshakeContext := by decide

/-- **hs_mutex**: at most one thread is inside the handshake body, and it holds both mutexes. -/
theorem hs_mutex {p : List Stmt} {canc : Nat → Bool} {c : Config} (hd : Disc p) (hr : Reach p canc c)
    {t₁ t₂ : Nat} (h₁ : (c.th t₁).inBody = true) (h₂ : (c.th t₂).inBody = true) :
    t₁ = t₂ ∧ c.hsOwner = some t₁ ∧ c.inOwner = some t₁ := by
  have hi := inv_reach hd hr
  have key : ∀ t, (c.th t).inBody = true → c.hsOwner = some t ∧ c.inOwner = some t := by
    intro t hb
    have hT := (hi.2 t).2
    unfold TMode at hT
    cases hm : (c.th t).mode <;> rw [hm] at hT <;> simp only at hT
    · obtain ⟨_, _, a, hck, hM, hB⟩ := hT
      have hget := hB hb
      cases hdrop : p.drop (c.th t).pc with
      | nil => rw [hdrop] at hck; simp [checkFrom] at hck
      | cons s rest =>
        rw [hdrop] at hck
        obtain ⟨hget', _⟩ := drop_cons _ _ _ _ hdrop
        rw [hget] at hget'
        cases Option.some.inj hget'
        simp only [checkFrom, stmtOk, Bool.and_eq_true] at hck
        exact ⟨held_hs hM hck.1.1.1.1, held_inn hM hck.1.1.1.2⟩
    · rw [hT.1] at hb; cases hb
    · rw [hT.1] at hb; cases hb
  obtain ⟨a1, a2⟩ := key t₁ h₁
  obtain ⟨b1, _⟩ := key t₂ h₂
  rw [a1] at b1
  exact ⟨Option.some.inj b1, a1, a2⟩

/-- statements that read or write `c.handshakeErr` -/
def accessesShared : Stmt → Bool
  | .checkErr | .body | .touchErr | .retErr => true
  | _ => false

/-- **shared_access_exclusive**: whoever is about to access `handshakeErr` holds handshakeMutex. -/
theorem shared_access_exclusive {p : List Stmt} {canc : Nat → Bool} {c : Config} (hd : Disc p)
    (hr : Reach p canc c) {t : Nat} {s : Stmt} (hm : (c.th t).mode = .run)
    (hs : p[(c.th t).pc]? = some s) (ha : accessesShared s = true) : c.hsOwner = some t := by
  have hi := inv_reach hd hr
  have hT := (hi.2 t).2
  unfold TMode at hT; rw [hm] at hT; simp only at hT
  obtain ⟨_, _, a, hck, hM, _⟩ := hT
  cases hdrop : p.drop (c.th t).pc with
  | nil => rw [hdrop] at hck; simp [checkFrom] at hck
  | cons s' rest =>
    rw [hdrop] at hck
    obtain ⟨hget, _⟩ := drop_cons _ _ _ _ hdrop
    rw [hs] at hget
    cases Option.some.inj hget
    simp only [checkFrom, Bool.and_eq_true] at hck
    have hok := hck.1
    cases s <;> simp only [accessesShared, Bool.false_eq_true] at ha <;>
      simp only [stmtOk, Bool.and_eq_true] at hok
    · exact held_hs hM hok.1
    · exact held_hs hM hok.1.1.1
    · exact held_hs hM hok
    · exact held_hs hM hok.1.1

/-- what the value `r` returned by caller `t` means in configuration `c` -/
def Outcome (c : Config) (t : Nat) : Option Err → Prop
  | none => c.complete = true ∧ c.hsErr = none
  | some .hsFail => c.hsErr = some .hsFail ∧ c.complete = false
  | some .interrupted => c.hsErr = some .interrupted ∧ c.complete = false
  | some .buildFail => True
  | some (.ctx u) => u = t ∧ (c.th t).ctxCancelled = true ∧ c.closed = true ∧ t ∈ c.closers
  | some .ownCancel => False

/-- **caller_outcome**: every caller that has returned returned the shared outcome (nil exactly
when the handshake is complete, otherwise the stored `handshakeErr`) or `BuildHandshakeState`'s
error or its *own* context's error, and in the last case its context was cancelled and the
connection has been closed by its interrupter. -/
theorem caller_outcome {p : List Stmt} {canc : Nat → Bool} {c : Config} (hd : Disc p) (hr : Reach p canc c)
    {t : Nat} (hdone : (c.th t).mode = .done) : Outcome c t (c.th t).ret := by
  have hi := inv_reach hd hr
  have hT := (hi.2 t).2
  unfold TMode at hT; rw [hdone] at hT; simp only at hT
  obtain ⟨_, _, _, _, hret⟩ := hT
  have hg := hi.1
  match hr' : (c.th t).ret, hret with
  | none, h =>
    refine ⟨h, ?_⟩
    cases he : c.hsErr with
    | none => rfl
    | some e => have := (hg e he).2; rw [h] at this; cases this
  | some .hsFail, h => exact ⟨h, (hg _ h).2⟩
  | some .interrupted, h => exact ⟨h, (hg _ h).2⟩
  | some .buildFail, _ => trivial
  | some (.ctx v), h => exact h
  | some .ownCancel, h => exact h.elim

/-- the stored (shared) handshake outcomes: nil or one of the body's errors -/
def isShared : Option Err → Bool
  | none | some .hsFail | some .interrupted => true
  | _ => false

/-- **outcomes_agree**: callers that returned a shared outcome returned the same one. -/
theorem outcomes_agree {p : List Stmt} {canc : Nat → Bool} {c : Config} (hd : Disc p) (hr : Reach p canc c)
    {t₁ t₂ : Nat} (h₁ : (c.th t₁).mode = .done) (h₂ : (c.th t₂).mode = .done)
    (s₁ : isShared (c.th t₁).ret = true) (s₂ : isShared (c.th t₂).ret = true) :
    (c.th t₁).ret = (c.th t₂).ret := by
  have o₁ := caller_outcome hd hr h₁
  have o₂ := caller_outcome hd hr h₂
  revert o₁ o₂ s₁ s₂
  generalize (c.th t₁).ret = r₁
  generalize (c.th t₂).ret = r₂
  intro s₁ s₂ o₁ o₂
  match r₁, r₂, s₁, s₂, o₁, o₂ with
  | none, none, _, _, _, _ => rfl
  | none, some .hsFail, _, _, a, b => have := a.2.symm.trans b.1; cases this
  | none, some .interrupted, _, _, a, b => have := a.2.symm.trans b.1; cases this
  | some .hsFail, none, _, _, a, b => have := b.2.symm.trans a.1; cases this
  | some .interrupted, none, _, _, a, b => have := b.2.symm.trans a.1; cases this
  | some .hsFail, some .hsFail, _, _, _, _ => rfl
  | some .interrupted, some .interrupted, _, _, _, _ => rfl
  | some .hsFail, some .interrupted, _, _, a, b => have := a.1.symm.trans b.1; cases this
  | some .interrupted, some .hsFail, _, _, a, b => have := a.1.symm.trans b.1; cases this

/-- executions: `Steps p c ls c'` — running the labels `ls` from `c` ends in `c'` -/
inductive Steps (p : List Stmt) : Config → List Label → Config → Prop where
  | nil (c : Config) : Steps p c [] c
  | cons {c c' c'' : Config} {l : Label} {ls : List Label} : step p c l = some c' → Steps p c' ls c'' → Steps p c (l :: ls) c''

theorem reach_steps {p : List Stmt} {canc : Nat → Bool} {c c' : Config} {ls : List Label}
    (hr : Reach p canc c) (hs : Steps p c ls c') : Reach p canc c' := by
  induction hs with
  | nil => exact hr
  | cons h _ ih => exact ih (Reach.step _ hr h)

/-- **returned_stays_returned**: in every continuation of an execution a returned caller stays
returned with the same result, and its interrupter is gone. -/
theorem returned_stays_returned {p : List Stmt} {canc : Nat → Bool} {c c' : Config} {ls : List Label} {t : Nat}
    (hd : Disc p) (hr : Reach p canc c) (hdone : (c.th t).mode = .done) (hs : Steps p c ls c') :
    (c'.th t).mode = .done ∧ (c'.th t).ret = (c.th t).ret ∧ (c'.th t).intr = .off := by
  induction hs with
  | nil c =>
    have hT := ((inv_reach hd hr).2 t).2
    unfold TMode at hT; rw [hdone] at hT
    exact ⟨hdone, rfl, hT.2.2.2.1⟩
  | cons h _ ih =>
    obtain ⟨a1, a2, _, _⟩ := done_stable (inv_reach hd hr) h hdone
    obtain ⟨b1, b2, b3⟩ := ih (Reach.step _ hr h) a1
    exact ⟨b1, b2.trans a2, b3⟩

/-- **no_close_after_return**: after caller `t` has returned, no continuation of the execution
ever has `t`'s interrupter close the connection (the list of closing interrupters gains no `t`),
whatever happens to `t`'s context. -/
theorem no_close_after_return {p : List Stmt} {canc : Nat → Bool} {c c' : Config} {ls : List Label} {t : Nat}
    (hd : Disc p) (hr : Reach p canc c) (hdone : (c.th t).mode = .done) (hs : Steps p c ls c') :
    c'.closers.count t = c.closers.count t := by
  induction hs with
  | nil => rfl
  | cons h _ ih =>
    obtain ⟨a1, _, _, a4⟩ := done_stable (inv_reach hd hr) h hdone
    exact (ih (Reach.step _ hr h) a1).trans a4

/-- **cancel_after_return_noop**: cancelling the context of a caller that has returned is always
possible and changes nothing of the connection's shared state (mutex owners, `handshakeErr`,
completion, closed flag, closers) nor any thread other than the flag of that context; and the
interrupter that could act on the cancellation is not enabled. -/
theorem cancel_after_return_noop {p : List Stmt} {canc : Nat → Bool} {c : Config} {t : Nat}
    (hd : Disc p) (hr : Reach p canc c) (hdone : (c.th t).mode = .done) :
    step p c (.intrClose t) = none ∧
    ∃ c', step p c (.cancel t) = some c' ∧
      c'.hsOwner = c.hsOwner ∧ c'.inOwner = c.inOwner ∧ c'.hsErr = c.hsErr ∧ c'.complete = c.complete ∧
      c'.closed = c.closed ∧ c'.closers = c.closers ∧ (∀ u, u ≠ t → c'.th u = c.th u) ∧
      (c'.th t).mode = .done ∧ (c'.th t).ret = (c.th t).ret ∧ step p c' (.intrClose t) = none := by
  have hT := ((inv_reach hd hr).2 t).2
  unfold TMode at hT; rw [hdone] at hT
  have hoff : (c.th t).intr = .off := hT.2.2.2.1
  refine ⟨by simp [step, hoff], _, rfl, rfl, rfl, rfl, rfl, rfl, rfl, fun u hu => upd_th_other _ _ hu, ?_, ?_, ?_⟩
  · rw [upd_th_same]; exact hdone
  · rw [upd_th_same]
  · simp [step, hoff]

/-- **no_deadlock**: a caller that has not returned can take a step itself, or its interrupter
can, or it waits for a mutex held by another caller `o` that can take a step — or `o` holds
handshakeMutex and waits for `in`, whose holder `o'` can take a step.  (Lock-order invariant: the
wait-for chain has length ≤ 2 and ends in a caller that can run; there is no cycle.) -/
theorem no_deadlock {p : List Stmt} {canc : Nat → Bool} {c : Config} (hd : Disc p) (hr : Reach p canc c)
    {t : Nat} (hnd : (c.th t).mode ≠ .done) :
    canStep p c t = true ∨ intrCanStep p c t = true ∨
    ∃ m o, waitsOn p c t m ∧ c.owner m = some o ∧ o ≠ t ∧
      (canStep p c o = true ∨
        (m = .hs ∧ ∃ o', waitsOn p c o .inn ∧ c.inOwner = some o' ∧ o' ≠ o ∧ canStep p c o' = true)) := by
  have hi := inv_reach hd hr
  cases hm : (c.th t).mode with
  | done => exact absurd hm hnd
  | unwind =>
    rcases unwind_progress hi hm with h | ⟨h, _, _⟩
    · exact Or.inl h
    · exact Or.inr (Or.inl h)
  | run =>
    rcases run_progress hi hm with h | ⟨m, o, hw, ho, hne, _, _⟩
    · exact Or.inl h
    · refine Or.inr (Or.inr ⟨m, o, hw, ho, hne, ?_⟩)
      rcases owner_progress hi ho with h | ⟨hmeq, o', hw', ho', hne'⟩
      · exact Or.inl h
      · refine Or.inr ⟨hmeq, o', hw', ho', hne', ?_⟩
        rcases owner_progress (m := .inn) hi ho' with h | ⟨h, _⟩
        · exact h
        · cases h

/-! ## Non-vacuity: concrete executions of the skeleton the code has now -/

section examples
open Gen.LockShapes

private def p₀ := handshakeContext
private def both (n : Nat) (t : Nat) : List Label := List.replicate n (.step t .ok)

/-- caller 0 runs alone to completion: returns nil, handshake complete, both mutexes free, the
connection not closed (`caller_outcome`, first clause, with a returned caller). -/
example : ((run p₀ (init fun _ => true) (both 21 0 ++ [.intrQuit 0] ++ both 3 0)).any fun c =>
    (c.th 0).mode == .done && (c.th 0).ret == none && c.complete && c.hsOwner == none && c.inOwner == none &&
    !c.closed) = true := by decide

/-- two callers: caller 0 is inside the body when caller 1 blocks on handshakeMutex (`hs_mutex`,
`no_deadlock` premises are met non-trivially: 1 is at `lock hs`, its owner 0 can step). -/
example : ((run p₀ (init fun _ => true) (both 12 0 ++ both 4 1)).any fun c =>
    (c.th 0).inBody && c.hsOwner == some 0 && !(step p₀ c (.step 1 .ok)).isSome && canStep p₀ c 0 &&
    (c.th 1).mode == .run && p₀[(c.th 1).pc]? == some (.lock .hs)) = true := by decide

/-- cancellation during the body: caller 0's context is cancelled, its interrupter closes the
connection, the body fails with the I/O error, caller 0 returns *its context's* error (the last
clause of `Outcome`), caller 1 (arriving later) returns the stored error (`outcomes_agree` premise:
a returned caller with a shared error). -/
example : ((run p₀ (init fun _ => true)
      (both 12 0 ++ [.cancel 0, .intrClose 0, .step 0 .interrupted] ++ both 11 0 ++ both 9 1 ++ [.intrQuit 1] ++ both 3 1)).any fun c =>
    (c.th 0).mode == .done && (c.th 0).ret == some (.ctx 0) && (c.th 1).mode == .done &&
    (c.th 1).ret == some .interrupted && c.hsErr == some .interrupted && !c.complete && c.closed &&
    c.closers == [0]) = true := by decide

/-- cancelling after return (`cancel_after_return_noop` premise: a returned caller): nothing closes. -/
example : ((run p₀ (init fun _ => true) (both 21 0 ++ [.intrQuit 0] ++ both 3 0 ++ [.cancel 0])).any fun c =>
    (c.th 0).mode == .done && (c.th 0).ctxCancelled && !c.closed && (step p₀ c (.intrClose 0)).isNone) = true := by decide

end examples

/-! ## The predicate is not vacuous the other way: skeletons that break it misbehave in the model -/

/-- taking `in` before handshakeMutex: rejected by the lock-order clause.  (A single skeleton
that uses the opposite order consistently cannot deadlock with itself; the clause pins the
connection-wide order handshakeMutex → in that the other lock users — `Read` holding `in`,
`ConnectionState` taking handshakeMutex — rely on.) -/
private def swapped : List Stmt :=
  [.checkDone, .deferCancel, .deferJoin, .spawnIntr, .lock .inn, .deferUnlock .inn, .lock .hs, .deferUnlock .hs,
   .checkErr, .checkDone, .build, .body, .retErr]

example : disc swapped = false := by decide

/-- without the join (`deferSignal`), a caller returns nil from a completed handshake and a
*later* cancellation of its context still closes the connection: `cancel_after_return_noop` fails. -/
private def unjoined : List Stmt :=
  [.checkDone, .deferCancel, .deferSignal, .spawnIntr, .lock .hs, .deferUnlock .hs, .checkErr, .checkDone,
   .lock .inn, .deferUnlock .inn, .build, .body, .retErr]

example : disc unjoined = false := by decide
example : ((run unjoined (init fun _ => true)
      (List.replicate 19 (.step 0 .ok) ++ [.cancel 0, .intrClose 0])).any fun c =>
    (c.th 0).mode == .done && (c.th 0).ret == none && c.complete && c.closed && c.closers == [0]) = true := by decide


/-! ## The activeCall interlock of `Write` and `Close` -/

section wrclose
open WrClose

/-- the skeletons the code has now satisfy the interlock disciplines (re-checked every run) -/
theorem disc_write_close : WDisc Gen.LockShapes.uconnWrite ∧ CDisc Gen.LockShapes.connClose := by
  constructor <;> decide

/-- **write_in_flight_visible**: whenever the writer holds `c.out` (in particular while it is
blocked in the transport), `activeCall` shows one write in flight. -/
theorem write_in_flight_visible {wp : List WStmt} {cp : List CStmt} {c : WrClose.Config}
    (hw : WDisc wp) (hc : CDisc cp) (hr : WrClose.Reach wp cp c) (ho : c.outOwner = some .writer) :
    c.ac / 2 = 1 := by
  have hW := (WrClose.inv_reach hw hc hr).2.1
  unfold WInv at hW
  cases hm : c.w.mode <;> rw [hm] at hW <;> simp only at hW
  · obtain ⟨a, _, m⟩ := hW
    have := m.hr (m.held.1 ho)
    have := m.reg
    simp_all
  · exact hW.2.1 ho
  · exact absurd ho hW.2

/-- **close_skips_out_when_write_in_flight**: a `Close` that set the closed bit and observed a
non-zero `activeCall` (writes in flight) never holds `c.out`; and a `Close` that observed zero
runs while no write is, or ever will be, in flight. -/
theorem close_skips_out_when_write_in_flight {wp : List WStmt} {cp : List CStmt} {c : WrClose.Config}
    (hw : WDisc wp) (hc : CDisc cp) (hr : WrClose.Reach wp cp c) {k : Nat} (hwon : (c.cl k).won = true) :
    ((c.cl k).x ≠ 0 → c.outOwner ≠ some (.closer k)) ∧ ((c.cl k).x = 0 → c.ac / 2 = 0 ∧ c.outOwner ≠ some .writer) := by
  have hi := WrClose.inv_reach hw hc hr
  refine ⟨fun hx ho => ?_, fun hx => ?_⟩
  · have hn := (hi.1.own k).1 ho
    have hC := hi.2.2 k
    unfold CInv at hC; rw [hn] at hC
    exact hx hC.2.1
  · have h0 := hi.1.idle k hwon hx
    refine ⟨h0, fun ho => ?_⟩
    have hW := hi.2.1
    unfold WInv at hW
    cases hm : c.w.mode <;> rw [hm] at hW <;> simp only at hW
    · obtain ⟨a, _, m⟩ := hW
      have := m.hr (m.held.1 ho)
      have := m.reg
      simp_all
    · have := hW.2.1 ho; omega
    · exact hW.2 ho

/-- **close_never_blocks**: every `Close` call that has not returned can take its next step —
whatever the writer is doing, in particular while a `Write` is blocked in the transport. -/
theorem close_never_blocks {wp : List WStmt} {cp : List CStmt} {c : WrClose.Config}
    (hw : WDisc wp) (hc : CDisc cp) (hr : WrClose.Reach wp cp c) {k : Nat} (hnd : (c.cl k).mode ≠ .done) :
    canStepC cp c k = true :=
  closer_can_step (WrClose.inv_reach hw hc hr) hnd

/-- **close_closes_transport**: the `Close` call that set the closed bit has closed the transport
when it returns. -/
theorem close_closes_transport {wp : List WStmt} {cp : List CStmt} {c : WrClose.Config}
    (hw : WDisc wp) (hc : CDisc cp) (hr : WrClose.Reach wp cp c) {k : Nat}
    (hd : (c.cl k).mode = .done) (hwon : (c.cl k).won = true) : c.transportClosed = true := by
  have hC := (WrClose.inv_reach hw hc hr).2.2 k
  unfold CInv at hC; rw [hd] at hC
  exact hC hwon

/-- **blocked_write_released**: the writer can always step, except while it waits for `c.out`
held by a closer (which can step, by `close_never_blocks`) or sits in a transport write on an open
transport — and that write is enabled as soon as the transport is closed. -/
theorem blocked_write_released {wp : List WStmt} {cp : List CStmt} {c : WrClose.Config}
    (hw : WDisc wp) (hc : CDisc cp) (hr : WrClose.Reach wp cp c) (hnd : c.w.mode ≠ .done) :
    canStepW wp c = true ∨
    (c.w.mode = .run ∧ wp[c.w.pc]? = some .write ∧ c.transportClosed = false ∧ c.ac / 2 = 1) ∨
    (c.w.mode = .run ∧ wp[c.w.pc]? = some .lockOut ∧ ∃ k, c.outOwner = some (.closer k) ∧ canStepC cp c k = true) := by
  have hi := WrClose.inv_reach hw hc hr
  have hW := hi.2.1
  unfold WInv at hW
  unfold canStepW
  simp only [stepW]
  cases hm : c.w.mode with
  | done => exact absurd hm hnd
  | unwind =>
    rw [hm] at hW; simp only at hW
    left
    cases hd : c.w.defers with
    | nil => simp
    | cons d ds =>
      cases d with
      | dec => simp
      | unlockOut =>
        have hu := hW.2.2
        rw [hd] at hu
        simp only [unwindOkW, Bool.and_eq_true, decide_eq_true_eq] at hu
        simp [hu.1]
  | run =>
    rw [hm] at hW; simp only at hW
    obtain ⟨a, hck, m⟩ := hW
    cases hdrop : wp.drop c.w.pc with
    | nil => rw [hdrop] at hck; simp [checkW] at hck
    | cons s rest =>
      rw [hdrop] at hck
      obtain ⟨hget, _⟩ := drop_cons' _ _ _ _ hdrop
      simp only [checkW, Bool.and_eq_true] at hck
      have hok := hck.1
      simp only [hget]
      cases s with
      | reg => left; by_cases hb : c.ac % 2 = 1 <;> simp [hb]
      | dec => left; simp
      | deferDec => left; simp
      | handshake => left; simp
      | deferUnlockOut => left; simp
      | condRet => left; simp
      | ret => left; simp
      | unlockOut => left; simp [m.held.2 (by simpa [wOk] using hok)]
      | write =>
        simp only [wOk, Bool.and_eq_true] at hok
        cases htc : c.transportClosed with
        | true => left; simp
        | false =>
          right; left
          refine ⟨by trivial, by trivial, by trivial, ?_⟩
          have := m.reg; simpa [hok.1] using this
      | lockOut =>
        simp only [wOk, Bool.and_eq_true, Bool.not_eq_true'] at hok
        cases ho : c.outOwner with
        | none => left; simp
        | some o =>
          cases o with
          | writer => have := m.held.1 ho; rw [hok.2] at this; cases this
          | closer k =>
            right; right
            refine ⟨by trivial, by trivial, k, by trivial, closer_can_step hi ?_⟩
            rw [(hi.1.own k).1 ho]; simp

/-- non-vacuity: the writer is blocked in the transport (peer not reading), a `Close` arrives,
sees the write in flight, closes the transport without touching `c.out`, returns; the `Write` is
released and returns. -/
example : ((WrClose.run Gen.LockShapes.uconnWrite Gen.LockShapes.connClose WrClose.init
      (List.replicate 9 (.w false false) ++ [.c 0, .c 0] ++ List.replicate 7 (.w false false))).any fun c =>
    c.w.mode == .done && (c.cl 0).mode == .done && (c.cl 0).won && (c.cl 0).x == 2 && c.transportClosed &&
    c.outOwner == none && c.ac == 1) = true := by decide

/-- the writer really is stuck before the `Close`: it cannot step while the peer does not read -/
example : ((WrClose.run Gen.LockShapes.uconnWrite Gen.LockShapes.connClose WrClose.init
      (List.replicate 9 (.w false false))).any fun c =>
    !canStepW Gen.LockShapes.uconnWrite c && c.outOwner == some .writer && c.ac == 2) = true := by decide

/-- the seeded shape (registration loop moved into a helper that keeps the `defer`): the window
is closed before the write — rejected by `WDisc`, and in the model `Close` then queues behind the
blocked `Write`: neither can ever step again. -/
private def helperWrite : List WStmt :=
  [.reg, .dec, .condRet, .handshake, .condRet, .lockOut, .deferUnlockOut, .condRet, .write, .ret]

example : wdisc helperWrite = false := by decide
example : ((WrClose.run helperWrite Gen.LockShapes.connClose WrClose.init
      (List.replicate 8 (.w false false) ++ [.c 0, .c 0])).any fun c =>
    !canStepW helperWrite c && !canStepC Gen.LockShapes.connClose c 0 && (c.cl 0).mode != .done &&
    c.w.mode != .done && !c.transportClosed) = true := by decide

end wrclose

end C26
