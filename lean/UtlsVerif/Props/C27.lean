import UtlsVerif.Forge
import UtlsVerif.ForgePoll
import UtlsVerif.Gen.Suites
/-!
# C27 — forged connections from shared secrets interoperate

Model: `Forge.make` (transcription of `MakeConnWithCompleteHandshake` after the D16 repair) over
the cipher-suite tables regenerated from the working tree into `Gen.Suites` (`base` =
`utlsSupportedCipherSuites` at process start, `weak` = after `EnableWeakCiphers`).

General theorems (any row satisfying the decidable predicate `Row.WF`, any version valid for it):

* `forge_wiring_row` — the client's writing half is wired to the server's reading half and vice
  versa: same key, same IV, same MAC key, same version, same sequence number, writer built with
  `isRead = false`, reader with `isRead = true`; the client writes with the *client* write keys.
* `forge_exchange_row` — over any record protection satisfying the explicit law `Crypto.Lawful`,
  **every** list of record payloads sent through one end is received intact by the other, in both
  directions (induction over the list; sequence numbers advance in step).
* `forge_seq_row` — whenever a connection is returned both sequence numbers are 1 (the consumed
  Finished) and nothing is left pending.

Instances over the regenerated tables (the row predicate is discharged by `decide`):

* `tables_wf`, `forge_wiring`, `forge_exchange`, `forge_seq`, `forge_unknown_nil`,
  `forge_nil_iff`, `weak_adds_weak_cbc`, `weak_extends_base`, `forge_wiring_survives_weak`.

Record reassembly under deadline polling (follow-up to seeded change C27-3): `poll_transparent`,
`poll_independent` over `ForgePoll`.

`d16_swapped_flags_not_wired` keeps the repaired defect visible: the pre-repair transcription
(client side built with the flags swapped) is *not* wired for any row whose constructor takes a
flag, so `forge_wiring_row` is sensitive to exactly that.
-/
namespace C27
open Forge

/-! ## helper lemmas -/

private theorem versionKnown_of_valid {r : Row} {v : Nat} (h : validVersion r v = true) :
    versionKnown v = true := by
  simp [validVersion] at h; exact h.1

private theorem v_ne_tls13 {v : Nat} (h : versionKnown v = true) : (v == versionTLS13) = false := by
  simp [versionKnown, versionTLS10, versionTLS11, versionTLS12] at h
  simp [versionTLS13]; omega

/-- what the `cs != nil` branch builds for a well-formed row and a known version. -/
private def expectHalf (v : Nat) (c : CipherInst) (m : Option Side) : HalfSt :=
  { version := v, cipher := some c, mac := m, nextCipher := none, nextMac := none, seq := 1 }

private theorem half_built (v : Nat) (c : CipherInst) (m : Option Side) (hv : versionKnown v = true) :
    ((({} : HalfSt).prepareCipherSpec v c m).changeCipherSpec).incSeq = some (expectHalf v c m) := by
  have h13 := v_ne_tls13 hv
  simp [HalfSt.prepareCipherSpec, HalfSt.changeCipherSpec, HalfSt.incSeq, h13, expectHalf]

private theorem makeRow_cipher (r : Row) (v : Nat) (isClient : Bool)
    (hv : versionKnown v = true) (hc : r.hasCipher = true) (hm : r.hasMac = true) (ho : r.ctorOk = true) :
    makeRow r v isClient = .conn
      { inH := if isClient then expectHalf v ⟨.server, .server, some isClient⟩ (some .server)
               else expectHalf v ⟨.client, .client, some (!isClient)⟩ (some .client),
        outH := if isClient then expectHalf v ⟨.client, .client, some (!isClient)⟩ (some .client)
                else expectHalf v ⟨.server, .server, some isClient⟩ (some .server),
        isClient := isClient, vers := v, suite := r.id, haveVers := true, handshakeComplete := true } := by
  cases isClient <;> simp [makeRow, hv, hc, hm, ho, half_built]

private theorem makeRow_aead (r : Row) (v : Nat) (isClient : Bool)
    (hv : versionKnown v = true) (hc : r.hasCipher = false) (ha : r.hasAead = true) (ho : r.ctorOk = true) :
    makeRow r v isClient = .conn
      { inH := if isClient then expectHalf v ⟨.server, .server, none⟩ none
               else expectHalf v ⟨.client, .client, none⟩ none,
        outH := if isClient then expectHalf v ⟨.client, .client, none⟩ none
                else expectHalf v ⟨.server, .server, none⟩ none,
        isClient := isClient, vers := v, suite := r.id, haveVers := true, handshakeComplete := true } := by
  cases isClient <;> simp [makeRow, hv, hc, ha, ho, half_built]

private theorem wf_cases {r : Row} (h : r.WF = true) :
    r.ctorOk = true ∧ ((r.hasCipher = true ∧ r.hasMac = true) ∨ (r.hasCipher = false ∧ r.hasAead = true)) := by
  unfold Row.WF at h
  cases hc : r.hasCipher <;> simp [hc] at h
  · exact ⟨h.1.1, Or.inr ⟨rfl, h.1.2.1⟩⟩
  · exact ⟨h.1.1, Or.inl ⟨rfl, h.1.2.1⟩⟩

/-! ## general theorems over an arbitrary well-formed row -/

/-- **Wiring.** For every well-formed row and every version valid for it, both calls return a
connection, `client.out ≙ server.in` and `server.out ≙ client.in` (`Forge.wired`: same key, IV,
MAC key, version, sequence number; writer built with `isRead=false`, reader with `isRead=true`),
and the client writes with the client-write key material, the server with the server-write one. -/
theorem forge_wiring_row (r : Row) (v : Nat) (hr : r.WF = true) (hv : validVersion r v = true) :
    ∃ c s, makeRow r v true = .conn c ∧ makeRow r v false = .conn s ∧
      wired c.outH s.inH = true ∧ wired s.outH c.inH = true ∧
      (c.outH.cipher.map (·.key)) = some .client ∧ (c.outH.cipher.map (·.iv)) = some .client ∧
      (s.outH.cipher.map (·.key)) = some .server ∧ (s.outH.cipher.map (·.iv)) = some .server ∧
      (r.hasCipher = true → c.outH.mac = some .client ∧ s.outH.mac = some .server) := by
  have hk := versionKnown_of_valid hv
  obtain ⟨ho, h | h⟩ := wf_cases hr
  · refine ⟨_, _, makeRow_cipher r v true hk h.1 h.2 ho, makeRow_cipher r v false hk h.1 h.2 ho, ?_⟩
    simp [wired, expectHalf]
  · refine ⟨_, _, makeRow_aead r v true hk h.1 h.2 ho, makeRow_aead r v false hk h.1 h.2 ho, ?_⟩
    simp [wired, expectHalf, h.1]

/-- **Sequence numbers.** Whatever the row and version: if a connection is returned, both
sequence numbers are 1 (reset by `changeCipherSpec`, then `incSeq` for the consumed Finished),
both halves carry the requested version, and — for a known version — both ciphers are installed
with nothing pending. -/
theorem forge_seq_row (r : Row) (v : Nat) (isClient : Bool) (c : Conn)
    (h : makeRow r v isClient = .conn c) :
    c.inH.seq = 1 ∧ c.outH.seq = 1 ∧ c.inH.version = v ∧ c.outH.version = v ∧
    c.inH.cipher.isSome ∧ c.outH.cipher.isSome ∧ c.inH.nextCipher = none ∧ c.outH.nextCipher = none ∧
    c.vers = v ∧ c.suite = r.id ∧ c.isClient = isClient ∧ c.handshakeComplete = true := by
  unfold makeRow at h
  by_cases hk : versionKnown v = true
  · have h13 := v_ne_tls13 hk
    cases hc : r.hasCipher <;> cases hm : r.hasMac <;> cases ha : r.hasAead <;> cases ho : r.ctorOk <;>
      cases isClient <;>
      simp [hk, hc, hm, ha, ho, HalfSt.prepareCipherSpec, HalfSt.changeCipherSpec, HalfSt.incSeq, h13] at h <;>
      (subst h; simp)
  · simp [hk] at h

/-! ### data exchange over symbolic record protection -/

private theorem exchange_intact {σ ρ : Type} (C : Crypto σ ρ) (M : σ → σ → Prop) (hL : C.Lawful M) :
    ∀ (ps : List Wire.Bytes) (w r : σ) (n : Nat), M w r → recvAll C r n (sendAll C w n ps) = some ps := by
  intro ps
  induction ps with
  | nil => intro w r n _; rfl
  | cons p ps ih =>
    intro w r n hM
    obtain ⟨r', hopen, hM'⟩ := hL.step w r n p hM
    simp only [sendAll, recvAll, hopen]
    rw [ih _ _ _ hM']; rfl

private theorem transfer_of_wired {σ ρ : Type} (C : Crypto σ ρ) (M : σ → σ → Prop) (hL : C.Lawful M)
    (w r : HalfSt) (hw : wired w r = true) (ps : List Wire.Bytes) : transfer C w r ps = some ps := by
  unfold wired at hw
  cases hwc : w.cipher with
  | none => simp [hwc] at hw
  | some wc =>
    cases hrc : r.cipher with
    | none => simp [hwc, hrc] at hw
    | some rc =>
      obtain ⟨wk, wi, wf⟩ := wc
      obtain ⟨rk, ri, rf⟩ := rc
      simp [hwc, hrc] at hw
      obtain ⟨⟨⟨⟨⟨⟨⟨hkey, hiv⟩, hflag⟩, hmac⟩, hver⟩, hseq⟩, _⟩, _⟩ := hw
      subst hkey hiv
      simp only [transfer, HalfSt.inst, hwc, hrc, Option.map]
      rw [← hmac, ← hver, ← hseq]
      rcases hflag with ⟨h1, h2⟩ | ⟨h1, h2⟩
      · subst h1 h2; exact exchange_intact C M hL ps _ _ _ (hL.init_cipher _ _ _ _)
      · subst h1 h2; exact exchange_intact C M hL ps _ _ _ (hL.init_aead _ _ _ _)

/-- **Interoperation.** For every well-formed row, every version valid for it, every record
protection satisfying the law `Crypto.Lawful` (an encrypting and a decrypting instance built from
the same key material open each other's records), and **every** list of record payloads: what the
forged client writes the forged server reads intact, and what the server writes the client reads
intact. -/
theorem forge_exchange_row {σ ρ : Type} (C : Crypto σ ρ) (M : σ → σ → Prop) (hL : C.Lawful M)
    (r : Row) (v : Nat) (hr : r.WF = true) (hv : validVersion r v = true) (ps : List Wire.Bytes) :
    ∃ c s, makeRow r v true = .conn c ∧ makeRow r v false = .conn s ∧
      transfer C c.outH s.inH ps = some ps ∧ transfer C s.outH c.inH ps = some ps := by
  obtain ⟨c, s, hc, hs, h1, h2, _⟩ := forge_wiring_row r v hr hv
  exact ⟨c, s, hc, hs, transfer_of_wired C M hL _ _ h1 ps, transfer_of_wired C M hL _ _ h2 ps⟩

/-! ## the regenerated tables -/

/-- every row of both regenerated tables satisfies the row predicate (decided on the tables the
code has now). -/
theorem tables_wf : Gen.Suites.base.all Row.WF = true ∧ Gen.Suites.weak.all Row.WF = true := by
  decide

/-- the hand-written version constants are the code's. -/
theorem version_constants :
    versionTLS10 = Gen.Suites.versionTLS10 ∧ versionTLS11 = Gen.Suites.versionTLS11 ∧
    versionTLS12 = Gen.Suites.versionTLS12 ∧ versionTLS13 = Gen.Suites.versionTLS13 := by decide

private theorem lookup_some {tbl : List Row} {id : Nat} {r : Row} (h : lookup tbl id = some r) :
    r ∈ tbl ∧ r.id = id := by
  unfold lookup at h
  refine ⟨List.mem_of_find?_eq_some h, ?_⟩
  have := List.find?_some h
  simpa using this

private theorem lookup_isSome_of_mem {tbl : List Row} {id : Nat} (h : ∃ r ∈ tbl, r.id = id) :
    ∃ r, lookup tbl id = some r := by
  obtain ⟨r, hr, hid⟩ := h
  cases hl : lookup tbl id with
  | some r' => exact ⟨r', rfl⟩
  | none =>
    unfold lookup at hl
    rw [List.find?_eq_none] at hl
    have := hl r hr
    simp [hid] at this

/-- the table in force: before or after `EnableWeakCiphers`. -/
def table (weak : Bool) : List Row := if weak then Gen.Suites.weak else Gen.Suites.base

private theorem table_wf (weak : Bool) {r : Row} (h : r ∈ table weak) : r.WF = true := by
  have := tables_wf
  cases weak
  · exact (List.all_eq_true.mp this.1) r h
  · exact (List.all_eq_true.mp this.2) r h

/-- **forge_wiring** over the regenerated tables: for every suite id in the table in force (before
or after `EnableWeakCiphers`) and every version valid for that suite, both calls of
`MakeConnWithCompleteHandshake` return connections that are wired to each other in both
directions. -/
theorem forge_wiring (weak : Bool) (id v : Nat) (r : Row) (hl : lookup (table weak) id = some r)
    (hv : validVersion r v = true) :
    ∃ c s, make (table weak) id v true = .conn c ∧ make (table weak) id v false = .conn s ∧
      wired c.outH s.inH = true ∧ wired s.outH c.inH = true ∧
      (c.outH.cipher.map (·.key)) = some .client ∧ (s.outH.cipher.map (·.key)) = some .server := by
  obtain ⟨c, s, hc, hs, h1, h2, h3, _, h5, _⟩ := forge_wiring_row r v (table_wf weak (lookup_some hl).1) hv
  exact ⟨c, s, by simp [make, hl, hc], by simp [make, hl, hs], h1, h2, h3, h5⟩

/-- **forge_exchange** over the regenerated tables (see `forge_exchange_row`). -/
theorem forge_exchange {σ ρ : Type} (C : Crypto σ ρ) (M : σ → σ → Prop) (hL : C.Lawful M)
    (weak : Bool) (id v : Nat) (r : Row) (hl : lookup (table weak) id = some r)
    (hv : validVersion r v = true) (ps : List Wire.Bytes) :
    ∃ c s, make (table weak) id v true = .conn c ∧ make (table weak) id v false = .conn s ∧
      transfer C c.outH s.inH ps = some ps ∧ transfer C s.outH c.inH ps = some ps := by
  obtain ⟨c, s, hc, hs, h1, h2⟩ := forge_exchange_row C M hL r v (table_wf weak (lookup_some hl).1) hv ps
  exact ⟨c, s, by simp [make, hl, hc], by simp [make, hl, hs], h1, h2⟩

/-- **forge_unknown_nil**: an id that is not in the table yields nil — for any table, any version,
either side (never a half-built connection, never a panic). -/
theorem forge_unknown_nil (tbl : List Row) (id v : Nat) (isClient : Bool)
    (h : ∀ r ∈ tbl, r.id ≠ id) : make tbl id v isClient = .nil := by
  have : lookup tbl id = none := by
    unfold lookup
    rw [List.find?_eq_none]
    intro r hr; simpa using h r hr
  simp [make, this]

/-- the answer is nil **exactly** for the ids outside the table. -/
theorem forge_nil_iff (tbl : List Row) (id v : Nat) (isClient : Bool) :
    make tbl id v isClient = .nil ↔ ∀ r ∈ tbl, r.id ≠ id := by
  constructor
  · intro hn r hr hid
    obtain ⟨r', hl⟩ := lookup_isSome_of_mem ⟨r, hr, hid⟩
    simp only [make, hl] at hn
    unfold makeRow at hn
    cases hk : versionKnown v <;> cases hc : r'.hasCipher <;> cases hm : r'.hasMac <;>
      cases ha : r'.hasAead <;> cases ho : r'.ctorOk <;> cases isClient <;>
      simp [hk, hc, hm, ha, ho] at hn <;>
      (split at hn <;> simp at hn)
  · exact forge_unknown_nil tbl id v isClient

/-- **forge_seq** over any table: a returned connection has both sequence numbers at 1, the
requested version and suite, and the handshake marked complete. -/
theorem forge_seq (tbl : List Row) (id v : Nat) (isClient : Bool) (c : Conn)
    (h : make tbl id v isClient = .conn c) :
    c.inH.seq = 1 ∧ c.outH.seq = 1 ∧ c.vers = v ∧ c.suite = id ∧ c.handshakeComplete = true := by
  unfold make at h
  cases hl : lookup tbl id with
  | none => simp [hl] at h
  | some r =>
    simp only [hl] at h
    obtain ⟨h1, h2, _, _, _, _, _, _, h9, h10, _, h12⟩ := forge_seq_row r v isClient c h
    exact ⟨h1, h2, h9, by rw [h10]; exact (lookup_some hl).2, h12⟩

/-- `EnableWeakCiphers` only *adds* (D21 repaired — it used to rebuild the list from `cipherSuites`
and so dropped the legacy ChaCha20 code points 0xcc13/0xcc14): the table searched afterwards is
the start-up table, row for row, followed by the three weak CBC rows; the start-up table is the
upstream table followed by the two legacy ChaCha20 code points. -/
theorem weak_adds_weak_cbc :
    Gen.Suites.weak.take Gen.Suites.base.length = Gen.Suites.base ∧
    (Gen.Suites.weak.drop Gen.Suites.base.length).map (·.id) = [0x003d, 0xc024, 0xc028] ∧
    (Gen.Suites.base.map (·.id)) = (Gen.Suites.upstream.map (·.id)) ++ [0xcc13, 0xcc14] := by
  decide

private theorem weak_extends_base_tbl :
    Gen.Suites.base.all (fun r => lookup Gen.Suites.weak r.id == some r) = true := by decide

/-- nothing is dropped: every suite the function finds before `EnableWeakCiphers` it finds
afterwards, as the same row. -/
theorem weak_extends_base (id : Nat) (r : Row) (h : lookup Gen.Suites.base id = some r) :
    lookup Gen.Suites.weak id = some r := by
  obtain ⟨hm, hid⟩ := lookup_some h
  have := (List.all_eq_true.mp weak_extends_base_tbl) r hm
  rw [hid] at this
  simpa using this

/-- so every pair that is wired before `EnableWeakCiphers` (in particular the legacy ChaCha20 code
points) is wired after it. -/
theorem forge_wiring_survives_weak (id v : Nat) (r : Row) (hl : lookup Gen.Suites.base id = some r)
    (hv : validVersion r v = true) :
    ∃ c s, make (table true) id v true = .conn c ∧ make (table true) id v false = .conn s ∧
      wired c.outH s.inH = true ∧ wired s.outH c.inH = true := by
  obtain ⟨c, s, hc, hs, h1, h2, _⟩ := forge_wiring true id v r (by simpa [table] using weak_extends_base id r hl) hv
  exact ⟨c, s, hc, hs, h1, h2⟩

/-- no id occurs twice in either table, so "first row with this id" is "the row with this id". -/
theorem table_ids_nodup : (Gen.Suites.base.map (·.id)).Nodup ∧ (Gen.Suites.weak.map (·.id)).Nodup := by
  decide

/-! ## a reader that polls with read deadlines (seeded change C27-3) -/

private theorem poll_inv (evs : List ForgePoll.Ev) :
    ∀ (s : ForgePoll.Rd) (pre : Wire.Bytes), (s.out, s.raw) = ForgePoll.drain pre →
      ((evs.foldl ForgePoll.Rd.step s).out, (evs.foldl ForgePoll.Rd.step s).raw) =
        ForgePoll.drain (pre ++ ForgePoll.bytesOf evs) := by
  induction evs with
  | nil => intro s pre h; simpa [ForgePoll.bytesOf] using h
  | cons e es ih =>
    intro s pre h
    cases e with
    | timeout => simpa [ForgePoll.bytesOf, ForgePoll.Rd.step] using ih s pre h
    | chunk bs =>
      have h1 : (ForgePoll.drain pre).1 = s.out := by rw [← h]
      have h2 : (ForgePoll.drain pre).2 = s.raw := by rw [← h]
      have hs : ((s.step (.chunk bs)).out, (s.step (.chunk bs)).raw) = ForgePoll.drain (pre ++ bs) := by
        rw [ForgePoll.drain_append pre bs, h1, h2]; rfl
      have := ih (s.step (.chunk bs)) (pre ++ bs) hs
      simpa [ForgePoll.bytesOf, List.append_assoc] using this

/-- **Polling is transparent.** Whatever pieces the transport delivers the byte stream in, and
wherever read deadlines expire in between (between records, inside a header, inside a body), the
records the reader has delivered and the partial record it still buffers are exactly those of the
byte stream received so far: a timeout loses nothing and kills nothing. (The code: a timeout is a
temporary `net.Error`, returned but not stored in `c.in.err`, `c.rawInput` keeps the partial
record.) -/
theorem poll_transparent (evs : List ForgePoll.Ev) :
    ((evs.foldl ForgePoll.Rd.step {}).out, (evs.foldl ForgePoll.Rd.step {}).raw) =
      ForgePoll.drain (ForgePoll.bytesOf evs) := by
  have h0 : ((({} : ForgePoll.Rd)).out, (({} : ForgePoll.Rd)).raw) = ForgePoll.drain [] := by
    rw [ForgePoll.drain_none (by decide)]
  simpa using poll_inv evs {} [] h0

/-- hence two deliveries of the same bytes — differently cut, with different timeouts — give the
reader the same records. -/
theorem poll_independent (e1 e2 : List ForgePoll.Ev) (h : ForgePoll.bytesOf e1 = ForgePoll.bytesOf e2) :
    (e1.foldl ForgePoll.Rd.step {}).out = (e2.foldl ForgePoll.Rd.step {}).out := by
  have a := congrArg Prod.fst (poll_transparent e1)
  have b := congrArg Prod.fst (poll_transparent e2)
  simp only at a b
  rw [a, b, h]

-- a 2-byte record arriving in three pieces with deadlines expiring inside the header and inside the body
example : ([ForgePoll.Ev.chunk [23, 3, 3], .timeout, .chunk [0, 2, 9], .timeout, .timeout, .chunk [9, 23]].foldl
    ForgePoll.Rd.step {}).out = [[23, 3, 3, 0, 2, 9, 9]] := by
  have h := congrArg Prod.fst (poll_transparent
    [ForgePoll.Ev.chunk [23, 3, 3], .timeout, .chunk [0, 2, 9], .timeout, .timeout, .chunk [9, 23]])
  simp only at h
  rw [h]
  have e : ForgePoll.bytesOf [ForgePoll.Ev.chunk [23, 3, 3], .timeout, .chunk [0, 2, 9], .timeout, .timeout, .chunk [9, 23]]
      = [23, 3, 3, 0, 2, 9, 9, 23] := by decide
  rw [e, ForgePoll.drain_some (r := [23, 3, 3, 0, 2, 9, 9]) (rest := [23]) (by decide), ForgePoll.drain_none (by decide)]

/-! ## D16 (repaired): the pre-repair wiring is refuted by the same predicate -/

/-- the client-side halves as the code built them before the repair: `clientCipher` always with
`isRead = true`, `serverCipher` always with `isRead = false`. -/
private def preRepairClientOut : HalfSt :=
  { version := versionTLS12, cipher := some ⟨.client, .client, some true⟩, mac := some .client, seq := 1 }
private def preRepairClientIn : HalfSt :=
  { version := versionTLS12, cipher := some ⟨.server, .server, some false⟩, mac := some .server, seq := 1 }

/-- D16: with the flags as the unrepaired code passed them, the client's halves are not wired to the
(correct) server halves — in either direction — for any row whose constructor takes a flag. -/
theorem d16_swapped_flags_not_wired (r : Row) (hr : r.WF = true) (hc : r.hasCipher = true) :
    ∃ s, makeRow r versionTLS12 false = .conn s ∧
      wired preRepairClientOut s.inH = false ∧ wired s.outH preRepairClientIn = false := by
  obtain ⟨ho, h | h⟩ := wf_cases hr
  · exact ⟨_, makeRow_cipher r versionTLS12 false (by decide) h.1 h.2 ho, by simp [wired, expectHalf, preRepairClientOut], by simp [wired, expectHalf, preRepairClientIn]⟩
  · rw [hc] at h; cases h.1

/-! ## non-vacuity -/

/-- a toy record protection in which the `isRead` flag matters exactly as for CBC: an instance
seals only if built for writing, opens only if built for reading, and a record opens only under
the same key, IV, MAC key, version and sequence number. -/
def toy : Crypto (CipherInst × Option Side × Nat) ((Side × Side × Option Side × Nat × Nat) × Wire.Bytes) where
  init c m v := (c, m, v)
  enc w n p := (w, ((w.1.key, w.1.iv, w.2.1, w.2.2, if w.1.isRead == some true then n + 1000 else n), p))
  dec r n c :=
    if r.1.isRead != some false && c.1 == (r.1.key, r.1.iv, r.2.1, r.2.2, n) then some (r, c.2) else none

def toyMatch (w r : CipherInst × Option Side × Nat) : Prop :=
  w.1.key = r.1.key ∧ w.1.iv = r.1.iv ∧ w.2 = r.2 ∧
  ((w.1.isRead = some false ∧ r.1.isRead = some true) ∨ (w.1.isRead = none ∧ r.1.isRead = none))

theorem toy_lawful : toy.Lawful toyMatch := by
  refine ⟨?_, ?_, ?_⟩
  · intro k i m v; simp [toy, toyMatch]
  · intro k i m v; simp [toy, toyMatch]
  · intro w r n p hM
    obtain ⟨hk, hi, h2, hf⟩ := hM
    refine ⟨r, ?_, ⟨hk, hi, h2, hf⟩⟩
    obtain ⟨⟨wk, wi, wf⟩, wm, wv⟩ := w
    obtain ⟨⟨rk, ri, rf⟩, rm, rv⟩ := r
    simp at hk hi h2 hf
    obtain ⟨hm, hv⟩ := h2
    subst hk hi hm hv
    rcases hf with ⟨h1, h2⟩ | ⟨h1, h2⟩ <;> subst h1 h2 <;> simp [toy]

-- a CBC row of the regenerated table is well-formed and TLS 1.0 is valid for it; a TLS 1.2-only
-- AEAD row is valid only for TLS 1.2
example : (lookup Gen.Suites.base 0xc013).any (fun r => r.WF && validVersion r versionTLS10) = true ∧
    (lookup Gen.Suites.base 0xc02f).any (fun r => validVersion r versionTLS12 && !validVersion r versionTLS11) = true := by
  decide

-- forge_wiring / forge_seq on a concrete CBC suite (0xc013, TLS 1.1): the client's out half
example : make (table false) 0xc013 versionTLS11 true = .conn
    { inH := { version := 0x0302, cipher := some ⟨.server, .server, some true⟩, mac := some .server, seq := 1 },
      outH := { version := 0x0302, cipher := some ⟨.client, .client, some false⟩, mac := some .client, seq := 1 },
      isClient := true, vers := 0x0302, suite := 0xc013, haveVers := true, handshakeComplete := true } := by
  decide

-- forge_exchange instantiated with the toy protection on a concrete suite and payload list
example : ∃ c s, make (table true) 0xc024 versionTLS12 true = .conn c ∧
    make (table true) 0xc024 versionTLS12 false = .conn s ∧
    transfer toy c.outH s.inH [[1, 2, 3], [], [4]] = some [[1, 2, 3], [], [4]] ∧
    transfer toy s.outH c.inH [[1, 2, 3], [], [4]] = some [[1, 2, 3], [], [4]] := by
  cases hl : lookup (table true) 0xc024 with
  | none => exact absurd hl (by decide)
  | some r =>
    have hv : validVersion r versionTLS12 = true := by
      have h : (lookup (table true) 0xc024).all (fun r => validVersion r versionTLS12) = true := by decide
      rw [hl] at h; simpa using h
    exact forge_exchange toy toyMatch toy_lawful true 0xc024 versionTLS12 r hl hv _

-- the toy protection really rejects the pre-repair wiring (so `Lawful` is not vacuous about the flag)
example : transfer toy preRepairClientOut
    { version := versionTLS12, cipher := some ⟨.client, .client, some true⟩, mac := some .client, seq := 1 }
    [[1]] = none := by decide

-- forge_unknown_nil: a TLS 1.3 suite id and a FAKE_ id no table has
example : make (table false) 0x1301 versionTLS12 true = .nil ∧ make (table true) 0xcc15 versionTLS12 false = .nil := by
  decide

-- D21 regression: a legacy ChaCha20 code point is still found after EnableWeakCiphers, and its pair is wired
example : lookup (table true) 0xcc13 = lookup (table false) 0xcc13 ∧
    (lookup (table true) 0xcc13).any (fun r => validVersion r versionTLS12) = true ∧
    lookup (table true) 0xcc14 = lookup (table false) 0xcc14 ∧ (lookup (table true) 0xcc14).isSome = true := by
  decide

-- a supported suite with a version outside TLS 1.0–1.2 panics in prfForVersion (not nil, not a conn)
example : make (table false) 0xc02f versionTLS13 true = .panic "unknown version" := by decide

end C27
