import UtlsVerif.Record
/-!
# C28 — `GetOutKeystream` returns the keystream of the next record

Model: `Keystream.getOutKeystream` (u_conn.go: `outCipher.Seal(nil, out.seq[:], zeros, nil)` when
`out.cipher` is a `cipher.AEAD`, an error otherwise; no `incSeq`), the two nonce wrappers, and
`Record.encrypt` over `Record.withPrim P` (inner AEAD = keystream XOR plus tag; laws `Prim.Laws`
are hypotheses).

* `keystream_value` — the result is `ks(key, nonceFor(out.seq), n)` followed by a 16-byte tag (the
  result is `n + 16` bytes long, not `n`); `keystream_prefix` — for `k ≤ n` its first `k` bytes
  are the keystream prefix, **and** the ciphertext of the next record (after the 5-byte header and
  any explicit nonce) starts with `plaintext ⊕` those bytes, for `k ≤ |plaintext|` — in TLS 1.3 the
  byte after the plaintext is `keystream ⊕ content type` (`keystream_inner_type`);
* `keystream_pure` — sequence number, key, wrapper kind and the fixed nonce part are unchanged; the
  only state touched is the prefix wrapper's 8 scratch bytes, and `pure_next_send` /
  `pure_all_sends`: every later record (hence what the peer sees and accepts) is byte-for-byte the
  same as without the call;
* `keystream_tracks_seq` — two calls with the same length separated by one record: the first
  returns the keystream for the nonce of `seq`, the second the keystream for the nonce of `seq + 1`
  (and `nonce_changes`: those nonces differ) — a result remembered from an earlier record is wrong;
* `keystream_unsupported` — for every non-AEAD cipher (CBC, RC4, none) the call returns the error
  and changes nothing.
-/
namespace C28
open Wire Keystream Record

/-! ### helper lemmas -/

private theorem xorBytes_zeros (n : Nat) (ks : Bytes) (h : ks.length = n) :
    xorBytes (List.replicate n 0) ks = ks := by
  induction n generalizing ks with
  | zero => cases ks with
    | nil => rfl
    | cons => simp at h
  | succ n ih =>
    cases ks with
    | nil => simp at h
    | cons x xs =>
      simp [List.replicate_succ, xorBytes, ih xs (by simpa using h)]

private theorem xorBytes_take (a c : Bytes) (k : Nat) :
    (xorBytes a c).take k = xorBytes (a.take k) (c.take k) := by
  induction a generalizing c k with
  | nil => cases k <;> simp [xorBytes]
  | cons x xs ih =>
    cases c with
    | nil => cases k <;> simp [xorBytes]
    | cons y ys =>
      cases k with
      | zero => simp [xorBytes]
      | succ k => simp [xorBytes, ih]

private theorem xorBytes_length (a c : Bytes) : (xorBytes a c).length = min a.length c.length := by
  induction a generalizing c with
  | nil => simp [xorBytes]
  | cons x xs ih =>
    cases c with
    | nil => simp [xorBytes]
    | cons y ys => simp [xorBytes, ih, Nat.succ_min_succ]

private theorem xorInto_length (m n : Bytes) (h : n.length ≤ m.length) : (xorInto m n).length = m.length := by
  induction m generalizing n with
  | nil => cases n with
    | nil => rfl
    | cons => simp at h
  | cons x xs ih =>
    cases n with
    | nil => rfl
    | cons y ys => simp [xorInto, ih ys (by simpa using h)]

private theorem xorInto_twice (m n : Bytes) (h : n.length ≤ m.length) : xorInto (xorInto m n) n = m := by
  induction m generalizing n with
  | nil => cases n with
    | nil => rfl
    | cons => simp at h
  | cons x xs ih =>
    cases n with
    | nil => rfl
    | cons y ys =>
      simp only [xorInto]
      rw [ih ys (by simpa using h)]
      simp [UInt8.xor_assoc]

private theorem copyInto_full (d n : Bytes) (h : d.length = n.length) : copyInto d n = n := by
  induction d generalizing n with
  | nil => cases n with
    | nil => rfl
    | cons => simp at h
  | cons x xs ih =>
    cases n with
    | nil => simp at h
    | cons y ys => simp [copyInto, ih ys (by simpa using h)]

private theorem copyInto_length (d n : Bytes) (h : n.length ≤ d.length) : (copyInto d n).length = d.length := by
  induction d generalizing n with
  | nil => cases n with
    | nil => rfl
    | cons => simp at h
  | cons x xs ih =>
    cases n with
    | nil => rfl
    | cons y ys => simp [copyInto, ih ys (by simpa using h)]

/-! ### what the call returns -/

/-- **value**: on an AEAD cipher the result is the keystream of length `n` under the nonce built
from the *current* outgoing sequence number, followed by the 16-byte tag of the all-zero message
with empty additional data. -/
theorem keystream_value (P : Prim) (hP : P.Laws) (w : Wrapper) (key fixed : Bytes) (seq n : Nat) :
    (getOutKeystream P ⟨.aead w key fixed, seq⟩ n).1 =
      some (P.ks key (nonceFor w fixed (seq8 seq)) n ++
            P.tag key (nonceFor w fixed (seq8 seq)) [] (P.ks key (nonceFor w fixed (seq8 seq)) n)) := by
  simp only [getOutKeystream, aseal, List.length_replicate]
  rw [xorBytes_zeros n _ (hP.ks_len _ _ _)]

/-- the result of `GetOutKeystream(n)` is `n + 16` bytes long (keystream, then a tag). -/
theorem keystream_result_length (P : Prim) (hP : P.Laws) (w : Wrapper) (key fixed : Bytes) (seq n : Nat) (r : Bytes)
    (h : (getOutKeystream P ⟨.aead w key fixed, seq⟩ n).1 = some r) : r.length = n + 16 := by
  rw [keystream_value P hP] at h
  cases h
  simp [hP.ks_len, hP.tag_len]

/-- **keystream_prefix, first half**: for `k ≤ n`, the first `k` bytes returned are the first `k`
keystream bytes for the nonce of `out.seq`. -/
theorem keystream_take (P : Prim) (hP : P.Laws) (w : Wrapper) (key fixed : Bytes) (seq n k : Nat) (r : Bytes)
    (hk : k ≤ n) (h : (getOutKeystream P ⟨.aead w key fixed, seq⟩ n).1 = some r) :
    r.take k = P.ks key (nonceFor w fixed (seq8 seq)) k := by
  rw [keystream_value P hP] at h
  cases h
  rw [List.take_append_of_le_length (by rw [hP.ks_len]; exact hk)]
  exact hP.ks_prefix _ _ _ _ hk

/-- the ciphertext part of an AEAD record: after the header and the explicit nonce. -/
def ctOf (s : Suite) (rec : Bytes) : Bytes := rec.drop (5 + explicitNonceLen s)

private theorem drop_hdr_explicit (h5 e body : Bytes) (n5 : h5.length = 5) (m : Nat) (hm : e.length = m) :
    (h5 ++ (e ++ body)).drop (5 + m) = body := by
  subst hm
  rw [← List.append_assoc]
  have : (h5 ++ e).length = 5 + e.length := by simp [n5]
  rw [← this, List.drop_left]

/-- the ciphertext part of the record `encrypt` produces on an AEAD cipher is the sealed inner
plaintext (TLS 1.3: payload followed by the content type; TLS 1.2: the payload). -/
theorem ct_of_encrypt (C : Crypto) (s : Suite) (w : Wrapper) (hk : s.kind = .aead w) (h : Half) (typ : Nat) (payload : Bytes) :
    ctOf s (encrypt C s h typ payload).1 =
      if s.vers = v13 then
        C.aseal h.key (nonceFor w h.iv (seq8 h.seq)) (hdr tApp (wireVers s.vers) (payload.length + 1 + s.tagLen)) (payload ++ [b typ])
      else
        C.aseal h.key (nonceFor w h.iv (seq8 h.seq)) (seq8 h.seq ++ hdr typ (wireVers s.vers) payload.length) payload := by
  unfold ctOf encrypt explicitNonceLen
  rw [hk]
  cases w <;> by_cases hv : s.vers = v13 <;> simp only [hv, if_true, if_false]
  · exact drop_hdr_explicit _ _ _ (by simp) 8 (by simp)
  · exact drop_hdr_explicit _ _ _ (by simp) 8 (by simp)
  · rfl
  · rfl

/-- **keystream_prefix**: let `r` be what `GetOutKeystream(n)` returns on a connection whose outgoing
half is `h` (AEAD suite). Then for every `k ≤ n`, `k ≤ |payload|`, the ciphertext of the *next*
record — `encrypt` of any content type and payload in that same state — starts, after the header
and any explicit nonce, with `payload[:k] ⊕ r[:k]`. -/
theorem keystream_prefix (P : Prim) (hP : P.Laws) (C : Crypto) (s : Suite) (w : Wrapper) (hk : s.kind = .aead w)
    (h : Half) (typ : Nat) (payload : Bytes) (n k : Nat) (r : Bytes)
    (hkn : k ≤ n) (hkp : k ≤ payload.length)
    (hr : (getOutKeystream P (outView s h) n).1 = some r) :
    (ctOf s (encrypt (withPrim P C) s h typ payload).1).take k = xorBytes (payload.take k) (r.take k) := by
  have hov : outView s h = ⟨.aead w h.key h.iv, h.seq⟩ := by simp [outView, hk]
  rw [hov] at hr
  rw [keystream_take P hP w h.key h.iv h.seq n k r hkn hr]
  rw [ct_of_encrypt _ s w hk]
  by_cases hv : s.vers = v13
  · simp only [hv, if_true, withPrim, aseal]
    rw [List.take_append_of_le_length (by rw [xorBytes_length, hP.ks_len]; simp; omega)]
    rw [xorBytes_take, hP.ks_prefix _ _ _ _ (by simp; omega)]
    rw [List.take_append_of_le_length hkp]
  · simp only [hv, if_false, withPrim, aseal]
    rw [List.take_append_of_le_length (by rw [xorBytes_length, hP.ks_len]; simp; omega)]
    rw [xorBytes_take, hP.ks_prefix _ _ _ _ hkp]

/-- TLS 1.3: when `n > |payload|`, the ciphertext byte right after the payload is the next keystream
byte XOR the content type (the inner type byte is encrypted with the same keystream). -/
theorem keystream_inner_type (P : Prim) (hP : P.Laws) (C : Crypto) (s : Suite) (w : Wrapper) (hk : s.kind = .aead w)
    (hv : s.vers = v13) (h : Half) (typ : Nat) (payload : Bytes) (n : Nat) (r : Bytes)
    (hn : payload.length < n) (hr : (getOutKeystream P (outView s h) n).1 = some r) :
    (ctOf s (encrypt (withPrim P C) s h typ payload).1).take (payload.length + 1) =
      xorBytes (payload ++ [b typ]) (r.take (payload.length + 1)) := by
  have hov : outView s h = ⟨.aead w h.key h.iv, h.seq⟩ := by simp [outView, hk]
  rw [hov] at hr
  rw [keystream_take P hP w h.key h.iv h.seq n _ r (by omega) hr]
  rw [ct_of_encrypt _ s w hk]
  simp only [hv, if_true, withPrim, aseal]
  rw [List.take_append_of_le_length (by rw [xorBytes_length, hP.ks_len]; simp)]
  have hl : (payload ++ [b typ]).length = payload.length + 1 := by simp
  rw [hl, xorBytes_take, List.take_of_length_le (Nat.le_of_eq hl), List.take_of_length_le (Nat.le_of_eq (hP.ks_len _ _ _))]

/-! ### purity -/

/-- the outgoing half after a `GetOutKeystream` call on an AEAD cipher: only the wrapper's array can
have been touched. -/
def afterCall (s : Suite) (h : Half) : Half :=
  match s.kind with
  | .aead w => { h with iv := stateAfter w h.iv (seq8 h.seq) }
  | _ => h

/-- `afterCall` is what the model's `getOutKeystream` does to the connection state. -/
theorem afterCall_is_the_effect (P : Prim) (s : Suite) (h : Half) (n : Nat) :
    (getOutKeystream P (outView s h) n).2 = outView s (afterCall s h) := by
  unfold afterCall outView getOutKeystream
  cases hk : s.kind with
  | aead w => simp
  | cbc => simp
  | stream => simp

/-- **keystream_pure (state)**: sequence number, key, MAC key, traffic secret and every counter are
unchanged; for the XOR wrapper (TLS 1.3, ChaCha20) the nonce mask is restored exactly; for the
prefix wrapper (TLS 1.2 AES-GCM) the 4-byte fixed prefix is unchanged (bytes 4..11 are scratch that
every `Seal`/`Open` overwrites). `h.iv.length = 12` is the `[12]byte` array of both wrappers. -/
theorem keystream_pure (s : Suite) (h : Half) (hiv : h.iv.length = 12) :
    (afterCall s h).seq = h.seq ∧ (afterCall s h).key = h.key ∧ (afterCall s h).macKey = h.macKey ∧
    (afterCall s h).secret = h.secret ∧ (afterCall s h).soff = h.soff ∧ (afterCall s h).rctr = h.rctr ∧
    (afterCall s h).epoch = h.epoch ∧ (afterCall s h).iv.length = 12 ∧ (afterCall s h).iv.take 4 = h.iv.take 4 ∧
    (s.kind ≠ .aead .pfx → (afterCall s h).iv = h.iv) := by
  unfold afterCall
  cases hk : s.kind with
  | aead w =>
    cases w with
    | pfx =>
      have e1 : (h.iv.take 4 ++ copyInto (h.iv.drop 4) (seq8 h.seq)).length = 12 := by
        rw [List.length_append, copyInto_length _ _ (by simp [hiv])]; simp [hiv]
      have e2 : (h.iv.take 4 ++ copyInto (h.iv.drop 4) (seq8 h.seq)).take 4 = h.iv.take 4 := by
        rw [List.take_append_of_le_length (l₁ := h.iv.take 4) (by simp [hiv])]; simp [List.take_take]
      simp [stateAfter, nonceFor, e1, e2]
    | xor =>
      simp only [stateAfter]
      rw [xorInto_twice _ _ (by simp [hiv])]
      simp [hiv]
  | cbc => simp [hiv]
  | stream => simp [hiv]

/-- the scratch bytes do not influence what is sealed next: the nonce of the next record is the
same with and without the call. -/
private theorem nonceFor_afterCall (w : Wrapper) (iv : Bytes) (hiv : iv.length = 12) (m n8 : Bytes)
    (hm : m.length = 8) (hn : n8.length = 8) :
    nonceFor w (stateAfter w iv m) n8 = nonceFor w iv n8 ∧
    stateAfter w (stateAfter w iv m) n8 = stateAfter w iv n8 := by
  cases w with
  | xor =>
    simp only [stateAfter]
    rw [xorInto_twice _ _ (by simp [hiv, hm])]
    simp
  | pfx =>
    have h4 : (iv.take 4).length = 4 := by simp [hiv]
    have hd : (copyInto (iv.drop 4) m).length = 8 := by rw [copyInto_length _ _ (by simp [hiv, hm])]; simp [hiv]
    have e1 : (iv.take 4 ++ copyInto (iv.drop 4) m).take 4 = iv.take 4 := by
      rw [List.take_append_of_le_length (l₁ := iv.take 4) (by omega)]; simp [List.take_take]
    have e2 : (iv.take 4 ++ copyInto (iv.drop 4) m).drop 4 = copyInto (iv.drop 4) m :=
      List.drop_left' h4
    have e3 : copyInto (copyInto (iv.drop 4) m) n8 = copyInto (iv.drop 4) n8 := by
      rw [copyInto_full _ _ (by omega), copyInto_full _ _ (by simp [hiv, hn])]
    simp only [stateAfter, nonceFor, e1, e2, e3, and_self]

/-- **pure_next_send**: the next record — for any content type and payload — and the state after it
are identical with and without the `GetOutKeystream` call. Since the peer's state is not touched
either, whether the peer accepts the record is unaffected. -/
theorem pure_next_send (C : Crypto) (s : Suite) (h : Half) (hiv : h.iv.length = 12) (typ : Nat) (payload : Bytes) :
    encrypt C s (afterCall s h) typ payload = encrypt C s h typ payload := by
  unfold afterCall
  cases hk : s.kind with
  | cbc => rfl
  | stream => rfl
  | aead w =>
    obtain ⟨e1, e2⟩ := nonceFor_afterCall w h.iv hiv (seq8 h.seq) (seq8 h.seq) (by simp) (by simp)
    unfold encrypt
    simp only [hk, e1, e2]

private theorem maxPayload_out (c : Conn) (o : Half) (typ : Nat) :
    maxPayload { c with out := o } typ = ((maxPayload c typ).1, { (maxPayload c typ).2 with out := o }) ∧
    (maxPayload c typ).2.out = c.out ∧ (maxPayload c typ).2.p = c.p := by
  unfold maxPayload
  by_cases h1 : (!c.p.dynamic || decide (typ ≠ tApp)) = true
  · simp only [h1, if_true, and_self]
  · by_cases h2 : c.bytesSent ≥ recordSizeBoostThreshold
    · simp only [h1, h2, if_true, and_self]; simp
    · by_cases h3 : c.packetsSent > 1000
      · simp only [h1, h2, h3, if_true]; simp
      · simp only [h1, h2, h3, if_false]; simp

private theorem writeLoop_afterCall (C : Crypto) (c : Conn) (hiv : c.out.iv.length = 12) (f typ : Nat) (d : Bytes)
    (hd : d ≠ []) (hf : 0 < f) :
    writeLoop C f { c with out := afterCall c.p.s c.out } typ d = writeLoop C f c typ d := by
  cases f with
  | zero => omega
  | succ f =>
    obtain ⟨m1, m3, m4⟩ := maxPayload_out c (afterCall c.p.s c.out) typ
    simp only [writeLoop, hd, if_false]
    rw [m1]
    simp only [m3, m4]
    rw [pure_next_send C c.p.s c.out hiv]

/-- **pure_all_sends**: every record a later `Write` (any data) puts on the wire is the same, and —
when at least one byte is written (no pending write error) — so is the whole connection state
afterwards. -/
theorem pure_all_sends (C : Crypto) (c : Conn) (hiv : c.out.iv.length = 12) (data : Bytes) :
    (write C { c with out := afterCall c.p.s c.out } data).1 = (write C c data).1 ∧
    (data ≠ [] → c.outErr = none →
      (write C { c with out := afterCall c.p.s c.out } data).2 = (write C c data).2) := by
  have hrec : ∀ (typ : Nat) (d : Bytes), d ≠ [] →
      writeRecord C { c with out := afterCall c.p.s c.out } typ d = writeRecord C c typ d := by
    intro typ d hd
    unfold writeRecord
    exact writeLoop_afterCall C c hiv _ typ d hd (by cases d with | nil => exact absurd rfl hd | cons => simp)
  by_cases hd : data = []
  · subst hd
    refine ⟨?_, fun h => absurd rfl h⟩
    unfold write
    by_cases he : c.outErr.isSome = true
    · simp [he]
    · simp [he, writeRecord, writeLoop]
  · unfold write
    by_cases he : c.outErr.isSome = true
    · simp only [he, if_true]
      constructor
      · first | rfl | trivial
      · intro _ hn; rw [hn] at he; simp at he
    · simp only [he]
      by_cases hs : data.length > 1 ∧ splitVers c.p = true ∧ c.p.s.kind = .cbc
      · have h1 : data.take 1 ≠ [] := by
          cases data with
          | nil => exact absurd rfl hd
          | cons => simp
        simp only [hs, and_self, if_true, Bool.false_eq_true, if_false]
        rw [hrec tApp _ h1]
        exact ⟨rfl, fun _ _ => rfl⟩
      · simp only [hs, if_false, Bool.false_eq_true]
        rw [hrec tApp _ hd]
        exact ⟨rfl, fun _ _ => rfl⟩

/-! ### the keystream follows the sequence number -/

private theorem xorInto_inj (m a c : Bytes) (ha : a.length = c.length) (hl : a.length ≤ m.length)
    (h : xorInto m a = xorInto m c) : a = c := by
  induction m generalizing a c with
  | nil =>
    cases a with
    | nil => cases c with
      | nil => rfl
      | cons => simp at ha
    | cons => simp at hl
  | cons x xs ih =>
    cases a with
    | nil => cases c with
      | nil => rfl
      | cons => simp at ha
    | cons y ys =>
      cases c with
      | nil => simp at ha
      | cons z zs =>
        simp only [xorInto, List.cons.injEq] at h
        have hyz : y = z := by
          have := congrArg (fun t => x ^^^ t) h.1
          simpa [← UInt8.xor_assoc] using this
        rw [hyz, ih ys zs (by simpa using ha) (by simpa using hl) h.2]

/-- consecutive sequence numbers give different 12-byte nonces, for both wrappers. -/
theorem nonce_changes (w : Wrapper) (iv : Bytes) (hiv : iv.length = 12) (n : Nat) :
    nonceFor w iv (seq8 n) ≠ nonceFor w iv (seq8 (n + 1)) := by
  have hseq : seq8 n ≠ seq8 (n + 1) := by
    intro h
    have h8 : (seq8 n).getLast? = (seq8 (n + 1)).getLast? := by rw [h]
    simp only [seq8, List.getLast?_cons_cons, List.getLast?_singleton, Option.some.injEq] at h8
    have := congrArg UInt8.toNat h8
    rw [b_toNat, b_toNat] at this
    omega
  intro h
  cases w with
  | pfx =>
    simp only [nonceFor] at h
    rw [copyInto_full _ _ (by simp [hiv]), copyInto_full _ _ (by simp [hiv])] at h
    exact hseq (List.append_cancel_left h)
  | xor =>
    simp only [nonceFor] at h
    exact hseq (xorInto_inj _ _ _ (by simp) (by simp [hiv]) (List.append_cancel_left h))

/-- **keystream_tracks_seq**: call `GetOutKeystream(n)`, send one record (any type and payload),
call `GetOutKeystream(n)` again with the same `n`. The first result starts with the keystream for the
nonce of the old sequence number, the second with the keystream for the nonce of the *next* sequence
number (same key, same fixed nonce part) — each call describes the record that follows *it*. -/
theorem keystream_tracks_seq (P : Prim) (hP : P.Laws) (C : Crypto) (s : Suite) (w : Wrapper) (hk : s.kind = .aead w)
    (h : Half) (hiv : h.iv.length = 12) (typ : Nat) (payload : Bytes) (n : Nat) (r1 r2 : Bytes)
    (h1 : (getOutKeystream P (outView s h) n).1 = some r1)
    (h2 : (getOutKeystream P (outView s (encrypt C s (afterCall s h) typ payload).2) n).1 = some r2) :
    r1.take n = P.ks h.key (nonceFor w h.iv (seq8 h.seq)) n ∧
    r2.take n = P.ks h.key (nonceFor w h.iv (seq8 (h.seq + 1))) n ∧
    nonceFor w h.iv (seq8 h.seq) ≠ nonceFor w h.iv (seq8 (h.seq + 1)) := by
  have hov : outView s h = ⟨.aead w h.key h.iv, h.seq⟩ := by simp [outView, hk]
  rw [hov] at h1
  refine ⟨keystream_take P hP w h.key h.iv h.seq n n r1 (Nat.le_refl _) h1, ?_, nonce_changes w h.iv hiv h.seq⟩
  rw [pure_next_send C s h hiv] at h2
  have hst : (encrypt C s h typ payload).2 =
      { h with seq := h.seq + 1, iv := stateAfter w h.iv (seq8 h.seq) } := by
    unfold encrypt
    simp only [hk]
    by_cases hv : s.vers = v13 <;> simp [hv]
  have hov2 : outView s (encrypt C s h typ payload).2 =
      ⟨.aead w h.key (stateAfter w h.iv (seq8 h.seq)), h.seq + 1⟩ := by rw [hst]; simp [outView, hk]
  rw [hov2] at h2
  have := keystream_take P hP w h.key _ (h.seq + 1) n n r2 (Nat.le_refl _) h2
  rw [this, (nonceFor_afterCall w h.iv hiv (seq8 h.seq) (seq8 (h.seq + 1)) (by simp) (by simp)).1]

/-- **keystream_unsupported**: `GetOutKeystream` works exactly for the ciphers that are a
`cipher.AEAD` — `prefixNonceAEAD` (TLS 1.2 AES-GCM) and `xorNonceAEAD` (TLS 1.3 suites, TLS 1.2
ChaCha20-Poly1305). For CBC, RC4 and before any cipher is installed it returns the error
"could not convert OutCipher to cipher.AEAD" and no bytes, and the state is untouched. -/
theorem keystream_unsupported (P : Prim) (s : Suite) (h : Half) (n : Nat) (hk : ∀ w, s.kind ≠ .aead w) :
    getOutKeystream P (outView s h) n = (none, outView s h) ∧ afterCall s h = h := by
  unfold outView afterCall getOutKeystream
  cases hs : s.kind with
  | aead w => exact absurd hs (hk w)
  | cbc => simp
  | stream => simp

/-- and it succeeds for every AEAD cipher and every length. -/
theorem keystream_supported (P : Prim) (s : Suite) (w : Wrapper) (hk : s.kind = .aead w) (h : Half) (n : Nat) :
    ((getOutKeystream P (outView s h) n).1).isSome = true := by
  simp [outView, hk, getOutKeystream]

/-! ### non-vacuity: a concrete keystream satisfying the laws, and one concrete instance -/

private def toyP : Prim where
  ks := fun k _ m => (List.range m).map fun i => UInt8.ofNat (i + k.length)
  tag := fun _ _ _ _ => List.replicate 16 9

example : toyP.Laws where
  ks_len := by intro k n m; simp [toyP]
  ks_prefix := by
    intro k n j m h
    simp only [toyP, ← List.map_take, List.take_range, Nat.min_eq_left h]
  tag_len := by intro k n ad c; simp [toyP]

private def toyHalf : Half := { key := [1, 2], iv := [1, 2, 3, 4, 0, 0, 0, 0, 0, 0, 0, 0], seq := 258 }

example : (getOutKeystream toyP (outView ⟨v12, .aead .pfx, 0, 16, 16⟩ toyHalf) 3).1
    = some ([2, 3, 4] ++ List.replicate 16 9) := by decide

private def idCrypto : Crypto :=
  { aseal := fun _ _ _ p => p, aopen := fun _ _ _ c => some c, mac := fun _ _ => [], cbcEnc := fun _ _ p => p,
    cbcDec := fun _ _ p => p, xorStream := fun _ _ p => p, rand := fun _ n => List.replicate n 0,
    nextSecret := id, keyOf := id, ivOf := id }

example : (ctOf ⟨v12, .aead .pfx, 0, 16, 16⟩
    (encrypt (withPrim toyP idCrypto) ⟨v12, .aead .pfx, 0, 16, 16⟩ toyHalf tApp [0x10, 0x20, 0x30]).1).take 3
    = [0x12, 0x23, 0x34] := by decide

end C28
