import UtlsVerif.RollerLemmas
import UtlsVerif.Props.C30
import UtlsVerif.Gen.RollerShape
/-!
# C29 — Roller prefers the last working fingerprint and tries each at most once

All statements are about `Roller.dialCore` / `Roller.dial` (the transcription of `Roller.Dial` in
`UtlsVerif/Roller.lean`) for **every** id type with decidable equality, id list, shuffle result, stored
working id, dial oracle and handshake oracle — no bound on any of them.

* `working_first` — a recorded working id is the first id tried (unless the very first TCP dial fails,
  in which case nothing is tried and that error is returned);
* `each_once` / `each_once_dial` — for a duplicate-free `HelloIDs` the attempts are duplicate-free and every
  attempted id is a configured one or the recorded working id (`_dial`: through the real shuffle, for every
  prng stream);
* `first_success_recorded` — a returned connection is that of the first attempt whose handshake succeeded;
  all earlier attempts failed theirs, nothing is tried afterwards, and `WorkingHelloID` becomes the id of
  that connection; `returns_first_success` is the converse (a success is never skipped);
  `recorded_is_tried` — for ids the handshake does not rewrite, the recorded id is the attempted one;
* `no_success_unchanged` — without a successful handshake `WorkingHelloID` keeps its value;
* `dial_error_immediate` — the first failing TCP dial ends the call with that error: no further attempt, no
  change of the working id; `dial_error_only_from_dial` — a dial error is reported only when a dial failed;
* `all_tried_on_failure` — if every handshake fails (and every dial works) every configured id was tried;
* `history_all` / `history_sticky` — over every sequential history of Dials on one Roller (stream and working
  id threaded): the id recorded by one call is the first one tried by the next;
* `dial_lock_discipline` / `dial_accesses` / `disciplined_protects` — shape facts about the source of `Dial` as it
  is now (skeleton regenerated from u_roller.go on every run): `WorkingHelloID` is accessed exactly twice, one
  read then one write, each inside a `HelloIDMu` region without control transfers — what makes the two accesses
  the atomic steps of the schedules below;
* `conc_inv` / `conc_dials_sequential` — over every schedule of the two critical sections of any number of
  concurrent Dials: the shared working id is always the initial one or one recorded by a successful
  handshake, and every caller's outcome is that of a sequential `Dial` started from the value it read.
-/
namespace C29
open Roller

variable {Id : Type} [DecidableEq Id]

/-- **A recorded working id is tried first.** The only way it is not attempted is a failing first TCP dial. -/
theorem working_first (sh : List Id) (w : Id) (d : Nat → Bool) (hs : Nat → Id → Option Id) :
    (dialCore sh (some w) d hs).attempts.head? = some w ∨
    (d 0 = false ∧ dialCore sh (some w) d hs = ⟨.dialErr 0, [], some w⟩) := by
  have hh := prioritise_head sh w
  unfold dialCore
  cases ho : prioritise sh (some w) with
  | nil => simp [ho] at hh
  | cons x rest =>
    simp [ho] at hh
    subst hh
    unfold loop
    cases hd : d 0 with
    | false => right; simp
    | true =>
      left
      cases hs 0 x <;> simp

/-- **Each id at most once**: with duplicate-free `HelloIDs` (and `sh` any permutation of it) the attempts are
duplicate-free, and each attempted id is configured or is the recorded working id. -/
theorem each_once (ids sh : List Id) (working : Option Id) (d : Nat → Bool) (hs : Nat → Id → Option Id)
    (hnd : ids.Nodup) (hp : sh.Perm ids) :
    (dialCore sh working d hs).attempts.Nodup ∧
    ∀ a ∈ (dialCore sh working d hs).attempts, a ∈ ids ∨ working = some a := by
  have hpre := loop_attempts_prefix d hs working 0 (prioritise sh working)
  have hnd' : (prioritise sh working).Nodup := prioritise_nodup sh working (hp.nodup_iff.mpr hnd)
  refine ⟨hpre.sublist.nodup hnd', ?_⟩
  intro a ha
  rcases prioritise_mem sh working a (hpre.subset ha) with h | h
  · exact Or.inl (hp.mem_iff.mp h)
  · exact Or.inr h

/-- `each_once` through the real shuffle (`rand.Shuffle` over the Roller's prng), for every stream. -/
theorem each_once_dial (ids : List Id) (s r : Prng.Stream) (working : Option Id) (d : Nat → Bool)
    (hs : Nat → Id → Option Id) (o : Out Id) (hnd : ids.Nodup) (h : dial ids s working d hs = some (o, r)) :
    o.attempts.Nodup ∧ ∀ a ∈ o.attempts, a ∈ ids ∨ working = some a := by
  unfold dial at h
  cases hsuf : Prng.shuffle ids s with
  | none => simp [hsuf] at h
  | some p =>
    obtain ⟨sh, r'⟩ := p
    simp [hsuf] at h
    obtain ⟨rfl, _⟩ := h
    exact each_once ids sh working d hs hnd (C30.shuffle_is_perm ids sh s r' hsuf)

/-- **The first successful handshake is returned and recorded.** If `Dial` returns a connection (attempt `k`,
made with `a`, whose `ClientHelloID` is `r` afterwards) then `a` is the `k`-th id of the order, its handshake
succeeded, every earlier attempt dialled fine and failed its handshake, exactly the first `k+1` ids were
tried, and `WorkingHelloID` is now `r`. -/
theorem first_success_recorded (sh : List Id) (working : Option Id) (d : Nat → Bool)
    (hs : Nat → Id → Option Id) (k : Nat) (a r : Id)
    (h : (dialCore sh working d hs).result = .conn k a r) :
    (prioritise sh working)[k]? = some a ∧ hs k a = some r ∧ d k = true ∧
    FailsBefore d hs 0 (prioritise sh working) k ∧
    (dialCore sh working d hs).attempts = (prioritise sh working).take (k + 1) ∧
    (dialCore sh working d hs).working = some r := by
  unfold dialCore at h ⊢
  rcases loop_cases d hs 0 (prioritise sh working) with ⟨i, a', r', h1, h2, h3, h4⟩ | ⟨i, h1, h2, h3⟩ | h1
  · rw [loop_success_at d hs working 0 _ i a' r' h1 h2 h3 h4] at h ⊢
    simp at h
    obtain ⟨rfl, rfl, rfl⟩ := h
    simp at h2 h4
    exact ⟨h3, h4, h2, h1, rfl, rfl⟩
  · rw [loop_dialErr_at d hs working 0 _ i h1 h2 h3] at h
    simp at h
  · rw [loop_exhausted_at d hs working 0 _ h1] at h
    simp at h

/-- Converse: a success is never skipped — the first attempt that can be dialled and whose handshake succeeds
ends the call with that connection. -/
theorem returns_first_success (sh : List Id) (working : Option Id) (d : Nat → Bool)
    (hs : Nat → Id → Option Id) (k : Nat) (a r : Id)
    (hf : FailsBefore d hs 0 (prioritise sh working) k) (hd : d k = true)
    (ha : (prioritise sh working)[k]? = some a) (hh : hs k a = some r) :
    dialCore sh working d hs = ⟨.conn k a r, (prioritise sh working).take (k + 1), some r⟩ := by
  unfold dialCore
  have := loop_success_at d hs working 0 _ k a r hf (by simpa using hd) ha (by simpa using hh)
  simpa using this

/-- handshake oracles that leave the connection's `ClientHelloID` alone (every id except a randomized one
whose `Seed`/`Weights` are still nil). -/
def Stable (hs : Nat → Id → Option Id) : Prop := ∀ k a r, hs k a = some r → r = a

/-- For such ids the recorded working id is exactly the id the successful attempt was made with. -/
theorem recorded_is_tried (sh : List Id) (working : Option Id) (d : Nat → Bool)
    (hs : Nat → Id → Option Id) (hst : Stable hs) (k : Nat) (a r : Id)
    (h : (dialCore sh working d hs).result = .conn k a r) :
    r = a ∧ (dialCore sh working d hs).working = some a ∧
    (dialCore sh working d hs).attempts.getLast? = some a := by
  obtain ⟨h1, h2, _, _, h5, h6⟩ := first_success_recorded sh working d hs k a r h
  have e := hst k a r h2
  subst e
  refine ⟨rfl, h6, ?_⟩
  rw [h5, List.take_add_one, h1]
  simp

/-- Without a successful handshake the stored working id is left as it was. -/
theorem no_success_unchanged (sh : List Id) (working : Option Id) (d : Nat → Bool)
    (hs : Nat → Id → Option Id) (h : ∀ k a r, (dialCore sh working d hs).result ≠ .conn k a r) :
    (dialCore sh working d hs).working = working := by
  unfold dialCore at h ⊢
  rcases loop_cases d hs 0 (prioritise sh working) with ⟨i, a', r', h1, h2, h3, h4⟩ | ⟨i, h1, h2, h3⟩ | h1
  · rw [loop_success_at d hs working 0 _ i a' r' h1 h2 h3 h4] at h
    exact absurd rfl (h _ _ _)
  · rw [loop_dialErr_at d hs working 0 _ i h1 h2 h3]
  · rw [loop_exhausted_at d hs working 0 _ h1]

/-- **A TCP dial error is returned immediately**: if attempt `k` is reached (all earlier attempts dialled fine
and failed their handshake) and its dial fails, the call returns that error, tried exactly the first `k` ids
and leaves the working id alone. -/
theorem dial_error_immediate (sh : List Id) (working : Option Id) (d : Nat → Bool)
    (hs : Nat → Id → Option Id) (k : Nat) (hk : k < (prioritise sh working).length)
    (hf : FailsBefore d hs 0 (prioritise sh working) k) (hd : d k = false) :
    dialCore sh working d hs = ⟨.dialErr k, (prioritise sh working).take k, working⟩ := by
  unfold dialCore
  have := loop_dialErr_at d hs working 0 _ k hf hk (by simpa using hd)
  simpa using this

/-- Converse: a dial error is reported only when that dial failed, after exactly `k` failed handshakes. -/
theorem dial_error_only_from_dial (sh : List Id) (working : Option Id) (d : Nat → Bool)
    (hs : Nat → Id → Option Id) (k : Nat) (h : (dialCore sh working d hs).result = .dialErr k) :
    d k = false ∧ k < (prioritise sh working).length ∧ FailsBefore d hs 0 (prioritise sh working) k ∧
    (dialCore sh working d hs).attempts = (prioritise sh working).take k ∧
    (dialCore sh working d hs).working = working := by
  unfold dialCore at h ⊢
  rcases loop_cases d hs 0 (prioritise sh working) with ⟨i, a', r', h1, h2, h3, h4⟩ | ⟨i, h1, h2, h3⟩ | h1
  · rw [loop_success_at d hs working 0 _ i a' r' h1 h2 h3 h4] at h
    simp at h
  · rw [loop_dialErr_at d hs working 0 _ i h1 h2 h3] at h ⊢
    simp at h
    subst h
    simp at h3
    exact ⟨h3, h2, h1, rfl, rfl⟩
  · rw [loop_exhausted_at d hs working 0 _ h1] at h
    simp at h

/-- If the call ends because the list ran out, every configured id (and the working id) was tried, in order,
and the working id is unchanged; `n = 0` (Go returns `(nil, nil)`) happens only for an empty order. -/
theorem all_tried_on_failure (sh : List Id) (working : Option Id) (d : Nat → Bool)
    (hs : Nat → Id → Option Id) (n : Nat) (h : (dialCore sh working d hs).result = .exhausted n) :
    n = (prioritise sh working).length ∧
    (dialCore sh working d hs).attempts = prioritise sh working ∧
    (∀ a ∈ sh, a ∈ (dialCore sh working d hs).attempts) ∧
    (dialCore sh working d hs).working = working := by
  have hmem := mem_prioritise sh working
  unfold dialCore at h ⊢
  rcases loop_cases d hs 0 (prioritise sh working) with ⟨i, a', r', h1, h2, h3, h4⟩ | ⟨i, h1, h2, h3⟩ | h1
  · rw [loop_success_at d hs working 0 _ i a' r' h1 h2 h3 h4] at h
    simp at h
  · rw [loop_dialErr_at d hs working 0 _ i h1 h2 h3] at h
    simp at h
  · rw [loop_exhausted_at d hs working 0 _ h1] at h ⊢
    simp at h
    exact ⟨h.symm, rfl, fun a ha => hmem a ha, rfl⟩

/-! ## Histories -/

/-- `P` holds of every call of a history, each judged against the working id left by its predecessor. -/
def HistoryAll (P : Option Id → Out Id → Prop) : Option Id → List (Out Id) → Prop
  | _, [] => True
  | w, o :: os => P w o ∧ HistoryAll P o.working os

/-- **Every sequential history**: whatever holds of a single `Dial` for every shuffle result that is a
permutation of `HelloIDs` holds of every call of every history (any stream, any oracles per call). -/
theorem history_all (ids : List Id) (P : Option Id → Out Id → Prop)
    (hP : ∀ sh w d hs, sh.Perm ids → P w (dialCore sh w d hs))
    (cs : List (Call Id)) (s : Prng.Stream) (w : Option Id) (outs : List (Out Id))
    (h : runCalls ids cs s w = some outs) : HistoryAll P w outs := by
  induction cs generalizing s w outs with
  | nil => simp [runCalls] at h; subst h; trivial
  | cons c cs ih =>
    unfold runCalls at h
    cases hd : dial ids s w c.dialO c.hs with
    | none => simp [hd] at h
    | some p =>
      obtain ⟨o, r⟩ := p
      simp only [hd] at h
      cases hr : runCalls ids cs r o.working with
      | none => simp [hr] at h
      | some os =>
        simp [hr] at h
        subst h
        refine ⟨?_, ih r o.working os hr⟩
        unfold dial at hd
        cases hsuf : Prng.shuffle ids s with
        | none => simp [hsuf] at hd
        | some q =>
          obtain ⟨sh, r'⟩ := q
          simp [hsuf] at hd
          obtain ⟨rfl, _⟩ := hd
          exact hP sh w c.dialO c.hs (C30.shuffle_is_perm ids sh s r' hsuf)

/-- what one call of a history owes to its predecessor and to the configuration. -/
def CallOK (ids : List Id) (w : Option Id) (o : Out Id) : Prop :=
  (∀ v, w = some v → o.attempts.head? = some v ∨ o = ⟨.dialErr 0, [], some v⟩) ∧
  (ids.Nodup → o.attempts.Nodup) ∧
  (∀ a ∈ o.attempts, a ∈ ids ∨ w = some a) ∧
  ((∀ k a r, o.result ≠ .conn k a r) → o.working = w) ∧
  (∀ k a r, o.result = .conn k a r → o.working = some r ∧ o.attempts.getLast? = some a)

/-- **The working id sticks across calls**: in every history every call starts with the id its predecessor
recorded (or kept), tries no id twice, tries only configured ids or that working id, changes the working id
only on success, and then to the id of the returned connection. -/
theorem history_sticky (ids : List Id) (cs : List (Call Id)) (s : Prng.Stream) (w : Option Id)
    (outs : List (Out Id)) (h : runCalls ids cs s w = some outs) : HistoryAll (CallOK ids) w outs := by
  refine history_all ids (CallOK ids) ?_ cs s w outs h
  intro sh w d hs hp
  refine ⟨?_, ?_, ?_, no_success_unchanged sh w d hs, ?_⟩
  · intro v hv
    subst hv
    rcases working_first sh v d hs with h | ⟨_, h⟩
    · exact Or.inl h
    · exact Or.inr h
  · intro hnd
    exact (each_once ids sh w d hs hnd hp).1
  · intro a ha
    have hpre := loop_attempts_prefix d hs w 0 (prioritise sh w)
    rcases prioritise_mem sh w a (hpre.subset ha) with h | h
    · exact Or.inl (hp.mem_iff.mp h)
    · exact Or.inr h
  · intro k a r hr
    obtain ⟨h1, _, _, _, h5, h6⟩ := first_success_recorded sh w d hs k a r hr
    refine ⟨h6, ?_⟩
    rw [h5, List.take_add_one, h1]
    simp

/-! ## The mutex discipline of the source (shape facts, regenerated from u_roller.go) -/

/-- General: in a disciplined skeleton every access of `WorkingHelloID` happens with `HelloIDMu` held. -/
theorem disciplined_protects (sk : List Nat) (held : Bool) (h : disciplined held sk = true)
    (pre post : List Nat) (e : Nat) (hs : sk = pre ++ e :: post) (he : e = 2 ∨ e = 3) :
    heldAfter held pre = true := by
  induction pre generalizing sk held with
  | nil =>
    subst hs
    rcases he with rfl | rfl <;> simp [disciplined] at h <;> simp [heldAfter, h.1]
  | cons x pre ih =>
    subst hs
    match x, h with
    | 0, h => simp [disciplined] at h; simpa [heldAfter] using ih _ true h.2 rfl
    | 1, h => simp [disciplined] at h; simpa [heldAfter] using ih _ false h.2 rfl
    | 2, h => simp [disciplined] at h; simpa [heldAfter] using ih _ held h.2 rfl
    | 3, h => simp [disciplined] at h; simpa [heldAfter] using ih _ held h.2 rfl
    | 4, h => simp [disciplined] at h; simpa [heldAfter] using ih _ held h.2 rfl
    | n + 5, h => simp [disciplined] at h

/-- **The source of `Dial` as it is now keeps the discipline.** -/
theorem dial_lock_discipline : disciplined false Gen.RollerShape.dialShape = true := by decide

/-- … and touches `WorkingHelloID` exactly twice: one (locked) read, then one (locked) write — the two atomic
steps of `cstep`. -/
theorem dial_accesses : accesses Gen.RollerShape.dialShape = [2, 3] := by decide

-- non-vacuity: an unlocked write, a return inside the locked region, and a missing unlock are all rejected
example : disciplined false [0, 2, 1, 4, 3, 4] = false := by decide
example : disciplined false [0, 2, 4, 1] = false := by decide
example : disciplined false [0, 2, 1, 0, 3] = false := by decide
example : disciplined false [0, 2, 1, 4, 4, 0, 3, 1, 4] = true := by decide

/-! ## Concurrent callers -/

/-- values the shared `WorkingHelloID` can ever hold: the initial one, or the id some thread's successful
handshake left in its connection. -/
def Reach (ths : List (Thread Id)) (w0 : Option Id) (w : Option Id) : Prop :=
  w = w0 ∨ ∃ (t : Nat) (th : Thread Id) (k : Nat) (a r : Id), ths[t]? = some th ∧ th.hs k a = some r ∧ w = some r

/-- what is known about a thread that has performed its read. -/
def PcOK (ths : List (Thread Id)) (w0 : Option Id) (t : Nat) : Pc Id → Prop
  | .idle => True
  | .running rw o | .done rw o =>
    Reach ths w0 rw ∧ ∃ th, ths[t]? = some th ∧ o = dialCore th.sh rw th.dialO th.hs

def Inv (ths : List (Thread Id)) (w0 : Option Id) (st : CState Id) : Prop :=
  Reach ths w0 st.shared ∧ ∀ t pc, st.pcs[t]? = some pc → PcOK ths w0 t pc

private theorem cstep_inv (ths : List (Thread Id)) (w0 : Option Id) (st : CState Id) (t : Nat)
    (h : Inv ths w0 st) : Inv ths w0 (cstep ths st t) := by
  obtain ⟨hsh, hpcs⟩ := h
  unfold cstep
  split
  · -- idle: locked read + local loop
    rename_i th hth hpc
    refine ⟨hsh, ?_⟩
    intro t' pc' hget
    rw [List.getElem?_set] at hget
    split at hget
    · split at hget
      · cases hget
        rename_i e _
        subst e
        exact ⟨hsh, th, hth, rfl⟩
      · cases hget
    · exact hpcs t' pc' hget
  · -- running: locked write on success / plain return otherwise
    rename_i th rw o hth hpc
    have hok := hpcs t _ hpc
    obtain ⟨hrw, th', hth', ho⟩ := hok
    have keep : ∀ (sh' : Option Id), ∀ t' pc', ((st.pcs.set t (.done rw o))[t']? = some pc') → PcOK ths w0 t' pc' := by
      intro _ t' pc' hget
      rw [List.getElem?_set] at hget
      split at hget
      · split at hget
        · cases hget
          rename_i e _
          subst e
          exact ⟨hrw, th', hth', ho⟩
        · cases hget
      · exact hpcs t' pc' hget
    split
    · rename_i k a r hres
      rw [ho] at hres
      obtain ⟨_, h2, _⟩ := first_success_recorded th'.sh rw th'.dialO th'.hs k a r hres
      exact ⟨show Reach ths w0 (some r) from Or.inr ⟨t, th', k, a, r, hth', h2, rfl⟩, keep none⟩
    · exact ⟨hsh, keep none⟩
  · exact ⟨hsh, hpcs⟩

/-- **Every schedule**: for any number of concurrent Dials and any interleaving of their critical sections the
invariant holds — the shared working id is the initial one or one recorded by a successful handshake, and the
outcome of every caller that has started is exactly the sequential `Dial` from the value it read under the
mutex (itself such a value). -/
theorem conc_inv (ths : List (Thread Id)) (w0 : Option Id) (sched : List Nat) :
    Inv ths w0 (crun ths w0 sched) := by
  unfold crun
  have h0 : Inv ths w0 ⟨w0, ths.map fun _ => Pc.idle⟩ := by
    refine ⟨show Reach ths w0 w0 from Or.inl rfl, ?_⟩
    intro t pc hget
    simp at hget
    obtain ⟨_, _, rfl⟩ := hget
    trivial
  generalize (⟨w0, ths.map fun _ => Pc.idle⟩ : CState Id) = st at h0
  induction sched generalizing st with
  | nil => exact h0
  | cons t rest ih => exact ih _ (cstep_inv ths w0 st t h0)

/-- Consequence for each caller, under every schedule: it tried the id it read first, tried nothing twice
(duplicate-free configuration), and what it read was the initial or a genuinely recorded id. -/
theorem conc_dials_sequential (ths : List (Thread Id)) (w0 : Option Id) (sched : List Nat) (t : Nat)
    (rw : Option Id) (o : Out Id)
    (h : (crun ths w0 sched).pcs[t]? = some (.running rw o) ∨ (crun ths w0 sched).pcs[t]? = some (.done rw o)) :
    Reach ths w0 rw ∧ ∃ th, ths[t]? = some th ∧ o = dialCore th.sh rw th.dialO th.hs ∧
      (∀ v, rw = some v → o.attempts.head? = some v ∨ o = ⟨.dialErr 0, [], some v⟩) ∧
      (th.sh.Nodup → o.attempts.Nodup) := by
  obtain ⟨_, hpcs⟩ := conc_inv ths w0 sched
  have hok : PcOK ths w0 t (.running rw o) := by
    rcases h with h | h
    · exact hpcs t _ h
    · have := hpcs t _ h
      exact this
  obtain ⟨hrw, th, hth, ho⟩ := hok
  refine ⟨hrw, th, hth, ho, ?_, ?_⟩
  · intro v hv
    subst hv; subst ho
    rcases working_first th.sh v th.dialO th.hs with h | ⟨_, h⟩
    · exact Or.inl h
    · exact Or.inr h
  · intro hnd
    subst ho
    exact (each_once th.sh th.sh rw th.dialO th.hs hnd (List.Perm.refl _)).1

/-! ## Non-vacuity: concrete instances (ids are numbers) -/

/-- handshake oracle of a server that accepts exactly the ids in `acc` (and leaves ids alone). -/
def accepts (acc : List Nat) : Nat → Nat → Option Nat := fun _ a => if a ∈ acc then some a else none

-- working id 3 sits in the middle of the shuffled list: it is swapped to the front and tried first
example : dialCore [1, 2, 3, 4] (some 3) (fun _ => true) (accepts [4]) =
    ⟨.conn 3 4 4, [3, 2, 1, 4], some 4⟩ := by decide
-- working id 9 is not configured: it is prepended, then each configured id once
example : (dialCore [1, 2, 3] (some 9) (fun _ => true) (accepts [])) = ⟨.exhausted 4, [9, 1, 2, 3], some 9⟩ := by decide
-- first success recorded, later ids not tried
example : dialCore [1, 2, 3] none (fun _ => true) (accepts [2, 3]) = ⟨.conn 1 2 2, [1, 2], some 2⟩ := by decide
-- the third TCP dial fails: returned at once, working id untouched
example : dialCore [1, 2, 3, 4] (some 2) (fun k => k != 2) (accepts [4]) = ⟨.dialErr 2, [2, 1], some 2⟩ := by decide
-- a randomized id whose handshake rewrites the connection's id (7 ↦ 70): 70 is what gets recorded
example : dialCore [7, 1] none (fun _ => true) (fun _ a => if a = 7 then some 70 else none) =
    ⟨.conn 0 7 70, [7], some 70⟩ := by decide
-- … and on the next call 70 is prepended and 7 is tried as well (distinct ids in Go's `==`)
example : (dialCore [1, 7] (some 70) (fun _ => true) (accepts [])).attempts = [70, 1, 7] := by decide
-- through the real shuffle (two draws per call: orders [2,1,3] then [1,2,3]), two calls in a row: the recorded id leads the second
example : (runCalls [1, 2, 3] [⟨fun _ => true, accepts [2]⟩, ⟨fun _ => true, accepts []⟩]
    [0x6000000000000000, 0, 0x6000000000000000, 0x4000000000000000] none).map (·.map (·.attempts)) =
    some [[2], [2, 1, 3]] := by decide
example : Stable (accepts [1, 2]) := by
  intro k a r h; unfold accepts at h; split at h <;> simp_all
-- two concurrent callers, schedule read₀ read₁ write₀ write₁: both read `none`, the later write wins
example : (crun [⟨[1, 2], fun _ => true, accepts [1]⟩, ⟨[2, 1], fun _ => true, accepts [2]⟩] none [0, 1, 0, 1]).shared
    = some 2 := by decide

/-! the theorems instantiated (their hypotheses are satisfiable by non-trivial instances) -/
example := each_once [1, 2, 3, 4] [3, 1, 4, 2] (some 4) (fun _ => true) (accepts [2]) (by decide) (by decide)
example := each_once_dial [1, 2, 3] [0x6000000000000000, 0] [] (some 3) (fun _ => true) (accepts [1])
  ⟨.conn 1 1 1, [3, 1], some 1⟩ (by decide) (by decide)
example := first_success_recorded [1, 2, 3, 4] (some 3) (fun _ => true) (accepts [4]) 3 4 4 (by decide)
example := recorded_is_tried [1, 2, 3, 4] (some 3) (fun _ => true) (accepts [4])
  (by intro k a r h; unfold accepts at h; split at h <;> simp_all) 3 4 4 (by decide)
example : FailsBefore (fun k => k != 2) (accepts [4]) 0 (prioritise [1, 2, 3, 4] (some 2)) 2 := by
  intro j hj
  match j, hj with
  | 0, _ => exact ⟨rfl, 2, rfl, rfl⟩
  | 1, _ => exact ⟨rfl, 1, rfl, rfl⟩
example := dial_error_immediate [1, 2, 3, 4] (some 2) (fun k => k != 2) (accepts [4]) 2 (by decide)
  (by intro j hj
      match j, hj with
      | 0, _ => exact ⟨rfl, 2, rfl, rfl⟩
      | 1, _ => exact ⟨rfl, 1, rfl, rfl⟩) rfl
example := dial_error_only_from_dial [1, 2, 3, 4] (some 2) (fun k => k != 2) (accepts [4]) 2 (by decide)
example := all_tried_on_failure [1, 2, 3] (some 9) (fun _ => true) (accepts []) 4 (by decide)
example := no_success_unchanged [1, 2, 3] (some 9) (fun _ => true) (accepts [])
  (by intro k a r
      rw [show (dialCore [1, 2, 3] (some 9) (fun _ => true) (accepts [])).result = .exhausted 4 from by decide]
      simp)

end C29
